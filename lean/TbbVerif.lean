import TbbVerif.Core.Sched
import TbbVerif.Core.Proto
import TbbVerif.Model.C11
