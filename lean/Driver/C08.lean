import TbbVerif.Core.Proto
import TbbVerif.Model.C08

open TbbVerif

def drivers : List (String × Proto.Driver) := [
  ("c08rw", C08.driverRw),
  ("c08spin", C08.driverSpin)
]

def main (args : List String) : IO UInt32 := Proto.mainOf drivers args
