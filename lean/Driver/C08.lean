import TbbVerif.Core.Proto
import TbbVerif.Model.C08
import TbbVerif.Model.C08Q
import TbbVerif.Model.C08S

open TbbVerif

def drivers : List (String × Proto.Driver) := [
  ("c08rw", C08.driverRw),
  ("c08spin", C08.driverSpin),
  ("c08mcs", C08.Mcs.driver),
  ("c08qrw", C08.QRw.driver),
  ("c08mx", C08.Slp.driverMx),
  ("c08rwm", C08.Slp.driverRw)
]

def main (args : List String) : IO UInt32 := Proto.mainOf drivers args
