import TbbVerif.Core.Proto
import TbbVerif.Model.C08
import TbbVerif.Model.C08Q
import TbbVerif.Model.C08S
import TbbVerif.Model.C08N
import TbbVerif.Model.C08R
import TbbVerif.Model.C08NInv
import TbbVerif.Model.C08NX

open TbbVerif

def drivers : List (String × Proto.Driver) := [
  ("c08rw", C08.driverRw),
  ("c08spin", C08.driverSpin),
  ("c08mcs", C08.Mcs.driver),
  ("c08qrw", C08.QRw.driver),
  ("c08qrwn", C08.QRwN.Explore.driverInv),
  ("c08rtm", C08.Rtm.driver),
  ("c08qrwx", C08.QRwN.Explore.driver),
  ("c08mx", C08.Slp.driverMx),
  ("c08rwm", C08.Slp.driverRw)
]

def main (args : List String) : IO UInt32 := Proto.mainOf drivers args
