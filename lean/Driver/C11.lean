import TbbVerif.Core.Proto
import TbbVerif.Model.C11

open TbbVerif

def drivers : List (String × Proto.Driver) := [
  ("c11", C11.driver),
  ("c11st", C11.driverSt)
]

def main (args : List String) : IO UInt32 := Proto.mainOf drivers args
