import TbbVerif.Core.Proto
import TbbVerif.Model.C11
import TbbVerif.Model.C11SegDrv

open TbbVerif

def drivers : List (String × Proto.Driver) := [
  ("c11", C11.driver),
  ("c11st", C11.driverSt),
  ("c11seg", C11.Seg.driverSeg)
]

def main (args : List String) : IO UInt32 := Proto.mainOf drivers args
