/-
Line-protocol driver `c15bat`: the batch layer of Model/C15Batch.lean (about which `node_batch_linearizable`,
`node_contract_under_batches`, `forwarder_task_no_loss` are proved) against harness/c15/batch.cpp, which forces the
same batches through the REAL aggregator of the REAL nodes.

  reset <buffer|queue|seq|seqid|prio> <mode>
  verdicts <a|r|p> <a|r|p>...        the answers of the next try_put_task calls (any successor), then the default (first word)
  batch  <op>...                     operations in ARRIVAL order, white-box `my_aggregator.execute`; forwarding tasks are held
  batchp <op>...                     the same through the public API; tasks run (`wait_for_all`) after the batch
  drain                              the held forwarder submits try_fwd_task until one FAILS
  shift <n>                          (empty buffer) my_head = my_tail = n
  ops: s<r> reg_succ   x<r> rem_succ   g req_item   r res_item   l rel_res   c con_res   p<v> put_item   f try_fwd_task
-/
import TbbVerif.Core.Proto
import TbbVerif.Model.C15Batch
import TbbVerif.Model.C15Join

open TbbVerif TbbVerif.C15 TbbVerif.C15.Batch

namespace C15BatDrv
open Proto

def commaSep (xs : List String) : String := if xs.isEmpty then "-" else ",".intercalate xs
def spaceSep (xs : List String) : String := if xs.isEmpty then "-" else " ".intercalate xs

def showSlot : Slot → String
  | none => "_"
  | some (v, false) => toString v
  | some (v, true) => toString v ++ "*"
def rawChar : Slot → String
  | none => "."
  | some (_, false) => "h"
  | some (_, true) => "r"
def dumpBuf (b : ItemBuf) : String :=
  s!"{b.head} {b.tail} {b.arr.length} | {commaSep (b.view.map showSlot)} | {String.join (b.arr.map rawChar)}"

def showV : Verdict → String
  | .accept => "a" | .reject => "r" | .rejectPull => "p"
def parseV (w : String) : Option Verdict :=
  if w == "a" then some .accept else if w == "r" then some .reject else if w == "p" then some .rejectPull else none

def parseOp (w : String) : Option NOp :=
  if w == "g" then some .reqItem else if w == "r" then some .resItem
  else if w == "l" then some .relRes else if w == "c" then some .conRes else if w == "f" then some .tryFwd
  else if w.startsWith "p" then (nat? (w.drop 1).toString).map NOp.putItem
  else if w.startsWith "s" then (nat? (w.drop 1).toString).bind (fun r => if r < 4 then some (NOp.regSucc r) else none)
  else if w.startsWith "x" then (nat? (w.drop 1).toString).bind (fun r => if r < 4 then some (NOp.remSucc r) else none)
  else none

def showRes : NRes → String
  | .succeeded => "S" | .failed => "F" | .misuse => "M" | .ub => "U"
  | .item v => toString v

/-- release / consume are legal only for a reservation held when the batch starts, and only as the first of the
reservation operations the handler meets (list order) -/
def relOk (reserved : Bool) : List NOp → Bool → Bool
  | [], _ => true
  | .resItem :: ops, _ => relOk reserved ops false
  | .relRes :: ops, ok => ok && relOk reserved ops false
  | .conRes :: ops, ok => ok && relOk reserved ops false
  | _ :: ops, ok => relOk reserved ops ok

structure Gen (σ : Type) where
  C : Core σ
  reserved : σ → Bool
  dump : σ → String
  shift : σ → Nat → Option σ

structure BatD where
  kind : String := ""
  mode : Nat := 0
  bs : NSt BufSt := bufInit
  ps : NSt PrioSt := prioInit
  oracle : List Verdict := []
  dflt : Verdict := .accept
  base : Nat := 0

def BatD.ω (d : BatD) : Nat → Verdict := fun t => if t < d.base then d.dflt else d.oracle.getD (t - d.base) d.dflt

def bufGen (k : Kind) (mode : Nat) (f : Nat → Nat) (wide : Bool) : Gen BufSt :=
  { C := if wide then seqCore64 mode f else bufCore k mode f
    reserved := (·.reserved)
    dump := fun s => dumpBuf s.buf
    shift := fun s n =>
      if s.buf.head == s.buf.tail && !s.reserved && n < 2 ^ 64 then some { s with buf := { s.buf with head := n, tail := n } } else none }

def prioGen : Gen PrioSt :=
  { C := prioCore
    reserved := (·.resv.isSome)
    dump := fun s => s!"{s.mark} | {commaSep (s.data.map toString)}"
    shift := fun _ _ => none }

def showState {σ : Type} (G : Gen σ) (s : NSt σ) : String :=
  s!"{showBool (G.reserved s.core)} {showBool (G.C.busy s.core)} {s.live} | {commaSep (s.succs.map toString)} | {G.dump s.core}"

def showOffers (l : List (Nat × Nat × Verdict)) : String :=
  spaceSep (l.map (fun o => s!"r{o.1}:{o.2.1}:{showV o.2.2}"))

/-- the forwarder's loop: single-operation batches [try_fwd_task] while it is live -/
def drainLoop {σ : Type} (G : Gen σ) (ω : Nat → Verdict) : Nat → NSt σ → List String → NSt σ × List String
  | 0, s, acc => (s, acc)
  | fuel + 1, s, acc =>
    if s.live == 0 then (s, acc) else
    let r := handleOps G.C Skel.generated ω s [.tryFwd]
    drainLoop G ω fuel r.1 (acc ++ r.2.1.map showRes)

def fuelOf {σ : Type} (s : NSt σ) : Nat := s.offers.length + 4

def runBatch {σ : Type} (G : Gen σ) (ω : Nat → Verdict) (s : NSt σ) (arr : List NOp) (pub : Bool) : Option (NSt σ × String) :=
  let batch := batchOf arr
  let nf := countFwd arr
  if arr.isEmpty || !relOk (G.reserved s.core) batch (G.reserved s.core) then none
  else if pub && (nf > 0 || s.live > 0) then none
  else if !pub && (nf > 1 || (nf == 1 && s.live == 0)) then none
  else
    let r := handleOps G.C Skel.generated ω s batch
    let res := r.2.1.reverse.map showRes          -- back to arrival order
    let s2 := if pub then (drainLoop G ω 4096 r.1 []).1 else r.1
    let offers := s2.offers.drop s.offers.length
    let t := if pub then "p" else showBool r.2.2
    some (s2, s!"{commaSep res} ; {showOffers offers} ; T{t} ; {showState G s2}")

def stepGen {σ : Type} (G : Gen σ) (d : BatD) (s : NSt σ) (ws : List String) : Option (NSt σ × String) :=
  match ws with
  | "batch" :: ops => (ops.mapM parseOp).bind (fun arr => runBatch G d.ω s arr false)
  | "batchp" :: ops => (ops.mapM parseOp).bind (fun arr => runBatch G d.ω s arr true)
  | ["drain"] =>
    let (s2, rs) := drainLoop G d.ω 4096 s []
    some (s2, s!"{if rs.isEmpty then "-" else String.join rs} ; {showOffers (s2.offers.drop s.offers.length)} ; T0 ; {showState G s2}")
  | ["shift", n] => (nat? n).bind (fun n => (G.shift s.core n).map (fun c => ({ s with core := c }, s!"ok ; {showState G { s with core := c }}")))
  | _ => none

def genOf (d : BatD) : Option (Gen BufSt) :=
  match d.kind with
  | "buffer" => some (bufGen .buffer d.mode id false)
  | "queue" => some (bufGen .queue d.mode id false)
  | "seq" => some (bufGen .sequencer d.mode (· / 8) true)
  | "seqid" => some (bufGen .sequencer d.mode id true)
  | _ => none

def drive (d : BatD) (ws : List String) : BatD × String :=
  match ws with
  | ["reset", kind, mode] =>
    match nat? mode with
    | some m =>
      if kind == "buffer" || kind == "queue" || kind == "seq" || kind == "seqid" || kind == "prio" then
        ({ kind := kind, mode := m }, "ok")
      else (d, "bad-op")
    | none => (d, "bad-op")
  | "verdicts" :: dv :: vs =>
    match parseV dv, vs.mapM parseV with
    | some dv, some vs =>
      let t := if d.kind == "prio" then d.ps.tick else d.bs.tick
      ({ d with oracle := vs, dflt := dv, base := t }, "ok")
    | _, _ => (d, "bad-op")
  | _ =>
    if d.kind == "prio" then
      match stepGen prioGen d d.ps ws with
      | some (s, o) => ({ d with ps := s }, o)
      | none => (d, "bad-op")
    else
      match genOf d with
      | some G =>
        match stepGen G d d.bs ws with
        | some (s, o) => ({ d with bs := s }, o)
        | none => (d, "bad-op")
      | none => (d, "bad-op")

end C15BatDrv

/-! ### c15jb — join_node_base batches over the three front ends (Model/C15Join.lean) vs harness/c15/joinbatch.cpp

  reset <jq|jk|jr> <n>      n = 2 or 3 ports
  verdicts <d> <v>...
  put <port> <v>            a message arrives at the port (jr: the port's predecessor now offers v); then pending tasks run
  batch <op>...             base-node operations in ARRIVAL order: s<r> reg_succ, x<r> rem_succ, g try__get, f do_fwrd_bypass;
                            then the pending forwarding tasks run (one do_fwrd_bypass each) -/

namespace C15JbDrv
open Proto C15BatDrv TbbVerif.C15.Join

def showTuple (t : List Nat) : String := "(" ++ ",".intercalate (t.map toString) ++ ")"

def parseJOp (w : String) : Option JOp :=
  if w == "g" then some .tryGet else if w == "f" then some .doFwd
  else if w.startsWith "s" then (nat? (w.drop 1).toString).bind (fun r => if r < 4 then some (JOp.regSucc r) else none)
  else if w.startsWith "x" then (nat? (w.drop 1).toString).bind (fun r => if r < 4 then some (JOp.remSucc r) else none)
  else none

def showJRes : JRes → String
  | .succeeded => "S" | .failed => "F" | .tuple t => showTuple t

def showJOffers (l : List (Nat × List Nat × Verdict)) : String :=
  spaceSep (l.map (fun o => s!"r{o.1}:{showTuple o.2.1}:{showV o.2.2}"))

def drainJ {σ : Type} (F : FE σ) (ω : Nat → Verdict) : Nat → JSt σ → JSt σ
  | 0, s => s
  | fuel + 1, s =>
    if s.pending == 0 then s else
    drainJ F ω fuel (Join.handleOps F ω [.doFwd] { s with pending := s.pending - 1 }).1

def keyOf (v : Nat) : Nat := v / 8

def sortPairs (a : Assoc) : Assoc := (a.toArray.qsort (fun x y => x.1 < y.1)).toList

def jqDump (s : JqSt) : String :=
  s!"{s.pwni} | " ++ " / ".intercalate (s.ports.map (fun q => commaSep (q.map toString)))
def jkDump (s : JkSt) : String :=
  let tbl := fun (a : Assoc) => commaSep ((sortPairs a).map (fun kv => s!"{kv.1}={kv.2}"))
  s!"{commaSep (s.outbuf.map showTuple)} | {tbl s.counts} | " ++ " / ".intercalate (s.ports.map tbl)
def showEv : JrEv → String
  | .reserve p v => s!"res{p}:{v}"
  | .release p => s!"rel{p}"
  | .consume p => s!"con{p}"
def jrDump (s : JrFe) : String :=
  s!"{s.pwni} | {commaSep (s.avail.map (fun a => match a with | some v => toString v | none => "_"))} | {String.join (s.regd.map showBool)} | {String.join (s.core.resv.map showBool)}"

structure JbD where
  kind : String := ""
  n : Nat := 2
  jq : JSt JqSt := { fe := jqInit 2 }
  jk : JSt JkSt := { fe := jkInit 2 }
  jr : JSt JrFe := { fe := jrInit 2 }
  oracle : List Verdict := []
  dflt : Verdict := .accept
  base : Nat := 0

def JbD.ω (d : JbD) : Nat → Verdict := fun t => if t < d.base then d.dflt else d.oracle.getD (t - d.base) d.dflt

def lineOut {σ : Type} (dump : σ → String) (s0 s : JSt σ) (res : String) (extra : String) : String :=
  s!"{res} ; {showJOffers (s.offers.drop s0.offers.length)}{extra} ; {showBool s.busy} | {commaSep (s.succs.map toString)} | {dump s.fe}"

def batchJ {σ : Type} (F : FE σ) (dump : σ → String) (extra : JSt σ → JSt σ → String) (ω : Nat → Verdict) (s : JSt σ) (ws : List String) :
    Option (JSt σ × String) :=
  (ws.mapM parseJOp).bind (fun arr =>
    if arr.isEmpty || arr.length > 8 then none else
    let r := Join.handleOps F ω arr.reverse s
    let s2 := drainJ F ω 4096 r.1
    some (s2, lineOut dump s s2 (commaSep (r.2.reverse.map showJRes)) (extra s s2)))

def evExtra (s0 s : JSt JrFe) : String := s!" ; {spaceSep ((s.fe.log.drop s0.fe.log.length).map showEv)}"

def drive (d : JbD) (ws : List String) : JbD × String :=
  match ws with
  | ["reset", kind, n] =>
    match nat? n with
    | some n =>
      if (kind == "jq" || kind == "jk" || kind == "jr") && (n == 2 || n == 3) then
        ({ kind := kind, n := n, jq := { fe := jqInit n }, jk := { fe := jkInit n }, jr := { fe := jrInit n } }, "ok")
      else (d, "bad-op")
    | none => (d, "bad-op")
  | "verdicts" :: dv :: vs =>
    match parseV dv, vs.mapM parseV with
    | some dv, some vs =>
      let t := if d.kind == "jq" then d.jq.tick else if d.kind == "jk" then d.jk.tick else d.jr.tick
      ({ d with oracle := vs, dflt := dv, base := t }, "ok")
    | _, _ => (d, "bad-op")
  | ["put", p, v] =>
    match nat? p, nat? v with
    | some p, some v =>
      if p ≥ d.n then (d, "bad-op") else
      if d.kind == "jq" then
        match jqStep d.jq.fe (.put p v) with
        | (fe1, .ok spawn) =>
          let s1 : JSt JqSt := { d.jq with fe := fe1, pending := d.jq.pending + (if spawn then 1 else 0) }
          let s2 := drainJ jqFE d.ω 4096 s1
          ({ d with jq := s2 }, lineOut jqDump d.jq s2 "1" "")
        | _ => (d, "bad-op")
      else if d.kind == "jk" then
        let wasEmpty := d.jk.fe.outbuf.isEmpty
        match jkStep keyOf d.jk.fe (.put p v) with
        | (fe1, .ok filled) =>
          let s1 : JSt JkSt := { d.jk with fe := fe1, pending := d.jk.pending + (if filled && wasEmpty then 1 else 0) }
          let s2 := drainJ (jkFE keyOf) d.ω 4096 s1
          ({ d with jk := s2 }, lineOut jkDump d.jk s2 "1" "")
        | (fe1, .none) => ({ d with jk := { d.jk with fe := fe1 } }, lineOut jkDump d.jk { d.jk with fe := fe1 } "0" "")
        | _ => (d, "bad-op")
      else if d.kind == "jr" then
        if (d.jr.fe.avail.getD p none).isSome then (d, "bad-op") else
        let fe1 := jrOffer d.jr.fe (p, v)
        let s1 : JSt JrFe := { d.jr with fe := fe1, pending := d.jr.pending + (if fe1.pwni == 0 && d.jr.fe.pwni != 0 then 1 else 0) }
        let s2 := drainJ jrFE d.ω 4096 s1
        ({ d with jr := s2 }, lineOut jrDump d.jr s2 "ok" (evExtra d.jr s2))
      else (d, "bad-op")
    | _, _ => (d, "bad-op")
  | "batch" :: ops =>
    if d.kind == "jq" then
      match batchJ jqFE jqDump (fun _ _ => "") d.ω d.jq ops with
      | some (s, o) => ({ d with jq := s }, o)
      | none => (d, "bad-op")
    else if d.kind == "jk" then
      match batchJ (jkFE keyOf) jkDump (fun _ _ => "") d.ω d.jk ops with
      | some (s, o) => ({ d with jk := s }, o)
      | none => (d, "bad-op")
    else if d.kind == "jr" then
      match batchJ jrFE jrDump evExtra d.ω d.jr ops with
      | some (s, o) => ({ d with jr := s }, o)
      | none => (d, "bad-op")
    else (d, "bad-op")
  | _ => (d, "bad-op")

end C15JbDrv
