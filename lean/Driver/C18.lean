import TbbVerif.Core.Proto
import TbbVerif.Model.C18
import TbbVerif.Model.C18LadderDrv

open TbbVerif

def drivers : List (String × Proto.Driver) := [
  ("c18", C18.driver),
  ("c18ledger", C18.driverLedger),
  ("c18ld", C18.Ladder.driver)
]

def main (args : List String) : IO UInt32 := Proto.mainOf drivers args
