import TbbVerif.Core.Proto
import TbbVerif.Model.C10
import TbbVerif.Model.C10RD

open TbbVerif

def drivers : List (String × Proto.Driver) := [
  ("c10", C10.driver),
  ("c10r", C10R.driver)
]

def main (args : List String) : IO UInt32 := Proto.mainOf drivers args
