import TbbVerif.Core.Proto
import TbbVerif.Model.C10

open TbbVerif

def drivers : List (String × Proto.Driver) := [
  ("c10", C10.driver)
]

def main (args : List String) : IO UInt32 := Proto.mainOf drivers args
