import TbbVerif.Core.Proto
import TbbVerif.Model.C06
import TbbVerif.Model.C06Scan

open TbbVerif

def drivers : List (String × Proto.Driver) := [
  ("c06", C06.Drv.driver),
  ("c06rd", C06.Drv.RD.driver),
  ("c06sp", C06.SP.Drv.driver)
]

def main (args : List String) : IO UInt32 := Proto.mainOf drivers args
