import TbbVerif.Core.Proto
import TbbVerif.Model.C11

open TbbVerif

def drivers : List (String × Proto.Driver) := [
  ("c11", C11.driver),
  ("c11st", C11.driverSt)
]

def main (args : List String) : IO UInt32 := do
  match args with
  | [name] =>
    match drivers.lookup name with
    | some d => Proto.runDriver d; return 0
    | none => IO.eprintln s!"unknown model {name}"; return 2
  | _ => IO.eprintln "usage: tbbdrv <model>"; return 2
