import TbbVerif.Core.Proto
import TbbVerif.Model.C07
import TbbVerif.Model.C07Life
import TbbVerif.Model.C07Wrap

open TbbVerif

def drivers : List (String × Proto.Driver) := [
  ("c07buf", C07.driverBuf),
  ("c07pipe", C07.driverPipe),
  ("c07run", C07.driverRun),
  ("c07life", C07.Life.driverLife),
  ("c07liferun", C07.Life.driverLifeRun),
  ("c07bufw", C07.Wrap.driverBufW)
]

def main (args : List String) : IO UInt32 := Proto.mainOf drivers args
