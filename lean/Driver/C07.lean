import TbbVerif.Core.Proto
import TbbVerif.Model.C07

open TbbVerif

def drivers : List (String × Proto.Driver) := [
  ("c07buf", C07.driverBuf),
  ("c07pipe", C07.driverPipe),
  ("c07run", C07.driverRun)
]

def main (args : List String) : IO UInt32 := Proto.mainOf drivers args
