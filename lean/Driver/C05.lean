import TbbVerif.Core.Proto
import TbbVerif.Model.C05
import TbbVerif.Generated.C05Stride
import Driver.C05Each

open TbbVerif TbbVerif.C05

namespace C05Drv

def showR1 (r : R1) : String := s!"{r.b} {r.e}"
def showDims (d : List R1) : String := " ".intercalate (d.map showR1)
def showPart (p : Part) : String := s!"{p.divisor} {p.maxDepth} {p.delay} {p.head} {p.maxAff}"

def kind? (s : String) : Option Kind :=
  match s with
  | "simple" => some .simple | "auto" => some .auto | "static" => some .static | "affinity" => some .affinity
  | _ => none

/-- flavour of an N-d range: "1" blocked_range, "2" blocked_range2d, "3" blocked_range3d, "n" blocked_nd_range -/
def opsOf? (fl : String) (k : Nat) : Option (RangeOps (List R1)) :=
  match fl with
  | "1" => if k = 1 then some (opsN (fun _ => 0)) else none
  | "2" => if k = 2 then some (opsN sel2) else none
  | "3" => if k = 3 then some (opsN sel3) else none
  | "n" => if 1 ≤ k then some (opsN selNd) else none
  | _ => none

def selOf (fl : String) (d : List R1) : Nat :=
  match fl with
  | "2" => sel2 d | "3" => sel3 d | "n" => selNd d | _ => 0

/-- the dimension in which `(a, c)` differs from `d`, as an observer of the real split constructor sees it -/
def obsDim (d a c : List R1) : Int :=
  let idx := (List.range d.length).filter (fun i => !(d[i]? == a[i]? && d[i]? == c[i]?))
  match idx with
  | [] => -2
  | [i] => (i : Int)
  | _ => -3

def dims? : Nat → List Nat → Option (List R1 × List Nat)
  | 0, rest => some ([], rest)
  | k + 1, b :: e :: g :: rest =>
    if b ≤ e ∧ e < U64 ∧ g < U64 then
      match dims? k rest with
      | some (ds, rest') => some ({ b := b, e := e, g := g } :: ds, rest')
      | none => none
    else none
  | _, _ => none

def bits? (ws : List String) : Option (List Bool) :=
  ws.mapM (fun w => match w with | "0" => some false | "1" => some true | _ => none)

def showEv (e : Ev (List R1)) : String :=
  match e with
  | .body r => s!"B {showDims r}"
  | .spawn r p => s!"S {showDims r} | {showPart p}"
  | .drop r => s!"D {showDims r}"

def fuelBig : Nat := 100000000

/-- is `bounds` (sorted chunk boundaries b = m0 < m1 < … = e) the leaf sequence of a legal split tree of
`[b,e)` with grain `g`: every inner node divisible and cut at the midpoint or at a proportional point for
some `n ≤ P` (`right = n/2`, `left = n - n/2`)? -/
def legalTree (g P : Nat) : Nat → List Nat → Bool
  | 0, _ => false
  | f + 1, ms =>
    match ms with
    | [] => false
    | [_] => false
    | [_, _] => true
    | b :: rest =>
      match ms.getLast? with
      | none => false
      | some e =>
        let r : R1 := { b := b, e := e, g := g }
        if !r.divisible then false else
          let cands := (splitMid r).1.e ::
            (List.range (P + 1)).filterMap (fun n =>
              if n < 2 then none else
                match splitProp r (n - n / 2) (n / 2) with
                | some (a, _) => some a.e
                | none => none)
          cands.eraseDups.any (fun m =>
            if rest.dropLast.contains m then
              let left := ms.takeWhile (· < m) ++ [m]
              let right := ms.dropWhile (· < m)
              legalTree g P f left && legalTree g P f right
            else false)

/-! index form: the REGENERATED expressions, evaluated (`cnt <T> <N|C> first last step` prints
`<step bad> <non-empty> <count> <range begin>`; `val <T> first step b j` prints the index the body wrapper passes at the
j-th iteration of a chunk that starts at iteration b) -/
section stride
open TbbVerif.Generated.C05Stride

def cntS? (ty v : String) : Option ((Int → Bool) × (Int → Int → Bool) × (Int → Int → Int → Int) × Int) :=
  match ty, v with
  | "i16", "N" => some (stepBad_i16, nonEmpty_i16, cnt_i16, rangeBegin_i16)
  | "i16", "C" => some (stepBadCtx_i16, nonEmptyCtx_i16, cntCtx_i16, rangeBeginCtx_i16)
  | "i32", "N" => some (stepBad_i32, nonEmpty_i32, cnt_i32, rangeBegin_i32)
  | "i32", "C" => some (stepBadCtx_i32, nonEmptyCtx_i32, cntCtx_i32, rangeBeginCtx_i32)
  | "i64", "N" => some (stepBad_i64, nonEmpty_i64, cnt_i64, rangeBegin_i64)
  | "i64", "C" => some (stepBadCtx_i64, nonEmptyCtx_i64, cntCtx_i64, rangeBeginCtx_i64)
  | _, _ => none

def cntU? (ty v : String) : Option ((Nat → Bool) × (Nat → Nat → Bool) × (Nat → Nat → Nat → Nat) × Nat) :=
  match ty, v with
  | "u16", "N" => some (stepBad_u16, nonEmpty_u16, cnt_u16, rangeBegin_u16)
  | "u16", "C" => some (stepBadCtx_u16, nonEmptyCtx_u16, cntCtx_u16, rangeBeginCtx_u16)
  | "u32", "N" => some (stepBad_u32, nonEmpty_u32, cnt_u32, rangeBegin_u32)
  | "u32", "C" => some (stepBadCtx_u32, nonEmptyCtx_u32, cntCtx_u32, rangeBeginCtx_u32)
  | "u64", "N" => some (stepBad_u64, nonEmpty_u64, cnt_u64, rangeBegin_u64)
  | "u64", "C" => some (stepBadCtx_u64, nonEmptyCtx_u64, cntCtx_u64, rangeBeginCtx_u64)
  | _, _ => none

def idxS? (ty : String) : Option ((Int → Int → Int → Int) × (Int → Int → Int)) :=
  match ty with
  | "i16" => some (idx0_i16, idxNext_i16) | "i32" => some (idx0_i32, idxNext_i32) | "i64" => some (idx0_i64, idxNext_i64)
  | _ => none

def idxU? (ty : String) : Option ((Nat → Nat → Nat → Nat) × (Nat → Nat → Nat)) :=
  match ty with
  | "u16" => some (idx0_u16, idxNext_u16) | "u32" => some (idx0_u32, idxNext_u32) | "u64" => some (idx0_u64, idxNext_u64)
  | _ => none

def bitsOf (ty : String) : Nat := if ty.endsWith "16" then 16 else if ty.endsWith "32" then 32 else 64
def inS (ty : String) (x : Int) : Bool := decide (-(2 ^ (bitsOf ty - 1) : Int) ≤ x ∧ x < (2 ^ (bitsOf ty - 1) : Int))
def inU (ty : String) (x : Nat) : Bool := decide (x < 2 ^ bitsOf ty)

open Proto in
def strideStep (ws : List String) : String :=
  match ws with
  | ["cnt", ty, v, f, l, s] =>
    match cntS? ty v, int? f, int? l, int? s with
    | some (bad, run, cnt, rb), some f, some l, some s =>
      if inS ty f && inS ty l && inS ty s then
        -- the count expression is only evaluated where the code evaluates it
        if bad s then s!"1 - - {rb}" else if !run f l then s!"0 0 - {rb}" else s!"0 1 {cnt f l s} {rb}"
      else "bad-op"
    | _, _, _, _ =>
      match cntU? ty v, nat? f, nat? l, nat? s with
      | some (bad, run, cnt, rb), some f, some l, some s =>
        if inU ty f && inU ty l && inU ty s then
          if bad s then s!"1 - - {rb}" else if !run f l then s!"0 0 - {rb}" else s!"0 1 {cnt f l s} {rb}"
        else "bad-op"
      | _, _, _, _ => "bad-op"
  | ["val", ty, f, s, b, j] =>
    match idxS? ty, int? f, int? s, int? b, nat? j with
    | some (i0, nx), some f, some s, some b, some j =>
      if inS ty f && inS ty s && inS ty b && j ≤ 100000 then toString (chunkVal nx s (i0 f s b) j) else "bad-op"
    | _, _, _, _, _ =>
      match idxU? ty, nat? f, nat? s, nat? b, nat? j with
      | some (i0, nx), some f, some s, some b, some j =>
        if inU ty f && inU ty s && inU ty b && j ≤ 100000 then toString (chunkVal nx s (i0 f s b) j) else "bad-op"
      | _, _, _, _, _ => "bad-op"
  | _ => "bad-op"

end stride

structure St where
  rv : Option (RV R1) := none

def showRV (v : RV R1) : String :=
  let items := v.toList.map (fun (x : R1 × Nat) => s!"{x.2}:{x.1.b}:{x.1.e}")
  s!"{v.head} {v.tail} {v.size} |" ++ String.join (items.map (fun x => " " ++ x))

open Proto in
def step (st : St) (ws : List String) : St × String :=
  match ws with
  | "s1" :: rest =>
    match nats? rest with
    | some [b, e, g] =>
      if b ≤ e ∧ e < U64 ∧ g < U64 then
        let r : R1 := { b := b, e := e, g := g }
        let (a, c) := splitMid r
        (st, s!"{showBool r.divisible} {showBool r.isEmpty} {showR1 a} {showR1 c}")
      else (st, "bad-op")
    | _ => (st, "bad-op")
  | "p1" :: rest =>
    match nats? rest with
    | some [b, e, g, l, r] =>
      if b ≤ e ∧ e < U64 ∧ g < U64 ∧ l < U64 ∧ r < U64 then
        match splitProp { b := b, e := e, g := g } l r with
        | some (a, c) => (st, s!"{showR1 a} {showR1 c}")
        | none => (st, "ub")
      else (st, "bad-op")
    | _ => (st, "bad-op")
  | "sn" :: fl :: k :: rest =>
    match nat? k, nats? rest with
    | some k, some xs =>
      match dims? k xs, opsOf? fl k with
      | some (d, []), some ops =>
        let (a, c) := ops.split d
        (st, s!"{showBool (ops.divisible d)} {showBool (ops.isEmpty d)} {obsDim d a c} {showDims a} {showDims c}")
      | _, _ => (st, "bad-op")
    | _, _ => (st, "bad-op")
  | "pn" :: fl :: k :: rest =>
    match nat? k, nats? rest with
    | some k, some xs =>
      match dims? k xs, opsOf? fl k with
      | some (d, [l, r]), some ops =>
        if l < U64 ∧ r < U64 then
          match ops.psplit d l r with
          | some (a, c) => (st, s!"{obsDim d a c} {showDims a} {showDims c}")
          | none => (st, "ub")
        else (st, "bad-op")
      | _, _ => (st, "bad-op")
    | _, _ => (st, "bad-op")
  | ["rv", "init", b, e, g] =>
    match nat? b, nat? e, nat? g with
    | some b, some e, some g =>
      if b ≤ e ∧ e < U64 ∧ g < U64 then
        let v := RV.init ({ b := b, e := e, g := g } : R1)
        ({ rv := some v }, showRV v)
      else (st, "bad-op")
    | _, _, _ => (st, "bad-op")
  | ["rv", "fill", d] =>
    match nat? d, st.rv with
    | some d, some v =>
      if d < depthMod ∧ v.size > 0 then
        let v := RV.splitToFill ops1 d RV.cap v
        ({ rv := some v }, showRV v)
      else (st, "bad-op")
    | _, _ => (st, "bad-op")
  | ["rv", "popb"] =>
    match st.rv with
    | some v => if v.size > 0 then let v := v.popBack; ({ rv := some v }, showRV v) else (st, "bad-op")
    | none => (st, "bad-op")
  | ["rv", "popf"] =>
    match st.rv with
    | some v => if v.size > 0 then let v := v.popFront; ({ rv := some v }, showRV v) else (st, "bad-op")
    | none => (st, "bad-op")
  | "task" :: kd :: fl :: k :: rest =>
    -- task <kind> <flavour> <k> (b e g)^k divisor maxDepth delay head maxAff stolen ref2 H bits… C bits…
    match kind? kd, nat? k with
    | some kd, some k =>
      let (numWs, tailWs) := rest.span (· ≠ "H")
      let (hookWs, cancelWs) := (tailWs.drop 1).span (· ≠ "C")
      match nats? numWs, bits? hookWs, bits? (cancelWs.drop 1), opsOf? fl k with
      | some xs, some hooks, some cancels, some ops =>
        match dims? k xs with
        | some (d, [dv, md, dl, hd, ma, sto, r2]) =>
          if md < depthMod ∧ dl ≤ 2 ∧ sto ≤ 1 ∧ r2 ≤ 1 ∧ dv < U64 ∧ (kd = .simple ∨ kd = .auto ∨ 0 < ma) then
            let p : Part := { kind := kd, divisor := dv, maxDepth := md, delay := dl, head := hd, maxAff := ma }
            let s0 : MockSt := { stolen := sto = 1, ref2 := r2 = 1, flag := false, hooks := hooks, cancels := cancels }
            match execTask ops mockEnv fuelBig d p s0 with
            | some (evs, _) => (st, " ; ".intercalate (evs.map showEv))
            | none => (st, "ub")
          else (st, "bad-op")
        | _ => (st, "bad-op")
      | _, _, _, _ => (st, "bad-op")
    | _, _ => (st, "bad-op")
  | "loop" :: kd :: p :: fl :: k :: rest =>
    -- whole loop without any steal / cancellation: sorted chunk list
    match kind? kd, nat? p, nat? k, nats? rest with
    | some kd, some P, some k, some xs =>
      match dims? k xs, opsOf? fl k with
      | some (d, []), some ops =>
        if 1 ≤ P then
          match runLoop ops bitsEnv fuelBig kd P 0 d [] with
          | some (ran, _, _) =>
            let strs := ran.map showDims
            (st, s!"{ran.length} " ++ " ; ".intercalate (strs.toArray.qsort (· < ·)).toList)
          | none => (st, "ub")
        else (st, "bad-op")
      | _, _ => (st, "bad-op")
    | _, _, _, _ => (st, "bad-op")
  | "tree" :: p :: g :: rest =>
    match nat? p, nat? g, nats? rest with
    | some P, some g, some ms =>
      if ms.length ≥ 2 ∧ ms.Pairwise (· < ·) ∧ ms.all (· < U64) then (st, showBool (legalTree g P (ms.length + 2) ms))
      else (st, "bad-op")
    | _, _, _ => (st, "bad-op")
  | "cnt" :: _ => (st, strideStep ws)
  | "val" :: _ => (st, strideStep ws)
  | _ => (st, "bad-op")

def driver : Proto.Driver := { σ := St, init := {}, step := step }

end C05Drv

def drivers : List (String × Proto.Driver) := [("c05", C05Drv.driver), ("c05each", C05EachDrv.driver)]

def main (args : List String) : IO UInt32 := Proto.mainOf drivers args
