import TbbVerif.Core.Proto
import TbbVerif.Model.C12

open TbbVerif TbbVerif.C12

namespace C12Drv

def showEv (e : Ev) : String := s!"{e.kind} {e.var} {e.a} {e.b} {Proto.showBool e.ok}"

def splitOp (w : String) : List String := w.splitOn ":"

/-! ### pure functions: `rev x`, `reg h`, `dum b`, `par b` -/
def pureStep (ws : List String) : String :=
  match ws with
  | [f, x] =>
    match x.toNat? with
    | none => "bad-op"
    | some n =>
      if n ≥ 2 ^ 64 then "bad-op" else
      match f with
      | "rev" => toString (rev 64 n)
      | "reg" => toString (regularKey n)
      | "dum" => toString (dummyKey n)
      | "par" => match getParent n with | some p => toString p | none => "reject"
      | _ => "bad-op"
  | ["chk", x, k] =>
    -- the facts proved in `split_order_bucket_entry` hold for every input: the model's answer is always `ok`
    match x.toNat?, k.toNat? with
    | some n, some k => if k > 63 ∨ n ≥ 2 ^ 64 then "bad-op" else "ok"
    | _, _ => "bad-op"
  | ["revn", w, x] =>
    match w.toNat?, x.toNat? with
    | some w, some n => if w = 0 ∨ w > 64 ∨ n ≥ 2 ^ 64 then "bad-op" else toString (rev w n)
    | _, _ => "bad-op"
  | _ => "bad-op"

/-! ### split-ordered hash table replay -/
namespace SO
open SplitOrder

structure D where
  cfg : Cfg := {}
  st  : St := {}
  tail : List Nat := []      -- threads inside the unmodelled read-only tail of count()/equal_range()

def parseOp (w : String) : Option Op :=
  match splitOp w with
  | ["ins", h, uk] => do some (.ins (← h.toNat?) (← uk.toNat?))
  | ["find", h, uk] => do some (.find (← h.toNat?) (← uk.toNat?))
  | ["touch", h] => do some (.touch (← h.toNat?))
  | ["trav"] => some .trav
  | ["rsv", n] => do some (.reserve (← n.toNat?))
  | ["reh", n] => do some (.rehash (← n.toNat?))
  | ["mlf", b] => do some (.setMlf (F32.ofBits (← b.toNat?)))
  | ["arm", kind, n] => do some (.arm (← kind.toNat?) (← n.toNat?))
  | _ => none

def uks (s : St) (ns : List Nat) : List Nat :=
  (ns.filter (fun n => (s.L.key n).ok % 2 = 1)).map (fun n => (s.L.key n).uk)

def showRes (s : St) : Res → String
  | .ins _ ok _ => s!"ins {Proto.showBool ok}"
  | .find _ _ r => s!"find {Proto.showBool r.isSome}"
  | .trav seen _ => "trav " ++ Proto.showNats (uks s seen)
  | .touched _ => "touch"
  | .misuse => "misuse"
  | .broken w => s!"broken {w}"
  | .sized w => s!"sized {w}"
  | .threw => "threw"
  | .count _ n _ _ => s!"count {n}"

/-- step thread `t` until it has performed an access (at most `fuel` silent steps first) -/
def stepEv (cfg : Cfg) (s : St) (t : Nat) : Nat → St × Option Ev × Option Res
  | 0 => (s, none, none)
  | fuel + 1 =>
    match s.ths[t]? with
    | none => (s, none, none)
    | some th =>
      let o := thStep cfg s t th
      let s' := applyOut s t o
      match o.ev with
      | some e => (s', some e, o.res)
      | none =>
        if th.pc = .idle ∧ th.ops = [] then (s', none, o.res)
        else match o.res with
          | some r => (s', none, some r)
          | none => stepEv cfg s' t fuel

/-- run thread `t` to the end of its program -/
def runAll (cfg : Cfg) (s : St) (t : Nat) : Nat → St
  | 0 => s
  | fuel + 1 =>
    match s.ths[t]? with
    | none => s
    | some th => if th.pc = .idle ∧ th.ops = [] then s else runAll cfg (step cfg s t) t fuel

def dstep (d : D) (ws : List String) : D × String :=
  match ws with
  | ["cfg", multi, bc, mlfbits] =>
    match bc.toNat?, mlfbits.toNat? with
    | some bc, some mb =>
      ({ cfg := { multi := multi == "1", mlf0 := F32.ofBits mb }, st := { bc := bc, mlf := F32.ofBits mb } }, "ok")
    | _, _ => (d, "bad-op")
  | "prog" :: ops =>
    match ops.mapM parseOp with
    | some ops => ({ d with st := { d.st with ths := d.st.ths ++ [{ ops := ops }] } }, "ok")
    | none => (d, "bad-op")
  | "pre" :: ops =>
    match ops.mapM parseOp with
    | some ops =>
      let n := d.st.ths.length
      let s1 := { d.st with ths := d.st.ths ++ [{ ops := ops }] }
      let s2 := runAll d.cfg s1 n (ops.length * 4000 + 10)
      ({ d with st := { s2 with ths := s2.ths.take n, log := [] } }, "ok")
    | none => (d, "bad-op")
  | ["s", t] =>
    match t.toNat? with
    | some t =>
      if d.tail.contains t then (d, "tail") else
      let (s', ev, res) := stepEv d.cfg d.st t 4
      let e := match ev with | some e => showEv e | none => "none"
      -- the link of a dummy node is logged by the model like an insert; it is not the result of an operation
      let res := match res with | some (.ins k _ _) => if k.ok % 2 = 0 then none else res | r => r
      let r := match res with | some r => " | " ++ showRes s' r | none => ""
      let tail := match res with | some (.touched _) => t :: d.tail | _ => d.tail
      ({ d with st := s', tail := tail }, e ++ r)
    | none => (d, "bad-op")
  | ["fin", t] =>
    match t.toNat? with
    | some t => ({ d with tail := d.tail.filter (· ≠ t) }, "ok")
    | none => (d, "bad-op")
  | ["state"] =>
    let s := d.st
    (d, s!"chain {Proto.showNats (uks s s.L.chain)} | bc {s.bc} | size {s.size} | nodes {s.L.chain.length} | mlf {F32.toBits s.mlf} | ledger {Proto.showBool (s.freed.all (fun x => !s.L.chain.contains x && s.freed.count x == 1))}")
  | ["nodes"] =>
    let s := d.st
    (d, " ".intercalate ((List.range s.L.fresh).map (fun n =>
      s!"{n}:{(s.L.key n).ok}:{(s.L.key n).uk}:{Proto.showBool (s.L.chain.contains n)}:{Proto.showBool (s.freed.contains n)}")))
  | _ => (d, "bad-op")

def driver : Proto.Driver := { σ := D, init := {}, step := dstep }
end SO


/-! ### table sizing (E-PURE): `seq n0 mlf0bits op...` with ops `i<k>` (k inserts of new keys), `r<n>` reserve, `h<n>` rehash,
`m<bits>` max_load_factor; answer: the bucket count after the constructor and after every op (`!` marks a rejected load
factor, `hang` a reserve that does not return) -/
namespace SZ
open Sizing

def parseOp (w : String) : Option Op :=
  let body := (w.drop 1).toString
  match w.take 1 |>.toString, body.toNat? with
  | "i", some k => some (.ins k)
  | "r", some n => if n < 2 ^ 64 then some (.reserve n) else none
  | "h", some n => if n < 2 ^ 64 then some (.rehash n) else none
  | "m", some b => if b < 2 ^ 32 then some (.setMlf (F32.ofBits b)) else none
  | _, _ => none

def runOps (s : St) : List Op → List String → List String
  | [], acc => acc.reverse
  | op :: ops, acc =>
    match step s op with
    | none => ("hang" :: acc).reverse
    | some s' =>
      let mark := match op with
        | .setMlf f => if Generated.C12.mlfReject f then "!" else ""
        | _ => ""
      runOps s' ops (s!"{s'.bc}{mark}" :: acc)

def pureStep (ws : List String) : String :=
  match ws with
  | "seq" :: n0 :: mb :: ops =>
    match n0.toNat?, mb.toNat?, ops.mapM parseOp with
    | some n0, some mb, some ops =>
      if n0 ≥ 2 ^ 64 ∨ mb ≥ 2 ^ 32 then "bad-op" else
      let s0 := init n0 (F32.ofBits mb)
      " ".intercalate (runOps s0 ops [toString s0.bc])
    | _, _, _ => "bad-op"
  | _ => "bad-op"
end SZ

/-! ### binary32 arithmetic (E-PURE): operands and results as bit patterns of non-negative floats -/
def showF (x : F32) : String := match x with
  | .nan => "nan"
  | .neg => "neg"
  | x => toString (F32.toBits x)

def f32Step (ws : List String) : String :=
  match ws with
  | [f, a, b] =>
    match a.toNat?, b.toNat? with
    | some a, some b =>
      if b ≥ 2 ^ 31 ∨ (a ≥ 2 ^ 31 ∧ f ≠ "muln") ∨ a ≥ 2 ^ 64 then "bad-op" else
      let x := F32.ofBits a
      let y := F32.ofBits b
      match f with
      | "mul" => showF (F32.mul x y)
      | "div" => showF (F32.div x y)
      | "lt" => Proto.showBool (F32.lt x y)
      | "le" => Proto.showBool (F32.le x y)
      | "eq" => Proto.showBool (F32.eq x y)
      | "muln" => showF (F32.mul (F32.ofNat a) y)          -- size_t * float
      | _ => "bad-op"
    | _, _ => "bad-op"
  | ["of", n] =>
    match n.toNat? with
    | some n => if n ≥ 2 ^ 64 then "bad-op" else showF (F32.ofNat n)
    | none => "bad-op"
  | ["ton", a] =>
    match a.toNat? with
    | some a => if a ≥ 2 ^ 31 then "bad-op" else toString (F32.toNat (F32.ofBits a))
    | none => "bad-op"
  | _ => "bad-op"

/-! ### skip list replay -/
namespace SK
open SkipList

structure D where
  cfg : Cfg := {}
  st  : St := {}

def parseOp (w : String) : Option Op :=
  match splitOp w with
  | ["ins", k, h] => do some (.ins (← k.toNat?) (← h.toNat?))
  | ["find", k] => do some (.find (← k.toNat?))
  | ["trav"] => some .trav
  | ["arm", kind, n] => do some (.arm (← kind.toNat?) (← n.toNat?))
  | _ => none

def keysOf (s : St) (ns : List Nat) : List Nat := (ns.filter (· ≠ 0)).map (fun n => (s.core.key n).ok - 1)

def showRes (s : St) : Res → String
  | .ins _ ok _ => s!"ins {Proto.showBool ok}"
  | .find _ _ r => s!"find {Proto.showBool r.isSome}"
  | .trav seen _ => "trav " ++ Proto.showNats (keysOf s seen)
  | .misuse => "misuse"
  | .threw _ => "threw"

def stepEv (cfg : Cfg) (s : St) (t : Nat) : Nat → St × Option Ev × Option Res
  | 0 => (s, none, none)
  | fuel + 1 =>
    match s.ths[t]? with
    | none => (s, none, none)
    | some th =>
      let o := thStep cfg s t th
      let s' : St := { o.st with ths := s.ths.set t o.th, log := addLog s.log t o.res }
      match o.ev with
      | some e => (s', some e, o.res)
      | none =>
        if th.pc = .idle ∧ th.ops = [] then (s', none, o.res)
        else match o.res with
          | some r => (s', none, some r)
          | none => stepEv cfg s' t fuel

def runAll (cfg : Cfg) (s : St) (t : Nat) : Nat → St
  | 0 => s
  | fuel + 1 =>
    match s.ths[t]? with
    | none => s
    | some th => if th.pc = .idle ∧ th.ops = [] then s else runAll cfg (step cfg s t) t fuel

/-- executable check of the level structure: every level is sorted by (key, position on level 0) and is a
sub-sequence of the level below -/
def isSubseq : List Nat → List Nat → Bool
  | [], _ => true
  | _ :: _, [] => false
  | x :: xs, y :: ys => if x = y then isSubseq xs ys else isSubseq (x :: xs) ys

def levelsOk (cfg : Cfg) (s : St) : Bool :=
  (List.range (cfg.maxLevel - 1)).all (fun l => isSubseq (s.core.chain (l + 1)) (s.core.chain l))

/-- executable check of `insert_throw_safe`: no freed node on any level, nothing freed twice -/
def ledgerOk (cfg : Cfg) (s : St) : Bool :=
  s.freed.all (fun x => (List.range cfg.maxLevel).all (fun l => !(s.core.chain l).contains x)) &&
    s.freed.all (fun x => s.freed.count x == 1)

def dstep (d : D) (ws : List String) : D × String :=
  match ws with
  | ["cfg", multi, maxLevel] =>
    match maxLevel.toNat? with
    | some ml => ({ cfg := { multi := multi == "1", maxLevel := ml }, st := {} }, "ok")
    | none => (d, "bad-op")
  | "prog" :: ops =>
    match ops.mapM parseOp with
    | some ops => ({ d with st := { d.st with ths := d.st.ths ++ [{ ops := ops }] } }, "ok")
    | none => (d, "bad-op")
  | "pre" :: ops =>
    match ops.mapM parseOp with
    | some ops =>
      let n := d.st.ths.length
      let s1 := { d.st with ths := d.st.ths ++ [{ ops := ops }] }
      let s2 := runAll d.cfg s1 n (ops.length * 4000 + 10)
      ({ d with st := { s2 with ths := s2.ths.take n, log := [] } }, "ok")
    | none => (d, "bad-op")
  | ["s", t] =>
    match t.toNat? with
    | some t =>
      let (s', ev, res) := stepEv d.cfg d.st t 4
      let e := match ev with | some e => showEv e | none => "none"
      let r := match res with | some r => " | " ++ showRes s' r | none => ""
      ({ d with st := s' }, e ++ r)
    | none => (d, "bad-op")
  | ["state"] =>
    let s := d.st
    (d, s!"chain {Proto.showNats (keysOf s (s.core.chain 0))} | maxh {s.maxh} | size {s.size} | levels {Proto.showBool (levelsOk d.cfg s)} | ledger {Proto.showBool (ledgerOk d.cfg s)}")
  | ["nodes"] =>
    let s := d.st
    (d, " ".intercalate ((List.range s.core.fresh).map (fun n =>
      s!"{n}:{(s.core.key n).ok}:{s.core.height n}:{Proto.showBool ((s.core.chain 0).contains n)}:{Proto.showBool (s.freed.contains n)}")))
  | _ => (d, "bad-op")

def driver : Proto.Driver := { σ := D, init := {}, step := dstep }
end SK

/-! ### the standalone CAS list: `count()` under one interfering insert (set-level differential with the real containers) -/
namespace CL
open CasList

structure D where
  rule : Rule := .after
  pre  : List Op := []
  p0   : List Op := []
  p1   : List Op := []

def parseOp (w : String) : Option Op :=
  match splitOp w with
  | ["ins", ok, uk] => do some (.ins ⟨← ok.toNat?, ← uk.toNat?⟩ 0)
  | ["count", ok, uk] => do some (.count ⟨← ok.toNat?, ← uk.toNat?⟩ 0)
  | _ => none

def runT (rule : Key → Rule) (s : St) (t : Nat) : Nat → St
  | 0 => s
  | fuel + 1 =>
    match s.ths[t]? with
    | none => s
    | some th => if th.pc = .idle ∧ th.ops = [] then s else runT rule (step rule s t) t fuel

def stepsT (rule : Key → Rule) (s : St) (t : Nat) : Nat → St
  | 0 => s
  | n + 1 => stepsT rule (step rule s t) t n

def showCount (log : List (Tid × Res)) : String :=
  match log.filterMap (fun e => match e with | (0, .count _ n lo hi) => some s!"{n} {lo} {hi}" | _ => none) with
  | r :: _ => r
  | [] => "none"

def dstep (d : D) (ws : List String) : D × String :=
  match ws with
  | ["rule", r] =>
    match r with
    | "after" => ({ d with rule := .after }, "ok")
    | "before" => ({ d with rule := .before }, "ok")
    | "uniq" => ({ d with rule := .uniq }, "ok")
    | _ => (d, "bad-op")
  | "pre" :: ops => match ops.mapM parseOp with | some o => ({ d with pre := o }, "ok") | none => (d, "bad-op")
  | "prog0" :: ops => match ops.mapM parseOp with | some o => ({ d with p0 := o }, "ok") | none => (d, "bad-op")
  | "prog1" :: ops => match ops.mapM parseOp with | some o => ({ d with p1 := o }, "ok") | none => (d, "bad-op")
  | ["hold", j] =>
    -- the pre-inserts run alone; then thread 0 takes `j` steps, thread 1 runs to completion, thread 0 finishes
    match j.toNat? with
    | some j =>
      let rule : Key → Rule := fun _ => d.rule
      let s0 : St := { ths := [{ ops := d.pre }] }
      let s1 := runT rule s0 0 (d.pre.length * 4000 + 10)
      let s2 : St := { s1 with ths := [{ ops := d.p0 }, { ops := d.p1 }], log := [] }
      let s3 := stepsT rule s2 0 j
      let s4 := runT rule s3 1 100000
      let s5 := runT rule s4 0 100000
      let fin := match s3.ths[0]? with | some th => if th.pc = .idle ∧ th.ops = [] then " done" else "" | none => ""
      (d, showCount s5.log ++ fin)
    | none => (d, "bad-op")
  | _ => (d, "bad-op")

def driver : Proto.Driver := { σ := D, init := {}, step := dstep }
end CL

end C12Drv

def drivers : List (String × Proto.Driver) := [
  ("c12pure", Proto.pureDriver C12Drv.pureStep),
  ("c12so", C12Drv.SO.driver),
  ("c12sz", Proto.pureDriver C12Drv.SZ.pureStep),
  ("c12f32", Proto.pureDriver C12Drv.f32Step),
  ("c12sk", C12Drv.SK.driver),
  ("c12cl", C12Drv.CL.driver)
]

def main (args : List String) : IO UInt32 := Proto.mainOf drivers args
