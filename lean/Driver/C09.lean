import TbbVerif.Core.Proto
import TbbVerif.Model.C09

open TbbVerif

def drivers : List (String × Proto.Driver) := [
  ("c09q", C09.driverQ),
  ("c09pure", Proto.pureDriver C09.drivePure),
  ("c09ring", C09.driverRing)
]

def main (args : List String) : IO UInt32 := Proto.mainOf drivers args
