import TbbVerif.Core.Proto
import TbbVerif.Model.C09
import TbbVerif.Model.C09Page
import TbbVerif.Model.C09Seq

open TbbVerif

def drivers : List (String × Proto.Driver) := [
  ("c09q", C09.driverQ),
  ("c09pure", Proto.pureDriver C09.drivePure),
  ("c09ring", C09.driverRing),
  ("c09pg", C09.Pg.driver),
  ("c09seq", C09.Seq.driver)
]

def main (args : List String) : IO UInt32 := Proto.mainOf drivers args
