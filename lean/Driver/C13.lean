import TbbVerif.Core.Proto
import TbbVerif.Model.C13
import TbbVerif.Model.C13Hist

open TbbVerif

def drivers : List (String × Proto.Driver) := [
  ("c13", C13.driver),
  ("c13agg", C13.driverAgg)
]

def main (args : List String) : IO UInt32 := Proto.mainOf drivers args
