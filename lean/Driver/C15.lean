/-
Line-protocol drivers for the C15 models.  Each driver runs the model's *atomic steps* (Model/C15.lean,
about which the theorems are proved) composed exactly the way the real node composes them between two
script operations of the single-threaded harnesses (harness/c15/*.cpp): `handle_operations` + `order()`
+ the forwarding task run by `wait_for_all()`.
-/
import TbbVerif.Core.Proto
import TbbVerif.Model.C15
import Driver.C15Batch

open TbbVerif TbbVerif.C15

namespace C15Drv
open Proto

def showSlot : Slot → String
  | none => "_"
  | some (v, false) => toString v
  | some (v, true) => toString v ++ "*"

def commaSep (xs : List String) : String := if xs.isEmpty then "-" else ",".intercalate xs
def spaceSep (xs : List String) : String := if xs.isEmpty then "-" else " ".intercalate xs

def rawChar : Slot → String
  | none => "."
  | some (_, false) => "h"
  | some (_, true) => "r"

def dumpBuf (b : ItemBuf) : String :=
  s!"{b.head} {b.tail} {b.arr.length} | {commaSep (b.view.map showSlot)} | {String.join (b.arr.map rawChar)}"

/-- successor verdict: mode 0 accepts everything, mode m ≥ 1 rejects the values divisible by m -/
def accepts (m v : Nat) : Bool := m == 0 || v % m != 0
def firstAcc (succs : List Nat) (v : Nat) : Option Nat := succs.findIdx? (fun m => accepts m v)
def allAcc (succs : List Nat) (v : Nat) : List Nat :=
  (List.range succs.length).filter (fun i => accepts (succs.getD i 1) v)

/-! ### c15ib — white-box item_buffer -/

structure IbD where
  b : ItemBuf := ItemBuf.empty
  reserved : Bool := false

def ibRes (d : IbD) (r : String) : IbD × String := (d, s!"{r} | {dumpBuf d.b}")

def driveIb (d : IbD) (ws : List String) : IbD × String :=
  match ws with
  | ["reset"] => ibRes {} "ok"
  | ["push", v] => match nat? v with
    | some v => ibRes { d with b := d.b.pushBack v } "ok"
    | none => (d, "bad-op")
  | ["popf"] => match d.b.popFront with
    | some (v, b') => ibRes { d with b := b' } (toString v)
    | none => ibRes d "-"
  | ["popb"] => match d.b.popBack with
    | some (v, b') => ibRes { d with b := b' } (toString v)
    | none => ibRes d "-"
  | ["resf"] =>
    if d.reserved then ibRes d "-" else
    match d.b.reserveFront with
    | some (v, b') => ibRes { b := b', reserved := true } (toString v)
    | none => ibRes d "-"
  | ["relf"] =>
    if !d.reserved then (d, "bad-op") else
    match d.b.releaseFront with
    | some b' => ibRes { b := b', reserved := false } "ok"
    | none => (d, "ub")
  | ["conf"] =>
    if !d.reserved then (d, "bad-op") else
    match d.b.consumeFront with
    | some (_, b') => ibRes { b := b', reserved := false } "ok"
    | none => (d, "ub")
  | ["grow", m] => match nat? m with
    | some m => if m ≤ 4096 then ibRes { d with b := d.b.grow m } "ok" else (d, "bad-op")
    | none => (d, "bad-op")
  | ["ext", t] => match nat? t with
    | some t =>
      if d.b.tail ≤ t ∧ t ≤ d.b.head + d.b.arr.length then ibRes { d with b := { d.b with tail := t } } "ok"
      else (d, "bad-op")
    | none => (d, "bad-op")
  | ["place", i, v] => match nat? i, nat? v with
    | some i, some v =>
      if d.b.head ≤ i ∧ i < d.b.tail then
        if d.b.valid i then ibRes d "0" else ibRes { d with b := d.b.setSlot i (some (v, false)) } "1"
      else (d, "bad-op")
    | _, _ => (d, "bad-op")
  | _ => (d, "bad-op")

/-! ### c15buf — buffer_node / queue_node / sequencer_node with scripted successors -/

def seqOf (v : Nat) : Nat := v / 8

structure NodeD where
  kind  : Kind := .queue
  mode  : Nat := 0
  st    : BufSt := {}
  succs : List Nat := []

def itemValid (k : Kind) (s : BufSt) : Bool :=
  match k with
  | .buffer => s.buf.valid (s.buf.tail - 1)
  | _ => s.buf.valid s.buf.head

def cand (k : Kind) (s : BufSt) : Nat :=
  match k with
  | .buffer => s.buf.back.getD 0
  | _ => s.buf.front.getD 0

/-- the `for (; counter > 0 && is_item_valid(); --counter) try_put_and_add_task(last_task)` loop -/
def fwdInner (k : Kind) (mode : Nat) (succs : List Nat) : Nat → BufSt → Bool → List String → BufSt × Nat × Bool × List String
  | 0, s, last, dl => (s, 0, last, dl)
  | c + 1, s, last, dl =>
    if itemValid k s then
      let x := cand k s
      match firstAcc succs x with
      | some r => fwdInner k mode succs c (bufStep k mode seqOf s (.fwd true)).1 true (dl ++ [s!"r{r}:{x}"])
      | none => fwdInner k mode succs c (bufStep k mode seqOf s (.fwd false)).1 last dl
    else (s, c + 1, last, dl)

/-- `forward_task()`: rounds of try_fwd_task while the status is SUCCEEDED -/
def fwdRounds (k : Kind) (mode : Nat) (succs : List Nat) : Nat → BufSt → List String → BufSt × List String
  | 0, s, dl => (s, dl)
  | fuel + 1, s, dl =>
    if s.reserved || !itemValid k s then ({ s with busy := false }, dl)
    else
      let (s1, c, last, dl1) := fwdInner k mode succs succs.length s false dl
      if last && c == 0 then fwdRounds k mode succs fuel s1 dl1 else ({ s1 with busy := false }, dl1)

def showOut : BufOut → String
  | .ok => "ok" | .rejected => "rej" | .none => "-" | .ub => "ub"
  | .item v => toString v
  | .offered v a => s!"off{v}:{showBool a}"

def nodeOp (d : NodeD) (op : BufOp) (tryFwd : BufOut → Bool) : NodeD × String :=
  if d.st.ub then (d, "ub") else
  let (s1, o) := bufStep d.kind d.mode seqOf d.st op
  if s1.ub then ({ d with st := s1 }, "ub") else
  let (s2, dl) :=
    if tryFwd o && !s1.busy then
      fwdRounds d.kind d.mode d.succs (s1.buf.tail - s1.buf.head + 2) { s1 with busy := true } []
    else (s1, [])
  ({ d with st := s2 }, s!"{showOut o} ; {spaceSep dl} ; {showBool s2.reserved} {showBool s2.busy} | {dumpBuf s2.buf}")

def driveBuf (d : NodeD) (ws : List String) : NodeD × String :=
  match ws with
  | "reset" :: kind :: mode :: ms =>
    match (match kind with | "buffer" => some Kind.buffer | "queue" => some Kind.queue | "seq" => some Kind.sequencer | _ => none),
          nat? mode, nats? ms with
    | some k, some mode, some ms => ({ kind := k, mode := mode, st := {}, succs := ms }, "ok")
    | _, _, _ => (d, "bad-op")
  | ["mode", r, m] => match nat? r, nat? m with
    | some r, some m => if r < d.succs.length then ({ d with succs := d.succs.set r m }, "ok") else (d, "bad-op")
    | _, _ => (d, "bad-op")
  | ["put", v] => match nat? v with
    | some v => nodeOp d (.put v) (fun o => o == .ok)
    | none => (d, "bad-op")
  | ["get"] => nodeOp d .get (fun _ => false)
  | ["reserve"] => nodeOp d .reserve (fun _ => false)
  | ["release"] => if d.st.reserved || d.st.ub then nodeOp d .release (fun _ => true) else (d, "bad-op")
  | ["consume"] => if d.st.reserved || d.st.ub then nodeOp d .consume (fun _ => true) else (d, "bad-op")
  | _ => (d, "bad-op")

/-! ### c15prio — priority_queue_node, incl. white-box multi-operation aggregator batches -/

structure PrioD where
  st    : PrioSt := {}
  succs : List Nat := []

def prioInner (succs : List Nat) : Nat → PrioSt → Bool → List String → PrioSt × Nat × Bool × List String
  | 0, s, last, dl => (s, 0, last, dl)
  | c + 1, s, last, dl =>
    if s.data.length > 0 then
      let x := s.prio
      match firstAcc succs x with
      | some r => prioInner succs c (prioStep s (.fwd true)).1 true (dl ++ [s!"r{r}:{x}"])
      | none => prioInner succs c s last dl
    else (s, c + 1, last, dl)

def prioRounds (succs : List Nat) : Nat → PrioSt → List String → PrioSt × List String
  | 0, s, dl => (s, dl)
  | fuel + 1, s, dl =>
    if s.resv.isSome || s.data.length == 0 then ({ s with busy := false }.order, dl)
    else
      let (s1, c, last, dl1) := prioInner succs succs.length s false dl
      let s2 := s1.order
      if last && c == 0 then prioRounds succs fuel s2 dl1 else ({ s2 with busy := false }, dl1)

def parsePrioOp (w : String) : Option PrioOp :=
  if w == "g" then some .get else if w == "r" then some .reserve
  else if w == "l" then some .release else if w == "c" then some .consume
  else if w.startsWith "p" then (nat? (w.drop 1).toString).map PrioOp.put else none

/-- one aggregator batch: the ops in list order, then `order()`, then the forwarding decision -/
def prioBatch (d : PrioD) (ops : List PrioOp) : PrioD × String :=
  let step := fun (acc : PrioSt × List String × Bool × Bool) (op : PrioOp) =>
    let (s, rs, tf, bad) := acc
    let pre := match op with
      | .release => s.resv.isSome | .consume => s.resv.isSome | _ => true
    if !pre then (s, rs, tf, true) else
    let (s', o) := prioStep s op
    let tf' := match op with | .put _ => true | .release => true | .consume => true | _ => tf
    (s', rs ++ [showOut o], tf', bad)
  let (s1, rs, tf, bad) := ops.foldl step (d.st, [], false, false)
  if bad then (d, "bad-op") else
  let s2 := s1.order
  let (s3, dl) :=
    if tf && !s2.busy then prioRounds d.succs (s2.data.length + 2) { s2 with busy := true } [] else (s2, [])
  ({ d with st := s3 },
   s!"{commaSep rs} ; {spaceSep dl} ; {showBool s3.resv.isSome} {showBool s3.busy} | {s3.mark} | {commaSep (s3.data.map toString)}")

def drivePrio (d : PrioD) (ws : List String) : PrioD × String :=
  match ws with
  | "reset" :: ms => match nats? ms with
    | some ms => ({ st := {}, succs := ms }, "ok")
    | none => (d, "bad-op")
  | ["mode", r, m] => match nat? r, nat? m with
    | some r, some m => if r < d.succs.length then ({ d with succs := d.succs.set r m }, "ok") else (d, "bad-op")
    | _, _ => (d, "bad-op")
  | "batch" :: ops => match ops.mapM parsePrioOp with
    | some ops => if ops.isEmpty then (d, "bad-op") else prioBatch d ops
    | none => (d, "bad-op")
  | _ => (d, "bad-op")

/-! ### c15lim — limiter_node; the first successor sends the nested decrements while it is being offered -/

structure LimD where
  st    : LimSt := { threshold := 1 }
  succs : List Nat := []

def limDump (s : LimSt) : String := s!"{s.count} {s.tries} {s.future}"

def driveLim (d : LimD) (ws : List String) : LimD × String :=
  match ws with
  | "reset" :: th :: ms => match nat? th, nats? ms with
    | some th, some ms => ({ st := { threshold := th }, succs := ms }, "ok")
    | _, _ => (d, "bad-op")
  | ["mode", r, m] => match nat? r, nat? m with
    | some r, some m => if r < d.succs.length then ({ d with succs := d.succs.set r m }, "ok") else (d, "bad-op")
    | _, _ => (d, "bad-op")
  | ["dec", x] => match int? x with
    | some x => let s := (limStep d.st (.dec x)).1; ({ d with st := s }, s!"- ; - ; {limDump s}")
    | none => (d, "bad-op")
  | "put" :: v :: ds => match nat? v, ds.mapM int? with
    | some v, some ds =>
      match limStep d.st (.begin true) with
      | (s1, .admitted) =>
        let s2 := if d.succs.isEmpty then s1 else ds.foldl (fun s x => (limStep s (.dec x)).1) s1
        let who := allAcc d.succs v
        let s3 := (limStep s2 (.verdict (!who.isEmpty))).1
        let s4 := (limStep s3 (if who.isEmpty then .endFail else .endOk)).1
        ({ d with st := s4 }, s!"{showBool (!who.isEmpty)} ; {spaceSep (who.map (fun r => s!"r{r}:{v}"))} ; {limDump s4}")
      | (s1, _) => ({ d with st := s1 }, s!"0 ; - ; {limDump s1}")
    | _, _ => (d, "bad-op")
  | "put2" :: v1 :: v2 :: ds => match nat? v1, nat? v2, ds.mapM int? with
    | some v1, some v2, some ds =>
      if d.succs.isEmpty then (d, "bad-op") else
      match limStep d.st (.begin true) with
      | (s1, .admitted) =>
        -- the second put is admitted or refused while the first one is in flight
        let (s2, adm2) := match limStep s1 (.begin true) with
          | (s, .admitted) => (s, true)
          | (s, _) => (s, false)
        let s3 := ds.foldl (fun s x => (limStep s (.dec x)).1) s2
        let who1 := allAcc d.succs v1
        let s4 := (limStep (limStep s3 (.verdict (!who1.isEmpty))).1 (if who1.isEmpty then .endFail else .endOk)).1
        let who2 := if adm2 then allAcc d.succs v2 else []
        let s5 := if adm2 then (limStep (limStep s4 (.verdict (!who2.isEmpty))).1 (if who2.isEmpty then .endFail else .endOk)).1 else s4
        let dl := who1.map (fun r => s!"r{r}:{v1}") ++ who2.map (fun r => s!"r{r}:{v2}")
        ({ d with st := s5 }, s!"{showBool (!who1.isEmpty)},{showBool (!who2.isEmpty)} ; {spaceSep dl} ; {limDump s5}")
      | (s1, _) =>
        -- the first put is refused at admission: nothing is offered, so the second put never starts
        ({ d with st := s1 }, s!"0,0 ; - ; {limDump s1}")
    | _, _, _ => (d, "bad-op")
  | _ => (d, "bad-op")

/-! ### c15lq — queue_node → limiter_node → always-accepting sink (push/pull edge protocol as coded) -/

structure LqD where
  st    : LimSt := { threshold := 1 }
  q     : List Nat := []
  pull  : Bool := false        -- the edge queue→limiter is in pull mode (queue sits in my_predecessors)

def lqDump (d : LqD) : String :=
  s!"{limDump d.st} | {commaSep (d.q.map toString)} | {showBool d.pull}"

/-- the queue's forwarding task while the edge is in push mode -/
def lqPush : Nat → LqD → List String → LqD × List String
  | 0, d, dl => (d, dl)
  | fuel + 1, d, dl =>
    match d.q with
    | [] => (d, dl)
    | v :: rest =>
      match limStep d.st (.begin true) with
      | (s1, .admitted) =>
        let s2 := (limStep (limStep s1 (.verdict true)).1 .endOk).1
        lqPush fuel { d with st := s2, q := rest } (dl ++ [s!"r0:{v}"])
      | (s1, _) => ({ d with st := s1, pull := true }, dl)      -- rejected: register_predecessor, edge flips

/-- the limiter's forward_task chain while the edge is in pull mode -/
def lqPull : Nat → LqD → List String → LqD × List String
  | 0, d, dl => (d, dl)
  | fuel + 1, d, dl =>
    if !d.pull then (d, dl) else
    match limStep d.st (.begin true) with
    | (s1, .admitted) =>
      match d.q with
      | [] =>      -- try_reserve fails: edge back to push mode
        let s2 := (limStep (limStep s1 (.verdict false)).1 .endFail).1
        ({ d with st := s2, pull := false }, dl)
      | v :: rest =>
        let s2 := (limStep (limStep s1 (.verdict true)).1 .endOk).1
        lqPull fuel { d with st := s2, q := rest } (dl ++ [s!"r0:{v}"])
    | (s1, _) => ({ d with st := s1 }, dl)

def driveLq (d : LqD) (ws : List String) : LqD × String :=
  match ws with
  | ["reset", th] => match nat? th with
    | some th => ({ st := { threshold := th }, q := [], pull := false }, "ok")
    | none => (d, "bad-op")
  | ["put", v] => match nat? v with
    | some v =>
      let d1 := { d with q := d.q ++ [v] }
      let (d2, dl) := if d1.pull then (d1, []) else lqPush (d1.q.length + 1) d1 []
      (d2, s!"1 ; {spaceSep dl} ; {lqDump d2}")
    | none => (d, "bad-op")
  | ["dec", x] => match int? x with
    | some x =>
      let d1 := { d with st := (limStep d.st (.dec x)).1 }
      let (d2, dl) := lqPull (d1.q.length + 2) d1 []
      (d2, s!"- ; {spaceSep dl} ; {lqDump d2}")
    | none => (d, "bad-op")
  | _ => (d, "bad-op")

/-! ### c15jq — queueing join_node -/

structure JqD where
  st    : JqSt := jqInit 2
  succs : List Nat := []

def showTuple (t : List Nat) : String := "(" ++ ",".intercalate (t.map toString) ++ ")"
def tsum (t : List Nat) : Nat := t.foldl (· + ·) 0

def jqDump (s : JqSt) : String :=
  s!"{s.pwni} | " ++ " / ".intercalate (s.ports.map (fun q => commaSep (q.map toString)))

def jqFwd (succs : List Nat) : Nat → JqSt → List String → JqSt × List String
  | 0, s, dl => (s, dl)
  | fuel + 1, s, dl =>
    match jqStep s (.fwd false) with
    | (_, .tuple t _) =>
      let who := allAcc succs (tsum t)
      if who.isEmpty then (s, dl)
      else jqFwd succs fuel (jqStep s (.fwd true)).1 (dl ++ who.map (fun r => s!"r{r}:{showTuple t}"))
    | _ => (s, dl)

def driveJq (d : JqD) (ws : List String) : JqD × String :=
  match ws with
  | "reset" :: n :: ms => match nat? n, nats? ms with
    | some n, some ms => if n = 2 ∨ n = 3 then ({ st := jqInit n, succs := ms }, "ok") else (d, "bad-op")
    | _, _ => (d, "bad-op")
  | ["mode", r, m] => match nat? r, nat? m with
    | some r, some m => if r < d.succs.length then ({ d with succs := d.succs.set r m }, "ok") else (d, "bad-op")
    | _, _ => (d, "bad-op")
  | ["put", p, v] => match nat? p, nat? v with
    | some p, some v =>
      match jqStep d.st (.put p v) with
      | (s1, .ok spawn) =>
        let fuel := (s1.ports.map List.length).foldl (· + ·) 2
        let (s2, dl) := if spawn then jqFwd d.succs fuel s1 [] else (s1, [])
        ({ d with st := s2 }, s!"1 ; {spaceSep dl} ; {jqDump s2}")
      | (_, .ub) => (d, "ub")
      | _ => (d, "bad-op")
    | _, _ => (d, "bad-op")
  | ["get"] =>
    match jqStep d.st (.fwd true) with
    | (s1, .tuple t _) =>
      -- tuple_accepted may re-arm the counter to 0 and spawn a forward task
      let fuel := (s1.ports.map List.length).foldl (· + ·) 2
      let (s2, dl) := if s1.pwni == 0 then jqFwd d.succs fuel s1 [] else (s1, [])
      ({ d with st := s2 }, s!"{showTuple t} ; {spaceSep dl} ; {jqDump s2}")
    | (s1, _) => ({ d with st := s1 }, s!"- ; - ; {jqDump s1}")
  | _ => (d, "bad-op")

/-! ### c15jk — key_matching join_node (key = v / 8 on every port) -/

def keyOf (v : Nat) : Nat := v / 8

structure JkD where
  st    : JkSt := jkInit 2
  succs : List Nat := []

def sortPairs (a : Assoc) : Assoc := (a.toArray.qsort (fun x y => x.1 < y.1)).toList

def jkDump (s : JkSt) : String :=
  let tbl := fun (a : Assoc) => commaSep ((sortPairs a).map (fun kv => s!"{kv.1}={kv.2}"))
  s!"{commaSep (s.outbuf.map showTuple)} | {tbl s.counts} | " ++ " / ".intercalate (s.ports.map tbl)

def jkFwd (succs : List Nat) : Nat → JkSt → List String → JkSt × List String
  | 0, s, dl => (s, dl)
  | fuel + 1, s, dl =>
    match s.outbuf with
    | [] => (s, dl)
    | t :: _ =>
      let who := allAcc succs (tsum t)
      if who.isEmpty then (s, dl)
      else jkFwd succs fuel (jkStep keyOf s (.fwd true)).1 (dl ++ who.map (fun r => s!"r{r}:{showTuple t}"))

def driveJk (d : JkD) (ws : List String) : JkD × String :=
  match ws with
  | "reset" :: n :: ms => match nat? n, nats? ms with
    | some n, some ms => if n = 2 ∨ n = 3 then ({ st := jkInit n, succs := ms }, "ok") else (d, "bad-op")
    | _, _ => (d, "bad-op")
  | ["mode", r, m] => match nat? r, nat? m with
    | some r, some m => if r < d.succs.length then ({ d with succs := d.succs.set r m }, "ok") else (d, "bad-op")
    | _, _ => (d, "bad-op")
  | ["put", p, v] => match nat? p, nat? v with
    | some p, some v =>
      let wasEmpty := d.st.outbuf.isEmpty
      match jkStep keyOf d.st (.put p v) with
      | (s1, .ok filled) =>
        let (s2, dl) := if filled && wasEmpty then jkFwd d.succs (s1.outbuf.length + 1) s1 [] else (s1, [])
        ({ d with st := s2 }, s!"1 ; {spaceSep dl} ; {jkDump s2}")
      | (s1, .none) => ({ d with st := s1 }, s!"0 ; - ; {jkDump s1}")
      | (_, .ub) => (d, "ub")
      | _ => (d, "bad-op")
    | _, _ => (d, "bad-op")
  | ["get"] =>
    match jkStep keyOf d.st (.fwd true) with
    | (s1, .tuple t _) => ({ d with st := s1 }, s!"{showTuple t} ; - ; {jkDump s1}")
    | (s1, _) => ({ d with st := s1 }, s!"- ; - ; {jkDump s1}")
  | _ => (d, "bad-op")

/-! ### c15jr — reserving join_node fed by scripted senders -/

structure JrD where
  n     : Nat := 2
  st    : JrSt := { n := 2, resv := [false, false] }
  avail : List (Option Nat) := [none, none]     -- what each sender currently holds
  regd  : List Bool := [false, false]           -- is the sender in the port's predecessor cache (pull edge)
  pwni  : Nat := 2                              -- ports_with_no_inputs
  succs : List Nat := []

def showEv : JrEv → String
  | .reserve p v => s!"res{p}:{v}"
  | .release p => s!"rel{p}"
  | .consume p => s!"con{p}"

/-- which port's reservation failed (highest index without an item), if any -/
def jrFailPort (avail : List (Option Nat)) : Nat → Option Nat
  | 0 => none
  | k + 1 => if (avail.getD k none).isNone then some k else jrFailPort avail k

/-- `do_fwrd_bypass` / `try__get`: attempts while tuples are built and accepted.  `pull` = a successor's
try_get (the tuple is accepted by construction, one attempt only). -/
def jrFwd (pull : Bool) : Nat → JrD → List String → List String → JrD × List String × List String × Option (List Nat)
  | 0, d, evs, dl => (d, evs, dl, none)
  | fuel + 1, d, evs, dl =>
    if d.pwni ≠ 0 then (d, evs, dl, none) else
    match jrFailPort d.avail d.n with
    | some k =>
      -- reservation of port k fails: the sender is dropped from the cache (back to push mode) and the
      -- port reports "no inputs"
      let (s1, o) := jrStep d.st (d.avail, false)
      let es := match o with | .none es => es | .tuple _ _ es => es
      ({ d with st := s1, regd := d.regd.set k false, pwni := d.pwni + 1 }, evs ++ es.map showEv, dl, none)
    | none =>
      let t := d.avail.map (·.getD 0)
      let who := if pull then [0] else allAcc d.succs (tsum t)
      let (s1, o) := jrStep d.st (d.avail, !who.isEmpty)
      let es := match o with | .none es => es | .tuple _ _ es => es
      if who.isEmpty then ({ d with st := s1 }, evs ++ es.map showEv, dl, none)
      else
        let d1 := { d with st := s1, avail := d.avail.map (fun _ => none) }
        if pull then (d1, evs ++ es.map showEv, dl, some t)
        else jrFwd pull fuel d1 (evs ++ es.map showEv) (dl ++ who.map (fun r => s!"r{r}:{showTuple t}"))

def jrDump (d : JrD) : String :=
  s!"{d.pwni} | {commaSep (d.avail.map (fun a => match a with | some v => toString v | none => "_"))} | {String.join (d.regd.map showBool)} | {String.join (d.st.resv.map showBool)}"

def driveJr (d : JrD) (ws : List String) : JrD × String :=
  match ws with
  | "reset" :: n :: ms => match nat? n, nats? ms with
    | some n, some ms =>
      if n = 2 ∨ n = 3 then
        ({ n := n, st := { n := n, resv := List.replicate n false }, avail := List.replicate n none,
           regd := List.replicate n false, pwni := n, succs := ms }, "ok")
      else (d, "bad-op")
    | _, _ => (d, "bad-op")
  | ["mode", r, m] => match nat? r, nat? m with
    | some r, some m => if r < d.succs.length then ({ d with succs := d.succs.set r m }, "ok") else (d, "bad-op")
    | _, _ => (d, "bad-op")
  | ["offer", p, v] => match nat? p, nat? v with
    | some p, some v =>
      if p < d.n ∧ (d.avail.getD p none).isNone then
        let d1 := { d with avail := d.avail.set p (some v) }
        if d.regd.getD p false then (d1, s!"ok ; - ; - ; {jrDump d1}")
        else
          -- the sender registers as predecessor: reg_pred → decrement_port_count
          let d2 := { d1 with regd := d1.regd.set p true, pwni := d1.pwni - 1 }
          let (d3, evs, dl, _) := if d2.pwni == 0 then jrFwd false 4 d2 [] [] else (d2, [], [], none)
          (d3, s!"ok ; {spaceSep evs} ; {spaceSep dl} ; {jrDump d3}")
      else (d, "bad-op")
    | _, _ => (d, "bad-op")
  | ["get"] =>
    let (d1, evs, _, t) := jrFwd true 1 d [] []
    (d1, s!"{match t with | some t => showTuple t | none => "-"} ; {spaceSep evs} ; - ; {jrDump d1}")
  | _ => (d, "bad-op")

/-! ### c15ow — overwrite_node / write_once_node -/

structure OwD where
  once  : Bool := false
  st    : OwSt := {}
  modes : List Nat := []       -- verdict mode of every receiver ever created (index = id)

def owDump (s : OwSt) : String :=
  s!"{match s.buf with | some v => toString v | none => "_"} | {commaSep (s.succs.map toString)}"

def driveOw (d : OwD) (ws : List String) : OwD × String :=
  match ws with
  | ["reset", once] => match nat? once with
    | some o => ({ once := o != 0, st := {}, modes := [] }, "ok")
    | none => (d, "bad-op")
  | ["mode", r, m] => match nat? r, nat? m with
    | some r, some m => if r < d.modes.length then ({ d with modes := d.modes.set r m }, "ok") else (d, "bad-op")
    | _, _ => (d, "bad-op")
  | ["reg", m] => match nat? m with
    | some m =>
      let r := d.modes.length
      let a := match d.st.buf with | some v => accepts m v | none => true
      let (s1, o) := owStep d.once d.st (.reg r a)
      let dl := match d.st.buf, o with | some v, .ok => [s!"r{r}:{v}"] | _, _ => []
      ({ d with st := s1, modes := d.modes ++ [m] }, s!"ok ; {spaceSep dl} ; {owDump s1}")
    | none => (d, "bad-op")
  | ["put", v] => match nat? v with
    | some v =>
      let leave := d.st.succs.filter (fun r => !accepts (d.modes.getD r 0) v)
      match owStep d.once d.st (.put v leave) with
      | (s1, .ok) =>
        let dl := (d.st.succs.filter (fun r => accepts (d.modes.getD r 0) v)).map (fun r => s!"r{r}:{v}")
        ({ d with st := s1 }, s!"1 ; {spaceSep dl} ; {owDump s1}")
      | (s1, _) => ({ d with st := s1 }, s!"0 ; - ; {owDump s1}")
    | none => (d, "bad-op")
  | ["get"] =>
    match owStep d.once d.st .get with
    | (_, .item v) => (d, s!"{v} ; - ; {owDump d.st}")
    | _ => (d, s!"- ; - ; {owDump d.st}")
  | ["clear"] => let s1 := (owStep d.once d.st .clear).1; ({ d with st := s1 }, s!"ok ; - ; {owDump s1}")
  | _ => (d, "bad-op")

/-! ### c15misc — broadcast_node / split_node / indexer_node -/

structure MiscD where
  succs : List Nat := []

def driveMisc (d : MiscD) (ws : List String) : MiscD × String :=
  match ws with
  | "reset" :: ms => match nats? ms with
    | some ms => ({ succs := ms }, "ok")
    | none => (d, "bad-op")
  | ["bput", v] => match nat? v with
    | some v =>
      let offers := broadcastPut (List.range d.succs.length) v
      let dl := (offers.filter (fun rv => accepts (d.succs.getD rv.1 1) rv.2)).map (fun rv => s!"r{rv.1}:{rv.2}")
      (d, s!"1 ; {spaceSep dl}")
    | none => (d, "bad-op")
  | "sput" :: vs => match nats? vs with
    | some vs => if vs.length = 3 then (d, s!"1 ; {spaceSep ((splitPut vs).map (fun pv => s!"p{pv.1}:{pv.2}"))}") else (d, "bad-op")
    | none => (d, "bad-op")
  | ["iput", p, v] => match nat? p, nat? v with
    | some p, some v =>
      if p < 3 then
        let offers := indexerPut (List.range d.succs.length) p v
        let dl := (offers.filter (fun x => accepts (d.succs.getD x.1 1) x.2.2)).map (fun x => s!"r{x.1}:({x.2.1},{x.2.2})")
        (d, s!"{showBool (!dl.isEmpty)} ; {spaceSep dl}")
      else (d, "bad-op")
    | _, _ => (d, "bad-op")
  | _ => (d, "bad-op")

end C15Drv

open C15Drv in
def drivers : List (String × Proto.Driver) := [
  ("c15ib",   { σ := IbD,   init := {}, step := driveIb }),
  ("c15buf",  { σ := NodeD, init := {}, step := driveBuf }),
  ("c15prio", { σ := PrioD, init := {}, step := drivePrio }),
  ("c15lim",  { σ := LimD,  init := {}, step := driveLim }),
  ("c15lq",   { σ := LqD,   init := {}, step := driveLq }),
  ("c15jq",   { σ := JqD,   init := {}, step := driveJq }),
  ("c15jk",   { σ := JkD,   init := {}, step := driveJk }),
  ("c15jr",   { σ := JrD,   init := {}, step := driveJr }),
  ("c15ow",   { σ := OwD,   init := {}, step := driveOw }),
  ("c15misc", { σ := MiscD, init := {}, step := driveMisc }),
  ("c15bat",  { σ := C15BatDrv.BatD, init := {}, step := C15BatDrv.drive }),
  ("c15jb",   { σ := C15JbDrv.JbD, init := {}, step := C15JbDrv.drive })
]

def main (args : List String) : IO UInt32 := Proto.mainOf drivers args
