import TbbVerif.Core.Proto
import TbbVerif.Model.C03
import TbbVerif.Model.C03Exec
import TbbVerif.Model.C03Graph
import TbbVerif.Model.C03Pipe

open TbbVerif

def drivers : List (String × Proto.Driver) := [
  ("c03", C03.driver),
  ("c03red", C03.rdriver),
  ("c03exec", C03.Exec.driver),
  ("c03graph", C03.Graph.driver),
  ("c03pipe", C03.Pipe.driver)
]

def main (args : List String) : IO UInt32 := Proto.mainOf drivers args
