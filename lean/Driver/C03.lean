import TbbVerif.Core.Proto
import TbbVerif.Model.C03

open TbbVerif

def drivers : List (String × Proto.Driver) := [
  ("c03", C03.driver),
  ("c03red", C03.rdriver)
]

def main (args : List String) : IO UInt32 := Proto.mainOf drivers args
