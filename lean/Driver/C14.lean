import TbbVerif.Core.Proto
import TbbVerif.Model.C14
import TbbVerif.Model.C14Res
import TbbVerif.Model.C14Wait
import TbbVerif.Model.C14Meta

open TbbVerif

def drivers : List (String × Proto.Driver) := [
  ("c14sim", C14.Sim.driver),
  ("c14cache", C14.cacheDriver),
  ("c14net", C14.NetDrv.driver),
  ("c14res", C14.Res.DS.driver),
  ("c14inp", C14.Res.IDS.driver),
  ("c14wt", C14.Wait.WDrv.driver),
  ("c14meta", C14.Meta.driver)
]

def main (args : List String) : IO UInt32 := Proto.mainOf drivers args
