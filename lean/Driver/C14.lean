import TbbVerif.Core.Proto
import TbbVerif.Model.C14

open TbbVerif

def drivers : List (String × Proto.Driver) := [
  ("c14sim", C14.Sim.driver),
  ("c14cache", C14.cacheDriver),
  ("c14net", C14.NetDrv.driver)
]

def main (args : List String) : IO UInt32 := Proto.mainOf drivers args
