import TbbVerif.Core.Proto
import TbbVerif.Model.C16

open TbbVerif TbbVerif.C16 TbbVerif.Proto

namespace C16Drv

def showInts (xs : List Int) : String := ",".intercalate (xs.map toString)
def showNatsC (xs : List Nat) : String := ",".intercalate (xs.map toString)

/-! ### `c16`: stateless pure functions -/

/-- parse `L <D> <min>:<max> … L <D> …` -/
def groups (ws : List String) : List (List String) :=
  ws.foldr (fun w acc => if w == "L" then [] :: acc else match acc with
    | g :: gs => (w :: g) :: gs
    | [] => [[w]]) [[]]

def parseGroup : List String → Option (Nat × List Client)
  | d :: cs => do
    let D ← nat? d
    let cl ← cs.mapM (fun w => match w.splitOn ":" with
      | [a, b] => do let a ← nat? a; let b ← nat? b; some ({ minW := a, maxW := b } : Client)
      | _ => none)
    some (D, cl)
  | [] => none

def parseLevels (ws : List String) : Option (List (Nat × List Client)) :=
  match groups ws with
  | [] :: gs => gs.mapM parseGroup
  | _ => none

def showOut (o : Out) : String :=
  -- the harness presets `my_is_top_priority` to false, so an untouched flag reads 0
  s!"{o.allotted}:" ++ showBool (o.setTop.getD false)

def showAllot (r : Loop × List (List Out)) : String :=
  " | ".intercalate (r.2.map (fun os => " ".intercalate (os.map showOut))) ++ s!" # {r.1.assigned}"

def drive (ws : List String) : String :=
  match ws with
  | "allot" :: soft :: total :: mand :: rest =>
    match nat? soft, nat? total, nat? mand, parseLevels rest with
    | some soft, some total, some mand, some levels =>
      match updateAllotment soft total mand levels with
      | some r => showAllot r
      | none => "fpe"
    | _, _, _, _ => "bad-op"
  | ["ld", d, l, n] =>
    match int? d, int? l, int? n with
    | some d, some l, some n => toString (limitDelta d l n)
    | _, _, _ => "bad-op"
  | ["add", w, d] =>
    match nat? w, int? d with
    | some w, some d =>
      let w' := Pack.add w d
      s!"{w'} {showBool (Pack.isDrainer w)} {Pack.extract w'}"
    | _, _ => "bad-op"
  | ["upd", soft, total, pending, d] =>
    match int? soft, int? total, nat? pending, int? d with
    | some soft, some total, some pending, some d =>
      let (s', out) := ({ softLimit := soft, totalRequest := total, pending := pending } : Serializer).update d
      s!"{s'.pending} {s'.totalRequest} " ++ (match out with | some o => toString o | none => "-")
    | _, _, _, _ => "bad-op"
  | ["ur", mnw, mand, tot, md, wd] =>
    match nat? mnw, int? mand, int? tot, int? md, int? wd with
    | some mnw, some mand, some tot, some md, some wd =>
      let (a, _) := ({ id := 0, maxNumWorkers := mnw, mandReq := mand, totalReq := tot } : Arena).updateRequest md wd
      s!"{a.minW} {a.maxW}"
    | _, _, _, _, _ => "bad-op"
  | _ => "bad-op"

/-! ### `c16m`: market + serializer world -/

def showArena (a : Arena) (g : Grant) : String :=
  s!"{a.id}:{a.minW}:{a.maxW}:{g.1}:{showBool g.2}"

def showWorld (w : World) : String :=
  let m := w.market
  let s := w.proxy.ser
  s!"soft={m.softLimit} total={m.totalDemand} mand={m.mandatoryNum} D={showInts (m.lv.map (·.1))} C=" ++
    " | ".intercalate (List.zipWith (fun p gs => " ".intercalate (List.zipWith showArena p.2 gs)) m.lv m.grants) ++
    s!" ser={s.softLimit},{s.totalRequest},{s.pending},{s.handed} prox={w.proxy.numMandatory},{showBool w.proxy.enabled}"

def driveWorld (w : World) (ws : List String) : World × String :=
  let op : Option (Option WOp) := match ws with
    | ["reset", _] => some none
    | ["reg", id, l, mnw] => (do let id ← nat? id; let l ← nat? l; let mnw ← nat? mnw; some (some (WOp.reg id l mnw)))
    | ["unreg", id] => (do let id ← nat? id; some (some (WOp.unreg id)))
    | ["adj", id, md, wd] => (do let id ← nat? id; let md ← int? md; let wd ← int? wd; some (some (WOp.adjust id md wd)))
    | ["lim", n] => (do let n ← nat? n; some (some (WOp.setLimit n)))
    | _ => none
  match op, ws with
  | some none, [_, soft] =>
    match nat? soft with
    | some soft => let w' := World.init soft; (w', showWorld w')
    | none => (w, "bad-op")
  | some (some o), _ =>
    match w.step o with
    | some w' => (w', showWorld w')
    | none => (w, "bad-op")
  | _, _ => (w, "bad-op")

/-! ### `c16gc`: global_control storage -/

def showGC (g : GC) : String :=
  s!"active={g.active} value={g.activeValue} napplied={g.applied.length} last=" ++
    (match g.applied.getLast? with | some v => toString v | none => "-")

def driveGC (g : GC) (ws : List String) : GC × String :=
  match ws with
  | ["reset", pm, d] =>
    match nat? pm, nat? d with
    | some pm, some d => let g' : GC := { preferMin := pm != 0, dflt := d }; (g', showGC g')
    | _, _ => (g, "bad-op")
  | ["create", h, v] =>
    match nat? h, nat? v with
    | some h, some v => if g.live.any (·.1 == h) then (g, "bad-op") else let g' := g.create h v; (g', showGC g')
    | _, _ => (g, "bad-op")
  | ["destroy", h] =>
    match nat? h with
    | some h => if g.live.any (·.1 == h) then let g' := g.destroy h; (g', showGC g') else (g, "bad-op")
    | none => (g, "bad-op")
  | _ => (g, "bad-op")

/-! ### `c16slots`: trace replay of the slot protocol -/

structure SD where
  cfg : SCfg := { numSlots := 0, reserved := 0 }
  st : SSt := { occ := [], limit := 1, ths := [] }

def showEv (t : Nat) (e : Ev) : String := s!"{t} {e.kind} {e.var} {e.order} {e.a} {e.b} {e.ok}"

/-- index `i` of a variable name `occ<i>` -/
def occIndex (v : String) : Option Nat :=
  if v.startsWith "occ" then (v.drop 3).toString.toNat? else none

def driveSlots (d : SD) (ws : List String) : SD × String :=
  match ws with
  | "cfg" :: n :: r :: kinds =>
    match nat? n, nat? r, kinds.mapM nat? with
    | some n, some r, some ks =>
      let cfg : SCfg := { numSlots := n, reserved := r }
      ({ cfg := cfg, st := (slotSys cfg (ks.map (fun k => (k != 0, [])))).init }, "ok")
    | _, _, _ => (d, "bad-op")
  | [t, "res", r] =>
    match nat? t, int? r with
    | some t, some r =>
      match d.st.ths[t]? with
      | some th =>
        let got : Int := match th.slot with | some i => (i : Int) | none => -1
        let pcOk := match th.pc with | .inside _ => true | .idle => true | _ => false
        (d, if got == r && pcOk then "ok" else s!"mismatch model={got}")
      | none => (d, "bad-tid")
    | _, _ => (d, "bad-op")
  | [t, _kind, var, _order, _a, _b, _ok] =>
    match nat? t with
    | some t =>
      match d.st.ths[t]? with
      | some th =>
        -- the start index of a range is the implementation's choice: read it off the observed access
        let pc0 := match th.pc with | .idle => enterStart d.cfg th.worker | pc => pc
        let hint := match pc0, occIndex var with
          | .rangeBegin lo _, some i => i - lo
          | _, _ => 0
        let needsHint := match th.pc with | .idle => true | .rangeBegin _ _ => true | _ => false
        let th1 := if needsHint then { th with hints := [hint] } else th
        let (th', occ', limit', ev) := stepTh d.cfg d.st.occ d.st.limit th1
        let st' : SSt := { occ := occ', limit := limit', ths := d.st.ths.set t th' }
        ({ d with st := st' }, match ev with | some e => showEv t e | none => s!"{t} none")
      | none => (d, "bad-tid")
    | none => (d, "bad-op")
  | ["check"] =>
    let holders := (List.range d.st.ths.length).filterMap (fun t => match d.st.ths[t]? with
      | some th => th.slot.map (fun i => s!"{t}@{i}")
      | none => none)
    (d, s!"inside={d.st.insideCount} occ={showNatsC (d.st.occ.map b2n)} limit={d.st.limit} holders={" ".intercalate holders}")
  | _ => (d, "bad-op")

/-! ### `c16pend`: trace replay of `thread_request_serializer::update` under interleaving -/

structure PD where
  st : PSt := { ser := { softLimit := 0 }, ths := [] }

def drivePend (d : PD) (ws : List String) : PD × String :=
  match ws with
  | "cfg" :: soft :: ds =>
    match int? soft, ds.mapM int? with
    | some soft, some ds => ({ st := (pendSys soft ds).init }, "ok")
    | _, _ => (d, "bad-op")
  | [t, _kind, _var, _order, _a, _b, _ok] =>
    match nat? t with
    | some t =>
      match d.st.ths[t]? with
      | some th =>
        let s' := d.st.step t
        let line := match th.pc with
          | 0 => s!"{t} fadd pending sc {d.st.ser.pending} {s'.ser.pending} 1"
          | 1 => s!"{t} xchg pending sc {d.st.ser.pending} {s'.ser.pending} 1"
          | 2 => s!"{t} store total rlx {TbbVerif.Cint.wrapU 32 s'.ser.totalRequest} {TbbVerif.Cint.wrapU 32 d.st.ser.totalRequest} 1"
          | _ => s!"{t} none"
        ({ st := s' }, line)
      | none => (d, "bad-tid")
    | none => (d, "bad-op")
  | ["check"] =>
    (d, s!"total={d.st.ser.totalRequest} handed={d.st.ser.handed} pending={d.st.ser.pending} done={showBool (d.st.ths.all (·.pc == 3))}")
  | _ => (d, "bad-op")

end C16Drv

def drivers : List (String × Proto.Driver) := [
  ("c16", Proto.pureDriver C16Drv.drive),
  ("c16m", { σ := World, init := World.init 0, step := C16Drv.driveWorld }),
  ("c16gc", { σ := GC, init := { preferMin := true, dflt := 1 }, step := C16Drv.driveGC }),
  ("c16slots", { σ := C16Drv.SD, init := {}, step := C16Drv.driveSlots }),
  ("c16pend", { σ := C16Drv.PD, init := {}, step := C16Drv.drivePend })
]

def main (args : List String) : IO UInt32 := Proto.mainOf drivers args
