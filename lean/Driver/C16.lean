import TbbVerif.Core.Proto
import TbbVerif.Model.C16
import TbbVerif.Model.C16Iso
import TbbVerif.Model.C16Mand
import TbbVerif.Model.C16Nest
import TbbVerif.Model.C16Life

open TbbVerif TbbVerif.C16 TbbVerif.Proto

namespace C16Drv

def showInts (xs : List Int) : String := ",".intercalate (xs.map toString)
def showNatsC (xs : List Nat) : String := ",".intercalate (xs.map toString)

/-! ### `c16`: stateless pure functions -/

/-- parse `L <D> <min>:<max> … L <D> …` -/
def groups (ws : List String) : List (List String) :=
  ws.foldr (fun w acc => if w == "L" then [] :: acc else match acc with
    | g :: gs => (w :: g) :: gs
    | [] => [[w]]) [[]]

def parseGroup : List String → Option (Nat × List Client)
  | d :: cs => do
    let D ← nat? d
    let cl ← cs.mapM (fun w => match w.splitOn ":" with
      | [a, b] => do let a ← nat? a; let b ← nat? b; some ({ minW := a, maxW := b } : Client)
      | _ => none)
    some (D, cl)
  | [] => none

def parseLevels (ws : List String) : Option (List (Nat × List Client)) :=
  match groups ws with
  | [] :: gs => gs.mapM parseGroup
  | _ => none

def showOut (o : Out) : String :=
  -- the harness presets `my_is_top_priority` to false, so an untouched flag reads 0
  s!"{o.allotted}:" ++ showBool (o.setTop.getD false)

def showAllot (r : Loop × List (List Out)) : String :=
  " | ".intercalate (r.2.map (fun os => " ".intercalate (os.map showOut))) ++ s!" # {r.1.assigned}"

def drive (ws : List String) : String :=
  match ws with
  | "allot" :: soft :: total :: mand :: rest =>
    match nat? soft, nat? total, nat? mand, parseLevels rest with
    | some soft, some total, some mand, some levels =>
      match updateAllotment soft total mand levels with
      | some r => showAllot r
      | none => "fpe"
    | _, _, _, _ => "bad-op"
  | ["ld", d, l, n] =>
    match int? d, int? l, int? n with
    | some d, some l, some n => toString (limitDelta d l n)
    | _, _, _ => "bad-op"
  | ["add", w, d] =>
    match nat? w, int? d with
    | some w, some d =>
      let w' := Pack.add w d
      s!"{w'} {showBool (Pack.isDrainer w)} {Pack.extract w'}"
    | _, _ => "bad-op"
  | ["upd", soft, total, pending, d] =>
    match int? soft, int? total, nat? pending, int? d with
    | some soft, some total, some pending, some d =>
      let (s', out) := ({ softLimit := soft, totalRequest := total, pending := pending } : Serializer).update d
      s!"{s'.pending} {s'.totalRequest} " ++ (match out with | some o => toString o | none => "-")
    | _, _, _, _ => "bad-op"
  | ["ur", mnw, mand, tot, md, wd] =>
    match nat? mnw, int? mand, int? tot, int? md, int? wd with
    | some mnw, some mand, some tot, some md, some wd =>
      let (a, _) := ({ id := 0, maxNumWorkers := mnw, mandReq := mand, totalReq := tot } : Arena).updateRequest md wd
      s!"{a.minW} {a.maxW}"
    | _, _, _, _, _ => "bad-op"
  | _ => "bad-op"

/-! ### `c16m`: market + serializer world -/

def showArena (a : Arena) (g : Grant) : String :=
  s!"{a.id}:{a.minW}:{a.maxW}:{g.1}:{showBool g.2}"

def showWorld (w : World) : String :=
  let m := w.market
  let s := w.proxy.ser
  s!"soft={m.softLimit} total={m.totalDemand} mand={m.mandatoryNum} D={showInts (m.lv.map (·.1))} C=" ++
    " | ".intercalate (List.zipWith (fun p gs => " ".intercalate (List.zipWith showArena p.2 gs)) m.lv m.grants) ++
    s!" ser={s.softLimit},{s.totalRequest},{s.pending},{s.handed} prox={w.proxy.numMandatory},{showBool w.proxy.enabled}"

def driveWorld (w : World) (ws : List String) : World × String :=
  let op : Option (Option WOp) := match ws with
    | ["reset", _] => some none
    | ["reg", id, l, mnw] => (do let id ← nat? id; let l ← nat? l; let mnw ← nat? mnw; some (some (WOp.reg id l mnw)))
    | ["unreg", id] => (do let id ← nat? id; some (some (WOp.unreg id)))
    | ["adj", id, md, wd] => (do let id ← nat? id; let md ← int? md; let wd ← int? wd; some (some (WOp.adjust id md wd)))
    | ["lim", n] => (do let n ← nat? n; some (some (WOp.setLimit n)))
    | _ => none
  match op, ws with
  | some none, [_, soft] =>
    match nat? soft with
    | some soft => let w' := World.init soft; (w', showWorld w')
    | none => (w, "bad-op")
  | some (some o), _ =>
    match w.step o with
    | some w' => (w', showWorld w')
    | none => (w, "bad-op")
  | _, _ => (w, "bad-op")

/-! ### `c16gc`: global_control storage -/

def showGC (g : GC) : String :=
  s!"active={g.active} value={g.activeValue} napplied={g.applied.length} last=" ++
    (match g.applied.getLast? with | some v => toString v | none => "-")

def driveGC (g : GC) (ws : List String) : GC × String :=
  match ws with
  | ["reset", pm, d] =>
    match nat? pm, nat? d with
    | some pm, some d => let g' : GC := { preferMin := pm != 0, dflt := d }; (g', showGC g')
    | _, _ => (g, "bad-op")
  | ["create", h, v] =>
    match nat? h, nat? v with
    | some h, some v => if g.live.any (·.1 == h) then (g, "bad-op") else let g' := g.create h v; (g', showGC g')
    | _, _ => (g, "bad-op")
  | ["destroy", h] =>
    match nat? h with
    | some h => if g.live.any (·.1 == h) then let g' := g.destroy h; (g', showGC g') else (g, "bad-op")
    | none => (g, "bad-op")
  | _ => (g, "bad-op")

/-! ### `c16slots`: trace replay of the slot protocol -/

structure SD where
  cfg : SCfg := { numSlots := 0, reserved := 0 }
  st : SSt := { occ := [], limit := 1, ths := [] }

def showEv (t : Nat) (e : Ev) : String := s!"{t} {e.kind} {e.var} {e.order} {e.a} {e.b} {e.ok}"

/-- index `i` of a variable name `occ<i>` -/
def occIndex (v : String) : Option Nat :=
  if v.startsWith "occ" then (v.drop 3).toString.toNat? else none

def driveSlots (d : SD) (ws : List String) : SD × String :=
  match ws with
  | "cfg" :: n :: r :: kinds =>
    match nat? n, nat? r, kinds.mapM nat? with
    | some n, some r, some ks =>
      let cfg : SCfg := { numSlots := n, reserved := r }
      ({ cfg := cfg, st := (slotSys cfg (ks.map (fun k => (k != 0, [])))).init }, "ok")
    | _, _, _ => (d, "bad-op")
  | [t, "res", r] =>
    match nat? t, int? r with
    | some t, some r =>
      match d.st.ths[t]? with
      | some th =>
        let got : Int := match th.slot with | some i => (i : Int) | none => -1
        let pcOk := match th.pc with | .inside _ => true | .idle => true | _ => false
        (d, if got == r && pcOk then "ok" else s!"mismatch model={got}")
      | none => (d, "bad-tid")
    | _, _ => (d, "bad-op")
  | [t, _kind, var, _order, _a, _b, _ok] =>
    match nat? t with
    | some t =>
      match d.st.ths[t]? with
      | some th =>
        -- the start index of a range is the implementation's choice: read it off the observed access
        let pc0 := match th.pc with | .idle => enterStart d.cfg th.worker | pc => pc
        let hint := match pc0, occIndex var with
          | .rangeBegin lo _, some i => i - lo
          | _, _ => 0
        let needsHint := match th.pc with | .idle => true | .rangeBegin _ _ => true | _ => false
        let th1 := if needsHint then { th with hints := [hint] } else th
        let (th', occ', limit', ev) := stepTh d.cfg d.st.occ d.st.limit th1
        let st' : SSt := { occ := occ', limit := limit', ths := d.st.ths.set t th' }
        ({ d with st := st' }, match ev with | some e => showEv t e | none => s!"{t} none")
      | none => (d, "bad-tid")
    | none => (d, "bad-op")
  | ["check"] =>
    let holders := (List.range d.st.ths.length).filterMap (fun t => match d.st.ths[t]? with
      | some th => th.slot.map (fun i => s!"{t}@{i}")
      | none => none)
    (d, s!"inside={d.st.insideCount} occ={showNatsC (d.st.occ.map b2n)} limit={d.st.limit} holders={" ".intercalate holders}")
  | _ => (d, "bad-op")

/-! ### `c16pend`: trace replay of `thread_request_serializer::update` under interleaving -/

structure PD where
  st : PSt := { ser := { softLimit := 0 }, ths := [] }

def drivePend (d : PD) (ws : List String) : PD × String :=
  match ws with
  | "cfg" :: soft :: ds =>
    match int? soft, ds.mapM int? with
    | some soft, some ds => ({ st := (pendSys soft ds).init }, "ok")
    | _, _ => (d, "bad-op")
  | [t, _kind, _var, _order, _a, _b, _ok] =>
    match nat? t with
    | some t =>
      match d.st.ths[t]? with
      | some th =>
        let s' := d.st.step t
        let line := match th.pc with
          | 0 => s!"{t} fadd pending sc {d.st.ser.pending} {s'.ser.pending} 1"
          | 1 => s!"{t} xchg pending sc {d.st.ser.pending} {s'.ser.pending} 1"
          | 2 => s!"{t} store total rlx {TbbVerif.Cint.wrapU 32 s'.ser.totalRequest} {TbbVerif.Cint.wrapU 32 d.st.ser.totalRequest} 1"
          | _ => s!"{t} none"
        ({ st := s' }, line)
      | none => (d, "bad-tid")
    | none => (d, "bad-op")
  | ["check"] =>
    (d, s!"total={d.st.ser.totalRequest} handed={d.st.ser.handed} pending={d.st.ser.pending} done={showBool (d.st.ths.all (·.pc == 3))}")
  | _ => (d, "bad-op")

end C16Drv

/-! ### `c16mand`: trace replay of `advertise_new_work` / `out_of_work` (every access to the two flag words) -/

namespace MandDrv
open TbbVerif.C16.Mand

structure MD where
  cfg : MCfg := { numSlots := 0, reserved := 0, maxWorkers := 0 }
  st : MSt := { sh := { arena := { id := 0, maxNumWorkers := 0 } }, ths := [] }

def flagVal : Flag → Nat
  | .unset => 0
  | .set => 1
  | .busy t => 2 + t

def varName (m : Bool) : String := if m then "mand" else "pool"

def setTh (d : MD) (t : Nat) (th : MTh) : MD := { d with st := { d.st with ths := d.st.ths.set t th } }

/-- the steps that touch no named variable: the pool predicate (oracle), the two critical sections of adjust_demand -/
def isSilent : Pc → Bool
  | .clrPred false => true
  | .reqSer => true
  | .reqMkt => true
  | _ => false

/-- run thread `t`'s silent steps; `poolPredWanted`: what the pool predicate must evaluate to (read off the next CAS) -/
def runSilent (d : MD) (t : Nat) (poolPredWanted : Bool) : Nat → MD
  | 0 => d
  | fuel + 1 =>
    match d.st.ths[t]? with
    | some th =>
      if isSilent th.pc then
        let th1 := if th.pc == .clrPred false then
            (if Generated.C16.oowPoolPred true == poolPredWanted then { th with hasTasks := true } else { th with hasTasks := false })
          else th
        let d1 := setTh d t th1
        runSilent { d1 with st := d1.st.step d1.cfg t } t poolPredWanted fuel
      else d
    | none => d

/-- a pending `popFifo` whose pop did not empty its lane never shows on the population word: it is a no-op -/
def flushPop (d : MD) (t : Nat) : MD :=
  match d.st.ths[t]? with
  | some th =>
    if th.pc == .idle then
      match th.prog with
      | .popFifo _ :: rest => setTh d t { th with prog := rest }
      | _ => d
    else d
  | none => d

/-- the access thread `t` performs next, in the canonical form of the harness -/
def expected (d : MD) (t : Nat) : String :=
  match d.st.ths[t]? with
  | none => "bad-tid"
  | some th0 =>
    let th := if th0.pc == .idle then beginAct d.cfg th0 else th0
    let sh := d.st.sh
    match th.pc with
    | .idle => s!"{t} none"
    | .push => if th.adv then s!"{t} or fifo" else s!"{t} and fifo {if th.enq then 0 else 1}"
    | .tasLoad m => s!"{t} load {varName m} {flagVal (sh.flag m)}"
    | .tasCasU m => if sh.flag m = .unset then s!"{t} cas {varName m} 0 1 1" else s!"{t} cas {varName m} 0 {flagVal (sh.flag m)} 0"
    | .tasCasB m seen =>
      if sh.flag m = seen then s!"{t} cas {varName m} {flagVal seen} 1 1" else s!"{t} cas {varName m} {flagVal seen} {flagVal (sh.flag m)} 0"
    | .clrLoad m => s!"{t} load {varName m} {flagVal (sh.flag m)}"
    | .clrCas m => if sh.flag m = .set then s!"{t} cas {varName m} 1 {2 + t} 1" else s!"{t} cas {varName m} 1 {flagVal (sh.flag m)} 0"
    | .clrPred true => s!"{t} load fifo {if sh.hasEnq then 1 else 0}"
    | .clrPred false => s!"{t} silent"
    | .clrFin m p =>
      if sh.flag m = .busy t then s!"{t} cas {varName m} {2 + t} {if p then 0 else 1} 1"
      else s!"{t} cas {varName m} {2 + t} {flagVal (sh.flag m)} 0"
    | .reqSer => s!"{t} silent"
    | .reqMkt => s!"{t} silent"
    | .testLoad => s!"{t} load mand {flagVal sh.mand}"

def showState (d : MD) : String :=
  let sh := d.st.sh
  let fb (f : Flag) : Nat := if f = .unset then 0 else 1
  s!"mand={fb sh.mand} pool={fb sh.pool} hasEnq={if sh.hasEnq then 1 else 0} mandReq={sh.arena.mandReq} totalReq={sh.arena.totalReq} " ++
  s!"minW={sh.arena.minW} maxW={sh.arena.maxW} marketMand={sh.marketMand} proxyMand={sh.proxyMand} idle={showBool (d.st.ths.all (·.pc == .idle))}"

def addAct (d : MD) (t : Nat) (a : Act) : MD :=
  match d.st.ths[t]? with
  | some th => setTh d t { th with prog := th.prog ++ [a] }
  | none => d

def drive (d : MD) (ws : List String) : MD × String :=
  match ws with
  | ["cfg", ns, rs, mw, nt] =>
    match nat? ns, nat? rs, nat? mw, nat? nt with
    | some ns, some rs, some mw, some nt =>
      let cfg : MCfg := { numSlots := ns, reserved := rs, maxWorkers := mw }
      ({ cfg := cfg, st := (mandSys cfg (List.replicate nt [])).init }, "ok")
    | _, _, _, _ => (d, "bad-op")
  | [t, "act", code] =>
    match nat? t, nat? code with
    | some t, some code =>
      let d1 := flushPop (runSilent d t false 8) t
      match (match code with | 1 => some Act.enqueue | 2 => some Act.spawn | 3 => some (Act.oow false) | 4 => some (Act.popFifo false) | _ => none) with
      | some a =>
        match d1.st.ths[t]? with
        | some th => if th.pc == .idle && th.prog.isEmpty then (addAct d1 t a, s!"{t} act {code}") else (d1, s!"{t} busy")
        | none => (d, "bad-tid")
      | none => (d, "bad-op")
    | _, _ => (d, "bad-op")
  | ["tail", pops, ht] =>
    -- the sequential tail of the harness: `pops` tasks are popped (the last one empties the stream), then out_of_work() with has_tasks() = ht
    match nat? pops, nat? ht, d.st.ths[0]? with
    | some pops, some ht, some _ =>
      let d0 := (List.range d.st.ths.length).foldl (fun acc t => flushPop (runSilent acc t false 8) t) d
      let acts := (List.range pops).map (fun i => Act.popFifo (i + 1 == pops)) ++ [Act.oow (ht != 0)]
      let d1 := acts.foldl (fun acc a => addAct acc 0 a) d0
      let d2 := (List.range 40).foldl (fun acc _ => { acc with st := acc.st.step acc.cfg 0 }) d1
      (d2, showState d2)
    | _, _, _ => (d, "bad-op")
  | t :: kind :: var :: rest =>
    match nat? t with
    | some t =>
      -- oracle of the pool predicate: a successful final CAS of try_clear_if writes UNSET (0) iff the predicate was true
      let wanted := match kind, var, rest with
        | "cas", "pool", [_, des, "1"] => des == "0"
        | _, _, _ => false
      let d1 := runSilent d t wanted 8
      -- oracle of popFifo: the population word after the fetch_and
      let d2 := match kind, var, rest, d1.st.ths[t]? with
        | "and", "fifo", [z], some th =>
          (match th.pc, th.prog with
           | .idle, .popFifo _ :: tl => setTh d1 t { th with prog := .popFifo (z == "0") :: tl }
           | _, _ => d1)
        | _, _, _, _ => d1
      let line := expected d2 t
      let d3 := { d2 with st := d2.st.step d2.cfg t }
      (runSilent d3 t false 0, line)
    | none => (d, "bad-op")
  | ["check"] =>
    let d0 := (List.range d.st.ths.length).foldl (fun acc t => flushPop (runSilent acc t false 8) t) d
    (d0, showState d0)
  | _ => (d, "bad-op")

end MandDrv

/-! ### `c16iso`: the puppet protocol of harness/c16/rt.cpp (`rt iso`): one operation per line on a real arena -/

namespace IsoDrv
open TbbVerif.C16.Iso TbbVerif.Generated.C16

structure ID where
  n : Nat := 0
  st : ISt := ISt.init 0

def showEntry : Option Entry → String
  | none => "-"
  | some (.plain x) => s!"t{x.id}"
  | some (.proxy p) => s!"p{p.pid}"

def sortNat (l : List Nat) : List Nat := (l.toArray.qsort (· < ·)).toList

def dump (s : ISt) : String :=
  "pools " ++ " ".intercalate (s.pools.map (fun p => "[" ++ " ".intercalate (p.map showEntry) ++ "]")) ++
  " mail " ++ " ".intercalate (s.mail.map (fun b => "[" ++ " ".intercalate (b.map (fun p => s!"p{p.pid}")) ++ "]")) ++
  " fifo {" ++ " ".intercalate ((sortNat (s.fifo.map (·.id))).map toString) ++ "}" ++
  " crit {" ++ " ".intercalate ((sortNat (s.crit.map (·.id))).map toString) ++ "}" ++
  " idle " ++ " ".intercalate (s.idle.map (fun b => if b then "1" else "0"))

/-- result of a take: did the log grow? -/
def took (s s' : ISt) (t : Nat) : Option String :=
  if s'.log.length > s.log.length then
    match s'.log.getLast?, s'.ths[t]? with
    | some e, some th => some s!"got {e.task.id} ed {th.ed}"
    | _, _ => some "got ?"
  else none

def idxOf (l : List Task) (id : Int) : List Nat :=
  match (List.range l.length).filter (fun k => match l[k]? with | some x => (x.id : Int) == id | none => false) with
  | [] => List.range l.length      -- the implementation found nothing / something else: the model tries every position
  | ks => ks

/-- try the candidates in order until one is taken -/
def tryPop (s : ISt) (t : Nat) (mk : Nat → IOp) : List Nat → ISt × Option String
  | [] => (s, none)
  | k :: ks =>
    let s' := s.step (mk k)
    match took s s' t with
    | some r => (s', some r)
    | none => tryPop s t mk ks

/-- one pass of `receive_or_steal_task` with `critical_allowed = false`, in the coded order -/
def idlePass (s : ISt) (t v : Nat) (fa : Bool) (hint : Int) (i : Nat) : ISt × String :=
  let s0 := s.step (.setIdle t true)
  -- get_inbox_or_critical_task
  let (s1, r1) :=
    if (s0.mail.getD t []).isEmpty then (s0, none)
    else
      let s' := s0.step (.mailbox t)
      match took s0 s' t with
      | some r => (s', some r)
      | none =>
        let iso1 := isoArgMail1 (isoArgIdle i)
        if iso1 != 0 && !(s'.mail.getD t []).isEmpty && s'.idle.getD t false then (s'.step (.setIdle t false), none) else (s', none)
  -- (resume stream: empty in the puppet)  fifo stream, then stealing
  let (s2, r2) := match r1 with
    | some r => (s1, some r)
    | none =>
      if isoFifoOk fa (argFifo i) && !s1.fifo.isEmpty then tryPop s1 t (fun k => .popFifo t fa k) (idxOf s1.fifo hint)
      else (s1, none)
  let (s3, r3) := match r2 with
    | some r => (s2, some r)
    | none =>
      let s' := s2.step (.steal t v)
      (s', took s2 s' t)
  let s4 := if s3.idle.getD t false then s3.step (.setIdle t false) else s3
  (s4, r3.getD "none")

def curLoopOf (s : ISt) (t : Nat) : Option (Nat × Nat) := (s.ths[t]?).bind Th.curLoop

def drive (d : ID) (ws : List String) : ID × String :=
  let s := d.st
  match ws with
  | ["cfg", n] =>
    match nat? n with
    | some n => if d.n == 0 && 2 ≤ n && n ≤ 8 then ({ n := n, st := ISt.init n }, "ok") else (d, "bad-op")
    | none => (d, "bad-op")
  | ["check"] => if d.n == 0 then (d, "bad-op") else (d, dump s)
  | op :: t :: rest =>
    match nat? t with
    | none => (d, "bad-op")
    | some t =>
      if t ≥ d.n then (d, "bad-op") else
      let th := s.ths.getD t {}
      let ok (s' : ISt) : ID × String := ({ d with st := s' }, "ok")
      let spawned (s' : ISt) : ID × String :=
        match s'.spawned.getLast? with
        | some x =>
          let ptag := match (s'.pools.getD t []).getLast? with
            | some (some (.proxy p)) => if p.task.id == x.id then s!" ptag {p.ptag}" else ""
            | _ => ""
          ({ d with st := s' }, s!"task {x.id} tag {x.tag}{ptag}")
        | none => (d, "bad-op")
      match op, rest with
      | "wait", [] => ok (s.step (.wait t))
      | "endwait", [] => (match th.stack with | .loop .. :: _ => ok (s.step (.endWait t)) | _ => (d, "bad-op"))
      | "iso", [f] => (match nat? f with | some f => if f == 0 then (d, "bad-op") else ok (s.step (.isolate t f)) | none => (d, "bad-op"))
      | "endiso", [] => (match th.stack with | .region .. :: _ => ok (s.step (.endIsolate t)) | _ => (d, "bad-op"))
      | "spawn", [] => spawned (s.step (.spawn t))
      | "spawna", [dst] => (match nat? dst with | some dst => spawned (s.step (.spawnAff t dst)) | none => (d, "bad-op"))
      | "enq", [] => spawned (s.step (.enqueue t))
      | "crit", [] => spawned (s.step (.critical t))
      | "setidle", [b] => (match nat? b with | some b => ok (s.step (.setIdle t (b != 0))) | none => (d, "bad-op"))
      | "own", [] =>
        (match curLoopOf s t with
         | some _ => let s' := s.step (.own t); ({ d with st := s' }, (took s s' t).getD "none")
         | none => (d, "bad-op"))
      | "idle", [v, fa, hint] =>
        (match nat? v, nat? fa, int? hint, curLoopOf s t with
         | some v, some fa, some hint, some (i, _) =>
           if v ≥ d.n || v == t then (d, "bad-op") else
           let r := idlePass s t v (fa != 0) hint i
           ({ d with st := r.1 }, r.2)
         | _, _, _, _ => (d, "bad-op"))
      | "critget", [hint] =>
        (match int? hint, curLoopOf s t with
         | some hint, some _ =>
           let r := tryPop s t (fun k => .popCrit t k) (idxOf s.crit hint)
           ({ d with st := r.1 }, r.2.getD "none")
         | _, _ => (d, "bad-op"))
      | _, _ => (d, "bad-op")
  | _ => (d, "bad-op")

end IsoDrv


/-! ### `c16nest`: the puppet protocol of harness/c16/rt.cpp (`rt nest`): nested real `isolate_within_arena` calls, `nested_arena_context`,
resume stream, critical displacement, bypass, extra dispatchers -/

namespace NestDrv
open TbbVerif.C16.Nest TbbVerif.Generated.C16
open TbbVerif.C16.Iso (Task PEntry Entry argFifo)

structure ND where
  n : Nat := 0
  st : NSt := NSt.init 0
  realStack : List Nat := []       -- dispatchers of the open REAL isolate_within_arena calls, innermost first (one OS stack)

def showEntry : Option Entry → String
  | none => "-"
  | some (.plain x) => s!"t{x.id}"
  | some (.proxy p) => s!"p{p.pid}"

def sortNat (l : List Nat) : List Nat := (l.toArray.qsort (· < ·)).toList

def dump (s : NSt) : String :=
  "pools " ++ " ".intercalate (s.pools.map (fun p => "[" ++ " ".intercalate (p.map showEntry) ++ "]")) ++
  " mail " ++ " ".intercalate (s.mail.map (fun b => "[" ++ " ".intercalate (b.map (fun p => s!"p{p.pid}")) ++ "]")) ++
  " fifo {" ++ " ".intercalate ((sortNat (s.fifo.map (·.id))).map toString) ++ "}" ++
  " crit {" ++ " ".intercalate ((sortNat (s.crit.map (·.id))).map toString) ++ "}" ++
  " resume {" ++ " ".intercalate ((sortNat s.resume).map toString) ++ "}" ++
  " idle " ++ " ".intercalate (s.idle.map (fun b => if b then "1" else "0")) ++
  " ed " ++ " ".intercalate (s.disps.map (fun d => toString d.ed)) ++
  " cur " ++ " ".intercalate (s.cur.map toString)

def edOf (s : NSt) (t : Nat) : Nat := match s.dispOf t with | some (_, dp) => dp.ed | none => 0

def took (s s' : NSt) (t : Nat) : Option String :=
  if s'.log.length > s.log.length then
    match s'.log.getLast? with
    | some e => some s!"got {e.task.id} ed {edOf s' t}"
    | none => some "got ?"
  else none

def idxOfId (l : List Nat) (id : Int) : List Nat :=
  match (List.range l.length).filter (fun k => match l[k]? with | some x => Int.ofNat x == id | none => false) with
  | [] => List.range l.length
  | ks => ks

def tryPop (s : NSt) (t : Nat) (mk : Nat → NOp) : List Nat → NSt × Option String
  | [] => (s, none)
  | k :: ks =>
    let s' := s.step (mk k)
    match took s s' t with
    | some r => (s', some r)
    | none => tryPop s t mk ks

def curLoopOf (s : NSt) (t : Nat) : Option (Nat × Nat × List Fr) := (s.dispOf t).bind (fun p => p.2.curLoop)

/-- one pass of `receive_or_steal_task` with `critical_allowed = false`, in the coded order: mailbox, resume stream, fifo stream, steal -/
def idlePass (s : NSt) (t v : Nat) (fa : Bool) (hint : Int) (i : Nat) : NSt × String :=
  let s0 := s.step (.setIdle t true)
  let (s1, r1) :=
    if (s0.mail.getD t []).isEmpty then (s0, none)
    else
      let s' := s0.step (.mailbox t)
      match took s0 s' t with
      | some r => (s', some r)
      | none =>
        let iso1 := isoArgMail1 (isoArgIdle i)
        if iso1 != 0 && !(s'.mail.getD t []).isEmpty && s'.idle.getD t false then (s'.step (.setIdle t false), none) else (s', none)
  let (s2, r2) := match r1 with
    | some r => (s1, some r)
    | none => if s1.resume.isEmpty then (s1, none) else tryPop s1 t (fun k => .popResume t k) (idxOfId s1.resume hint)
  let (s3, r3) := match r2 with
    | some r => (s2, some r)
    | none =>
      if isoFifoOk fa (argFifo i) && !s2.fifo.isEmpty then tryPop s2 t (fun k => .popFifo t fa k) (idxOfId (s2.fifo.map (fun (x : Task) => x.id)) hint)
      else (s2, none)
  let (s4, r4) := match r3 with
    | some r => (s3, some r)
    | none =>
      let s' := s3.step (.steal t v)
      (s', took s3 s' t)
  let s5 := if s4.idle.getD t false then s4.step (.setIdle t false) else s4
  (s5, r4.getD "none")

/-- candidates for the critical task that displaces a held task: the hinted one first, then every one the loop may take -/
def critCands (s : NSt) (i : Nat) (hint : Int) : List Nat :=
  let all := (List.range s.crit.length).filter (fun k => critTakes s i k)
  let hinted := all.filter (fun k => match s.crit[k]? with | some x => (x.id : Int) == hint | none => false)
  hinted ++ all.filter (fun k => !hinted.contains k)

def topIsRegion (s : NSt) (t : Nat) : Bool :=
  match s.dispOf t with
  | some (_, dp) => (match dp.stack with | .region .. :: _ => true | _ => false)
  | none => false

def drive (d : ND) (ws : List String) : ND × String :=
  let s := d.st
  match ws with
  | ["cfg", n] =>
    match nat? n with
    | some n => if d.n == 0 && 2 ≤ n && n ≤ 8 then ({ n := n, st := NSt.init n }, "ok") else (d, "bad-op")
    | none => (d, "bad-op")
  | ["check"] => if d.n == 0 then (d, "bad-op") else (d, dump s)
  | ["newdisp"] => if d.n == 0 then (d, "bad-op") else ({ d with st := s.step .newDisp }, s!"ok disp {s.disps.length}")
  | op :: t :: rest =>
    match nat? t with
    | none => (d, "bad-op")
    | some t =>
      if t ≥ d.n then (d, "bad-op") else
      match s.dispOf t with
      | none => (d, "bad-op")
      | some (dd, dp) =>
      let ok (s' : NSt) : ND × String := ({ d with st := s' }, "ok")
      let okEd (d' : ND) : ND × String := (d', s!"ok ed {edOf d'.st t}")
      let spawned (s' : NSt) : ND × String :=
        match s'.spawned.getLast? with
        | some x =>
          let ptag := match (s'.pools.getD t []).getLast? with
            | some (some (.proxy p)) => if p.task.id == x.id then s!" ptag {p.ptag}" else ""
            | _ => ""
          ({ d with st := s' }, s!"task {x.id} tag {x.tag}{ptag}")
        | none => (d, "bad-op")
      match op, rest with
      | "wait", [] => ok (s.step (.wait t))
      | "endwait", [] => (match dp.stack with | .loop .. :: _ => ok (s.step (.endWait t)) | _ => (d, "bad-op"))
      | "iso", [x, f] =>
        (match nat? x, nat? f with
         | some x, some f =>
           -- the implementation reports the tag it installed; the model must accept it (environment assumption `tagFree`)
           let s' := s.step (.isolate t x f)
           if topIsRegion s' t && s'.tagOf.length > s.tagOf.length then ({ d with st := s', realStack := dd :: d.realStack }, s!"ok tag {edOf s' t}")
           else (d, s!"rejected: tag {if x != 0 then x else f} is live or zero")
         | _, _ => (d, "bad-op"))
      | "endiso", [] | "throwiso", [] =>
        (match d.realStack, dp.stack with
         | top :: restStack, .region .. :: _ =>
           if top == dd then okEd { d with st := s.step (.endIsolate t (op == "throwiso")), realStack := restStack } else (d, "bad-op")
         | _, _ => (d, "bad-op"))
      | "exec", [] => okEd { d with st := s.step (.execBegin t), realStack := dd :: d.realStack }
      | "endexec", [] =>
        (match d.realStack, dp.stack with
         | top :: restStack, .exec .. :: _ =>
           if top == dd then okEd { d with st := s.step (.execEnd t), realStack := restStack } else (d, "bad-op")
         | _, _ => (d, "bad-op"))
      | "attach", [d2] =>
        (match nat? d2 with
         | some d2 => if d2 < s.disps.length then okEd { d with st := s.step (.attach t d2) } else (d, "bad-op")
         | none => (d, "bad-op"))
      | "spawn", [] => spawned (s.step (.spawn t))
      | "spawna", [dst] => (match nat? dst with | some dst => spawned (s.step (.spawnAff t dst)) | none => (d, "bad-op"))
      | "enq", [] => spawned (s.step (.enqueue t))
      | "crit", [] => spawned (s.step (.critical t))
      | "resreq", [id] => (match nat? id with | some id => ({ d with st := s.step (.resumeReq id) }, s!"task {id}") | none => (d, "bad-op"))
      | "setidle", [b] => (match nat? b with | some b => ok (s.step (.setIdle t (b != 0))) | none => (d, "bad-op"))
      | "own", [] =>
        (match curLoopOf s t with
         | some _ => let s' := s.step (.own t); ({ d with st := s' }, (took s s' t).getD "none")
         | none => (d, "bad-op"))
      | "idle", [v, fa, hint] =>
        (match nat? v, nat? fa, int? hint, curLoopOf s t with
         | some v, some fa, some hint, some (i, _) =>
           if v ≥ d.n || v == t then (d, "bad-op") else
           let r := idlePass s t v (fa != 0) hint i
           ({ d with st := r.1 }, r.2)
         | _, _, _, _ => (d, "bad-op"))
      | "critget", [hint] =>
        (match int? hint, curLoopOf s t with
         | some hint, some _ =>
           let r := tryPop s t (fun k => .popCrit t k) (idxOfId (s.crit.map (fun (x : Task) => x.id)) hint)
           ({ d with st := r.1 }, r.2.getD "none")
         | _, _ => (d, "bad-op"))
      | "stealc", [v, hint] =>
        -- steal_or_get_critical with critical_allowed = true
        (match nat? v, int? hint, curLoopOf s t with
         | some v, some hint, some (i, _) =>
           if v ≥ d.n || v == t then (d, "bad-op") else
           let r := tryPop s t (fun k => .stealCrit t v k) (critCands s i hint)
           match r.2 with
           | some x => ({ d with st := r.1 }, x)
           | none => let s' := s.step (.steal t v); ({ d with st := s' }, (took s s' t).getD "none")
         | _, _, _ => (d, "bad-op"))
      | "bypass", [hint] =>
        -- get_critical_task(t = a fresh task, ..) with critical_allowed = true
        (match int? hint, curLoopOf s t with
         | some hint, some (i, _) =>
           if dp.runsResume then (d, "bad-op") else
           let r := tryPop s t (fun k => .bypass t (some k)) (critCands s i hint)
           match r.2 with
           | some x => ({ d with st := r.1 }, x)
           | none => let s' := s.step (.bypass t none); ({ d with st := s' }, (took s s' t).getD "none")
         | _, _ => (d, "bad-op"))
      | _, _ => (d, "bad-op")
  | _ => (d, "bad-op")

end NestDrv


/-! ### `c16life`: validation of the life-cycle accesses logged by whole-runtime runs (harness/c16/rt.cpp, RT_LIFE=1) against `Model/C16Life.lean`
lines:  threads T | new k ns rs refs allot limit | ev k tid kind var order a b ok        answers: ok … | skip | reject … -/

namespace LifeDrv
open TbbVerif.C16.Life

structure AR where
  cfg : SCfg
  st : LSt
  live : Bool := true

structure LD where
  nScript : Nat := 1
  arenas : List (Nat × AR) := []

def maxThreads : Nat := 64

def orderRank (o : String) : Nat :=
  if o == "rlx" then 0 else if o == "cns" || o == "acq" || o == "rel" then 1 else if o == "acqrel" then 2 else 3

/-- the model's access equals the observed one (the implementation's memory order may be stronger) -/
def evMatch (m : Ev) (kind var order : String) (a b ok : Nat) : Bool :=
  m.kind == kind && m.var == var && m.a == a && m.b == b && m.ok == ok && (m.order == order || orderRank order > orderRank m.order)

def setHint (s : LSt) (cfg : SCfg) (t : Nat) (var : String) : LSt :=
  match s.ths[t]? with
  | some th =>
    let pc0 := match th.sth.pc with | .idle => enterStart cfg th.sth.worker | pc => pc
    let hint := match pc0, C16Drv.occIndex var with
      | .rangeBegin lo _, some i => i - lo
      | _, _ => 0
    let needs := match th.sth.pc with | .idle => true | .rangeBegin _ _ => true | _ => false
    if needs then setTh s t { th with sth := { th.sth with hints := [hint] } } else s
  | none => s

/-- apply `ops` in order; the LAST one must produce the observed access -/
def tryOps (cfg : SCfg) (s : LSt) (ops : List LOp) (kind var order : String) (a b ok : Nat) : Option LSt :=
  match ops with
  | [] => none
  | [o] =>
    let r := s.step cfg o
    match r.2 with
    | some e => if evMatch e kind var order a b ok then some r.1 else none
    | none => none
  | o :: rest => tryOps cfg (s.step cfg o).1 rest kind var order a b ok

def firstSome (cfg : SCfg) (s : LSt) (cands : List (List LOp)) (kind var order : String) (a b ok : Nat) : Option LSt :=
  match cands with
  | [] => none
  | c :: cs => match tryOps cfg s c kind var order a b ok with
    | some s' => some s'
    | none => firstSome cfg s cs kind var order a b ok

def mirror (s : LSt) (var : String) : Option Nat :=
  if var == "refs" then some s.refs
  else if var == "allot" then some s.allot
  else if var == "limit" then some s.limit
  else match C16Drv.occIndex var with
    | some i => some (b2n (s.occ.getD i false))
    | none => none

def showPc (th : LTh) : String := reprStr th.pc

def validate (ar : AR) (t : Nat) (kind var order : String) (a b ok : Nat) : AR × String :=
  let cfg := ar.cfg
  let s0 := ar.st
  match s0.ths[t]? with
  | none => (ar, s!"reject thread id {t} out of range")
  | some th =>
    let s := setHint s0 cfg t var
    -- candidate operation sequences of thread t / of the environment that could produce this access
    let own : List (List LOp) := [[.th t], [.begin_ t], [.poll t], [.exit_ t, .th t], [.abandon t, .begin_ t]]
    let env : List (List LOp) :=
      if var == "allot" && kind == "store" then [[.setAllot a]]
      else if var == "refs" && kind == "fadd" && b == a + 1 then [[.extRef true]]
      else if var == "refs" && kind == "fsub" && b + 1 == a then [[.extRef false]]
      else if var == "refs" && kind == "fadd" && b == a + refWorker && !th.sth.worker then [[.resumeRef true]]
      else if var == "refs" && kind == "fsub" && b + refWorker == a && !th.sth.worker then [[.resumeRef false]]
      else []
    match firstSome cfg s (own ++ env) kind var order a b ok with
    | some s' => ({ ar with st := s' }, "ok")
    | none =>
      if kind == "load" then
        -- a read outside the protocol (thieves read my_limit, destruction reads my_references, …): it must see the model's value
        match mirror s0 var with
        | some v =>
          if v == a then
            -- a probe that was interrupted: the thread starts over
            let s1 := match th.pc with | .joinAllot _ => setTh s0 t { th with pc := .out } | _ => s0
            ({ ar with st := s1 }, "ok env-load")
          else (ar, s!"reject thread {t} ({showPc th}) read {var} = {a}, the model has {v}")
        | none => (ar, "reject unknown variable")
      else
        (ar, s!"reject thread {t} (worker={th.sth.worker}, pc {showPc th}, recalled={th.recalled}, holdsRef={th.holdsRef}) performs `{kind} {var} {order} {a} {b} {ok}`: " ++
             s!"no enabled step of the life-cycle model produces it (model: refs={s0.refs} allot={s0.allot} limit={s0.limit} occ={C16Drv.showNatsC (s0.occ.map b2n)})")

def drive (d : LD) (ws : List String) : LD × String :=
  match ws with
  | ["threads", n] => (match nat? n with | some n => ({ d with nScript := n }, "ok") | none => (d, "bad-op"))
  | ["new", k, ns, rs, refs, allot, limit] =>
    match nat? k, nat? ns, nat? rs, nat? refs, nat? allot, nat? limit with
    | some k, some ns, some rs, some refs, some allot, some limit =>
      let cfg : SCfg := { numSlots := ns, reserved := rs }
      let threads := (List.range maxThreads).map (fun t => (decide (t ≥ d.nScript), [0]))
      let st0 := LSt.init cfg threads (refs % refWorker)
      let st : LSt := { st0 with refsW := refs / refWorker, transient := refs / refWorker, allot := allot, limit := limit }
      ({ d with arenas := (k, { cfg := cfg, st := st }) :: d.arenas.filter (fun p => p.1 != k) }, "ok")
    | _, _, _, _, _, _ => (d, "bad-op")
  | ["ev", k, t, kind, var, order, a, b, ok] =>
    match nat? k, nat? t, nat? a, nat? b, nat? ok with
    | some k, some t, some a, some b, some ok =>
      match d.arenas.lookup k with
      | none => (d, "skip")
      | some ar =>
        if !ar.live then (d, "skip")
        else if var == "refs" && kind == "store" then
          -- the constructor of another arena object in this memory: the registered arena is gone
          ({ d with arenas := (k, { ar with live := false }) :: d.arenas.filter (fun p => p.1 != k) }, "skip")
        else
          let r := validate ar t kind var order a b ok
          ({ d with arenas := (k, r.1) :: d.arenas.filter (fun p => p.1 != k) }, r.2)
    | _, _, _, _, _ => (d, "bad-op")
  | ["state", k] =>
    match nat? k with
    | some k => (match d.arenas.lookup k with
      | some ar => (d, s!"refsE={ar.st.refsE} refsW={ar.st.refsW} holders={ar.st.holders} transient={ar.st.transient} inside={ar.st.inside} workersInside={ar.st.workersInside} allot={ar.st.allot}")
      | none => (d, "none"))
    | none => (d, "bad-op")
  | _ => (d, "bad-op")

end LifeDrv

def drivers : List (String × Proto.Driver) := [
  ("c16", Proto.pureDriver C16Drv.drive),
  ("c16m", { σ := World, init := World.init 0, step := C16Drv.driveWorld }),
  ("c16gc", { σ := GC, init := { preferMin := true, dflt := 1 }, step := C16Drv.driveGC }),
  ("c16slots", { σ := C16Drv.SD, init := {}, step := C16Drv.driveSlots }),
  ("c16pend", { σ := C16Drv.PD, init := {}, step := C16Drv.drivePend }),
  ("c16mand", { σ := MandDrv.MD, init := {}, step := MandDrv.drive }),
  ("c16iso", { σ := IsoDrv.ID, init := {}, step := IsoDrv.drive }),
  ("c16nest", { σ := NestDrv.ND, init := {}, step := NestDrv.drive }),
  ("c16life", { σ := LifeDrv.LD, init := {}, step := LifeDrv.drive })
]

def main (args : List String) : IO UInt32 := Proto.mainOf drivers args
