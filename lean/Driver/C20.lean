import TbbVerif.Core.Proto
import TbbVerif.Model.C20
import TbbVerif.Model.C20Gen
import TbbVerif.Model.C20SleepV
import TbbVerif.Model.C20PoolV

open TbbVerif

def drivers : List (String × Proto.Driver) := [
  ("c20", C20.driver),
  ("c20sl", C20.Sleep.driver C20.genSleepCfg),
  ("c20slv", C20.Sleep.vdriver C20.genSleepCfg),
  ("c20pool", C20.Pool.vdriver C20.genPoolSkel),
  ("c20ring", C20.Ring.driver C20.genPoolSkel.popClears)
]

def main (args : List String) : IO UInt32 := Proto.mainOf drivers args
