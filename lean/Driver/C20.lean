import TbbVerif.Core.Proto
import TbbVerif.Model.C20
import TbbVerif.Model.C20Gen
import TbbVerif.Model.C20SleepV

open TbbVerif

def drivers : List (String × Proto.Driver) := [
  ("c20", C20.driver),
  ("c20sl", C20.Sleep.driver C20.genSleepCfg),
  ("c20slv", C20.Sleep.vdriver C20.genSleepCfg)
]

def main (args : List String) : IO UInt32 := Proto.mainOf drivers args
