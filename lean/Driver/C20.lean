import TbbVerif.Core.Proto
import TbbVerif.Model.C20

open TbbVerif

def drivers : List (String × Proto.Driver) := [
  ("c20", C20.driver)
]

def main (args : List String) : IO UInt32 := Proto.mainOf drivers args
