import TbbVerif.Core.Proto
import TbbVerif.Model.C05Each

/-!
Trace validation for parallel_for_each / parallel_invoke (E-MOCK, harness/c05/each.cpp).

The harness prints what the real header code did on the scripted runtime: task starts, spawns, body calls, iterator
operations, item copies / destructions, waits that passed — each with the values of the reference counters at that
moment.  This driver replays the trace on the model `TbbVerif.C05.Each`: every event of a frame must be the next
observable action of the model activation bound to that frame (reference-count updates are not observable: the model
performs them lazily, just before the next observable action of the same activation, which is exactly when the
sequential mock has performed them), the task a frame starts must be in the model's pool, and the counters must agree
after every event.  One output line per input line: `ok`, or `MISMATCH …` (afterwards `skip`).
-/

open TbbVerif TbbVerif.C05.Each

namespace C05EachDrv

structure DSt where
  active : Bool := false
  failed : Bool := false
  cfg : Cfg := {}
  st : St := {}
  /-- frame id ↦ model activations bound to it, most recent first -/
  frames : List (Nat × List Nat) := []
  /-- activation ↦ observable actions the model has performed and the trace has not shown yet, oldest first -/
  queue : List (Nat × List Act) := []

def lookupD {α : Type} (l : List (Nat × α)) (k : Nat) (d : α) : α :=
  match l.find? (fun p => p.1 == k) with
  | some p => p.2
  | none => d

def setKey {α : Type} (l : List (Nat × α)) (k : Nat) (v : α) : List (Nat × α) :=
  (k, v) :: l.filter (fun p => p.1 != k)

open Proto in
def src? (w : String) : Option Src :=
  match w.splitOn ":" with
  | ["fed"] => some .fed
  | ["pos", k] => (nat? k).map Src.pos
  | ["slot", b, s] => match nat? b, nat? s with | some b, some s => some (.slot b s) | _, _ => none
  | _ => none

open Proto in
def ctr? (w : String) : Option Ctr :=
  match w.splitOn ":" with
  | ["root"] => some .root
  | ["pf"] => some (.blk 0)
  | ["blk", b] => (nat? b).map Ctr.blk
  | ["kid", k] => (nat? k).map Ctr.kid
  | _ => none

open Proto in
def task? (ws : List String) : Option Task :=
  match ws with
  | ["root"] => some .root
  | ["iter", b, x, s] => match nat? b, nat? x, src? s with | some b, some x, some s => some (.iter b x s) | _, _, _ => none
  | ["feed", x, v] => match nat? x, nat? v with | some x, some v => some (.feed x v) | _, _ => none
  | ["subroot", a, b, c] => match nat? a, nat? b, nat? c with | some a, some b, some c => some (.subroot a b c) | _, _, _ => none
  | ["inv", f, c] => match nat? f, ctr? c with | some f, some c => some (.inv f c) | _, _ => none
  | _ => none

open Proto in
def act? (ws : List String) : Option Act :=
  match ws with
  | ["bs", x, s] => match nat? x, src? s with | some x, some s => some (.bodyS x s) | _, _ => none
  | ["be", x, s] => match nat? x, src? s with | some x, some s => some (.bodyE x s) | _, _ => none
  | ["deref", k] => (nat? k).map Act.deref
  | ["inc", k] => (nat? k).map Act.inc
  | ["copy", b, s, x] => match nat? b, nat? s, nat? x with | some b, some s, some x => some (.copy b s x) | _, _, _ => none
  | ["destroy", b, s, x] => match nat? b, nat? s, nat? x with | some b, some s, some x => some (.destroy b s x) | _, _, _ => none
  | ["cs", f] => (nat? f).map Act.callS
  | ["ce", f] => (nat? f).map Act.callE
  | ["pass", c] => (ctr? c).map Act.pass
  | ["done"] => some .done
  | _ => none

/-- actions of the model that the runtime interface does not show -/
def modelOnly (a : Act) : Bool :=
  match a with
  | .cmp _ => true
  | .block _ _ _ => true
  | .pfor _ => true
  | .arm _ => true
  | .spawn (.chunk _ _ _) => true
  | _ => false

def showAct (a : Act) : String := reprStr a

def opsLen (s : St) (i : Nat) : Nat := match s.acts[i]? with | some a => a.ops.length | none => 0

/-- one step of activation `i`; `none` if it has nothing enabled -/
def stepAct (d : DSt) (i : Nat) : Option DSt :=
  let s' := exec d.cfg d.st (.step i)
  let progressed := match d.st.acts[i]?, s'.acts[i]? with
    | some a, some a' => a.ops.length != a'.ops.length || s'.log.length != d.st.log.length || s'.root != d.st.root || s'.blk != d.st.blk || s'.kid != d.st.kid
    | _, _ => false
  if progressed then
    let newActs := (s'.log.take (s'.log.length - d.st.log.length)).reverse
    some { d with st := s', queue := setKey d.queue i (lookupD d.queue i [] ++ newActs) }
  else none

/-- random-access path: the body wrapper starts on a new chunk in frame `f` — bind the pending chunk task that starts at `k` -/
def bindChunk (d : DSt) (f k : Nat) (older : List Nat) : Option DSt :=
  match d.st.pool.findIdx? (fun t => match t with | .chunk _ lo _ => lo == k | _ => false) with
  | some j =>
    let tid := (lookupD d.frames (1000000 + f) [0]).headD 0
    let idx := d.st.acts.length
    some { d with st := exec d.cfg d.st (.start j tid), frames := setKey d.frames f (idx :: older) }
  | none => none

/-- make activation(s) of frame `f` produce the observable action `want` -/
def matchEvent : Nat → DSt → Nat → Act → Except String DSt
  | 0, _, _, want => .error s!"no progress while looking for {showAct want}"
  | fuel + 1, d, f, want =>
    match lookupD d.frames f [] with
    | [] =>
      match want, d.cfg.cat with
      | .bodyS _ (.pos k), .random =>
        match bindChunk d f k [] with
        | some d' => matchEvent fuel d' f want
        | none => .error s!"the implementation did {showAct want}: the model has no pending chunk that starts there"
      | _, _ => .error s!"the implementation did {showAct want} in a frame that has no model activation"
    | i :: more =>
      match lookupD d.queue i [] with
      | q :: qs =>
        if modelOnly q then matchEvent fuel { d with queue := setKey d.queue i qs } f want
        else if q == want then .ok { d with queue := setKey d.queue i qs }
        else .error s!"implementation: {showAct want}; model's next observable action of this activation: {showAct q}"
      | [] =>
        match stepAct d i with
        | some d' => matchEvent fuel d' f want
        | none =>
          if opsLen d.st i == 0 then
            -- this activation is finished: the frame continues with an older one, or (random access) with a new chunk
            matchEvent fuel { d with frames := setKey d.frames f more } f want
          else
            match want, d.cfg.cat with
            | .bodyS _ (.pos k), .random =>
              match bindChunk d f k (i :: more) with
              | some d' => matchEvent fuel d' f want
              | none => .error s!"the implementation did {showAct want}: the model has no pending chunk that starts there"
            | _, _ => .error s!"implementation: {showAct want}; the model activation is blocked in a wait"

/-- the frame enters a wait: perform the reference-count updates that precede it; the next operation must be that wait -/
def flushToWait : Nat → DSt → Nat → Ctr → Except String DSt
  | 0, _, _, _ => .error "no progress while entering a wait"
  | fuel + 1, d, f, c =>
    match lookupD d.frames f [] with
    | [] => if d.cfg.cat == .random then .ok d else .error "a frame without a model activation enters a wait"
    | i :: more =>
      match (lookupD d.queue i []).filter (fun a => !modelOnly a) with
      | q :: _ => .error s!"the implementation enters a wait; the model activation first has to do {showAct q}"
      | [] =>
        match d.st.acts[i]? with
        | some a =>
          match a.ops with
          | .reserve _ _ :: _ | .release _ :: _ | .rootExec :: _ | .rootLoop _ _ _ :: _ =>
            match stepAct d i with
            | some d' => flushToWait fuel d' f c
            | none => .error "blocked"
          | .spawn (.chunk _ _ _) :: _ =>
            match stepAct d i with
            | some d' => flushToWait fuel d' f c
            | none => .error "blocked"
          | .await c' :: _ => if c' == c then .ok d else .error s!"the implementation waits on {reprStr c}, the model on {reprStr c'}"
          | [] => flushToWait fuel { d with frames := setKey d.frames f more } f c
          | o :: _ =>
            if d.cfg.cat == .random then .ok d
            else .error s!"the implementation enters a wait; the model's next operation is {reprStr o}"
        | none => .error "no such activation"

/-- perform the operations of frame `f` that the runtime interface does not show (random-access path, before a start_for spawn) -/
def flushSilent : Nat → DSt → Nat → DSt
  | 0, d, _ => d
  | fuel + 1, d, f =>
    match lookupD d.frames f [] with
    | [] => d
    | i :: _ =>
      match d.st.acts[i]? with
      | some a =>
        match a.ops with
        | .reserve _ _ :: _ | .release _ :: _ | .rootExec :: _ | .spawn (.chunk _ _ _) :: _ =>
          match stepAct d i with
          | some d' => flushSilent fuel d' f
          | none => d
        | _ => d
      | none => d

/-- a task ends: its activations must have nothing observable left -/
def finishActs : Nat → DSt → List Nat → Except String DSt
  | 0, _, _ => .error "no progress while finishing a task"
  | _, d, [] => .ok d
  | fuel + 1, d, i :: more =>
    match (lookupD d.queue i []).filter (fun a => !modelOnly a) with
    | q :: _ => .error s!"the task ended but the model activation still has to do {showAct q}"
    | [] =>
      let d := { d with queue := setKey d.queue i [] }
      if opsLen d.st i == 0 then finishActs fuel d more
      else match stepAct d i with
        | some d' => finishActs fuel d' (i :: more)
        | none => .error "the task ended but the model activation is blocked in a wait"

open Proto in
def pairs? (w : String) : Option (List (Nat × Nat)) :=
  if w == "-" then some [] else
    (w.splitOn ",").mapM (fun p => match p.splitOn ":" with
      | [a, b] => match nat? a, nat? b with | some a, some b => some (a, b) | _, _ => none
      | _ => none)

open Proto in
def checkSnap (d : DSt) (ws : List String) : Except String Unit :=
  match ws with
  | [r, b, v] =>
    match (r.dropPrefix? "r=").map (·.toString), (b.dropPrefix? "b=").map (·.toString), (v.dropPrefix? "v=").map (·.toString) with
    | some r, some b, some v =>
      match nat? r, pairs? b, pairs? v with
      | some r, some bs, some vs =>
        if d.st.root != r then .error s!"root wait context: implementation {r}, model {d.st.root}"
        else
          let bb := if d.cfg.cat == .random then [] else bs.filter (fun p => d.st.blk.getD p.1 0 != p.2)
          let vb := vs.filter (fun p => d.st.kid.getD p.1 0 != p.2)
          match bb, vb with
          | p :: _, _ => .error s!"wait context of block {p.1}: implementation {p.2}, model {d.st.blk.getD p.1 0}"
          | [], p :: _ => .error s!"forwarding counter {p.1}: implementation {p.2}, model {d.st.kid.getD p.1 0}"
          | [], [] => .ok ()
      | _, _, _ => .error "unparsable counters"
    | _, _, _ => .error "unparsable counters"
  | _ => .error "unparsable counters"

def splitBar (ws : List String) : List String × List String :=
  let (a, b) := ws.span (· != "|")
  (a, b.drop 1)

def fuelBig : Nat := 100000

open Proto in
def feedsOf (tbl : List (Nat × List Nat)) (x : Nat) : List Nat := lookupD tbl x []

open Proto in
def parseFeeds : Nat → List Nat → Option (List (Nat × List Nat) × List Nat)
  | 0, rest => some ([], rest)
  | k + 1, id :: m :: rest =>
    if rest.length < m then none else
      match parseFeeds k (rest.drop m) with
      | some (t, r) => some ((id, rest.take m) :: t, r)
      | none => none
  | _, _ => none

def pairsOf : List Nat → List (Nat × Nat)
  | a :: b :: r => (a, b) :: pairsOf r
  | _ => []

open Proto in
def handle (d : DSt) (ws : List String) : DSt × String :=
  let fail (d : DSt) (msg : String) : DSt × String := ({ d with failed := true }, "MISMATCH " ++ msg)
  match ws with
  | "cfgE" :: c :: rest =>
    -- cfgE <i|f|r> <T> <maxBlock> <n> ids… F <k> (id m kids…)* C <m> (lo hi)*
    let cat? : Option Cat := match c with | "i" => some .input | "f" => some .forward | "r" => some .random | _ => none
    let (numWs, tl) := rest.span (· != "F")
    let (fWs, cWs) := (tl.drop 1).span (· != "C")
    match cat?, nats? numWs, nats? fWs, nats? (cWs.drop 1) with
    | some cat, some (t :: mb :: n :: ids), some (k :: fr), some cs =>
      match parseFeeds k fr with
      | some (tbl, []) =>
        if ids.length == n && 1 ≤ t then
          let cfg : Cfg := { cat := cat, inp := ids, feeds := feedsOf tbl, maxBlock := mb, chunks := pairsOf (cs.drop 1) }
          ({ active := true, cfg := cfg, st := initEach cfg t, frames := [(0, [0])] }, "ok")
        else ({}, "bad-op")
      | _ => ({}, "bad-op")
    | _, _, _, _ => ({}, "bad-op")
  | ["cfgI", n] =>
    match nat? n with
    | some n => if 2 ≤ n then ({ active := true, cfg := {}, st := initInvoke n, frames := [(0, [0])] }, "ok") else ({}, "bad-op")
    | none => ({}, "bad-op")
  | ["end"] =>
    if !d.active then (d, "bad-op") else
      let s := d.st
      let bs := (bodies s.log).toArray.qsort (· < ·) |>.toList
      let cs := (calls s.log).toArray.qsort (· < ·) |>.toList
      ({}, s!"final failed={showBool d.failed} bad={showBool s.bad} returned={showBool (returned s)} quiescent={showBool (quiescent s)} root={s.root} iter={s.iter} blocks={(blocks s.log).map (fun p => (p.2.1, p.2.2))} bodies={bs} calls={cs}")
  | _ =>
    if !d.active then (d, "bad-op")
    else if d.failed then (d, "skip")
    else
      let (ev, snap) := splitBar ws
      let finish (r : Except String DSt) : DSt × String :=
        match r with
        | .error e => fail d e
        | .ok d' =>
          if snap.isEmpty then (d', "ok") else
            match checkSnap d' snap with
            | .ok () => (d', "ok")
            | .error e => fail d' e
      match ev with
      | "B" :: f :: tid :: tws =>
        match nat? f, nat? tid with
        | some f, some tid =>
          if tws == ["sf"] then ({ d with frames := setKey (setKey d.frames f []) (1000000 + f) [tid] }, "ok")
          else match task? tws with
            | some t =>
              match d.st.pool.findIdx? (· == t) with
              | some j =>
                let idx := d.st.acts.length
                ({ d with st := exec d.cfg d.st (.start j tid), frames := setKey d.frames f [idx] }, "ok")
              | none => fail d s!"a task started that is not in the model's pool: {reprStr t}"
            | none => (d, "bad-op")
        | _, _ => (d, "bad-op")
      | "S" :: f :: tws =>
        match nat? f with
        | some f =>
          if tws == ["sf"] then finish (.ok (flushSilent fuelBig d f))
          else match task? tws with
            | some t => finish (matchEvent fuelBig d f (.spawn t))
            | none => (d, "bad-op")
        | none => (d, "bad-op")
      | "ev" :: f :: aws =>
        match nat? f, act? aws with
        | some f, some a => finish (matchEvent fuelBig d f a)
        | _, _ => (d, "bad-op")
      | ["W", f, c] =>
        match nat? f, ctr? c with
        | some f, some c => finish (flushToWait fuelBig d f c)
        | _, _ => (d, "bad-op")
      | ["E", f] =>
        match nat? f with
        | some f => finish ((finishActs fuelBig d (lookupD d.frames f [])).map (fun d' => { d' with frames := setKey d'.frames f [] }))
        | none => (d, "bad-op")
      | _ => (d, "bad-op")

def driver : Proto.Driver := { σ := DSt, init := {}, step := handle }

end C05EachDrv
