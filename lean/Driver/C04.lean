import TbbVerif.Core.Proto
import TbbVerif.Model.C04

open TbbVerif

def drivers : List (String × Proto.Driver) := [
  ("c04", C04.driver)
]

def main (args : List String) : IO UInt32 := Proto.mainOf drivers args
