import TbbVerif.Core.Proto
import TbbVerif.Model.C19
import TbbVerif.Model.C19Life
import TbbVerif.Generated.C19

open TbbVerif

def drivers : List (String × Proto.Driver) := [
  ("c19once", C19.Once.driver),
  ("c19ets", C19.Ets.driver),
  ("c19life", C19.Life.driverWith (C19.Life.Cfg.ofCodes Generated.C19.lifeClearKey Generated.C19.lifeClearNo Generated.C19.lifeCtorKey
      Generated.C19.lifeCtorNo Generated.C19.lifeDtorKey Generated.C19.lifeDtorNo Generated.C19.lifeTlsLookup Generated.C19.lifeSwapKey))
]

def main (args : List String) : IO UInt32 := Proto.mainOf drivers args
