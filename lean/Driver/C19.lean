import TbbVerif.Core.Proto
import TbbVerif.Model.C19
import TbbVerif.Model.C19Life
import TbbVerif.Model.C19Collab
import TbbVerif.Model.C19Store
import TbbVerif.Generated.C19

open TbbVerif

def drivers : List (String × Proto.Driver) := [
  ("c19once", C19.Once.driver),
  ("c19ets", C19.Ets.driver),
  ("c19life", C19.Life.driverWith (C19.Life.Cfg.ofCodes Generated.C19.lifeClearKey Generated.C19.lifeClearNo Generated.C19.lifeCtorKey
      Generated.C19.lifeCtorNo Generated.C19.lifeDtorKey Generated.C19.lifeDtorNo Generated.C19.lifeTlsLookup Generated.C19.lifeSwapKey)),
  ("c19store", C19.Store.driverWith
    { commitAfterConstruct := Generated.C19.stCommitAfterConstruct, claimAfterCreate := Generated.C19.stClaimAfterCreate }),
  ("c19collab", C19.Collab.driverWith
    { doneAfterCall := Generated.C19.skDoneAfterCall, dtorWaitsRefs := Generated.C19.skDtorWaitsRefs, resetByCas := Generated.C19.skResetByCas,
      pinByCas := Generated.C19.skPinByCas, isolate := Generated.C19.skIsolate,
      ord := { lateLoad := Generated.C19.ordLateLoad, spinLoad := Generated.C19.ordSpinLoad, doneCas := Generated.C19.ordDoneCas,
               refDec := Generated.C19.ordRefDec, dtorLoad := Generated.C19.ordDtorLoad } })
]

def main (args : List String) : IO UInt32 := Proto.mainOf drivers args
