import TbbVerif.Core.Proto
import TbbVerif.Model.C19

open TbbVerif

def drivers : List (String × Proto.Driver) := [
  ("c19once", C19.Once.driver),
  ("c19ets", C19.Ets.driver)
]

def main (args : List String) : IO UInt32 := Proto.mainOf drivers args
