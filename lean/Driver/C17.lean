import TbbVerif.Core.Proto
import TbbVerif.Model.C17
import TbbVerif.Model.C17BackendDrv
import TbbVerif.Model.C17BackrefDrv
import TbbVerif.Model.C17SnapDrv
import TbbVerif.Model.C17CoalDrv

open TbbVerif

def drivers : List (String × Proto.Driver) := [
  ("c17", C17.driver),
  ("c17bk", C17.BE.driver),
  ("c17br", C17.BR.driver),
  ("c17bv", C17.Snap.driver),
  ("c17gs", C17.Coal.driver)
]

def main (args : List String) : IO UInt32 := Proto.mainOf drivers args
