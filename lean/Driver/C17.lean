import TbbVerif.Core.Proto
import TbbVerif.Model.C17

open TbbVerif

def drivers : List (String × Proto.Driver) := [
  ("c17", C17.driver)
]

def main (args : List String) : IO UInt32 := Proto.mainOf drivers args
