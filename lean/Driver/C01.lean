import TbbVerif.Core.Proto

open TbbVerif

def drivers : List (String × Proto.Driver) := []

def main (args : List String) : IO UInt32 := Proto.mainOf drivers args
