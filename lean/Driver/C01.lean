import TbbVerif.Core.Proto
import TbbVerif.Model.C01
import TbbVerif.Model.C01Tso
import TbbVerif.Model.C01DispatchDrv

open TbbVerif

def drivers : List (String × Proto.Driver) := [
  ("c01dq", C01.driverDeque),
  ("c01px", C01.driverProxy),
  ("c01mb", C01.driverMailbox),
  ("c01st", C01.driverStream),
  ("c01vx", C01.driverVertex),
  ("c01ft", C01.driverFold),
  ("c01tso", C01.DequeTso.driverTso),
  ("c01dp", C01.Dispatch.driverDispatch)
]

def main (args : List String) : IO UInt32 := Proto.mainOf drivers args
