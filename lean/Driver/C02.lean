import TbbVerif.Core.Proto
import TbbVerif.Model.C02
import TbbVerif.Model.C02BQ
import TbbVerif.Model.C02AE
import TbbVerif.Model.C02EX

open TbbVerif

def drivers : List (String × Proto.Driver) := [
  ("c02mon", C02.driverMon),
  ("c02sem", C02.driverSem),
  ("c02tso", C02.driverTso),
  ("c02flag", C02.driverFlag),
  ("c02bq", C02.BQ.driver),
  ("c02ae", C02.AE.driver),
  ("c02ex", C02.EX.driver)
]

def main (args : List String) : IO UInt32 := Proto.mainOf drivers args
