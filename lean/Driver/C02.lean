import TbbVerif.Core.Proto
import TbbVerif.Model.C02

open TbbVerif

def drivers : List (String × Proto.Driver) := [
  ("c02mon", C02.driverMon),
  ("c02sem", C02.driverSem),
  ("c02tso", C02.driverTso),
  ("c02flag", C02.driverFlag)
]

def main (args : List String) : IO UInt32 := Proto.mainOf drivers args
