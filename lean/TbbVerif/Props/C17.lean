/-
C17 — property theorems (statements only live here; helper lemmas are in Proofs/C17*.lean).

Property: every successful tbbmalloc allocation returns a block that overlaps no other live block or allocator
metadata, is aligned as requested (default 16, or 8 for requests ≤ 8 bytes), has msize ≥ request, …
The theorems below carry the front-end part of it for ALL request sizes and alignments: size classes, slab
layout, the `allocateAligned` strategies (stated over the case split *generated from the source text*),
interior-pointer recovery by free/msize, and large-object placement.  The back end, the back-reference table
and content preservation are covered by the E-REAL shadow-heap monitor only (see checks/c17.py).
-/
import TbbVerif.Proofs.C17
import TbbVerif.Proofs.C17Slab

namespace TbbVerif.C17
open TbbVerif.Cint
open TbbVerif.Generated.C17

/-- **Big enough.** Every request size of the slab domain `1..fittingSize5` has a bin, and the bin's
object size is at least the request. -/
theorem objsize_ge_request (s : Nat) (h1 : 1 ≤ s) (h2 : s ≤ fittingSize5) :
    ∃ i o, indexOf s = some i ∧ objectSizeOf s = some o ∧ s ≤ o ∧ i < numBlockBins ∧
      0 < o ∧ o ≤ slabSize - sizeofBlock := by
  obtain ⟨i, o, hi, ho, hle, hib, _, _, _, _, _, _, _, _, hcap, hpos⟩ := size_table s h1 h2
  exact ⟨i, o, hi, ho, hle, hib, hpos, hcap⟩

/-- **Bins are consistent.** `getIndex` and `getObjectSize` agree: two sizes of the same bin have the same
object size (a slab initialised for one of them serves the other), and the object size itself lies in the
same bin and is a fixed point (`getIndex(block->objectSize)` finds the bin back). -/
theorem index_consistent (s1 s2 : Nat) (h1 : 1 ≤ s1) (h1' : s1 ≤ fittingSize5) (h2 : 1 ≤ s2) (h2' : s2 ≤ fittingSize5)
    (h : indexOf s1 = indexOf s2) : objectSizeOf s1 = objectSizeOf s2 := by
  obtain ⟨i1, o1, hi1, ho1, _, _, hb1, _⟩ := size_table s1 h1 h1'
  obtain ⟨i2, o2, hi2, ho2, _, _, hb2, _⟩ := size_table s2 h2 h2'
  rw [hi1, hi2] at h
  cases h
  rw [ho1, ho2, hb1, hb2]

theorem index_fixed_point (s : Nat) (h1 : 1 ≤ s) (h2 : s ≤ fittingSize5) :
    ∃ o, objectSizeOf s = some o ∧ indexOf o = indexOf s ∧ objectSizeOf o = some o := by
  obtain ⟨i, o, hi, ho, _, _, _, _, _, _, hio, hoo, _⟩ := size_table s h1 h2
  exact ⟨o, ho, by rw [hio, hi], hoo⟩

/-- **Class alignment.** Object sizes are multiples of 8; of 16 for requests above 8 bytes; of the cache
line (`fittingAlignment`) for the fitting bins. -/
theorem objsize_alignment (s o : Nat) (h1 : 1 ≤ s) (h2 : s ≤ fittingSize5) (ho : objectSizeOf s = some o) :
    o % 8 = 0 ∧ (8 < s → o % 16 = 0) ∧ (maxSegregatedObjectSize < s → o % fittingAlignment = 0) := by
  obtain ⟨i, o', _, ho', _, _, _, h8, h16, h64, _⟩ := size_table s h1 h2
  rw [ho] at ho'; cases ho'
  exact ⟨h8, h16, h64⟩

/-- **Slab objects are disjoint, clear of the header, inside the slab, and aligned like their class.**
For every object size `O` and object numbers `j ≠ k` of a slab. -/
theorem slab_objects_disjoint_in_slab_aligned (O j k : Nat) (hO : 0 < O)
    (_hj1 : 1 ≤ j) (hj : j ≤ slabCapacity O) (hk1 : 1 ≤ k) (hk : k ≤ slabCapacity O) (hjk : j ≠ k) :
    sizeofBlock ≤ objStart O k ∧ objStart O k + O ≤ slabSize ∧
    (objStart O k + O ≤ objStart O j ∨ objStart O j + O ≤ objStart O k) ∧
    (∀ a base, base % slabSize = 0 → slabSize % a = 0 → O % a = 0 → (base + objStart O k) % a = 0) := by
  obtain ⟨a1, a2⟩ := obj_in_slab O k hO hk1 hk
  refine ⟨a1, a2, ?_, fun a base hb hs ha => obj_aligned O k a base hO hk hb hs ha⟩
  rcases Nat.lt_or_ge j k with h | h
  · exact Or.inl (obj_disjoint O j k hO hk h)
  · exact Or.inr (obj_disjoint O k j hO hj (by omega))

/-- **The bump pointer hands out exactly those objects**, each once, top down, and then stops: the first
`n` results of `allocateFromBumpPtr` on a fresh slab are objects `1, 2, …, min n capacity`. -/
theorem bump_pointer_hands_out_slab_objects (O n : Nat) (hO : 0 < O) (hfit : O ≤ slabSize - sizeofBlock) :
    bumpSeq O n (bumpInit O) = (List.range' 1 (min n (slabCapacity O))).map (objStart O) := by
  have hcap : 1 ≤ slabCapacity O := mul_le_cap O 1 hO (by omega)
  have := bumpSeq_from O hO n 1 (Nat.le_refl 1) hcap
  simpa [bumpInit] using this

/-- **Default alignment.** The object serving `malloc(s)` (`s` below the large-object threshold; `0` is
served as 8) is at least `s` bytes and every object of its slab lies at an address that is a multiple of 16,
or of 8 when `s ≤ 8`. -/
theorem malloc_result_sound (s k base : Nat) (hs : s < minLargeObjectSize) (hb : base % slabSize = 0) :
    ∃ O, objectSizeOf (normSize s) = some O ∧ s ≤ O ∧
      (1 ≤ k → k ≤ slabCapacity O →
        (base + objStart O k) % promisedAlign s = 0 ∧ sizeofBlock ≤ objStart O k ∧ objStart O k + O ≤ slabSize) := by
  have hn1 : 1 ≤ normSize s := by unfold normSize; split <;> first | (simp only [sizeofSizeT]; omega) | omega
  have hn2 : normSize s ≤ fittingSize5 := by
    unfold normSize; simp only [sizeofSizeT, fittingSize5, minLargeObjectSize] at *; split <;> omega
  obtain ⟨i, o, _, ho, hle, _, _, h8, h16, _, _, _, _, _, _, hpos⟩ := size_table (normSize s) hn1 hn2
  have hsn : s ≤ normSize s := by unfold normSize; split <;> omega
  refine ⟨o, ho, by omega, fun hk1 hk => ?_⟩
  obtain ⟨a1, a2⟩ := obj_in_slab o k hpos hk1 hk
  refine ⟨?_, a1, a2⟩
  unfold promisedAlign
  split
  · exact obj_aligned o k 8 base hpos hk hb (by decide) h8
  · exact obj_aligned o k 16 base hpos hk hb (by decide) (h16 (by omega))

/-- **The aligned-allocation case split is sound** (over the guards generated from `allocateAligned`), for
every 64-bit size and every power-of-two alignment up to 2^63.  Either (1/2) a slab request `req ≥ size` whose
class has object sizes that are multiples of the alignment, or (3) a slab request `size + alignment` from a
fitting bin whose pointer will be aligned up, or (4) a large object with alignment `max(64, alignment)`. -/
theorem aligned_case_sound (size a : Nat) (hs : size < 2 ^ 64) (ha : a < 64) :
    (∃ req O, alignedStrategy size (2 ^ a) = .small req false ∧ 1 ≤ req ∧ size ≤ req ∧ req ≤ fittingSize5 ∧
        objectSizeOf req = some O ∧ req ≤ O ∧ O % 2 ^ a = 0 ∧ a ≤ 10 ∧ 0 < O ∧ O ≤ slabSize - sizeofBlock) ∨
    (∃ O, alignedStrategy size (2 ^ a) = .small (size + 2 ^ a) true ∧ 7 ≤ a ∧ a ≤ 12 ∧ size + 2 ^ a ≤ fittingSize5 ∧
        objectSizeOf (size + 2 ^ a) = some O ∧ maxSegregatedObjectSize < O ∧ size + 2 ^ a ≤ O ∧ O % fittingAlignment = 0 ∧
        0 < O ∧ O ≤ slabSize - sizeofBlock) ∨
    (alignedStrategy size (2 ^ a) = .large (max largeObjectAlignment (2 ^ a)) ∧
        (fittingSize5 < size ∨ (fittingAlignment < 2 ^ a ∧ fittingSize5 < size + 2 ^ a))) :=
  aligned_cases size a hs ha

/-- **Aligned pointer fits** (case 3 arithmetic, any address): aligning `p` up by a power of two moves it by
less than the alignment, so `size` bytes still fit an object of at least `size + alignment` bytes. -/
theorem aligned_fits (p size a O : Nat) (h : size + 2 ^ a ≤ O) :
    p ≤ alignUpN p (2 ^ a) ∧ alignUpN p (2 ^ a) % 2 ^ a = 0 ∧ alignUpN p (2 ^ a) + size < p + O := by
  obtain ⟨u1, u2, u3⟩ := alignUpN_spec p (2 ^ a) (Nat.two_pow_pos a)
  exact ⟨u1, u3, by omega⟩

/-- **free / msize recover the object of an interior pointer**: `findAllocatedObject` maps every address
inside the `k`-th object of a slab (`off` bytes past its start) to the object start. -/
theorem find_object_inverts (O k off : Nat) (hO : 0 < O) (hk1 : 1 ≤ k) (hk : k ≤ slabCapacity O) (hoff : off < O) :
    findAllocated O (k * O - off) = k * O := by
  have hle := cap_mul_le O k hO hk
  exact findAllocated_inverts O k off hO hk1 (by simp only [slabSize, sizeofBlock] at hle; omega) hoff

/-- **A successful small aligned allocation is what the property demands.**  For every 64-bit `size`, every
alignment `2^a`, whatever object `k` of the slab the allocator hands out: the returned address is a multiple
of the alignment, `size` bytes from it stay inside the object (which is inside the slab, clear of the header),
`scalable_free` finds the object start from it and `scalable_msize` reports at least `size`. -/
theorem aligned_result_sound (size a k base req O off : Nat) (adj : Bool)
    (hs : size < 2 ^ 64) (ha : a < 64) (hstrat : alignedStrategy size (2 ^ a) = .small req adj)
    (hres : smallResult req adj (2 ^ a) k = some (O, off))
    (hk1 : 1 ≤ k) (hk : k ≤ slabCapacity O) (hb : base % slabSize = 0) :
    (base + objStart O k + off) % 2 ^ a = 0 ∧ off + size ≤ O ∧
    sizeofBlock ≤ objStart O k ∧ objStart O k + O ≤ slabSize ∧
    findObjectToFree O (slabSize - (objStart O k + off)) = k * O ∧
    size ≤ findObjectSize O (slabSize - (objStart O k + off)) := by
  rcases aligned_cases size a hs ha with ⟨req', O', hst, hr1, hsr, _, hobj, hrO, hmod, ha10, hpos, hcap⟩ |
      ⟨O', hst, ha7, ha12, _, hobj, hbig, hfit, h64, hpos, hcap⟩ | ⟨hst, _⟩
  · -- cases 1 and 2: the object itself
    rw [hst] at hstrat
    cases hstrat
    unfold smallResult at hres
    rw [normSize_pos _ hr1, hobj] at hres
    simp only [Bool.false_eq_true, if_false, Nat.sub_self, Option.some.injEq, Prod.mk.injEq] at hres
    obtain ⟨rfl, rfl⟩ := hres
    obtain ⟨a1, a2⟩ := obj_in_slab O' k hpos hk1 hk
    have hal := obj_aligned O' k (2 ^ a) base hpos hk hb (pow_dvd_slab a (by omega)) hmod
    have hle := cap_mul_le O' k hpos hk
    have hd := dist_eq O' k 0 (by simp only [slabSize, sizeofBlock] at hle ⊢; omega) (Nat.zero_le _)
    obtain ⟨f1, f2⟩ := find_to_free O' k 0 hpos hk1 hk hpos (Or.inl rfl)
    rw [hd]
    simp only [Nat.add_zero, Nat.sub_zero] at *
    exact ⟨hal, by omega, a1, a2, f1, by omega⟩
  · -- case 3: pointer aligned up inside a fitting-size object
    rw [hst] at hstrat
    cases hstrat
    have hp1 : 1 ≤ 2 ^ a := Nat.two_pow_pos a
    unfold smallResult at hres
    rw [normSize_pos _ (by omega), hobj] at hres
    simp only [if_true, Option.some.injEq, Prod.mk.injEq] at hres
    obtain ⟨rfl, hoff⟩ := hres
    obtain ⟨a1, a2⟩ := obj_in_slab O' k hpos hk1 hk
    have hle := cap_mul_le O' k hpos hk
    have h1 : 1 * O' ≤ k * O' := Nat.mul_le_mul_right O' hk1
    have hstart : objStart O' k + 2 ^ a ≤ 2 ^ 64 := by
      have : 2 ^ a ≤ 2 ^ 12 := Nat.pow_le_pow_right (by omega) ha12
      simp only [objStart, slabSize] at *; omega
    rw [gen_alignUp _ a ha hstart] at hoff
    obtain ⟨u1, u2, u3⟩ := alignUpN_spec (objStart O' k) (2 ^ a) hp1
    have hp : objStart O' k + off = alignUpN (objStart O' k) (2 ^ a) := by omega
    have hoffO : off < O' := by omega
    have hbase : base % 2 ^ a = 0 :=
      Nat.mod_eq_zero_of_dvd (Nat.dvd_trans (Nat.dvd_of_mod_eq_zero (pow_dvd_slab a (by omega))) (Nat.dvd_of_mod_eq_zero hb))
    have hal : (base + objStart O' k + off) % 2 ^ a = 0 := by
      rw [Nat.add_assoc, hp]
      exact Nat.mod_eq_zero_of_dvd (Nat.dvd_add (Nat.dvd_of_mod_eq_zero hbase) (Nat.dvd_of_mod_eq_zero u3))
    have h128 : (objStart O' k + off) % (2 * fittingAlignment) = 0 := by
      rw [hp]
      have : (2:Nat) ^ 7 ∣ 2 ^ a := Nat.pow_dvd_pow 2 ha7
      exact Nat.mod_eq_zero_of_dvd (Nat.dvd_trans (by simpa [fittingAlignment] using this) (Nat.dvd_of_mod_eq_zero u3))
    have hd := dist_eq O' k off (by simp only [slabSize, sizeofBlock] at hle ⊢; omega) (by omega)
    obtain ⟨f1, f2⟩ := find_to_free O' k off hpos hk1 hk hoffO (Or.inr ⟨hbig, h128⟩)
    rw [hd]
    exact ⟨hal, by omega, a1, a2, f1, by omega⟩
  · rw [hst] at hstrat
    cases hstrat

/-- **Large objects are placed inside their block, after the headers, aligned** — for every block address,
every (32-bit truncated) shuffle offset, with or without TLS, and every alignment `2^a`, provided the block
is as large as `getFromLLOCache` requested (`size + headers + alignment`, C18 `llo_wrap_check_sound`). -/
theorem llo_placement_inside (lmb U size a idx : Nat) (tls : Bool) (ha : a < 64)
    (hfit : size + headersSize + 2 ^ a ≤ U) (hend : lmb + U < 2 ^ 64) :
    lmb + headersSize ≤ lloPlace lmb U size (2 ^ a) idx tls ∧
    lloPlace lmb U size (2 ^ a) idx tls + size ≤ lmb + U ∧
    lloPlace lmb U size (2 ^ a) idx tls % 2 ^ a = 0 :=
  llo_place_inside lmb U size a idx tls ha hfit hend

/-- **Spec level: the shadow heap stays pairwise disjoint** under every sequence of accepted allocations and
frees (this is the monitor the E-REAL histories are checked with). -/
theorem heap_alloc_keeps_disjoint (h h' : List Blk) (b : Blk)
    (hd : h.Pairwise Blk.disjoint) (ha : heapAlloc h b = some h') : h'.Pairwise Blk.disjoint := by
  unfold heapAlloc at ha
  split at ha
  · rename_i hall
    cases ha
    rw [List.pairwise_cons]
    refine ⟨fun x hx => ?_, hd⟩
    have := List.all_eq_true.mp hall x hx
    have hxb : Blk.disjoint x b := by simpa using this
    unfold Blk.disjoint at *
    omega
  · cases ha

theorem heap_free_keeps_disjoint (h h' : List Blk) (start : Nat)
    (hd : h.Pairwise Blk.disjoint) (hf : heapFree h start = some h') : h'.Pairwise Blk.disjoint := by
  unfold heapFree at hf
  split at hf
  · cases hf
    exact hd.sublist (List.erase_sublist)
  · cases hf

/-- **Slab ownership protocol: no object is handed out while it is live, whatever the interleaving.**
Model `slabSys`: one owner thread running any program of `allocate` / `freeOwnObject` / `privatizePublicFreeList`
steps over a slab of `cap` objects, any number of foreign threads each returning one object through
`freePublicObject` (load of `publicFreeList`, then CAS, retried on failure).  For every schedule: the ghost
flag `bad` (an object handed out while still with the user) is never raised, the live objects are distinct
objects of the slab, and none of them is on the private or the public free list. -/
theorem slab_no_double_handout (cap : Nat) (ops : List OwnerOp) (foreign : List Nat) (sched : List Tid) :
    ((slabSys cap ops foreign).run sched).bad = false ∧
    ((slabSys cap ops foreign).run sched).live.Nodup ∧
    (∀ o ∈ ((slabSys cap ops foreign).run sched).live,
        o < cap ∧ o ∉ ((slabSys cap ops foreign).run sched).freeList ∧ o ∉ ((slabSys cap ops foreign).run sched).publicList) := by
  obtain ⟨inv, hcap⟩ := slab_inv_run cap ops foreign sched
  generalize (slabSys cap ops foreign).run sched = s at *
  refine ⟨inv.not_bad, ?_, fun o ho => ?_⟩
  · rw [List.nodup_iff_count]
    intro a
    have h := inv.one_place a
    simp only [places] at h
    split at h <;> omega
  · have hpos : 0 < s.live.count o := List.count_pos_iff.mpr ho
    have h := inv.one_place o
    simp only [places] at h
    rw [hcap] at h
    split at h
    · rename_i hlt
      exact ⟨hlt, List.count_eq_zero.mp (by omega), List.count_eq_zero.mp (by omega)⟩
    · omega

/-- **`allocatedCount` never under-counts**: in every reachable state it equals the number of objects with the
user plus those on their way back through the public free list (pushed or being pushed), so `allocatedCount == 0`
(the test `Block::empty()` uses before a slab is reset or returned to the back end) implies that no object of the
slab is live and nothing is pending on the public list. -/
theorem slab_empty_means_no_live_object (cap : Nat) (ops : List OwnerOp) (foreign : List Nat) (sched : List Tid)
    (h0 : ((slabSys cap ops foreign).run sched).allocCount = 0) :
    ((slabSys cap ops foreign).run sched).live = [] ∧ ((slabSys cap ops foreign).run sched).publicList = [] := by
  obtain ⟨inv, _⟩ := slab_inv_run cap ops foreign sched
  have h := inv.alloc_eq
  rw [h0] at h
  exact ⟨List.length_eq_zero_iff.mp (by omega), List.length_eq_zero_iff.mp (by omega)⟩

/-! Non-vacuity: concrete instances of every hypothesis pattern used above. -/
example :
    let r := (slabSys 3 [.alloc, .alloc, .privatize, .alloc, .free 1, .alloc] [0]).run [0, 0, 1, 1, 0, 0, 0, 0]
    r.handed = [0, 1, 0, 1] ∧ r.live = [1, 0] ∧ r.allocCount = 2 ∧ r.bad = false := by decide
example : indexOf 24 = some 3 ∧ objectSizeOf 24 = some 32 ∧ indexOf 65 = some 8 ∧ objectSizeOf 65 = some 80 ∧
    indexOf 1025 = some 24 ∧ objectSizeOf 8128 = some 8128 ∧ objectSizeOf 8129 = none := by decide
example : slabCapacity 8128 = 2 ∧ objStart 8128 2 = 128 ∧ bumpSeq 8128 5 (bumpInit 8128) = [8256, 128] := by decide
example : alignedStrategy 100 (2 ^ 7) = .small 128 false ∧ alignedStrategy 2000 (2 ^ 6) = .small 2000 false ∧
    alignedStrategy 2000 (2 ^ 12) = .small 6096 true ∧ alignedStrategy 8000 (2 ^ 7) = .small 8128 true ∧ alignedStrategy 8000 (2 ^ 8) = .large 256 ∧
    alignedStrategy 100 (2 ^ 20) = .large (2 ^ 20) := by decide
example : smallResult 6096 true (2 ^ 12) 1 = some (8128, 4032) ∧ findObjectToFree 8128 (8128 - 4032) = 8128 ∧
    findObjectSize 8128 (8128 - 4032) = 4096 := by decide
example : lloPlace 1000000 16384 8129 (2 ^ 6) 3 true = 1000128 + 3 * 64 ∧ lloPlace 1000000 16384 8129 (2 ^ 6) 3 false = 1000128 := by decide
example : heapAlloc [⟨0, 16⟩] ⟨16, 8⟩ = some [⟨16, 8⟩, ⟨0, 16⟩] ∧ heapAlloc [⟨0, 16⟩] ⟨8, 16⟩ = none := by decide

end TbbVerif.C17
