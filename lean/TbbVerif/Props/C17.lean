/-
C17 — property theorems (statements only live here; helper lemmas are in Proofs/C17*.lean).

Property: every successful tbbmalloc allocation returns a block that overlaps no other live block or allocator
metadata, is aligned as requested (default 16, or 8 for requests ≤ 8 bytes), has msize ≥ request, …
The theorems below carry the front-end part of it for ALL request sizes and alignments: size classes, slab
layout, the `allocateAligned` strategies (stated over the case split *generated from the source text*),
interior-pointer recovery by free/msize, and large-object placement.  The BACK END (regions, boundary tags, bins, splitting, coalescing, delayed coalescing, region release, reset, remap) and
the BACK-REFERENCE table have models of their own (`Model/C17Backend.lean`, `Model/C17Backref.lean`, `Model/C17Coal.lean`);
their theorems are in the second half of this file (sections Backend, GuardedSize, Backref).  Content preservation by realloc
is covered by the monitors.
-/
import TbbVerif.Proofs.C17
import TbbVerif.Proofs.C17Slab
import TbbVerif.Proofs.C17.BeReset
import TbbVerif.Proofs.C17.BeBinIdx
import TbbVerif.Proofs.C17.CoalProto
import TbbVerif.Proofs.C17.BrOps
import TbbVerif.Proofs.C17.BeFrame

namespace TbbVerif.C17
open TbbVerif.Cint
open TbbVerif.Generated.C17

/-- **Big enough.** Every request size of the slab domain `1..fittingSize5` has a bin, and the bin's
object size is at least the request. -/
theorem objsize_ge_request (s : Nat) (h1 : 1 ≤ s) (h2 : s ≤ fittingSize5) :
    ∃ i o, indexOf s = some i ∧ objectSizeOf s = some o ∧ s ≤ o ∧ i < numBlockBins ∧
      0 < o ∧ o ≤ slabSize - sizeofBlock := by
  obtain ⟨i, o, hi, ho, hle, hib, _, _, _, _, _, _, _, _, hcap, hpos⟩ := size_table s h1 h2
  exact ⟨i, o, hi, ho, hle, hib, hpos, hcap⟩

/-- **Bins are consistent.** `getIndex` and `getObjectSize` agree: two sizes of the same bin have the same
object size (a slab initialised for one of them serves the other), and the object size itself lies in the
same bin and is a fixed point (`getIndex(block->objectSize)` finds the bin back). -/
theorem index_consistent (s1 s2 : Nat) (h1 : 1 ≤ s1) (h1' : s1 ≤ fittingSize5) (h2 : 1 ≤ s2) (h2' : s2 ≤ fittingSize5)
    (h : indexOf s1 = indexOf s2) : objectSizeOf s1 = objectSizeOf s2 := by
  obtain ⟨i1, o1, hi1, ho1, _, _, hb1, _⟩ := size_table s1 h1 h1'
  obtain ⟨i2, o2, hi2, ho2, _, _, hb2, _⟩ := size_table s2 h2 h2'
  rw [hi1, hi2] at h
  cases h
  rw [ho1, ho2, hb1, hb2]

theorem index_fixed_point (s : Nat) (h1 : 1 ≤ s) (h2 : s ≤ fittingSize5) :
    ∃ o, objectSizeOf s = some o ∧ indexOf o = indexOf s ∧ objectSizeOf o = some o := by
  obtain ⟨i, o, hi, ho, _, _, _, _, _, _, hio, hoo, _⟩ := size_table s h1 h2
  exact ⟨o, ho, by rw [hio, hi], hoo⟩

/-- **Class alignment.** Object sizes are multiples of 8; of 16 for requests above 8 bytes; of the cache
line (`fittingAlignment`) for the fitting bins. -/
theorem objsize_alignment (s o : Nat) (h1 : 1 ≤ s) (h2 : s ≤ fittingSize5) (ho : objectSizeOf s = some o) :
    o % 8 = 0 ∧ (8 < s → o % 16 = 0) ∧ (maxSegregatedObjectSize < s → o % fittingAlignment = 0) := by
  obtain ⟨i, o', _, ho', _, _, _, h8, h16, h64, _⟩ := size_table s h1 h2
  rw [ho] at ho'; cases ho'
  exact ⟨h8, h16, h64⟩

/-- **Slab objects are disjoint, clear of the header, inside the slab, and aligned like their class.**
For every object size `O` and object numbers `j ≠ k` of a slab. -/
theorem slab_objects_disjoint_in_slab_aligned (O j k : Nat) (hO : 0 < O)
    (_hj1 : 1 ≤ j) (hj : j ≤ slabCapacity O) (hk1 : 1 ≤ k) (hk : k ≤ slabCapacity O) (hjk : j ≠ k) :
    sizeofBlock ≤ objStart O k ∧ objStart O k + O ≤ slabSize ∧
    (objStart O k + O ≤ objStart O j ∨ objStart O j + O ≤ objStart O k) ∧
    (∀ a base, base % slabSize = 0 → slabSize % a = 0 → O % a = 0 → (base + objStart O k) % a = 0) := by
  obtain ⟨a1, a2⟩ := obj_in_slab O k hO hk1 hk
  refine ⟨a1, a2, ?_, fun a base hb hs ha => obj_aligned O k a base hO hk hb hs ha⟩
  rcases Nat.lt_or_ge j k with h | h
  · exact Or.inl (obj_disjoint O j k hO hk h)
  · exact Or.inr (obj_disjoint O k j hO hj (by omega))

/-- **The bump pointer hands out exactly those objects**, each once, top down, and then stops: the first
`n` results of `allocateFromBumpPtr` on a fresh slab are objects `1, 2, …, min n capacity`. -/
theorem bump_pointer_hands_out_slab_objects (O n : Nat) (hO : 0 < O) (hfit : O ≤ slabSize - sizeofBlock) :
    bumpSeq O n (bumpInit O) = (List.range' 1 (min n (slabCapacity O))).map (objStart O) := by
  have hcap : 1 ≤ slabCapacity O := mul_le_cap O 1 hO (by omega)
  have := bumpSeq_from O hO n 1 (Nat.le_refl 1) hcap
  simpa [bumpInit] using this

/-- **Default alignment.** The object serving `malloc(s)` (`s` below the large-object threshold; `0` is
served as 8) is at least `s` bytes and every object of its slab lies at an address that is a multiple of 16,
or of 8 when `s ≤ 8`. -/
theorem malloc_result_sound (s k base : Nat) (hs : s < minLargeObjectSize) (hb : base % slabSize = 0) :
    ∃ O, objectSizeOf (normSize s) = some O ∧ s ≤ O ∧
      (1 ≤ k → k ≤ slabCapacity O →
        (base + objStart O k) % promisedAlign s = 0 ∧ sizeofBlock ≤ objStart O k ∧ objStart O k + O ≤ slabSize) := by
  have hn1 : 1 ≤ normSize s := by unfold normSize; split <;> first | (simp only [sizeofSizeT]; omega) | omega
  have hn2 : normSize s ≤ fittingSize5 := by
    unfold normSize; simp only [sizeofSizeT, fittingSize5, minLargeObjectSize] at *; split <;> omega
  obtain ⟨i, o, _, ho, hle, _, _, h8, h16, _, _, _, _, _, _, hpos⟩ := size_table (normSize s) hn1 hn2
  have hsn : s ≤ normSize s := by unfold normSize; split <;> omega
  refine ⟨o, ho, by omega, fun hk1 hk => ?_⟩
  obtain ⟨a1, a2⟩ := obj_in_slab o k hpos hk1 hk
  refine ⟨?_, a1, a2⟩
  unfold promisedAlign
  split
  · exact obj_aligned o k 8 base hpos hk hb (by decide) h8
  · exact obj_aligned o k 16 base hpos hk hb (by decide) (h16 (by omega))

/-- **The aligned-allocation case split is sound** (over the guards generated from `allocateAligned`), for
every 64-bit size and every power-of-two alignment up to 2^63.  Either (1/2) a slab request `req ≥ size` whose
class has object sizes that are multiples of the alignment, or (3) a slab request `size + alignment` from a
fitting bin whose pointer will be aligned up, or (4) a large object with alignment `max(64, alignment)`. -/
theorem aligned_case_sound (size a : Nat) (hs : size < 2 ^ 64) (ha : a < 64) :
    (∃ req O, alignedStrategy size (2 ^ a) = .small req false ∧ 1 ≤ req ∧ size ≤ req ∧ req ≤ fittingSize5 ∧
        objectSizeOf req = some O ∧ req ≤ O ∧ O % 2 ^ a = 0 ∧ a ≤ 10 ∧ 0 < O ∧ O ≤ slabSize - sizeofBlock) ∨
    (∃ O, alignedStrategy size (2 ^ a) = .small (size + 2 ^ a) true ∧ 7 ≤ a ∧ a ≤ 12 ∧ size + 2 ^ a ≤ fittingSize5 ∧
        objectSizeOf (size + 2 ^ a) = some O ∧ maxSegregatedObjectSize < O ∧ size + 2 ^ a ≤ O ∧ O % fittingAlignment = 0 ∧
        0 < O ∧ O ≤ slabSize - sizeofBlock) ∨
    (alignedStrategy size (2 ^ a) = .large (max largeObjectAlignment (2 ^ a)) ∧
        (fittingSize5 < size ∨ (fittingAlignment < 2 ^ a ∧ fittingSize5 < size + 2 ^ a))) :=
  aligned_cases size a hs ha

/-- **Aligned pointer fits** (case 3 arithmetic, any address): aligning `p` up by a power of two moves it by
less than the alignment, so `size` bytes still fit an object of at least `size + alignment` bytes. -/
theorem aligned_fits (p size a O : Nat) (h : size + 2 ^ a ≤ O) :
    p ≤ alignUpN p (2 ^ a) ∧ alignUpN p (2 ^ a) % 2 ^ a = 0 ∧ alignUpN p (2 ^ a) + size < p + O := by
  obtain ⟨u1, u2, u3⟩ := alignUpN_spec p (2 ^ a) (Nat.two_pow_pos a)
  exact ⟨u1, u3, by omega⟩

/-- **free / msize recover the object of an interior pointer**: `findAllocatedObject` maps every address
inside the `k`-th object of a slab (`off` bytes past its start) to the object start. -/
theorem find_object_inverts (O k off : Nat) (hO : 0 < O) (hk1 : 1 ≤ k) (hk : k ≤ slabCapacity O) (hoff : off < O) :
    findAllocated O (k * O - off) = k * O := by
  have hle := cap_mul_le O k hO hk
  exact findAllocated_inverts O k off hO hk1 (by simp only [slabSize, sizeofBlock] at hle; omega) hoff

/-- **A successful small aligned allocation is what the property demands.**  For every 64-bit `size`, every
alignment `2^a`, whatever object `k` of the slab the allocator hands out: the returned address is a multiple
of the alignment, `size` bytes from it stay inside the object (which is inside the slab, clear of the header),
`scalable_free` finds the object start from it and `scalable_msize` reports at least `size`. -/
theorem aligned_result_sound (size a k base req O off : Nat) (adj : Bool)
    (hs : size < 2 ^ 64) (ha : a < 64) (hstrat : alignedStrategy size (2 ^ a) = .small req adj)
    (hres : smallResult req adj (2 ^ a) k = some (O, off))
    (hk1 : 1 ≤ k) (hk : k ≤ slabCapacity O) (hb : base % slabSize = 0) :
    (base + objStart O k + off) % 2 ^ a = 0 ∧ off + size ≤ O ∧
    sizeofBlock ≤ objStart O k ∧ objStart O k + O ≤ slabSize ∧
    findObjectToFree O (slabSize - (objStart O k + off)) = k * O ∧
    size ≤ findObjectSize O (slabSize - (objStart O k + off)) := by
  rcases aligned_cases size a hs ha with ⟨req', O', hst, hr1, hsr, _, hobj, hrO, hmod, ha10, hpos, hcap⟩ |
      ⟨O', hst, ha7, ha12, _, hobj, hbig, hfit, h64, hpos, hcap⟩ | ⟨hst, _⟩
  · -- cases 1 and 2: the object itself
    rw [hst] at hstrat
    cases hstrat
    unfold smallResult at hres
    rw [normSize_pos _ hr1, hobj] at hres
    simp only [Bool.false_eq_true, if_false, Nat.sub_self, Option.some.injEq, Prod.mk.injEq] at hres
    obtain ⟨rfl, rfl⟩ := hres
    obtain ⟨a1, a2⟩ := obj_in_slab O' k hpos hk1 hk
    have hal := obj_aligned O' k (2 ^ a) base hpos hk hb (pow_dvd_slab a (by omega)) hmod
    have hle := cap_mul_le O' k hpos hk
    have hd := dist_eq O' k 0 (by simp only [slabSize, sizeofBlock] at hle ⊢; omega) (Nat.zero_le _)
    obtain ⟨f1, f2⟩ := find_to_free O' k 0 hpos hk1 hk hpos (Or.inl rfl)
    rw [hd]
    simp only [Nat.add_zero, Nat.sub_zero] at *
    exact ⟨hal, by omega, a1, a2, f1, by omega⟩
  · -- case 3: pointer aligned up inside a fitting-size object
    rw [hst] at hstrat
    cases hstrat
    have hp1 : 1 ≤ 2 ^ a := Nat.two_pow_pos a
    unfold smallResult at hres
    rw [normSize_pos _ (by omega), hobj] at hres
    simp only [if_true, Option.some.injEq, Prod.mk.injEq] at hres
    obtain ⟨rfl, hoff⟩ := hres
    obtain ⟨a1, a2⟩ := obj_in_slab O' k hpos hk1 hk
    have hle := cap_mul_le O' k hpos hk
    have h1 : 1 * O' ≤ k * O' := Nat.mul_le_mul_right O' hk1
    have hstart : objStart O' k + 2 ^ a ≤ 2 ^ 64 := by
      have : 2 ^ a ≤ 2 ^ 12 := Nat.pow_le_pow_right (by omega) ha12
      simp only [objStart, slabSize] at *; omega
    rw [gen_alignUp _ a ha hstart] at hoff
    obtain ⟨u1, u2, u3⟩ := alignUpN_spec (objStart O' k) (2 ^ a) hp1
    have hp : objStart O' k + off = alignUpN (objStart O' k) (2 ^ a) := by omega
    have hoffO : off < O' := by omega
    have hbase : base % 2 ^ a = 0 :=
      Nat.mod_eq_zero_of_dvd (Nat.dvd_trans (Nat.dvd_of_mod_eq_zero (pow_dvd_slab a (by omega))) (Nat.dvd_of_mod_eq_zero hb))
    have hal : (base + objStart O' k + off) % 2 ^ a = 0 := by
      rw [Nat.add_assoc, hp]
      exact Nat.mod_eq_zero_of_dvd (Nat.dvd_add (Nat.dvd_of_mod_eq_zero hbase) (Nat.dvd_of_mod_eq_zero u3))
    have h128 : (objStart O' k + off) % (2 * fittingAlignment) = 0 := by
      rw [hp]
      have : (2:Nat) ^ 7 ∣ 2 ^ a := Nat.pow_dvd_pow 2 ha7
      exact Nat.mod_eq_zero_of_dvd (Nat.dvd_trans (by simpa [fittingAlignment] using this) (Nat.dvd_of_mod_eq_zero u3))
    have hd := dist_eq O' k off (by simp only [slabSize, sizeofBlock] at hle ⊢; omega) (by omega)
    obtain ⟨f1, f2⟩ := find_to_free O' k off hpos hk1 hk hoffO (Or.inr ⟨hbig, h128⟩)
    rw [hd]
    exact ⟨hal, by omega, a1, a2, f1, by omega⟩
  · rw [hst] at hstrat
    cases hstrat

/-- **Large objects are placed inside their block, after the headers, aligned** — for every block address,
every (32-bit truncated) shuffle offset, with or without TLS, and every alignment `2^a`, provided the block
is as large as `getFromLLOCache` requested (`size + headers + alignment`, C18 `llo_wrap_check_sound`). -/
theorem llo_placement_inside (lmb U size a idx : Nat) (tls : Bool) (ha : a < 64)
    (hfit : size + headersSize + 2 ^ a ≤ U) (hend : lmb + U < 2 ^ 64) :
    lmb + headersSize ≤ lloPlace lmb U size (2 ^ a) idx tls ∧
    lloPlace lmb U size (2 ^ a) idx tls + size ≤ lmb + U ∧
    lloPlace lmb U size (2 ^ a) idx tls % 2 ^ a = 0 :=
  llo_place_inside lmb U size a idx tls ha hfit hend

/-- **Spec level: the shadow heap stays pairwise disjoint** under every sequence of accepted allocations and
frees (this is the monitor the E-REAL histories are checked with). -/
theorem heap_alloc_keeps_disjoint (h h' : List Blk) (b : Blk)
    (hd : h.Pairwise Blk.disjoint) (ha : heapAlloc h b = some h') : h'.Pairwise Blk.disjoint := by
  unfold heapAlloc at ha
  split at ha
  · rename_i hall
    cases ha
    rw [List.pairwise_cons]
    refine ⟨fun x hx => ?_, hd⟩
    have := List.all_eq_true.mp hall x hx
    have hxb : Blk.disjoint x b := by simpa using this
    unfold Blk.disjoint at *
    omega
  · cases ha

theorem heap_free_keeps_disjoint (h h' : List Blk) (start : Nat)
    (hd : h.Pairwise Blk.disjoint) (hf : heapFree h start = some h') : h'.Pairwise Blk.disjoint := by
  unfold heapFree at hf
  split at hf
  · cases hf
    exact hd.sublist (List.erase_sublist)
  · cases hf

/-- **Slab ownership protocol: no object is handed out while it is live, whatever the interleaving.**
Model `slabSys`: one owner thread running any program of `allocate` / `freeOwnObject` / `privatizePublicFreeList`
steps over a slab of `cap` objects, any number of foreign threads each returning one object through
`freePublicObject` (load of `publicFreeList`, then CAS, retried on failure).  For every schedule: the ghost
flag `bad` (an object handed out while still with the user) is never raised, the live objects are distinct
objects of the slab, and none of them is on the private or the public free list. -/
theorem slab_no_double_handout (cap : Nat) (ops : List OwnerOp) (foreign : List Nat) (sched : List Tid) :
    ((slabSys cap ops foreign).run sched).bad = false ∧
    ((slabSys cap ops foreign).run sched).live.Nodup ∧
    (∀ o ∈ ((slabSys cap ops foreign).run sched).live,
        o < cap ∧ o ∉ ((slabSys cap ops foreign).run sched).freeList ∧ o ∉ ((slabSys cap ops foreign).run sched).publicList) := by
  obtain ⟨inv, hcap⟩ := slab_inv_run cap ops foreign sched
  generalize (slabSys cap ops foreign).run sched = s at *
  refine ⟨inv.not_bad, ?_, fun o ho => ?_⟩
  · rw [List.nodup_iff_count]
    intro a
    have h := inv.one_place a
    simp only [places] at h
    split at h <;> omega
  · have hpos : 0 < s.live.count o := List.count_pos_iff.mpr ho
    have h := inv.one_place o
    simp only [places] at h
    rw [hcap] at h
    split at h
    · rename_i hlt
      exact ⟨hlt, List.count_eq_zero.mp (by omega), List.count_eq_zero.mp (by omega)⟩
    · omega

/-- **`allocatedCount` never under-counts**: in every reachable state it equals the number of objects with the
user plus those on their way back through the public free list (pushed or being pushed), so `allocatedCount == 0`
(the test `Block::empty()` uses before a slab is reset or returned to the back end) implies that no object of the
slab is live and nothing is pending on the public list. -/
theorem slab_empty_means_no_live_object (cap : Nat) (ops : List OwnerOp) (foreign : List Nat) (sched : List Tid)
    (h0 : ((slabSys cap ops foreign).run sched).allocCount = 0) :
    ((slabSys cap ops foreign).run sched).live = [] ∧ ((slabSys cap ops foreign).run sched).publicList = [] := by
  obtain ⟨inv, _⟩ := slab_inv_run cap ops foreign sched
  have h := inv.alloc_eq
  rw [h0] at h
  exact ⟨List.length_eq_zero_iff.mp (by omega), List.length_eq_zero_iff.mp (by omega)⟩

/-! Non-vacuity: concrete instances of every hypothesis pattern used above. -/
example :
    let r := (slabSys 3 [.alloc, .alloc, .privatize, .alloc, .free 1, .alloc] [0]).run [0, 0, 1, 1, 0, 0, 0, 0]
    r.handed = [0, 1, 0, 1] ∧ r.live = [1, 0] ∧ r.allocCount = 2 ∧ r.bad = false := by decide
example : indexOf 24 = some 3 ∧ objectSizeOf 24 = some 32 ∧ indexOf 65 = some 8 ∧ objectSizeOf 65 = some 80 ∧
    indexOf 1025 = some 24 ∧ objectSizeOf 8128 = some 8128 ∧ objectSizeOf 8129 = none := by decide
example : slabCapacity 8128 = 2 ∧ objStart 8128 2 = 128 ∧ bumpSeq 8128 5 (bumpInit 8128) = [8256, 128] := by decide
example : alignedStrategy 100 (2 ^ 7) = .small 128 false ∧ alignedStrategy 2000 (2 ^ 6) = .small 2000 false ∧
    alignedStrategy 2000 (2 ^ 12) = .small 6096 true ∧ alignedStrategy 8000 (2 ^ 7) = .small 8128 true ∧ alignedStrategy 8000 (2 ^ 8) = .large 256 ∧
    alignedStrategy 100 (2 ^ 20) = .large (2 ^ 20) := by decide
example : smallResult 6096 true (2 ^ 12) 1 = some (8128, 4032) ∧ findObjectToFree 8128 (8128 - 4032) = 8128 ∧
    findObjectSize 8128 (8128 - 4032) = 4096 := by decide
example : lloPlace 1000000 16384 8129 (2 ^ 6) 3 true = 1000128 + 3 * 64 ∧ lloPlace 1000000 16384 8129 (2 ^ 6) 3 false = 1000128 := by decide
example : heapAlloc [⟨0, 16⟩] ⟨16, 8⟩ = some [⟨16, 8⟩, ⟨0, 16⟩] ∧ heapAlloc [⟨0, 16⟩] ⟨8, 16⟩ = none := by decide

/-! ## Back end (src/tbbmalloc/backend.cpp) — model `Model/C17Backend.lean`, invariant `Model/C17BackendInv.lean` -/

section Backend
open TbbVerif.C17.BE
open TbbVerif.Generated.C17Backend

/-- **Every reachable state of the back end is well formed** — for every pool configuration (fixed or not, keepAllMemory,
granularity), every sequence of `genericGetBlock` / `genericPutBlock` / `scanCoalescQ` / `clean` / `reset` calls of any
sizes, every answer of the raw allocator, with bin mutexes held and neighbours being freed by other threads at any time:
  * each region is EXACTLY tiled by its blocks — free, in use, queued for delayed coalescing, being freed — from its
    first block to its `LastFreeBlock`, which fits the mapping (`regOK`, `chainOK`);
  * the boundary tags are consistent: every block's `leftL` equals its left neighbour's `myL`, which is the block's size
    iff it is free (LOCKED / COAL_BLOCK otherwise, LAST_REGION_BLOCK for the last block);
  * the bins hold exactly the free blocks that name a bin, each once (`Perm`), in the bin of their size
    (`myBin = sizeToBin size`), a non-empty bin has its mask bit set; `coalescQ` holds exactly the queued blocks;
  * regions do not overlap; the model never followed a tag value to a non-block (`bad = false`). -/
theorem backend_region_tiling (cfg : Cfg) (ops : List Op) : WF ((machine cfg).run ops).1 := wf_run cfg ops

/-- **A block in a bin is free, big enough for its bin, and tagged as such on both sides**; in a slab-aligned bin its
right end is slab-aligned (what `getFromBin` / `splitBlock` rely on when they cut a slab-aligned block off the right
end).  Holds in every reachable state. -/
theorem backend_bin_block_is_free (cfg : Cfg) (ops : List Op) (e : Entry) (he : e ∈ ((machine cfg).run ops).1.g.bins) :
    ∃ c, locate ((machine cfg).run ops).1 e.addr = some c ∧ c.z.cur.own = .free ∧ c.z.cur.myL = c.z.cur.size ∧
      sizeToBin c.z.cur.size = (e.bin : Int) ∧ beMinBinnedSize ≤ c.z.cur.size ∧ c.z.cur.aligned = e.al ∧
      (∃ r post, c.z.post = r :: post ∧ r.leftL = c.z.cur.size) ∧
      (e.al = true → (e.addr + c.z.cur.size) % beSlabSize = 0) :=
  wf_bin_entry _ (wf_run cfg ops) e he

/-- **Coalescing keeps the tiling and the handed-out blocks, whatever it meets**: one iteration of `coalescAndPutList`
(`doCoalesc` with a left and/or right merge, a neighbour locked or being coalesced by someone else — then the request is
queued —, the whole region becoming free — then it is released or kept at the tail of its bin —, the bin mutex busy) from
ANY well-formed state leaves a well-formed state (exact tiling of every region, consistent boundary tags, bins = the free
blocks that name them), AND the list of blocks in the hands of callers (address, size) is literally unchanged: a merge
never swallows an in-use block or crosses a region border, because every block that is not free carries a LOCKED /
COAL_BLOCK / LAST_REGION_BLOCK tag and `doCoalesc` merges only across a tag that is a size; a released region holds no
handed-out block. -/
theorem backend_coalesce_preserves (s : St) (addr : Nat) (force report : Bool) (hw : WF s) :
    WF (coalescAndPut1 s addr force report).1 ∧
    allUsers (coalescAndPut1 s addr force report).1.regions = allUsers s.regions :=
  ⟨coalescAndPut1_wf s addr force report hw, coalescAndPut1_users s addr force report hw⟩

/-- **Draining the delayed-coalescing queue** (`scanCoalescQ`, any number of queued requests, forced or not) keeps the
invariant and the handed-out blocks. -/
theorem backend_scan_preserves (s : St) (force : Bool) (hw : WF s) :
    WF (scanCoalescQ s force).1 ∧ allUsers (scanCoalescQ s force).1.regions = allUsers s.regions :=
  ⟨scanCoalescQ_wf s force hw, scanCoalescQ_users s force hw⟩

/-- **`genericPutBlock` takes back exactly the block it is given.**  The handed-out blocks before are the freed block
plus the handed-out blocks after — whatever the coalescing that follows merges, queues or releases. -/
theorem backend_put_takes_back_only_its_block (s : St) (addr : Nat) (hw : WF s) (s' : St) (h : genericPutBlock s addr = (s', true)) :
    ∃ c, locate s addr = some c ∧ (allUsers s.regions).Perm ((addr, c.z.cur.size) :: allUsers s'.regions) :=
  genericPutBlock_users s addr hw s' h

/-- **Blocks in the hands of callers are disjoint.**  In every reachable state the blocks handed out by `genericGetBlock`
and not yet given back (`allUsers`: address, size) are pairwise disjoint; each is at least `minBlockSize` long and lies
inside one region, behind the `MemRegion` header and in front of the `LastFreeBlock`; and none overlaps a block that is in
a bin (so a later `genericGetBlock` cannot hand out memory that is already out). -/
theorem backend_get_disjoint (cfg : Cfg) (ops : List Op) :
    (allUsers ((machine cfg).run ops).1.regions).Pairwise blkDisj ∧
    (∀ u ∈ allUsers ((machine cfg).run ops).1.regions, beMinBlockSize ≤ u.2 ∧
      ∃ r ∈ ((machine cfg).run ops).1.regions, r.base + beSizeofMemRegion ≤ u.1 ∧ u.1 + u.2 + beSizeofLastFreeBlock ≤ r.base + r.allocSz) ∧
    (∀ u ∈ allUsers ((machine cfg).run ops).1.regions, ∀ e ∈ ((machine cfg).run ops).1.g.bins,
      ∃ c, locate ((machine cfg).run ops).1 e.addr = some c ∧ c.z.cur.own = .free ∧ blkDisj u (e.addr, c.z.cur.size)) :=
  have hw := wf_run cfg ops
  ⟨users_pairwise _ hw, users_inside _ hw, users_clear_of_bins _ hw⟩

/-- **What is handed out is recorded.**  The end of `genericGetBlock` (`giveUser`: `num` blocks of `size` bytes from
`addr` on) puts every one of them on the list `backend_get_disjoint` speaks about, and removes none (unless the model
flagged a ghost-precondition miss, `skip`, which the differential reports). -/
theorem backend_handout_recorded (s : St) (addr size num : Nat) (al : Bool) (h : (giveUser s addr size al num).g.skip = false) :
    (∀ k, k < num → (addr + k * size, size) ∈ allUsers (giveUser s addr size al num).regions) ∧
    (∀ u ∈ allUsers s.regions, u ∈ allUsers (giveUser s addr size al num).regions) :=
  giveUser_records size al num s addr h

/-- **Every operation keeps the invariant** (the inductive step of `backend_region_tiling`). -/
theorem backend_step_preserves (s : St) (op : Op) (hw : WF s) : WF (step s op).1 := step_wf s op hw

/-- **The bin index is sound.**  `sizeToBin` is monotone, `NO_BIN` exactly below `minBinnedSize`, never above `HUGE_BIN`
(which is the last bin: no overflow of the bin array for any size), so (what `findBlock` relies on when it starts at
the request's bin) every block in a higher bin is strictly larger than the request and every block in a lower bin is
strictly smaller; inside the request's own bin the code compares sizes itself (`fitGeneral`).  The regenerated C++
expression (with its `int` conversion) computes the model's function for every 64-bit size. -/
theorem bin_index_sound (req s : Nat) :
    (req ≤ s → sizeToBin req ≤ sizeToBin s) ∧ (sizeToBin s = -1 ↔ s < beMinBinnedSize) ∧
    (-1 ≤ sizeToBin s ∧ sizeToBin s ≤ (beHugeBin : Int) ∧ (beHugeBin : Int) < beFreeBinsNum) ∧
    (sizeToBin req < sizeToBin s → req < s) ∧ (sizeToBin s < sizeToBin req → s < req) ∧
    (s < 2 ^ 64 → sizeToBinG s = sizeToBin s) :=
  ⟨sizeToBin_mono req s, sizeToBin_neg s, sizeToBin_range s, (bin_block_fits req s).1, (bin_block_fits req s).2, sizeToBin_gen s⟩

/-- **The fit tests and `toAlignedBin` as coded** (regenerated from the source) are the model's: a block taken by
`getFromBin` is at least as large as the request and leaves no remainder smaller than a block header. -/
theorem backend_fit_tests_as_coded (curr szBlock size : Nat) (h1 : curr + szBlock < 2 ^ 63) (h2 : size < 2 ^ 63) :
    fitGeneralG curr szBlock size = fitGeneral szBlock size ∧ fitAlignedG curr szBlock size = fitAligned curr szBlock size ∧
    toAlignedBinG curr szBlock = toAlignedBin curr szBlock ∧
    (fitGeneral szBlock size = true → size ≤ szBlock ∧ (szBlock = size ∨ beMinBlockSize ≤ szBlock - size)) :=
  ⟨fitGeneral_gen curr szBlock size (by omega), fitAligned_gen curr szBlock size h1 h2, toAlignedBin_gen curr szBlock (by omega), by
    intro h
    unfold fitGeneral at h
    simp only [Bool.and_eq_true, decide_eq_true_eq, Bool.or_eq_true, beq_iff_eq] at h
    omega⟩

/-- **`Backend::remap` (large realloc through mremap) keeps the prefix and stays disjoint** — over the size expressions
regenerated from the source.  The object keeps its offset in the mapping, so the bytes the OS preserves (the first
`min(old mapping, new mapping)`) contain the first `min(oldSize, newSize)` bytes of the object; the re-initialised
block starts behind the region header, covers its headers and the WHOLE new object (`ptr' + newSize ≤ block end`), and
the block with the `LastFreeBlock` behind it lies inside the new mapping — hence it is disjoint from whatever any other
mapping holds.  (Sizes below 2^62; the wrap-around test is C18's `remap_guard_sound`.) -/
theorem remap_keeps_prefix_and_disjoint (ptr region newRegion oldSize newSize alignment k oldRegionSize : Nat)
    (hk7 : 7 ≤ k) (hk : k ≤ 32) (hnr : newRegion % 64 = 0) (hnr2 : newRegion < 2 ^ 62)
    (hlo : region + (64 + beSizeofLargeMemoryBlock + beSizeofLargeObjectHdr) ≤ ptr) (hoff : ptr - region < 2 ^ 32) (hp : ptr < 2 ^ 64)
    (hsz : newSize < 2 ^ 62) (hold : (ptr - region) + oldSize ≤ oldRegionSize) :
    let u := remapUserOffsetG ptr region oldSize newSize alignment (2 ^ k)
    let A := remapAlignedSizeG ptr region oldSize newSize alignment (2 ^ k)
    let R := remapRequestSizeG ptr region oldSize newSize alignment (2 ^ k)
    let fb := remapBlockG newRegion u
    let obj := remapObjectG newRegion u
    (u = ptr - region ∧ obj = newRegion + (ptr - region) ∧ (ptr - region) + min oldSize newSize ≤ min oldRegionSize R ∧
      newRegion + beSizeofMemRegion ≤ fb ∧ fb + beSizeofLargeMemoryBlock + beSizeofLargeObjectHdr ≤ obj ∧ obj + newSize ≤ fb + A ∧
      fb + A + beSizeofLastFreeBlock ≤ newRegion + R) ∧
    (∀ b len, (b + len ≤ newRegion ∨ newRegion + R ≤ b) → (b + len ≤ fb ∨ fb + A + beSizeofLastFreeBlock ≤ b)) := by
  intro u A R fb obj
  have h : u = ptr - region ∧ obj = newRegion + (ptr - region) ∧ (ptr - region) + min oldSize newSize ≤ min oldRegionSize R ∧
      newRegion + beSizeofMemRegion ≤ fb ∧ fb + beSizeofLargeMemoryBlock + beSizeofLargeObjectHdr ≤ obj ∧ obj + newSize ≤ fb + A ∧
      fb + A + beSizeofLastFreeBlock ≤ newRegion + R :=
    remap_arith ptr region newRegion oldSize newSize alignment k oldRegionSize hk7 hk hnr hnr2 hlo hoff hp hsz hold
  refine ⟨h, ?_⟩
  obtain ⟨_, _, _, h4, _, _, h7⟩ := h
  intro b len hd
  generalize fb = fb' at *
  generalize A = A' at *
  generalize R = R' at *
  simp only [beSizeofMemRegion, beSizeofLastFreeBlock] at *
  rcases hd with hd | hd
  · left; omega
  · right; omega

/-- **`scalable_calloc` zero-fills on every path** (statement skeleton regenerated from the source): whatever the
size, a non-null result has been through `memset(result, 0, nobj*size)`. -/
theorem calloc_zero_fill_unconditional (arraySize : Nat) : callocMemsetG arraySize = true := calloc_memset_gen arraySize

/-! Non-vacuity: the invariant is satisfied by non-trivial states, the machine does things. -/
/-- (a state the real back end was observed in: a 2 MB slab region after `getSlabBlock(1)`) -/
example : WF ⟨{ cfg := ⟨false, false, 4096⟩, bins := [⟨true, 250, 1073741864⟩], mask := [(true, 250)] },
    [{ base := 1073741824, allocSz := 2097152, blockSz := 2080728, type := 0, first := 1073741864,
       blocks := [{ size := 2064344, own := .free, myL := 2064344, leftL := 0, myBin := 250, aligned := true },
                  { size := 16384, own := .user true, myL := 0, leftL := 2064344 },
                  { size := 64, own := .last, myL := 2, leftL := 0 }] }]⟩ := by decide
example : sizeToBin 8191 = -1 ∧ sizeToBin 8192 = 0 ∧ sizeToBin 16383 = 0 ∧ sizeToBin 16384 = 1 ∧ sizeToBin 4194303 = 510 ∧
    sizeToBin 4194304 = 511 ∧ sizeToBin (2 ^ 63) = 511 := by decide
example : fitGeneral 16384 16384 = true ∧ fitGeneral 16400 16384 = false ∧ fitGeneral 16440 16384 = true := by decide

end Backend

/-! ## The guarded-size locking protocol at atomic-access level — model `Model/C17Coal.lean` -/

section GuardedSize
open TbbVerif.C17.Coal
open TbbVerif.Generated.C17Backend

theorem won_holds (b : Bool) (t : Th) (h : t.pc.isWon = true) : holdsW b t = true := by
  unfold holdsW
  cases hp : t.pc <;> rw [hp] at h <;> simp_all [Pc.isWon, Pc.holdsFirst]

/-- **Two threads never merge — or take — the same block.**  A free block of any size `sz` (above the special values
of `GuardedSize`), any number of getters (`tryLockBlock`), of threads freeing its right neighbour and of threads freeing
its left neighbour (`doCoalesc`), one atomic access (load, compare-exchange, store) at a time under ANY schedule: at
most one of them ever holds both tag words, i.e. gets the block. -/
theorem guarded_size_exclusive (sz : Nat) (hsz : gsMaxLockedVal < sz) (kinds : List Kind) (sched : List Tid) :
    ((sys sz kinds).run sched).winners ≤ 1 := by
  have hi := (inv_run sz hsz kinds sched).w true
  have hle : ((sys sz kinds).run sched).winners ≤ ((sys sz kinds).run sched).ths.countP (holdsW true) :=
    List.countP_mono_left (fun t _ h => won_holds true t h)
  rcases hi with ⟨_, h1⟩ | ⟨_, h0⟩ <;> omega

/-- **A block being coalesced is never handed out** (and a block handed out is not being coalesced): in every
reachable state each of the two tag words is held by at most one thread, and whoever has won the block holds both —
so while a getter has the block no coalescer holds (has marked COAL_BLOCK) either word, and while a coalescer holds a
word no getter can have won. -/
theorem backend_no_handout_while_coalescing (sz : Nat) (hsz : gsMaxLockedVal < sz) (kinds : List Kind) (sched : List Tid) :
    let s := (sys sz kinds).run sched
    s.ths.countP Th.holdsMy ≤ 1 ∧ s.ths.countP Th.holdsLf ≤ 1 ∧
    (∀ t ∈ s.ths, t.pc.isWon = true → t.holdsMy = true ∧ t.holdsLf = true) := by
  intro s
  have hi : Inv sz s := inv_run sz hsz kinds sched
  have e1 : s.ths.countP Th.holdsMy = s.ths.countP (holdsW true) := by congr 1; funext t; exact holdsMy_eq t
  have e2 : s.ths.countP Th.holdsLf = s.ths.countP (holdsW false) := by congr 1; funext t; exact holdsLf_eq t
  refine ⟨?_, ?_, fun t _ h => ⟨by rw [holdsMy_eq]; exact won_holds true t h, by rw [holdsLf_eq]; exact won_holds false t h⟩⟩
  · rw [e1]; rcases hi.w true with ⟨_, h⟩ | ⟨_, h⟩ <;> omega
  · rw [e2]; rcases hi.w false with ⟨_, h⟩ | ⟨_, h⟩ <;> omega

/-- **Losers leave the block as they found it**: whenever nobody holds a tag word it carries the block's size again
(every failed `tryLock` pair has rolled its first word back with the value it had read), so the block stays available
— with consistent boundary tags — to the next getter or coalescer. -/
theorem guarded_size_tags_restored (sz : Nat) (hsz : gsMaxLockedVal < sz) (kinds : List Kind) (sched : List Tid) :
    let s := (sys sz kinds).run sched
    (s.ths.countP Th.holdsMy = 0 → s.my = sz) ∧ (s.ths.countP Th.holdsLf = 0 → s.lf = sz) := by
  intro s
  have hi : Inv sz s := inv_run sz hsz kinds sched
  have e1 : s.ths.countP Th.holdsMy = s.ths.countP (holdsW true) := by congr 1; funext t; exact holdsMy_eq t
  have e2 : s.ths.countP Th.holdsLf = s.ths.countP (holdsW false) := by congr 1; funext t; exact holdsLf_eq t
  have w1 : s.word true = s.my := rfl
  have w2 : s.word false = s.lf := rfl
  constructor
  · intro h0; rw [e1] at h0
    rcases hi.w true with ⟨_, h⟩ | ⟨h, _⟩
    · omega
    · rw [← w1]; exact h
  · intro h0; rw [e2] at h0
    rcases hi.w false with ⟨_, h⟩ | ⟨h, _⟩
    · omega
    · rw [← w2]; exact h

/-! Non-vacuity: a getter and the thread freeing the right neighbour race for a 16 KB block.  Opposite acquisition
orders: in the first schedule each takes its first word, both fail on the second, both roll back (nobody wins, tags
restored); in the second the getter wins and the coalescer gives up. -/
example :
    let r := (sys 16384 [.getter, .coalRight]).run [0, 1, 0, 1, 0, 1, 0, 1, 0, 1]
    r.winners = 0 ∧ r.my = 16384 ∧ r.lf = 16384 ∧ r.ths.map (·.pc) = [.lost, .lost] := by decide
example :
    let r := (sys 16384 [.getter, .coalRight]).run [0, 0, 0, 0, 1, 1]
    r.winners = 1 ∧ r.my = gsLocked ∧ r.lf = gsLocked ∧ r.ths.map (·.pc) = [.won, .lost] := by decide

end GuardedSize

/-! ## Back-reference table (`src/tbbmalloc/backref.cpp`)

Model: `Model/C17Backref.lean` (one step per `newBackRef` / `setBackRef` / `removeBackRef`; `getBackRef` reads one word).
`tabInv`: no `bad` (the code never handed out / followed a word that is not a slot of the leaf), at most `dataSz` leaves,
per leaf the free list threaded through the slot words matches the ghost list of free offsets, the bump pointer and
`allocatedCount` account for every slot, never-used slots are zero. -/
section Backref
open TbbVerif.C17.BR
open TbbVerif.Generated.C17Backend

/-- The table invariant holds after every sequence of operations (for every answer of the raw-memory allocator). -/
theorem backref_table_invariant (mainAddr : Nat) (ops : List BR.Op) : tabInv ((BR.machine mainAddr).run ops).1 :=
  BR.inv_run mainAddr ops

/-- **Live indices are distinct.**  The index `newBackRef` returns was not live, is live afterwards and carries the
requested kind; every index that was live names a different slot, stays live and keeps its pointer. -/
theorem backref_new_index_is_fresh (t : Tab) (hi : tabInv t) (large : Bool) (raws : List (Option Nat)) (t' : Tab) (i : Idx) (u : Nat)
    (h : newBackRef t large raws = (t', some i, u)) :
    tabInv t' ∧ t.live i = false ∧ t'.live i = true ∧ i.large = large ∧
    ∀ j : Idx, t.live j = true → (j.main ≠ i.main ∨ j.off ≠ i.off) ∧ t'.live j = true ∧ getBackRef t' j = getBackRef t j := by
  have hp := newBackRef_ok t large raws hi
  rw [h] at hp
  obtain ⟨p1, p2, q1, q2, q3, q4⟩ := hp
  refine ⟨p1, q1, q2, q3, fun j hj => ?_⟩
  have hne : j.main ≠ i.main ∨ j.off ≠ i.off := by
    by_cases e1 : j.main = i.main
    · by_cases e2 : j.off = i.off
      · exfalso
        have : t.live j = t.live i := by unfold Tab.live; rw [e1, e2]
        rw [this, q1] at hj; cases hj
      · exact Or.inr e2
    · exact Or.inl e1
  exact ⟨hne, by rw [q4 j hne]; exact hj, p2 j⟩

/-- A failed `newBackRef` changes nothing an index holder can see. -/
theorem backref_new_failure_is_silent (t : Tab) (hi : tabInv t) (large : Bool) (raws : List (Option Nat)) (t' : Tab) (u : Nat)
    (h : newBackRef t large raws = (t', none, u)) :
    tabInv t' ∧ ∀ j : Idx, t'.live j = t.live j ∧ getBackRef t' j = getBackRef t j := by
  have hp := newBackRef_ok t large raws hi
  rw [h] at hp
  exact ⟨hp.1, fun j => ⟨hp.2.2 j, hp.2.1 j⟩⟩

/-- **A live index names exactly one pointer.**  `getBackRef` after `setBackRef(i, v)` returns `v`; no other index sees a
change. -/
theorem backref_set_then_get (t : Tab) (hi : tabInv t) (i : Idx) (v : Nat) (hl : t.live i = true) :
    ∃ t', setBackRef t i v = some t' ∧ tabInv t' ∧ getBackRef t' i = v ∧ (∀ j, t'.live j = t.live j) ∧
      ∀ j : Idx, (j.main ≠ i.main ∨ j.off ≠ i.off) → getBackRef t' j = getBackRef t j := by
  obtain ⟨t', a, b, c, d, e⟩ := setBackRef_spec t i v hi hl
  exact ⟨t', a, b, d, c, e⟩

/-- `removeBackRef(i)` ends the life of `i` and of nothing else; the other indices keep their pointers. -/
theorem backref_remove_only_its_slot (t : Tab) (hi : tabInv t) (i : Idx) (hl : t.live i = true) :
    ∃ t', removeBackRef t i = some t' ∧ tabInv t' ∧ t'.live i = false ∧
      ∀ j : Idx, (j.main ≠ i.main ∨ j.off ≠ i.off) → t'.live j = t.live j ∧ getBackRef t' j = getBackRef t j :=
  removeBackRef_spec t i hi hl

/-- the operation is not `setBackRef` / `removeBackRef` of the slot `i` -/
def notAbout (i : Idx) : BR.Op → Prop
  | .new _ _ => True
  | .set j _ => j.main ≠ i.main ∨ j.off ≠ i.off
  | .rm j => j.main ≠ i.main ∨ j.off ≠ i.off

/-- **A live index keeps its pointer** through every operation that is not about it (including allocation of new indices,
growth of the table, and operations on stale / foreign indices, which the model ignores). -/
theorem backref_live_index_keeps_pointer (t : Tab) (hi : tabInv t) (i : Idx) (hl : t.live i = true) (op : BR.Op) (hn : notAbout i op) :
    (BR.step t op).1.live i = true ∧ getBackRef (BR.step t op).1 i = getBackRef t i := by
  have hsym : ∀ j : Idx, (j.main ≠ i.main ∨ j.off ≠ i.off) → (i.main ≠ j.main ∨ i.off ≠ j.off) := fun j h => by
    rcases h with h | h
    · exact Or.inl (fun e => h e.symm)
    · exact Or.inr (fun e => h e.symm)
  cases op with
  | new large raws =>
    have hp := newBackRef_ok t large raws hi
    simp only [BR.step]
    generalize newBackRef t large raws = r at hp
    obtain ⟨t', r2, u⟩ := r
    obtain ⟨p1, p2, p3⟩ := hp
    refine ⟨?_, p2 i⟩
    cases r2 with
    | none => show t'.live i = true; rw [p3 i]; exact hl
    | some k =>
      obtain ⟨q1, q2, q3, q4⟩ := p3
      show t'.live i = true
      have hne : i.main ≠ k.main ∨ i.off ≠ k.off := by
        by_cases e1 : i.main = k.main
        · by_cases e2 : i.off = k.off
          · exfalso
            have : t.live i = t.live k := by unfold Tab.live; rw [e1, e2]
            rw [this] at hl; rw [hl] at q1; cases q1
          · exact Or.inr e2
        · exact Or.inl e1
      rw [q4 i hne]; exact hl
  | set j v =>
    simp only [BR.step]
    cases hs : setBackRef t j v with
    | none => exact ⟨hl, rfl⟩
    | some t' =>
      have hlj : t.live j = true := by
        unfold setBackRef at hs
        cases h : t.live j with
        | true => rfl
        | false => rw [h] at hs; cases hs
      obtain ⟨t'', e, _, c, _, f⟩ := setBackRef_spec t j v hi hlj
      rw [hs] at e; cases e
      exact ⟨by show t'.live i = true; rw [c i]; exact hl, f i (hsym j hn)⟩
  | rm j =>
    simp only [BR.step]
    cases hs : removeBackRef t j with
    | none => exact ⟨hl, rfl⟩
    | some t' =>
      have hlj : t.live j = true := by
        unfold removeBackRef at hs
        cases h : t.live j with
        | true => rfl
        | false => rw [h] at hs; cases hs
      obtain ⟨t'', e, _, _, f⟩ := removeBackRef_spec t j hi hlj
      rw [hs] at e; cases e
      obtain ⟨f1, f2⟩ := f i (hsym j hn)
      exact ⟨by show t'.live i = true; rw [f1]; exact hl, f2⟩

/-- **`getBackRef` of a garbage index never reads outside the table.**  For EVERY bit pattern of a `BackRefIdx` (32-bit
`main`, 15-bit `offset`) the bounds test AS CODED (regenerated from backref.cpp every run) either rejects, or the one word
that is read is word `b/8` of a registered leaf `n ≤ lastUsed`: inside `backRefBl[0..dataSz)` and inside the leaf's 16 KB,
behind its header. -/
theorem backref_get_stays_in_table (t : Tab) (hi : tabInv t) (i : Idx) (hm : i.main < 2 ^ 32) (ho : i.off < 2 ^ 15) :
    (getBackRefRejectG t.lastUsed i.main i.off = true → getBackRefAccess t i = none ∧ getBackRef t i = 0) ∧
    ∀ n b, getBackRefAccess t i = some (n, b) →
      getBackRefRejectG t.lastUsed i.main i.off = false ∧ n < t.leaves.length ∧ n < brDataSz ∧
      brSizeofBackRefBlock ≤ b ∧ b + 8 ≤ brBlockBytes ∧ b % 8 = 0 := by
  rw [BE.getBackRefReject_gen t.lastUsed i.main i.off hm ho]
  refine ⟨fun hr => ?_, fun n b h => ?_⟩
  · have : getBackRefAccess t i = none := by unfold getBackRefAccess; rw [hr]; rfl
    refine ⟨this, ?_⟩
    unfold getBackRef; rw [this]
  · obtain ⟨a1, a2, a3⟩ := getBackRefAccess_in_table t i n b h
    have hc : brSizeofBackRefBlock + brMaxCnt * 8 ≤ brBlockBytes := by decide
    have hle := hi.2.1
    unfold getBackRefAccess at h
    split at h
    · cases h
    · rename_i hrej
      cases h
      refine ⟨by simpa using hrej, a1, by omega, a2, by omega, ?_⟩
      simp only [brSizeofBackRefBlock]; omega

/-- **`recognize_sound` (large objects).**  If `isLargeObject<ourMem>(p)` answers yes, then `p` is 64-byte aligned and the
index found in the word in front of `p` is LIVE, of the large kind, and its slot holds exactly the address of that header.
(Hypothesis: the header address is not the address of a slot of the table itself — object memory and table memory are
disjoint, which the back-end theorems give.)  Free and never-used slots hold null or a table address, so a stale index
cannot make a foreign or freed pointer pass. -/
theorem recognize_sound (t : Tab) (hi : tabInv t) (m : Mem) (p : Nat)
    (hfor : ∀ l ∈ t.leaves, ∀ o, o < brMaxCnt → slotAddr l.base o ≠ p - beSizeofLargeObjectHdr)
    (h : isLargeObject t m p = true) :
    p % beLargeObjectAlignment = 0 ∧ (m.hdr (p - beSizeofLargeObjectHdr)).2.large = true ∧
    t.live (m.hdr (p - beSizeofLargeObjectHdr)).2 = true ∧
    getBackRef t (m.hdr (p - beSizeofLargeObjectHdr)).2 = p - beSizeofLargeObjectHdr := by
  unfold isLargeObject at h
  simp only [Bool.and_eq_true, beq_iff_eq, decide_eq_true_eq, bne_iff_ne, ne_eq] at h
  obtain ⟨h1, ⟨⟨⟨h2, h3⟩, h4⟩, h5⟩⟩ := h
  refine ⟨h1, h2, ?_, h5⟩
  exact getBackRef_live_of_foreign t hi _ _ h5 (by omega) hfor

/-- **`recognize_sound` (slab blocks).**  If `isSmallObject(p)` answers yes for a pointer whose slab base is not null and
not a table address, the index in the slab header is live and its slot holds the slab's address. -/
theorem recognize_small_sound (t : Tab) (hi : tabInv t) (m : Mem) (p : Nat) (h0 : p / beSlabSize * beSlabSize ≠ 0)
    (hfor : ∀ l ∈ t.leaves, ∀ o, o < brMaxCnt → slotAddr l.base o ≠ p / beSlabSize * beSlabSize)
    (h : isSmallObject t m p = true) :
    t.live (m.slabIdx (p / beSlabSize * beSlabSize)) = true ∧
    getBackRef t (m.slabIdx (p / beSlabSize * beSlabSize)) = p / beSlabSize * beSlabSize := by
  unfold isSmallObject at h
  simp only [beq_iff_eq] at h
  exact ⟨getBackRef_live_of_foreign t hi _ _ h h0 hfor, h⟩

/-- two pointers recognised through the table with different header addresses were recognised through different slots -/
theorem backref_distinct_pointers_distinct_slots (t : Tab) (i j : Idx) (h : getBackRef t i ≠ getBackRef t j) :
    i.main ≠ j.main ∨ i.off ≠ j.off := by
  by_cases e1 : i.main = j.main
  · by_cases e2 : i.off = j.off
    · exfalso; apply h
      unfold getBackRef getBackRefAccess
      rw [e1, e2]
    · exact Or.inr e2
  · exact Or.inl e1

/-! Non-vacuity: on the initial table the first index is (leaf 0, last slot); it is live, holds what was stored, a second
`newBackRef` gives the slot below, and after `removeBackRef` the slot holds the (null) free-list link, not the pointer. -/
example :
    let t0 := BR.initTab 1000
    let r1 := newBackRef t0 true []
    r1.2.1 = some ⟨0, brMaxCnt - 1, true⟩ ∧ t0.live ⟨0, brMaxCnt - 1, true⟩ = false ∧ r1.1.live ⟨0, brMaxCnt - 1, true⟩ = true := by
  decide

end Backref

end TbbVerif.C17
