/-
C08 — property theorems for the mutex protocols (statements only; lemmas in Proofs/C08*.lean).

All theorems quantify over EVERY set of thread programs (any number of threads, any operation sequences) and EVERY
schedule `sched : List Tid` of the atomic-access-level models, i.e. every sequentially consistent interleaving of the
accesses, unless stated otherwise:
  spin_rw_mutex, spin_mutex   Model/C08.lean   (`cnt ph ths` = number of threads in ghost phase `ph`)
  queuing_mutex               Model/C08Q.lean  `Mcs`     (ghost queue appended at the q_tail exchange, popped at the hand-off)
  queuing_rw_mutex            Model/C08Q.lean  `QRwSpec` — SPECIFICATION machine only (the node protocol is not modelled)
  mutex, rw_mutex             Model/C08S.lean  `Slp.Mx`, `Slp.Rw`: word protocol + sleep/wake hand-shake through the
                              address_waiter monitor (its linearisation points), any spin budget, any peek-oracle bits
  rw_orders_publish           over the memory-order table regenerated from the E-SHIM traces (Generated/C08.lean)
All theorems live directly in namespace TbbVerif.C08 (the audit reads the `theorem`s of this file under that name).
-/
import TbbVerif.Proofs.C08
import TbbVerif.Proofs.C08Spin
import TbbVerif.Proofs.C08Q
import TbbVerif.Proofs.C08QRw
import TbbVerif.Proofs.C08SMx
import TbbVerif.Proofs.C08SRwF
import TbbVerif.Proofs.C08R
import TbbVerif.Proofs.C08N.Thm
import TbbVerif.Generated.C08

namespace TbbVerif.C08

/-- The state-word layout the model assumes is the one the headers define (regenerated on every run). -/
theorem word_layout :
    Generated.C08.spinWriter = 1 ∧ Generated.C08.spinWriterPending = 2 ∧ Generated.C08.spinOneReader = 4 ∧
    Generated.C08.spinReadersMaskLow = 252 ∧ Generated.C08.spinBusyLow = 253 := by decide

/-! ### spin_rw_mutex -/

/-- **Mutual exclusion / reader-writer rule.** In every reachable state at most one thread holds the lock as
writer, and while a writer holds it no thread holds it as reader. -/
theorem rw_excl (progs : List (List Op)) (sched : List Tid)
    (st : St) (hst : st = (sys progs).run sched) :
    cnt .holdW st.ths ≤ 1 ∧ (0 < cnt .holdW st.ths → cnt .holdR st.ths = 0) := by
  subst hst
  have h := inv_reachable progs sched
  refine ⟨?_, fun hw => h.hx (by omega)⟩
  have := h.hw
  split at this <;> omega

/-- While any thread holds a shared lock, or is in the middle of an in-place upgrade, no thread is a writer. -/
theorem rw_no_writer_while_shared (progs : List (List Op)) (sched : List Tid)
    (st : St) (hst : st = (sys progs).run sched) :
    0 < cnt .holdR st.ths + cnt .upgWait st.ths + cnt .upgReady st.ths → cnt .holdW st.ths = 0 := by
  subst hst
  intro hpos
  have h := inv_reachable progs sched
  have hw := h.hw
  have hx := h.hx
  by_cases hq : 0 < cnt .holdW ((sys progs).run sched).ths
  · have := hx (by omega)
    split at hw <;> omega
  · omega

/-- The reader field of the word always equals the number of threads that currently own a reader unit
(holders, transient increments that will be undone, and in-place upgraders); the WRITER bit is set iff some
thread is the writer or an in-place upgrader; the code's field arithmetic never borrows across bit fields. -/
theorem rw_word_consistent (progs : List (List Op)) (sched : List Tid)
    (st : St) (hst : st = (sys progs).run sched) :
    st.word.r = cnt .rt st.ths + cnt .holdR st.ths + cnt .upgWait st.ths + cnt .upgReady st.ths ∧
    cnt .holdW st.ths + cnt .upgWait st.ths + cnt .upgReady st.ths = (if st.word.w then 1 else 0) ∧
    st.bad = false := by
  subst hst
  have h := inv_reachable progs sched
  exact ⟨h.hr, h.hw, h.hbad⟩

/-- **try_lock is truthful and wait-free**: it reports success exactly on the access that takes the lock
(the word then had no writer and no readers), a failure leaves the word untouched, and it finishes within two
accesses of its own whatever the other threads do. -/
theorem rw_try_lock_truthful (s : Word) (t : Th) (rest : List Op) (hops : t.ops = .tryLock :: rest)
    (hwf : Wf t) (hidle : t.phase = .idle) :
    let o := stepTh s t
    (o.2.2.1.results = 1 :: t.results → o.2.2.1.phase = .holdW ∧ s.w = false ∧ s.r = 0 ∧ o.1 = { w := true, p := false, r := 0 }) ∧
    (o.2.2.1.results = 0 :: t.results → o.1 = s ∧ o.2.2.1.phase = .idle) ∧
    (o.2.2.1.ops = rest ∨ (o.2.2.1.pc = .lockCas ∧ o.2.2.1.ops = t.ops ∧ ∀ s2, (stepTh s2 o.2.2.1).2.2.1.ops = rest)) := by
  obtain ⟨w1, w2, w3, w4⟩ := hwf
  rw [hops] at w4
  have hg : ¬(t.pc = .start ∧ t.phase ≠ Op.pre .tryLock) := by simp [Op.pre, hidle]
  simp only [stepTh, hops, hg, ite_false, stepOp]
  rcases w4 with h | ⟨h, _, hsv⟩
  · unfold stepTryLock
    rw [h]; dsimp only
    split
    · refine ⟨by simp, by simp, Or.inr ⟨rfl, by simp [hops], ?_⟩⟩
      intro s2
      simp only [stepTh, hops, stepOp, stepTryLock]
      simp [Th.done, Op.pre, hidle]
      split <;> simp [Th.done, hops]
    · simp [Th.done, hops, hidle]
  · unfold stepTryLock
    rw [h]; dsimp only
    split
    · rename_i he
      have := sv0_word s t hsv he
      simp [Th.done, hops, this.1, this.2]
    · simp [Th.done, hops, hidle]

/-- **Truthful upgrade (1)**: `upgrade` reports `true` only from the in-place path (`slow = false`, phase
`upgReady`), and reports `false` only from the release-and-reacquire path (`slow = true`). -/
theorem rw_upgrade_result (s : Word) (t : Th) (rest : List Op) (hops : t.ops = .upgrade :: rest) (hwf : Wf t)
    (hg : ¬(t.pc = .start ∧ t.phase ≠ .holdR)) :
    let o := stepTh s t
    (o.2.2.1.results = 1 :: t.results → t.slow = false ∧ t.phase = .upgReady ∧ o.2.2.1.phase = .holdW) ∧
    (o.2.2.1.results = 0 :: t.results → t.slow = true ∧ o.2.2.1.phase = .holdW) := by
  obtain ⟨w1, w2, w3, w4⟩ := hwf
  rw [hops] at w4
  have hg' : ¬(t.pc = .start ∧ t.phase ≠ Op.pre .upgrade) := by simpa [Op.pre] using hg
  simp only [stepTh, hops, hg', ite_false, stepOp]
  have nores : ∀ (x : Th) (v : Nat), x.results = t.results → ¬ (x.results = v :: t.results) := by
    intro x v hx hc; rw [hx] at hc; exact absurd hc (by simp)
  rcases w4 with h | ⟨h, hph, hsl, hc, he⟩ | ⟨h, hph, hsl⟩ | ⟨h, hph, hsl⟩ | ⟨h, hph, hsl⟩ | ⟨h, hph, hsl⟩ | ⟨h, hph, hsl⟩ | ⟨h, hph, hsl, hsv⟩
  · unfold stepUpgrade; rw [h]; dsimp only
    split <;> exact ⟨fun hh => absurd hh (nores _ _ rfl), fun hh => absurd hh (nores _ _ rfl)⟩
  · unfold stepUpgrade; rw [h]; dsimp only
    split
    · exact ⟨fun hh => absurd hh (nores _ _ rfl), fun hh => absurd hh (nores _ _ rfl)⟩
    · split <;> exact ⟨fun hh => absurd hh (nores _ _ rfl), fun hh => absurd hh (nores _ _ rfl)⟩
  · unfold stepUpgrade; rw [h]; dsimp only
    split <;> exact ⟨fun hh => absurd hh (nores _ _ rfl), fun hh => absurd hh (nores _ _ rfl)⟩
  · unfold stepUpgrade; rw [h]; dsimp only
    simp [Th.done, hsl, hph]
  · unfold stepUpgrade; rw [h]; dsimp only
    exact ⟨fun hh => absurd hh (nores _ _ rfl), fun hh => absurd hh (nores _ _ rfl)⟩
  · unfold stepUpgrade lockBody; rw [h]; dsimp only
    simp only [ite_true]
    split
    · exact ⟨fun hh => absurd hh (nores _ _ rfl), fun hh => absurd hh (nores _ _ rfl)⟩
    · split <;> exact ⟨fun hh => absurd hh (nores _ _ rfl), fun hh => absurd hh (nores _ _ rfl)⟩
  · unfold stepUpgrade lockBody; rw [h]; dsimp only
    simp only [show (Pc.lockOr = Pc.upgSlowLock) = False by simp, ite_false]
    exact ⟨fun hh => absurd hh (nores _ _ rfl), fun hh => absurd hh (nores _ _ rfl)⟩
  · unfold stepUpgrade lockBody; rw [h]; dsimp only
    simp only [show (Pc.lockCas = Pc.upgSlowLock) = False by simp, ite_false]
    split
    · simp [Th.done, hsl]
    · exact ⟨fun hh => absurd hh (nores _ _ rfl), fun hh => absurd hh (nores _ _ rfl)⟩

/-- **Truthful upgrade (2)**: in every reachable state, a thread inside `upgrade` that has not entered the slow
path still owns its reader unit (it is a holder, or an in-place upgrader) — so by `rw_no_writer_while_shared`
no other thread can have been a writer between the call and a `true` return. -/
theorem rw_upgrade_fast_path_holds (progs : List (List Op)) (sched : List Tid) (tid : Nat) (t : Th) (rest : List Op)
    (st : St) (hst : st = (sys progs).run sched) :
    st.ths[tid]? = some t → t.ops = .upgrade :: rest → t.pc ≠ .start → t.slow = false →
    (t.phase = .holdR ∨ t.phase = .upgWait ∨ t.phase = .upgReady) ∧ cnt .holdW st.ths = 0 := by
  subst hst
  intro hget hops hpc hsl
  have h := inv_reachable progs sched
  obtain ⟨w1, w2, w3, w4⟩ := h.hwf tid t hget
  rw [hops] at w4
  have hph : t.phase = .holdR ∨ t.phase = .upgWait ∨ t.phase = .upgReady := by
    rcases w4 with h | ⟨_, hph, _⟩ | ⟨_, hph, _⟩ | ⟨_, hph, _⟩ | ⟨_, _, hs⟩ | ⟨_, _, hs⟩ | ⟨_, _, hs⟩ | ⟨_, _, hs, _⟩
    · exact absurd h hpc
    · exact Or.inl hph
    · exact Or.inr (Or.inl hph)
    · exact Or.inr (Or.inr hph)
    all_goals (rw [hsl] at hs; cases hs)
  refine ⟨hph, rw_no_writer_while_shared progs sched _ rfl ?_⟩
  rcases hph with hp | hp | hp
  · have := cnt_pos_of_mem .holdR _ tid t hget hp; omega
  · have := cnt_pos_of_mem .upgWait _ tid t hget hp; omega
  · have := cnt_pos_of_mem .upgReady _ tid t hget hp; omega

/-- **downgrade never lets a writer in**: it is a single atomic access that turns the writer into a reader
(there is no intermediate state in which the lock is free). -/
theorem rw_downgrade_atomic (s : Word) (t : Th) (rest : List Op) (hops : t.ops = .downgrade :: rest)
    (hpc : t.pc = .start) (hph : t.phase = .holdW) :
    let o := stepTh s t
    o.1 = { s with w := false, r := s.r + 1 } ∧ o.2.2.1.phase = .holdR ∧ o.2.2.1.ops = rest := by
  simp [stepTh, hops, hpc, hph, Op.pre, stepOp, stepDowngrade, Th.done]

/-- **No lost grant.** In every reachable state in which nobody holds the lock and nobody is in the middle of
an acquisition step, the word shows the lock free (no WRITER bit, no readers), and the WRITER_PENDING hint can
only be set if some thread is actually inside `lock()` — so a reader is never kept out by a stale hint. -/
theorem rw_no_lost_grant (progs : List (List Op)) (sched : List Tid)
    (st : St) (hst : st = (sys progs).run sched) :
    cnt .holdW st.ths = 0 → cnt .holdR st.ths = 0 → cnt .rt st.ths = 0 → cnt .upgWait st.ths = 0 → cnt .upgReady st.ths = 0 →
    st.word.w = false ∧ st.word.r = 0 ∧ (st.word.p = true → 0 < nLock st.ths) := by
  subst hst
  intro a b c d e
  have h := inv_reachable progs sched
  refine ⟨?_, by have := h.hr; omega, fun hp => by have := h.hl hp; omega⟩
  have := h.hw
  cases hw : ((sys progs).run sched).word.w
  · rfl
  · rw [hw] at this; simp at this; omega

/-- … and a thread waiting in `lock()` does take a free lock with its next two accesses if it runs undisturbed
(load sees "not busy", the CAS against the same word succeeds). -/
theorem rw_lock_acquires_when_free (s : Word) (t : Th) (rest : List Op) (hops : t.ops = .lock :: rest)
    (hpc : t.pc = .start) (hph : t.phase = .idle) (hw : s.w = false) (hr : s.r = 0) :
    let o1 := stepTh s t
    let o2 := stepTh o1.1 o1.2.2.1
    o1.1 = s ∧ o2.2.2.1.phase = .holdW ∧ o2.1 = { w := true, p := false, r := 0 } := by
  have hb : busy s = false := by simp [busy, hw, hr]
  simp [stepTh, hops, hpc, hph, Op.pre, stepOp, stepLock, lockBody, hb, Th.done]

/-- … and a thread waiting in `lock_shared()` takes a lock with no writer and no pending hint in two accesses. -/
theorem rw_lock_shared_acquires_when_free (s : Word) (t : Th) (rest : List Op) (hops : t.ops = .lockShared :: rest)
    (hpc : t.pc = .start) (hph : t.phase = .idle) (hw : s.w = false) (hp : s.p = false) :
    let o1 := stepTh s t
    let o2 := stepTh o1.1 o1.2.2.1
    o1.1 = s ∧ o2.2.2.1.phase = .holdR ∧ o2.1 = { s with r := s.r + 1 } := by
  simp [stepTh, hops, hpc, hph, Op.pre, stepOp, stepShared, hw, hp, Th.done]

/-! ### spin_mutex -/

/-- **Mutual exclusion of spin_mutex**: in every reachable state the number of holders is 1 if the flag is set
and 0 otherwise; in particular never two. -/
theorem spin_mutex_excl (progs : List (List SOp)) (sched : List Tid)
    (st : SSt) (hst : st = (ssys progs).run sched) :
    nHold st.ths = (if st.flag then 1 else 0) ∧ nHold st.ths ≤ 1 := by
  subst hst
  have h := (sinv_reachable progs sched).h
  refine ⟨h, ?_⟩
  split at h <;> omega

/-- try_lock on spin_mutex is one access; it reports success iff that access found the flag clear. -/
theorem spin_try_lock_truthful (f : Bool) (t : STh) (rest : List SOp) (hops : t.ops = .tryLock :: rest) :
    let o := sstepTh f t
    o.2.1.ops = rest ∧ (o.2.1.results = 1 :: t.results ↔ f = false) ∧ (f = false → o.2.1.holds = true) := by
  cases f <;> simp [sstepTh, hops]

/-! ### non-vacuity: concrete runs exercising the interesting paths -/

/-- two readers upgrade concurrently: one upgrades in place (true), the other releases and re-acquires (false) -/
example :
    let st := (sys [[.lockShared, .upgrade, .unlock], [.lockShared, .upgrade, .unlock]]).run
      [0, 0, 1, 1, 0, 0, 1, 1, 1, 0, 0, 0, 0, 1, 1, 1]
    st.word.enc = 0 ∧ st.bad = false ∧ (st.ths.map (·.results)) = [[1], [0]] := by decide

example :
    let st := (ssys [[.lock, .unlock], [.tryLock, .lock, .unlock]]).run [0, 1, 1, 0, 1, 1]
    st.flag = false ∧ (st.ths.map (·.results)) = [[], [0]] := by decide

/-! ## queuing_mutex (`Mcs`, Model/C08Q.lean): N threads, all schedules of the atomic accesses -/

open Mcs in
/-- **Mutual exclusion of queuing_mutex**: two threads that hold the lock are the same thread; the holder is the
head of the ghost queue (appended at the q_tail exchange / successful CAS, popped only at the hand-off). -/
theorem mcs_excl (progs : List (List Mcs.Op)) (sched : List Tid) (st : Mcs.St) (hst : st = (Mcs.sys progs).run sched) (t u : Tid) :
    ((st.th t).holds = true → (st.th u).holds = true → t = u) ∧
    ((st.th t).holds = true → st.queue.head? = some t) ∧ st.bad = false := by
  subst hst
  have h := Mcs.inv_reachable progs sched
  refine ⟨fun ht hu => ?_, fun ht => ?_, h.bad⟩
  · have a := Mcs.holder_head h t ht
    have b := Mcs.holder_head h u hu
    rw [a] at b; exact Option.some.inj b
  · rw [List.head?_eq_getElem?]; exact Mcs.holder_head h t ht

open Mcs in
/-- **FIFO**: the sequence of grants is a prefix of the sequence of q_tail exchanges (`enqLog`): the lock is granted
in exactly the order in which the requests entered the queue; the queue is the not-yet-served part of that order. -/
theorem mcs_fifo (progs : List (List Mcs.Op)) (sched : List Tid) (st : Mcs.St) (hst : st = (Mcs.sys progs).run sched) :
    st.enqLog = st.served ++ st.queue ∧ st.grantLog <+: st.enqLog ∧
    (∀ h r, st.queue = h :: r → st.grantLog = st.served ++ (if (st.th h).holds then [h] else [])) := by
  subst hst
  have h := Mcs.inv_reachable progs sched
  refine ⟨h.logE, ?_, ?_⟩
  · rw [h.logE, h.logG]
    cases hq : ((Mcs.sys progs).run sched).queue with
    | nil => simp
    | cons a r =>
      simp only
      split
      · exact ⟨r, by simp⟩
      · exact ⟨a :: r, by simp⟩
  · intro hd r hq
    rw [h.logG, hq]

open Mcs in
/-- **No lost hand-off.** In every reachable state with a non-empty queue the head `h` is
(a) the holder and not stuck (in its critical section, or progressing through release), or
(b) the holder waiting in release for the late successor link — then the second thread of the queue is exactly at
    the access `pred->m_next.store(this)` that ends this wait, or
(c) not yet holding but already granted (`m_going` set): its next load obtains the lock;
and every thread that waits (spinning on m_going or about to link) is in the queue. -/
theorem mcs_no_lost_handoff (progs : List (List Mcs.Op)) (sched : List Tid) (st : Mcs.St) (hst : st = (Mcs.sys progs).run sched)
    (h : Tid) (r : List Tid) (hq : st.queue = h :: r) :
    (((st.th h).holds = true ∧ ¬((st.th h).pc = .rSpin ∧ (st.th h).next = 0)) ∨
     ((st.th h).holds = true ∧ (st.th h).pc = .rSpin ∧ (st.th h).next = 0 ∧
        ∃ u r', r = u :: r' ∧ (st.th u).pc = .aLink ∧ (st.th u).pred = h + 1 ∧ ∃ o, (st.th u).ops = .acquire :: o) ∨
     ((st.th h).holds = false ∧ (st.th h).pc = .aSpin ∧ (st.th h).going ≠ 0 ∧ ∃ o, (st.th h).ops = .acquire :: o)) ∧
    (∀ w, ((st.th w).pc = .aSpin ∨ (st.th w).pc = .aLink) → w ∈ st.queue) := by
  have hi : Mcs.Inv st := hst ▸ Mcs.inv_reachable progs sched
  have h0 : st.queue[0]? = some h := by rw [hq]; rfl
  constructor
  · rcases hi.head h h0 with hh | ⟨hpc, hgo⟩
    · by_cases hs : (st.th h).pc = .rSpin ∧ (st.th h).next = 0
      · right; left
        refine ⟨hh, hs.1, hs.2, ?_⟩
        cases r with
        | nil =>
          exfalso
          -- h alone in the queue would mean q_tail = h+1, but a thread at rSpin has seen its CAS on q_tail fail
          have hl : st.queue[st.queue.length - 1]? = some h := by rw [hq]; rfl
          exact hi.spin h hs.1 (hi.tl1 h hl).1
        | cons u r' =>
          have h1 : st.queue[1]? = some u := by rw [hq]; rfl
          have hp := hi.pair 0 h u h0 h1
          rcases hp.2.2 with ⟨a, b, _⟩ | ⟨_, b⟩
          · exact ⟨u, r', rfl, a, b, (hi.wf u).opA (Or.inr (Or.inr (Or.inl a)))⟩
          · rw [hs.2] at b; cases b
      · left; exact ⟨hh, hs⟩
    · right; right
      have hnh : (st.th h).holds = false := Mcs.holds_false_of (hi.wf h) (by simp [hpc])
      exact ⟨hnh, hpc, hgo, (hi.wf h).opA (Or.inr (Or.inr (Or.inr hpc)))⟩
  · intro w hw
    have : Mcs.inQ (st.th w) := by
      rcases hw with a | a
      · exact Or.inr (Or.inr a)
      · exact Or.inr (Or.inl a)
    obtain ⟨i, hi'⟩ := (hi.mem w).mp this
    exact List.mem_of_getElem? hi'

open Mcs in
/-- **try_acquire is truthful and never blocks**: its CAS succeeds exactly when q_tail is null, i.e. (in a reachable
state) when nobody holds the lock or waits for it; then the caller is the holder.  A failed try changes nothing but
the caller's own record; the whole call is three accesses of its own (two node stores and the CAS). -/
theorem mcs_try_truthful (progs : List (List Mcs.Op)) (sched : List Tid) (st : Mcs.St) (hst : st = (Mcs.sys progs).run sched)
    (t : Tid) (rest : List Mcs.Op) (hops : (st.th t).ops = .tryAcquire :: rest) (hpc : (st.th t).pc = .tCas) :
    (st.tail = 0 ↔ st.queue = []) ∧
    (st.tail = 0 → ((Mcs.step st t).th t).results = 1 :: (st.th t).results ∧ ((Mcs.step st t).th t).holds = true ∧
        (∀ u, (st.th u).holds = false) ∧ (Mcs.step st t).queue = [t]) ∧
    (st.tail ≠ 0 → ((Mcs.step st t).th t).results = 0 :: (st.th t).results ∧ ((Mcs.step st t).th t).holds = false ∧
        (Mcs.step st t).tail = st.tail ∧ (Mcs.step st t).queue = st.queue ∧ ∀ u, u ≠ t → (Mcs.step st t).th u = st.th u) ∧
    ((Mcs.step st t).th t).ops = rest := by
  have hi : Mcs.Inv st := hst ▸ Mcs.inv_reachable progs sched
  have hz := Mcs.tail_zero_iff hi
  have hnh : (st.th t).holds = false := Mcs.holds_false_of (hi.wf t) (by simp [hpc])
  refine ⟨hz, ?_, ?_, ?_⟩
  · intro h0
    have hq := hz.mp h0
    simp [Mcs.step, Mcs.stepEv, hops, hpc, h0, Mcs.Th.done, hq]
    intro u
    cases hu : (st.th u).holds with
    | false => rfl
    | true => have := Mcs.holder_head hi u hu; rw [hq] at this; simp at this
  · intro h0
    simp [Mcs.step, Mcs.stepEv, hops, hpc, h0, Mcs.Th.done, hnh]
    intro u hu; simp [Mcs.upd, hu]
  · by_cases h0 : st.tail = 0 <;> simp [Mcs.step, Mcs.stepEv, hops, hpc, h0, Mcs.Th.done]

open Mcs in
/-- non-vacuity: two threads queue behind a holder; the hand-off order is the exchange order -/
example :
    let st := (Mcs.sys [[.acquire, .release], [.acquire, .release], [.tryAcquire, .acquire, .release]]).run
      [0, 0, 0, 2, 2, 2, 2, 2, 2, 1, 1, 1, 2, 1, 0, 0, 0, 2, 2, 2, 2, 1, 1, 1]
    st.enqLog = [0, 2, 1] ∧ st.grantLog = [0, 2, 1] ∧ st.queue = [] ∧ st.tail = 0 ∧ (st.th 2).results = [0] := by decide


/-! ## queuing_rw_mutex: the SPECIFICATION machine `QRwSpec` (Model/C08Q.lean) against which the implementation's
holder-bookkeeping event log is validated.  (The node protocol of queuing_rw_mutex.cpp itself is NOT modelled.) -/

open QRw in
/-- **Safety of the specification**: after any accepted event sequence there is at most one writer, and no reader
together with a writer. -/
theorem qrw_spec_safe (evs : List QRw.Ev) (s : QRw.St) (h : QRw.run {} evs = some s) :
    QRw.nW s ≤ 1 ∧ (0 < QRw.nW s → QRw.nR s = 0) :=
  QRw.good_counts s (QRw.good_run evs {} s (Or.inl (by simp)) h)

open QRw in
/-- **Queue order**: a blocking request is granted only if it is in the queue, no request that entered the queue
QRw.before it conflicts with it (`QRw.before t q` is the prefix of the queue in front of t's request), and it is compatible
with the current holders; the queue is appended at `enq` and an entry leaves it only by its own grant. -/
theorem qrw_spec_queue_order (s s' : QRw.St) (t : Tid) (m : QRw.Mode) (h : QRw.step s (.grant t m) = some s') :
    (t, m) ∈ s.queue ∧ (∀ e ∈ QRw.before t s.queue, QRw.conflict e.2 m = false) ∧ QRw.compat s.holders m = true ∧
    (∃ post, s.queue = QRw.before t s.queue ++ post ∧ ∀ e ∈ QRw.before t s.queue, e.1 ≠ t) ∧
    s'.queue = s.queue.erase (t, m) := by
  simp only [QRw.step] at h
  split at h
  · rename_i hc
    cases h
    simp at hc
    obtain ⟨post, h1, h2, _⟩ := QRw.before_prefix t s.queue
    refine ⟨hc.1.1, ?_, hc.2, ⟨post, h1, h2⟩, by simp [QRw.enter]⟩
    intro e he
    have := hc.1.2 e.1 e.2 he
    simpa using this
  · cases h

open QRw in
theorem qrw_spec_queue_only_grant_removes (s s' : QRw.St) (e : QRw.Ev) (h : QRw.step s e = some s') :
    s'.queue = s.queue ∨ (∃ t m, e = .enq t m ∧ s'.queue = s.queue ++ [(t, m)]) ∨ (∃ t m, e = .grant t m ∧ s'.queue = s.queue.erase (t, m)) := by
  cases e <;> simp only [QRw.step] at h <;> split at h <;> cases h <;> simp [QRw.enter]
  exact Or.inr ⟨_, _, ⟨rfl, rfl⟩, rfl⟩

open QRw in
/-- **Truthful upgrade**: if `upgrade_to_writer` of thread `u` is accepted with result `true`, then no writer entered
(no `grant W`, `tryOk W`, `upgEnd`) between its `upgBegin` and this point. -/
theorem qrw_spec_upgrade_truthful (pre mid : List QRw.Ev) (u : Tid) (s0 s : QRw.St)
    (h : QRw.run s0 (pre ++ [.upgBegin u] ++ mid ++ [.upgEnd u true]) = some s)
    (hmid : ∀ e ∈ mid, e ≠ .upgBegin u) : ∀ e ∈ mid, QRw.writerEntry e = false := by
  rw [QRw.run_append] at h
  cases h1 : QRw.run s0 (pre ++ [.upgBegin u] ++ mid) with
  | none => rw [h1] at h; simp at h
  | some s1 =>
    rw [h1] at h; simp [QRw.run] at h
    have hclean : (u, false) ∈ s1.upg := by
      cases h2 : QRw.step s1 (.upgEnd u true) with
      | none => rw [h2] at h; cases h
      | some s2 =>
        simp only [QRw.step] at h2
        split at h2
        · rename_i hc; simp at hc; exact hc.2
        · cases h2
    rw [QRw.run_append] at h1
    cases h3 : QRw.run s0 (pre ++ [.upgBegin u]) with
    | none => rw [h3] at h1; simp at h1
    | some s3 =>
      rw [h3] at h1; simp at h1
      exact (QRw.clean_run mid s3 s1 u h1 hclean hmid).2

open QRw in
/-- **downgrade never lets a writer in**: it is one event that turns the writer into a reader; no state between. -/
theorem qrw_spec_downgrade_atomic (s s' : QRw.St) (t : Tid) (h : QRw.step s (.downgrade t) = some s') :
    s.holders = [(t, .W)] ∧ s'.holders = [(t, .R)] ∧ s'.queue = s.queue := by
  simp only [QRw.step] at h
  split at h
  · rename_i hc; cases h; simp at hc; exact ⟨hc, rfl, rfl⟩
  · cases h

open QRw in
/-- non-vacuity: two readers, both upgrade; the winner gets `true`, the loser must get `false` (a `true` is rejected) -/
example :
    (QRw.run {} [.enq 0 .R, .grant 0 .R, .enq 1 .R, .grant 1 .R, .enq 2 .W, .upgBegin 0, .upgBegin 1, .upgEnd 0 true, .rel 0,
             .upgEnd 1 false, .rel 1, .grant 2 .W]).isSome = true ∧
    (QRw.run {} [.enq 0 .R, .grant 0 .R, .enq 1 .R, .grant 1 .R, .upgBegin 0, .upgBegin 1, .upgEnd 0 true, .rel 0,
             .upgEnd 1 true]).isSome = false ∧
    (QRw.run {} [.enq 0 .W, .enq 1 .R, .grant 1 .R]).isSome = false := by decide


/-! ## tbb::mutex (`Slp.Mx`, Model/C08S.lean): flag protocol + sleep/wake hand-shake, N threads, all schedules,
any spin budget, any peek-oracle bits -/

open Slp.Mx in
/-- **Mutual exclusion of tbb::mutex**: at most one holder; the flag is set iff somebody holds. -/
theorem mutex_excl (progs : List (List Slp.Mx.Op)) (orcs : List (List Bool)) (sm : Nat) (sched : List Tid)
    (st : Slp.Mx.St) (hst : st = (Slp.Mx.sys progs orcs sm).run sched) :
    (∀ t u, (st.th t).holds = true → (st.th u).holds = true → t = u) ∧
    (st.flag = true ↔ ∃ t, (st.th t).holds = true) := by
  have h : Slp.Mx.Inv st := hst ▸ Slp.Mx.inv_reachable progs orcs sm sched
  exact ⟨h.e.e1, h.e.e3, fun ⟨t, ht⟩ => h.e.e2 t ht⟩

open Slp.Mx in
/-- **try_lock is truthful and never blocks**: one load, and if that saw the flag clear one exchange; it reports
success exactly when its exchange found the flag clear (and then the caller holds), it never enters the wait. -/
theorem mutex_try_truthful (st : Slp.Mx.St) (t : Tid) (rest : List Slp.Mx.Op) (hops : (st.th t).ops = .tryLock :: rest)
    (hh : (st.th t).holds = false) :
    ((st.th t).pc = .start → st.flag = true → ((Slp.Mx.step st t).th t).ops = rest ∧ ((Slp.Mx.step st t).th t).results = 0 :: (st.th t).results ∧ (Slp.Mx.step st t).flag = true) ∧
    ((st.th t).pc = .start → st.flag = false → ((Slp.Mx.step st t).th t).pc = .xchg ∧ ((Slp.Mx.step st t).th t).ops = (st.th t).ops) ∧
    ((st.th t).pc = .xchg → ((Slp.Mx.step st t).th t).ops = rest ∧ (Slp.Mx.step st t).flag = true ∧
        (((Slp.Mx.step st t).th t).results = 1 :: (st.th t).results ↔ st.flag = false) ∧
        (st.flag = false → ((Slp.Mx.step st t).th t).holds = true)) := by
  refine ⟨fun hpc hf => ?_, fun hpc hf => ?_, fun hpc => ?_⟩
  · simp [Slp.Mx.step, Slp.Mx.stepEv, hops, hpc, hh, hf, Slp.Mx.Th.done]
  · simp [Slp.Mx.step, Slp.Mx.stepEv, hops, hpc, hh, hf]
  · cases hf : st.flag <;> simp [Slp.Mx.step, Slp.Mx.stepEv, hops, hpc, hf, Slp.Mx.Th.done]

open Slp.Mx in
/-- **No lost hand-off / no lost wake-up.**  In every reachable state:
(1) if the lock is free while some thread has committed to sleep (its predicate saw the flag set) and is still in the
    wait set, then an unlocker is between its `exchange(false)` and its removal of a waiter (`Slp.Mx.Nt`), or a thread that a
    notifier already removed from the wait set has not yet re-examined the flag (`Slp.Mx.Tk`: it will take the lock, or see it
    taken by somebody whose unlock starts the next notification);
(2) every thread that a notifier removed from the wait set and that has not consumed its wake-up has that wake-up in
    flight: its semaphore is already V'ed, or the notifier is about to V it. -/
theorem mutex_handoff_no_loss (progs : List (List Slp.Mx.Op)) (orcs : List (List Bool)) (sm : Nat) (sched : List Tid)
    (st : Slp.Mx.St) (hst : st = (Slp.Mx.sys progs orcs sm).run sched) :
    (st.flag = false → Slp.Mx.Sl st → Slp.Mx.Nt st ∨ Slp.Mx.Tk st) ∧ Slp.WakeInFlight st.mon (Slp.Mx.mwOf st) := by
  have h : Slp.Mx.Inv st := hst ▸ Slp.Mx.inv_reachable progs orcs sm sched
  exact ⟨h.nl, h.m.wake⟩

open Slp.Mx in
/-- non-vacuity: t1 goes to sleep behind t0 (spin budget 2), t0's unlock removes it and V's it, t1 takes the lock -/
example :
    let st := (Slp.Mx.sys [[.lock, .unlock], [.lock, .unlock]] [] 2).run
      [0, 0, 1, 1, 1, 1, 1, 1, 0, 0, 0, 0, 1, 1, 1, 1]
    st.flag = true ∧ (st.th 1).holds = true ∧ st.mon.waitset = [] ∧ st.mon.epoch = 1 ∧ st.mon.posted = [] := by decide


/-! ## tbb::rw_mutex (`Slp.Rw`): word protocol (unlock keeps WRITER_PENDING; try_lock_shared undoes on WRITER or
WRITER_PENDING) + sleep/wake hand-shake with writer / reader contexts -/

open Slp.Rw in
/-- **Reader-writer exclusion of tbb::rw_mutex**, the word's reader field equals the number of threads owning a
reader unit, WRITER is set iff some thread is the writer or an in-place upgrader, no borrow across bit fields. -/
theorem rwm_excl (progs : List (List Slp.Rw.Op)) (orcs : List (List Bool)) (sm : Nat) (sched : List Tid)
    (st : Slp.Rw.St) (hst : st = (Slp.Rw.sys progs orcs sm).run sched) :
    Slp.Rw.cntS .holdW st.ths ≤ 1 ∧ (0 < Slp.Rw.cntS .holdW st.ths → Slp.Rw.cntS .holdR st.ths = 0) ∧
    (0 < Slp.Rw.cntS .holdR st.ths + Slp.Rw.cntS .upgWait st.ths + Slp.Rw.cntS .upgReady st.ths → Slp.Rw.cntS .holdW st.ths = 0) ∧
    st.word.r = Slp.Rw.cntS .rt st.ths + Slp.Rw.cntS .holdR st.ths + Slp.Rw.cntS .upgWait st.ths + Slp.Rw.cntS .upgReady st.ths ∧
    Slp.Rw.cntS .holdW st.ths + Slp.Rw.cntS .upgWait st.ths + Slp.Rw.cntS .upgReady st.ths = (if st.word.w then 1 else 0) ∧
    st.bad = false := by
  have h : Slp.Rw.Inv st := hst ▸ Slp.Rw.inv_reachable progs orcs sm sched
  have hw := h.c.hw
  have hx := h.c.hx
  refine ⟨by split at hw <;> omega, fun hh => hx (by omega), fun hpos => ?_, h.c.hr, h.c.hw, h.c.hbad⟩
  by_cases hq : 0 < Slp.Rw.cntS .holdW st.ths
  · have := hx (by omega)
    split at hw <;> omega
  · omega

open Slp.Rw in
/-- **Truthful upgrade**: a thread inside `upgrade` that has not entered the slow path (release + lock, result false)
still owns its reader unit, and then no thread is the writer — so no writer can have run between the call and a
`true` return. -/
theorem rwm_upgrade_fast_path_holds (progs : List (List Slp.Rw.Op)) (orcs : List (List Bool)) (sm : Nat) (sched : List Tid)
    (st : Slp.Rw.St) (hst : st = (Slp.Rw.sys progs orcs sm).run sched) (tid : Nat) (t : Slp.Rw.Th) (rest : List Slp.Rw.Op) :
    st.ths[tid]? = some t → t.ops = .upgrade :: rest → t.pc ≠ .start → t.slow = false →
    (t.phase = .holdR ∨ t.phase = .upgWait ∨ t.phase = .upgReady) ∧ Slp.Rw.cntS .holdW st.ths = 0 := by
  intro hget hops hpc hsl
  have h : Slp.Rw.Inv st := hst ▸ Slp.Rw.inv_reachable progs orcs sm sched
  have w4 := (h.wf tid t hget).op
  rw [hops] at w4
  have hph : t.phase = .holdR ∨ t.phase = .upgWait ∨ t.phase = .upgReady := by
    rcases w4 with a | ⟨_, a, _⟩ | ⟨_, a, _⟩ | ⟨_, _, a, _⟩ | ⟨_, a, _⟩ | ⟨_, _, a⟩ | ⟨_, _, a, _⟩ | ⟨_, a, _⟩
    · exact absurd a hpc
    · exact Or.inl a
    · exact Or.inr (Or.inl a)
    · exact Or.inr (Or.inl a)
    · exact Or.inr (Or.inr a)
    all_goals (rw [hsl] at a; cases a)
  refine ⟨hph, (rwm_excl progs orcs sm sched st hst).2.2.1 ?_⟩
  rcases hph with hp | hp | hp
  · have := Slp.Rw.cntS_pos_of_mem .holdR _ tid t hget hp; omega
  · have := Slp.Rw.cntS_pos_of_mem .upgWait _ tid t hget hp; omega
  · have := Slp.Rw.cntS_pos_of_mem .upgReady _ tid t hget hp; omega

open Slp.Rw in
/-- **downgrade never lets a writer in**: one atomic access turns the writer into a reader. -/
theorem rwm_downgrade_atomic (tid sm : Nat) (s : Word) (m : Slp.Mon) (t : Slp.Rw.Th) (rest : List Slp.Rw.Op) (hops : t.ops = .downgrade :: rest)
    (hpc : t.pc = .start) (hph : t.phase = .holdW) :
    (Slp.Rw.stepTh tid sm s m t).1 = { s with w := false, r := s.r + 1 } ∧ (Slp.Rw.stepTh tid sm s m t).2.2.2.1.phase = .holdR := by
  simp [Slp.Rw.stepTh, hops, hpc, hph, Slp.Rw.Op.pre, Slp.Rw.stepOp]

open Slp.Rw in
/-- **Wake rules** (one step): whenever one access of a thread turns the wake-up condition of a waiter kind (writer:
not BUSY; reader: no WRITER and no WRITER_PENDING; upgrader: readers == 1) from false to true, that same thread goes
on to notify that kind's context (directly, or — after downgrade's fetch_add — at the load that decides it).
`h1`,`h2` are consequences of the counting invariant in reachable states (the in-place upgrader holds WRITER; a
sleeping upgrader owns a reader unit and is the only in-place upgrader). -/
theorem rw_wake_rules (tid sm : Nat) (s : Word) (m : Slp.Mon) (t : Slp.Rw.Th) (k : Slp.Rw.WKind)
    (h1 : t.pc = .upFin → s.w = true) (h2 : k = .upg → 1 ≤ s.r ∧ t.pc ≠ .upFin)
    (hc : k.cond s = false) (hc' : k.cond (Slp.Rw.stepTh tid sm s m t).1 = true) :
    Slp.Rw.Covers (Slp.Rw.stepTh tid sm s m t).2.2.2.1 k.ctx :=
  Slp.Rw.wake_rules_step tid sm s m t k h1 h2 hc hc'

open Slp.Rw in
/-- **No lost wake-up of tbb::rw_mutex** (all schedules).  In every reachable state:
(1) a thread that has committed to sleep (its predicate was false), is still in the wait set under its context, and
    whose wake-up condition holds for the current lock word, is covered by some thread that is about to notify that
    context (between its releasing access and its flush of the wait set, or at downgrade's WRITER_PENDING load): no
    thread sleeps on a satisfiable condition with no notifier pending;
(2) every thread that a notifier removed from the wait set and that has not consumed its wake-up has its semaphore
    V'ed or a notifier about to V it: the notification reaches the sleeper. -/
theorem rw_handoff_no_loss (progs : List (List Slp.Rw.Op)) (orcs : List (List Bool)) (sm : Nat) (sched : List Tid)
    (st : Slp.Rw.St) (hst : st = (Slp.Rw.sys progs orcs sm).run sched) :
    NoLostWake st ∧ Slp.WakeInFlight st.mon (Slp.Rw.mwOfL st.ths) := by
  have h := hst ▸ nlw_reachable progs orcs sm sched
  exact ⟨h.2, h.1.wake⟩

open Slp.Rw in
/-- non-vacuity: a reader goes to sleep behind a writer (spin budget 1); the writer's unlock notifies everybody
(no WRITER_PENDING), removes it, V's it; the reader wakes up and takes the lock -/
example :
    let st := (Slp.Rw.sys [[.lock, .unlock], [.lockShared, .unlockShared]] [] 1).run
      [0, 0, 1, 1, 1, 1, 1, 0, 0, 0, 0, 1, 1, 1]
    st.word.enc = 4 ∧ st.mon.waitset = [] ∧ st.mon.epoch = 1 ∧ st.mon.posted = [] ∧ st.bad = false := by decide

/-! ## memory orders (regenerated from the E-SHIM traces of all lock kinds) -/

/-- is the order at least `release` (release / acq_rel / seq_cst)?  (std::memory_order numbering: relaxed 0,
consume 1, acquire 2, release 3, acq_rel 4, seq_cst 5) -/
def relOK (o : Nat) : Bool := o == 3 || o == 4 || o == 5
def acqOK (o : Nat) : Bool := o == 2 || o == 4 || o == 5

/-- **rw_orders_publish**: in the table (lock kind, variable, access kind, memory order actually executed, role)
regenerated from the traces, every access that releases a lock is a release-or-stronger store/RMW, every access that
acquires one is an acquire-or-stronger load/RMW, and every releasing access has an acquiring access on the same
variable of the same lock — which is what makes the writes of a critical section visible to the next holder under
C++11 (and TSO).  role: 1 = acquiring, 2 = releasing. -/
theorem rw_orders_publish :
    (∀ e ∈ Generated.C08.orders, e.2.2.2.2 = 2 → relOK e.2.2.2.1 = true) ∧
    (∀ e ∈ Generated.C08.orders, e.2.2.2.2 = 1 → acqOK e.2.2.2.1 = true) ∧
    (∀ e ∈ Generated.C08.orders, e.2.2.2.2 = 2 →
        Generated.C08.orders.any (fun a => a.1 == e.1 && a.2.1 == e.2.1 && a.2.2.2.2 == 1) = true) ∧
    Generated.C08.orders ≠ [] := by decide

/-! ## speculative_spin_rw_mutex = rtm_rw_mutex (Model/C08R.lean `Rtm`): the write_flag protocol of the real writers and the
read-set discipline of the (abstract) hardware transactions.  Any number of threads, every schedule, including spontaneous aborts
(odd schedule entries) and every choice of how often each call speculates before it takes the real path (`spec` counters). -/

/-- **A real writer keeps write_flag raised**: from the return of its acquire / try_acquire / upgrade to its release / downgrade call
(`held = 2`) `write_flag` is true — the only word the transacting readers subscribe to. -/
theorem rtm_rw_real_writer_flag (progs : List (List Rtm.Op)) (sched : List Nat) (k : Nat) (st : Rtm.St)
    (hst : st = (Rtm.sys progs).run sched) :
    (st.ths k).held = 2 → st.wflag = true := by
  intro hh
  have h : Rtm.RInv st := by rw [hst]; exact Rtm.rinv_reachable progs sched
  have hkl : k < st.rw.ths.length := by
    apply Classical.byContradiction; intro hc
    have := (h.out k (by omega)).2.2.1; omega
  have hk : st.rw.ths[k]? = some st.rw.ths[k] := by simp [hkl]
  exact h.flg k ((h.rel k _ hk).2.1 hh)

/-- **No speculative reader together with a real writer**: while a thread holds the lock as a real writer no transaction of a
transacting reader is open (an open one would still be able to commit): its read set contains `write_flag`, read as false and
not written since, or `m_state`, read as 0 and not written since. -/
theorem rtm_rw_no_speculative_reader_with_real_writer (progs : List (List Rtm.Op)) (sched : List Nat) (a b : Nat) (st : Rtm.St)
    (hst : st = (Rtm.sys progs).run sched) :
    (st.ths a).held = 2 → ¬ ((st.ths b).intx = true ∧ (st.ths b).txm = 1) := by
  intro ha hb
  have h : Rtm.RInv st := by rw [hst]; exact Rtm.rinv_reachable progs sched
  have hfl := rtm_rw_real_writer_flag progs sched a st hst ha
  have hw := Rtm.word_ne_zero_of_held _ h a (by omega)
  have hbl : b < st.rw.ths.length := by
    apply Classical.byContradiction; intro hc
    have := (h.out b (by omega)).2.1; rw [hb.1] at this; cases this
  have hk : st.rw.ths[b]? = some st.rw.ths[b] := by simp [hbl]
  rcases (h.rel b _ hk).2.2.2.2.2.2.1 hb.2 with hs | hs
  · have := h.subf b hb.1 hs; rw [hfl] at this; cases this
  · exact hw (h.subw b hb.1 hs)

/-- **No speculative writer together with a real holder**: while the transaction of a transacting writer is open no thread holds
the lock for real (as reader or writer): `m_state` is in its read set, read as 0 and not written since. -/
theorem rtm_rw_no_speculative_writer_with_real_holder (progs : List (List Rtm.Op)) (sched : List Nat) (a b : Nat) (st : Rtm.St)
    (hst : st = (Rtm.sys progs).run sched) :
    (st.ths b).intx = true → (st.ths b).txm = 2 → (st.ths a).held = 0 := by
  intro hi hm
  have h : Rtm.RInv st := by rw [hst]; exact Rtm.rinv_reachable progs sched
  have hbl : b < st.rw.ths.length := by
    apply Classical.byContradiction; intro hc
    have := (h.out b (by omega)).2.1; rw [hi] at this; cases this
  have hk : st.rw.ths[b]? = some st.rw.ths[b] := by simp [hbl]
  have hs := (h.rel b _ hk).2.2.2.2.2.2.2.1 hm
  have hz := h.subw b hi hs
  apply Classical.byContradiction; intro hne
  exact Rtm.word_ne_zero_of_held _ h a hne hz

/-- **Real holders exclude each other through the underlying spin_rw_mutex**: a real writer is the only real holder, and every
speculative hold is inside an open transaction (so the two theorems above cover every speculative holder). -/
theorem rtm_rw_real_excl (progs : List (List Rtm.Op)) (sched : List Nat) (a b : Nat) (st : Rtm.St)
    (hst : st = (Rtm.sys progs).run sched) :
    ((st.ths a).held = 2 → a ≠ b → (st.ths b).held = 0) ∧ ((st.ths b).txm ≠ 0 → (st.ths b).intx = true) := by
  have h : Rtm.RInv st := by rw [hst]; exact Rtm.rinv_reachable progs sched
  refine ⟨fun ha hab => ?_, fun hm => ?_⟩
  · apply Classical.byContradiction; intro hb
    have hlen : ∀ k, (st.ths k).held ≠ 0 → k < st.rw.ths.length := by
      intro k hk; apply Classical.byContradiction; intro hc; exact hk (h.out k (Nat.le_of_not_lt hc)).2.2.1
    have hal := hlen a (by omega)
    have hbl := hlen b hb
    have hka : st.rw.ths[a]? = some st.rw.ths[a] := by simp [hal]
    have hkb : st.rw.ths[b]? = some st.rw.ths[b] := by simp [hbl]
    have ra := h.rel a _ hka
    have rb := h.rel b _ hkb
    have hfa := ra.2.1 ha
    have hfb : (st.ths b).fl = false := Rtm.fl_unique _ h a b _ hka (by
      have := ra.1 hfa
      have r7 := ra.2.2.2.2.2.2.2.2.2
      rw [this.1] at r7; simpa [Rtm.restPhase, ha] using r7.1.2.2) (Ne.symm hab)
    -- b holds for real but has not raised the flag: it is a reader; its inner phase is holdR or (downgrading) holdW
    have hpa : (st.rw.ths[a]).phase = .holdW := by
      have := ra.1 hfa
      have r7 := ra.2.2.2.2.2.2.2.2.2
      rw [this.1] at r7; simpa [Rtm.restPhase, ha] using r7.1.2.2
    have hb1 : (st.ths b).held = 1 := by
      rcases rb.2.2.1 with h0 | h1 | h2
      · exact absurd h0 hb
      · exact h1
      · have := rb.2.1 h2; rw [hfb] at this; cases this
    have hwfb := h.inner.hwf b _ hkb
    have hpb : (st.rw.ths[b]).phase = .holdR ∨ (st.rw.ths[b]).phase = .holdW := by
      have r7 := rb.2.2.2.2.2.2.2.2.2
      rcases rb.2.2.2.2.2.1 hb1 with hp | hp
      · rw [hp] at r7; left; simpa [Rtm.restPhase, hb1] using r7.1.2.2
      · rw [hp] at r7; right
        rcases r7.1 with hr | hr
        · simpa [Op.pre] using hr.2.2
        · have hw4 := hwfb.2.2.2
          rw [hr.1] at hw4
          simp only [WfOp] at hw4
          simpa [Op.pre] using hr.2 hw4
    have hw := h.inner.hw
    have hx := h.inner.hx
    have ca := cnt_pos_of_mem .holdW st.rw.ths a _ hka hpa
    rcases hpb with hp | hp
    · have cb := cnt_pos_of_mem .holdR st.rw.ths b _ hkb hp
      have := hx (by omega); omega
    · have := Rtm.cnt_ge_two st.rw.ths a b _ _ hab hka hkb hpa hp
      split at hw <;> omega
  · have hbl : b < st.rw.ths.length ∨ ¬ b < st.rw.ths.length := Classical.em _
    cases hin : (st.ths b).intx with
    | true => rfl
    | false =>
      rcases hbl with hbl | hbl
      · have hk : st.rw.ths[b]? = some st.rw.ths[b] := by simp [hbl]
        exact absurd ((h.rel b _ hk).2.2.2.1 hin).2.2 hm
      · -- a thread that does not exist never moved
        exact absurd (h.out b (by omega)).2.2.2 hm

/-- non-vacuity: thread 0 holds speculatively as a reader (transaction open, write_flag in its read set); thread 1's real
acquire for write takes the underlying lock and, by raising write_flag, aborts it: thread 0 is back at its acquire with no
speculation attempt left, thread 1 is the real writer and write_flag is raised -/
example :
    let st := (Rtm.sys [[.acquire false 1, .release], [.acquire true 0, .release]]).run [0, 0, 0, 2, 2]
    (st.ths 0).intx = true ∧ (st.ths 0).txm = 1 ∧ (st.ths 0).subF = true ∧ st.wflag = false ∧ st.rw.word.enc = 1 := by decide
example :
    let st := (Rtm.sys [[.acquire false 1, .release], [.acquire true 0, .release]]).run [0, 0, 0, 2, 2, 2]
    (st.ths 0).intx = false ∧ (st.ths 0).ops = [.acquire false 0, .release] ∧ (st.ths 1).held = 2 ∧ st.wflag = true := by decide

/-- the facts about the source text of rtm_rw_mutex.cpp / rtm_mutex.cpp that the model of the SPECULATIVE paths rests on (they cannot be
replayed under the shim): regenerated from the current sources on every run -/
theorem rtm_source_obligations :
    (∀ e ∈ Generated.C08.rtmSrc, e.2 = true) ∧ Generated.C08.rtmSrc.length ≥ 8 := by decide

/-! ## queuing_rw_mutex: the NODE PROTOCOL `QRwN` (Model/C08N.lean; one step per atomic access of src/tbb/queuing_rw_mutex.cpp)

The theorems below hold for ANY number of threads and EVERY schedule, for programs made of acquire (read / write), try_acquire,
release (writer; reader at the head; reader unlinking from the middle with the predecessor's internal lock and the tagged
my_prev) and downgrade_to_reader.  They are `_partial` because of the explicit hypothesis `noUpgProg`: no program calls
upgrade_to_writer.  The full statements are the same without that hypothesis; what is missing is the preservation of the
invariant (Model/C08NInv.lean) by the ~40 program counters of upgrade_to_writer and by the UPGRADE_* branches of release /
downgrade (tagged q_tail and my_next, a waiting upgrader in the middle of the queue); on those paths the model is tied to the code
by the access-level replay and explored exhaustively for small configurations only. -/

/-- the invariant of Model/C08NInv.lean holds in every reachable state -/
theorem qrw_node_invariant (progs : List (List QRwN.Op)) (hn : QRwN.noUpgProg progs) (sched : List Tid) :
    QRwN.Inv ((QRwN.sys progs).run sched) := QRwN.inv_reachable progs hn sched

/-- **Exclusion at access level** (holders = the code's own return points): while a thread holds the lock as a writer — from the
access by which its acquire / try_acquire returned to the first access of its release or downgrade — no other thread holds it,
neither as writer nor as reader.
Full statement `qrw_excl`: the same for all programs (with upgrade_to_writer). -/
theorem qrw_excl_partial (progs : List (List QRwN.Op)) (hn : QRwN.noUpgProg progs) (sched : List Tid) (a b : Tid)
    (st : QRwN.St) (hst : st = (QRwN.sys progs).run sched) : st.held a = 2 → a ≠ b → st.held b = 0 := by
  subst hst; exact QRwN.excl_of_inv (QRwN.inv_reachable progs hn sched) a b

/-- the code never dereferences a null or tagged pointer (`predecessor->…`, `next->…`) -/
theorem qrw_no_bad_pointer_partial (progs : List (List QRwN.Op)) (hn : QRwN.noUpgProg progs) (sched : List Tid) :
    ((QRwN.sys progs).run sched).bad = false := (QRwN.inv_reachable progs hn sched).bad

/-- **try_acquire is truthful and never waits**: its load of q_tail answers false at once when the queue is not empty; otherwise
five initialising stores (each advances) and the CAS on q_tail follow, and the call reports true exactly when that CAS found
q_tail null — then the caller holds the lock in the requested mode (and by `qrw_excl_partial` legitimately so); when it reports
false the CAS changed nothing (no node field, not q_tail, nobody's hold). -/
theorem qrw_try_truthful (st : QRwN.St) (t : Tid) (op : QRwN.Op) (r : List QRwN.Op) (hops : (st.loc t).ops = op :: r) :
    ((st.loc t).pc = .tCas →
      (st.tail = 0 → (((QRwN.step st t).loc t).results = 1 :: (st.loc t).results ∧ (QRwN.step st t).tail = QRwN.P t ∧
          (QRwN.step st t).held t = (if (st.loc t).w then 2 else 1) ∧ ((QRwN.step st t).loc t).ops = r)) ∧
      (st.tail ≠ 0 → (((QRwN.step st t).loc t).results = 0 :: (st.loc t).results ∧ (QRwN.step st t).tail = st.tail ∧
          (QRwN.step st t).held = st.held ∧ (QRwN.step st t).prev = st.prev ∧ (QRwN.step st t).next = st.next ∧
          (QRwN.step st t).state = st.state ∧ (QRwN.step st t).going = st.going ∧ ((QRwN.step st t).loc t).ops = r))) ∧
    ((st.loc t).pc = .tPrev → ((QRwN.step st t).loc t).pc = .tNext) ∧ ((st.loc t).pc = .tNext → ((QRwN.step st t).loc t).pc = .tGoing) ∧
    ((st.loc t).pc = .tGoing → ((QRwN.step st t).loc t).pc = .tState) ∧ ((st.loc t).pc = .tState → ((QRwN.step st t).loc t).pc = .tIlock) ∧
    ((st.loc t).pc = .tIlock → ((QRwN.step st t).loc t).pc = .tCas) := by
  have hp := QRwN.try_progress st t op r hops
  refine ⟨fun hpc => ?_, hp.1, hp.2.1, hp.2.2.1, hp.2.2.2.1, hp.2.2.2.2⟩
  have := QRwN.tCas_step st t op r hops hpc
  exact ⟨fun h0 => by have := this.1 h0; exact ⟨this.1, this.2.1, this.2.2.1, this.2.2.2.2⟩,
         fun h0 => by have := this.2 h0; exact ⟨this.1, this.2.1, this.2.2.1, this.2.2.2.1, this.2.2.2.2.1, this.2.2.2.2.2.1, this.2.2.2.2.2.2.1, this.2.2.2.2.2.2.2.2.2⟩⟩

/-- **Queue order = q_tail exchange order, no overtaking**: `pos` is the ticket a node drew at its q_tail exchange (or successful
try-CAS).  If a queued request `b` is entitled to the lock (it found the queue empty, saw its predecessor ACTIVEREADER, or was sent
my_going = 1 — every holder is entitled), then every request `a` that entered the queue earlier and is still in it is entitled too
and both are readers: a blocking request never acquires before an earlier-queued conflicting request.
Full statement `qrw_no_overtake`: the same for all programs. -/
theorem qrw_no_overtake_partial (progs : List (List QRwN.Op)) (hn : QRwN.noUpgProg progs) (sched : List Tid) (a b : Tid)
    (st : QRwN.St) (hst : st = (QRwN.sys progs).run sched) :
    (st.held b ≠ 0 → st.gr b = true ∧ st.inq b = true) ∧
    (st.inq a = true → st.inq b = true → st.pos a < st.pos b → st.gr b = true → st.gr a = true ∧ st.isW a = false ∧ st.isW b = false) := by
  subst hst
  have h := QRwN.inv_reachable progs hn sched
  exact ⟨fun hb => ⟨(h.phase_4 b hb).1, h.phase_3 b (h.phase_4 b hb).1⟩, fun ha hb hlt hg => QRwN.no_overtake_of_inv h a b ha hb hlt hg⟩

/-- **downgrade_to_reader never lets a writer in**: the first access of downgrade_to_reader turns the holding writer into a
holding reader in one step (`QRwN.downgradeStart_step`), it stays one during the whole call, and so by exclusion no thread holds
as a writer at any state of the call.
Full statement `qrw_downgrade_atomic`: the same for all programs. -/
theorem qrw_downgrade_atomic_partial (progs : List (List QRwN.Op)) (hn : QRwN.noUpgProg progs) (sched : List Tid) (t b : Tid)
    (st : QRwN.St) (hst : st = (QRwN.sys progs).run sched) :
    ((st.loc t).pc = .start → st.held t = 2 → (∃ r, (st.loc t).ops = .downgrade :: r) → (QRwN.step st t).held t = 1) ∧
    ((st.loc t).pc.isD = true → st.held t = 1 ∧ st.held b ≠ 2) := by
  subst hst
  have h := QRwN.inv_reachable progs hn sched
  refine ⟨fun hpc hh ⟨r, hops⟩ => QRwN.downgradeStart_step _ t r hops hpc hh, fun hd => ?_⟩
  have h1 := h.phase_9 t hd
  refine ⟨h1, fun hb => ?_⟩
  by_cases e : b = t
  · subst e; omega
  · have := QRwN.excl_of_inv h b t hb e; omega

/-- non-vacuity: three readers enter, the MIDDLE one releases first (unlinks itself with its predecessor's internal lock), then the
others; a writer queued behind them gets the lock last; the hypothesis `noUpgProg` holds for these programs -/
example : QRwN.noUpgProg [[.acquire false, .release], [.acquire false, .release], [.acquire false, .release], [.acquire true, .release]] := by decide

set_option maxRecDepth 4000 in
/-- non-vacuity: readers 2, 1, 0 queue up and all become active; the MIDDLE one (thread 1) releases: it takes its predecessor's
internal lock (thread 2's, owner = node of thread 1), leaves the queue by exchanging its successor's my_prev — thread 0's ghost
predecessor is now thread 2 — and is about to rewrite thread 2's my_next, while 0 and 2 still hold as readers -/
example :
    let st := (QRwN.sys [[.acquire false, .release], [.acquire false, .release], [.acquire false, .release]]).run
      [2, 2, 2, 2, 2, 2, 2, 1, 1, 1, 1, 1, 1, 1, 1, 1, 1, 1, 1, 1, 1, 1, 1, 1, 1, 0, 0, 0, 0, 0, 0, 1, 0, 0, 0, 0, 1, 1, 1, 1, 0]
    (st.loc 1).pc = .rrPN ∧ st.held 0 = 1 ∧ st.held 2 = 1 ∧ st.gpred 0 = QRwN.P 2 ∧ st.inq 1 = false ∧ st.iown 2 = QRwN.P 1 ∧
    st.prev 0 = QRwN.P 2 := by decide

end TbbVerif.C08
