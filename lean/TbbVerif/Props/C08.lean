/-
C08 — property theorems for the mutex protocols (statements only; lemmas in Proofs/C08*.lean).

All theorems quantify over EVERY set of thread programs (any number of threads, any operation sequences) and EVERY
schedule `sched : List Tid` of the atomic-access-level model (`Model/C08.lean`), i.e. every sequentially consistent
interleaving of the accesses to the lock word.  `cnt ph ths` = number of threads in ghost phase `ph`.
-/
import TbbVerif.Proofs.C08
import TbbVerif.Proofs.C08Spin
import TbbVerif.Generated.C08

namespace TbbVerif.C08

/-- The state-word layout the model assumes is the one the headers define (regenerated on every run). -/
theorem word_layout :
    Generated.C08.spinWriter = 1 ∧ Generated.C08.spinWriterPending = 2 ∧ Generated.C08.spinOneReader = 4 ∧
    Generated.C08.spinReadersMaskLow = 252 ∧ Generated.C08.spinBusyLow = 253 := by decide

/-! ### spin_rw_mutex -/

/-- **Mutual exclusion / reader-writer rule.** In every reachable state at most one thread holds the lock as
writer, and while a writer holds it no thread holds it as reader. -/
theorem rw_excl (progs : List (List Op)) (sched : List Tid)
    (st : St) (hst : st = (sys progs).run sched) :
    cnt .holdW st.ths ≤ 1 ∧ (0 < cnt .holdW st.ths → cnt .holdR st.ths = 0) := by
  subst hst
  have h := inv_reachable progs sched
  refine ⟨?_, fun hw => h.hx (by omega)⟩
  have := h.hw
  split at this <;> omega

/-- While any thread holds a shared lock, or is in the middle of an in-place upgrade, no thread is a writer. -/
theorem rw_no_writer_while_shared (progs : List (List Op)) (sched : List Tid)
    (st : St) (hst : st = (sys progs).run sched) :
    0 < cnt .holdR st.ths + cnt .upgWait st.ths + cnt .upgReady st.ths → cnt .holdW st.ths = 0 := by
  subst hst
  intro hpos
  have h := inv_reachable progs sched
  have hw := h.hw
  have hx := h.hx
  by_cases hq : 0 < cnt .holdW ((sys progs).run sched).ths
  · have := hx (by omega)
    split at hw <;> omega
  · omega

/-- The reader field of the word always equals the number of threads that currently own a reader unit
(holders, transient increments that will be undone, and in-place upgraders); the WRITER bit is set iff some
thread is the writer or an in-place upgrader; the code's field arithmetic never borrows across bit fields. -/
theorem rw_word_consistent (progs : List (List Op)) (sched : List Tid)
    (st : St) (hst : st = (sys progs).run sched) :
    st.word.r = cnt .rt st.ths + cnt .holdR st.ths + cnt .upgWait st.ths + cnt .upgReady st.ths ∧
    cnt .holdW st.ths + cnt .upgWait st.ths + cnt .upgReady st.ths = (if st.word.w then 1 else 0) ∧
    st.bad = false := by
  subst hst
  have h := inv_reachable progs sched
  exact ⟨h.hr, h.hw, h.hbad⟩

/-- **try_lock is truthful and wait-free**: it reports success exactly on the access that takes the lock
(the word then had no writer and no readers), a failure leaves the word untouched, and it finishes within two
accesses of its own whatever the other threads do. -/
theorem rw_try_lock_truthful (s : Word) (t : Th) (rest : List Op) (hops : t.ops = .tryLock :: rest)
    (hwf : Wf t) (hidle : t.phase = .idle) :
    let o := stepTh s t
    (o.2.2.1.results = 1 :: t.results → o.2.2.1.phase = .holdW ∧ s.w = false ∧ s.r = 0 ∧ o.1 = { w := true, p := false, r := 0 }) ∧
    (o.2.2.1.results = 0 :: t.results → o.1 = s ∧ o.2.2.1.phase = .idle) ∧
    (o.2.2.1.ops = rest ∨ (o.2.2.1.pc = .lockCas ∧ o.2.2.1.ops = t.ops ∧ ∀ s2, (stepTh s2 o.2.2.1).2.2.1.ops = rest)) := by
  obtain ⟨w1, w2, w3, w4⟩ := hwf
  rw [hops] at w4
  have hg : ¬(t.pc = .start ∧ t.phase ≠ Op.pre .tryLock) := by simp [Op.pre, hidle]
  simp only [stepTh, hops, hg, ite_false, stepOp]
  rcases w4 with h | ⟨h, _, hsv⟩
  · unfold stepTryLock
    rw [h]; dsimp only
    split
    · refine ⟨by simp, by simp, Or.inr ⟨rfl, by simp [hops], ?_⟩⟩
      intro s2
      simp only [stepTh, hops, stepOp, stepTryLock]
      simp [Th.done, Op.pre, hidle]
      split <;> simp [Th.done, hops]
    · simp [Th.done, hops, hidle]
  · unfold stepTryLock
    rw [h]; dsimp only
    split
    · rename_i he
      have := sv0_word s t hsv he
      simp [Th.done, hops, this.1, this.2]
    · simp [Th.done, hops, hidle]

/-- **Truthful upgrade (1)**: `upgrade` reports `true` only from the in-place path (`slow = false`, phase
`upgReady`), and reports `false` only from the release-and-reacquire path (`slow = true`). -/
theorem rw_upgrade_result (s : Word) (t : Th) (rest : List Op) (hops : t.ops = .upgrade :: rest) (hwf : Wf t)
    (hg : ¬(t.pc = .start ∧ t.phase ≠ .holdR)) :
    let o := stepTh s t
    (o.2.2.1.results = 1 :: t.results → t.slow = false ∧ t.phase = .upgReady ∧ o.2.2.1.phase = .holdW) ∧
    (o.2.2.1.results = 0 :: t.results → t.slow = true ∧ o.2.2.1.phase = .holdW) := by
  obtain ⟨w1, w2, w3, w4⟩ := hwf
  rw [hops] at w4
  have hg' : ¬(t.pc = .start ∧ t.phase ≠ Op.pre .upgrade) := by simpa [Op.pre] using hg
  simp only [stepTh, hops, hg', ite_false, stepOp]
  have nores : ∀ (x : Th) (v : Nat), x.results = t.results → ¬ (x.results = v :: t.results) := by
    intro x v hx hc; rw [hx] at hc; exact absurd hc (by simp)
  rcases w4 with h | ⟨h, hph, hsl, hc, he⟩ | ⟨h, hph, hsl⟩ | ⟨h, hph, hsl⟩ | ⟨h, hph, hsl⟩ | ⟨h, hph, hsl⟩ | ⟨h, hph, hsl⟩ | ⟨h, hph, hsl, hsv⟩
  · unfold stepUpgrade; rw [h]; dsimp only
    split <;> exact ⟨fun hh => absurd hh (nores _ _ rfl), fun hh => absurd hh (nores _ _ rfl)⟩
  · unfold stepUpgrade; rw [h]; dsimp only
    split
    · exact ⟨fun hh => absurd hh (nores _ _ rfl), fun hh => absurd hh (nores _ _ rfl)⟩
    · split <;> exact ⟨fun hh => absurd hh (nores _ _ rfl), fun hh => absurd hh (nores _ _ rfl)⟩
  · unfold stepUpgrade; rw [h]; dsimp only
    split <;> exact ⟨fun hh => absurd hh (nores _ _ rfl), fun hh => absurd hh (nores _ _ rfl)⟩
  · unfold stepUpgrade; rw [h]; dsimp only
    simp [Th.done, hsl, hph]
  · unfold stepUpgrade; rw [h]; dsimp only
    exact ⟨fun hh => absurd hh (nores _ _ rfl), fun hh => absurd hh (nores _ _ rfl)⟩
  · unfold stepUpgrade lockBody; rw [h]; dsimp only
    simp only [ite_true]
    split
    · exact ⟨fun hh => absurd hh (nores _ _ rfl), fun hh => absurd hh (nores _ _ rfl)⟩
    · split <;> exact ⟨fun hh => absurd hh (nores _ _ rfl), fun hh => absurd hh (nores _ _ rfl)⟩
  · unfold stepUpgrade lockBody; rw [h]; dsimp only
    simp only [show (Pc.lockOr = Pc.upgSlowLock) = False by simp, ite_false]
    exact ⟨fun hh => absurd hh (nores _ _ rfl), fun hh => absurd hh (nores _ _ rfl)⟩
  · unfold stepUpgrade lockBody; rw [h]; dsimp only
    simp only [show (Pc.lockCas = Pc.upgSlowLock) = False by simp, ite_false]
    split
    · simp [Th.done, hsl]
    · exact ⟨fun hh => absurd hh (nores _ _ rfl), fun hh => absurd hh (nores _ _ rfl)⟩

/-- **Truthful upgrade (2)**: in every reachable state, a thread inside `upgrade` that has not entered the slow
path still owns its reader unit (it is a holder, or an in-place upgrader) — so by `rw_no_writer_while_shared`
no other thread can have been a writer between the call and a `true` return. -/
theorem rw_upgrade_fast_path_holds (progs : List (List Op)) (sched : List Tid) (tid : Nat) (t : Th) (rest : List Op)
    (st : St) (hst : st = (sys progs).run sched) :
    st.ths[tid]? = some t → t.ops = .upgrade :: rest → t.pc ≠ .start → t.slow = false →
    (t.phase = .holdR ∨ t.phase = .upgWait ∨ t.phase = .upgReady) ∧ cnt .holdW st.ths = 0 := by
  subst hst
  intro hget hops hpc hsl
  have h := inv_reachable progs sched
  obtain ⟨w1, w2, w3, w4⟩ := h.hwf tid t hget
  rw [hops] at w4
  have hph : t.phase = .holdR ∨ t.phase = .upgWait ∨ t.phase = .upgReady := by
    rcases w4 with h | ⟨_, hph, _⟩ | ⟨_, hph, _⟩ | ⟨_, hph, _⟩ | ⟨_, _, hs⟩ | ⟨_, _, hs⟩ | ⟨_, _, hs⟩ | ⟨_, _, hs, _⟩
    · exact absurd h hpc
    · exact Or.inl hph
    · exact Or.inr (Or.inl hph)
    · exact Or.inr (Or.inr hph)
    all_goals (rw [hsl] at hs; cases hs)
  refine ⟨hph, rw_no_writer_while_shared progs sched _ rfl ?_⟩
  rcases hph with hp | hp | hp
  · have := cnt_pos_of_mem .holdR _ tid t hget hp; omega
  · have := cnt_pos_of_mem .upgWait _ tid t hget hp; omega
  · have := cnt_pos_of_mem .upgReady _ tid t hget hp; omega

/-- **downgrade never lets a writer in**: it is a single atomic access that turns the writer into a reader
(there is no intermediate state in which the lock is free). -/
theorem rw_downgrade_atomic (s : Word) (t : Th) (rest : List Op) (hops : t.ops = .downgrade :: rest)
    (hpc : t.pc = .start) (hph : t.phase = .holdW) :
    let o := stepTh s t
    o.1 = { s with w := false, r := s.r + 1 } ∧ o.2.2.1.phase = .holdR ∧ o.2.2.1.ops = rest := by
  simp [stepTh, hops, hpc, hph, Op.pre, stepOp, stepDowngrade, Th.done]

/-- **No lost grant.** In every reachable state in which nobody holds the lock and nobody is in the middle of
an acquisition step, the word shows the lock free (no WRITER bit, no readers), and the WRITER_PENDING hint can
only be set if some thread is actually inside `lock()` — so a reader is never kept out by a stale hint. -/
theorem rw_no_lost_grant (progs : List (List Op)) (sched : List Tid)
    (st : St) (hst : st = (sys progs).run sched) :
    cnt .holdW st.ths = 0 → cnt .holdR st.ths = 0 → cnt .rt st.ths = 0 → cnt .upgWait st.ths = 0 → cnt .upgReady st.ths = 0 →
    st.word.w = false ∧ st.word.r = 0 ∧ (st.word.p = true → 0 < nLock st.ths) := by
  subst hst
  intro a b c d e
  have h := inv_reachable progs sched
  refine ⟨?_, by have := h.hr; omega, fun hp => by have := h.hl hp; omega⟩
  have := h.hw
  cases hw : ((sys progs).run sched).word.w
  · rfl
  · rw [hw] at this; simp at this; omega

/-- … and a thread waiting in `lock()` does take a free lock with its next two accesses if it runs undisturbed
(load sees "not busy", the CAS against the same word succeeds). -/
theorem rw_lock_acquires_when_free (s : Word) (t : Th) (rest : List Op) (hops : t.ops = .lock :: rest)
    (hpc : t.pc = .start) (hph : t.phase = .idle) (hw : s.w = false) (hr : s.r = 0) :
    let o1 := stepTh s t
    let o2 := stepTh o1.1 o1.2.2.1
    o1.1 = s ∧ o2.2.2.1.phase = .holdW ∧ o2.1 = { w := true, p := false, r := 0 } := by
  have hb : busy s = false := by simp [busy, hw, hr]
  simp [stepTh, hops, hpc, hph, Op.pre, stepOp, stepLock, lockBody, hb, Th.done]

/-- … and a thread waiting in `lock_shared()` takes a lock with no writer and no pending hint in two accesses. -/
theorem rw_lock_shared_acquires_when_free (s : Word) (t : Th) (rest : List Op) (hops : t.ops = .lockShared :: rest)
    (hpc : t.pc = .start) (hph : t.phase = .idle) (hw : s.w = false) (hp : s.p = false) :
    let o1 := stepTh s t
    let o2 := stepTh o1.1 o1.2.2.1
    o1.1 = s ∧ o2.2.2.1.phase = .holdR ∧ o2.1 = { s with r := s.r + 1 } := by
  simp [stepTh, hops, hpc, hph, Op.pre, stepOp, stepShared, hw, hp, Th.done]

/-! ### spin_mutex -/

/-- **Mutual exclusion of spin_mutex**: in every reachable state the number of holders is 1 if the flag is set
and 0 otherwise; in particular never two. -/
theorem spin_mutex_excl (progs : List (List SOp)) (sched : List Tid)
    (st : SSt) (hst : st = (ssys progs).run sched) :
    nHold st.ths = (if st.flag then 1 else 0) ∧ nHold st.ths ≤ 1 := by
  subst hst
  have h := (sinv_reachable progs sched).h
  refine ⟨h, ?_⟩
  split at h <;> omega

/-- try_lock on spin_mutex is one access; it reports success iff that access found the flag clear. -/
theorem spin_try_lock_truthful (f : Bool) (t : STh) (rest : List SOp) (hops : t.ops = .tryLock :: rest) :
    let o := sstepTh f t
    o.2.1.ops = rest ∧ (o.2.1.results = 1 :: t.results ↔ f = false) ∧ (f = false → o.2.1.holds = true) := by
  cases f <;> simp [sstepTh, hops]

/-! ### non-vacuity: concrete runs exercising the interesting paths -/

/-- two readers upgrade concurrently: one upgrades in place (true), the other releases and re-acquires (false) -/
example :
    let st := (sys [[.lockShared, .upgrade, .unlock], [.lockShared, .upgrade, .unlock]]).run
      [0, 0, 1, 1, 0, 0, 1, 1, 1, 0, 0, 0, 0, 1, 1, 1]
    st.word.enc = 0 ∧ st.bad = false ∧ (st.ths.map (·.results)) = [[1], [0]] := by decide

example :
    let st := (ssys [[.lock, .unlock], [.tryLock, .lock, .unlock]]).run [0, 1, 1, 0, 1, 1]
    st.flag = false ∧ (st.ths.map (·.results)) = [[], [0]] := by decide

end TbbVerif.C08
