import TbbVerif.Proofs.C05
namespace TbbVerif.C05
theorem placeholder : splitMid { b := 0, e := 10, g := 1 } = ({ b := 0, e := 5, g := 1 }, { b := 5, e := 10, g := 1 }) := by decide
end TbbVerif.C05
