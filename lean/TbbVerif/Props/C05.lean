/-
C05 — property theorems (statements only live here; helper lemmas are in Proofs/C05/*.lean).

Property: parallel_for (all range types, all four partitioners) applies the body exactly once to every element
of the iteration space and to nothing outside it when the loop completes normally; every subrange handed to a
body is non-empty, subranges are pairwise disjoint and cover the range, an indivisible range is never split,
simple_partitioner chunks of a blocked_range have size in [⌈g/2⌉, g] — for every range size, grain, number of
threads and steal pattern.

How the quantifiers are met: sizes/grains are universally quantified naturals `< 2^64`; "number of threads" is the
universally quantified `P` (`max_concurrency()`); "every steal pattern" is the universally quantified environment
`E : Env σ` over an arbitrary state type `σ` — it answers every `is_stolen_task`, `parent ref count ≥ 2`,
`is_peer_stolen` and cancellation read however it likes (`bitsEnv` is the instance "arbitrary stream of bits").
Model functions use fuel; every theorem holds for every fuel for which the run finishes (`= some …`);
`simple_terminates_example`-style `example`s show non-vacuity.
-/
import TbbVerif.Proofs.C05

namespace TbbVerif.C05

/-! ## blocked_range: the two splitting constructors -/

/-- **Midpoint split stays inside.**  `blocked_range(r, split)` of a divisible range `[b,e)` (grain `g < e-b`):
`r` keeps `[b,m)`, the new range is `[m,e)` with `m = b + (e-b)/2` and `b < m < e` — both parts non-empty,
adjacent, covering; grain unchanged.  No overflow for any `e < 2^64`. -/
theorem split_mid_inside (b e g : Nat) (hbe : b ≤ e) (he : e < 2 ^ 64) (hg : 1 ≤ g) (hdiv : g < e - b) :
    splitMid { b := b, e := e, g := g } =
      ({ b := b, e := b + (e - b) / 2, g := g }, { b := b + (e - b) / 2, e := e, g := g }) ∧
    b < b + (e - b) / 2 ∧ b + (e - b) / 2 < e := by
  have hw : WF1 { b := b, e := e, g := g } := ⟨hbe, he, hg⟩
  obtain ⟨m, hm, h1, h2, h3⟩ := splitMid_spec hw ((R1.divisible_iff hw).2 hdiv)
  simp only at h3
  subst h3
  exact ⟨hm, h1, h2⟩

/-- `is_divisible()` is exactly `grainsize < size`, and an indivisible range has at most `g` elements. -/
theorem divisible_iff (b e g : Nat) (hbe : b ≤ e) (he : e < 2 ^ 64) (hg : 1 ≤ g) :
    (R1.divisible { b := b, e := e, g := g } = true ↔ g < e - b) :=
  R1.divisible_iff ⟨hbe, he, hg⟩

/-- **The float proportional split stays inside**, for every size `2 ≤ size < 2^64` — including sizes above
`2^24` and `2^32` where `float(size)` is inexact — and every proportion `get_split` can produce
(`1 ≤ right ≤ left ≤ right+1`, `left+right < 2^24`): the C++ expression
`size_type(float(size) * float(right) / float(left + right) + 0.5f)` is defined (no infinity / out-of-range
conversion) and its value satisfies `1 ≤ right_part ≤ size-1`. -/
theorem split_prop_inside (size l r : Nat) (hs : 2 ≤ size) (hs' : size < 2 ^ 64) (hok : PropOK l r) :
    ∃ rp, propRightPart size l r = some rp ∧ 1 ≤ rp ∧ rp ≤ size - 1 := by
  obtain ⟨rp, h⟩ := propRightPart_isSome size l r hs hs' hok
  have := propRightPart_bounds size l r rp hs hok h
  exact ⟨rp, h, this.1, by omega⟩

/-- … hence `blocked_range(r, proportional_split(l, r))` of a divisible range cuts at `b < m < e`. -/
theorem split_prop_range_inside (b e g l rt : Nat) (hbe : b ≤ e) (he : e < 2 ^ 64) (hg : 1 ≤ g) (hdiv : g < e - b)
    (hok : PropOK l rt) :
    ∃ m, splitProp { b := b, e := e, g := g } l rt = some ({ b := b, e := m, g := g }, { b := m, e := e, g := g }) ∧
      b < m ∧ m < e := by
  have hw : WF1 { b := b, e := e, g := g } := ⟨hbe, he, hg⟩
  have hd := (R1.divisible_iff hw).2 hdiv
  obtain ⟨a, c, hs⟩ := splitProp_isSome (l := l) (rt := rt) hw hd hok
  obtain ⟨m, ha, hc, h1, h2⟩ := splitProp_spec hw hd hok hs
  exact ⟨m, by rw [hs, ha, hc], h1, h2⟩

/-- The rounding model itself: `fl p` (round to nearest, ties to even, `p` significant bits) has relative error at
most `2^-p` and is exact on integers below `2^p`. -/
theorem float_model_sound (p : Nat) (hp : 1 ≤ p) :
    (∀ q : Rat, 0 < q → fl p q ≤ q * (1 + 1 / 2 ^ p) ∧ q * (1 - 1 / 2 ^ p) ≤ fl p q) ∧
    (∀ n : Nat, n < 2 ^ p → fl p (n : Rat) = n) :=
  ⟨fun q hq => fl_err p hp q hq, fun n hn => fl_natCast p n hp hn⟩

/-! ## 2d / 3d / nd: the dimension that is cut -/

/-- **No indivisible dimension is ever cut** by `blocked_range2d`, `blocked_range3d`, `blocked_nd_range`:
whenever some dimension is divisible, `do_split` selects a valid index of a divisible dimension — for all sizes
and grains, with no exactness side condition.  This holds because the comparison is *guarded*
(`second.is_divisible() && (!first.is_divisible() || ratio comparison)`); which rule the code has is regenerated
from the current tree (`Generated.C05.sel2Guarded` …).  With the bare binary64 ratio comparison this theorem is
false: for rows `[0,1)` grain 1 and cols `[0,2^53+1)` grain `2^53` both products round to `2^53`, the tie picks the
indivisible rows and the split returns an empty range plus a copy of the original. -/
theorem nd_split_never_cuts_indivisible :
    (∀ rows cols : R1, SelOK sel2 [rows, cols]) ∧ (∀ pages rows cols : R1, SelOK sel3 [pages, rows, cols]) ∧
    (∀ d : List R1, SelOK selNd d) := by
  have g2 : Generated.C05.sel2Guarded = true := by decide
  have g3 : Generated.C05.sel3Guarded = true := by decide
  have gn : Generated.C05.selNdGuarded = true := by decide
  refine ⟨fun rows cols => ?_, fun pages rows cols => ?_, fun d => ?_⟩
  · exact sel2_ok (D := fun _ => True) (by rw [g2]; exact pickLaw_guarded) rows cols trivial trivial
  · exact sel3_ok (D := fun _ => True) (by rw [g3]; exact pickLaw_guarded) pages rows cols trivial trivial trivial
  · exact selNd_ok (D := fun _ => True) (by rw [gn]; exact pickLaw_guarded) d (fun _ _ => trivial)

/-- well-formed N-d range: every dimension has `begin ≤ end < 2^64` and grain `≥ 1` -/
def WFd (n : Nat → Prop) (d : List R1) : Prop := WFN n (fun _ => True) d

/-- the Range laws for the three multi-dimensional range types (a consequence of the theorem above) -/
def sem2 : RangeSem (opsN sel2) :=
  semN sel2 (· = 2) (fun _ => True) extraShrinks_true (by
    intro d hw _
    match d, hw with
    | [rows, cols], _ => exact nd_split_never_cuts_indivisible.1 rows cols
    | [], hw => exact absurd hw.1 (by simp)
    | [_], hw => exact absurd hw.1 (by simp)
    | _ :: _ :: _ :: _, hw => exact absurd hw.1 (by simp))

def sem3 : RangeSem (opsN sel3) :=
  semN sel3 (· = 3) (fun _ => True) extraShrinks_true (by
    intro d hw _
    match d, hw with
    | [pages, rows, cols], _ => exact nd_split_never_cuts_indivisible.2.1 pages rows cols
    | [], hw => exact absurd hw.1 (by simp)
    | [_], hw => exact absurd hw.1 (by simp)
    | [_, _], hw => exact absurd hw.1 (by simp)
    | _ :: _ :: _ :: _ :: _, hw => exact absurd hw.1 (by simp))

def semNd : RangeSem (opsN selNd) :=
  semN selNd (1 ≤ ·) (fun _ => True) extraShrinks_true (fun d _ _ => nd_split_never_cuts_indivisible.2.2 d)

/-! ## range_vector -/

/-- **rangevec_tiles.**  Start the 8-slot ring `range_vector` with a range `r` and apply any sequence of the
operations `work_balance` uses (`split_to_fill(max_depth)`, `pop_back`, `pop_front`; each a no-op on an empty pool,
where the code asserts).  Then at every moment: the ring stores at most `capacity` ranges, its `my_size` is the
number of stored ranges, the stored ranges are found at the distinct slots `(my_head - j) mod capacity` (ring
indices never collide), and the stored ranges together with the ranges that have left the pool are the leaves of a
legal split tree of `r` — the pool always tiles what remains of the task's range. -/
theorem rangevec_tiles {R : Type} (ops : RangeOps R) (r : R) (os : List RV.Op) :
    let st := os.foldl (RV.step ops) (RV.init r, [])
    ∃ items, RV.Inv st.1 items ∧ st.1.toList = items ∧ st.1.size = items.length ∧ items.length ≤ Generated.C05.poolCapacity ∧
      (∀ j j', j < items.length → j' < items.length → st.1.slot j = st.1.slot j' → j = j') ∧
      Leaves ops r (items.map Prod.fst ++ st.2) := by
  intro st
  have key : ∀ (os : List RV.Op) (s0 : RV R × List R),
      (∃ items, RV.Inv s0.1 items ∧ Leaves ops r (items.map Prod.fst ++ s0.2)) →
      ∃ items, RV.Inv (os.foldl (RV.step ops) s0).1 items ∧ Leaves ops r (items.map Prod.fst ++ (os.foldl (RV.step ops) s0).2) := by
    intro os
    induction os with
    | nil => intro s0 h; simpa using h
    | cons o os ih => intro s0 h; exact ih _ (RV.step_inv ops r s0 o h)
  obtain ⟨items, hi, hl⟩ := key os (RV.init r, []) ⟨[(r, 0)], RV.inv_init r, by simpa using Leaves.refl (ops := ops) r⟩
  refine ⟨items, hi, RV.toList_eq hi, hi.size, hi.le, ?_, hl⟩
  intro j j' hj hj' he
  exact RV.slot_inj _ hi.head j j' (Nat.lt_of_lt_of_le hj hi.le) (Nat.lt_of_lt_of_le hj' hi.le) he

/-- the ring operations act on the stored list exactly like the list operations the task model uses -/
theorem rangevec_refines {R : Type} (ops : RangeOps R) (v : RV R) (items : List (R × Nat)) (h : RV.Inv v items) :
    (∀ md f, items ≠ [] → RV.Inv (RV.splitToFill ops md f v) (fillPool ops md f items)) ∧
    (∀ x rest, items = x :: rest → v.back = some x.1 ∧ v.backDepth = x.2 ∧ RV.Inv v.popBack rest) ∧
    (∀ x init, items = init ++ [x] → v.front = some x.1 ∧ RV.Inv v.popFront init) := by
  refine ⟨fun md f hne => RV.inv_splitToFill ops md f v items h hne, ?_, ?_⟩
  · intro x rest he; subst he
    exact ⟨(RV.back_eq h).1, (RV.back_eq h).2, RV.inv_popBack h⟩
  · intro x init he; subst he
    exact ⟨RV.front_eq h, RV.inv_popFront h⟩

/-! ## Partition objects -/

/-- The proportions the static and affinity partitioners hand to the range are always legal: whenever
`is_divisible()` says yes, `get_split()` yields `left:right` with `1 ≤ right ≤ left ≤ right+1` (so the float split
above applies), and both partition objects keep the invariant (divisor a multiple of the factor, `< 2^24·factor`). -/
theorem partition_proportions_legal (p p' : Part) (hk : p.kind = .static ∨ p.kind = .affinity) (hi : PartInv p)
    (hd : partIsDivisible p = (true, p')) :
    let n := p.divisor / factor p.kind
    PropOK (n - n / 2) (n / 2) ∧ PartInv (partPSplit p (n - n / 2) (n / 2)).1 ∧ PartInv (partPSplit p (n - n / 2) (n / 2)).2 := by
  intro n
  obtain ⟨_, hok⟩ := propOK_of_divisible p p' hk hi hd
  have hgt : p.divisor > factor p.kind := by
    unfold partIsDivisible at hd
    rcases hk with hkk | hkk
    · rw [hkk] at hd ⊢; simp only [Prod.mk.injEq, decide_eq_true_eq] at hd; exact hd.1
    · rw [hkk] at hd ⊢; simp only [Prod.mk.injEq, decide_eq_true_eq] at hd; exact hd.1
  obtain ⟨i1, i2, _, _⟩ := partPSplit_inv p hk hi hgt n rfl
  exact ⟨hok, i1, i2⟩

/-- every root partition object satisfies the invariant when `max_concurrency() < 2^24` -/
theorem partition_init_ok (k : Kind) (P slot : Nat) (hP : P < 2 ^ 24) : PartInv (initPart k P slot) :=
  partInv_init k P slot hP

/-! ## One task, every steal pattern -/

section generic
variable {R σ : Type} {ops : RangeOps R} (S : RangeSem ops) (E : Env σ)

/-- **task_tiles.**  For every range type satisfying the range laws, every partitioner, every partition state
satisfying the invariant, *every environment* (every pattern of stolen / parent-ref / peer-stolen / cancelled
answers) and every fuel: if the `start_for` task finishes, then the ranges it ran the body on, the ranges it gave to
the children it spawned and the ranges it dropped because of cancellation are, up to order, the leaves of a legal
split tree of its range (every inner node a *divisible* range cut by one of the two splitting constructors).
Consequently every such range is non-empty, every point of the task's range lies in exactly one of them and points
outside lie in none, an indivisible range is run whole, the children get invariant-satisfying partition objects,
and nothing is dropped unless the environment reported cancellation. -/
theorem task_tiles (fuel : Nat) (r : R) (p : Part) (s s' : σ) (evs : List (Ev R)) (hg : S.Good r) (hi : PartInv p)
    (h : execTask ops E fuel r p s = some (evs, s')) :
    Leaves ops r (evR evs) ∧
    (∀ x ∈ evR evs, S.WF x ∧ ops.isEmpty x = false) ∧
    (∀ pt, (evR evs).countP (S.memb pt) = (S.memb pt r).toNat) ∧
    (ops.divisible r = false → evR evs = [r]) ∧
    (∀ r' p', Ev.spawn r' p' ∈ evs → PartInv p') ∧
    (NoCancel E → ∀ r', Ev.drop r' ∉ evs) := by
  obtain ⟨hl, hk⟩ := execTask_inv (ops := ops) (E := E) fuel r p s s' evs hi h
  obtain ⟨h1, h2⟩ := hl.sound S hg
  exact ⟨hl, h1, h2, fun hd => hl.indivisible hd, hk.1, hk.2⟩

/-- **loop_exactly_once.**  `start_for::run(range, body, partitioner)` for a well-formed range, `max_concurrency()
= P < 2^24`, any calling slot, any partitioner, *any environment*, any fuel for which the closure over the task
tree finishes: the chunks handed to the body together with the ranges dropped by cancellation are the leaves of a
legal split tree of the range — each is non-empty, and every point is in exactly as many of them as it is in the
range (1 inside, 0 outside; an empty range produces nothing at all).  If the environment never reports
cancellation nothing is dropped, so this is a statement about the chunks alone. -/
theorem loop_exactly_once [DecidableEq R] (fuel : Nat) (k : Kind) (P slot : Nat) (r : R) (s s' : σ) (ran dropped : List R)
    (hw : S.WF r) (hP : P < 2 ^ 24) (h : runLoop ops E fuel k P slot r s = some (ran, dropped, s')) :
    (∀ x ∈ ran ++ dropped, S.WF x ∧ ops.isEmpty x = false) ∧
    (∀ pt, (ran ++ dropped).countP (S.memb pt) = (S.memb pt r).toNat) ∧
    (NoCancel E → dropped = []) ∧
    (ops.isEmpty r = false → Leaves ops r (ran ++ dropped)) := by
  unfold runLoop at h
  split at h
  · rename_i he
    simp only [Option.some.injEq, Prod.mk.injEq] at h
    obtain ⟨h1, h2, _⟩ := h
    subst h1; subst h2
    refine ⟨by simp, fun pt => ?_, fun _ => rfl, fun hne => by rw [he] at hne; cases hne⟩
    simp [S.empty_no_mem r pt hw he]
  · rename_i he
    have he' : ops.isEmpty r = false := by simpa using he
    obtain ⟨hl, hnd⟩ := runTasks_inv (ops := ops) (E := E) (r0 := r) fuel [(r, initPart k P slot)] s [] [] ran dropped s'
      (by simpa using Leaves.refl (ops := ops) r) (by intro x hx; simp only [List.mem_singleton] at hx; subst hx; exact partInv_init k P slot hP) h
    obtain ⟨g1, g2⟩ := hl.sound S ⟨hw, he'⟩
    exact ⟨g1, g2, hnd, fun _ => hl⟩

end generic

/-! ### the same, spelled out for `blocked_range<size_t>` -/

/-- **Exactly once, 1-d.**  For every `[b,e)` with `e < 2^64`, every grain `g ≥ 1`, every partitioner, every
`P < 2^24`, every environment that never reports cancellation: every chunk `[c.b, c.e)` handed to the body is
non-empty and inside `[b,e)`, and every index `i` is covered by exactly one chunk if `b ≤ i < e` and by none
otherwise. -/
theorem loop_exactly_once_1d {σ : Type} (E : Env σ) (fuel : Nat) (k : Kind) (P slot b e g : Nat) (s s' : σ)
    (ran dropped : List R1) (hbe : b ≤ e) (he : e < 2 ^ 64) (hg : 1 ≤ g) (hP : P < 2 ^ 24) (hnc : NoCancel E)
    (h : runLoop ops1 E fuel k P slot { b := b, e := e, g := g } s = some (ran, dropped, s')) :
    dropped = [] ∧ (∀ c ∈ ran, c.b < c.e) ∧
    ∀ i, ran.countP (fun c => decide (c.b ≤ i ∧ i < c.e)) = if b ≤ i ∧ i < e then 1 else 0 := by
  obtain ⟨h1, h2, h3, _⟩ := loop_exactly_once sem1 E fuel k P slot _ s s' ran dropped ⟨hbe, he, hg⟩ hP h
  have hd := h3 hnc
  subst hd
  simp only [List.append_nil] at h1 h2
  refine ⟨rfl, fun c hc => (R1.isEmpty_iff c).1 (h1 c hc).2, fun i => ?_⟩
  have := h2 i
  show List.countP (mem1 i) ran = _
  simp only [sem1] at this
  rw [this]
  by_cases hi : b ≤ i ∧ i < e <;> simp [mem1, hi]

/-- **Exactly once, 2d / 3d / nd.**  The same for boxes: every chunk is a non-empty box and every point (a list of
coordinates) is in exactly one chunk if it is in the box and in none otherwise. -/
theorem loop_exactly_once_nd {σ : Type} (E : Env σ) (fuel : Nat) (k : Kind) (P slot : Nat) (d : List R1) (s s' : σ)
    (ran dropped : List (List R1)) (hwf : ∀ r ∈ d, WF1 r) (hP : P < 2 ^ 24) (hnc : NoCancel E) :
    (d.length = 2 → runLoop (opsN sel2) E fuel k P slot d s = some (ran, dropped, s') →
      dropped = [] ∧ (∀ c ∈ ran, c.any R1.isEmpty = false) ∧ ∀ pt, ran.countP (memN pt) = (memN pt d).toNat) ∧
    (d.length = 3 → runLoop (opsN sel3) E fuel k P slot d s = some (ran, dropped, s') →
      dropped = [] ∧ (∀ c ∈ ran, c.any R1.isEmpty = false) ∧ ∀ pt, ran.countP (memN pt) = (memN pt d).toNat) ∧
    (1 ≤ d.length → runLoop (opsN selNd) E fuel k P slot d s = some (ran, dropped, s') →
      dropped = [] ∧ (∀ c ∈ ran, c.any R1.isEmpty = false) ∧ ∀ pt, ran.countP (memN pt) = (memN pt d).toNat) := by
  refine ⟨fun hl h => ?_, fun hl h => ?_, fun hl h => ?_⟩
  · obtain ⟨h1, h2, h3, _⟩ := loop_exactly_once sem2 E fuel k P slot d s s' ran dropped ⟨hl, hwf, trivial⟩ hP h
    have hd := h3 hnc; subst hd
    simp only [List.append_nil] at h1 h2
    exact ⟨rfl, fun c hc => (h1 c hc).2, h2⟩
  · obtain ⟨h1, h2, h3, _⟩ := loop_exactly_once sem3 E fuel k P slot d s s' ran dropped ⟨hl, hwf, trivial⟩ hP h
    have hd := h3 hnc; subst hd
    simp only [List.append_nil] at h1 h2
    exact ⟨rfl, fun c hc => (h1 c hc).2, h2⟩
  · obtain ⟨h1, h2, h3, _⟩ := loop_exactly_once semNd E fuel k P slot d s s' ran dropped ⟨hl, hwf, trivial⟩ hP h
    have hd := h3 hnc; subst hd
    simp only [List.append_nil] at h1 h2
    exact ⟨rfl, fun c hc => (h1 c hc).2, h2⟩

/-- **simple_chunk_bounds.**  With `simple_partitioner` on a `blocked_range` of at least `g` elements every chunk
handed to the body has between `⌈g/2⌉` and `g` elements — for every environment and number of threads. -/
theorem simple_chunk_bounds {σ : Type} (E : Env σ) (fuel P slot b e g : Nat) (s s' : σ) (ran dropped : List R1)
    (hbe : b ≤ e) (he : e < 2 ^ 64) (hg : 1 ≤ g) (hsz : g ≤ e - b)
    (h : runLoop ops1 E fuel .simple P slot { b := b, e := e, g := g } s = some (ran, dropped, s')) :
    ∀ c ∈ ran, (g + 1) / 2 ≤ c.e - c.b ∧ c.e - c.b ≤ g := by
  unfold runLoop at h
  split at h
  · simp only [Option.some.injEq, Prod.mk.injEq] at h
    obtain ⟨h1, _, _⟩ := h
    subst h1
    intro c hc; cases hc
  · have := runTasks_simple_bounds (E := E) g fuel [({ b := b, e := e, g := g }, initPart .simple P slot)] s [] [] ran dropped s'
      (by
        intro x hx
        simp only [List.mem_singleton] at hx
        subst hx
        exact ⟨⟨⟨hbe, he, hg⟩, rfl, by simp only; omega⟩, rfl⟩)
      (by intro c hc; cases hc) h
    intro c hc
    exact ⟨(this c hc).1.2.2, (this c hc).2⟩

/-- **Termination (simple_partitioner, blocked_range).**  For every environment, number of threads and input the
closure over the task tree finishes with fuel `size + 2`: the `= some …` hypotheses of the theorems above are
satisfiable for every input, so those theorems are not vacuous. -/
theorem simple_terminates {σ : Type} (E : Env σ) (P slot b e g : Nat) (s : σ) (hbe : b ≤ e) (he : e < 2 ^ 64) (hg : 1 ≤ g) :
    ∃ res, runLoop ops1 E (e - b + 2) .simple P slot { b := b, e := e, g := g } s = some res := by
  unfold runLoop
  split
  · exact ⟨_, rfl⟩
  · rename_i hne
    have hne' : b < e := by
      have h1 : ops1.isEmpty { b := b, e := e, g := g } = false := by simpa using hne
      have h2 : R1.isEmpty { b := b, e := e, g := g } = false := h1
      exact (R1.isEmpty_iff _).1 h2
    apply runTasks_simple_total
    · intro x hx
      simp only [List.mem_singleton] at hx
      subst hx
      exact ⟨⟨hbe, he, hg⟩, hne', rfl⟩
    · simp [workSz, sz]

/-! ## parallel_for(first, last, step, f) -/

/-- **strided_index_map.**  The `(first, last, step)` overload runs a `blocked_range [0, end)` with
`end = (last-first-1)/step + 1` and calls `f(first + i*step)` for iteration `i`: this enumerates exactly the values
`v` with `first ≤ v < last` and `(v - first) % step = 0`, each for exactly one `i` (under the documented
precondition that the trip count is representable, here: naturals). -/
theorem strided_index_map (first last step : Nat) (hs : 1 ≤ step) :
    (∀ v, (∃ i, i < stridedEnd first last step ∧ stridedIndex first step i = v) ↔
      (first ≤ v ∧ v < last ∧ (v - first) % step = 0)) ∧
    (∀ i j, stridedIndex first step i = stridedIndex first step j → i = j) :=
  ⟨strided_mem first last step hs, fun i j => strided_inj first step i j hs⟩

/-! ### the index form on the fixed-width Index types

`Generated.C05Stride.cnt_T` / `cntCtx_T` are the expressions `Index end = …` of the two `parallel_for_impl` overloads
(without / with a task_group_context), `stepBad*` / `nonEmpty*` their guards, `idx0_T` / `idxNext_T` the index
arithmetic of `parallel_for_body_wrapper::operator()`, all REGENERATED from the text of parallel_for.h on every run
for `T` = short, unsigned short, int, unsigned, long long, unsigned long long (= size_t), with the integral promotions,
the usual arithmetic conversions, the `1ul` literal and the narrowing `Index(…)` as g++/LP64 performs them. -/

open Generated.C05Stride in
/-- **strided_count_exact.**  For every Index type, both overloads, and all `first < last`, `step > 0` representable in
Index (for the signed types: with an extent `last - first` representable in Index — otherwise `last - first` itself
overflows), the iteration count the code computes is `⌈(last - first)/step⌉` as a mathematical integer: it is positive,
representable, `(count - 1)·step < last - first ≤ count·step`.  (The textbook formula `(last - first + step - 1)/step`
does not satisfy this: its intermediate sum leaves the range of Index.) -/
theorem strided_count_exact :
    (CountExactS 32768 cnt_i16 ∧ CountExactS 32768 cntCtx_i16) ∧
    (CountExactU 65536 cnt_u16 ∧ CountExactU 65536 cntCtx_u16) ∧
    (CountExactS 2147483648 cnt_i32 ∧ CountExactS 2147483648 cntCtx_i32) ∧
    (CountExactU 4294967296 cnt_u32 ∧ CountExactU 4294967296 cntCtx_u32) ∧
    (CountExactS 9223372036854775808 cnt_i64 ∧ CountExactS 9223372036854775808 cntCtx_i64) ∧
    (CountExactU 18446744073709551616 cnt_u64 ∧ CountExactU 18446744073709551616 cntCtx_u64) :=
  ⟨⟨countS_of_eq cnt_i16_eq, countS_of_eq cntCtx_i16_eq⟩, ⟨countU_of_eq cnt_u16_eq, countU_of_eq cntCtx_u16_eq⟩,
   ⟨countS_of_eq cnt_i32_eq, countS_of_eq cntCtx_i32_eq⟩, ⟨countU_of_eq cnt_u32_eq, countU_of_eq cntCtx_u32_eq⟩,
   ⟨countS_of_eq cnt_i64_eq, countS_of_eq cntCtx_i64_eq⟩, ⟨countU_of_eq cnt_u64_eq, countU_of_eq cntCtx_u64_eq⟩⟩

open Generated.C05Stride in
/-- **strided_guards_exact.**  For every Index type and both overloads: the call throws `nonpositive_step` exactly when
`step ≤ 0`, runs a loop exactly when `first < last`, and the blocked_range it runs starts at 0. -/
theorem strided_guards_exact :
    (GuardsExactS 32768 stepBad_i16 nonEmpty_i16 ∧ GuardsExactS 32768 stepBadCtx_i16 nonEmptyCtx_i16) ∧
    (GuardsExactU 65536 stepBad_u16 nonEmpty_u16 ∧ GuardsExactU 65536 stepBadCtx_u16 nonEmptyCtx_u16) ∧
    (GuardsExactS 2147483648 stepBad_i32 nonEmpty_i32 ∧ GuardsExactS 2147483648 stepBadCtx_i32 nonEmptyCtx_i32) ∧
    (GuardsExactU 4294967296 stepBad_u32 nonEmpty_u32 ∧ GuardsExactU 4294967296 stepBadCtx_u32 nonEmptyCtx_u32) ∧
    (GuardsExactS 9223372036854775808 stepBad_i64 nonEmpty_i64 ∧ GuardsExactS 9223372036854775808 stepBadCtx_i64 nonEmptyCtx_i64) ∧
    (GuardsExactU 18446744073709551616 stepBad_u64 nonEmpty_u64 ∧ GuardsExactU 18446744073709551616 stepBadCtx_u64 nonEmptyCtx_u64) ∧
    (rangeBegin_i16 = 0 ∧ rangeBeginCtx_i16 = 0 ∧ rangeBegin_u16 = 0 ∧ rangeBeginCtx_u16 = 0 ∧ rangeBegin_i32 = 0 ∧ rangeBeginCtx_i32 = 0 ∧
     rangeBegin_u32 = 0 ∧ rangeBeginCtx_u32 = 0 ∧ rangeBegin_i64 = 0 ∧ rangeBeginCtx_i64 = 0 ∧ rangeBegin_u64 = 0 ∧ rangeBeginCtx_u64 = 0) :=
  ⟨guards_i16, guards_u16, guards_i32, guards_u32, guards_i64, guards_u64, range_begin_zero⟩

open Generated.C05Stride in
/-- **strided_index_exact.**  For every Index type and both overloads: a chunk of the blocked_range `[0, count)` that
starts at iteration `b` passes `first + (b + j)·step` (a mathematical integer: no wrap-around, no truncation) to the
functor at its `j`-th iteration, for every iteration `b + j < count`.  Together with `strided_count_exact` and
`strided_index_map` the functor sees exactly `first, first + step, … < last`, each once per visited iteration. -/
theorem strided_index_exact :
    (IndexExactS 32768 cnt_i16 idx0_i16 idxNext_i16 ∧ IndexExactS 32768 cntCtx_i16 idx0_i16 idxNext_i16) ∧
    (IndexExactU 65536 cnt_u16 idx0_u16 idxNext_u16 ∧ IndexExactU 65536 cntCtx_u16 idx0_u16 idxNext_u16) ∧
    (IndexExactS 2147483648 cnt_i32 idx0_i32 idxNext_i32 ∧ IndexExactS 2147483648 cntCtx_i32 idx0_i32 idxNext_i32) ∧
    (IndexExactU 4294967296 cnt_u32 idx0_u32 idxNext_u32 ∧ IndexExactU 4294967296 cntCtx_u32 idx0_u32 idxNext_u32) ∧
    (IndexExactS 9223372036854775808 cnt_i64 idx0_i64 idxNext_i64 ∧ IndexExactS 9223372036854775808 cntCtx_i64 idx0_i64 idxNext_i64) ∧
    (IndexExactU 18446744073709551616 cnt_u64 idx0_u64 idxNext_u64 ∧ IndexExactU 18446744073709551616 cntCtx_u64 idx0_u64 idxNext_u64) :=
  ⟨index_i16, index_u16, index_i32, index_u32, index_i64, index_u64⟩

open Generated.C05Stride in
/-- **strided_count_is_model_end.**  Link to the unbounded model used by `strided_index_map`: on admissible arguments the
regenerated count of `size_t` / `unsigned` / `unsigned short` is the model's `stridedEnd`, and for the signed types it
is `stridedEnd 0 (last - first) step` (shift the iteration space to 0). -/
theorem strided_count_is_model_end :
    (∀ first last step, StrideArgsU 18446744073709551616 first last step → cnt_u64 first last step = stridedEnd first last step ∧ cntCtx_u64 first last step = stridedEnd first last step) ∧
    (∀ first last step, StrideArgsU 4294967296 first last step → cnt_u32 first last step = stridedEnd first last step ∧ cntCtx_u32 first last step = stridedEnd first last step) ∧
    (∀ first last step, StrideArgsU 65536 first last step → cnt_u16 first last step = stridedEnd first last step ∧ cntCtx_u16 first last step = stridedEnd first last step) ∧
    (∀ first last step, StrideArgsS 2147483648 first last step →
      cnt_i32 first last step = (stridedEnd 0 (last - first).toNat step.toNat : Nat) ∧ cntCtx_i32 first last step = (stridedEnd 0 (last - first).toNat step.toNat : Nat)) := by
  refine ⟨fun f l s a => ?_, fun f l s a => ?_, fun f l s a => ?_, fun f l s a => ?_⟩
  · simp only [stridedEnd, a.lt, if_true]; exact ⟨cnt_u64_eq f l s a, cntCtx_u64_eq f l s a⟩
  · simp only [stridedEnd, a.lt, if_true]; exact ⟨cnt_u32_eq f l s a, cntCtx_u32_eq f l s a⟩
  · simp only [stridedEnd, a.lt, if_true]; exact ⟨cnt_u16_eq f l s a, cntCtx_u16_eq f l s a⟩
  · have hlt := a.lt
    have hsp := a.sp
    have hpos : 0 < (l - f).toNat := by omega
    have e : ((stridedEnd 0 (l - f).toNat s.toNat : Nat) : Int) = (l - f - 1) / s + 1 := by
      simp only [stridedEnd, hpos, if_true, Nat.sub_zero]
      rw [Int.natCast_add, Int.natCast_ediv]
      have e1 : (((l - f).toNat - 1 : Nat) : Int) = l - f - 1 := by omega
      have e2 : ((s.toNat : Nat) : Int) = s := by omega
      rw [e1, e2]; rfl
    rw [e]
    exact ⟨cnt_i32_eq f l s a, cntCtx_i32_eq f l s a⟩


/-! ## Termination and size bounds for ALL four partitioners (blocked_range) -/

/-- **loop_terminates.**  For every partitioner (simple, auto, static, affinity), every environment (every pattern of
`is_stolen_task` / parent-ref / peer-stolen / cancellation answers), every `max_concurrency() = P < 2^24`, every slot and every
`[b,e)`, grain `g ≥ 1`: the closure over the task tree finishes with fuel `3·(e-b) + 3` — every task with fuel `2·size + 2`
(`execTask_total`), at most `e-b` tasks because every task runs (or, under cancellation, drops) at least one non-empty chunk.
So the `= some …` hypotheses of `loop_exactly_once` / `task_tiles` are satisfiable for every input and every steal pattern:
those theorems are about terminating executions for all four partitioners. -/
theorem loop_terminates {σ : Type} (E : Env σ) (k : Kind) (P slot b e g : Nat) (s : σ) (hbe : b ≤ e) (he : e < 2 ^ 64) (hg : 1 ≤ g)
    (hP : P < 2 ^ 24) : ∃ res, runLoop ops1 E (3 * (e - b) + 3) k P slot { b := b, e := e, g := g } s = some res := by
  unfold runLoop
  split
  · exact ⟨_, rfl⟩
  · rename_i hne
    have hne' : b < e := by
      have h1 : ops1.isEmpty { b := b, e := e, g := g } = false := by simpa using hne
      exact (R1.isEmpty_iff _).1 h1
    apply runTasks_total
    · intro x hx
      simp only [List.mem_singleton] at hx
      subst hx
      exact ⟨⟨⟨hbe, he, hg⟩, hne'⟩, partInv_init k P slot hP⟩
    · simp [workSz, sz]

/-- **loop_size_bounds.**  Whenever a loop over `[b,e)` finishes (any partitioner, environment, fuel): the chunks handed to the
body and the ranges dropped by cancellation are non-empty and their sizes add up to `e - b`; hence there are at most `e - b`
of them (number of leaves of the task tree ≤ size). -/
theorem loop_size_bounds {σ : Type} (E : Env σ) (fuel : Nat) (k : Kind) (P slot b e g : Nat) (s s' : σ) (ran dropped : List R1)
    (hbe : b ≤ e) (he : e < 2 ^ 64) (hg : 1 ≤ g) (hP : P < 2 ^ 24)
    (h : runLoop ops1 E fuel k P slot { b := b, e := e, g := g } s = some (ran, dropped, s')) :
    listSz (ran ++ dropped) = e - b ∧ (∀ c ∈ ran ++ dropped, 1 ≤ c.e - c.b) ∧ (ran ++ dropped).length ≤ e - b := by
  have hw : WF1 { b := b, e := e, g := g } := ⟨hbe, he, hg⟩
  obtain ⟨_, _, _, h4⟩ := loop_exactly_once sem1 E fuel k P slot _ s s' ran dropped hw hP h
  by_cases hemp : ops1.isEmpty { b := b, e := e, g := g } = true
  · unfold runLoop at h
    rw [if_pos hemp] at h
    simp only [Option.some.injEq, Prod.mk.injEq] at h
    obtain ⟨h1, h2, _⟩ := h
    subst h1; subst h2
    have : ¬ b < e := by
      intro hlt
      have := (R1.isEmpty_iff { b := b, e := e, g := g }).2 hlt
      have h' : R1.isEmpty { b := b, e := e, g := g } = true := hemp
      rw [this] at h'; cases h'
    refine ⟨by simp [listSz]; omega, by simp, by simp⟩
  · have hne : ops1.isEmpty { b := b, e := e, g := g } = false := by simpa using hemp
    have hlt : b < e := (R1.isEmpty_iff _).1 hne
    obtain ⟨hgood, hsum⟩ := (h4 hne).size1 ⟨hw, hlt⟩
    have hsz : sz ({ b := b, e := e, g := g } : R1) = e - b := rfl
    refine ⟨by rw [hsum, hsz], fun c hc => sz_pos (hgood c hc), ?_⟩
    have hlen : ∀ (L : List R1), (∀ x ∈ L, Good1 x) → L.length ≤ listSz L := by
      intro L
      induction L with
      | nil => intro _; simp [listSz]
      | cons x xs ih =>
        intro hL
        have h1 := sz_pos (hL x List.mem_cons_self)
        have h2 := ih (fun y hy => hL y (List.mem_cons_of_mem _ hy))
        simp only [List.length_cons, listSz]; omega
    have := hlen _ hgood
    rw [hsum, hsz] at this
    exact this

/-- **static_chunks_le_divisor.**  With `static_partitioner`, for every range type, every environment and every fuel for which the
loop finishes: every task hands exactly one chunk to the body, the divisors of the tasks add up to the initial divisor
`max_concurrency()·1`, so the body is called on at most `max 1 P` chunks (number of leaves of the task tree ≤ initial divisor). -/
theorem static_chunks_le_divisor {R σ : Type} (ops : RangeOps R) (E : Env σ) (fuel P slot : Nat) (r : R) (s s' : σ) (ran dropped : List R)
    (hP : P < 2 ^ 24) (h : runLoop ops E fuel .static P slot r s = some (ran, dropped, s')) :
    ran.length ≤ max 1 (Generated.C05.staticDivPerThread * P) := by
  unfold runLoop at h
  split at h
  · simp only [Option.some.injEq, Prod.mk.injEq] at h
    obtain ⟨h1, _, _⟩ := h
    subst h1
    simp
  · have := runTasks_static_count (ops := ops) (E := E) fuel [(r, initPart .static P slot)] s [] [] ran dropped s'
      (by intro x hx; simp only [List.mem_singleton] at hx; subst hx; exact ⟨rfl, partInv_init .static P slot hP⟩) h
    simpa [workWt, wtS, initPart] using this

/-! ## parallel_for_each -/

section each
open Each

/-- the state reached by `parallel_for_each` over the items `cfg.inp` (iterator category `cfg.cat`, feeder behaviour
`cfg.feeds`, `threads` per-thread reference vertices) after an arbitrary schedule -/
abbrev eachRun (cfg : Cfg) (threads : Nat) (sched : List Choice) : St := run cfg (initEach cfg threads) sched

/-- **Category dispatch and block sizes regenerated from the headers.**  `iterator_tag_dispatch` sends pointers, vector and
deque iterators, iterators whose tag derives from `random_access_iterator_tag`, and `move_iterator`s over them to the
`parallel_for` path (2); list / forward_list iterators and forward tags to `forward_block_handling_task` (1); `istream_iterator`
and input tags to `input_block_handling_task` (0); both block types hold at most `max_block_size = 4 ≥ 1` items; an
`invoke_subroot_task` handles 3 functions, adds 3 to its `ref_count` and spawns 2 invokers. -/
theorem for_each_generated :
    Generated.C05Each.dispatchPointer = 2 ∧ Generated.C05Each.dispatchVector = 2 ∧ Generated.C05Each.dispatchDeque = 2 ∧
    Generated.C05Each.dispatchCustomRandom = 2 ∧ Generated.C05Each.dispatchMoveVector = 2 ∧
    Generated.C05Each.dispatchList = 1 ∧ Generated.C05Each.dispatchForwardList = 1 ∧ Generated.C05Each.dispatchCustomForward = 1 ∧
    Generated.C05Each.dispatchMoveList = 1 ∧ Generated.C05Each.dispatchIstream = 0 ∧ Generated.C05Each.dispatchCustomInput = 0 ∧
    1 ≤ Generated.C05Each.maxBlockInput ∧ 1 ≤ Generated.C05Each.maxBlockForward ∧
    Generated.C05Each.invokeGroup = 3 ∧ Generated.C05Each.invokeSubrootRefs = 3 ∧ Generated.C05Each.invokeSubrootSpawns = 2 := by
  decide

/-- **The nested parallel_for provides `ChunksTile`.**  Whatever partitioner, number of threads, environment (without
cancellation) and fuel: if `parallel_for(blocked_range(0, n), wrapper)` finishes with chunk list `ran`, then for every input
sequence of length `n` the chunks, in any order, cut it into pieces that together are a permutation of it. -/
theorem for_each_random_chunks_tile {σ : Type} (E : Env σ) (hnc : NoCancel E) (fuel : Nat) (k : Kind) (P slot g : Nat) (s s' : σ)
    (ran dropped : List R1) (cfg : Cfg) (hn : cfg.inp.length < 2 ^ 64) (hg : 1 ≤ g) (hP : P < 2 ^ 24) (hne : cfg.inp ≠ [])
    (h : runLoop ops1 E fuel k P slot { b := 0, e := cfg.inp.length, g := g } s = some (ran, dropped, s')) :
    ChunksTile { cfg with chunks := ran.map (fun c => (c.b, c.e)) } := by
  have hw : WF1 { b := 0, e := cfg.inp.length, g := g } := ⟨Nat.zero_le _, hn, hg⟩
  have hlen : 0 < cfg.inp.length := List.length_pos_of_ne_nil hne
  obtain ⟨_, _, h3, h4⟩ := loop_exactly_once sem1 E fuel k P slot _ s s' ran dropped hw hP h
  have hd := h3 hnc
  subst hd
  have hne' : ops1.isEmpty { b := 0, e := cfg.inp.length, g := g } = false := (R1.isEmpty_iff _).2 hlen
  obtain ⟨L', t, p⟩ := h4 hne'
  have e1 := t.extract1 cfg.inp ⟨hw, hlen⟩
  simp only [List.append_nil] at p
  unfold ChunksTile
  simp only [List.flatMap_map]
  have e2 : cfg.inp.extract 0 cfg.inp.length = cfg.inp := by simp [List.extract_eq_drop_take]
  rw [e2] at e1
  refine List.Perm.trans (p.symm.flatMap_right (fun c => cfg.inp.extract c.b c.e)) ?_
  rw [e1]


/-- **for_each_exactly_once.**  For every input sequence, every iterator category (for the random-access path: every list of
chunks of the nested `parallel_for` that tiles the index range, which is what `loop_exactly_once_1d` provides), every feeder
behaviour `feeds : item → list of new items`, every number of threads and EVERY schedule (any interleaving of the operations
of the running tasks, pending tasks started in any order by any thread):
* at every moment no item has had more body calls than it was supplied — as an element of the input or by a `feeder::add` of a
  body call that has already started;
* once the call has returned, the multiset of body calls is exactly the input items plus everything those calls fed
  (transitively): each item exactly once, nothing else;
* no reference counter was ever released below zero. -/
theorem for_each_exactly_once (cfg : Cfg) (threads : Nat) (sched : List Choice) (hch : cfg.cat = .random → ChunksTile cfg) :
    let s := eachRun cfg threads sched
    (∀ x, (bodies s.log).count x ≤ cfg.inp.count x + ((bodies s.log).flatMap cfg.feeds).count x) ∧
    (returned s = true → (bodies s.log).Perm (cfg.inp ++ (bodies s.log).flatMap cfg.feeds)) ∧
    s.bad = false := by
  intro s
  have hR : Reach .body cfg cfg.inp s := Reach.run hch sched (reach_initEach cfg threads)
  refine ⟨fun x => ?_, fun hr => ?_, hR.i1.ok⟩
  · have := hR.at_most x
    simpa [starts, fedM, fedBy] using this
  · have := hR.exactly hr
    simpa [starts, fedM, fedBy] using this

/-- **for_each_wait_covers_fed.**  (i) At ANY moment of ANY schedule at which the root wait context reads zero, no spawned
task is pending and every activation other than the caller has only item destructions left: in particular no body call is
running or still to come — the `feeder_item_task` constructor reserves its reference before the feeding body returns, so the
counter cannot reach zero while fed work exists.  (ii) Once `parallel_for_each` has returned: nothing is pending, every
activation has only item destructions left, and every body call that started has ended. -/
theorem for_each_wait_covers_fed (cfg : Cfg) (threads : Nat) (sched : List Choice) (hch : cfg.cat = .random → ChunksTile cfg) :
    let s := eachRun cfg threads sched
    (s.root = 0 → s.pool = [] ∧ ∀ a ∈ s.acts.tail, Idle a.ops) ∧
    (returned s = true → s.pool = [] ∧ (∀ a ∈ s.acts, Idle a.ops) ∧ (bodies s.log).Perm (bodyEnds s.log)) := by
  intro s
  have hR : Reach5 .body cfg cfg.inp s := Reach5.run hch sched (reach5_initEach cfg threads)
  refine ⟨fun h0 => ?_, fun hr => ?_⟩
  · obtain ⟨z1, z2⟩ := zero_of_root_zero hR.r.i1 hR.r.i2 h0
    obtain ⟨m, others, hm0, _, hoth, _, _⟩ := hR.r.i2.main
    refine ⟨z1, fun a ha => ?_⟩
    rw [hm0] at ha
    have ha' : a ∈ others := ha
    exact idle_of_weightless (hoth a ha').1 (z2 a (by rw [hm0]; exact List.mem_cons_of_mem _ ha'))
  · obtain ⟨q1, q2⟩ := hR.r.quiet hr
    exact ⟨q1, q2, by simpa [starts, ends] using hR.all_ended hr⟩

/-- **for_each_block_bounds.**  Input and forward iterators, `max_block_size ≥ 1`, every schedule: the blocks formed so far tile
an initial segment of the input sequence in order (each starts where the previous one ended) and have between 1 and
`max_block_size` items; the iterator `my_first` has been incremented exactly from positions `0, 1, …, iter-1` in this order and
never beyond the end; for input iterators it has been dereferenced exactly at those positions (once each: single pass); there is
never more than one instance of the root task (pending, running, or about to be re-spawned), so the iterator is advanced by one
task at a time; and once the call has returned the whole sequence has been consumed and the blocks cover all of it. -/
theorem for_each_block_bounds (cfg : Cfg) (threads : Nat) (sched : List Choice) (hch : cfg.cat = .random → ChunksTile cfg)
    (hmx : 1 ≤ cfg.maxBlock) :
    let s := eachRun cfg threads sched
    TiledL cfg.maxBlock s.log ∧ incs s.log = List.range s.iter ∧ s.iter ≤ cfg.inp.length ∧
    (cfg.cat = .input → derefs s.log = List.range s.iter) ∧
    RIP s.pool + RIA s.acts ≤ 1 ∧
    (cfg.cat ≠ .random → returned s = true → s.iter = cfg.inp.length ∧ lastEnd s.log = cfg.inp.length) := by
  intro s
  have hR : ReachE cfg s := ReachE.run hch hmx sched (reachE_init cfg threads)
  exact ⟨hR.i4.tiled, hR.i4.incs, hR.i4.le, hR.i4.derefs, hR.r5.r.i3.ri, fun hnr hr => hR.consumed hnr hr⟩

/-- **for_each_item_lifetime.**  Input iterators copy every item into `block_iteration_space` of a block task
(`copy b j x`: item `x` into slot `j` of block `b`), the iteration tasks call the body on these copies (`bodyS x (slot b j)` …
`bodyE x (slot b j)`) and `~input_block_handling_task` destroys them (`destroy b j x`).  For every schedule:
* **alive during the body call** (`LifeOK`): every body start and every body end on slot `j` of block `b` is preceded in the log
  by the copy of that item into that slot, and by NO destruction of any item of block `b` — the destructions come after the wait
  on the block's counter, which every running body call on one of the block's slots keeps positive (block ids are fresh, at most
  one activation ever waits on a block's counter);
* **destroyed exactly once**: for every `(b, j, x)` the destructions of that copy never exceed the number of times it was made,
  the difference being exactly the destructions some activation still has to perform plus the copy sitting in the block under
  construction; when every activation has finished every copy has been destroyed exactly as often as it was made.
The destructions happen AFTER the block released its reference on the root wait context (`finalize`:
`my_root_wait_context.release(); my_allocator.delete_object(this, ed)`), possibly after `parallel_for_each` has returned — which is
why `for_each_wait_covers_fed` speaks of "item destructions left". -/
theorem for_each_item_lifetime (cfg : Cfg) (threads : Nat) (sched : List Choice) (hch : cfg.cat = .random → ChunksTile cfg)
    (hmx : 1 ≤ cfg.maxBlock) :
    let s := eachRun cfg threads sched
    LifeOK s.log ∧
    ∀ b j x, destroyCount b j x s.log ≤ copyCount b j x s.log ∧
      copyCount b j x s.log = destroyCount b j x s.log + PDA cfg.cat b j x s.acts ∧
      ((∀ a ∈ s.acts, a.ops = []) → destroyCount b j x s.log = copyCount b j x s.log) := by
  intro s
  have hR : ReachO cfg s := ReachO.run hch hmx sched (reachO_init cfg threads)
  refine ⟨hR.o.life, fun b j x => ?_⟩
  have h := hR.l.i6 b j x
  refine ⟨by omega, h, fun hfin => ?_⟩
  have h0 : PDA cfg.cat b j x s.acts = 0 := by
    unfold PDA
    generalize s.acts = l at hfin
    induction l with
    | nil => rfl
    | cons a r ih =>
      simp only [List.map_cons, List.sum_cons, hfin a List.mem_cons_self, PD_nil, ih (fun c hc => hfin c (List.mem_cons_of_mem _ hc))]
  omega

end each

/-! ## parallel_invoke -/

section invoke
open Each

/-- the state reached by `parallel_invoke(f_0, …, f_{n-1})` after an arbitrary schedule -/
abbrev invokeRun (n : Nat) (sched : List Choice) : St := run {} (initInvoke n) sched

/-- **invoke_each_once.**  For every `n` and every schedule: no function is ever called more than once and only functions
`f_0 … f_{n-1}` are called; once `parallel_invoke` has returned every one of them has been called exactly once, every call has
ended, no task is pending and every `function_invoker` / `invoke_subroot_task` has finished; no reference counter (root wait
context, subroot `ref_count`) was ever released below zero. -/
theorem invoke_each_once (n : Nat) (sched : List Choice) :
    let s := invokeRun n sched
    (∀ f, (calls s.log).count f ≤ if f < n then 1 else 0) ∧
    (returned s = true → (calls s.log).Perm (List.range n) ∧ (calls s.log).Perm (callEnds s.log) ∧ s.pool = [] ∧ ∀ a ∈ s.acts, Idle a.ops) ∧
    (s.root = 0 → s.pool = [] ∧ ∀ a ∈ s.acts.tail, Idle a.ops) ∧
    s.bad = false := by
  intro s
  have hR : Reach5 .call {} (List.range n) s := Reach5.run (fun h => by cases h) sched (reach5_initInvoke {} n)
  refine ⟨fun f => ?_, fun hr => ?_, fun h0 => ?_, hR.r.i1.ok⟩
  · have := hR.r.at_most f
    simpa [starts, fedM, count_range] using this
  · obtain ⟨q1, q2⟩ := hR.r.quiet hr
    refine ⟨by simpa [starts, fedM] using hR.r.exactly hr, by simpa [starts, ends] using hR.all_ended hr, q1, q2⟩
  · obtain ⟨z1, z2⟩ := zero_of_root_zero hR.r.i1 hR.r.i2 h0
    obtain ⟨m, others, hm0, _, hoth, _, _⟩ := hR.r.i2.main
    refine ⟨z1, fun a ha => ?_⟩
    rw [hm0] at ha
    have ha' : a ∈ others := ha
    exact idle_of_weightless (hoth a ha').1 (z2 a (by rw [hm0]; exact List.mem_cons_of_mem _ ha'))

/-- the subroot tasks the caller spawns, in order -/
def subrootsOf : List Op → List (Nat × Nat × Nat)
  | [] => []
  | .spawn (.subroot a b c) :: r => (a, b, c) :: subrootsOf r
  | _ :: r => subrootsOf r

/-- the functions the caller hands to plain `function_invoker`s on the root wait context -/
def rootInvokersOf : List Op → List Nat
  | [] => []
  | .spawn (.inv f .root) :: r => f :: rootInvokersOf r
  | _ :: r => rootInvokersOf r

/-- the functions the caller runs itself -/
def selfCallsOf : List Op → List Nat
  | [] => []
  | .act (.callS f) :: r => f :: selfCallsOf r
  | _ :: r => selfCallsOf r

/-- **invoke_tree_shape.**  How `invoke_recursive_separation` groups `n ≥ 1` functions starting at index `i`: as long as more
than three remain, the first three go to a new `invoke_subroot_task` (which runs the first of them itself and spawns invokers for
the other two); the last `r = n - 3·⌊(n-1)/3⌋ ∈ {1,2,3}` functions are handled by the caller: `r - 1` root invokers are spawned
and the very last function is run by the calling thread.  In particular with `n mod 3 = 0` the last THREE functions belong to the
caller, not to a subroot. -/
theorem invoke_tree_shape (i n : Nat) (hn : 1 ≤ n) :
    subrootsOf (mainInvoke i n) = (List.range ((n - 1) / 3)).map (fun k => (i + 3 * k, i + 3 * k + 1, i + 3 * k + 2)) ∧
    rootInvokersOf (mainInvoke i n) = (List.range (n - 1 - 3 * ((n - 1) / 3))).map (fun j => i + 3 * ((n - 1) / 3) + j) ∧
    selfCallsOf (mainInvoke i n) = [i + n - 1] := by
  fun_induction mainInvoke i n with
  | case1 i => omega
  | case2 i => simp [subrootsOf, rootInvokersOf, selfCallsOf]
  | case3 i => simp [subrootsOf, rootInvokersOf, selfCallsOf, List.range_succ]
  | case4 i => simp [subrootsOf, rootInvokersOf, selfCallsOf, List.range_succ]
  | case5 i rem h1 ih =>
    have hrem : 1 ≤ rem := by
      rcases Nat.eq_zero_or_pos rem with h | h
      · subst h; exact absurd rfl h1
      · exact h
    obtain ⟨a1, a2, a3⟩ := ih hrem
    have e1 : (rem + 3 - 1) / 3 = (rem - 1) / 3 + 1 := by omega
    refine ⟨?_, ?_, ?_⟩
    · simp only [subrootsOf, a1, e1, List.range_succ_eq_map, List.map_cons, List.map_map]
      simp only [Nat.mul_zero, Nat.add_zero, List.cons.injEq, true_and]
      apply List.map_congr_left
      intro k _
      simp only [Function.comp, Prod.mk.injEq]
      omega
    · simp only [rootInvokersOf, a2, e1]
      have e2 : rem + 3 - 1 - 3 * ((rem - 1) / 3 + 1) = rem - 1 - 3 * ((rem - 1) / 3) := by omega
      rw [e2]
      apply List.map_congr_left
      intro j _
      omega
    · simp only [selfCallsOf, a3]
      congr 1
      omega

end invoke

/-! ## Non-vacuity -/

/-- a 1-d simple_partitioner loop that finishes: `[0,10)` with grain 2 gives 6 chunks, nothing dropped -/
example :
    (runLoop ops1 bitsEnv 1000 .simple 4 0 { b := 0, e := 10, g := 2 } []).map (fun x => (x.1.length, x.2.1)) = some (6, []) := by
  decide

/-- an auto_partitioner loop in which every task is stolen while its parent still has two references and the
peer-stolen flag flips according to a script: it finishes with 16 chunks, nothing dropped; the chunks tile `[0,40)` -/
example :
    (runLoop ops1 mockEnv 200 .auto 2 0 { b := 0, e := 40, g := 3 }
      { stolen := true, ref2 := true, hooks := [true, false, true, true, false, false, true, true, true, false, true, true, false, true] }).map
        (fun x => (x.1.length, x.2.1, (x.1.map (fun c => c.e - c.b)).foldl (· + ·) 0)) = some (16, [], 40) := by
  decide

example : PropOK 2 1 ∧ PropOK 8 8 ∧ ¬ PropOK 1 0 ∧ PartInv (initPart .affinity 12 3) := by
  refine ⟨by decide, by decide, by decide, ?_⟩
  exact partInv_init _ _ _ (by decide)

example : WF1 { b := 3, e := 2 ^ 63 + 5, g := 7 } ∧ R1.divisible { b := 3, e := 2 ^ 63 + 5, g := 7 } = true := by
  constructor
  · exact ⟨by decide, by decide, by decide⟩
  · decide

open Generated.C05Stride in
/-- non-vacuity of the index-form theorems: admissible arguments exist at the very top of every type's range, the
regenerated expressions give the mathematical count there, and the textbook formula's intermediate value would not fit:
`parallel_for(0u, 4000000000u, 1000000000u, f)` has 4 iterations, `parallel_for<short>(0, 32000, 1000, f)` has 32,
a `size_t` loop up to `2^64-1` with step `2^62` has 4. -/
example :
    StrideArgsU 4294967296 0 4000000000 1000000000 ∧ cnt_u32 0 4000000000 1000000000 = 4 ∧ cntCtx_u32 0 4000000000 1000000000 = 4 ∧
    StrideArgsS 32768 0 32000 1000 ∧ cnt_i16 0 32000 1000 = 32 ∧ cntCtx_i16 0 32000 1000 = 32 ∧
    StrideArgsU 18446744073709551616 0 18446744073709551615 4611686018427387904 ∧ cnt_u64 0 18446744073709551615 4611686018427387904 = 4 ∧
    StrideArgsS 2147483648 (-5) 2147483642 2147483647 ∧ cnt_i32 (-5) 2147483642 2147483647 = 1 ∧ cnt_i32 (-5) 2147483643 2147483647 = 2 ∧
    StrideArgsU 65536 1 65535 1 ∧ cnt_u16 1 65535 1 = 65534 ∧ idx0_u16 1 1 65533 = 65534 := by
  refine ⟨⟨by decide, by decide, by decide, by decide⟩, by decide, by decide, ⟨by decide, by decide, by decide, by decide, by decide, by decide⟩, by decide, by decide,
    ⟨by decide, by decide, by decide, by decide⟩, by decide, ⟨by decide, by decide, by decide, by decide, by decide, by decide⟩, by decide, by decide,
    ⟨by decide, by decide, by decide, by decide⟩, by decide, by decide⟩

example : stridedEnd 5 20 7 = 3 ∧ stridedIndex 5 7 2 = 19 := by decide

/-- the ring after `split_to_fill(5)`, `pop_front`, `pop_back`, `split_to_fill(7)` on `[0,100)` grain 1 -/
example :
    (([RV.Op.fill 5, .popFront, .popBack, .fill 7].foldl (RV.step ops1) (RV.init { b := 0, e := 100, g := 1 }, [])).1.toList.map
      (fun x => (x.1.b, x.1.e, x.2))) = [(3, 4, 6), (4, 6, 6), (6, 12, 4), (12, 25, 3), (25, 50, 2)] := by
  decide


/-- termination is not vacuous: an affinity_partitioner loop whose environment answers "stolen / peer stolen" to everything -/
example : ∃ res, runLoop ops1 bitsEnv (3 * (1000 - 3) + 3) .affinity 7 2 { b := 3, e := 1000, g := 5 } (List.replicate 500 true) = some res :=
  loop_terminates bitsEnv .affinity 7 2 3 1000 5 _ (by decide) (by decide) (by decide) (by decide)

section
open Each

/-- parallel_for_each over two items through an input iterator, the first item feeds one more: a schedule under which the call
returns; the three body calls are exactly the input plus the fed item; two blocks… one block of two items -/
def exCfg : Cfg := { cat := .input, inp := [7, 8], feeds := fun x => if x = 7 then [70] else [], maxBlock := Generated.C05Each.maxBlockInput }

set_option maxRecDepth 8000 in
example : returned (eachRun exCfg 2 (roundRobin 30 5)) = true ∧ (bodies (eachRun exCfg 2 (roundRobin 30 5)).log) = [70, 7, 8] ∧
    Each.blocks (eachRun exCfg 2 (roundRobin 30 5)).log = [(0, 0, 2)] ∧
    copyCount 0 1 8 (eachRun exCfg 2 (roundRobin 30 5)).log = 1 ∧ destroyCount 0 1 8 (eachRun exCfg 2 (roundRobin 30 5)).log = 1 ∧
    Act.bodyS 8 (.slot 0 1) ∈ (eachRun exCfg 2 (roundRobin 30 5)).log := by decide

/-- … and at an intermediate moment the root counter is positive while work is pending (the first conjunct of
for_each_wait_covers_fed is not vacuous in the other direction either) -/
example : (eachRun exCfg 2 ((roundRobin 7 5).drop 1)).root = 2 ∧ (eachRun exCfg 2 ((roundRobin 7 5).drop 1)).pool.length = 1 := by decide

set_option maxRecDepth 8000 in
/-- parallel_invoke with 7 functions: two subroots and one function for the caller; a schedule under which it returns -/
example : returned (invokeRun 7 (roundRobin 30 8)) = true ∧ (calls (invokeRun 7 (roundRobin 30 8)).log).length = 7 ∧
    subrootsOf (mainInvoke 0 7) = [(0, 1, 2), (3, 4, 5)] ∧ selfCallsOf (mainInvoke 0 7) = [6] ∧
    subrootsOf (mainInvoke 0 6) = [(0, 1, 2)] ∧ rootInvokersOf (mainInvoke 0 6) = [3, 4] ∧ selfCallsOf (mainInvoke 0 6) = [5] := by decide

/-- the random-access path with a chunk list that tiles the index range -/
example : ChunksTile { cat := .random, inp := [5, 6, 7, 8], chunks := [(2, 4), (0, 1), (1, 2)] } := by
  unfold ChunksTile; decide

end

end TbbVerif.C05
