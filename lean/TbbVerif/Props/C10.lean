/-
C10 — property theorems for concurrent_hash_map (`HMap`, Model/C10.lean).  Lemmas and invariants live in Proofs/C10/*.lean.

All machine theorems quantify over EVERY hash function `hash : Nat → Nat`, EVERY set of thread programs (any number of
threads, any operation sequences) and EVERY schedule `sched : List Act` (which thread moves, and which alternative it takes
wherever the lock abstraction leaves a choice: a try-lock may fail, an upgrade may or may not be in place, a waiter may give
up).  `run hash progs sched` is the state reached.

Abstraction ("partial: locks by appeal to C08"): a bucket / element mutex is its C08-proved specification state (writer,
readers); a lock operation is one step; the code under a lock between two accesses to other shared words is one step.
-/
import TbbVerif.Proofs.C10.Glue
import TbbVerif.Generated.C10

namespace TbbVerif.C10

/-! ## Generated constants -/

/-- The constants and the load-factor rule the model assumes are the ones the header defines / the real table exhibits
(regenerated on every run): two embedded buckets in segment 0, first block of 8 segments, growth is elected when the
size reaches the mask, the masks published by `enable_segment` are `2^lvlAfterEnable k - 1`, the lock-word layout. -/
theorem generated_constants :
    Generated.C10.embeddedBlock = 1 ∧ Generated.C10.embeddedBuckets = 2 ^ Generated.C10.embeddedBlock ∧
    Generated.C10.initialMask = 2 ^ Generated.C10.embeddedBlock - 1 ∧
    Generated.C10.embeddedBlock ≤ Generated.C10.firstBlock ∧ Generated.C10.pointersPerTable = 64 ∧
    Generated.C10.growAt0 = Generated.C10.initialMask ∧ Generated.C10.maskAfter0 = 2 ^ lvlAfterEnable Generated.C10.embeddedBlock - 1 ∧
    Generated.C10.growAt1 = Generated.C10.maskAfter0 ∧ Generated.C10.maskAfter1 = 2 ^ lvlAfterEnable Generated.C10.firstBlock - 1 ∧
    Generated.C10.growAt2 = Generated.C10.maskAfter1 ∧ Generated.C10.maskAfter2 = 2 ^ lvlAfterEnable (Generated.C10.firstBlock + 1) - 1 ∧
    Generated.C10.rehashReqFlag = 3 ∧ Generated.C10.emptyRehashedFlag = 0 ∧
    Generated.C10.lockWriter = 1 ∧ Generated.C10.lockWriterPending = 2 ∧ Generated.C10.lockOneReader = 4 := by decide

/-! ## Bucket / segment arithmetic -/

/-- **Bucket index ↔ (segment, offset) is a bijection** (64-bit indices): `get_bucket(i)` lands inside segment
`segment_index_of(i)`, the index is recovered as `segment_base(s) + offset`, and every in-range (segment, offset) pair is
hit by exactly that index. -/
theorem bucket_segment_bijection :
    (∀ i, i < 2 ^ 64 → (bucketAddr i).1 < 64 ∧ (bucketAddr i).2 < segCap (bucketAddr i).1 ∧ segBase (bucketAddr i).1 + (bucketAddr i).2 = i) ∧
    (∀ s off, s < 64 → off < segCap s → bucketAddr (segBase s + off) = (s, off)) :=
  ⟨fun i hi => ⟨(bucketAddr_bound i hi).1, (bucketAddr_bound i hi).2, bucketAddr_inv i hi⟩, bucketAddr_surj⟩

/-- Two buckets never share a slot of a bucket array: (allocation, offset) is injective and in bounds (the embedded array,
the single allocation behind segments 1..first_block-1, one allocation per later segment). -/
theorem bucket_alloc_injective :
    (∀ i, i < 2 ^ 64 → (allocOf i).2 < allocSize (allocOf i).1) ∧ (∀ i j, i < 2 ^ 64 → j < 2 ^ 64 → allocOf i = allocOf j → i = j) :=
  ⟨allocOf_bound, allocOf_inj⟩

/-- **Parent relation.** A bucket `c ≥ 1` on the path of hash `h` (`c = h mod 2^l` for some level `l`) is `h`'s bucket at
its own level `log2 c + 1`, its parent (`c` with the top bit cleared, what `rehash_bucket` computes) is `h`'s bucket one
level below, no bucket of the path lies strictly between the two, and a node moves from the parent into `c` during the
split iff `c` is on the path of its hash — i.e. iff the new bit is set and the lower bits agree. -/
theorem parent_relation {h c l : Nat} (hc : 1 ≤ c) (hcl : c = h % 2 ^ l) :
    c = h % 2 ^ (Nat.log2 c + 1) ∧ parentOf c = h % 2 ^ Nat.log2 c ∧ parentOf c < c ∧
    (∀ j, h % 2 ^ j < c → h % 2 ^ j ≤ parentOf c) ∧
    (∀ nh, movesTo c nh = true ↔ nh % 2 ^ (Nat.log2 c + 1) = c) ∧ (∀ nh, movesTo c nh = true ↔ ∃ l', c = nh % 2 ^ l') :=
  ⟨(pb_level hc hcl).1, (pb_level hc hcl).2, parentOf_lt hc, fun _ hlt => pb_le_parent hc hcl rfl hlt,
    fun nh => movesTo_iff c nh, fun nh => movesTo_iff_onPath hc⟩

/-- The bit-twiddling forms of the code (`hash & mask` with `mask = (1 << log2 hash) - 1`, `(mask << 1) | 1`, the loop of
`check_rehashing_collision`) are the level forms the machine uses. -/
theorem code_shapes_agree :
    (∀ b, parentCode b = parentOf b) ∧ (∀ b nh, movesCode b nh = movesTo b nh) ∧
    (∀ flagged h lo lm, lo < lm → lm ≤ 64 →
      chkCollCode flagged h (2 ^ lo - 1) (2 ^ lm - 1) = (decide (h % 2 ^ lo ≠ h % 2 ^ lm) && !flagged (h % 2 ^ nextLvl h lo (lm - lo)))) :=
  ⟨parentCode_eq, movesCode_eq, fun f h lo lm h1 h2 => chkCollCode_eq f h lo lm h1 h2⟩

/-! ## key_home -/

/-- **hmap_key_home.** In every reachable state: every linked node lives in the bucket `home (hash key)` — the bucket of
its hash under the largest mask whose bucket is a chain (not flagged, not in the middle of being rehashed); no chain holds
a key twice and no key is in two chains; flagged buckets and buckets being rehashed hold nothing. -/
theorem hmap_key_home (hash : Nat → Nat) (progs : List (List Op)) (sched : List Act) :
    let sh := (run hash progs sched).sh
    (∀ b n, n ∈ sh.chainOf b → sh.home (hash n.key) = b) ∧
    (∀ b, ((sh.chainOf b).map (·.key)).Nodup) ∧
    (∀ b b' n n', n ∈ sh.chainOf b → n' ∈ sh.chainOf b' → n.key = n'.key → b = b' ∧ n = n') ∧
    (∀ b, (sh.bkt b).isChain = false → sh.chainOf b = []) := by
  have h := (invAll_reachable hash progs sched).i1.sh
  refine ⟨fun b n hn => home_eq h (h.home b n hn), h.nodup, fun b b' n n' hn hn' hk => linked_unique h hn hn' hk, ?_⟩
  intro b hb
  unfold Sh.chainOf
  cases hbb : ((run hash progs sched).sh.bkt b) <;> simp_all [Bucket.nodes, Bucket.isChain]

/-- **The split moves exactly the keys whose new bit is set.** `rehash_bucket` of child `c` from its parent `b` (both
write-locked): the parent keeps the nodes whose hash does not have `c` on its path, the child receives the others (in
reverse order: `add_to_bucket` pushes to the head), nothing is lost or duplicated. -/
theorem hmap_rehash_split (hash : Nat → Nat) (sh : Sh) (tid : Tid) (t : Th) (b c : Nat) (wc : Bool) (r : List (Nat × Bool))
    (hs : t.stk = (b, true) :: (c, wc) :: r) (hbc : b ≠ c)
    (hmv : ((sh.chainOf b).filter (fun n => movesTo c (hash n.key))).isEmpty = false) :
    let sh' := (afterAcq hash sh tid t).1
    sh'.chainOf b = (sh.chainOf b).filter (fun n => !movesTo c (hash n.key)) ∧
    sh'.chainOf c = ((sh.chainOf b).filter (fun n => movesTo c (hash n.key))).reverse ∧
    (∀ n, n ∈ sh.chainOf b ↔ n ∈ sh'.chainOf b ∨ n ∈ sh'.chainOf c) ∧
    (∀ n, n ∈ sh'.chainOf c → hash n.key % 2 ^ (Nat.log2 c + 1) = c) := by
  rw [afterAcq_rehash_eq hash sh tid t hs]
  simp only [hmv, Bool.false_eq_true, if_false, if_true]
  refine ⟨by rw [chainOf_setB, if_neg hbc, chainOf_setB, if_pos rfl]; rfl, by rw [chainOf_setB, if_pos rfl]; rfl, ?_, ?_⟩
  · intro n
    rw [chainOf_setB, if_neg hbc, chainOf_setB, if_pos rfl, chainOf_setB, if_pos rfl]
    simp only [nodes_chain, List.mem_filter, List.mem_reverse]
    cases movesTo c (hash n.key) <;> simp
  · intro n hn
    rw [chainOf_setB, if_pos rfl] at hn
    simp only [nodes_chain, List.mem_reverse, List.mem_filter] at hn
    exact (movesTo_iff _ _).1 hn.2

/-- **hmap_lookup_finds.** Whenever an insert is about to link its node (it has searched its bucket under the lock,
upgraded, and `check_mask_race` did not send it back), the bucket it holds as writer is the home of the key's hash and the
key is nowhere in the table: the search inspected the right bucket.  (This is what fails without `check_mask_race`.) -/
theorem hmap_lookup_finds (hash : Nat → Nat) (progs : List (List Op)) (sched : List Act) (tid : Nat) (t : Th)
    (ht : (run hash progs sched).ths[tid]? = some t) (hpc : t.pc = .link) :
    let sh := (run hash progs sched).sh
    t.stk = [(sh.home (hash t.op.key), true)] ∧ (sh.blk (sh.home (hash t.op.key))).w = some tid ∧ sh.present hash t.op.key = none := by
  have hI := (invAll_reachable hash progs sched).i1
  have hT := hI.th tid t ht
  have hc := hT.c
  rw [hpc] at hc
  simp only [CAt] at hc
  obtain ⟨hs, hop, hnf, habove, hk⟩ := hc
  have hkne : t.op.k ≠ .exclude := by rw [hk]; simp
  have hh := hT.hOk (by rw [hpc]; simp) hkne
  have hhome : (run hash progs sched).sh.home (hash t.op.key) = t.b0 := by
    rw [← hh]; exact home_eq hI.sh ⟨hop.2, hop.1, habove⟩
  simp only
  rw [hhome]
  refine ⟨hs, holdsW_of hT (by rw [hs]; exact List.mem_cons_self ..), ?_⟩
  unfold Sh.present
  rw [hhome]
  unfold NotFound at hnf
  rw [if_neg hkne] at hnf
  exact hnf

/-! ## Linearizability -/

/-- the map the table represents equals the final map of the linearization -/
theorem spec_eq_present {hash : Nat → Nat} {sh : Sh} (hS : ShInv hash sh) {s : Spec}
    (h3 : ∀ n, s n.key = some n ↔ IsLinked sh n) (h4 : ∀ k n, s k = some n → n.key = k) : ∀ k, s k = sh.present hash k := by
  intro k
  cases hsk : s k with
  | none =>
    cases hp : sh.present hash k with
    | none => rfl
    | some n =>
      exfalso
      obtain ⟨hl, hk⟩ := present_some_linked hp
      have := (h3 n).2 hl
      rw [hk, hsk] at this; cases this
  | some n =>
    have hk := h4 k n hsk
    obtain ⟨b, hb⟩ := (h3 n).1 (by rw [hk]; exact hsk)
    rw [← hk, present_eq_some hS hb]

/-- **hmap_linearizable.** In every reachable state the ghost history — one entry per operation, appended at its
linearization point with the result the operation returns (successful insert: the linking of the node, under the bucket's
writer lock, after `check_mask_race`; insert that finds the key / successful find: the search under the bucket lock, or the
acquisition of the element lock when an accessor is requested; count: the search; failed find / count / erase: the moment
`check_mask_race` confirms the searched bucket; successful erase: the unlinking under the bucket's writer lock; erase by
accessor that finds the node gone: likewise) — is a legal sequential history of the map `Key → Option Node` starting from
the empty map, and the map it ends in is exactly the content of the table. -/
theorem hmap_linearizable (hash : Nat → Nat) (progs : List (List Op)) (sched : List Act) :
    let sh := (run hash progs sched).sh
    ∃ s, specRun (fun _ => none) sh.hist.reverse = some s ∧ ∀ k, s k = sh.present hash k := by
  have hA := invAll_reachable hash progs sched
  obtain ⟨s, h1, h3, h4⟩ := hA.i2.sh.lin
  exact ⟨s, by rw [← specOf_eq_specRun]; exact h1, spec_eq_present hA.i1.sh h3 h4⟩

/-- the history of a reachable state is legal (newest-first form, for the corollaries) -/
theorem hist_legal (hash : Nat → Nat) (progs : List (List Op)) (sched : List Act) :
    ∃ s, specOf (run hash progs sched).sh.hist = some s := by
  obtain ⟨s, h1, _, _⟩ := (invAll_reachable hash progs sched).i2.sh.lin
  exact ⟨s, h1⟩

/-- **hmap_insert_one_winner.** Between two successful inserts of the same key (in linearization order; `e1` is the
earlier) there is a successful erase of that key: of several concurrent inserts of an absent key exactly one returns true. -/
theorem hmap_insert_one_winner (hash : Nat → Nat) (progs : List (List Op)) (sched : List Act) (k : Nat)
    (es1 es2 es3 : List HEv) (e1 e2 : HEv) (hh : (run hash progs sched).sh.hist = es1 ++ e2 :: es2 ++ e1 :: es3)
    (h1 : IsIns k e1) (h2 : IsIns k e2) : ∃ e ∈ es2, IsRem k e := by
  obtain ⟨s, hs⟩ := hist_legal hash progs sched
  rw [hh] at hs
  exact legal_insert_one_winner hs h1 h2

/-- **hmap_erase_one_winner.** Between two successful erases (by key or by accessor) of the same key there is a successful
insert of that key: of several concurrent erases of a present key exactly one returns true. -/
theorem hmap_erase_one_winner (hash : Nat → Nat) (progs : List (List Op)) (sched : List Act) (k : Nat)
    (es1 es2 es3 : List HEv) (e1 e2 : HEv) (hh : (run hash progs sched).sh.hist = es1 ++ e2 :: es2 ++ e1 :: es3)
    (h1 : IsRem k e1) (h2 : IsRem k e2) : ∃ e ∈ es2, IsIns k e := by
  obtain ⟨s, hs⟩ := hist_legal hash progs sched
  rw [hh] at hs
  exact legal_erase_one_winner hs h1 h2

/-- **A find after an insert and before any erase succeeds** (and returns the inserted element); an erase by key in that
position succeeds; a find with no insert before it fails (nothing is resurrected or invented). -/
theorem hmap_find_after_insert (hash : Nat → Nat) (progs : List (List Op)) (sched : List Act) (k : Nat)
    (es1 es2 es3 : List HEv) (e1 e2 : HEv) (hh : (run hash progs sched).sh.hist = es1 ++ e2 :: es2 ++ e1 :: es3)
    (h1 : IsIns k e1) (hno : ∀ e ∈ es2, ¬ IsRem k e) :
    (IsLook k e2 → e2.ok = true ∧ e2.node = e1.node) ∧ (e2.k = .erase ∧ e2.key = k → e2.ok = true) := by
  obtain ⟨s, hs⟩ := hist_legal hash progs sched
  rw [hh] at hs
  exact ⟨fun h2 => legal_find_after_insert hs h1 h2 hno, fun h2 => legal_erase_after_insert hs h1 h2 hno⟩

theorem hmap_find_absent (hash : Nat → Nat) (progs : List (List Op)) (sched : List Act) (k : Nat)
    (es1 es2 : List HEv) (e2 : HEv) (hh : (run hash progs sched).sh.hist = es1 ++ e2 :: es2)
    (h2 : IsLook k e2) (hno : ∀ e ∈ es2, ¬ IsIns k e) : e2.ok = false := by
  obtain ⟨s, hs⟩ := hist_legal hash progs sched
  rw [hh] at hs
  exact legal_find_absent hs h2 hno

/-! ## Locks, accessors, freeing -/

/-- **Bucket locks.** Two threads never hold the same bucket lock unless both as readers, and a bucket in the middle of
being rehashed is write-locked by the thread rehashing it. -/
theorem hmap_bucket_excl (hash : Nat → Nat) (progs : List (List Op)) (sched : List Act) (i j : Nat) (ti tj : Th) (b : Nat) (w : Bool)
    (hi : (run hash progs sched).ths[i]? = some ti) (hj : (run hash progs sched).ths[j]? = some tj) (hij : i ≠ j)
    (hwi : (b, true) ∈ ti.stk) : (b, w) ∉ tj.stk := by
  have hI := (invAll_reachable hash progs sched).i1
  intro hwj
  have h1 := holdsW_of (hI.th i ti hi) hwi
  have h2 := (hI.th j tj hj).heldB (b, w) hwj
  exact hij (holds_excl (hI.sh.bwf b) h2 h1)

/-- **hmap_accessor_excl.** In every reachable state: (1) while a thread holds an `accessor` (writer) to an element no other
thread holds any accessor to it; (2) while it holds a `const_accessor` no other thread holds an `accessor`; (3) an element
to which some accessor points has not been destroyed; (4) a thread that is about to destroy a node (`delete_node`) is the
thread that unlinked it, the node is in no chain, and no thread holds any accessor to it; (5) it got there only through the
release of the element lock it held as writer (pc `eRel`), where it holds that lock as writer. -/
theorem hmap_accessor_excl (hash : Nat → Nat) (progs : List (List Op)) (sched : List Act) :
    let st := run hash progs sched
    (∀ (i j : Nat) (ti tj : Th) (n : Node) (w : Bool), st.ths[i]? = some ti → st.ths[j]? = some tj → i ≠ j → ti.acc = some (n, true) → tj.acc ≠ some (n, w)) ∧
    (∀ (i : Nat) (ti : Th) (n : Node) (w : Bool), st.ths[i]? = some ti → ti.acc = some (n, w) → st.sh.freed n = false) ∧
    (∀ (i : Nat) (ti : Th), st.ths[i]? = some ti → ti.pc = .free → ∃ n, ti.n = some n ∧ st.sh.unlinker n = some i ∧ ¬ IsLinked st.sh n ∧
        ∀ (j : Nat) (tj : Th) (w : Bool), st.ths[j]? = some tj → tj.acc ≠ some (n, w)) ∧
    (∀ (i : Nat) (ti : Th), st.ths[i]? = some ti → ti.pc = .eRel → ∃ n, ti.n = some n ∧ (st.sh.elk n).w = some i ∧ st.sh.unlinker n = some i) := by
  have hA := invAll_reachable hash progs sched
  refine ⟨?_, ?_, ?_, ?_⟩
  · intro i j ti tj n w hi hj hij hai haj
    have h1 := ((hA.i2.th i ti hi).heldE n true hai).1
    have h2 := ((hA.i2.th j tj hj).heldE n w haj).1
    have hw : ((run hash progs sched).sh.elk n).w = some i := by simpa [HoldsE] using h1
    unfold HoldsE at h2
    split at h2
    · rw [hw] at h2; exact hij (Option.some.inj h2)
    · rw [hA.i2.sh.ewf n i hw] at h2; cases h2
  · intro i ti n w hi ha
    exact ((hA.i2.th i ti hi).heldE n w ha).2.1
  · intro i ti hi hpc
    have hd := (hA.i2.th i ti hi).d
    rw [hpc] at hd
    simp only [DAt] at hd
    obtain ⟨⟨n, hn, hu, hl, _, _⟩, n', hn', hw, hr⟩ := hd
    rw [hn] at hn'; cases hn'
    refine ⟨n, hn, hu, hl, ?_⟩
    intro j tj w hj ha
    have h2 := ((hA.i2.th j tj hj).heldE n w ha).1
    unfold HoldsE at h2
    split at h2
    · rw [hw] at h2; cases h2
    · rw [hr] at h2; cases h2
  · intro i ti hi hpc
    have hd := (hA.i2.th i ti hi).d
    rw [hpc] at hd
    simp only [DAt] at hd
    obtain ⟨⟨n, hn, hu, _, _, _⟩, n', hn', hw⟩ := hd
    rw [hn] at hn'; cases hn'
    exact ⟨n, hn, hw, hu⟩

/-- (2) of the accessor rule: a `const_accessor` excludes writers. -/
theorem hmap_const_accessor_excl (hash : Nat → Nat) (progs : List (List Op)) (sched : List Act) (i j : Nat) (ti tj : Th) (n : Node)
    (hi : (run hash progs sched).ths[i]? = some ti) (hj : (run hash progs sched).ths[j]? = some tj) (hij : i ≠ j)
    (hai : ti.acc = some (n, false)) : tj.acc ≠ some (n, true) := by
  intro haj
  exact (hmap_accessor_excl hash progs sched).1 j i tj ti n false hj hi (Ne.symm hij) haj hai

/-! ## Growth -/

/-- **Growth.** At most one thread at a time has won the election for enabling the next segment, every segment below the
published mask has been claimed before the mask was published, and no thread works with a mask snapshot above the
published mask (the mask only grows). -/
theorem hmap_growth (hash : Nat → Nat) (progs : List (List Op)) (sched : List Act) :
    let st := run hash progs sched
    (∀ (i j : Nat) (ti tj : Th), st.ths[i]? = some ti → st.ths[j]? = some tj → i ≠ j → ti.grow ≠ 0 → tj.grow = 0) ∧
    (∀ k, 1 ≤ k → k < st.sh.lvl → st.sh.seg k ≠ .none) ∧
    (∀ (i : Nat) (ti : Th), st.ths[i]? = some ti → ti.m ≤ st.sh.lvl) ∧ 1 ≤ st.sh.lvl := by
  have hI := (invAll_reachable hash progs sched).i1
  exact ⟨hI.grow1, hI.sh.seg_lo, fun i ti hi => (hI.th i ti hi).g.1, hI.sh.lvl_pos⟩

/-! ## The history records what the operations return; control flow of deletion -/

/-- **Every step appends at most one history entry; it belongs to the stepping thread, has the kind of its current
operation, and records the result the thread returns** (`ret`, which `Th.finish` reports when the operation ends). -/
theorem hmap_history_records_results (hash : Nat → Nat) (sh : Sh) (tid : Tid) (t : Th) (alt : Nat) :
    let r := stepTh hash sh tid t alt
    r.1.hist = sh.hist ∨ ∃ e, r.1.hist = e :: sh.hist ∧ e.tid = tid ∧ e.ok = r.2.1.ret ∧ e.k = t.op.k :=
  hist_step hash sh tid t alt

/-- **`delete_node` is reached only through the release of the element lock held as writer**: the only step into pc `free`
is the step of pc `eRel` (at which, by `hmap_accessor_excl`, the thread holds the element lock as writer). -/
theorem hmap_free_only_after_release (hash : Nat → Nat) (sh : Sh) (tid : Tid) (t : Th) (alt : Nat)
    (h : (stepTh hash sh tid t alt).2.1.pc = .free) (hne : t.pc ≠ .free) : t.pc = .eRel :=
  free_only_after_eRel hash sh tid t alt h hne

/-! ## Non-vacuity: a concrete run with growth, lazy rehash, a losing insert, an accessor, erase by accessor -/

/-- thread 0 inserts key 5 through an accessor (the table grows from 2 to 256 buckets) and releases it; thread 1 tries to
insert 5 again, finds it through a const_accessor (rehashing bucket 5 from bucket 1 on the way) and erases it through the
accessor; thread 2 then fails to erase and to count it -/
def exProgs : List (List Op) :=
  [[{ k := .ins, key := 5, val := 7, acc := 2 }, { k := .release }],
   [{ k := .ins, key := 5, val := 8 }, { k := .find, key := 5, acc := 1 }, { k := .exclude }],
   [{ k := .erase, key := 5 }, { k := .count, key := 5 }]]

def exSched : List Act := List.replicate 14 { tid := 0 } ++ List.replicate 60 { tid := 1 } ++ List.replicate 30 { tid := 2 }

-- the linearization of the whole run (newest first): (thread, key, result)
set_option maxRecDepth 100000 in
example : (run id exProgs exSched).sh.hist.map (fun e => (e.tid, e.key, e.ok)) =
    [(2, 5, false), (2, 5, false), (1, 5, true), (1, 5, true), (1, 5, false), (0, 5, true)] := by decide

-- the mask has been published (level 8 = 256 buckets) and all operations have completed with the results of the history
set_option maxRecDepth 100000 in
example : (run id exProgs exSched).sh.lvl = 8 ∧ (run id exProgs exSched).ths.map (fun t => t.results.map (·.1)) =
    [[true, true], [true, true, false], [false, false]] := by decide

-- after thread 1's find the key lives in bucket 5 (moved there from bucket 1 by the lazy rehash), which is its home
set_option maxRecDepth 100000 in
example : let sh := (run id exProgs (List.replicate 14 { tid := 0 } ++ List.replicate 16 { tid := 1 })).sh
    sh.chainOf 5 = [{ id := 0, key := 5, val := 7 }] ∧ sh.chainOf 1 = [] ∧ sh.home 5 = 5 ∧ sh.present id 5 = some { id := 0, key := 5, val := 7 } := by decide

-- hmap_lookup_finds is not vacuous: a thread at pc `link`
set_option maxRecDepth 100000 in
example : ((run id exProgs (List.replicate 5 { tid := 0 })).ths.map (·.pc))[0]? = some Pc.link := by decide

-- hmap_accessor_excl (3), (4): a thread about to delete the node (pc `free`), and one step earlier at pc `eRel`
set_option maxRecDepth 100000 in
example : ((run id exProgs (List.replicate 14 { tid := 0 } ++ List.replicate 21 { tid := 1 })).ths.map (·.pc))[1]? = some Pc.free ∧
    ((run id exProgs (List.replicate 14 { tid := 0 } ++ List.replicate 20 { tid := 1 })).ths.map (·.pc))[1]? = some Pc.eRel := by decide

-- an accessor is held (thread 0 after its insert, before the release)
set_option maxRecDepth 100000 in
example : ((run id exProgs (List.replicate 12 { tid := 0 })).ths.map (fun t => t.acc.map (·.2)))[0]? = some (some true) := by decide

-- bucket arithmetic: bucket 300 lives in segment 8 at offset 44, its parent is 44, and 300 is the child of 44 for hash 300
example : bucketAddr 300 = (8, 44) ∧ parentOf 300 = 44 ∧ movesTo 300 300 = true ∧ movesTo 300 44 = false ∧ allocOf 300 = (2, 44) := by decide

end TbbVerif.C10
