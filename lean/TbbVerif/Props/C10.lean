/-
C10 — property theorems for concurrent_hash_map (`HMap`, Model/C10.lean).  Lemmas and invariants live in Proofs/C10/*.lean.

All machine theorems quantify over EVERY hash function `hash : Nat → Nat`, EVERY set of thread programs (any number of
threads, any operation sequences) and EVERY schedule `sched : List Act` (which thread moves, and which alternative it takes
wherever the lock abstraction leaves a choice: a try-lock may fail, an upgrade may or may not be in place, a waiter may give
up).  `run hash progs sched` is the state reached.

Abstraction ("partial: locks by appeal to C08"): a bucket / element mutex is its C08-proved specification state (writer,
readers); a lock operation is one step; the code under a lock between two accesses to other shared words is one step.
-/
import TbbVerif.Proofs.C10.Glue
import TbbVerif.Proofs.C10.RSize
import TbbVerif.Generated.C10

namespace TbbVerif.C10

/-! ## Generated constants -/

/-- The constants and the load-factor rule the model assumes are the ones the header defines / the real table exhibits
(regenerated on every run): two embedded buckets in segment 0, first block of 8 segments, growth is elected when the
size reaches the mask, the masks published by `enable_segment` are `2^lvlAfterEnable k - 1`, the lock-word layout. -/
theorem generated_constants :
    Generated.C10.embeddedBlock = 1 ∧ Generated.C10.embeddedBuckets = 2 ^ Generated.C10.embeddedBlock ∧
    Generated.C10.initialMask = 2 ^ Generated.C10.embeddedBlock - 1 ∧
    Generated.C10.embeddedBlock ≤ Generated.C10.firstBlock ∧ Generated.C10.pointersPerTable = 64 ∧
    Generated.C10.growAt0 = Generated.C10.initialMask ∧ Generated.C10.maskAfter0 = 2 ^ lvlAfterEnable Generated.C10.embeddedBlock - 1 ∧
    Generated.C10.growAt1 = Generated.C10.maskAfter0 ∧ Generated.C10.maskAfter1 = 2 ^ lvlAfterEnable Generated.C10.firstBlock - 1 ∧
    Generated.C10.growAt2 = Generated.C10.maskAfter1 ∧ Generated.C10.maskAfter2 = 2 ^ lvlAfterEnable (Generated.C10.firstBlock + 1) - 1 ∧
    Generated.C10.rehashReqFlag = 3 ∧ Generated.C10.emptyRehashedFlag = 0 ∧
    Generated.C10.lockWriter = 1 ∧ Generated.C10.lockWriterPending = 2 ∧ Generated.C10.lockOneReader = 4 := by decide

/-! ## Bucket / segment arithmetic -/

/-- **Bucket index ↔ (segment, offset) is a bijection** (64-bit indices): `get_bucket(i)` lands inside segment
`segment_index_of(i)`, the index is recovered as `segment_base(s) + offset`, and every in-range (segment, offset) pair is
hit by exactly that index. -/
theorem bucket_segment_bijection :
    (∀ i, i < 2 ^ 64 → (bucketAddr i).1 < 64 ∧ (bucketAddr i).2 < segCap (bucketAddr i).1 ∧ segBase (bucketAddr i).1 + (bucketAddr i).2 = i) ∧
    (∀ s off, s < 64 → off < segCap s → bucketAddr (segBase s + off) = (s, off)) :=
  ⟨fun i hi => ⟨(bucketAddr_bound i hi).1, (bucketAddr_bound i hi).2, bucketAddr_inv i hi⟩, bucketAddr_surj⟩

/-- Two buckets never share a slot of a bucket array: (allocation, offset) is injective and in bounds (the embedded array,
the single allocation behind segments 1..first_block-1, one allocation per later segment). -/
theorem bucket_alloc_injective :
    (∀ i, i < 2 ^ 64 → (allocOf i).2 < allocSize (allocOf i).1) ∧ (∀ i j, i < 2 ^ 64 → j < 2 ^ 64 → allocOf i = allocOf j → i = j) :=
  ⟨allocOf_bound, allocOf_inj⟩

/-- **Parent relation.** A bucket `c ≥ 1` on the path of hash `h` (`c = h mod 2^l` for some level `l`) is `h`'s bucket at
its own level `log2 c + 1`, its parent (`c` with the top bit cleared, what `rehash_bucket` computes) is `h`'s bucket one
level below, no bucket of the path lies strictly between the two, and a node moves from the parent into `c` during the
split iff `c` is on the path of its hash — i.e. iff the new bit is set and the lower bits agree. -/
theorem parent_relation {h c l : Nat} (hc : 1 ≤ c) (hcl : c = h % 2 ^ l) :
    c = h % 2 ^ (Nat.log2 c + 1) ∧ parentOf c = h % 2 ^ Nat.log2 c ∧ parentOf c < c ∧
    (∀ j, h % 2 ^ j < c → h % 2 ^ j ≤ parentOf c) ∧
    (∀ nh, movesTo c nh = true ↔ nh % 2 ^ (Nat.log2 c + 1) = c) ∧ (∀ nh, movesTo c nh = true ↔ ∃ l', c = nh % 2 ^ l') :=
  ⟨(pb_level hc hcl).1, (pb_level hc hcl).2, parentOf_lt hc, fun _ hlt => pb_le_parent hc hcl rfl hlt,
    fun nh => movesTo_iff c nh, fun nh => movesTo_iff_onPath hc⟩

/-- The bit-twiddling forms of the code (`hash & mask` with `mask = (1 << log2 hash) - 1`, `(mask << 1) | 1`, the loop of
`check_rehashing_collision`) are the level forms the machine uses. -/
theorem code_shapes_agree :
    (∀ b, parentCode b = parentOf b) ∧ (∀ b nh, movesCode b nh = movesTo b nh) ∧
    (∀ flagged h lo lm, lo < lm → lm ≤ 64 →
      chkCollCode flagged h (2 ^ lo - 1) (2 ^ lm - 1) = (decide (h % 2 ^ lo ≠ h % 2 ^ lm) && !flagged (h % 2 ^ nextLvl h lo (lm - lo)))) :=
  ⟨parentCode_eq, movesCode_eq, fun f h lo lm h1 h2 => chkCollCode_eq f h lo lm h1 h2⟩

/-! ## key_home -/

/-- **hmap_key_home.** In every reachable state: every linked node lives in the bucket `home (hash key)` — the bucket of
its hash under the largest mask whose bucket is a chain (not flagged, not in the middle of being rehashed); no chain holds
a key twice and no key is in two chains; flagged buckets and buckets being rehashed hold nothing. -/
theorem hmap_key_home (hash : Nat → Nat) (progs : List (List Op)) (sched : List Act) :
    let sh := (run hash progs sched).sh
    (∀ b n, n ∈ sh.chainOf b → sh.home (hash n.key) = b) ∧
    (∀ b, ((sh.chainOf b).map (·.key)).Nodup) ∧
    (∀ b b' n n', n ∈ sh.chainOf b → n' ∈ sh.chainOf b' → n.key = n'.key → b = b' ∧ n = n') ∧
    (∀ b, (sh.bkt b).isChain = false → sh.chainOf b = []) := by
  have h := (invAll_reachable hash progs sched).i1.sh
  refine ⟨fun b n hn => home_eq h (h.home b n hn), h.nodup, fun b b' n n' hn hn' hk => linked_unique h hn hn' hk, ?_⟩
  intro b hb
  unfold Sh.chainOf
  cases hbb : ((run hash progs sched).sh.bkt b) <;> simp_all [Bucket.nodes, Bucket.isChain]

/-- **The split moves exactly the keys whose new bit is set.** `rehash_bucket` of child `c` from its parent `b` (both
write-locked): the parent keeps the nodes whose hash does not have `c` on its path, the child receives the others (in
reverse order: `add_to_bucket` pushes to the head), nothing is lost or duplicated. -/
theorem hmap_rehash_split (hash : Nat → Nat) (sh : Sh) (tid : Tid) (t : Th) (b c : Nat) (wc : Bool) (r : List (Nat × Bool))
    (hs : t.stk = (b, true) :: (c, wc) :: r) (hbc : b ≠ c)
    (hmv : ((sh.chainOf b).filter (fun n => movesTo c (hash n.key))).isEmpty = false) :
    let sh' := (afterAcq hash sh tid t).1
    sh'.chainOf b = (sh.chainOf b).filter (fun n => !movesTo c (hash n.key)) ∧
    sh'.chainOf c = ((sh.chainOf b).filter (fun n => movesTo c (hash n.key))).reverse ∧
    (∀ n, n ∈ sh.chainOf b ↔ n ∈ sh'.chainOf b ∨ n ∈ sh'.chainOf c) ∧
    (∀ n, n ∈ sh'.chainOf c → hash n.key % 2 ^ (Nat.log2 c + 1) = c) := by
  rw [afterAcq_rehash_eq hash sh tid t hs]
  simp only [hmv, Bool.false_eq_true, if_false, if_true]
  refine ⟨by rw [chainOf_setB, if_neg hbc, chainOf_setB, if_pos rfl]; rfl, by rw [chainOf_setB, if_pos rfl]; rfl, ?_, ?_⟩
  · intro n
    rw [chainOf_setB, if_neg hbc, chainOf_setB, if_pos rfl, chainOf_setB, if_pos rfl]
    simp only [nodes_chain, List.mem_filter, List.mem_reverse]
    cases movesTo c (hash n.key) <;> simp
  · intro n hn
    rw [chainOf_setB, if_pos rfl] at hn
    simp only [nodes_chain, List.mem_reverse, List.mem_filter] at hn
    exact (movesTo_iff _ _).1 hn.2

/-- **hmap_lookup_finds.** Whenever an insert is about to link its node (it has searched its bucket under the lock,
upgraded, and `check_mask_race` did not send it back), the bucket it holds as writer is the home of the key's hash and the
key is nowhere in the table: the search inspected the right bucket.  (This is what fails without `check_mask_race`.) -/
theorem hmap_lookup_finds (hash : Nat → Nat) (progs : List (List Op)) (sched : List Act) (tid : Nat) (t : Th)
    (ht : (run hash progs sched).ths[tid]? = some t) (hpc : t.pc = .link) :
    let sh := (run hash progs sched).sh
    t.stk = [(sh.home (hash t.op.key), true)] ∧ (sh.blk (sh.home (hash t.op.key))).w = some tid ∧ sh.present hash t.op.key = none := by
  have hI := (invAll_reachable hash progs sched).i1
  have hT := hI.th tid t ht
  have hc := hT.c
  rw [hpc] at hc
  simp only [CAt] at hc
  obtain ⟨hs, hop, hnf, habove, hk⟩ := hc
  have hkne : t.op.k ≠ .exclude := by rw [hk]; simp
  have hh := hT.hOk (by rw [hpc]; simp) hkne
  have hhome : (run hash progs sched).sh.home (hash t.op.key) = t.b0 := by
    rw [← hh]; exact home_eq hI.sh ⟨hop.2, hop.1, habove⟩
  simp only
  rw [hhome]
  refine ⟨hs, holdsW_of hT (by rw [hs]; exact List.mem_cons_self ..), ?_⟩
  unfold Sh.present
  rw [hhome]
  unfold NotFound at hnf
  rw [if_neg hkne] at hnf
  exact hnf

/-! ## Linearizability -/

/-- the map the table represents equals the final map of the linearization -/
theorem spec_eq_present {hash : Nat → Nat} {sh : Sh} (hS : ShInv hash sh) {s : Spec}
    (h3 : ∀ n, s n.key = some n ↔ IsLinked sh n) (h4 : ∀ k n, s k = some n → n.key = k) : ∀ k, s k = sh.present hash k := by
  intro k
  cases hsk : s k with
  | none =>
    cases hp : sh.present hash k with
    | none => rfl
    | some n =>
      exfalso
      obtain ⟨hl, hk⟩ := present_some_linked hp
      have := (h3 n).2 hl
      rw [hk, hsk] at this; cases this
  | some n =>
    have hk := h4 k n hsk
    obtain ⟨b, hb⟩ := (h3 n).1 (by rw [hk]; exact hsk)
    rw [← hk, present_eq_some hS hb]

/-- **hmap_linearizable.** In every reachable state the ghost history — one entry per operation, appended at its
linearization point with the result the operation returns (successful insert: the linking of the node, under the bucket's
writer lock, after `check_mask_race`; insert that finds the key / successful find: the search under the bucket lock, or the
acquisition of the element lock when an accessor is requested; count: the search; failed find / count / erase: the moment
`check_mask_race` confirms the searched bucket; successful erase: the unlinking under the bucket's writer lock; erase by
accessor that finds the node gone: likewise) — is a legal sequential history of the map `Key → Option Node` starting from
the empty map, and the map it ends in is exactly the content of the table. -/
theorem hmap_linearizable (hash : Nat → Nat) (progs : List (List Op)) (sched : List Act) :
    let sh := (run hash progs sched).sh
    ∃ s, specRun (fun _ => none) sh.hist.reverse = some s ∧ ∀ k, s k = sh.present hash k := by
  have hA := invAll_reachable hash progs sched
  obtain ⟨s, h1, h3, h4⟩ := hA.i2.sh.lin
  exact ⟨s, by rw [← specOf_eq_specRun]; exact h1, spec_eq_present hA.i1.sh h3 h4⟩

/-- the history of a reachable state is legal (newest-first form, for the corollaries) -/
theorem hist_legal (hash : Nat → Nat) (progs : List (List Op)) (sched : List Act) :
    ∃ s, specOf (run hash progs sched).sh.hist = some s := by
  obtain ⟨s, h1, _, _⟩ := (invAll_reachable hash progs sched).i2.sh.lin
  exact ⟨s, h1⟩

/-- **hmap_insert_one_winner.** Between two successful inserts of the same key (in linearization order; `e1` is the
earlier) there is a successful erase of that key: of several concurrent inserts of an absent key exactly one returns true. -/
theorem hmap_insert_one_winner (hash : Nat → Nat) (progs : List (List Op)) (sched : List Act) (k : Nat)
    (es1 es2 es3 : List HEv) (e1 e2 : HEv) (hh : (run hash progs sched).sh.hist = es1 ++ e2 :: es2 ++ e1 :: es3)
    (h1 : IsIns k e1) (h2 : IsIns k e2) : ∃ e ∈ es2, IsRem k e := by
  obtain ⟨s, hs⟩ := hist_legal hash progs sched
  rw [hh] at hs
  exact legal_insert_one_winner hs h1 h2

/-- **hmap_erase_one_winner.** Between two successful erases (by key or by accessor) of the same key there is a successful
insert of that key: of several concurrent erases of a present key exactly one returns true. -/
theorem hmap_erase_one_winner (hash : Nat → Nat) (progs : List (List Op)) (sched : List Act) (k : Nat)
    (es1 es2 es3 : List HEv) (e1 e2 : HEv) (hh : (run hash progs sched).sh.hist = es1 ++ e2 :: es2 ++ e1 :: es3)
    (h1 : IsRem k e1) (h2 : IsRem k e2) : ∃ e ∈ es2, IsIns k e := by
  obtain ⟨s, hs⟩ := hist_legal hash progs sched
  rw [hh] at hs
  exact legal_erase_one_winner hs h1 h2

/-- **A find after an insert and before any erase succeeds** (and returns the inserted element); an erase by key in that
position succeeds; a find with no insert before it fails (nothing is resurrected or invented). -/
theorem hmap_find_after_insert (hash : Nat → Nat) (progs : List (List Op)) (sched : List Act) (k : Nat)
    (es1 es2 es3 : List HEv) (e1 e2 : HEv) (hh : (run hash progs sched).sh.hist = es1 ++ e2 :: es2 ++ e1 :: es3)
    (h1 : IsIns k e1) (hno : ∀ e ∈ es2, ¬ IsRem k e) :
    (IsLook k e2 → e2.ok = true ∧ e2.node = e1.node) ∧ (e2.k = .erase ∧ e2.key = k → e2.ok = true) := by
  obtain ⟨s, hs⟩ := hist_legal hash progs sched
  rw [hh] at hs
  exact ⟨fun h2 => legal_find_after_insert hs h1 h2 hno, fun h2 => legal_erase_after_insert hs h1 h2 hno⟩

theorem hmap_find_absent (hash : Nat → Nat) (progs : List (List Op)) (sched : List Act) (k : Nat)
    (es1 es2 : List HEv) (e2 : HEv) (hh : (run hash progs sched).sh.hist = es1 ++ e2 :: es2)
    (h2 : IsLook k e2) (hno : ∀ e ∈ es2, ¬ IsIns k e) : e2.ok = false := by
  obtain ⟨s, hs⟩ := hist_legal hash progs sched
  rw [hh] at hs
  exact legal_find_absent hs h2 hno

/-! ## Locks, accessors, freeing -/

/-- **Bucket locks.** Two threads never hold the same bucket lock unless both as readers, and a bucket in the middle of
being rehashed is write-locked by the thread rehashing it. -/
theorem hmap_bucket_excl (hash : Nat → Nat) (progs : List (List Op)) (sched : List Act) (i j : Nat) (ti tj : Th) (b : Nat) (w : Bool)
    (hi : (run hash progs sched).ths[i]? = some ti) (hj : (run hash progs sched).ths[j]? = some tj) (hij : i ≠ j)
    (hwi : (b, true) ∈ ti.stk) : (b, w) ∉ tj.stk := by
  have hI := (invAll_reachable hash progs sched).i1
  intro hwj
  have h1 := holdsW_of (hI.th i ti hi) hwi
  have h2 := (hI.th j tj hj).heldB (b, w) hwj
  exact hij (holds_excl (hI.sh.bwf b) h2 h1)

/-- **hmap_accessor_excl.** In every reachable state: (1) while a thread holds an `accessor` (writer) to an element no other
thread holds any accessor to it; (2) while it holds a `const_accessor` no other thread holds an `accessor`; (3) an element
to which some accessor points has not been destroyed; (4) a thread that is about to destroy a node (`delete_node`) is the
thread that unlinked it, the node is in no chain, and no thread holds any accessor to it; (5) it got there only through the
release of the element lock it held as writer (pc `eRel`), where it holds that lock as writer. -/
theorem hmap_accessor_excl (hash : Nat → Nat) (progs : List (List Op)) (sched : List Act) :
    let st := run hash progs sched
    (∀ (i j : Nat) (ti tj : Th) (n : Node) (w : Bool), st.ths[i]? = some ti → st.ths[j]? = some tj → i ≠ j → ti.acc = some (n, true) → tj.acc ≠ some (n, w)) ∧
    (∀ (i : Nat) (ti : Th) (n : Node) (w : Bool), st.ths[i]? = some ti → ti.acc = some (n, w) → st.sh.freed n = false) ∧
    (∀ (i : Nat) (ti : Th), st.ths[i]? = some ti → ti.pc = .free → ∃ n, ti.n = some n ∧ st.sh.unlinker n = some i ∧ ¬ IsLinked st.sh n ∧
        ∀ (j : Nat) (tj : Th) (w : Bool), st.ths[j]? = some tj → tj.acc ≠ some (n, w)) ∧
    (∀ (i : Nat) (ti : Th), st.ths[i]? = some ti → ti.pc = .eRel → ∃ n, ti.n = some n ∧ (st.sh.elk n).w = some i ∧ st.sh.unlinker n = some i) := by
  have hA := invAll_reachable hash progs sched
  refine ⟨?_, ?_, ?_, ?_⟩
  · intro i j ti tj n w hi hj hij hai haj
    have h1 := ((hA.i2.th i ti hi).heldE n true hai).1
    have h2 := ((hA.i2.th j tj hj).heldE n w haj).1
    have hw : ((run hash progs sched).sh.elk n).w = some i := by simpa [HoldsE] using h1
    unfold HoldsE at h2
    split at h2
    · rw [hw] at h2; exact hij (Option.some.inj h2)
    · rw [hA.i2.sh.ewf n i hw] at h2; cases h2
  · intro i ti n w hi ha
    exact ((hA.i2.th i ti hi).heldE n w ha).2.1
  · intro i ti hi hpc
    have hd := (hA.i2.th i ti hi).d
    rw [hpc] at hd
    simp only [DAt] at hd
    obtain ⟨⟨n, hn, hu, hl, _, _⟩, n', hn', hw, hr⟩ := hd
    rw [hn] at hn'; cases hn'
    refine ⟨n, hn, hu, hl, ?_⟩
    intro j tj w hj ha
    have h2 := ((hA.i2.th j tj hj).heldE n w ha).1
    unfold HoldsE at h2
    split at h2
    · rw [hw] at h2; cases h2
    · rw [hr] at h2; cases h2
  · intro i ti hi hpc
    have hd := (hA.i2.th i ti hi).d
    rw [hpc] at hd
    simp only [DAt] at hd
    obtain ⟨⟨n, hn, hu, _, _, _⟩, n', hn', hw⟩ := hd
    rw [hn] at hn'; cases hn'
    exact ⟨n, hn, hw, hu⟩

/-- (2) of the accessor rule: a `const_accessor` excludes writers. -/
theorem hmap_const_accessor_excl (hash : Nat → Nat) (progs : List (List Op)) (sched : List Act) (i j : Nat) (ti tj : Th) (n : Node)
    (hi : (run hash progs sched).ths[i]? = some ti) (hj : (run hash progs sched).ths[j]? = some tj) (hij : i ≠ j)
    (hai : ti.acc = some (n, false)) : tj.acc ≠ some (n, true) := by
  intro haj
  exact (hmap_accessor_excl hash progs sched).1 j i tj ti n false hj hi (Ne.symm hij) haj hai

/-! ## Growth -/

/-- **Growth.** At most one thread at a time has won the election for enabling the next segment, every segment below the
published mask has been claimed before the mask was published, and no thread works with a mask snapshot above the
published mask (the mask only grows). -/
theorem hmap_growth (hash : Nat → Nat) (progs : List (List Op)) (sched : List Act) :
    let st := run hash progs sched
    (∀ (i j : Nat) (ti tj : Th), st.ths[i]? = some ti → st.ths[j]? = some tj → i ≠ j → ti.grow ≠ 0 → tj.grow = 0) ∧
    (∀ k, 1 ≤ k → k < st.sh.lvl → st.sh.seg k ≠ .none) ∧
    (∀ (i : Nat) (ti : Th), st.ths[i]? = some ti → ti.m ≤ st.sh.lvl) ∧ 1 ≤ st.sh.lvl := by
  have hI := (invAll_reachable hash progs sched).i1
  exact ⟨hI.grow1, hI.sh.seg_lo, fun i ti hi => (hI.th i ti hi).g.1, hI.sh.lvl_pos⟩

/-! ## The history records what the operations return; control flow of deletion -/

/-- **Every step appends at most one history entry; it belongs to the stepping thread, has the kind of its current
operation, and records the result the thread returns** (`ret`, which `Th.finish` reports when the operation ends). -/
theorem hmap_history_records_results (hash : Nat → Nat) (sh : Sh) (tid : Tid) (t : Th) (alt : Nat) :
    let r := stepTh hash sh tid t alt
    r.1.hist = sh.hist ∨ ∃ e, r.1.hist = e :: sh.hist ∧ e.tid = tid ∧ e.ok = r.2.1.ret ∧ e.k = t.op.k :=
  hist_step hash sh tid t alt

/-- **`delete_node` is reached only through the release of the element lock held as writer**: the only step into pc `free`
is the step of pc `eRel` (at which, by `hmap_accessor_excl`, the thread holds the element lock as writer). -/
theorem hmap_free_only_after_release (hash : Nat → Nat) (sh : Sh) (tid : Tid) (t : Th) (alt : Nat)
    (h : (stepTh hash sh tid t alt).2.1.pc = .free) (hne : t.pc ≠ .free) : t.pc = .eRel :=
  free_only_after_eRel hash sh tid t alt h hne


/-! # The refined model `HMapR` (Model/C10R.lean): real lock words

`HMapR` replaces the specification locks of `HMap` by the state word of a `spin_rw_mutex` per bucket and per element,
driven by C08's word-level model itself (`C08.step`): one step of `HMapR` is one atomic access of the real code (or the
purely local call of a lock operation).  `rrun hash progs sched` is the state reached; `(rrun …).a` is its `HMap` component.

What is imported from C08 (instantiated per lock — nothing about the mutex is assumed): `C08.Inv` with its proof of
inductiveness `C08.inv_step` (reader count = transient + holding + upgrading readers; WRITER ⇔ exactly one exclusive
holder / in-place upgrader; an exclusive holder excludes shared holders; PENDING only with a pending writer / upgrader;
no borrow across bit fields), `C08.stepTh_good` / `C08.sv0_word` (a successful lock CAS proves the word was free), and
the per-operation step functions of Model/C08.lean. -/

open TbbVerif.C10R

/-- **The functions whose lock usage `HMapR` transcribes have the statement skeletons it was written for** (regenerated from
concurrent_hash_map.h on every run: comments, assertions, white space removed, parameters / locals / labels renamed
positionally, adjacent independent call-free assignments sorted).  Notably: `bucket_accessor::acquire` tries the WRITER lock only when the flag is seen, re-checks the flag
under the lock, and otherwise takes the lock as requested; `lookup` re-searches inside the `while (!is_writer && !upgrade)`
loop, calls `check_mask_race` before `insert_new_node`, and takes the element lock with `try_acquire` in a bounded back-off
loop that releases the bucket and restarts with a fresh mask; `internal_erase` re-checks the mask and searches again after a
contended upgrade and takes the element lock as writer after the unlinking; `rehash_bucket` restarts its scan after a
contended upgrade. -/
theorem generated_lock_skeletons :
    Generated.C10.acquireSkeleton =
      ["(v0, v1, v2)",
       "my_b = v0->get_bucket( v1 )",
       "if (rehash_required(my_b->node_list.load(std::memory_order_acquire)) && bucket::scoped_type::try_acquire( my_b->mutex, true ) ) {",
       "if (rehash_required(my_b->node_list.load(std::memory_order_relaxed))) v0->rehash_bucket(my_b, v1)",
       "}",
       "else bucket::scoped_type::acquire( my_b->mutex, v2 )"] ∧
    Generated.C10.rehashBucketSkeleton =
      ["(v0, v1)",
       "v0->node_list.store(reinterpret_cast<node_base*>(empty_rehashed_flag), std::memory_order_release)",
       "hashcode_type v2 = (hashcode_type(1) << tbb::detail::log2(v1)) - 1",
       "bucket_accessor v3( this, v1 & v2 )",
       "v2 = (v2<<1) | 1",
       "L0: node_base* v4 = nullptr",
       "node_base* v5 = v3()->node_list.load(std::memory_order_acquire)",
       "while (this->is_valid(v5)) {",
       "hashcode_type v6 = my_hash_compare.hash(static_cast<node*>(v5)->value().first)",
       "if ((v6 & v2) == v1) {",
       "if (!v3.is_writer()) {",
       "if (!v3.upgrade_to_writer()) {",
       "goto L0",
       "}",
       "}",
       "node_base* v7 = v5->next",
       "if (v4 == nullptr) {",
       "v3()->node_list.store(v5->next, std::memory_order_relaxed)",
       "}",
       "else {",
       "v4->next = v5->next",
       "}",
       "this->add_to_bucket(v0, v5)",
       "v5 = v7",
       "}",
       "else {",
       "v4 = v5",
       "v5 = v5->next",
       "}",
       "}"] ∧
    Generated.C10.lookupSkeleton =
      ["(v0, v1, v2, v3, v4, v5)",
       "bool v6",
       "hashcode_type const v7 = my_hash_compare.hash( v0 )",
       "hashcode_type v8 = this->my_mask.load(std::memory_order_acquire)",
       "segment_index_type v9 = 0",
       "node *v10",
       "L0: {",
       "v6 = false",
       "bucket_accessor v11( this, v7 & v8 )",
       "v10 = search_bucket( v0, v11() )",
       "if( OpInsert ) {",
       "if( !v10 ) {",
       "if( !v5 ) {",
       "v5 = allocate_node_helper(v0, v1, v4, std::integral_constant<bool, OpInsert>{})",
       "}",
       "while ( !v11.is_writer() && !v11.upgrade_to_writer() ) {",
       "v10 = search_bucket(v0, v11())",
       "if (this->is_valid(v10)) {",
       "if (!v11.downgrade_to_reader()) {",
       "v10 = search_bucket(v0, v11())",
       "if (!this->is_valid(v10)) {",
       "continue",
       "}",
       "}",
       "goto L1",
       "}",
       "}",
       "if( this->check_mask_race(v7, v8) ) goto L0",
       "v9 = this->insert_new_node( v11(), v10 = v5, v8 )",
       "v5 = nullptr",
       "v6 = true",
       "}",
       "}",
       "else {",
       "if( !v10 ) {",
       "if( this->check_mask_race( v7, v8 ) ) goto L0",
       "return false",
       "}",
       "v6 = true",
       "}",
       "L1: if( !v2 ) goto L2",
       "if( !v2->try_acquire( v10->mutex, v3 ) ) {",
       "for( tbb::detail::atomic_backoff v12(true);; ) {",
       "if( v2->try_acquire( v10->mutex, v3 ) ) break",
       "if( !v12.bounded_pause() ) {",
       "v11.release()",
       "yield()",
       "v8 = this->my_mask.load(std::memory_order_acquire)",
       "goto L0",
       "}",
       "}",
       "}",
       "}",
       "v2->my_hash = v7",
       "v2->my_node = v10",
       "L2: if( v9 ) {",
       "this->enable_segment( v9 )",
       "}",
       "if( v5 ) delete_node( v5 )",
       "return v6"] ∧
    Generated.C10.excludeSkeleton =
      ["(v0)",
       "node_base *const v1 = v0.my_node",
       "hashcode_type const v2 = v0.my_hash",
       "hashcode_type v3 = this->my_mask.load(std::memory_order_acquire)",
       "do {",
       "bucket_accessor v4( this, v2 & v3, true )",
       "node_base* v5 = nullptr",
       "node_base* v6 = v4()->node_list.load(std::memory_order_relaxed)",
       "while (v6 && v6 != v1) {",
       "v5 = v6",
       "v6 = v6->next",
       "}",
       "if (v6 == nullptr) {",
       "if (this->check_mask_race(v2, v3)) continue",
       "v0.release()",
       "return false",
       "}",
       "if (v5 == nullptr) {",
       "v4()->node_list.store(v6->next, std::memory_order_relaxed)",
       "}",
       "else {",
       "v5->next = v6->next",
       "}",
       "this->my_size--",
       "break",
       "}",
       "while(true)",
       "if (!v0.is_writer()) {",
       "v0.upgrade_to_writer()",
       "}",
       "v0.release()",
       "delete_node(v1)",
       "return true"] ∧
    Generated.C10.internalEraseSkeleton =
      ["(v0)",
       "node_base *v1",
       "hashcode_type const v2 = my_hash_compare.hash(v0)",
       "hashcode_type v3 = this->my_mask.load(std::memory_order_acquire)",
       "L0: {",
       "bucket_accessor v4( this, v2 & v3 )",
       "L1: node_base* v5 = nullptr",
       "v1 = v4()->node_list.load(std::memory_order_relaxed)",
       "while (this->is_valid(v1) && !my_hash_compare.equal(v0, static_cast<node*>(v1)->value().first ) ) {",
       "v5 = v1",
       "v1 = v1->next",
       "}",
       "if (v1 == nullptr) {",
       "if (this->check_mask_race(v2, v3)) goto L0",
       "return false",
       "}",
       "else if (!v4.is_writer() && !v4.upgrade_to_writer()) {",
       "if (this->check_mask_race(v2, v3)) goto L0",
       "goto L1",
       "}",
       "if (v5 == nullptr) {",
       "v4()->node_list.store(v1->next, std::memory_order_relaxed)",
       "}",
       "else {",
       "v5->next = v1->next",
       "}",
       "this->my_size--",
       "}",
       "{",
       "typename node::scoped_type v6( v1->mutex, true )",
       "}",
       "delete_node(v1)",
       "return true"] ∧
    Generated.C10.checkMaskRaceSkeleton =
      ["(v0, v1)",
       "hashcode_type v2, v3 = v1",
       "v2 = my_mask.load(std::memory_order_acquire)",
       "if (v3 != v2) {",
       "return check_rehashing_collision(v0, v3, v1 = v2)",
       "}",
       "return false"] ∧
    Generated.C10.checkRehashingCollisionSkeleton =
      ["(v0, v1, v2)",
       "if( (v0 & v1) != (v0 & v2) ) {",
       "for( ++v1; !(v0 & v1); v1 <<= 1 )",
       "v1 = (v1<<1) - 1",
       "if (!rehash_required(get_bucket(v0 & v1)->node_list.load(std::memory_order_acquire))) {",
       "return true",
       "}",
       "}",
       "return false"] ∧
    Generated.C10.insertNewNodeSkeleton =
      ["(v0, v1, v2)",
       "size_type v3 = ++my_size",
       "add_to_bucket( v0, v1 )",
       "if( v3 >= v2 ) {",
       "segment_index_type v4 = tbb::detail::log2( v2+1 )",
       "static const segment_ptr_type v5 = segment_ptr_type(2)",
       "segment_ptr_type v6 = nullptr",
       "if (!(my_table[v4].load(std::memory_order_acquire)) && my_table[v4].compare_exchange_strong(v6, v5)) return v4",
       "}",
       "return 0"] ∧
    Generated.C10.enableSegmentSkeleton =
      ["(v0, v1)",
       "size_type v2",
       "if (v0 >= first_block) {",
       "v2 = segment_size(v0)",
       "segment_ptr_type v3 = nullptr",
       "try_call( [&] { v3 = bucket_allocator_traits::allocate(my_allocator, v2); } ).on_exception( [&] { my_table[v0].store(nullptr, std::memory_order_relaxed); })",
       "init_buckets(v3, v2, v1)",
       "my_table[v0].store(v3, std::memory_order_release)",
       "v2 <<= 1",
       "}",
       "else {",
       "v2 = segment_size(first_block)",
       "segment_ptr_type v3 = nullptr",
       "try_call( [&] { v3 = bucket_allocator_traits::allocate(my_allocator, v2 - embedded_buckets); } ).on_exception( [&] { my_table[v0].store(nullptr, std::memory_order_relaxed); })",
       "init_buckets(v3, v2 - embedded_buckets, v1)",
       "v3 -= segment_base(embedded_block)",
       "for(segment_index_type v4 = embedded_block; v4 < first_block; v4++) my_table[v4].store(v3 + segment_base(v4), std::memory_order_release)",
       "}",
       "my_mask.store(v2-1, std::memory_order_release)"] ∧
    Generated.C10.getBucketSkeleton =
      ["(v0)",
       "segment_index_type v1 = segment_index_of( v0 )",
       "v0 -= segment_base(v1)",
       "segment_ptr_type v2 = my_table[v1].load(std::memory_order_acquire)",
       "return &v2[v0]"] ∧
    Generated.C10.addToBucketSkeleton =
      ["(v0, v1)",
       "v1->next = v0->node_list.load(std::memory_order_relaxed)",
       "v0->node_list.store(v1, std::memory_order_relaxed)"] ∧
    Generated.C10.searchBucketSkeleton =
      ["(v0, v1)",
       "node *v2 = static_cast<node*>( v1->node_list.load(std::memory_order_relaxed) )",
       "while (this->is_valid(v2) && !my_hash_compare.equal(v0, v2->value().first)) v2 = static_cast<node*>( v2->next )",
       "return v2"] := by
  refine ⟨?_, ?_, ?_, ?_, ?_, ?_, ?_, ?_, ?_, ?_, ?_, ?_⟩ <;> rfl

/-- **hmapr_refines.** Every run of `HMapR` (any threads, programs, schedule, hash function) projects onto a run of `HMap`:
the `HMap` component of the reached state is the state `HMap` reaches under the schedule `absSched`.  Hence **every theorem
above holds for the refined model** (`hmapr_transfer`). -/
theorem hmapr_refines (hash : Nat → Nat) (progs : List (List Op)) (sched : List Act) :
    (rrun hash progs sched).a = run hash progs (absSched hash progs sched) :=
  rrun_a hash progs sched

/-- whatever holds in every reachable state of `HMap` holds of the `HMap` component of every reachable state of `HMapR` -/
theorem hmapr_transfer (hash : Nat → Nat) (progs : List (List Op)) (P : St → Prop) (h : ∀ sched, P (run hash progs sched))
    (sched : List Act) : P (rrun hash progs sched).a := by
  rw [hmapr_refines]; exact h _

/-- e.g. linearizability, for the model with real lock words -/
theorem hmapr_linearizable (hash : Nat → Nat) (progs : List (List Op)) (sched : List Act) :
    let sh := (rrun hash progs sched).a.sh
    ∃ s, specRun (fun _ => none) sh.hist.reverse = some s ∧ ∀ k, s k = sh.present hash k :=
  hmapr_transfer hash progs (fun st => ∃ s, specRun (fun _ => none) st.sh.hist.reverse = some s ∧ ∀ k, s k = st.sh.present hash k)
    (fun sched => hmap_linearizable hash progs sched) sched

/-- **hmapr_locks_exact (the abstraction gap is closed).** In every reachable state of `HMapR`, for every bucket / element
lock `L`: (1) C08's invariant holds of its word and per-thread protocol state, no arithmetic on the word ever borrowed
across bit fields, no operation was ever called in a phase its precondition excludes; (2) the specification lock that
`HMap` uses is EXACT: its writer is the thread in C08 phase `holdW` on the word, its readers are the threads in a shared
phase (`holdR`, or upgrading in place), no reader is listed twice; (3) consequently at most one thread is in an exclusive
phase on a word, and then no other thread is in a shared phase. -/
theorem hmapr_locks_exact (hash : Nat → Nat) (progs : List (List Op)) (sched : List Act) (L : LId) :
    let s := rrun hash progs sched
    (C08.Inv (getL s L) ∧ (getL s L).bad = false ∧ ∀ i th, slot s L i = some th → th.misuse = false) ∧
    (∀ i t th, s.a.ths[i]? = some t → slot s L i = some th →
      ((lockOf s.a.sh L).w = some i ↔ th.phase = .holdW) ∧ (i ∈ (lockOf s.a.sh L).r ↔ phaseR th.phase)) ∧
    (lockOf s.a.sh L).r.Nodup ∧
    (∀ i j x y, slot s L i = some x → slot s L j = some y → i ≠ j → x.phase = .holdW ∨ x.phase = .upgReady →
      y.phase = .idle ∨ y.phase = .rt) := by
  have hC := coupled_reachable hash progs sched
  refine ⟨⟨(hC.lk L).inv, (hC.lk L).inv.hbad, fun i th h => ((hC.lk L).clean i th h).1⟩, ?_, (hC.specN L).1, ?_⟩
  · intro i t th ht hs; exact spec_exact hC L i t th ht hs
  · intro i j x y hx hy hij hp; exact alone_of_writer (hC.lk L).inv hx hy hij hp

/-- **hmap_upgrade_research.** An insert that lost the bucket lock during `upgrade_to_writer()` never links a duplicate:
(1) in every reachable state of `HMapR`, a thread about to link its node (`insert_new_node`) holds the home bucket of the key
with its word in C08 phase `holdW`, and the key is nowhere in the table; (2) the node is linked only right after
`check_mask_race` let a search stand (pc `link` is entered only from `chk1` / `chk2`); (3) from the upgrade (pc `upg`) the
mask check is reached directly only by the IN-PLACE upgrade (sole reader: nobody could have inserted in between); (4) when
the upgrade dropped the lock (pc `relock`: in `HMapR` the operation in progress there is the `upgrade` in its slow path, C08
phase idle: the thread holds nothing on the word), the step that re-acquires SEARCHES THE CHAIN AGAIN: it finds the key (→ `dng`, no insertion) or confirms it absent (→ `chk1`). -/
theorem hmap_upgrade_research (hash : Nat → Nat) :
    (∀ (progs : List (List Op)) (sched : List Act) (tid : Nat) (t : Th), (rrun hash progs sched).a.ths[tid]? = some t → t.pc = .link →
      let s := rrun hash progs sched
      t.stk = [(s.a.sh.home (hash t.op.key), true)] ∧ s.a.sh.present hash t.op.key = none ∧
      ∃ th, slot s (.b (s.a.sh.home (hash t.op.key))) tid = some th ∧ th.phase = .holdW) ∧
    (∀ sh tid t alt, (stepTh hash sh tid t alt).2.1.pc = .link → t.pc ≠ .link → t.pc = .chk1 ∨ t.pc = .chk2) ∧
    (∀ sh tid t alt, t.pc = .upg → (stepTh hash sh tid t alt).2.1.pc = .chk1 →
      alt = 0 ∧ ∃ b w, t.stk = [(b, w)] ∧ (sh.blk b).soleReader tid = true) ∧
    (∀ (progs : List (List Op)) (sched : List Act) (tid : Nat) (t : Th) (r : RTh), (rrun hash progs sched).a.ths[tid]? = some t →
      (rrun hash progs sched).rt[tid]? = some r → t.pc = .relock →
      ∃ th, r.cur = some (.b t.tgt) ∧ slot (rrun hash progs sched) (.b t.tgt) tid = some th ∧ th.ops = [.upgrade] ∧ th.phase = .idle) ∧
    (∀ sh tid t alt, t.pc = .relock →
      ((stepTh hash sh tid t alt).2.1 = t ∧ (stepTh hash sh tid t alt).1 = sh) ∨
      ((stepTh hash sh tid t alt).2.1.pc = .dng ∧ ∃ n, findKey (sh.chainOf t.tgt) t.op.key = some n ∧ (stepTh hash sh tid t alt).2.1.n = some n) ∨
      ((stepTh hash sh tid t alt).2.1.pc = .chk1 ∧ findKey (sh.chainOf t.tgt) t.op.key = none)) := by
  refine ⟨?_, fun sh tid t alt => link_only_after_chk hash sh tid t alt, fun sh tid t alt => upg_chk1_inplace hash sh tid t alt, ?_,
    fun sh tid t alt => relock_researches hash sh tid t alt⟩
  · intro progs sched tid t ht hpc
    have hC := coupled_reachable hash progs sched
    have hl : ∀ st : St, (∃ sched, st = run hash progs sched) → ∀ t, st.ths[tid]? = some t → t.pc = .link →
        t.stk = [(st.sh.home (hash t.op.key), true)] ∧ (st.sh.blk (st.sh.home (hash t.op.key))).w = some tid ∧ st.sh.present hash t.op.key = none := by
      rintro st ⟨sched, rfl⟩ t ht hpc
      exact hmap_lookup_finds hash progs sched tid t ht hpc
    obtain ⟨h1, h2, h3⟩ := hl _ ⟨_, hmapr_refines hash progs sched⟩ t ht hpc
    obtain ⟨th, hs⟩ := slot_of hC ht (.b ((rrun hash progs sched).a.sh.home (hash t.op.key)))
    exact ⟨h1, h3, th, hs, (hC.spec _ tid th hs).1 h2⟩
  · intro progs sched tid t r ht hr hpc
    have hC := coupled_reachable hash progs sched
    have hne := (hC.th tid t r ht hr).inop (by rw [hpc]; rfl)
    obtain ⟨L, hcur⟩ : ∃ L, r.cur = some L := by
      cases hc : r.cur with
      | none => exact absurd hc hne
      | some L => exact ⟨L, rfl⟩
    obtain ⟨th, op, hs, hops, _, hcok⟩ := (hC.th tid t r ht hr).cur L hcur
    cases op with
    | upgrade =>
      rcases hcok with ⟨_, (⟨h, _⟩ | ⟨h, _⟩)⟩ | ⟨hph, _, (⟨_, hL⟩ | ⟨h, _⟩)⟩
      · rw [hpc] at h; rcases h with h | h | h <;> cases h
      · rw [hpc] at h; cases h
      · subst hL; exact ⟨th, hcur, hs, hops, hph⟩
      · rw [hpc] at h; cases h
    | lock =>
      rcases hcok.2 with ⟨h, _⟩ | ⟨h, _⟩
      · rw [hpc] at h; rcases h with h | ⟨h, _⟩ <;> cases h
      · rw [hpc] at h; cases h
    | tryLock =>
      rcases hcok.2 with ⟨h, _⟩ | ⟨h, _⟩ <;> (rw [hpc] at h; cases h)
    | unlock =>
      rcases hcok.2 with ⟨h, _⟩ | ⟨⟨a, h⟩, _⟩ | ⟨h, _⟩ | ⟨h, _⟩ | ⟨h, _⟩ | ⟨h, _⟩ <;> (rw [hpc] at h; cases h)
    | lockShared =>
      rcases hcok.2.1 with h | ⟨h, _⟩ <;> (rw [hpc] at h; cases h)
    | tryLockShared => have h := hcok.2.1; rw [hpc] at h; cases h
    | unlockShared =>
      rcases hcok.2 with ⟨h, _⟩ | ⟨⟨a, h⟩, _⟩ | ⟨h, _⟩ | ⟨h, _⟩ | ⟨h, _⟩ | ⟨h, _⟩ <;> (rw [hpc] at h; cases h)
    | downgrade => have h := hcok.2.1; rw [hpc] at h; cases h

/-- **hmap_rehash_restart.** `rehash_bucket` whose `b_old.upgrade_to_writer()` dropped the parent's lock (pc `rhRelock`)
uses nothing it saw before: the step that re-acquires the parent as writer splits the chain AS IT IS NOW (whatever was
erased from / inserted into the parent meanwhile): the parent keeps exactly the nodes of its current chain that do not
belong to the new bucket, the new bucket receives the others, no node of the current chain is lost or duplicated (`goto
restart`; the model's thread state has no `prev` / `curr` to go stale).  In `HMapR` the operation in progress at `rhRelock` is
the `upgrade` in its slow path (the thread is never stuck there): it holds nothing on the parent's word (C08 phase idle) until that step. -/
theorem hmap_rehash_restart (hash : Nat → Nat) :
    (∀ (sh : Sh) (tid : Tid) (t : Th) (alt : Nat) (c : Nat) (wc : Bool) (rest : List (Nat × Bool)),
      t.pc = .rhRelock → t.stk = (c, wc) :: rest → (sh.blk (parentOf c)).isFree = true → parentOf c ≠ c →
      ((sh.chainOf (parentOf c)).filter (fun n => movesTo c (hash n.key))).isEmpty = false →
      let sh' := (stepTh hash sh tid t alt).1
      sh'.chainOf (parentOf c) = (sh.chainOf (parentOf c)).filter (fun n => !movesTo c (hash n.key)) ∧
      sh'.chainOf c = ((sh.chainOf (parentOf c)).filter (fun n => movesTo c (hash n.key))).reverse ∧
      (∀ n, n ∈ sh.chainOf (parentOf c) ↔ n ∈ sh'.chainOf (parentOf c) ∨ n ∈ sh'.chainOf c)) ∧
    (∀ (progs : List (List Op)) (sched : List Act) (tid : Nat) (t : Th) (r : RTh), (rrun hash progs sched).a.ths[tid]? = some t →
      (rrun hash progs sched).rt[tid]? = some r → t.pc = .rhRelock →
      ∃ th, r.cur = some (.b t.tgt) ∧ slot (rrun hash progs sched) (.b t.tgt) tid = some th ∧ th.ops = [.upgrade] ∧ th.phase = .idle) := by
  constructor
  · intro sh tid t alt c wc rest hpc hs hfree hbc hmv
    have htgt : t.tgt = parentOf c := by unfold Th.tgt; rw [hs]
    have hstep : (stepTh hash sh tid t alt).1 =
        (afterAcq hash (sh.setBL (parentOf c) ((sh.blk (parentOf c)).setW tid)) tid { t with stk := (parentOf c, true) :: (c, wc) :: rest }).1 := by
      unfold stepTh
      rw [hpc]
      simp only [htgt, hfree, if_true, hs]
    have := hmap_rehash_split hash (sh.setBL (parentOf c) ((sh.blk (parentOf c)).setW tid)) tid
      { t with stk := (parentOf c, true) :: (c, wc) :: rest } (parentOf c) c wc rest rfl hbc (by simpa using hmv)
    simp only at this ⊢
    rw [hstep]
    obtain ⟨h1, h2, h3, _⟩ := this
    exact ⟨h1, h2, h3⟩
  · intro progs sched tid t r ht hr hpc
    have hC := coupled_reachable hash progs sched
    have hne := (hC.th tid t r ht hr).inop (by rw [hpc]; rfl)
    obtain ⟨L, hcur⟩ : ∃ L, r.cur = some L := by
      cases hc : r.cur with
      | none => exact absurd hc hne
      | some L => exact ⟨L, rfl⟩
    obtain ⟨th, op, hs, hops, _, hcok⟩ := (hC.th tid t r ht hr).cur L hcur
    cases op with
    | upgrade =>
      rcases hcok with ⟨_, (⟨h, _⟩ | ⟨h, _⟩)⟩ | ⟨hph, _, (⟨_, hL⟩ | ⟨h, _⟩)⟩
      · rw [hpc] at h; rcases h with h | h | h <;> cases h
      · rw [hpc] at h; cases h
      · subst hL; exact ⟨th, hcur, hs, hops, hph⟩
      · rw [hpc] at h; cases h
    | lock =>
      rcases hcok.2 with ⟨h, _⟩ | ⟨h, _⟩
      · rw [hpc] at h; rcases h with h | ⟨h, _⟩ <;> cases h
      · rw [hpc] at h; cases h
    | tryLock =>
      rcases hcok.2 with ⟨h, _⟩ | ⟨h, _⟩ <;> (rw [hpc] at h; cases h)
    | unlock =>
      rcases hcok.2 with ⟨h, _⟩ | ⟨⟨a, h⟩, _⟩ | ⟨h, _⟩ | ⟨h, _⟩ | ⟨h, _⟩ | ⟨h, _⟩ <;> (rw [hpc] at h; cases h)
    | lockShared =>
      rcases hcok.2.1 with h | ⟨h, _⟩ <;> (rw [hpc] at h; cases h)
    | tryLockShared => have h := hcok.2.1; rw [hpc] at h; cases h
    | unlockShared =>
      rcases hcok.2 with ⟨h, _⟩ | ⟨⟨a, h⟩, _⟩ | ⟨h, _⟩ | ⟨h, _⟩ | ⟨h, _⟩ | ⟨h, _⟩ <;> (rw [hpc] at h; cases h)
    | downgrade => have h := hcok.2.1; rw [hpc] at h; cases h

/-- **hmap_no_deadlock_lock_order_partial.** The lock order of the map, in every reachable state of `HMapR`:
(1) *element locks are only try-acquired while a bucket lock is held*: a thread in the middle of an operation on an element
lock either performs a try / a release, or (blocking `lock` of `internal_erase`, `upgrade` of `exclude`) holds no bucket
lock; (2) whatever a thread holds (C08 phase on the word: exclusive or shared) while it is inside a blocking operation on
lock `L` is not below `L` in the order "buckets by index, then elements": buckets it holds have an index ≥ that of the
bucket it waits for (a child bucket is locked before its parent, `parentOf c < c`; equal only for the lock it is upgrading),
and a thread waiting for an element holds no bucket and no other element.  Hence there is no cyclic wait across different
locks: along any chain "X waits for a lock held by Y, Y waits for …" the lock never increases, and it strictly decreases
unless both wait for one and the same word.

FULL STATEMENT (not proved here): in every reachable state in which some thread is unfinished, some thread has a step
that is not an iteration of a wait loop, or waits for an accessor that a finished thread still holds.  What is missing is
the single-word case (several threads blocked on ONE `spin_rw_mutex`), i.e. lifting C08's `rw_no_lost_grant` /
`rw_handoff_no_loss` from fixed programs to the dynamically issued operations of the map; E-SHIM's deadlock monitor
(bounded-preemption DFS + random + guided schedules, every live thread parked = deadlock) covers it by exploration. -/
theorem hmap_no_deadlock_lock_order_partial (hash : Nat → Nat) (progs : List (List Op)) (sched : List Act)
    (tid : Nat) (t : Th) (r : RTh) (L : LId) :
    let s := rrun hash progs sched
    s.a.ths[tid]? = some t → s.rt[tid]? = some r → r.cur = some L →
    (∀ n, L = .e n → ∃ th op, slot s (.e n) tid = some th ∧ th.ops = [op] ∧
      ((op = .tryLock ∨ op = .tryLockShared ∨ op = .unlock ∨ op = .unlockShared) ∨ t.stk = [])) ∧
    (∀ L' th', (∃ th op, slot s L tid = some th ∧ th.ops = [op] ∧ (op = .lock ∨ op = .lockShared ∨ op = .upgrade)) →
      slot s L' tid = some th' → th'.phase = .holdW ∨ phaseR th'.phase → LId.le L L') := by
  intro s ht hr hcur
  have hC := coupled_reachable hash progs sched
  refine ⟨?_, ?_⟩
  · intro n hL; subst hL; exact blocking_elem_no_bucket hC ht hr hcur
  · intro L' th' hblk hs' hheld; exact lock_order hC ht hr hcur hblk hs' hheld

/-- **hmap_erase_waits_for_accessors.** In every reachable state of `HMapR`: (1) a thread that is about to release the element
lock before `delete_node` (pc `eRel`: `internal_erase` after `item_locker( mutex, write=true )`, `exclude` after the
upgrade) is in C08 phase `holdW` on the element's word — so WRITER is set, every other thread is idle (or a transient
reader about to undo) on that word and no other thread has an accessor to the element; (2) at `delete_node` (pc `free`) the
word is back to "no holder": no thread is in a holding phase, no thread has an accessor to the node, the node is unlinked,
and the thread that frees it is the one that unlinked it; (3) `free` is entered only from `eRel` (the release of the lock
held as writer): the node is destroyed only after all accessors were released. -/
theorem hmap_erase_waits_for_accessors (hash : Nat → Nat) (progs : List (List Op)) (sched : List Act) :
    let s := rrun hash progs sched
    (∀ (i : Nat) (ti : Th), s.a.ths[i]? = some ti → ti.pc = .eRel → ∃ n th, ti.n = some n ∧ slot s (.e n) i = some th ∧
      th.phase = .holdW ∧ (getL s (.e n)).word.w = true ∧
      (∀ j x, slot s (.e n) j = some x → j ≠ i → x.phase = .idle ∨ x.phase = .rt) ∧
      (∀ (j : Nat) (tj : Th) (w : Bool), s.a.ths[j]? = some tj → j ≠ i → tj.acc ≠ some (n, w))) ∧
    (∀ (i : Nat) (ti : Th), s.a.ths[i]? = some ti → ti.pc = .free → ∃ n, ti.n = some n ∧ s.a.sh.unlinker n = some i ∧ ¬ IsLinked s.a.sh n ∧
      (∀ (j : Nat) (tj : Th) (x : C08.Th), s.a.ths[j]? = some tj → slot s (.e n) j = some x → x.phase ≠ .holdW ∧ ¬ phaseR x.phase) ∧
      (∀ (j : Nat) (tj : Th) (w : Bool), s.a.ths[j]? = some tj → tj.acc ≠ some (n, w))) ∧
    (∀ sh tid t alt, (stepTh hash sh tid t alt).2.1.pc = .free → t.pc ≠ .free → t.pc = .eRel) := by
  intro s
  have hC := coupled_reachable hash progs sched
  have hexcl := hmapr_transfer hash progs
    (fun st => (∀ (i : Nat) (ti : Th), st.ths[i]? = some ti → ti.pc = .free → ∃ n, ti.n = some n ∧ st.sh.unlinker n = some i ∧ ¬ IsLinked st.sh n ∧
        ∀ (j : Nat) (tj : Th) (w : Bool), st.ths[j]? = some tj → tj.acc ≠ some (n, w)) ∧
      (∀ (i : Nat) (ti : Th), st.ths[i]? = some ti → ti.pc = .eRel → ∃ n, ti.n = some n ∧ (st.sh.elk n).w = some i ∧ st.sh.unlinker n = some i) ∧
      (∀ (i : Nat) (ti : Th), st.ths[i]? = some ti → ti.pc = .free → ∃ n, ti.n = some n ∧ (st.sh.elk n).w = none ∧ (st.sh.elk n).r = []))
    (fun sched => by
      have h := hmap_accessor_excl hash progs sched
      refine ⟨h.2.2.1, h.2.2.2, ?_⟩
      intro i ti hi hpc
      have hd := ((invAll_reachable hash progs sched).i2.th i ti hi).d
      rw [hpc] at hd
      simp only [DAt] at hd
      obtain ⟨_, n, hn, hw, hr⟩ := hd
      exact ⟨n, hn, hw, hr⟩) sched
  obtain ⟨hfree, herel, hfree2⟩ := hexcl
  refine ⟨?_, ?_, fun sh tid t alt => free_only_after_eRel hash sh tid t alt⟩
  · intro i ti hi hpc
    obtain ⟨n, hn, hw, _⟩ := herel i ti hi hpc
    obtain ⟨th, hs⟩ := slot_of hC hi (.e n)
    have hph : th.phase = .holdW := (hC.spec (.e n) i th hs).1 hw
    have hoth : ∀ j x, slot s (.e n) j = some x → j ≠ i → x.phase = .idle ∨ x.phase = .rt :=
      fun j x hx hj => alone_of_writer (hC.lk (.e n)).inv hs hx (Ne.symm hj) (Or.inl hph)
    refine ⟨n, th, hn, hs, hph, w_of_holdW (hC.lk (.e n)).inv hs hph, hoth, ?_⟩
    intro j tj w hj hji ha
    obtain ⟨x, hx, hp⟩ := acc_phase hC hj ha
    cases w
    · simp only [Bool.false_eq_true, if_false] at hp
      rcases hoth j x hx hji with h | h <;> rw [h] at hp <;> rcases hp with hp | hp | hp <;> cases hp
    · simp only [if_true] at hp
      rcases hoth j x hx hji with h | h <;> rw [h] at hp <;> cases hp
  · intro i ti hi hpc
    obtain ⟨n, hn, hu, hl, hacc⟩ := hfree i ti hi hpc
    obtain ⟨n', hn', hw, hr⟩ := hfree2 i ti hi hpc
    rw [hn] at hn'; cases hn'
    refine ⟨n, hn, hu, hl, ?_, hacc⟩
    intro j tj x hj hx
    have := spec_exact hC (.e n) j tj x hj hx
    simp only [lockOf] at this
    refine ⟨fun h => ?_, fun h => ?_⟩
    · have := this.1.2 h; rw [hw] at this; cases this
    · have := this.2.2 h; rw [hr] at this; cases this

/-- **hmap_mask_race_safe.** An operation that computed its bucket with a stale mask never reports "absent" for a present key
that a concurrent rehash moved: in `HMap` (hence, by `hmapr_refines`, in `HMapR`, whose steps are `HMap` steps) a step that
appends a FAILED find / count / erase-by-key to the linearization does so in a state whose table does not contain the key —
the search ended in the key's home bucket, or `check_mask_race` / `check_rehashing_collision` sent it back (`restart`). -/
theorem hmap_mask_race_safe (hash : Nat → Nat) (progs : List (List Op)) (sched : List Act) (a : Act) (e : HEv)
    (hh : (step hash (run hash progs sched) a).sh.hist = e :: (run hash progs sched).sh.hist)
    (hk : e.k = .find ∨ e.k = .count ∨ e.k = .erase) (hok : e.ok = false) :
    (run hash progs sched).sh.present hash e.key = none :=
  negative_result_absent hash progs sched a e hh hk hok

/-- **hmap_size_exact.** `my_size` is exact: in every reachable state of `HMap` — and of `HMapR` — it equals the number of
linked nodes (the sum of the chain lengths over the buckets below the mask); in particular at quiescence `size()` is the
number of keys in the table. -/
theorem hmap_size_exact (hash : Nat → Nat) (progs : List (List Op)) (sched : List Act) :
    (run hash progs sched).sh.size = sumLen (run hash progs sched).sh.chainOf (2 ^ (run hash progs sched).sh.lvl) ∧
    (rrun hash progs sched).a.sh.size = sumLen (rrun hash progs sched).a.sh.chainOf (2 ^ (rrun hash progs sched).a.sh.lvl) :=
  ⟨size_reachable hash progs sched, hmapr_transfer hash progs (fun st => SizeInv st.sh) (fun sched => size_reachable hash progs sched) sched⟩

/-! ## Non-vacuity: a concrete run with growth, lazy rehash, a losing insert, an accessor, erase by accessor -/

/-- thread 0 inserts key 5 through an accessor (the table grows from 2 to 256 buckets) and releases it; thread 1 tries to
insert 5 again, finds it through a const_accessor (rehashing bucket 5 from bucket 1 on the way) and erases it through the
accessor; thread 2 then fails to erase and to count it -/
def exProgs : List (List Op) :=
  [[{ k := .ins, key := 5, val := 7, acc := 2 }, { k := .release }],
   [{ k := .ins, key := 5, val := 8 }, { k := .find, key := 5, acc := 1 }, { k := .exclude }],
   [{ k := .erase, key := 5 }, { k := .count, key := 5 }]]

def exSched : List Act := List.replicate 14 { tid := 0 } ++ List.replicate 60 { tid := 1 } ++ List.replicate 30 { tid := 2 }

-- the linearization of the whole run (newest first): (thread, key, result)
set_option maxRecDepth 100000 in
example : (run id exProgs exSched).sh.hist.map (fun e => (e.tid, e.key, e.ok)) =
    [(2, 5, false), (2, 5, false), (1, 5, true), (1, 5, true), (1, 5, false), (0, 5, true)] := by decide

-- the mask has been published (level 8 = 256 buckets) and all operations have completed with the results of the history
set_option maxRecDepth 100000 in
example : (run id exProgs exSched).sh.lvl = 8 ∧ (run id exProgs exSched).ths.map (fun t => t.results.map (·.1)) =
    [[true, true], [true, true, false], [false, false]] := by decide

-- after thread 1's find the key lives in bucket 5 (moved there from bucket 1 by the lazy rehash), which is its home
set_option maxRecDepth 100000 in
example : let sh := (run id exProgs (List.replicate 14 { tid := 0 } ++ List.replicate 16 { tid := 1 })).sh
    sh.chainOf 5 = [{ id := 0, key := 5, val := 7 }] ∧ sh.chainOf 1 = [] ∧ sh.home 5 = 5 ∧ sh.present id 5 = some { id := 0, key := 5, val := 7 } := by decide

-- hmap_lookup_finds is not vacuous: a thread at pc `link`
set_option maxRecDepth 100000 in
example : ((run id exProgs (List.replicate 5 { tid := 0 })).ths.map (·.pc))[0]? = some Pc.link := by decide

-- hmap_accessor_excl (3), (4): a thread about to delete the node (pc `free`), and one step earlier at pc `eRel`
set_option maxRecDepth 100000 in
example : ((run id exProgs (List.replicate 14 { tid := 0 } ++ List.replicate 21 { tid := 1 })).ths.map (·.pc))[1]? = some Pc.free ∧
    ((run id exProgs (List.replicate 14 { tid := 0 } ++ List.replicate 20 { tid := 1 })).ths.map (·.pc))[1]? = some Pc.eRel := by decide

-- an accessor is held (thread 0 after its insert, before the release)
set_option maxRecDepth 100000 in
example : ((run id exProgs (List.replicate 12 { tid := 0 })).ths.map (fun t => t.acc.map (·.2)))[0]? = some (some true) := by decide

-- bucket arithmetic: bucket 300 lives in segment 8 at offset 44, its parent is 44, and 300 is the child of 44 for hash 300
example : bucketAddr 300 = (8, 44) ∧ parentOf 300 = 44 ∧ movesTo 300 300 = true ∧ movesTo 300 44 = false ∧ allocOf 300 = (2, 44) := by decide

/-! ## Non-vacuity for the refined model: concrete runs of `HMapR` (kernel-evaluated) -/

/-- thread 0, then thread 1, then thread 2 run alone (every step one access) -/
def rSched (a b c : Nat) : List Act := List.replicate a { tid := 0 } ++ List.replicate b { tid := 1 } ++ List.replicate c { tid := 2 }

-- the refined run of `exProgs` yields the same linearization as the `HMap` run above, all lock words are back to 0
set_option maxRecDepth 1000000 in
example : (rrun id exProgs (rSched 60 250 120)).a.sh.hist.map (fun e => (e.tid, e.key, e.ok)) =
    [(2, 5, false), (2, 5, false), (1, 5, true), (1, 5, true), (1, 5, false), (0, 5, true)] ∧
    ((rrun id exProgs (rSched 60 250 120)).bw 1).word.enc = 0 ∧ ((rrun id exProgs (rSched 60 250 120)).bw 5).word.enc = 0 := by decide

-- hmap_no_deadlock_lock_order_partial: thread 1 is inside `upgrade` on bucket 1 (the parent) while it holds bucket 5 (the child)
-- exclusively: C08 phase holdW on the word of bucket 5, holdR on that of bucket 1; 1 ≤ 5
set_option maxRecDepth 1000000 in
example : let s := rrun id exProgs (rSched 60 11 0)
    (s.a.ths.map (fun t => (t.pc, t.stk)))[1]? = some (Pc.rhUpg, [(1, false), (5, true)]) ∧ (s.rt.map (·.cur))[1]? = some (some (LId.b 1)) ∧
    ((s.bw 5).ths.map (·.phase))[1]? = some C08.Phase.holdW ∧ ((s.bw 1).ths.map (fun th => (th.phase, th.ops)))[1]? = some (C08.Phase.holdR, [C08.Op.upgrade]) := by decide

-- hmap_erase_waits_for_accessors: thread 1 (erase by accessor) at `eRel` holds the element's word exclusively (WRITER set), at `free` the word is 0
set_option maxRecDepth 1000000 in
example : let s := rrun id exProgs (rSched 60 42 0)
    (s.a.ths.map (·.pc))[1]? = some Pc.eRel ∧ ((s.ew { id := 0, key := 5, val := 7 }).ths.map (·.phase))[1]? = some C08.Phase.holdW ∧
    (s.ew { id := 0, key := 5, val := 7 }).word.enc = 1 ∧
    ((rrun id exProgs (rSched 60 44 0)).a.ths.map (·.pc))[1]? = some Pc.free ∧ ((rrun id exProgs (rSched 60 44 0)).ew { id := 0, key := 5, val := 7 }).word.enc = 0 := by decide

/-- two inserts of the same key into one bucket (constant hash), strictly alternating: both read-lock the bucket, both upgrade -/
def cProgs : List (List Op) := [[{ k := .ins, key := 5, val := 7 }], [{ k := .ins, key := 5, val := 8 }]]
def alt2 (n : Nat) : List Act := (List.range n).map (fun i => { tid := i % 2 })

-- hmap_upgrade_research (4): after 20 accesses thread 0 has set WRITER|PENDING and has seen the other reader leave (word = 7: W, P, its own reader unit), thread 1's
-- `upgrade` has taken the slow path and dropped the lock (pc `relock`, operation still in progress on bucket 1)
set_option maxRecDepth 1000000 in
example : (rrun (fun _ => 1) cProgs (alt2 20)).a.ths.map (·.pc) = [Pc.upg, Pc.relock] ∧
    (rrun (fun _ => 1) cProgs (alt2 20)).rt.map (·.cur) = [some (.b 1), some (.b 1)] ∧
    ((rrun (fun _ => 1) cProgs (alt2 20)).bw 1).word.enc = 7 ∧
    ((rrun (fun _ => 1) cProgs (alt2 20)).bw 1).ths.map (fun th => (th.phase, th.ops)) =
      [(C08.Phase.upgReady, [C08.Op.upgrade]), (C08.Phase.idle, [C08.Op.upgrade])] := by decide

-- … and in the end exactly one insert won: the loser re-searched, found the key and returned false; my_size = 1 (hmap_size_exact)
set_option maxRecDepth 1000000 in
example : (rrun (fun _ => 1) cProgs (alt2 120)).a.ths.map (fun t => t.results.map (·.1)) = [[true], [false]] ∧
    (rrun (fun _ => 1) cProgs (alt2 120)).a.sh.size = 1 ∧ sumLen (rrun (fun _ => 1) cProgs (alt2 120)).a.sh.chainOf (2 ^ (rrun (fun _ => 1) cProgs (alt2 120)).a.sh.lvl) = 1 := by decide

/-- thread 0 inserts key 5 (the table grows), thread 1 counts key 5 (lazy rehash of bucket 5 from bucket 1), thread 2 inserts key 1 -/
def hProgs : List (List Op) := [[{ k := .ins, key := 5, val := 7 }], [{ k := .count, key := 5 }], [{ k := .ins, key := 1, val := 9 }]]
def rhSched (a b c : Nat) : List Act :=
  List.replicate 60 { tid := 0 } ++ List.replicate a { tid := 1 } ++ List.replicate b { tid := 2 } ++ List.replicate c { tid := 1 }

-- hmap_rehash_restart: the rehashing thread's upgrade of the parent lost against the inserter's (pc `rhRelock`, holding only the new
-- bucket 5; the inserter waits in place with WRITER|PENDING set); the hypotheses of the first part are satisfiable there
set_option maxRecDepth 1000000 in
example : let s := rrun id hProgs (rhSched 10 8 3)
    s.a.ths.map (fun t => (t.pc, t.stk)) = [(Pc.idle, []), (Pc.rhRelock, [(5, true)]), (Pc.upg, [(1, false)])] ∧
    (s.bw 1).word.enc = 7 ∧ (s.a.sh.chainOf 1).map (·.key) = [5] ∧ parentOf 5 = 1 ∧
    ((s.a.sh.chainOf (parentOf 5)).filter (fun n => movesTo 5 (id n.key))).isEmpty = false := by decide

-- … after both finished: key 1 (inserted while the lock was dropped) stayed in bucket 1, key 5 moved to bucket 5, count(5) = true
set_option maxRecDepth 1000000 in
example : let s := rrun id hProgs (rhSched 10 8 3 ++ List.replicate 60 { tid := 2 } ++ List.replicate 60 { tid := 1 })
    (s.a.sh.chainOf 1).map (·.key) = [1] ∧ (s.a.sh.chainOf 5).map (·.key) = [5] ∧ s.a.sh.size = 2 ∧
    s.a.ths.map (fun t => t.results.map (·.1)) = [[true], [true], [true]] := by decide

-- hmap_mask_race_safe: the step that appends thread 2's failed erase to the linearization (hypotheses satisfiable)
set_option maxRecDepth 100000 in
example : ∃ (a : Act) (e : HEv), (step id (run id exProgs (List.replicate 14 { tid := 0 } ++ List.replicate 60 { tid := 1 } ++ List.replicate 3 { tid := 2 })) a).sh.hist =
      e :: (run id exProgs (List.replicate 14 { tid := 0 } ++ List.replicate 60 { tid := 1 } ++ List.replicate 3 { tid := 2 })).sh.hist ∧
    e.k = .erase ∧ e.ok = false :=
  ⟨{ tid := 2 }, { tid := 2, k := .erase, key := 5, ok := false, node := none }, by decide, rfl, rfl⟩

end TbbVerif.C10
