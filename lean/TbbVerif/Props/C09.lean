/-
C09 — concurrent_queue / concurrent_bounded_queue are linearizable FIFO queues: the property theorems.

Model: `TbbVerif.C09` (Model/C09.lean) — `run ipp cap progs sched` is the state reached by any number of threads
(`progs`, one operation list per thread) under any schedule `sched : List Act` (which thread performs its next
atomic access, and how a blocked wait is resolved: abort seen / re-check / woken).  `n_queue`, `phi` and the
`items_per_page` table are generated from the headers (Generated/C09.lean).

Conditions that appear in the statements, all decidable on the final state:
  `ok p`       := `p.hazard = false ∧ p.poisoned = false`
                  hazard   = some aborted pop executed `head_counter--` while a later pop ticket was outstanding (§4 F3),
                  poisoned = some page allocation failed.
                  Programs without `abort` and without allocation failure never set either (`clean_programs_ok`).
  `quiescent`  := no operation in flight.
After either event the as-coded protocol really breaks: `abort_conserves_fails`, `alloc_failure_crashes`.
-/
import TbbVerif.Proofs.C09.Final
import TbbVerif.Proofs.C09.PgQuiet
import TbbVerif.Proofs.C09.Seq

namespace TbbVerif.C09

/-! ## 1. lanes and pages -/

/-- **lane_bijection.**  `k ↦ (k·phi mod n_queue, k / n_queue)` is a bijection between tickets and (lane, round)
pairs, and the tickets of one lane are served in increasing order of the value `k & -n_queue` the lane counters are
compared with.  Uses the generated `phi`, `n_queue` only through `phi_inv` (phi invertible mod n_queue: `decide`). -/
theorem lane_bijection :
    (∀ k k', lane k = lane k' → rnd k = rnd k' → k = k') ∧
    (∀ l r, l < nq → ∃ k, lane k = l ∧ rnd k = r) ∧
    (∀ k k', k < k' → lane k = lane k' → base k < base k') ∧
    (∀ k, k < 2 ^ 64 → baseAnd k = base k) :=
  ⟨lane_rnd_inj, lane_surj, base_lt_of_lt_same_lane, baseAnd_eq⟩

example : lane 3 = 1 ∧ lane 11 = 1 ∧ base 3 = 0 ∧ base 11 = 8 := by decide

/-- **page_ring_safe** (page chain of one lane).  For every `items_per_page > 0` and every op sequence the lane
turnstile permits (prepare/publish alternate; a pop runs only when `head round < tail round`): no step ever touches a
page that does not exist, the bit a pop tests is exactly the "constructed" flag published for its round (mask bit ⇔
slot constructed; a page is unlinked only after its last slot was popped, since later pops still find their page),
no page is leaked or freed twice, and the chain stays within two pages of the occupancy (pages are recycled).
The generated `items_per_page` table agrees with the ladder `ippOf`, whose values are powers of two ≤ mask width,
so `index & (items_per_page-1)` is `index % items_per_page` (`idxAnd_eq`). -/
theorem page_ring_safe (ipp : Nat) (hipp : 0 < ipp) (ops : List ROp) (hleg : Ring.legalRun ipp {} ops) :
    ∃ R outs, Ring.run ipp {} ops = some (R, outs) ∧
      popBits outs = (pubFlags ops).take R.hr ∧ R.hr ≤ R.tr ∧ R.tr = (pubFlags ops).length ∧
      R.allocs = R.frees + R.pages.length ∧ R.pages.length * ipp ≤ (R.tr - R.hr) + 2 * ipp :=
  ring_run_safe ipp hipp ops hleg

theorem items_per_page_table :
    (∀ p ∈ Generated.C09.ipp_table, ippOf p.1 = p.2) ∧
    (∀ sz, ∃ j, j ≤ 5 ∧ ippOf sz = 2 ^ j) ∧ (∀ sz, ippOf sz ≤ Generated.C09.mask_bits) ∧
    (∀ sz k, idxAnd (ippOf sz) k = idx (ippOf sz) k) :=
  ⟨ipp_table_ok, ippOf_pow2, ippOf_le_mask_bits, fun sz k => idxAnd_eq _ k (by obtain ⟨j, _, e⟩ := ippOf_pow2 sz; exact ⟨j, e⟩)⟩

example : (Ring.run 2 {} [.prep, .pub true, .prep, .pub false, .pop, .pop, .prep, .pub true, .pop]).map (fun x => popBits x.2)
    = some [true, false, true] := by decide

/-! ## 2. the ticket protocol (any number of threads, every schedule) -/

/-- programs without `abort()` and without a failing page allocation keep the protocol in its safe regime -/
theorem clean_programs_ok (ipp : Nat) (cap : Int) (progs : List (List Op)) (hc : cleanProgs progs) (sched : List Act) :
    ok (run ipp cap progs sched).g.toP ∧ (run ipp cap progs sched).g.undone = false :=
  clean_ok _ (clean_run ipp cap progs hc sched)

/-- **ticket_match.**  A pop holding head ticket `h` returns exactly the value published under tail ticket `h`
(the value of the push that drew ticket `h`, whose slot is constructed and whose mask bit is set), or it skips a slot
marked invalid, and every skip consumed exactly one unit of `n_invalid_entries`, which never underflows. -/
theorem ticket_match (ipp : Nat) (hipp : 0 < ipp) (cap : Int) (progs : List (List Op)) (sched : List Act)
    (hok : ok (run ipp cap progs sched).g.toP) :
    let g := (run ipp cap progs sched).g
    (∀ h v, (h, v) ∈ g.popLog → g.slot h = .item v ∧ (∃ r, g.pushLog[h]? = some r ∧ r.v = v) ∧
        (g.mask (lane h) (pageOf g.ipp h)).testBit (idx g.ipp h) = true) ∧
    (∀ h, h ∈ g.skipLog → g.slot h = .invalid ∧ h ∈ g.invLog) ∧
    g.ninv + g.skipLog.length = g.invLog.length ∧ g.underflow = false := by
  intro g
  obtain ⟨hP, _⟩ := (inv_run ipp cap progs hipp sched) hok
  refine ⟨fun h v hm => ?_, fun h hm => ⟨hP.skipInvalid h hm, (hP.invLogIff h).2 (hP.skipInvalid h hm)⟩, hP.ninvEq, hP.noUnder⟩
  have hs := hP.popItem h v hm
  exact ⟨hs, hP.slotVal h v hs, (hP.maskBit h).2 ⟨v, hs⟩⟩

/-- **queue_conservation.**  In every reachable state (while `ok`): no head ticket is consumed twice (no item
duplicated), every popped value is the value of the push with the same ticket (none invented); and at quiescence every
ticket below `tail` is either a constructed item — popped iff its ticket is below `head`, i.e. still in the queue
otherwise — or an invalidated slot that was skipped iff below `head`: no item lost.  Also `head ≤ tail` then. -/
theorem queue_conservation (ipp : Nat) (hipp : 0 < ipp) (cap : Int) (progs : List (List Op)) (sched : List Act)
    (hok : ok (run ipp cap progs sched).g.toP) :
    let s := run ipp cap progs sched
    (s.g.popLog.map Prod.fst).Nodup ∧ s.g.skipLog.Nodup ∧ (∀ h, h ∈ s.g.popLog.map Prod.fst → h ∉ s.g.skipLog) ∧
    (∀ h v, (h, v) ∈ s.g.popLog → ∃ r, s.g.pushLog[h]? = some r ∧ r.v = v) ∧
    (quiescent s → s.g.head ≤ s.g.tail ∧
      ∀ k, k < s.g.tail → (∃ v, s.g.slot k = .item v ∧ ((k, v) ∈ s.g.popLog ↔ k < s.g.head)) ∨
                           (s.g.slot k = .invalid ∧ (k ∈ s.g.skipLog ↔ k < s.g.head))) := by
  intro s
  obtain ⟨h1, _, h3⟩ := inv123_run ipp cap progs hipp sched
  obtain ⟨hP, _⟩ := h1 hok
  exact ⟨hP.nodupPop, hP.nodupSkip, hP.disj, fun h v hm => hP.slotVal h v (hP.popItem h v hm),
    fun hq => quiescent_account s h1 h3 hok hq⟩

/-- **queue_fifo_linearizable.**  Linearisation points: a push at the access that draws its tail ticket, a pop that
returns the item of ticket `h` at the later of the access that drew head ticket `h` and the push's point
(`lin = max (popTime h) (pushTime h)`), an `empty`/`full` answer at the read that decided it.  For every schedule
(while `ok`), every completed operation's point lies inside its own interval `[inv, resp]` (so real-time order between
operations is respected by the order of the points); push points are strictly increasing in the tail ticket and pop
points strictly increasing in the head ticket, and the pop of ticket `h` comes after the push of ticket `h` and
returns that push's value (`ticket_match`).  Hence the operations ordered by their points form a sequential FIFO
history: values leave in the order of their tickets = the order of the push points, skipping exactly the tickets whose
push failed (`queue_conservation`). -/
theorem queue_fifo_linearizable (ipp : Nat) (hipp : 0 < ipp) (cap : Int) (progs : List (List Op)) (sched : List Act)
    (hok : ok (run ipp cap progs sched).g.toP) :
    let g := (run ipp cap progs sched).g
    (∀ d, d ∈ g.done → d.inv ≤ d.lin ∧ d.lin ≤ d.resp) ∧
    (∀ d v, d ∈ g.done → d.res = .val v →
        (d.ticket, v) ∈ g.popLog ∧ d.lin = max (g.popTime d.ticket) (pushTime g d.ticket) ∧ pushTime g d.ticket ≤ d.lin) ∧
    (∀ d v, d ∈ g.done → opVal [d.op] = some v → d.res = .ok → g.slot d.ticket = .item v ∧ d.lin = pushTime g d.ticket) ∧
    (∀ (k k' : Nat) (r r' : PRec), k < k' → g.pushLog[k]? = some r → g.pushLog[k']? = some r' → r.time < r'.time) ∧
    (∀ d d' v v', d ∈ g.done → d' ∈ g.done → d.res = .val v → d'.res = .val v' → d.ticket < d'.ticket → d.lin < d'.lin) := by
  intro g
  obtain ⟨h1, h2, _⟩ := inv123_run ipp cap progs hipp sched
  obtain ⟨hP, _⟩ := h1 hok
  obtain ⟨hA, _⟩ := h2 hok
  have hval : ∀ d v, d ∈ g.done → d.res = .val v →
      (d.ticket, v) ∈ g.popLog ∧ d.lin = max (g.popTime d.ticket) (pushTime g d.ticket) := fun d v hd hr => (hA.done d hd).val v hr
  refine ⟨fun d hd => ⟨(hA.done d hd).t1, (hA.done d hd).t2⟩, ?_, fun d v hd ho hr => (hA.done d hd).pushed v ho hr, hA.pushMono, ?_⟩
  · intro d v hd hr
    obtain ⟨a, b⟩ := hval d v hd hr
    exact ⟨a, b, by rw [b]; exact Nat.le_max_right _ _⟩
  · intro d d' v v' hd hd' hr hr' hlt
    obtain ⟨a, b⟩ := hval d v hd hr
    obtain ⟨a', b'⟩ := hval d' v' hd' hr'
    have hlt' : d'.ticket < g.head := hP.consLt _ (Or.inl (List.mem_map.2 ⟨(d'.ticket, v'), a', rfl⟩))
    have hpop := hA.popMono d.ticket d'.ticket hlt hlt'
    obtain ⟨r, hr1, _⟩ := hP.slotVal _ _ (hP.popItem _ _ a)
    obtain ⟨r', hr1', _⟩ := hP.slotVal _ _ (hP.popItem _ _ a')
    have hpush := hA.pushMono _ _ r r' hlt hr1 hr1'
    rw [b, b', pushTime_eq g _ r hr1, pushTime_eq g _ r' hr1']
    exact Nat.max_lt.2 ⟨Nat.lt_of_lt_of_le hpop (Nat.le_max_left _ _), Nat.lt_of_lt_of_le hpush (Nat.le_max_right _ _)⟩

/-- **try_pop_empty_truthful.**  `try_pop` answers "empty" only if at the instant of the deciding read (inside the
call) the queue was empty: `tail_counter ≤ head_counter`, i.e. every push ticket drawn so far had already been matched
by a pop ticket.  (`wit` is that comparison, evaluated on the global state at that instant.)  Needs that no aborted pop
has decremented `head_counter` during the run, which holds for abort-free programs (`clean_programs_ok`). -/
theorem try_pop_empty_truthful (ipp : Nat) (hipp : 0 < ipp) (cap : Int) (progs : List (List Op)) (sched : List Act)
    (hok : ok (run ipp cap progs sched).g.toP) (hu : (run ipp cap progs sched).g.undone = false) :
    ∀ d, d ∈ (run ipp cap progs sched).g.done → d.res = .empty → d.wit = true ∧ d.inv ≤ d.lin ∧ d.lin ≤ d.resp := by
  intro d hd hr
  obtain ⟨_, h2, _⟩ := inv123_run ipp cap progs hipp sched
  obtain ⟨hA, _⟩ := h2 hok
  exact ⟨(hA.done d hd).empty hr hu, (hA.done d hd).t1, (hA.done d hd).t2⟩

/-- **try_push_full_truthful.**  `try_push` answers "full" only if at the instant of the deciding read
`tail_counter - head_counter ≥ capacity`: as many TICKETS outstanding as the capacity allows.  Tickets whose push
failed (constructor threw, or aborted) stay outstanding until a pop attempt skips them, so this is weaker than "the
queue holds `capacity` elements": see `full_after_failed_push` for the as-coded counterexample to the latter. -/
theorem try_push_full_truthful (ipp : Nat) (hipp : 0 < ipp) (cap : Int) (progs : List (List Op)) (sched : List Act)
    (hok : ok (run ipp cap progs sched).g.toP) :
    ∀ d, d ∈ (run ipp cap progs sched).g.done → d.res = .full → d.wit = true ∧ d.inv ≤ d.lin ∧ d.lin ≤ d.resp := by
  intro d hd hr
  obtain ⟨_, h2, _⟩ := inv123_run ipp cap progs hipp sched
  obtain ⟨hA, _⟩ := h2 hok
  exact ⟨(hA.done d hd).full hr, (hA.done d hd).t1, (hA.done d hd).t2⟩

/-- **bounded_capacity.**  With a constant capacity, only bounded pushes, and no abort-undo so far: every constructed
item has a ticket below `head_counter + capacity` — so the items not yet claimed by a pop ticket (tickets in
`[head, head + capacity)`) never exceed the capacity. -/
theorem bounded_capacity (ipp : Nat) (hipp : 0 < ipp) (cap : Int) (progs : List (List Op)) (sched : List Act)
    (hok : ok (run ipp cap progs sched).g.toP) (hc : capOK (run ipp cap progs sched).g) :
    let g := (run ipp cap progs sched).g
    g.cap = cap ∧ ∀ k v, g.slot k = .item v → (k : Int) < g.head + cap := by
  intro g
  obtain ⟨_, h2, _⟩ := inv123_run ipp cap progs hipp sched
  obtain ⟨hA, _⟩ := h2 hok
  have hcap : g.cap = cap := by
    -- capacity is only changed by setCap, which sets capSet
    suffices ∀ sched, (run ipp cap progs sched).g.capSet = false → (run ipp cap progs sched).g.cap = cap from this sched hc.2.1
    intro sc
    unfold run runFrom
    suffices ∀ s : St, (s.g.capSet = false → s.g.cap = cap) → ((sc.foldl step s).g.capSet = false → (sc.foldl step s).g.cap = cap) from
      this _ (fun _ => rfl)
    induction sc with
    | nil => intro s h; exact h
    | cons a as ih =>
      intro s h
      apply ih
      intro hcs
      have key : ∀ (g0 : G) (tid c : Nat) (t : Th), (stepTh g0 tid c t).1.capSet = false →
          g0.capSet = false ∧ (stepTh g0 tid c t).1.cap = g0.cap := by
        intro g0 tid c t
        unfold stepTh
        cases hops : t.ops with
        | nil => intro h; exact ⟨h, rfl⟩
        | cons op rest =>
          cases op with
          | push v f => cases hpc : t.pc <;> simp [stepPush, stepLanePush, hpc, finish, takeTail, poisonInv, poisonStore, invalidate, maskStore, advTail] <;> (try split) <;> simp_all
          | tryPop => cases hpc : t.pc <;> simp [stepTryPop, stepLanePop, hpc, finish, takeHead, popMove, skipInv, advHead] <;> (repeat' split) <;> simp_all
          | bpush v f => cases hpc : t.pc <;> simp [stepBPush, stepAbortPush, stepLanePush, hpc, finish, takeTail, poisonInv, poisonStore, invalidate, maskStore, advTail] <;> (repeat' split) <;> simp_all
          | btryPush v f => cases hpc : t.pc <;> simp [stepBTryPush, stepLanePush, hpc, finish, takeTail, poisonInv, poisonStore, invalidate, maskStore, advTail] <;> (repeat' split) <;> simp_all
          | bpop => cases hpc : t.pc <;> simp [stepBPop, stepLanePop, hpc, finish, takeHead, popMove, skipInv, advHead, undoHead] <;> (repeat' split) <;> simp_all
          | abort => simp only; (repeat' split) <;> simp_all [finish]
          | setCap cp => simp only; split <;> simp [finish]
      unfold step stepEv at hcs ⊢
      cases hth : s.ths[a.tid]? with
      | none => simp only [hth] at hcs ⊢; exact h hcs
      | some t =>
        simp only [hth] at hcs ⊢
        obtain ⟨k1, k2⟩ := key _ a.tid a.c t hcs
        rw [k2]; exact h k1
  exact ⟨hcap, fun k v hs => by rw [← hcap]; exact hA.capB hc k v hs⟩

/-- **ctor_failure_isolated.**  A push whose element constructor throws reports the exception, leaves its slot marked
invalid and has advanced its lane's `tail_counter` past its ticket, so the later tickets of that lane proceed; and all
the theorems above hold for programs with constructor failures at arbitrary positions (they are stated for all
programs).  The matching pop skips the slot (`ticket_match`). -/
theorem ctor_failure_isolated (ipp : Nat) (hipp : 0 < ipp) (cap : Int) (progs : List (List Op)) (sched : List Act)
    (hok : ok (run ipp cap progs sched).g.toP) :
    let g := (run ipp cap progs sched).g
    ∀ d, d ∈ g.done → d.res = .threw → g.slot d.ticket = .invalid ∧ base d.ticket < g.ltail (lane d.ticket) ∧ d.ticket ∈ g.invLog := by
  intro g d hd hr
  obtain ⟨h1, h2, _⟩ := inv123_run ipp cap progs hipp sched
  obtain ⟨hP, _⟩ := h1 hok
  obtain ⟨hA, _⟩ := h2 hok
  obtain ⟨a, b⟩ := (hA.done d hd).threw hr
  exact ⟨a, b, (hP.invLogIff _).2 a⟩

/-- no pop ever reads the mask of a page that was never linked, while `ok` -/
theorem no_invalid_page_dereference (ipp : Nat) (hipp : 0 < ipp) (cap : Int) (progs : List (List Op)) (sched : List Act)
    (hok : ok (run ipp cap progs sched).g.toP) : (run ipp cap progs sched).g.crashed = false := by
  obtain ⟨_, h2, _⟩ := inv123_run ipp cap progs hipp sched
  exact (h2 hok).1.noCrash.1

/-! ## 3. abort -/

/-
**abort_conserves** (full statement — DOES NOT HOLD on the current tree, see `abort_conserves_fails`):
  for all programs (including `abort`) and all schedules, `queue_conservation`, `ticket_match` and
  `queue_fifo_linearizable` hold, every caller blocked at the time of an `abort()` returns `user_abort`, and no
  operation is blocked for ever by a lane turn that cannot come.
What is missing: the aborted pop's `head_counter--` is only right when it holds the latest pop ticket.
-/

/-- **abort_conserves_partial.**  For all programs, including any number of `abort()` calls, and all schedules:
as long as every aborted pop that executed `head_counter--` held the LATEST pop ticket at that moment
(`hazard = false`; in particular when no pop ticket is drawn between the abort and the aborted pops' decrements and
these happen in LIFO order) and no allocation failed, conservation, ticket matching and FIFO order hold exactly as in
the abort-free case; aborted pushes mark their ticket invalid through `abort_push` and are skipped. -/
theorem abort_conserves_partial (ipp : Nat) (hipp : 0 < ipp) (cap : Int) (progs : List (List Op)) (sched : List Act)
    (hh : (run ipp cap progs sched).g.hazard = false) (hp : (run ipp cap progs sched).g.poisoned = false) :
    let s := run ipp cap progs sched
    (s.g.popLog.map Prod.fst).Nodup ∧
    (∀ h v, (h, v) ∈ s.g.popLog → s.g.slot h = .item v ∧ ∃ r, s.g.pushLog[h]? = some r ∧ r.v = v) ∧
    (∀ d d' v v', d ∈ s.g.done → d' ∈ s.g.done → d.res = .val v → d'.res = .val v' → d.ticket < d'.ticket → d.lin < d'.lin) ∧
    (quiescent s → s.g.head ≤ s.g.tail ∧
      ∀ k, k < s.g.tail → (∃ v, s.g.slot k = .item v ∧ ((k, v) ∈ s.g.popLog ↔ k < s.g.head)) ∨
                           (s.g.slot k = .invalid ∧ (k ∈ s.g.skipLog ↔ k < s.g.head))) := by
  intro s
  have hok : ok s.g.toP := ⟨hh, hp⟩
  obtain ⟨c1, _, _, _, c5⟩ := queue_conservation ipp hipp cap progs sched hok
  obtain ⟨t1, _, _, _⟩ := ticket_match ipp hipp cap progs sched hok
  obtain ⟨_, _, _, _, f5⟩ := queue_fifo_linearizable ipp hipp cap progs sched hok
  exact ⟨c1, fun h v hm => ⟨(t1 h v hm).1, (t1 h v hm).2.1⟩, f5, c5⟩

/-- a blocked caller that is resolved after an `abort()` bumped the counter takes the abort path
(blocked pop: `head_counter--` and `user_abort`; blocked push: `abort_push` and `user_abort`) -/
theorem abort_releases (s : St) (tid : Nat) (t : Th) (rest : List Op) (h : s.ths[tid]? = some t)
    (hab : s.g.abortCnt ≠ t.old) :
    (t.ops = .bpop :: rest → t.pc = .qBlocked → ((step s ⟨tid, 0⟩).ths[tid]?).map (·.pc) = some .qUndo) ∧
    (∀ v f, t.ops = .bpush v f :: rest → t.pc = .bBlocked → ((step s ⟨tid, 0⟩).ths[tid]?).map (·.pc) = some .bAbTurn) := by
  have hlen := lt_of_getElem?_some h
  constructor
  · intro hop hpc
    simp [step, stepEv, h, stepTh, hop, stepBPop, hpc, hab, List.getElem?_set_self hlen]
  · intro v f hop hpc
    simp [step, stepEv, h, stepTh, hop, stepBPush, hpc, hab, List.getElem?_set_self hlen]

set_option maxRecDepth 100000 in
/-- **negation of abort_conserves on the as-coded protocol** (closed witness, DESIGN §4 F3): 5 threads, 42 steps.
All four producers/consumers complete; the pop issued after `abort()` returns 2; item 1 (ticket 0) was published,
never popped and is unreachable (`head_counter` is past it); and a later `try_pop` (thread 4) took ticket 1 a second
time and spins on its lane for ever. -/
theorem abort_conserves_fails :
    let s := run 32 infCap f3Progs f3Sched
    s.g.done.map (fun d => (d.tid, d.res)) = [(1, .ok), (0, .aborted), (3, .ok), (3, .ok), (2, .val 2)] ∧
    s.g.slot 0 = .item 1 ∧ s.g.popLog = [(1, 2)] ∧ s.g.skipLog = [] ∧ s.g.head = 2 ∧ s.g.tail = 2 ∧ s.g.hazard = true ∧
    ∀ n, ((runFrom s (List.replicate n ⟨4, 0⟩)).ths[4]?).map (·.pc) = some .lHead := by
  intro s
  refine ⟨by decide, by decide, by decide, by decide, by decide, by decide, by decide, ?_⟩
  intro n
  have hpc : (s.ths[4]?).map (fun t => (t.ops, t.pc, t.k)) = some ([.tryPop], .lHead, 1) := by decide
  have hne : s.g.lhead (lane 1) ≠ base 1 := by decide
  cases h4 : s.ths[4]? with
  | none => rw [h4] at hpc; cases hpc
  | some t =>
    rw [h4] at hpc
    simp only [Option.map_some, Option.some.injEq, Prod.mk.injEq] at hpc
    obtain ⟨e1, e2, e3⟩ := hpc
    rw [stuck_forever 4 t [] e1 e2 n s h4 (by rw [e3]; exact hne)]
    simp [e2]

set_option maxRecDepth 100000 in
/-- **a failed page allocation breaks the queue for pops** (closed witness): the push whose page allocation throws
leaves its lane's `tail_counter` odd; the next `try_pop` draws that ticket, passes both lane waits and reads the mask of
a page that was never linked — in the code `head_page == (padded_page*)1`, a wild read (observed: SIGSEGV). -/
theorem alloc_failure_crashes :
    let s := run 32 infCap allocProgs allocSched
    s.g.done.map (fun d => (d.tid, d.res)) = [(0, .badAlloc)] ∧ s.g.poisoned = true ∧ s.g.crashed = true := by
  intro s
  exact ⟨by decide, by decide, by decide⟩

set_option maxRecDepth 100000 in
/-- **as coded, `try_push` can fail on an empty bounded queue** (closed witness, one thread, capacity 1): `push(1)`
throws from the element constructor; its ticket 0 is invalid but still counts; `try_push(2)` reads tail 1, head 0 and
answers "full" although no element is stored.  (On the implementation the same invalid ticket makes a blocking `push`
sleep, and a pop that skips it does not notify — the deadlock reported by the check as
`bounded-pop-skips-invalid-ticket-without-notify-deadlock`; the model's blocked wait is ideal, so it has no such run.) -/
theorem full_after_failed_push :
    let s := run 32 1 [[.bpush 1 .ctor, .btryPush 2 .none]] (acts (List.replicate 8 0))
    s.g.done.map (fun d => (d.res, d.wit)) = [(.threw, true), (.full, true)] ∧ s.g.tail = 1 ∧ s.g.head = 0 ∧
    s.g.slot 0 = .invalid ∧ s.g.popLog = [] ∧ ok s.g.toP := by
  intro s
  exact ⟨by decide, by decide, by decide, by decide, by decide, ⟨by decide, by decide⟩⟩

/-! ## non-vacuity -/

/-- an `ok`, quiescent, non-trivial run: two producers (one constructor failure), two consumers, 3 lanes -/
def exProgs : List (List Op) := [[.push 7 .none, .push 8 .ctor, .push 9 .none], [.tryPop, .tryPop, .tryPop]]
def exSched : List Act := acts (List.replicate 5 0 ++ List.replicate 8 1 ++ List.replicate 9 0 ++ List.replicate 30 1)

set_option maxRecDepth 100000 in
example :
    let s := run 32 infCap exProgs exSched
    ok s.g.toP ∧ quiescent s ∧ s.g.popLog = [(0, 7), (2, 9)] ∧ s.g.skipLog = [1] ∧
    s.g.done.map (fun d => (d.tid, d.res)) = [(0, .ok), (1, .val 7), (0, .threw), (0, .ok), (1, .val 9), (1, .empty)] := by
  intro s
  refine ⟨⟨by decide, by decide⟩, ?_, by decide, by decide, by decide⟩
  have hall : s.ths.all (fun t => t.pc == .start) = true := by decide
  intro t ht
  have := List.all_eq_true.1 hall t ht
  simpa using this

example : cleanProgs exProgs := by decide

/-- a bounded run in which capacity bites: capacity 1, the second push blocks until the pop draws its ticket -/
def exBProgs : List (List Op) := [[.bpush 1 .none, .bpush 2 .none], [.bpop, .bpop]]
def exBSched : List Act := acts (List.replicate 12 0 ++ List.replicate 9 1 ++ List.replicate 8 0 ++ List.replicate 9 1)

set_option maxRecDepth 100000 in
example :
    let s := run 32 1 exBProgs exBSched
    ok s.g.toP ∧ capOK s.g ∧ s.g.done.map (fun d => (d.tid, d.res)) = [(0, .ok), (1, .val 1), (0, .ok), (1, .val 2)] := by
  intro s
  exact ⟨⟨by decide, by decide⟩, ⟨by decide, by decide, by decide⟩, by decide⟩


/-! ## 4. page life cycle of one `micro_queue` (lane), at atomic-access granularity

Model `TbbVerif.C09.Pg` (Model/C09Page.lean): one lane, any number of threads, each with a list of lane operations
`push n i v f` / `pop n i` (round = page `n`, slot `i`; which rounds a thread gets is decided by the ticket dispenser of the
model above: tickets are unique while `ok`, and `lane_bijection` maps them to distinct (lane, round) pairs).  A step is one atomic access of
`prepare_page` / `push` / `pop` / the pop finalizer (turnstile loads, `page_mutex` exchange and release, `head_page` / `tail_page`
loads and stores, mask load / store, `head_counter` / `tail_counter` publication), or one of the plain accesses `q->next = p`,
`p->next`, the element construction / move-out, the page allocation / deallocation.
Hypotheses of the four theorems: the initial lane `l0` is a quiescent lane satisfying the lane invariant (`LInv`, `QLane`; the empty
lane does: `Pg.linv_empty`, `Pg.qlane_empty`; so does the result of `copyLane`), the programs are well formed (`Pg.wf`: every round is
pushed at most once and popped at most once — decidable) and use rounds not yet handed out (`Pg.fresh` — decidable); the conclusion is
for every schedule, as long as no page allocation has failed (`poisoned = false`).  What happens after a failed allocation:
`alloc_failure_races_push`, `bad_last_alloc_leaks_page` below (and `alloc_failure_crashes` above).
`Pg.reach l0 progs sched` is the state reached from the quiescent lane `l0` by the programs under the schedule (Proofs/C09/PgQuiet.lean).
-/

/-- **page_alloc_free_once.**  For all schedules of any number of producers and consumers: no page number is allocated twice and no
page is freed twice or without having been allocated (`dalloc`, `dfree` are raised by the model's allocator on such a call); the
state of every page only moves `unallocated → live → freed` (`pageLe`); and a freed page lies entirely below `head_counter`
(`n < hP`: every one of its slots belongs to a round that has been consumed, and since rounds are unique none of them will ever be
used again) and holds no constructed object. -/
theorem page_alloc_free_once (l0 : Pg.Lane) (progs : List (List Pg.LOp)) (sched : List Nat) (hg : Pg.LInv l0) (hq : Pg.QLane l0)
    (hwf : Pg.wf progs) (hfr : Pg.fresh l0 progs) (hp : (Pg.reach l0 progs sched).l.poisoned = false) :
    let s := Pg.reach l0 progs sched
    s.l.dalloc = false ∧ s.l.dfree = false ∧ (∀ n, Pg.pageLe (l0.pages n).st (s.l.pages n).st) ∧
    ∀ n, (s.l.pages n).st = .freed → n < s.l.hP ∧ ∀ k v, s.l.slot n k ≠ .cons v := by
  intro s
  obtain ⟨hi, _⟩ := Pg.reach_full l0 progs sched hg hq hwf hfr hp
  obtain ⟨_, _, c3, c4, _, _⟩ := hi.g.clean
  refine ⟨c4, c3, fun n => Pg.page_run (Pg.initFrom l0 progs) sched n, fun n hf => ?_⟩
  have hlt := hi.g.freed n hf
  refine ⟨hlt, fun k v hc => ?_⟩
  have := (hi.g.consR n k v hc).1
  simp only [Pg.rle] at this
  omega

/-- **no_access_after_free.**  For all schedules: no thread reads or writes a page — a slot, the mask, the `next` pointer — after the
page was deallocated (`uaf`), and no thread dereferences a null / invalid / never allocated page pointer (`wild`).  Every page access of
the model goes through `Lane.acc`, which raises these flags.  This is where the order "publish `head_counter`, then deallocate" matters
only through the finalizer reading `p->next` before the free, and where `page_mutex` matters: the link `q->next = p` of `prepare_page`
and the finalizer's `p->next` / `tail_page = nullptr` exclude each other (the proof's `no_mx`). -/
theorem no_access_after_free (l0 : Pg.Lane) (progs : List (List Pg.LOp)) (sched : List Nat) (hg : Pg.LInv l0) (hq : Pg.QLane l0)
    (hwf : Pg.wf progs) (hfr : Pg.fresh l0 progs) (hp : (Pg.reach l0 progs sched).l.poisoned = false) :
    (Pg.reach l0 progs sched).l.uaf = false ∧ (Pg.reach l0 progs sched).l.wild = false := by
  obtain ⟨hi, _⟩ := Pg.reach_full l0 progs sched hg hq hwf hfr hp
  exact ⟨hi.g.clean.1, hi.g.clean.2.1⟩

/-- **no_page_leak_at_quiescence.**  When no operation is in flight: the live pages are exactly the pages `hP ≤ n < L`, where `hP` is the
page of `head_counter` and `L = ⌈tail round / items_per_page⌉` — the pages holding the unconsumed rounds `[head, tail)` plus, when the
tail stands inside a page, that partially filled page; they are exactly the pages reachable from `head_page` (`head_page` is page `hP`,
`next` links consecutive pages, the last one is `tail_page` and has `next = nullptr`; both are `nullptr` when there is none), and
`page_mutex` is free.  (`clear()` / the destructor / `assign` on such a lane are the executable `Pg.clearPages` / `Pg.copyLane`; they are compared with
the real code on the end state of every E-SHIM run — all pages freed, each once; the copy has the same chain and the same objects — and through the page
count of the sequential differential; there is no theorem about them yet.) -/
theorem no_page_leak_at_quiescence (l0 : Pg.Lane) (progs : List (List Pg.LOp)) (sched : List Nat) (hg : Pg.LInv l0) (hq : Pg.QLane l0)
    (hwf : Pg.wf progs) (hfr : Pg.fresh l0 progs) (hp : (Pg.reach l0 progs sched).l.poisoned = false)
    (hqu : Pg.quiescent (Pg.reach l0 progs sched)) :
    let l := (Pg.reach l0 progs sched).l
    l.L = (if l.tI = 0 then l.tP else l.tP + 1) ∧
    (∀ n, (l.pages n).st = .live ↔ (l.hP ≤ n ∧ n < l.L)) ∧
    l.hp = (if l.hP < l.L then .pg l.hP else .null) ∧ l.tp = (if l.hP < l.L then .pg (l.L - 1) else .null) ∧
    (∀ n, l.hP ≤ n → n < l.L → (l.pages n).next = if n + 1 < l.L then .pg (n + 1) else .null) ∧ l.mutex = none := by
  intro l
  obtain ⟨hi, hw⟩ := Pg.reach_full l0 progs sched hg hq hwf hfr hp
  obtain ⟨hql, hph, hU⟩ := Pg.quiescent_facts _ hi hw hqu
  have hUL : l.U ≤ l.L := hi.g.UleL
  have hU' : l.U = l.hP := hU
  have hph' : l.ph = .idle := hph
  refine ⟨?_, ?_, ?_, ?_, ?_, hql.mx⟩
  · by_cases hz : l.tI = 0
    · simp only [hz, if_true]; exact hql.lk hz
    · simp only [hz, if_false]; exact hi.g.Lrel.1 hz
  · intro n
    refine ⟨fun h => by have := hql.pg n h; rw [hU'] at this; exact this, fun h => ?_⟩
    exact (hi.g.chain n (by rw [hU']; exact h.1) h.2).1
  · rw [← hU']
    by_cases h : l.U < l.L
    · simp only [h, if_true]; exact hi.g.hpC.1 h
    · have e : l.U = l.L := by omega
      simp only [h, if_false]
      have := hi.g.hpC.2 e
      rw [hph'] at this; simpa using this
  · rw [← hU']
    exact hi.g.tpC.1 (by rw [hph']; simp)
  · intro n h1 h2
    have := (hi.g.chain n (by rw [hU']; exact h1) h2).2
    rw [hph'] at this; simpa using this

/-- **item_constructed_destroyed_once.**  For all schedules: no object is constructed over a slot that is not raw memory (`ccons`) and no
object is destroyed / moved from in a slot that holds no live object (`ddead`); the life of every slot is a prefix of
`raw → constructed v → destroyed v` or of `raw → failed` (`slotLe`: one construction, one destruction; a slot whose constructor threw is
`failed` for ever: never destroyed, never delivered — the page-level counterpart of `ctor_failure_isolated`); every value a pop moved
out comes from a slot that is now destroyed with that value; constructed-and-not-destroyed objects exist only at rounds in
`[head_counter, tail_counter]` and inside a page; and at quiescence the mask bit of every round in `[head, tail)` says exactly whether the slot
holds an object (what `clear`, the iterators and `make_copy` rely on). -/
theorem item_constructed_destroyed_once (l0 : Pg.Lane) (progs : List (List Pg.LOp)) (sched : List Nat) (hg : Pg.LInv l0)
    (hq : Pg.QLane l0) (hwf : Pg.wf progs) (hfr : Pg.fresh l0 progs) (hp : (Pg.reach l0 progs sched).l.poisoned = false) :
    let s := Pg.reach l0 progs sched
    s.l.ccons = false ∧ s.l.ddead = false ∧ (∀ n k, Pg.slotLe (l0.slot n k) (s.l.slot n k)) ∧
    (∀ e, e ∈ s.l.delivered → s.l.slot e.1 e.2.1 = .dead e.2.2) ∧
    (∀ n k v, s.l.slot n k = .cons v → Pg.rle s.l.hP s.l.hI n k ∧ Pg.rle n k s.l.tP s.l.tI ∧ k < s.l.ipp) ∧
    (Pg.quiescent s → ∀ n k, k < s.l.ipp → Pg.rle s.l.hP s.l.hI n k → Pg.rlt n k s.l.tP s.l.tI →
      ((s.l.pages n).mask k = true ↔ ∃ v, s.l.slot n k = .cons v)) := by
  intro s
  obtain ⟨hi, hw⟩ := Pg.reach_full l0 progs sched hg hq hwf hfr hp
  obtain ⟨_, _, _, _, c5, c6⟩ := hi.g.clean
  refine ⟨c5, c6, fun n k => Pg.slot_run (Pg.initFrom l0 progs) sched n k, hi.g.deliv,
    fun n k v hc => ⟨(hi.g.consR n k v hc).1, (hi.g.consR n k v hc).2.1, (hi.g.consR n k v hc).2.2.2⟩, fun hqu n k hk h1 h2 => ?_⟩
  obtain ⟨hql, _, _⟩ := Pg.quiescent_facts _ hi hw hqu
  exact hi.g.maskR n k hk h1 h2 (by rw [hql.mv]; intro h; cases h)

/-! ### non-vacuity and the regime after a failed allocation -/

/-- two producers and two consumers on one lane with `items_per_page = 2`: three pages are allocated, two are retired and freed -/
def exPgProgs : List (List Pg.LOp) :=
  [[.push 0 0 10 .none, .push 1 0 12 .none], [.push 0 1 11 .ctor, .push 1 1 13 .none, .push 2 0 14 .none],
   [.pop 0 0, .pop 1 0, .pop 1 1], [.pop 0 1]]
def exPgSched : List Nat :=
  List.replicate 12 0 ++ List.replicate 6 1 ++ List.replicate 7 2 ++ List.replicate 14 3 ++ List.replicate 14 0 ++ List.replicate 30 1 ++
  List.replicate 40 2

example : Pg.wf exPgProgs ∧ Pg.fresh { ipp := 2 } exPgProgs := by decide

set_option maxRecDepth 100000 in
example :
    let s := Pg.reach { ipp := 2 } exPgProgs exPgSched
    s.l.poisoned = false ∧ s.ths.all (fun t => t.pc == .start && t.ops.isEmpty) = true ∧
    (s.l.hP, s.l.hI, s.l.tP, s.l.tI, s.l.L) = (2, 0, 2, 1, 3) ∧ s.l.delivered = [(0, 0, 10), (1, 0, 12), (1, 1, 13)] ∧
    ((s.l.pages 0).st, (s.l.pages 1).st, (s.l.pages 2).st) = (.freed, .freed, .live) ∧ s.l.slot 0 1 = .failed ∧ s.l.hp = .pg 2 := by
  intro s
  exact ⟨by decide, by decide, by decide, by decide, by decide, by decide, by decide⟩

set_option maxRecDepth 100000 in
/-- **what remains after a failed page allocation (1): a push that already owns its turn races `invalidate_page`** (closed witness; as coded:
`prepare_page` loads `tail_page` WITHOUT the mutex when it does not allocate).  Thread 0 holds round (0,1), has seen its turn and is about
to load `tail_page`; thread 1's allocation for round (1,0) fails and `invalidate_page` stores the invalid-page marker into `tail_page`;
thread 0 then constructs its element through `(padded_page*)1`: a wild write.  (Not replayed on the real code; the page allocation must fail.) -/
theorem alloc_failure_races_push :
    let s := Pg.run 2 [[.push 0 0 1 .none, .push 0 1 2 .none], [.push 1 0 3 .alloc]]
      (List.replicate 13 0 ++ List.replicate 7 1 ++ List.replicate 2 0)
    s.l.poisoned = true ∧ s.l.wild = true ∧ s.l.tp = .inv := by
  intro s
  exact ⟨by decide, by decide, by decide⟩

set_option maxRecDepth 100000 in
/-- **what remains after a failed page allocation (2): `bad_last_alloc` leaks the page the thrower had allocated** (closed witness; as
coded: `prepare_page` allocates before `spin_wait_until_my_turn`, which throws without giving the page back).  Thread 0 allocated page 2
for round (2,0) and waits for its turn; thread 1's allocation for round (1,0) fails and makes `tail_counter` odd; thread 0 throws
`bad_last_alloc`: at quiescence page 2 is live, not reachable from `head_page`, and nobody holds it. -/
theorem bad_last_alloc_leaks_page :
    let s := Pg.run 2 [[.push 2 0 5 .none], [.push 0 0 1 .none, .push 0 1 2 .none, .push 1 0 3 .alloc]]
      (List.replicate 1 0 ++ List.replicate 31 1 ++ List.replicate 3 0)
    s.l.poisoned = true ∧ s.ths.all (fun t => t.pc == .start && t.ops.isEmpty) = true ∧ (s.l.pages 2).st = .live ∧
    s.l.hp = .pg 0 ∧ (s.l.pages 0).next = .inv ∧ s.l.done.map (fun d => (d.tid, d.res)) = [(1, .ok), (1, .ok), (1, .badAlloc), (0, .badLast)] := by
  intro s
  exact ⟨by decide, by decide, by decide, by decide, by decide, by decide⟩


/-! ## 5. the non-concurrent and rarely used operations refine the abstract FIFO -/

/-- **queue_ops_refine_fifo.**  Model `Seq.SQ` (Model/C09Seq.lean): one queue object = `head_counter`, `tail_counter`,
`n_invalid_entries`, the slots, `my_capacity`; `Seq.abs q` = the items of the tickets `[head, tail)` in ticket order = the abstract FIFO
content.  For every well-formed quiescent representation `q` (`WF`: `head ≤ tail`, `n_invalid_entries` counts the invalidated tickets
in between, none is pending — an invariant of all the operations below):
push / emplace appends (`abs ++ [v]`), a push whose constructor throws changes nothing; `try_pop` returns the first item, if any, and
removes it (skipping invalidated tickets and giving their `n_invalid_entries` back); `try_push` / `try_emplace` refuse exactly when
`tail - head ≥ my_capacity` and otherwise push; `size()` (signed) `= unsafe_size() = |abs|`, `empty() ↔ abs = []`; iterating from
`unsafe_begin` to `unsafe_end` yields `abs` — the queue's content in FIFO order; `clear()` empties and keeps the capacity;
`set_capacity(c)` installs `c`, or `infinite_capacity` for a negative `c` (a capacity `≤ 0` otherwise refuses every `try_push`), and
leaves the content alone — also when it shrinks below the current size; copy construction / assignment and the element-wise move with
unequal allocators (`concurrent_queue_rep::assign`) produce the same content in the destination and keep the destination's own capacity;
`swap` and the moves with equal allocators exchange the contents and leave each object's `my_capacity` where it was (as coded).
Negative `size()` (pending pops) only arises concurrently: `TicketQ` above. -/
theorem queue_ops_refine_fifo (q : Seq.SQ) (hw : Seq.WF q) :
    (∀ v, Seq.WF (Seq.push q v true) ∧ Seq.abs (Seq.push q v true) = Seq.abs q ++ [v]) ∧
    (∀ v, Seq.WF (Seq.push q v false) ∧ Seq.abs (Seq.push q v false) = Seq.abs q) ∧
    ((Seq.tryPop q).2 = (Seq.abs q).head? ∧ Seq.abs (Seq.tryPop q).1 = (Seq.abs q).tail ∧ Seq.WF (Seq.tryPop q).1) ∧
    (∀ v, (Seq.tryPush q v true).2 = decide ((q.tail : Int) - (q.head : Int) < q.cap) ∧
          Seq.abs (Seq.tryPush q v true).1 = (if (Seq.tryPush q v true).2 then Seq.abs q ++ [v] else Seq.abs q) ∧
          Seq.WF (Seq.tryPush q v true).1) ∧
    (Seq.size q = ((Seq.abs q).length : Int) ∧ Seq.unsafeSize q = (Seq.abs q).length ∧ Seq.empty q = (Seq.abs q).isEmpty) ∧
    Seq.iter q = Seq.abs q ∧
    (Seq.abs (Seq.clear q) = [] ∧ Seq.WF (Seq.clear q) ∧ (Seq.clear q).cap = q.cap) ∧
    (∀ c, Seq.abs (Seq.setCap q c) = Seq.abs q ∧ Seq.WF (Seq.setCap q c) ∧
          (Seq.setCap q c).cap = (if c < 0 then Generated.C09.infinite_capacity else c)) ∧
    (∀ dst, Seq.WF (Seq.assignRep dst q) ∧ Seq.abs (Seq.assignRep dst q) = Seq.abs q ∧ (Seq.assignRep dst q).cap = dst.cap) ∧
    (∀ r, Seq.abs (Seq.swapRep q r).1 = Seq.abs r ∧ Seq.abs (Seq.swapRep q r).2 = Seq.abs q ∧
          (Seq.swapRep q r).1.cap = q.cap ∧ (Seq.swapRep q r).2.cap = r.cap) := by
  have hsz := Seq.size_eq q hw
  refine ⟨fun v => ?_, fun v => ?_, Seq.wf_tryPop q hw, fun v => ?_, ⟨hsz, ?_, ?_⟩, Seq.iterGo_eq _ _ _, ⟨rfl, ?_, rfl⟩,
    fun c => ⟨rfl, hw, rfl⟩, fun dst => ⟨(Seq.wf_assign dst q hw).1, (Seq.wf_assign dst q hw).2, rfl⟩, fun r => ⟨rfl, rfl, rfl, rfl⟩⟩
  · have := Seq.wf_push q hw v true; simpa using this
  · have := Seq.wf_push q hw v false; simpa using this
  · unfold Seq.tryPush
    by_cases hc : (q.tail : Int) - (q.head : Int) ≥ q.cap
    · simp only [hc, if_true]
      refine ⟨by simp; omega, by simp, hw⟩
    · simp only [hc, if_false]
      have := Seq.wf_push q hw v true
      refine ⟨by simp; omega, by simpa using this.2, this.1⟩
  · unfold Seq.unsafeSize; rw [hsz]; simp
  · unfold Seq.empty; rw [hsz]
    cases h : Seq.abs q <;> simp
  · exact ⟨Nat.le_refl _, rfl, fun k h1 h2 => absurd h2 (by simp [Seq.clear])⟩

example : Seq.WF ({} : Seq.SQ) := ⟨Nat.le_refl _, rfl, fun k _ h => absurd h (Nat.not_lt_zero _)⟩

example :
    let q := Seq.push (Seq.push (Seq.push {} 5 true) 0 false) 7 true
    Seq.abs q = [5, 7] ∧ Seq.size q = 2 ∧ (Seq.tryPop (Seq.tryPop q).1).2 = some 7 ∧ Seq.iter (Seq.assignRep {} q) = [5, 7] := by decide

end TbbVerif.C09
