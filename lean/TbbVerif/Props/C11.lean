/-
C11 — property theorems (statements only live here; helper lemmas are in Proofs/C11.lean).

Property: concurrent growers receive pairwise-disjoint contiguous index ranges that tile [0,size());
index-to-segment arithmetic is a bijection for every index; element addresses are a function of the
index alone; grow_to_at_least(n) constructs what it claimed for every n (no 32-bit truncation).
-/
import TbbVerif.Proofs.C11
import TbbVerif.Proofs.C11.SegFinal

namespace TbbVerif.C11

/-- Every index `< 2^64` lies in the segment `segment_index_of` names, and that segment index is a
valid slot of the long table. -/
theorem seg_contains (i : Nat) (h : i < 2 ^ 64) :
    segIndex i < Generated.C11.pointersPerLongTable ∧
    segBase (segIndex i) ≤ i ∧ i < segBase (segIndex i) + segSize (segIndex i) := by
  have hlt := segIndex_lt64 i h
  refine ⟨by simpa [Generated.C11.pointersPerLongTable] using hlt, ?_⟩
  rw [segBase_eq _ hlt, segSize_eq]
  rcases Nat.lt_or_ge i 2 with h2 | h2
  · simp [segIndex_small i h2]; omega
  · have hp := segIndex_pos i h2
    have hs := segIndex_spec i h2
    have : segIndex i ≠ 0 := by omega
    simp only [this, if_false]
    rw [Nat.pow_succ] at hs
    omega

/-- Segments are consecutive: segment `k+1` starts where segment `k` ends. -/
theorem seg_consecutive (k : Nat) (h : k + 1 < 64) : segBase (k + 1) = segBase k + segSize k := by
  rw [segBase_eq _ h, segBase_eq _ (by omega), segSize_eq]
  rcases Nat.eq_zero_or_pos k with rfl | hk
  · simp
  · have : k ≠ 0 := by omega
    simp [this, Nat.pow_succ]; omega

/-- The segment containing an index is unique: `(segment, offset)` is a bijection onto indices. -/
theorem seg_unique (i k : Nat) (hk : k < 64) (h1 : segBase k ≤ i) (h2 : i < segBase k + segSize k) :
    k = segIndex i := by
  rw [segBase_eq _ hk, segSize_eq] at *
  rcases Nat.eq_zero_or_pos k with rfl | hk0
  · simp at h2; rw [segIndex_small i h2]
  · have hne : k ≠ 0 := by omega
    simp only [hne, if_false] at h1 h2
    have : 2 ≤ 2 ^ k := by
      have := Nat.pow_le_pow_right (show 0 < 2 by omega) hk0
      simpa using this
    have hs := segIndex_spec i (by omega)
    exact pow_bracket_unique i k (segIndex i) h1 (by rw [Nat.pow_succ]; omega) hs.1 hs.2

/-- Element addresses (allocation id, offset) are injective in the index, whatever the first-block
choice: two different indices never share storage. -/
theorem addr_injective (fb i j : Nat) (hi : i < 2 ^ 64) (hj : j < 2 ^ 64)
    (h : addrOf fb i = addrOf fb j) : i = j := by
  unfold addrOf at h
  have ci := seg_contains i hi
  have cj := seg_contains j hj
  simp only at h
  split at h <;> split at h
  · simpa using (Prod.mk.injEq _ _ _ _ ▸ h).2
  · rename_i h1 h2
    have := (Prod.mk.injEq _ _ _ _ ▸ h).1
    omega
  · rename_i h1 h2
    have := (Prod.mk.injEq _ _ _ _ ▸ h).1
    omega
  · have e1 := (Prod.mk.injEq _ _ _ _ ▸ h).1
    have e2 := (Prod.mk.injEq _ _ _ _ ▸ h).2
    rw [← e1] at e2 cj
    omega

/-- The offset is inside the allocation that `create_segment` makes for it. -/
theorem addr_in_bounds (fb i : Nat) (hfb : 1 ≤ fb) (hfb' : fb < 64) (hi : i < 2 ^ 64) :
    (addrOf fb i).2 < allocSize fb (addrOf fb i).1 := by
  have ci := seg_contains i hi
  unfold addrOf allocSize
  simp only
  split
  · rename_i hk
    have hfbne : fb ≠ 0 := by omega
    simp only [show (0 : Nat) < fb by omega, if_true, segSize_eq, hfbne, if_false]
    -- i < base(k)+size(k) ≤ 2^(k+1) ≤ 2^fb
    rw [segBase_eq _ (by omega), segSize_eq] at ci
    have : 2 ^ (segIndex i + 1) ≤ 2 ^ fb := Nat.pow_le_pow_right (by omega) (by omega)
    rw [Nat.pow_succ] at this
    split at ci
    · rename_i h0; rw [h0] at this; simp at this; omega
    · omega
  · rename_i hk
    simp only [hk]
    omega

/-- **Ranges tile.** For every set of threads, each issuing any sequence of push_back / grow_by /
grow_to_at_least calls, and every interleaving of their accesses to the size word, the ranges handed out
(in hand-out order) are non-empty, contiguous and exactly cover `[0, size)`. -/
theorem grow_ranges_tile (progs : List (List Op)) (sched : List Tid) :
    tiles 0 ((sys progs).run sched).log ((sys progs).run sched).size :=
  (inv_reachable progs sched).1

/-- Hence the ranges are pairwise disjoint … -/
theorem grow_ranges_disjoint (progs : List (List Op)) (sched : List Tid) :
    ((sys progs).run sched).log.Pairwise (fun r s => r.2 ≤ s.1) :=
  tiles_pairwise _ _ _ (grow_ranges_tile progs sched)

/-- … and every index below `size` belongs to a handed-out range. -/
theorem grow_ranges_cover (progs : List (List Op)) (sched : List Tid) (i : Nat)
    (h : i < ((sys progs).run sched).size) :
    ∃ r ∈ ((sys progs).run sched).log, r.1 ≤ i ∧ i < r.2 :=
  tiles_cover _ _ _ (grow_ranges_tile progs sched) i (Nat.zero_le _) h

/-- Every range a thread's completed calls own is one of the ranges the size word handed out (a call never
constructs outside what it claimed). -/
theorem claim_is_handed_out (progs : List (List Op)) (sched : List Tid) (tid : Nat) (t : Th)
    (h : ((sys progs).run sched).ths[tid]? = some t) (r : Nat × Nat) (hr : r ∈ t.claims) :
    r ∈ ((sys progs).run sched).log :=
  (inv_reachable progs sched).2.1 tid t h r hr

/-- **grow_to_at_least constructs what it claims**, for every pair of 64-bit sizes: after the CAS loop
left `old` in the local, the call runs `internal_grow(old, new)` iff `old < new`.  Stated over the
guard *generated from the source*; with the 32-bit `int delta` of the pinned tree this theorem is
false (`gtalGrows 0 (2^31) = false`), see KNOWN_FINDINGS.txt / DESIGN.md §4-F1. -/
theorem gtal_guard_exact (old new : Nat) (ho : old < 2 ^ 64) (hn : new < 2 ^ 64) :
    gtalGrows old new = true ↔ old < new := by
  simp [gtalGrows, Generated.C11.gtalGuard]

/-! Non-vacuity: a concrete 3-thread run in which `grow_to_at_least` loses two CAS races and retries. -/
example :
    let r := (sys [[.growTo 5, .pushBack], [.growBy 3], [.pushBack]]).run [0, 1, 0, 2, 0, 0, 0]
    r.size = 6 ∧ r.log = [(0, 3), (3, 4), (4, 5), (5, 6)] ∧ (r.ths.map (·.claims)) = [[(5, 6), (4, 5)], [(0, 3)], [(3, 4)]] := by decide

example : segIndex 0 = 0 ∧ segIndex 1 = 0 ∧ segIndex 2 = 1 ∧ segIndex 7 = 2 ∧ segIndex 8 = 3 ∧
    segIndex (2 ^ 63 + 5) = 63 ∧ segBase 0 = 0 ∧ segBase 1 = 2 ∧ segBase 63 = 2 ^ 63 := by decide

example : addrOf 3 5 = (0, 5) ∧ addrOf 3 8 = (3, 0) ∧ addrOf 3 13 = (3, 5) := by decide

/-! ## The segment-table protocol (`Model/C11Seg.lean`: embedded vs. long table, first-block election, segment owners,
waiters, failure tagging — one model step per atomic access of `_segment_table.h` / `concurrent_vector.h`)

`Seg.sys progs` is the failure-free system (no allocation and no element constructor throws), `Seg.sysF progs fa ft fc`
the system in which the element-storage allocations numbered `fa`, the long-table allocations numbered `ft` and the element
constructions numbered `fc` throw.  All theorems are for any number of threads, any call programs and any schedule. -/

open Seg in
/-- **Slots are written once.**  In every reachable state of a failure-free run, a slot of the embedded table or of the installed
long table that holds a segment pointer holds the same pointer after any further step of any thread. -/
theorem seg_slot_write_once (progs : List (List Op)) (sched : List Tid) (tid : Tid) (T k al sft : Nat) :
    let s := (Seg.sys progs).run sched
    (T = 0 ∨ (T = s.sh.tptr ∧ s.sh.tptr ≠ 0)) → slot s.sh T k = .ptr al sft → slot (Seg.step s tid).sh T k = .ptr al sft := by
  intro s hT h
  exact (step_mono2' s (DInv_reachable progs sched) tid).ptr T k al sft hT h

open Seg in
/-- … and along every continuation of the run (until clear/shrink, which are not concurrency-safe and not modelled). -/
theorem seg_slot_stable (progs : List (List Op)) (sched ext : List Tid) (T k al sft : Nat) :
    let s := (Seg.sys progs).run sched
    (T = 0 ∨ (T = s.sh.tptr ∧ s.sh.tptr ≠ 0)) → slot s.sh T k = .ptr al sft →
      slot ((Seg.sys progs).runFrom s ext).sh T k = .ptr al sft :=
  fun hT h => (stable_run progs sched ext).1 T k al sft hT h

open Seg in
/-- **The table switch preserves every published segment pointer**: what `my_segment_table[k]` shows (through the embedded
table before the switch, through the long table after it) never changes once it is a pointer — across the switch included. -/
theorem table_switch_preserves (progs : List (List Op)) (sched ext : List Tid) (k al sft : Nat) :
    let s := (Seg.sys progs).run sched
    visible s.sh k = .ptr al sft → visible ((Seg.sys progs).runFrom s ext).sh k = .ptr al sft :=
  fun h => (stable_run progs sched ext).2.1 k al sft h

open Seg in
/-- **No publication into the stale embedded table is lost.**  What the code guarantees: once the long table is installed, every
non-null slot of the embedded table (threads that still hold a snapshot of it keep publishing there, and the first-block winner
mirrors its pointer there) has the same value in the long table.  (The switching thread waits for exactly the embedded slots
that a thread with an embedded snapshot can still fill: `Proofs/C11/SegCross.lean`.) -/
theorem stale_embedded_publish_not_lost (progs : List (List Op)) (sched : List Tid) (k : Nat) :
    let s := (Seg.sys progs).run sched
    s.sh.tptr ≠ 0 → slot s.sh 0 k ≠ .null → slot s.sh s.sh.tptr k = slot s.sh 0 k := by
  intro s h0 hk
  rw [slot_nz _ _ _ h0]
  exact (DInv_reachable progs sched).copy h0 k hk

open Seg in
/-- **Element addresses are stable.**  If index `i` was constructed in allocation `al` at offset `off`, then in every later
state it is still recorded so, and the current table still maps its segment to that allocation with `off = i - shift`. -/
theorem element_address_stable (progs : List (List Op)) (sched ext : List Tid) (i al off : Nat) :
    let s := (Seg.sys progs).run sched
    let s' := (Seg.sys progs).runFrom s ext
    (i, al, off) ∈ s.sh.cons →
      (i, al, off) ∈ s'.sh.cons ∧ ∃ sft, visible s'.sh (segIndex i) = .ptr al sft ∧ off = i - sft := by
  intro s s' hc
  have hc' := (stable_run progs sched ext).2.2.2 _ hc
  have hs' : s' = (Seg.sys progs).run (sched ++ ext) := run_append progs sched ext
  refine ⟨hc', ?_⟩
  have D := DInv_reachable progs (sched ++ ext)
  rw [← hs'] at D
  exact D.consok i al off hc'

open Seg in
/-- **Where an element lives** (composition with `addr_injective` / `addr_in_bounds`): the offset is the one `addrOf` computes
from the index and `my_first_block`, it lies inside the published allocation the table maps the segment to (no touch of
unallocated memory), and that allocation is the first block exactly for the segments below `my_first_block`. -/
theorem element_address_is_addrOf (progs : List (List Op)) (sched : List Tid) (i al off : Nat) :
    let s := (Seg.sys progs).run sched
    s.sh.size < 2 ^ 64 → (i, al, off) ∈ s.sh.cons →
      ∃ (sft : Nat) (e : AInfo), visible s.sh (segIndex i) = .ptr al sft ∧ s.sh.allocs[al]? = some e ∧ e.st = .pub ∧
        off = (addrOf s.sh.fb i).2 ∧ off < e.n ∧ (e.first = true ↔ (addrOf s.sh.fb i).1 = 0 ∧ segIndex i < s.sh.fb) ∧
        (e.first = false → e.seg = segIndex i ∧ (addrOf s.sh.fb i).1 = segIndex i) :=
  fun hsz hc => cons_addr _ (DInv_reachable progs sched) i al off hc hsz

open Seg in
/-- **Two constructed elements never share storage.** -/
theorem element_storage_disjoint (progs : List (List Op)) (sched : List Tid) (i al off j bl off' : Nat) :
    let s := (Seg.sys progs).run sched
    s.sh.size < 2 ^ 64 → (i, al, off) ∈ s.sh.cons → (j, bl, off') ∈ s.sh.cons → i ≠ j → (al, off) ≠ (bl, off') := by
  intro s hsz h1 h2 hne
  have D : DInv s := DInv_reachable progs sched
  obtain ⟨s1, e1, v1, a1, _, o1, _, f1, r1⟩ := cons_addr s D i al off h1 hsz
  obtain ⟨s2, e2, v2, a2, _, o2, _, f2, r2⟩ := cons_addr s D j bl off' h2 hsz
  intro heq
  simp only [Prod.mk.injEq] at heq
  obtain ⟨hab, hoo⟩ := heq
  subst hab
  rw [a1] at a2; cases a2
  have hi : i < 2 ^ 64 := by have := D.consbound i al off h1; omega
  have hj : j < 2 ^ 64 := by have := D.consbound j al off' h2; omega
  apply hne
  apply addr_injective s.sh.fb i j hi hj
  cases hf : e1.first with
  | true =>
    have g1 := f1.mp hf
    have g2 := f2.mp hf
    apply Prod.ext
    · rw [g1.1, g2.1]
    · rw [← o1, ← o2, hoo]
  | false =>
    have g1 := r1 hf
    have g2 := r2 hf
    apply Prod.ext
    · rw [g1.2, g2.2, ← g1.1, ← g2.1]
    · rw [← o1, ← o2, hoo]

open Seg in
/-- **Each index is constructed at most once** (and only below `size`). -/
theorem elements_constructed_once (progs : List (List Op)) (sched : List Tid) :
    let s := (Seg.sys progs).run sched
    (s.sh.cons.map (·.1)).Nodup ∧ ∀ i al off, (i, al, off) ∈ s.sh.cons → i < s.sh.size :=
  ⟨(DInv_reachable progs sched).consnodup, (DInv_reachable progs sched).consbound⟩

open Seg in
/-- **A call that returns has constructed its whole range**: every index of a range recorded as a call's result is in the
construction ledger. -/
theorem returned_range_constructed (progs : List (List Op)) (sched : List Tid) (tid : Nat) (t : Seg.Th) (a b j : Nat) :
    let s := (Seg.sys progs).run sched
    s.ths[tid]? = some t → Seg.Res.range a b ∈ t.res → a ≤ j → j < b → ∃ al off, (j, al, off) ∈ s.sh.cons :=
  fun ht hr h1 h2 => ((DInv_reachable progs sched).d2 tid t ht).resok a b hr j h1 h2

open Seg in
/-- **Exactly one allocation per regular segment**: over the whole run the allocator is called at most once for a segment that
is not part of the first block (the caller is the thread whose claimed range contains the segment's first index: `ownull`). -/
theorem segment_allocated_once (progs : List (List Op)) (sched : List Tid) (x y : Nat) (e e' : AInfo) :
    let s := (Seg.sys progs).run sched
    s.sh.allocs[x]? = some e → s.sh.allocs[y]? = some e' → e.first = false → e'.first = false → e.seg = e'.seg → x = y :=
  (DInv_reachable progs sched).uniq x y e e'

open Seg in
/-- **The first block is published once; losers of the election give their allocation back.**  Several threads may allocate a
first block (the code allocates before its CAS on `table[0]`), at most one such allocation is ever published, and an allocation
is only ever freed if it is a first-block allocation (a regular segment is never allocated and discarded). -/
theorem first_block_one_winner (progs : List (List Op)) (sched : List Tid) :
    let s := (Seg.sys progs).run sched
    (∀ (x y : Nat) (e e' : AInfo), s.sh.allocs[x]? = some e → s.sh.allocs[y]? = some e' → e.first = true → e'.first = true →
        e.st = .pub → e'.st = .pub → x = y) ∧
    (∀ (x : Nat) (e : AInfo), s.sh.allocs[x]? = some e → e.st = .freed → e.first = true) :=
  ⟨(DInv_reachable progs sched).onefirst, (DInv_reachable progs sched).freedfirst⟩

open Seg in
/-- **No leak.**  When every call has returned, every allocation ever made is either published in the current table or was given
back by a first-block election loser; and (`slots_hold_published`) every pointer in a slot is a published allocation of the
right size, so the destructor frees each allocation exactly once. -/
theorem no_leak_at_quiescence (progs : List (List Op)) (sched : List Tid) :
    let s := (Seg.sys progs).run sched
    (∀ (j : Nat) (u : Seg.Th), s.ths[j]? = some u → u.ops = [] ∧ u.pc = .idle) →
    ∀ (al : Nat) (e : AInfo), s.sh.allocs[al]? = some e →
      (e.st = .freed ∧ e.first = true) ∨ (e.st = .pub ∧ ∃ k sft, visible s.sh k = .ptr al sft) :=
  fun hf => quiescent_ledger _ (DInv_reachable progs sched) hf

open Seg in
theorem slots_hold_published (progs : List (List Op)) (sched : List Tid) (T k al sft : Nat) :
    let s := (Seg.sys progs).run sched
    slot s.sh T k = .ptr al sft → ∃ e : AInfo, s.sh.allocs[al]? = some e ∧ e.st = .pub ∧
      ((e.first = true ∧ sft = 0 ∧ k < s.sh.fb ∧ e.n = segSize s.sh.fb) ∨
       (e.first = false ∧ sft = segBase k ∧ e.seg = k ∧ s.sh.fb ≤ k ∧ e.n = segSize k)) :=
  (DInv_reachable progs sched).sl T k al sft

open Seg in
/-- **A thread constructs into a segment only after it observed that segment's pointer non-null and not the failure tag** — for
every fault plan: the pointer it constructs through is a real pointer it loaded (never null / the tag: no wild construction),
my_segment_table is never nullptr, and no access through an embedded-table snapshot leaves the three embedded slots. -/
theorem construct_only_through_observed_pointer (progs : List (List Op)) (fa ft fc : List Nat) (sched : List Tid) :
    let s := (Seg.sysF progs fa ft fc).run sched
    s.sh.wild = false ∧ s.sh.badTab = false ∧ s.sh.oobE = false ∧
    ∀ (tid : Nat) (t : Seg.Th), s.ths[tid]? = some t → t.pc = .construct → ∃ al sft, t.segv = .ptr al sft := by
  intro s
  have G := GInv_reachable progs fa ft fc sched
  exact ⟨G.wild, G.badTab, G.oobE, fun tid t ht hp => (G.locC tid t ht).cons hp⟩

open Seg in
/-- … and in failure-free runs the pointer is the one the *current* table holds for the element's segment. -/
theorem construct_through_current_table (progs : List (List Op)) (sched : List Tid) (tid : Nat) (t : Seg.Th) :
    let s := (Seg.sys progs).run sched
    s.ths[tid]? = some t → t.pc = .construct → visible s.sh (segIndex t.idx) = t.segv :=
  fun ht hp => ((DInv_reachable progs sched).d2 tid t ht).cons hp

open Seg in
/-- **grow_to_at_least(n), waiting path** (the call did not grow the vector itself): when it is about to return, every segment
that holds an index `< n` is present in the current table.  This is `grow_to_at_least_waits_for_all` as far as the code goes:
the full statement "every index `< n` is *constructed*" is FALSE for the code as written (see the two witnesses below and
KNOWN_FINDINGS `gtal-grow-path-no-wait`): the waiting path waits for allocation only, and the growing path does not wait. -/
theorem gtal_waits_for_all_partial (progs : List (List Op)) (sched : List Tid) (tid : Nat) (t : Seg.Th) (k : Nat) :
    let s := (Seg.sys progs).run sched
    s.ths[tid]? = some t → t.pc = .zSize → t.target ≠ 0 → k ≤ segIndex (t.target - 1) → visible s.sh k ≠ .null :=
  fun ht hp hn hk => ((DInv_reachable progs sched).d2 tid t ht).zdone (Or.inr (Or.inr hp)) hn k hk

open Seg in
/-- the size-word tiling theorems hold for the protocol model too -/
theorem grow_ranges_tile_seg (progs : List (List Op)) (sched : List Tid) :
    let s := (Seg.sys progs).run sched
    tiles 0 s.sh.log s.sh.size ∧
    ∀ (i j : Nat) (t u : Seg.Th), i ≠ j → s.ths[i]? = some t → s.ths[j]? = some u → t.pc.claim = true → u.pc.claim = true →
      t.stop ≤ u.start ∨ u.stop ≤ t.start :=
  ⟨(DInv_reachable progs sched).tile, (DInv_reachable progs sched).disj⟩

open Seg in
/-- **The waiters of the table switch are released**: the thread whose long-table allocation throws sets
my_segment_table_allocation_failed with its next access; the flag and the long table are never taken back; and a thread waiting
in extend_table_if_necessary re-reads the flag in every iteration, so once the table is switched or the flag is set it leaves
its loop after at most two of its own steps, whatever the others do (any fault plan). -/
theorem table_switch_waiters_released (tid : Nat) (sched : List Tid) (s : Seg.St) (t : Seg.Th) :
    s.ths[tid]? = some t → wrank s.sh t < 3 → wrank s.sh t ≤ sched.count tid →
      ∃ p t', p <+: sched ∧ ((Seg.sys []).runFrom s p).ths[tid]? = some t' ∧ ¬ t'.tableWaiter :=
  Seg.table_switch_waiters_released tid sched s t

open Seg in
theorem table_alloc_failure_sets_flag (s : Seg.St) (tid : Nat) (t : Seg.Th) :
    s.ths[tid]? = some t → t.pc = .xFailStore → (Seg.step s tid).sh.failed = true :=
  Seg.table_alloc_failure_sets_flag s tid t

/-! ### Negation witnesses: the model exhibits the known findings of the code (KNOWN_FINDINGS.txt, C11) -/

open Seg in
theorem stuck_forever (s : Seg.St) (h : ∀ tid, Seg.step s tid = s) (sched : List Tid) : (Seg.sys []).runFrom s sched = s := by
  induction sched with
  | nil => rfl
  | cons x xs ih => show (Seg.sys []).runFrom (Seg.step s x) xs = s; rw [h x]; exact ih

open Seg in
theorem step_out_of_range (s : Seg.St) (tid : Nat) (h : s.ths.length ≤ tid) : Seg.step s tid = s := by
  unfold Seg.step; rw [List.getElem?_eq_none h]

set_option maxRecDepth 100000 in
open Seg in
/-- `gtal-grow-path-no-wait`: grow_to_at_least(3) that itself grows `[2,3)` returns although segment 0 (claimed by a slower
grow_by(2)) is not even allocated. -/
theorem gtal_grow_path_returns_unallocated :
    let s := (Seg.sys [[.growTo 3], [.growBy 2]]).run ([1, 1, 1] ++ List.replicate 14 0)
    (s.ths[0]?.map (·.res)) = some [Seg.Res.range 2 3] ∧ visible s.sh 0 = .null ∧ s.sh.cons.map (·.1) = [2] := by
  decide

set_option maxRecDepth 100000 in
open Seg in
/-- the waiting path of grow_to_at_least(2) returns as soon as segment 0 is allocated, before any element is constructed -/
theorem gtal_returns_before_construction :
    let s := (Seg.sys [[.growBy 3], [.growTo 2]]).run (List.replicate 11 0 ++ List.replicate 7 1)
    (s.ths[1]?.map (·.res)) = some [Seg.Res.none] ∧ s.sh.size = 3 ∧ s.sh.cons = [] := by
  decide

set_option maxRecDepth 100000 in
open Seg in
/-- `fault:ctor-throw:deadlock`: grow_by(3) claims `[1,4)`, its 2nd construction throws; segment 1 (first index 2) is never
allocated nor tagged; the grow_by(9) that must switch the table waits for embedded slot 1 forever. -/
theorem ctor_throw_deadlock_witness :
    let s := (Seg.sysF [[.pushBack], [.growBy 3], [.growBy 9]] [] [] [2]).run
      (List.replicate 20 0 ++ List.replicate 20 1 ++ List.replicate 20 2)
    (∀ tid, Seg.step s tid = s) ∧ (s.ths[2]?.map (·.pc)) = some Seg.Pc.xWait ∧ (s.ths[1]?.map (·.res)) = some [Seg.Res.exc 2] := by
  intro s
  have hp : s.ths.all (fun t => t.parked s.sh) = true := by decide
  exact ⟨all_parked_stuck s hp, by decide, by decide⟩

set_option maxRecDepth 100000 in
open Seg in
/-- `fault:alloc-throw:segment:deadlock`: the eager allocation of the last segment of grow_by(5) throws (tagged), its other
owned segment 1 stays null. -/
theorem alloc_throw_deadlock_witness :
    let s := (Seg.sysF [[.pushBack], [.growBy 5], [.growBy 9]] [2] [] []).run
      (List.replicate 20 0 ++ List.replicate 20 1 ++ List.replicate 20 2)
    (∀ tid, Seg.step s tid = s) ∧ (s.ths[2]?.map (·.pc)) = some Seg.Pc.xWait ∧ slot s.sh 0 1 = .null ∧ slot s.sh 0 2 = .tag := by
  intro s
  have hp : s.ths.all (fun t => t.parked s.sh) = true := by decide
  exact ⟨all_parked_stuck s hp, by decide, by decide, by decide⟩

set_option maxRecDepth 100000 in
open Seg in
/-- `fault:alloc-throw:first-block:deadlock` (F8): the first-block allocation throws in a thread with an embedded snapshot while
my_first_block = 5: only embedded slots 1..2 are tagged; a push_back in segment 4 spins on the long table's slot 4 forever. -/
theorem first_block_alloc_throw_deadlock_witness :
    let s := (Seg.sysF [[.pushBack], [.growTo 30], [.pushBack]] [1] [] []).run
      ([2] ++ List.replicate 4 1 ++ List.replicate 20 2 ++ List.replicate 30 1 ++ List.replicate 20 0)
    (∀ tid, Seg.step s tid = s) ∧ (s.ths[0]?.map (·.pc)) = some Seg.Pc.kSpin ∧ s.sh.fb = 5 ∧ visible s.sh 0 = .tag ∧ visible s.sh 4 = .null := by
  intro s
  have hp : s.ths.all (fun t => t.parked s.sh) = true := by decide
  exact ⟨all_parked_stuck s hp, by decide, by decide, by decide, by decide⟩

set_option maxRecDepth 100000 in
open Seg in
/-- `fault:table-alloc-throw:gtal-waiter:deadlock`: the long-table allocation of grow_by(20) throws and sets the flag; the waiting
path of grow_to_at_least(12) waits for the long table without ever looking at the flag. -/
theorem gtal_waiter_ignores_flag_witness :
    let s := (Seg.sysF [[.growBy 20], [.growTo 12]] [] [1] []).run (List.replicate 8 0 ++ List.replicate 4 1)
    (∀ tid, Seg.step s tid = s) ∧ (s.ths[1]?.map (·.pc)) = some Seg.Pc.wSpinTab ∧ s.sh.failed = true ∧ s.sh.tptr = 0 := by
  intro s
  have hp : s.ths.all (fun t => t.parked s.sh) = true := by decide
  exact ⟨all_parked_stuck s hp, by decide, by decide, by decide⟩

set_option maxRecDepth 100000 in
open Seg in
/-- `fault:alloc-throw:first-block:overwrites-published-segment`: with faults, "slots are written once" FAILS for the code as
written: the failure tagging of the first block overwrites the published pointer of segment 1 (element 2 was constructed there
by a completed push_back). -/
theorem failure_tag_overwrites_published_witness :
    let s := (Seg.sysF [[.pushBack], [.pushBack], [.pushBack]] [2] [] []).run
      ([0, 1] ++ List.replicate 20 2 ++ List.replicate 20 0 ++ List.replicate 20 1)
    (s.ths[2]?.map (·.res)) = some [Seg.Res.range 2 3] ∧ s.sh.cons = [(2, 0, 0)] ∧ visible s.sh 1 = .tag := by
  decide

/-! Non-vacuity of the protocol theorems: a run in which three growers race for the first block and the table is switched. -/
set_option maxRecDepth 100000 in
open Seg in
example :
    let s := (Seg.sys [[.growBy 5], [.pushBack, .pushBack], [.growBy 9]]).run
      ([0, 1, 2] ++ List.replicate 20 2 ++ List.replicate 40 1 ++ List.replicate 40 0 ++ List.replicate 60 2)
    s.sh.size = 16 ∧ s.sh.tptr = 1 ∧ s.sh.fb = 4 ∧ s.sh.cons.length = 16 ∧ (s.ths.map (·.ops.length)) = [0, 0, 0] ∧
    s.sh.allocs.length = 1 := by
  decide

end TbbVerif.C11
