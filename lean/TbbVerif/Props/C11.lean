/-
C11 — property theorems (statements only live here; helper lemmas are in Proofs/C11.lean).

Property: concurrent growers receive pairwise-disjoint contiguous index ranges that tile [0,size());
index-to-segment arithmetic is a bijection for every index; element addresses are a function of the
index alone; grow_to_at_least(n) constructs what it claimed for every n (no 32-bit truncation).
-/
import TbbVerif.Proofs.C11

namespace TbbVerif.C11

/-- Every index `< 2^64` lies in the segment `segment_index_of` names, and that segment index is a
valid slot of the long table. -/
theorem seg_contains (i : Nat) (h : i < 2 ^ 64) :
    segIndex i < Generated.C11.pointersPerLongTable ∧
    segBase (segIndex i) ≤ i ∧ i < segBase (segIndex i) + segSize (segIndex i) := by
  have hlt := segIndex_lt64 i h
  refine ⟨by simpa [Generated.C11.pointersPerLongTable] using hlt, ?_⟩
  rw [segBase_eq _ hlt, segSize_eq]
  rcases Nat.lt_or_ge i 2 with h2 | h2
  · simp [segIndex_small i h2]; omega
  · have hp := segIndex_pos i h2
    have hs := segIndex_spec i h2
    have : segIndex i ≠ 0 := by omega
    simp only [this, if_false]
    rw [Nat.pow_succ] at hs
    omega

/-- Segments are consecutive: segment `k+1` starts where segment `k` ends. -/
theorem seg_consecutive (k : Nat) (h : k + 1 < 64) : segBase (k + 1) = segBase k + segSize k := by
  rw [segBase_eq _ h, segBase_eq _ (by omega), segSize_eq]
  rcases Nat.eq_zero_or_pos k with rfl | hk
  · simp
  · have : k ≠ 0 := by omega
    simp [this, Nat.pow_succ]; omega

/-- The segment containing an index is unique: `(segment, offset)` is a bijection onto indices. -/
theorem seg_unique (i k : Nat) (hk : k < 64) (h1 : segBase k ≤ i) (h2 : i < segBase k + segSize k) :
    k = segIndex i := by
  rw [segBase_eq _ hk, segSize_eq] at *
  rcases Nat.eq_zero_or_pos k with rfl | hk0
  · simp at h2; rw [segIndex_small i h2]
  · have hne : k ≠ 0 := by omega
    simp only [hne, if_false] at h1 h2
    have : 2 ≤ 2 ^ k := by
      have := Nat.pow_le_pow_right (show 0 < 2 by omega) hk0
      simpa using this
    have hs := segIndex_spec i (by omega)
    exact pow_bracket_unique i k (segIndex i) h1 (by rw [Nat.pow_succ]; omega) hs.1 hs.2

/-- Element addresses (allocation id, offset) are injective in the index, whatever the first-block
choice: two different indices never share storage. -/
theorem addr_injective (fb i j : Nat) (hi : i < 2 ^ 64) (hj : j < 2 ^ 64)
    (h : addrOf fb i = addrOf fb j) : i = j := by
  unfold addrOf at h
  have ci := seg_contains i hi
  have cj := seg_contains j hj
  simp only at h
  split at h <;> split at h
  · simpa using (Prod.mk.injEq _ _ _ _ ▸ h).2
  · rename_i h1 h2
    have := (Prod.mk.injEq _ _ _ _ ▸ h).1
    omega
  · rename_i h1 h2
    have := (Prod.mk.injEq _ _ _ _ ▸ h).1
    omega
  · have e1 := (Prod.mk.injEq _ _ _ _ ▸ h).1
    have e2 := (Prod.mk.injEq _ _ _ _ ▸ h).2
    rw [← e1] at e2 cj
    omega

/-- The offset is inside the allocation that `create_segment` makes for it. -/
theorem addr_in_bounds (fb i : Nat) (hfb : 1 ≤ fb) (hfb' : fb < 64) (hi : i < 2 ^ 64) :
    (addrOf fb i).2 < allocSize fb (addrOf fb i).1 := by
  have ci := seg_contains i hi
  unfold addrOf allocSize
  simp only
  split
  · rename_i hk
    have hfbne : fb ≠ 0 := by omega
    simp only [show (0 : Nat) < fb by omega, if_true, segSize_eq, hfbne, if_false]
    -- i < base(k)+size(k) ≤ 2^(k+1) ≤ 2^fb
    rw [segBase_eq _ (by omega), segSize_eq] at ci
    have : 2 ^ (segIndex i + 1) ≤ 2 ^ fb := Nat.pow_le_pow_right (by omega) (by omega)
    rw [Nat.pow_succ] at this
    split at ci
    · rename_i h0; rw [h0] at this; simp at this; omega
    · omega
  · rename_i hk
    simp only [hk]
    omega

/-- **Ranges tile.** For every set of threads, each issuing any sequence of push_back / grow_by /
grow_to_at_least calls, and every interleaving of their accesses to the size word, the ranges handed out
(in hand-out order) are non-empty, contiguous and exactly cover `[0, size)`. -/
theorem grow_ranges_tile (progs : List (List Op)) (sched : List Tid) :
    tiles 0 ((sys progs).run sched).log ((sys progs).run sched).size :=
  (inv_reachable progs sched).1

/-- Hence the ranges are pairwise disjoint … -/
theorem grow_ranges_disjoint (progs : List (List Op)) (sched : List Tid) :
    ((sys progs).run sched).log.Pairwise (fun r s => r.2 ≤ s.1) :=
  tiles_pairwise _ _ _ (grow_ranges_tile progs sched)

/-- … and every index below `size` belongs to a handed-out range. -/
theorem grow_ranges_cover (progs : List (List Op)) (sched : List Tid) (i : Nat)
    (h : i < ((sys progs).run sched).size) :
    ∃ r ∈ ((sys progs).run sched).log, r.1 ≤ i ∧ i < r.2 :=
  tiles_cover _ _ _ (grow_ranges_tile progs sched) i (Nat.zero_le _) h

/-- Every range a thread's completed calls own is one of the ranges the size word handed out (a call never
constructs outside what it claimed). -/
theorem claim_is_handed_out (progs : List (List Op)) (sched : List Tid) (tid : Nat) (t : Th)
    (h : ((sys progs).run sched).ths[tid]? = some t) (r : Nat × Nat) (hr : r ∈ t.claims) :
    r ∈ ((sys progs).run sched).log :=
  (inv_reachable progs sched).2.1 tid t h r hr

/-- **grow_to_at_least constructs what it claims**, for every pair of 64-bit sizes: after the CAS loop
left `old` in the local, the call runs `internal_grow(old, new)` iff `old < new`.  Stated over the
guard *generated from the source*; with the 32-bit `int delta` of the pinned tree this theorem is
false (`gtalGrows 0 (2^31) = false`), see KNOWN_FINDINGS.txt / DESIGN.md §4-F1. -/
theorem gtal_guard_exact (old new : Nat) (ho : old < 2 ^ 64) (hn : new < 2 ^ 64) :
    gtalGrows old new = true ↔ old < new := by
  simp [gtalGrows, Generated.C11.gtalGuard]

/-! Non-vacuity: a concrete 3-thread run in which `grow_to_at_least` loses two CAS races and retries. -/
example :
    let r := (sys [[.growTo 5, .pushBack], [.growBy 3], [.pushBack]]).run [0, 1, 0, 2, 0, 0, 0]
    r.size = 6 ∧ r.log = [(0, 3), (3, 4), (4, 5), (5, 6)] ∧ (r.ths.map (·.claims)) = [[(5, 6), (4, 5)], [(0, 3)], [(3, 4)]] := by decide

example : segIndex 0 = 0 ∧ segIndex 1 = 0 ∧ segIndex 2 = 1 ∧ segIndex 7 = 2 ∧ segIndex 8 = 3 ∧
    segIndex (2 ^ 63 + 5) = 63 ∧ segBase 0 = 0 ∧ segBase 1 = 2 ∧ segBase 63 = 2 ^ 63 := by decide

example : addrOf 3 5 = (0, 5) ∧ addrOf 3 8 = (3, 0) ∧ addrOf 3 13 = (3, 5) := by decide

end TbbVerif.C11
