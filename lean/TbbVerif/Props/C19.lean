import TbbVerif.Model.C19
import TbbVerif.Generated.C19
namespace TbbVerif.C19
theorem placeholder_c19 : Generated.C19.maxRefs = Generated.C19.refMask + 1 := by decide
end TbbVerif.C19
