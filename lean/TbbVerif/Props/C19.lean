/-
C19 — call_once and thread-specific storage: one winner, one element per thread.
Property theorems only (lemmas and invariants live in Proofs/C19/*.lean).

OnceFlag theorems quantify over EVERY number of callers `calls.length ≤ collaborative_once_max_references`
(= 128, regenerated), every number of calls per caller, EVERY oracle `throws : Nat → Bool` (outcome of the user
function on its k-th invocation) and EVERY schedule `sched : List Tid` of the atomic-access-level model
`Once.sys` (Model/C19.lean), i.e. every sequentially consistent interleaving of the accesses to the state word, the
runners' reference counts / ready flags and their wait_contexts.
The bound on the number of callers cannot be dropped: `once_refcount_overflow_beyond_bound`.
-/
import TbbVerif.Proofs.C19.OnceThms
import TbbVerif.Proofs.C19.EtsThms
import TbbVerif.Proofs.C19.EtsLoadThm
import TbbVerif.Proofs.C19.LifeStep
import TbbVerif.Generated.C19

namespace TbbVerif.C19

open Once

/-- the generated constant the OnceFlag theorems are stated over -/
abbrev U : Nat := Generated.C19.maxRefs

/-- The constants the models assume are the ones the headers define (regenerated from /repo on every run):
the reference mask is `max_references - 1`, `max_references` is a power of two ≥ 2 and equals the alignment of the
runner (so a runner address has zero low bits and `x | mask`, `x & ~mask`, `x ± 1` act on the (pointer, low bits)
pair as modelled), `uninitialized = 0`, `done = 1`. -/
theorem once_constants :
    Generated.C19.maxRefs = Generated.C19.refMask + 1 ∧ 2 ≤ Generated.C19.maxRefs ∧
    Generated.C19.runnerAlign = Generated.C19.maxRefs ∧ Generated.C19.maxRefs = 2 ^ 7 ∧
    Generated.C19.stUninit = 0 ∧ Generated.C19.stDone = 1 ∧ Generated.C19.wordBits = 64 := by decide

/-! ### collaborative_call_once -/

/-- **Exactly one successful completion.**  In every reachable state the user function has completed successfully
at most once; every call that has returned normally returned when exactly one successful completion had already
happened (`Ret.ok k` records the number of successful completions at the moment of return); the flag is `done`
only after that completion and `uninitialized` only when there was none. -/
theorem once_exactly_one_success (throws : Nat → Bool) (calls : List Nat) (hN : calls.length ≤ U)
    (sched : List Tid) (s : St) (hs : s = (sys U throws calls).run sched) :
    s.succ ≤ 1 ∧
    (∀ (i : Nat) (th : Th) (k : Nat), s.ths[i]? = some th → Ret.ok k ∈ th.rets → k = 1) ∧
    (s.word = Word.done → s.succ = 1) ∧ (s.word = Word.uninit → s.succ = 0) ∧
    (∀ (i : Nat) (th : Th), s.ths[i]? = some th → (th.pc = .wReady ∨ th.pc = .wCall) → s.succ = 0) := by
  subst hs
  have g := (both_reachable U throws calls hN sched).2
  exact ⟨g.sle, fun i th k h1 h2 => g.rok i th k h1 h2, g.g1, g.g4, g.g2⟩

/-- **A thrown exception goes to exactly one caller — the winner of that attempt — and the flag is reset so that a
concurrent or later caller retries.**
(1) an exception delivered to caller `i` for invocation `k` means `i` ran invocation `k`, that invocation threw, and
    it was delivered to `i` exactly once;
(2) no exception is lost: the exception of every throwing invocation is in flight in, or was delivered to, the caller
    that ran it;
(3) attempts never overlap: at most one caller is between its winning CAS and its completion CAS;
(4) the completion CAS of a winner whose function threw stores `uninitialized`;
(5) when the flag is `uninitialized`, a caller starting a call (later caller) wins within 3 of its own accesses, and a
    moonlighting caller that was waiting (concurrent caller) wins within 2, if it runs undisturbed. -/
theorem once_exception_one_caller_and_retry (throws : Nat → Bool) (calls : List Nat) (hN : calls.length ≤ U)
    (sched : List Tid) (s : St) (hs : s = (sys U throws calls).run sched) :
    (∀ (i : Nat) (th : Th) (k : Nat), s.ths[i]? = some th → Ret.exc k ∈ th.rets →
        s.winners[k]? = some i ∧ throws k = true ∧ th.rets.count (Ret.exc k) = 1) ∧
    (∀ (k i : Nat), s.winners[k]? = some i → throws k = true →
        ∃ th, s.ths[i]? = some th ∧ (th.pend = some k ∨ Ret.exc k ∈ th.rets)) ∧
    (∀ (i j : Nat) (thi thj : Th), s.ths[i]? = some thi → s.ths[j]? = some thj →
        ownerPc thi.pc = true → ownerPc thj.pc = true → i = j) ∧
    (∀ (t : Nat) (th : Th), s.ths[t]? = some th → th.pc = .wSet → th.pend ≠ none → s.word = Word.runner t →
        (step U throws s t).word = Word.uninit) ∧
    (s.word = Word.uninit → ∀ (t : Nat) (th : Th) (rn : Rn), s.ths[t]? = some th → s.rns[t]? = some rn →
        ((th.pc = .idle ∧ th.calls ≠ 0) →
          let s3 := step U throws (step U throws (step U throws s t) t) t
          s3.word = Word.runner t ∧ ∃ th3, s3.ths[t]? = some th3 ∧ th3.pc = .wReady) ∧
        (th.pc = .hSpin →
          let s2 := step U throws (step U throws s t) t
          s2.word = Word.runner t ∧ ∃ th2, s2.ths[t]? = some th2 ∧ th2.pc = .wReady)) := by
  subst hs
  obtain ⟨h, g⟩ := both_reachable U throws calls hN sched
  refine ⟨g.x2, g.x3, fun i j thi thj hi hj oi oj => owner_unique U _ h i j thi thj hi hj oi oj,
    fun t th hth hpc hp hw => reset_on_throw U throws _ t th h g hth hpc hp hw, ?_⟩
  intro hw t th rn hth hrn
  exact ⟨fun hc => retry_later U throws _ t th rn hth hrn hc.1 hc.2 hw,
         fun hpc => retry_concurrent U throws _ t th rn (by decide) hth hrn hpc hw⟩

/-- **The helper count never overflows into the pointer bits, and a runner is not destroyed while a helper holds a
guard on it.**  In every reachable state: no carry/borrow across the bit fields, no access to a destroyed runner or
to unconstructed storage and no reference-count underflow ever happened (`bad = false`); the low bits are
`≤ references_mask`; while the word designates a runner the low bits equal the number of helpers between their
`CAS +1` and their `fetch_sub(1)`, all of which reference that runner; every runner's `m_ref_count` equals the number
of `lifetime_guard`s on it; and a caller holding a guard holds it on a runner that is alive (its owner has not passed
the destructor's `spin_wait_until_eq(m_ref_count, 0)`). -/
theorem once_helper_count_bounded (throws : Nat → Bool) (calls : List Nat) (hN : calls.length ≤ U)
    (sched : List Tid) (s : St) (hs : s = (sys U throws calls).run sched) :
    s.bad = false ∧ s.word.lo ≤ Generated.C19.refMask ∧
    (s.word.hi ≠ 0 → s.word.lo = s.ths.countP isPin ∧
        ∀ (j : Nat) (th : Th), s.ths[j]? = some th → pinPc th.pc = true → th.tgt + 1 = s.word.hi) ∧
    (∀ (i : Nat) (rn : Rn), s.rns[i]? = some rn → rn.refc = s.ths.countP (isGuardOn i)) ∧
    (∀ (j : Nat) (th : Th), s.ths[j]? = some th → guardPc th.pc = true →
        ∃ rn tho, s.rns[th.tgt]? = some rn ∧ s.ths[th.tgt]? = some tho ∧ rn.alive = true ∧ 0 < rn.refc ∧ winAlive tho.pc = true) := by
  subst hs
  have h := inv_reachable U throws calls hN sched
  have hl := lo_bound U _ h (by decide)
  refine ⟨h.nbad, ?_, fun hhi => ⟨(hl.2 hhi).1, h.pinT⟩, h.refc, fun j th hth hg => guard_alive U _ h j th hth hg⟩
  have : U = Generated.C19.refMask + 1 := by decide
  omega

/-- The bound on the number of callers in the theorems above is necessary: with more callers than
`max_references + 1` the mask test of the helper loop does NOT prevent the overflow, because a helper that arrives
with a stale `expected` (a previous runner) compares the word against the wrong `max_value`.  Shown here on the model
with `max_references = 2` and 4 callers: caller 1 still holds `expected` = runner of caller 0 (whose attempt threw),
caller 2 is the new winner, caller 3 holds the single available reference, and caller 1's CAS then carries into the
pointer bits.  (For the real constant 128 the same schedule needs 130 concurrent callers.) -/
theorem once_refcount_overflow_beyond_bound :
    ((sys 2 (fun k => k == 0) [1, 1, 1, 1]).run [0,0,0, 1,1, 0,0,0,0, 2,2,2, 3,3,3,3, 1,1]).bad = true ∧
    ((sys 2 (fun k => k == 0) [1, 1, 1, 1]).run [0,0,0, 1,1, 0,0,0,0, 2,2,2, 3,3,3,3, 1,1]).word = ⟨4, 0⟩ := by
  decide

/-! non-vacuity: the hypotheses are satisfiable and the interesting states are reachable -/

/-- two callers, the first invocation throws: caller 0 gets the exception, caller 1 retries, succeeds, returns -/
example :
    let s := (sys U (fun k => k == 0) [1, 1]).run
      [0,0,0, 1,1, 0,0,0,0,0,0,0,0, 1,1, 1,1,1,1,1,1,1,1]
    s.succ = 1 ∧ s.word = Word.done ∧ s.winners = [0, 1] ∧
    s.ths.map (·.rets) = [[Ret.exc 0], [Ret.ok 1]] ∧ s.bad = false := by decide

/-- a helper pins the winner's runner, takes a guard, waits for the attempt and everybody returns after the success -/
example :
    let s := (sys U (fun _ => false) [1, 1]).run
      [0,0,0, 1,1,1,1, 0, 1,1,1, 0,0,0,0,0, 1,1, 0,0, 1,1,1,1]
    s.succ = 1 ∧ s.ths.map (·.rets) = [[Ret.ok 1], [Ret.ok 1]] ∧ s.ths.map (·.pc) = [.idle, .idle] ∧ s.bad = false := by decide

/-! ### enumerable_thread_specific / combinable (`ets_base::table_lookup`)

The theorems quantify over EVERY number of threads, every assignment of 64-bit hashes to the threads' keys (`hs[i].1`,
collisions included), every number of lookups per thread (`hs[i].2`) and EVERY schedule of the atomic-access-level
model `Ets.sys` (accesses to `my_root`, `my_count` and the slot keys).  `HB`/`L0` are the regenerated hash width and
first-array lg_size. -/

open Ets

abbrev HB : Nat := Generated.C19.etsHashBits
abbrev L0 : Nat := Generated.C19.etsInitLg

/-- regenerated ETS constants: `start(h) = h >> (64 - lg_size)`, first array has 2^2 slots, keys are one word -/
theorem ets_constants : Generated.C19.etsHashBits = 64 ∧ Generated.C19.etsInitLg = 2 ∧ Generated.C19.etsKeyBytes = 8 := by decide

/-- **One element per thread.**  In every reachable state, for every thread `t`:
`create_local()` has run at most once for it (`created ≤ 1`, and `created` is the number of entries of `my_locals`
created by `t`); every finished lookup of `t` returned the same pointer, namely the element `t` created
(`my_locals[p-1]` was created by `t`); hence two different threads never got the same element; and every occupied slot
of every array holds, next to the key of a thread, that thread's own element. -/
theorem ets_one_element_per_thread (hs : List (Nat × Nat)) (hB : ∀ p ∈ hs, p.1 < 2 ^ HB) (sched : List Tid)
    (s : Ets.St) (hst : s = (Ets.sys HB L0 hs).run sched) :
    (∀ (t : Nat) (th : Ets.Th), s.ths[t]? = some th →
        th.created ≤ 1 ∧ th.created = s.locals.count t ∧
        ∀ pe ∈ th.rets, pe.1 = th.elem ∧ pe.1 ≠ 0 ∧ s.locals[pe.1 - 1]? = some t) ∧
    (∀ (t t' : Nat) (th th' : Ets.Th) (pe pe' : Nat × Bool), s.ths[t]? = some th → s.ths[t']? = some th' →
        pe ∈ th.rets → pe' ∈ th'.rets → pe.1 = pe'.1 → t = t') ∧
    (∀ (j : Nat) (a : Arr) (idx : Nat), s.arrs[j]? = some a → a.key idx ≠ 0 →
        ∃ th : Ets.Th, s.ths[a.key idx - 1]? = some th ∧ a.ptr idx = th.elem ∧ th.elem ≠ 0) ∧
    s.bad = false := by
  subst hst
  have h := einv_reachable HB L0 (by decide) hs hB sched
  have key : ∀ (t : Nat) (th : Ets.Th), ((Ets.sys HB L0 hs).run sched).ths[t]? = some th → ∀ pe ∈ th.rets,
      pe.1 = th.elem ∧ pe.1 ≠ 0 ∧ ((Ets.sys HB L0 hs).run sched).locals[pe.1 - 1]? = some t := by
    intro t th hth pe hpe
    have l := h.l t th hth
    obtain ⟨h1, h2⟩ := l.rts pe hpe
    exact ⟨h1, by rw [h1]; exact h2, by rw [h1]; exact (l.elm.1 h2).2⟩
  refine ⟨fun t th hth => ⟨(h.l t th hth).cre.2, (h.l t th hth).cre.1, key t th hth⟩, ?_, h.g.slot, h.nbad⟩
  intro t t' th th' pe pe' hth hth' hpe hpe' e
  have h1 := (key t th hth pe hpe).2.2
  have h2 := (key t' th' hth' pe' hpe').2.2
  rw [e, h2] at h1
  exact (Option.some.inj h1).symm

/-- **Probe invariant and load factor.**  In every reachable state, for every array `a` of the chain:
(1) every occupied slot `idx` holds the key of an existing thread and is reached from that key's start index
    `start(h)` through occupied slots only (`D` probes away), so the probe loop (`probeFind`: stop at an empty slot,
    return at a match) returns a slot with that key within `D+1` probes — the key is found before an empty slot, in
    every array that holds it;
(2) a key occurs at most once per array;
(3) the load is at most 1/2: at most `size/2` slots are occupied (the tickets `++my_count` hands out are distinct and a
    thread only inserts into arrays of at least twice its ticket), hence
(4) an empty slot always exists — the insert loop `for(i = start;; i = (i+1)&mask) if empty && claim` cannot run around
    a full array. -/
theorem ets_probe_invariant (hs : List (Nat × Nat)) (hB : ∀ p ∈ hs, p.1 < 2 ^ HB) (sched : List Tid)
    (s : Ets.St) (hst : s = (Ets.sys HB L0 hs).run sched) :
    ∀ (j : Nat) (a : Arr), s.arrs[j]? = some a →
      (∀ (idx : Nat), idx < a.size → a.key idx ≠ 0 →
        ∃ (th : Ets.Th) (D : Nat), s.ths[a.key idx - 1]? = some th ∧
          idx = (start HB th.h a.lg + D) % a.size ∧
          (∀ d, d < D → a.key ((start HB th.h a.lg + d) % a.size) ≠ 0) ∧
          ∃ idx', probeFind a (a.key idx) (D + 1) (start HB th.h a.lg % a.size) = some idx' ∧ a.key idx' = a.key idx) ∧
      (∀ (idx idx' : Nat), a.key idx ≠ 0 → a.key idx = a.key idx' → idx = idx') ∧
      (occ a).length ≤ a.size / 2 ∧
      (∃ idx, idx < a.size ∧ a.key idx = 0) := by
  subst hst
  obtain ⟨h, ht⟩ := Ets.both_reachable HB L0 (by decide) hs hB sched
  intro j a ha
  refine ⟨?_, fun idx idx' hk he => ht.g.uniq j a idx idx' ha hk he, load_le_half h ht j a ha, empty_slot_exists h ht j a ha⟩
  intro idx hi hk
  obtain ⟨th, D, h1, h2, h3⟩ := h.g.path j a idx ha hi hk
  exact ⟨th, D, h1, h2, h3.2, probeFind_path HB a th.h (a.key idx) D hk h3⟩

/-- **Growth preserves the table.**  Whatever happens after a state `s1 = run sched1` (any continuation `sched2`):
every array of the chain is still in the chain at the same position with the same size, and every occupied slot still
holds the same key and the same element pointer (growth chains the old array, nothing is ever unlinked or
overwritten).  Moreover, in every reachable state each array of the chain has exactly `2^lg` slots, `lg ≥` the
initial lg, and lg strictly increases along the chain (every new root is at least twice as large as the previous
one), and `my_count` equals the number of elements created. -/
theorem ets_growth_preserves (hs : List (Nat × Nat)) (hB : ∀ p ∈ hs, p.1 < 2 ^ HB) (sched1 sched2 : List Tid) :
    let s1 := (Ets.sys HB L0 hs).run sched1
    let s2 := (Ets.sys HB L0 hs).run (sched1 ++ sched2)
    (∀ (j : Nat) (a : Arr), s1.arrs[j]? = some a →
        ∃ a' : Arr, s2.arrs[j]? = some a' ∧ a'.lg = a.lg ∧
          ∀ idx, a.key idx ≠ 0 → a'.key idx = a.key idx ∧ a'.ptr idx = a.ptr idx) ∧
    (∀ (j : Nat) (a : Arr), s2.arrs[j]? = some a → a.keys.length = 2 ^ a.lg ∧ a.ptrs.length = 2 ^ a.lg ∧ L0 ≤ a.lg) ∧
    (∀ (j : Nat) (a a' : Arr), s2.arrs[j]? = some a → s2.arrs[j + 1]? = some a' → a.lg < a'.lg) ∧
    s2.count = s2.locals.length := by
  intro s1 s2
  have h := einv_reachable HB L0 (by decide) hs hB (sched1 ++ sched2)
  have e : s2 = (Ets.sys HB L0 hs).runFrom s1 sched2 := by
    simp only [s2, s1, Sys.run, Sys.runFrom_append]
  refine ⟨?_, h.g.wfA, h.g.lgI, count_reachable HB L0 hs _⟩
  rw [e]
  exact ext_runFrom HB L0 hs s1 sched2

/-- **Iteration / combine visit every thread's element exactly once.**  In every reachable state `my_locals` (what
iteration, `combine` and `combine_each` walk) contains, for every thread, exactly `created ≤ 1` entries; a thread
that has returned from a lookup has exactly one, and it is the element its lookups returned; every entry belongs to
an existing thread that created exactly one element. -/
theorem ets_iteration_each_once (hs : List (Nat × Nat)) (hB : ∀ p ∈ hs, p.1 < 2 ^ HB) (sched : List Tid)
    (s : Ets.St) (hst : s = (Ets.sys HB L0 hs).run sched) :
    (∀ (t : Nat) (th : Ets.Th), s.ths[t]? = some th → s.locals.count t ≤ 1 ∧
        (th.rets ≠ [] → s.locals.count t = 1 ∧ s.locals[th.elem - 1]? = some t ∧ ∀ pe ∈ th.rets, pe.1 = th.elem)) ∧
    (∀ c ∈ s.locals, ∃ th : Ets.Th, s.ths[c]? = some th ∧ th.created = 1 ∧ s.locals.count c = 1) ∧
    (Ets.iterate s).map (·.2) = s.locals := by
  subst hst
  have h := einv_reachable HB L0 (by decide) hs hB sched
  refine ⟨?_, ?_, ?_⟩
  · intro t th hth
    have l := h.l t th hth
    refine ⟨by rw [← l.cre.1]; exact l.cre.2, fun hne => ?_⟩
    obtain ⟨pe, hpe⟩ := List.exists_mem_of_ne_nil _ hne
    have h2 := (l.rts pe hpe).2
    have h3 := l.elm.1 h2
    exact ⟨by rw [← l.cre.1]; exact h3.1, h3.2, fun pe' hpe' => (l.rts pe' hpe').1⟩
  · intro c hc
    have hlt := h.g.locB c hc
    obtain ⟨th, hth⟩ : ∃ th, ((Ets.sys HB L0 hs).run sched).ths[c]? = some th := ⟨_, List.getElem?_eq_getElem hlt⟩
    have l := h.l c th hth
    have hpos : 0 < ((Ets.sys HB L0 hs).run sched).locals.count c := List.count_pos_iff.mpr hc
    have := l.cre
    exact ⟨th, hth, by omega, by omega⟩
  · simp only [Ets.iterate, List.map_map]
    apply List.ext_getElem
    · simp
    · intro i h1 h2
      simp at h1
      simp [List.getD_eq_getElem?_getD, h1]

/-! ### enumerable_thread_specific / combinable across the container's lifecycle, for every key kind

`Life` (Model/C19Life.lean) is the operation-level model: `local()` by any thread — through the per-thread cache of the
native TLS key for `ets_key_per_instance`, through the table for `ets_no_key` / `combinable` —, `clear()`, and
destruction + re-construction at the same address.  `clear()`, constructor and destructor are the SEQUENCES of primitive
actions (`destroy_key`, `create_key`, `set_tls(nullptr)`, `super::table_clear()`, `my_locals.clear()`) read from the
source text of the header on every run (`Generated.C19.life*`). -/

/-- the lifecycle functions as regenerated from enumerable_thread_specific.h / combinable.h -/
def lifeCfg : Life.Cfg :=
  Life.Cfg.ofCodes Generated.C19.lifeClearKey Generated.C19.lifeClearNo Generated.C19.lifeCtorKey Generated.C19.lifeCtorNo
    Generated.C19.lifeDtorKey Generated.C19.lifeDtorNo Generated.C19.lifeTlsLookup Generated.C19.lifeSwapKey

/-- **Generated fact: what `clear()`, the constructor and the destructor do.**  `clear()` of an `ets_key_per_instance`
container is `my_locals.clear(); destroy_key(); create_key(); super::table_clear()` — it ends with a key that was
created after the old one was deleted, i.e. one for which EVERY thread's cached pointer is null ("clear invalidates all
caches"); for `ets_no_key` / `combinable` it is `my_locals.clear(); table_clear()`; the constructor creates the key, the
destructor clears the table, destroys `my_locals` and deletes the key; the per-instance `table_lookup` consults the TLS
slot first and fills it after a miss; `internal_swap` (same-type move construction, move assignment, swap) exchanges the
native TLS key together with the table and `my_locals` (`lifeSwapKey`).  Any other sequence (e.g. `set_tls(nullptr)` instead of the key pair, a missing
`destroy_key()`, a missing `super::table_clear()`) makes this theorem — the hypothesis of the lifecycle theorem — false. -/
theorem ets_lifecycle_generated : lifeCfg = Life.Cfg.expected := by decide

/-- **One element per thread across the container's lifecycle, for every key kind.**  After ANY sequence of `local()`,
`clear()`, destroy-and-re-create and move-assign-a-fresh-container operations by ANY threads, on a container of either kind, with the lifecycle
functions as regenerated from the header:
(1) nothing illegal happened (no use of a deleted key, no double delete);
(2) every `local()` ever returned an element that was alive, in the container, created by the calling thread in the
    generation current at the time of the call (`own`, `pgen = cur`), by exactly one initialiser call of that thread in
    that generation, with a truthful `exists` flag (`exists` ⇔ the thread had already accessed the container since the
    last clear);
(3) two `local()` calls of different threads in the same generation never returned the same address;
(4) `my_locals` (what `size()`, iteration, `combine_each` see) holds exactly one element for every thread that has
    accessed the container since the last clear and nothing else, and every such thread's calls returned its position;
(5) the container owns exactly one native TLS key (`ets_key_per_instance`; none is leaked) or none (`ets_no_key`);
(6) every pointer a thread can still reach through the container's live TLS key designates its own element of the
    CURRENT generation — no cached pointer survives a `clear()`. -/
theorem ets_one_element_per_thread_lifecycle (perInst : Bool) (ops : List Life.Op) (s : Life.St)
    (hs : s = Life.run lifeCfg perInst ops) :
    s.bad = false ∧
    (∀ r ∈ s.rets, r.own = true ∧ r.pgen = r.cur ∧ s.inits.count (r.tid, r.cur) = 1 ∧ r.ex = !r.fresh) ∧
    (∀ r ∈ s.rets, ∀ r' ∈ s.rets, r.cur = r'.cur → r.pos = r'.pos → r.tid = r'.tid) ∧
    (s.locals.Nodup ∧ (∀ t, t ∈ s.locals ↔ Life.accessed s t = true) ∧
      ∀ r ∈ s.rets, r.cur = s.gen → s.locals[r.pos]? = some r.tid) ∧
    ((s.perInst = true → ∃ k, s.key = some k ∧ s.live = [k]) ∧ (s.perInst = false → s.key = none ∧ s.live = [])) ∧
    (∀ t k g p, s.tls t k = some (g, p) → s.key = some k → g = s.gen ∧ s.locals[p]? = some t) := by
  subst hs
  rw [ets_lifecycle_generated]
  have h := Life.inv_run perInst ops
  refine ⟨h.nbad, fun r hr => ?_, h.share, ⟨h.nodup, fun t => ?_, fun r hr => (h.rets r hr).2.2.2.2.2⟩,
    ⟨fun hp => ?_, h.keyN⟩, fun t k g p hq hk => (h.tls t k g p hq).2 hk⟩
  · obtain ⟨_, b, c, d, e, _⟩ := h.rets r hr
    exact ⟨c, b, e, d⟩
  · rw [Life.accessed_iff]; exact h.acc t
  · obtain ⟨k, a, b, _⟩ := h.keyK hp
    exact ⟨k, a, b⟩

/-- non-vacuity: an `ets_key_per_instance` container; thread 0 accesses twice, thread 1 clears, thread 0 (which outlived
the clear) and a new thread 2 access, the container is re-created, thread 0 accesses again: every call returns the
caller's own element of the current generation, `exists` is true exactly for the repeated access, positions are
re-used across generations (same addresses), the key is replaced by a fresh one each time. -/
example :
    let s := Life.run lifeCfg true [.loc 0, .loc 0, .clear 1, .loc 0, .loc 2, .recreate 2, .loc 0]
    s.rets.reverse.map (fun r => (r.tid, r.cur, r.pgen, r.pos, r.ex, r.own)) =
      [(0, 0, 0, 0, false, true), (0, 0, 0, 0, true, true), (0, 1, 1, 0, false, true), (2, 1, 1, 1, false, true), (0, 2, 2, 0, false, true)] ∧
    s.locals = [0] ∧ s.gen = 2 ∧ s.key = some 3 ∧ s.live = [3] ∧ s.bad = false := by decide

/-- the hypothesis `ets_lifecycle_generated` cannot be dropped: with `set_tls(nullptr)` in place of
`destroy_key(); create_key()` in `clear()` (only the CALLING thread's cache is reset) thread 0's next `local()` returns,
with `exists = true` and without an initialiser call, the address of its destroyed element of the previous generation
(`own = false`), and the new thread 2 then gets the same address: two threads share one element while `my_locals` holds
a single element. -/
example :
    let bad : Life.Cfg := { Life.Cfg.expected with clearKey := [.localsClear, .setTlsNull, .superClear] }
    let s := Life.run bad true [.loc 0, .clear 1, .loc 0, .loc 2]
    s.rets.reverse.map (fun r => (r.tid, r.cur, r.pgen, r.pos, r.ex, r.own)) =
      [(0, 0, 0, 0, false, true), (0, 1, 0, 0, true, false), (2, 1, 1, 0, false, true)] ∧
    s.locals = [2] ∧ s.inits.count (0, 1) = 0 := by decide

/-- the key must travel with the table in `internal_swap`: if move assignment exchanged the table and `my_locals` but
NOT the native TLS key, a thread that used the container before `cont = std::move(fresh)` would afterwards get, with
`exists = true` and no initialiser call, the address of its old element, which died with the temporary (`own = false`),
and a new thread would be handed the same position. -/
example :
    let bad : Life.Cfg := { Life.Cfg.expected with swapKey := false }
    let s := Life.run bad true [.loc 0, .moveFresh 1, .loc 0, .loc 2]
    s.rets.reverse.map (fun r => (r.tid, r.cur, r.pgen, r.pos, r.ex, r.own)) =
      [(0, 0, 0, 0, false, true), (0, 1, 0, 0, true, false), (2, 1, 1, 0, false, true)] ∧
    s.locals = [2] ∧ s.inits.count (0, 1) = 0 := by decide

/-- … and with the key exchanged the same history is fine -/
example :
    let s := Life.run lifeCfg true [.loc 0, .moveFresh 1, .loc 0, .loc 2]
    s.rets.reverse.map (fun r => (r.tid, r.cur, r.pgen, r.pos, r.ex, r.own)) =
      [(0, 0, 0, 0, false, true), (0, 1, 1, 0, false, true), (2, 1, 1, 1, false, true)] ∧ s.bad = false := by decide

set_option maxRecDepth 4096 in
/-- non-vacuity: three threads with colliding hashes (all start at slot 0), thread 0 looks up twice; the table grows
from 4 to 8 slots; every thread ends with its own element; thread 0's second lookup finds its key in the OLD array
(behind thread 1's slot), returns the same element (`exists = true`) and re-inserts it into the new root. -/
example :
    let s := (Ets.sys HB L0 [(1, 2), (2, 1), (3, 1)]).run
      ([0,0,0,0,0,0] ++ [1,1,1,1,1,1,1,1] ++ [2,2,2,2,2,2,2,2,2,2] ++ [0,0,0,0,0,0,0,0,0,0,0,0,0,0,0,0])
    s.arrs.map (·.lg) = [2, 3] ∧ s.locals = [0, 1, 2] ∧ s.count = 3 ∧
    s.ths.map (·.rets) = [[(1, true), (1, false)], [(2, false)], [(3, false)]] ∧
    s.ths.map (·.pc) = [.idle, .idle, .idle] ∧ s.arrs.map (·.keys) = [[2, 1, 0, 0], [3, 1, 0, 0, 0, 0, 0, 0]] := by decide

end TbbVerif.C19
