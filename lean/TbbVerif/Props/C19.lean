/-
C19 — call_once and thread-specific storage: one winner, one element per thread.
Property theorems only (lemmas and invariants live in Proofs/C19/*.lean).

OnceFlag theorems quantify over EVERY number of callers `calls.length ≤ collaborative_once_max_references`
(= 128, regenerated), every number of calls per caller, EVERY oracle `throws : Nat → Bool` (outcome of the user
function on its k-th invocation) and EVERY schedule `sched : List Tid` of the atomic-access-level model
`Once.sys` (Model/C19.lean), i.e. every sequentially consistent interleaving of the accesses to the state word, the
runners' reference counts / ready flags and their wait_contexts.
The bound on the number of callers cannot be dropped: `once_refcount_overflow_beyond_bound`.
-/
import TbbVerif.Proofs.C19.OnceThms
import TbbVerif.Proofs.C19.EtsThms
import TbbVerif.Proofs.C19.EtsLoadThm
import TbbVerif.Proofs.C19.LifeStep
import TbbVerif.Proofs.C19.CollabMain
import TbbVerif.Proofs.C19.StoreInv
import TbbVerif.Props.C11
import TbbVerif.Generated.C19

namespace TbbVerif.C19

open Once

/-- the generated constant the OnceFlag theorems are stated over -/
abbrev U : Nat := Generated.C19.maxRefs

/-- The constants the models assume are the ones the headers define (regenerated from /repo on every run):
the reference mask is `max_references - 1`, `max_references` is a power of two ≥ 2 and equals the alignment of the
runner (so a runner address has zero low bits and `x | mask`, `x & ~mask`, `x ± 1` act on the (pointer, low bits)
pair as modelled), `uninitialized = 0`, `done = 1`. -/
theorem once_constants :
    Generated.C19.maxRefs = Generated.C19.refMask + 1 ∧ 2 ≤ Generated.C19.maxRefs ∧
    Generated.C19.runnerAlign = Generated.C19.maxRefs ∧ Generated.C19.maxRefs = 2 ^ 7 ∧
    Generated.C19.stUninit = 0 ∧ Generated.C19.stDone = 1 ∧ Generated.C19.wordBits = 64 := by decide

/-! ### collaborative_call_once -/

/-- **Exactly one successful completion.**  In every reachable state the user function has completed successfully
at most once; every call that has returned normally returned when exactly one successful completion had already
happened (`Ret.ok k` records the number of successful completions at the moment of return); the flag is `done`
only after that completion and `uninitialized` only when there was none. -/
theorem once_exactly_one_success (throws : Nat → Bool) (calls : List Nat) (hN : calls.length ≤ U)
    (sched : List Tid) (s : St) (hs : s = (sys U throws calls).run sched) :
    s.succ ≤ 1 ∧
    (∀ (i : Nat) (th : Th) (k : Nat), s.ths[i]? = some th → Ret.ok k ∈ th.rets → k = 1) ∧
    (s.word = Word.done → s.succ = 1) ∧ (s.word = Word.uninit → s.succ = 0) ∧
    (∀ (i : Nat) (th : Th), s.ths[i]? = some th → (th.pc = .wReady ∨ th.pc = .wCall) → s.succ = 0) := by
  subst hs
  have g := (both_reachable U throws calls hN sched).2
  exact ⟨g.sle, fun i th k h1 h2 => g.rok i th k h1 h2, g.g1, g.g4, g.g2⟩

/-- **A thrown exception goes to exactly one caller — the winner of that attempt — and the flag is reset so that a
concurrent or later caller retries.**
(1) an exception delivered to caller `i` for invocation `k` means `i` ran invocation `k`, that invocation threw, and
    it was delivered to `i` exactly once;
(2) no exception is lost: the exception of every throwing invocation is in flight in, or was delivered to, the caller
    that ran it;
(3) attempts never overlap: at most one caller is between its winning CAS and its completion CAS;
(4) the completion CAS of a winner whose function threw stores `uninitialized`;
(5) when the flag is `uninitialized`, a caller starting a call (later caller) wins within 3 of its own accesses, and a
    moonlighting caller that was waiting (concurrent caller) wins within 2, if it runs undisturbed. -/
theorem once_exception_one_caller_and_retry (throws : Nat → Bool) (calls : List Nat) (hN : calls.length ≤ U)
    (sched : List Tid) (s : St) (hs : s = (sys U throws calls).run sched) :
    (∀ (i : Nat) (th : Th) (k : Nat), s.ths[i]? = some th → Ret.exc k ∈ th.rets →
        s.winners[k]? = some i ∧ throws k = true ∧ th.rets.count (Ret.exc k) = 1) ∧
    (∀ (k i : Nat), s.winners[k]? = some i → throws k = true →
        ∃ th, s.ths[i]? = some th ∧ (th.pend = some k ∨ Ret.exc k ∈ th.rets)) ∧
    (∀ (i j : Nat) (thi thj : Th), s.ths[i]? = some thi → s.ths[j]? = some thj →
        ownerPc thi.pc = true → ownerPc thj.pc = true → i = j) ∧
    (∀ (t : Nat) (th : Th), s.ths[t]? = some th → th.pc = .wSet → th.pend ≠ none → s.word = Word.runner t →
        (step U throws s t).word = Word.uninit) ∧
    (s.word = Word.uninit → ∀ (t : Nat) (th : Th) (rn : Rn), s.ths[t]? = some th → s.rns[t]? = some rn →
        ((th.pc = .idle ∧ th.calls ≠ 0) →
          let s3 := step U throws (step U throws (step U throws s t) t) t
          s3.word = Word.runner t ∧ ∃ th3, s3.ths[t]? = some th3 ∧ th3.pc = .wReady) ∧
        (th.pc = .hSpin →
          let s2 := step U throws (step U throws s t) t
          s2.word = Word.runner t ∧ ∃ th2, s2.ths[t]? = some th2 ∧ th2.pc = .wReady)) := by
  subst hs
  obtain ⟨h, g⟩ := both_reachable U throws calls hN sched
  refine ⟨g.x2, g.x3, fun i j thi thj hi hj oi oj => owner_unique U _ h i j thi thj hi hj oi oj,
    fun t th hth hpc hp hw => reset_on_throw U throws _ t th h g hth hpc hp hw, ?_⟩
  intro hw t th rn hth hrn
  exact ⟨fun hc => retry_later U throws _ t th rn hth hrn hc.1 hc.2 hw,
         fun hpc => retry_concurrent U throws _ t th rn (by decide) hth hrn hpc hw⟩

/-- **The helper count never overflows into the pointer bits, and a runner is not destroyed while a helper holds a
guard on it.**  In every reachable state: no carry/borrow across the bit fields, no access to a destroyed runner or
to unconstructed storage and no reference-count underflow ever happened (`bad = false`); the low bits are
`≤ references_mask`; while the word designates a runner the low bits equal the number of helpers between their
`CAS +1` and their `fetch_sub(1)`, all of which reference that runner; every runner's `m_ref_count` equals the number
of `lifetime_guard`s on it; and a caller holding a guard holds it on a runner that is alive (its owner has not passed
the destructor's `spin_wait_until_eq(m_ref_count, 0)`). -/
theorem once_helper_count_bounded (throws : Nat → Bool) (calls : List Nat) (hN : calls.length ≤ U)
    (sched : List Tid) (s : St) (hs : s = (sys U throws calls).run sched) :
    s.bad = false ∧ s.word.lo ≤ Generated.C19.refMask ∧
    (s.word.hi ≠ 0 → s.word.lo = s.ths.countP isPin ∧
        ∀ (j : Nat) (th : Th), s.ths[j]? = some th → pinPc th.pc = true → th.tgt + 1 = s.word.hi) ∧
    (∀ (i : Nat) (rn : Rn), s.rns[i]? = some rn → rn.refc = s.ths.countP (isGuardOn i)) ∧
    (∀ (j : Nat) (th : Th), s.ths[j]? = some th → guardPc th.pc = true →
        ∃ rn tho, s.rns[th.tgt]? = some rn ∧ s.ths[th.tgt]? = some tho ∧ rn.alive = true ∧ 0 < rn.refc ∧ winAlive tho.pc = true) := by
  subst hs
  have h := inv_reachable U throws calls hN sched
  have hl := lo_bound U _ h (by decide)
  refine ⟨h.nbad, ?_, fun hhi => ⟨(hl.2 hhi).1, h.pinT⟩, h.refc, fun j th hth hg => guard_alive U _ h j th hth hg⟩
  have : U = Generated.C19.refMask + 1 := by decide
  omega

/-- The bound on the number of callers in the theorems above is necessary: with more callers than
`max_references + 1` the mask test of the helper loop does NOT prevent the overflow, because a helper that arrives
with a stale `expected` (a previous runner) compares the word against the wrong `max_value`.  Shown here on the model
with `max_references = 2` and 4 callers: caller 1 still holds `expected` = runner of caller 0 (whose attempt threw),
caller 2 is the new winner, caller 3 holds the single available reference, and caller 1's CAS then carries into the
pointer bits.  (For the real constant 128 the same schedule needs 130 concurrent callers.) -/
theorem once_refcount_overflow_beyond_bound :
    ((sys 2 (fun k => k == 0) [1, 1, 1, 1]).run [0,0,0, 1,1, 0,0,0,0, 2,2,2, 3,3,3,3, 1,1]).bad = true ∧
    ((sys 2 (fun k => k == 0) [1, 1, 1, 1]).run [0,0,0, 1,1, 0,0,0,0, 2,2,2, 3,3,3,3, 1,1]).word = ⟨4, 0⟩ := by
  decide

/-- **Correct up to the exact bound.**  The low bits of the state word can count `maxHelpers` = `collaborative_once_references_mask`
(regenerated) references, i.e. `maxHelpers` helpers simultaneously between their `CAS +1` and their `fetch_sub(1)`.  With at most
`maxHelpers + 1` callers (one owner + `maxHelpers` potential helpers) — for every number of calls per caller, every throw oracle
and every schedule — nothing goes wrong: no carry/borrow between the count and the pointer bits, no access to a destroyed
runner (`bad = false`); the count is `≤ maxHelpers` and, while the word designates a runner, equals the number of helpers
in that window, which is at most `#callers - 1`; the function completes successfully at most once and every normal return
happened after that completion. -/
theorem once_correct_up_to_bound (throws : Nat → Bool) (calls : List Nat) (hN : calls.length ≤ Generated.C19.maxHelpers + 1)
    (sched : List Tid) (s : St) (hs : s = (sys U throws calls).run sched) :
    s.bad = false ∧ s.word.lo ≤ Generated.C19.maxHelpers ∧
    (s.word.hi ≠ 0 → s.word.lo = s.ths.countP isPin ∧ s.word.lo + 1 ≤ calls.length) ∧
    s.succ ≤ 1 ∧ (∀ (i : Nat) (th : Th) (k : Nat), s.ths[i]? = some th → Ret.ok k ∈ th.rets → k = 1) := by
  have hU : calls.length ≤ U := by
    have : Generated.C19.maxHelpers + 1 = U := by decide
    omega
  subst hs
  obtain ⟨h, g⟩ := both_reachable U throws calls hU sched
  have hl := lo_bound U _ h (by decide)
  have hlen : ((sys U throws calls).run sched).ths.length = calls.length := by
    have := h.len
    have h2 : ∀ (sched : List Tid), ((sys U throws calls).run sched).ths.length = calls.length := by
      intro sch
      exact Sys.inv_run (sys U throws calls) (fun s => s.ths.length = calls.length) (by simp [sys, init])
        (fun s t hh => by rw [← hh]; exact Collab.step_ths_len U throws s t) sch
    exact h2 sched
  refine ⟨h.nbad, ?_, fun hhi => ⟨(hl.2 hhi).1, by rw [← hlen]; exact (hl.2 hhi).2⟩, g.sle, g.rok⟩
  have : U = Generated.C19.maxHelpers + 1 := by decide
  omega

/-- **The bound is exact.**  One caller more than `max_references` already suffices for the overflow (the mask test of the
helper loop compares against a stale `expected`): shown on the model with `max_references = 2` (`maxHelpers = 1`) and
`3 = maxHelpers + 2` callers — caller 1 holds `expected` = runner of caller 0 (whose first attempt threw), caller 2 is the new
winner, caller 0's second call takes the single available reference, and caller 1's CAS carries into the pointer bits.  For
the real constant the same schedule needs 129 concurrent callers (the check replays it on the real header as a recorded
observation, outside the quantifier of `once_correct_up_to_bound`). -/
theorem once_bound_is_exact :
    ((sys 2 (fun k => k == 0) [2, 1, 1]).run [0,0,0, 1,1, 0,0, 0,0,0,0,0,0, 2,2,2, 0,0,0,0, 1,1]).bad = true ∧
    ((sys 2 (fun k => k == 0) [2, 1, 1]).run [0,0,0, 1,1, 0,0, 0,0,0,0,0,0, 2,2,2, 0,0,0,0, 1,1]).word = ⟨4, 0⟩ := by
  decide

/-! non-vacuity: the hypotheses are satisfiable and the interesting states are reachable -/

/-- two callers, the first invocation throws: caller 0 gets the exception, caller 1 retries, succeeds, returns -/
example :
    let s := (sys U (fun k => k == 0) [1, 1]).run
      [0,0,0, 1,1, 0,0,0,0,0,0,0,0, 1,1, 1,1,1,1,1,1,1,1]
    s.succ = 1 ∧ s.word = Word.done ∧ s.winners = [0, 1] ∧
    s.ths.map (·.rets) = [[Ret.exc 0], [Ret.ok 1]] ∧ s.bad = false := by decide

/-- a helper pins the winner's runner, takes a guard, waits for the attempt and everybody returns after the success -/
example :
    let s := (sys U (fun _ => false) [1, 1]).run
      [0,0,0, 1,1,1,1, 0, 1,1,1, 0,0,0,0,0, 1,1, 0,0, 1,1,1,1]
    s.succ = 1 ∧ s.ths.map (·.rets) = [[Ret.ok 1], [Ret.ok 1]] ∧ s.ths.map (·.pc) = [.idle, .idle] ∧ s.bad = false := by decide

/-! ### the collaborative part: `collaborative_once_runner` (stack-published runner, arena, wait_context, assist, isolation)

`Collab` (Model/C19Collab.lean) = `Once` + incarnations of the stack-published runner, the inner tasks of the user function
executed by winner / helpers inside `assist()` / workers, isolation, and happens-before ghosts under the memory orders
regenerated from the header.  A schedule is a list of (thread, action), actions = next atomic access | begin | take | fin |
nest; the theorems hold for EVERY schedule, every number of callers ≤ `max_references`, every number of calls per caller,
every throw oracle, every number of inner tasks per invocation (`work`) and every arena size (`conc`). -/

open Collab in
/-- the statement skeleton and the memory orders as regenerated from /repo (checks/c19collab.py: three scripted E-SHIM traces
of the real header + the text of `isolated_execute` / `run_once` / `assist`) -/
def skel : Collab.Skel :=
  { doneAfterCall := Generated.C19.skDoneAfterCall, dtorWaitsRefs := Generated.C19.skDtorWaitsRefs,
    resetByCas := Generated.C19.skResetByCas, pinByCas := Generated.C19.skPinByCas, isolate := Generated.C19.skIsolate,
    ord := { lateLoad := Generated.C19.ordLateLoad, spinLoad := Generated.C19.ordSpinLoad, doneCas := Generated.C19.ordDoneCas,
             refDec := Generated.C19.ordRefDec, dtorLoad := Generated.C19.ordDtorLoad } }

/-- **Generated fact: the header has the statement skeleton and the memory orders the theorems below need.**
`run_once` installs the completion state only after the user function returned; `~collaborative_once_runner` waits for
`m_ref_count == 0`; the exception path resets the word through `set_completion_state` (wait for zero references, CAS); a
helper adds its reference by `CAS(expected, expected+1)`; `run_once` and `assist` wait inside
`isolate_within_arena(tag = this)`; the fast-path load and the helper's `spin_wait_while_eq` load of the state word are at
least acquire, the completion CAS and `m_ref_count--` at least release, the destructor's `m_ref_count` load at least acquire
(stronger orders are accepted).  A change of any of these makes this theorem — the hypothesis of the three theorems
below — false. -/
theorem collab_skeleton_generated : skel.ok = true := by decide

/-- **The stack-published runner is never touched after the winner's frame ended.**  In every reachable state:
(1) no access to a destroyed runner, to unconstructed storage (arena / wait_context) or to an incarnation other than the
    pinned one ever happened, and no carry/borrow between the pointer and the count bits (`bad = false`, `xbad = false`);
(2) every reference held IN THE WORD (between a helper's `CAS +1` and its `fetch_sub(1)`) counts for the runner the pointer
    bits designate NOW, whose owner is between its winning CAS and its completion CAS, and was taken on that runner's live
    incarnation — also when the helper had read the pointer under an OLDER incarnation at the same stack address and the
    attempt was retried in between (ABA: the CAS re-validates the whole word);
(3) every `lifetime_guard` (helper between its increment and its decrement of `m_ref_count`: spinning on `m_is_ready`,
    inside the arena waiting on the wait_context, executing inner tasks) is on a runner that is alive, of the pinned
    incarnation, whose `m_ref_count` is positive and whose owner has not passed the destructor's wait;
(4) an owner past the destructor's wait (its frame is about to end) has `m_ref_count = 0`: nobody holds a guard, the zero was
    read with acquire and every decrement was a release (the helpers' accesses happen-before the destruction);
(5) whoever executes an inner task of the function is a worker, the winner inside the function, or a helper inside
    `assist()` of the runner designated by the word; while inner tasks exist the winner is inside the function (runner
    alive, `m_is_ready` set, wait_context not yet released). -/
theorem runner_not_destroyed_while_referenced (throws : Nat → Bool) (work : Nat → Nat) (conc : Nat) (calls : List Nat)
    (hN : calls.length ≤ U) (sched : List (Tid × Collab.Act)) (c : Collab.CSt)
    (hc : c = Collab.run skel U throws work conc calls sched) :
    (c.o.bad = false ∧ c.x.xbad = false) ∧
    (∀ (j : Nat) (th : Th), c.o.ths[j]? = some th → pinPc th.pc = true →
        th.tgt + 1 = c.o.word.hi ∧ Collab.getN c.x.pin j = Collab.getN c.x.gen th.tgt ∧
        ∃ tho, c.o.ths[th.tgt]? = some tho ∧ ownerPc tho.pc = true) ∧
    (∀ (j : Nat) (th : Th), c.o.ths[j]? = some th → guardPc th.pc = true →
        Collab.getN c.x.pin j = Collab.getN c.x.gen th.tgt ∧
        ∃ rn tho, c.o.rns[th.tgt]? = some rn ∧ c.o.ths[th.tgt]? = some tho ∧ rn.alive = true ∧ 0 < rn.refc ∧ winAlive tho.pc = true) ∧
    (∀ (i : Nat) (th : Th) (rn : Rn), c.o.ths[i]? = some th → c.o.rns[i]? = some rn → th.pc = .dtor2 →
        rn.refc = 0 ∧ c.o.ths.countP (isGuardOn i) = 0 ∧ Collab.getB c.x.dok i = true ∧ c.x.dirty = false) ∧
    ((∀ t ∈ c.x.exec, t ≥ c.o.ths.length ∨ ∃ th, c.o.ths[t]? = some th ∧
        ((th.pc = .wCall ∧ c.o.word.hi = t + 1) ∨ (th.pc = .hWait ∧ th.tgt + 1 = c.o.word.hi))) ∧
     (c.x.exec ≠ [] ∨ c.x.pool ≠ 0 → ∃ (i : Nat) (th : Th) (rn : Rn), c.o.word.hi = i + 1 ∧ c.o.ths[i]? = some th ∧
        c.o.rns[i]? = some rn ∧ th.pc = .wCall ∧ rn.alive = true ∧ rn.ready = true ∧ rn.wctx = 1)) := by
  subst hc
  have R := Collab.reach_run skel collab_skeleton_generated U throws work conc calls hN sched
  refine ⟨⟨R.i.nbad, R.h.nxbad⟩, ?_, ?_, ?_, R.t.t5, ?_⟩
  · intro j th hth hp
    have h1 := R.i.pinT j th hth hp
    have hB := R.i.tgtB j th hth (Or.inl hp)
    obtain ⟨tho, htho⟩ : ∃ tho, (Collab.run skel U throws work conc calls sched).o.ths[th.tgt]? = some tho :=
      ⟨_, List.getElem?_eq_getElem hB⟩
    exact ⟨h1, R.h.pinG j th hth (Or.inl hp), tho, htho, (R.i.own th.tgt tho htho).2 h1.symm⟩
  · intro j th hth hg
    exact ⟨R.h.pinG j th hth (Or.inr hg), guard_alive U _ R.i j th hth hg⟩
  · intro i th rn hth hrn hpc
    have h0 : rn.refc = 0 := by
      rcases Nat.eq_zero_or_pos rn.refc with h | h
      · exact h
      · have := R.i.rpos i th rn hth hrn h
        rw [hpc] at this; simp [winAlive] at this
    exact ⟨h0, by rw [← R.i.refc i rn hrn]; exact h0, R.h.d2 i th hth hpc, R.h.d1⟩
  · intro hne
    have hst : (Collab.run skel U throws work conc calls sched).x.st = 1 := by
      rcases R.t.t01 with h0 | h1
      · have := R.t.t1 h0
        rcases hne with h | h
        · exact absurd this.2 h
        · exact absurd this.1 h
      · exact h1
    obtain ⟨i, th, hw, hth, hpc⟩ := R.t.t2 hst
    have hlt := lt_length_of_get hth
    obtain ⟨rn, hrn⟩ : ∃ rn, (Collab.run skel U throws work conc calls sched).o.rns[i]? = some rn :=
      ⟨_, List.getElem?_eq_getElem (by rw [R.i.len]; exact hlt)⟩
    have hw2 := R.i.wcx i th rn hth hrn (Or.inl hpc)
    have ha := R.i.alv i th rn hth hrn
    exact ⟨i, th, rn, hw, hth, hrn, hpc, by rw [ha, hpc]; rfl, hw2.1, hw2.2⟩

/-- **Every caller — winner, helper or late-comer — returns only after the successful completion, and with
happens-before to it.**  `sees[i]` is obtained only by running the function to success or by an acquire load of the state
word that reads a value written by a release of a thread that had it (the orders are the regenerated ones).  In every
reachable state: (1) no call ever returned normally without it (`okUnseen = false`) and every normal return happened when
exactly one successful completion had taken place; (2) `sees[i]` and the word's release mark imply that the function has
completed successfully; (3) the `done` state carries the release; (4) the function returns only when every inner task
it spawned has finished: while it runs, finished + executing + pooled = spawned. -/
theorem callers_return_after_completion (throws : Nat → Bool) (work : Nat → Nat) (conc : Nat) (calls : List Nat)
    (hN : calls.length ≤ U) (sched : List (Tid × Collab.Act)) (c : Collab.CSt)
    (hc : c = Collab.run skel U throws work conc calls sched) :
    (c.x.okUnseen = false ∧ ∀ (i : Nat) (th : Th) (k : Nat), c.o.ths[i]? = some th → Ret.ok k ∈ th.rets → k = 1) ∧
    ((∀ i, Collab.getB c.x.sees i = true → c.o.succ = 1) ∧ (c.x.wsees = true → c.o.succ = 1)) ∧
    (c.o.word = Word.done → c.x.wsees = true ∧ c.o.succ = 1) ∧
    ((c.x.st = 0 → c.x.pool = 0 ∧ c.x.exec = []) ∧ (c.x.st = 1 → c.x.ran + c.x.pool + c.x.exec.length = c.x.total)) := by
  subst hc
  have R := Collab.reach_run skel collab_skeleton_generated U throws work conc calls hN sched
  exact ⟨⟨R.h.h3, R.g.rok⟩, ⟨R.h.h4, R.h.h4w⟩, fun h => ⟨R.h.h1 h, R.g.g1 h⟩, R.t.t1, R.t.t4⟩

/-- **`once_exception_one_caller_and_retry`, lifted to the model with helpers inside the arena.**  In every reachable state
of `Collab`: (1) an exception delivered to caller `i` for invocation `k` means `i` ran invocation `k` as the winner, it threw,
and it was delivered exactly once; (2) no exception is lost; (3) a caller that holds a reference or a guard — in particular
a helper inside the arena, waiting or executing inner tasks at the time of the throw — carries no exception, and the
invocations were all run by winners (`winners[k]`), never by a helper; (4) attempts never overlap; (5) after the reset
(`uninitialized`) a moonlighting caller that was waiting wins the next attempt within two of its own accesses, and a helper
still inside `assist()` of the thrower's runner is not executing a task any more (the function had returned), so its next
access is enabled. -/
theorem collab_exception_one_caller_and_retry (throws : Nat → Bool) (work : Nat → Nat) (conc : Nat) (calls : List Nat)
    (hN : calls.length ≤ U) (sched : List (Tid × Collab.Act)) (c : Collab.CSt)
    (hc : c = Collab.run skel U throws work conc calls sched) :
    (∀ (i : Nat) (th : Th) (k : Nat), c.o.ths[i]? = some th → Ret.exc k ∈ th.rets →
        c.o.winners[k]? = some i ∧ throws k = true ∧ th.rets.count (Ret.exc k) = 1) ∧
    (∀ (k i : Nat), c.o.winners[k]? = some i → throws k = true →
        ∃ th, c.o.ths[i]? = some th ∧ (th.pend = some k ∨ Ret.exc k ∈ th.rets)) ∧
    (∀ (j : Nat) (th : Th), c.o.ths[j]? = some th → (pinPc th.pc = true ∨ guardPc th.pc = true) → th.pend = none) ∧
    (∀ (i j : Nat) (thi thj : Th), c.o.ths[i]? = some thi → c.o.ths[j]? = some thj →
        ownerPc thi.pc = true → ownerPc thj.pc = true → i = j) ∧
    (c.o.word = Word.uninit →
      (c.x.exec = [] ∧ c.x.pool = 0) ∧
      ∀ (t : Nat) (th : Th), c.o.ths[t]? = some th → th.pc = .hSpin →
        let c2 := Collab.runFrom skel U throws work conc c [(t, .acc), (t, .acc)]
        c2.o.word = Word.runner t ∧ ∃ th2, c2.o.ths[t]? = some th2 ∧ th2.pc = .wReady) := by
  subst hc
  have hk := collab_skeleton_generated
  have R := Collab.reach_run skel hk U throws work conc calls hN sched
  generalize Collab.run skel U throws work conc calls sched = C at R ⊢
  refine ⟨R.g.x2, R.g.x3, ?_, fun i j thi thj hi hj oi oj => owner_unique U _ R.i i j thi thj hi hj oi oj, ?_⟩
  · intro j th hth hp
    cases hpe : th.pend with
    | none => rfl
    | some k =>
      have := R.g.pnd j th hth (by rw [hpe]; simp)
      rcases hp with hp | hp <;> revert hp this <;> cases th.pc <;> simp [pinPc, guardPc, pendPc]
  · intro hw
    have hidle : C.x.st = 0 := by
      rcases R.t.t01 with h0 | h1
      · exact h0
      · obtain ⟨i, th, hhi, _, _⟩ := R.t.t2 h1
        rw [hw] at hhi; simp [Word.uninit] at hhi
    refine ⟨⟨(R.t.t1 hidle).2, (R.t.t1 hidle).1⟩, ?_⟩
    intro t th hth hpc
    have hlt := lt_length_of_get hth
    obtain ⟨rn, hrn⟩ : ∃ rn, C.o.rns[t]? = some rn := ⟨_, List.getElem?_eq_getElem (by rw [R.i.len]; exact hlt)⟩
    have hx : t ∉ C.x.exec := by rw [(R.t.t1 hidle).2]; simp
    have e1 := Collab.step_acc_enabled skel U throws work conc C t th R.t.host hth hx (by rw [hpc]; simp)
    have hr := retry_concurrent U throws C.o t th rn (by decide) hth hrn hpc hw
    simp only at hr
    -- first step: hSpin reads `uninitialized` and goes to winCas
    have hne : ¬ (Word.uninit = th.exp.orMask U) := by
      simp only [Word.uninit, Word.orMask, Word.mk.injEq, not_and]
      intro _; decide
    have hs1 : Once.step U throws C.o t = { C.o with ths := C.o.ths.set t { th with exp := Word.uninit, pc := .winCas } } := by
      simp only [Once.step, Once.stepEv, hth, hrn, hpc, hw]
      rw [if_neg hne]
      simp [Word.gtDone, Word.uninit, Word.done]
    have R1 := Collab.reach_step skel hk U throws work conc C (t, .acc) R
    rw [e1, Collab.accOnce_ok skel hk] at R1
    have hth1 : (Once.step U throws C.o t).ths[t]? = some { th with exp := Word.uninit, pc := .winCas } := by
      rw [hs1]; simp [hlt]
    have hx1 : t ∉ (Collab.track skel throws C.o t C.x).exec := by
      rw [(Collab.track_frame skel throws _ t _).1]; exact hx
    have e2 := Collab.step_acc_enabled skel U throws work conc
      { o := Once.step U throws C.o t, x := Collab.track skel throws C.o t C.x } t _ R1.t.host hth1 hx1 (by simp)
    have hrun : (Collab.runFrom skel U throws work conc C [(t, .acc), (t, .acc)]).o =
        Once.step U throws (Once.step U throws C.o t) t := by
      simp only [Collab.runFrom, List.foldl_cons, List.foldl_nil]
      rw [e1, Collab.accOnce_ok skel hk]
      show (Collab.step skel U throws work conc { o := Once.step U throws C.o t, x := Collab.track skel throws C.o t C.x } (t, .acc)).o = _
      rw [e2, Collab.accOnce_ok skel hk]
      rfl
    simp only [hrun]
    exact hr

/-! non-vacuity of the collaborative model: the interesting states are reachable, the ghosts can fire -/

section CollabExamples
open Collab

private def A (t : Nat) : Tid × Act := (t, .acc)
private def rep (n : Nat) (a : Tid × Act) : List (Tid × Act) := List.replicate n a

set_option maxRecDepth 8192 in
/-- collaboration: caller 1 pins and guards caller 0's runner, enters the arena (`hWait`) and executes one of the two inner
tasks of the function; the function returns after both finished; both callers return after the completion and see it -/
example :
    let c := run skel U (fun _ => false) (fun _ => 2) 2 [1, 1]
      (rep 4 (A 0) ++ [(0, .begin)] ++ rep 7 (A 1) ++ [(1, .take), (0, .take), (1, .fin), (0, .fin)] ++ rep 6 (A 0) ++ rep 5 (A 1) ++ rep 2 (A 0))
    c.o.word = Word.done ∧ c.o.succ = 1 ∧ c.o.bad = false ∧ c.o.ths.map (·.rets) = [[Ret.ok 1], [Ret.ok 1]] ∧
    c.x.gen = [1, 1] ∧ c.x.pin = [0, 1] ∧ c.x.xbad = false ∧ c.x.okUnseen = false ∧ c.x.sees = [true, true] ∧ c.x.ran = 2 := by decide

set_option maxRecDepth 8192 in
/-- ABA across a retry: caller 1 reads `expected` = runner of caller 0 (incarnation 1) and stops before its CAS; caller 0's
function throws, caller 0 gets the exception, calls again and wins again AT THE SAME ADDRESS (incarnation 2); caller 1's CAS
with the old `expected` succeeds — on incarnation 2, which is alive: `pin[1] = gen[0] = 2`, nothing bad -/
example :
    let c := run skel U (fun k => k == 0) (fun _ => 0) 2 [2, 1]
      (rep 4 (A 0) ++ rep 3 (A 1) ++ [(0, .begin)] ++ rep 7 (A 0) ++ rep 4 (A 0) ++ rep 5 (A 1))
    c.o.word = Word.runner 0 ∧ c.o.bad = false ∧ c.o.ths.map (·.pc) = [.wCall, .hWait] ∧ c.o.ths.map (·.rets) = [[Ret.exc 0], []] ∧
    c.x.gen = [2, 1] ∧ c.x.pin = [0, 2] ∧ c.x.xbad = false := by decide

set_option maxRecDepth 8192 in
/-- isolation cannot be dropped: without it the winner, blocked in the function's parallel part, picks up the outer task that
is caller 1 (`nest`), which becomes a helper of the winner's own runner and waits for a wait_context that only the frame
below it can release: thread 0 cannot perform an access (`blocked`), caller 1 spins in `hWait` on the wait_context of runner 0
(still 1), the function has begun and there is no inner task left to take or finish — nobody can move although both calls are
unfinished … -/
example :
    let k := { Skel.expected with isolate := false }
    let c := run k U (fun _ => false) (fun _ => 1) 2 [1, 1]
      (rep 4 (A 0) ++ [(0, .begin), (0, .nest 1)] ++ rep 7 (A 1) ++ [(1, .take), (1, .fin)])
    c.o.ths.map (·.pc) = [.wCall, .hWait] ∧ c.x.host = [none, some 0] ∧ c.x.pool = 0 ∧ c.x.exec = [] ∧
    c.x.st = 1 ∧ blocked c 0 = true ∧ accEnabled c 0 = false ∧ (c.o.rns.map (·.wctx)) = [1, 0] ∧ c.o.ths.map (·.tgt) = [0, 0] := by decide

set_option maxRecDepth 8192 in
/-- … with the header's skeleton `nest` is not possible and the same schedule continues to the end -/
example :
    let c := run skel U (fun _ => false) (fun _ => 1) 2 [1, 1]
      (rep 4 (A 0) ++ [(0, .begin), (0, .nest 1)] ++ rep 7 (A 1) ++ [(1, .take), (1, .fin)] ++ rep 6 (A 0) ++ rep 5 (A 1) ++ rep 2 (A 0))
    c.o.word = Word.done ∧ c.o.ths.map (·.rets) = [[Ret.ok 1], [Ret.ok 1]] ∧ c.x.host = [none, none] ∧ c.o.bad = false := by decide

set_option maxRecDepth 8192 in
/-- the orders matter: with a relaxed fast-path load a late-comer returns without happens-before to the completion -/
example :
    (run { Skel.expected with ord := { Skel.expected.ord with lateLoad := 0 } } U (fun _ => false) (fun _ => 0) 2 [1, 1]
      (rep 4 (A 0) ++ [(0, .begin)] ++ rep 8 (A 0) ++ [A 1])).x.okUnseen = true := by decide

set_option maxRecDepth 8192 in
/-- the skeleton matters (1): a destructor that does not wait for the guards lets a helper use the dead runner -/
example :
    (run { Skel.expected with dtorWaitsRefs := false } U (fun _ => false) (fun _ => 0) 2 [1, 1]
      (rep 4 (A 0) ++ rep 6 (A 1) ++ [(0, .begin)] ++ rep 7 (A 0) ++ [A 1])).o.bad = true := by decide

set_option maxRecDepth 8192 in
/-- the skeleton matters (2): an exception path that resets the word by a plain store while a helper holds a reference in it
makes the helper's `fetch_sub(1)` borrow from the pointer bits -/
example :
    let c := run { Skel.expected with resetByCas := false } U (fun _ => true) (fun _ => 0) 2 [1, 1]
      (rep 4 (A 0) ++ rep 5 (A 1) ++ [(0, .begin)] ++ rep 2 (A 0) ++ [A 1])
    c.o.bad = true ∧ c.o.word = ⟨0, 127⟩ := by decide

set_option maxRecDepth 8192 in
/-- the skeleton matters (3): a helper that increments without re-validating the word increments the `done` state -/
example :
    let c := run { Skel.expected with pinByCas := false } U (fun _ => false) (fun _ => 0) 2 [1, 1]
      (rep 4 (A 0) ++ rep 3 (A 1) ++ [(0, .begin)] ++ rep 3 (A 0) ++ [A 1])
    c.o.bad = true ∧ c.o.word = ⟨0, 2⟩ := by decide

set_option maxRecDepth 8192 in
/-- the skeleton matters (4): with the completion state stored before the function ran a late-comer returns before it -/
example :
    (run { Skel.expected with doneAfterCall := false } U (fun _ => false) (fun _ => 0) 2 [1, 1] (rep 6 (A 0) ++ [A 1])).o.ths.map (·.rets) =
      [[], [Ret.ok 0]] := by decide

end CollabExamples

/-! ### enumerable_thread_specific / combinable (`ets_base::table_lookup`)

The theorems quantify over EVERY number of threads, every assignment of 64-bit hashes to the threads' keys (`hs[i].1`,
collisions included), every number of lookups per thread (`hs[i].2`) and EVERY schedule of the atomic-access-level
model `Ets.sys` (accesses to `my_root`, `my_count` and the slot keys).  `HB`/`L0` are the regenerated hash width and
first-array lg_size. -/

open Ets

abbrev HB : Nat := Generated.C19.etsHashBits
abbrev L0 : Nat := Generated.C19.etsInitLg

/-- regenerated ETS constants: `start(h) = h >> (64 - lg_size)`, first array has 2^2 slots, keys are one word -/
theorem ets_constants : Generated.C19.etsHashBits = 64 ∧ Generated.C19.etsInitLg = 2 ∧ Generated.C19.etsKeyBytes = 8 := by decide

/-- **One element per thread.**  In every reachable state, for every thread `t`:
`create_local()` has run at most once for it (`created ≤ 1`, and `created` is the number of entries of `my_locals`
created by `t`); every finished lookup of `t` returned the same pointer, namely the element `t` created
(`my_locals[p-1]` was created by `t`); hence two different threads never got the same element; and every occupied slot
of every array holds, next to the key of a thread, that thread's own element. -/
theorem ets_one_element_per_thread (hs : List (Nat × Nat)) (hB : ∀ p ∈ hs, p.1 < 2 ^ HB) (sched : List Tid)
    (s : Ets.St) (hst : s = (Ets.sys HB L0 hs).run sched) :
    (∀ (t : Nat) (th : Ets.Th), s.ths[t]? = some th →
        th.created ≤ 1 ∧ th.created = s.locals.count t ∧
        ∀ pe ∈ th.rets, pe.1 = th.elem ∧ pe.1 ≠ 0 ∧ s.locals[pe.1 - 1]? = some t) ∧
    (∀ (t t' : Nat) (th th' : Ets.Th) (pe pe' : Nat × Bool), s.ths[t]? = some th → s.ths[t']? = some th' →
        pe ∈ th.rets → pe' ∈ th'.rets → pe.1 = pe'.1 → t = t') ∧
    (∀ (j : Nat) (a : Arr) (idx : Nat), s.arrs[j]? = some a → a.key idx ≠ 0 →
        ∃ th : Ets.Th, s.ths[a.key idx - 1]? = some th ∧ a.ptr idx = th.elem ∧ th.elem ≠ 0) ∧
    s.bad = false := by
  subst hst
  have h := einv_reachable HB L0 (by decide) hs hB sched
  have key : ∀ (t : Nat) (th : Ets.Th), ((Ets.sys HB L0 hs).run sched).ths[t]? = some th → ∀ pe ∈ th.rets,
      pe.1 = th.elem ∧ pe.1 ≠ 0 ∧ ((Ets.sys HB L0 hs).run sched).locals[pe.1 - 1]? = some t := by
    intro t th hth pe hpe
    have l := h.l t th hth
    obtain ⟨h1, h2⟩ := l.rts pe hpe
    exact ⟨h1, by rw [h1]; exact h2, by rw [h1]; exact (l.elm.1 h2).2⟩
  refine ⟨fun t th hth => ⟨(h.l t th hth).cre.2, (h.l t th hth).cre.1, key t th hth⟩, ?_, h.g.slot, h.nbad⟩
  intro t t' th th' pe pe' hth hth' hpe hpe' e
  have h1 := (key t th hth pe hpe).2.2
  have h2 := (key t' th' hth' pe' hpe').2.2
  rw [e, h2] at h1
  exact (Option.some.inj h1).symm

/-- **Probe invariant and load factor.**  In every reachable state, for every array `a` of the chain:
(1) every occupied slot `idx` holds the key of an existing thread and is reached from that key's start index
    `start(h)` through occupied slots only (`D` probes away), so the probe loop (`probeFind`: stop at an empty slot,
    return at a match) returns a slot with that key within `D+1` probes — the key is found before an empty slot, in
    every array that holds it;
(2) a key occurs at most once per array;
(3) the load is at most 1/2: at most `size/2` slots are occupied (the tickets `++my_count` hands out are distinct and a
    thread only inserts into arrays of at least twice its ticket), hence
(4) an empty slot always exists — the insert loop `for(i = start;; i = (i+1)&mask) if empty && claim` cannot run around
    a full array. -/
theorem ets_probe_invariant (hs : List (Nat × Nat)) (hB : ∀ p ∈ hs, p.1 < 2 ^ HB) (sched : List Tid)
    (s : Ets.St) (hst : s = (Ets.sys HB L0 hs).run sched) :
    ∀ (j : Nat) (a : Arr), s.arrs[j]? = some a →
      (∀ (idx : Nat), idx < a.size → a.key idx ≠ 0 →
        ∃ (th : Ets.Th) (D : Nat), s.ths[a.key idx - 1]? = some th ∧
          idx = (start HB th.h a.lg + D) % a.size ∧
          (∀ d, d < D → a.key ((start HB th.h a.lg + d) % a.size) ≠ 0) ∧
          ∃ idx', probeFind a (a.key idx) (D + 1) (start HB th.h a.lg % a.size) = some idx' ∧ a.key idx' = a.key idx) ∧
      (∀ (idx idx' : Nat), a.key idx ≠ 0 → a.key idx = a.key idx' → idx = idx') ∧
      (occ a).length ≤ a.size / 2 ∧
      (∃ idx, idx < a.size ∧ a.key idx = 0) := by
  subst hst
  obtain ⟨h, ht⟩ := Ets.both_reachable HB L0 (by decide) hs hB sched
  intro j a ha
  refine ⟨?_, fun idx idx' hk he => ht.g.uniq j a idx idx' ha hk he, load_le_half h ht j a ha, empty_slot_exists h ht j a ha⟩
  intro idx hi hk
  obtain ⟨th, D, h1, h2, h3⟩ := h.g.path j a idx ha hi hk
  exact ⟨th, D, h1, h2, h3.2, probeFind_path HB a th.h (a.key idx) D hk h3⟩

/-- **Growth preserves the table.**  Whatever happens after a state `s1 = run sched1` (any continuation `sched2`):
every array of the chain is still in the chain at the same position with the same size, and every occupied slot still
holds the same key and the same element pointer (growth chains the old array, nothing is ever unlinked or
overwritten).  Moreover, in every reachable state each array of the chain has exactly `2^lg` slots, `lg ≥` the
initial lg, and lg strictly increases along the chain (every new root is at least twice as large as the previous
one), and `my_count` equals the number of elements created. -/
theorem ets_growth_preserves (hs : List (Nat × Nat)) (hB : ∀ p ∈ hs, p.1 < 2 ^ HB) (sched1 sched2 : List Tid) :
    let s1 := (Ets.sys HB L0 hs).run sched1
    let s2 := (Ets.sys HB L0 hs).run (sched1 ++ sched2)
    (∀ (j : Nat) (a : Arr), s1.arrs[j]? = some a →
        ∃ a' : Arr, s2.arrs[j]? = some a' ∧ a'.lg = a.lg ∧
          ∀ idx, a.key idx ≠ 0 → a'.key idx = a.key idx ∧ a'.ptr idx = a.ptr idx) ∧
    (∀ (j : Nat) (a : Arr), s2.arrs[j]? = some a → a.keys.length = 2 ^ a.lg ∧ a.ptrs.length = 2 ^ a.lg ∧ L0 ≤ a.lg) ∧
    (∀ (j : Nat) (a a' : Arr), s2.arrs[j]? = some a → s2.arrs[j + 1]? = some a' → a.lg < a'.lg) ∧
    s2.count = s2.locals.length := by
  intro s1 s2
  have h := einv_reachable HB L0 (by decide) hs hB (sched1 ++ sched2)
  have e : s2 = (Ets.sys HB L0 hs).runFrom s1 sched2 := by
    simp only [s2, s1, Sys.run, Sys.runFrom_append]
  refine ⟨?_, h.g.wfA, h.g.lgI, count_reachable HB L0 hs _⟩
  rw [e]
  exact ext_runFrom HB L0 hs s1 sched2

/-- **Iteration / combine visit every thread's element exactly once.**  In every reachable state `my_locals` (what
iteration, `combine` and `combine_each` walk) contains, for every thread, exactly `created ≤ 1` entries; a thread
that has returned from a lookup has exactly one, and it is the element its lookups returned; every entry belongs to
an existing thread that created exactly one element. -/
theorem ets_iteration_each_once (hs : List (Nat × Nat)) (hB : ∀ p ∈ hs, p.1 < 2 ^ HB) (sched : List Tid)
    (s : Ets.St) (hst : s = (Ets.sys HB L0 hs).run sched) :
    (∀ (t : Nat) (th : Ets.Th), s.ths[t]? = some th → s.locals.count t ≤ 1 ∧
        (th.rets ≠ [] → s.locals.count t = 1 ∧ s.locals[th.elem - 1]? = some t ∧ ∀ pe ∈ th.rets, pe.1 = th.elem)) ∧
    (∀ c ∈ s.locals, ∃ th : Ets.Th, s.ths[c]? = some th ∧ th.created = 1 ∧ s.locals.count c = 1) ∧
    (Ets.iterate s).map (·.2) = s.locals := by
  subst hst
  have h := einv_reachable HB L0 (by decide) hs hB sched
  refine ⟨?_, ?_, ?_⟩
  · intro t th hth
    have l := h.l t th hth
    refine ⟨by rw [← l.cre.1]; exact l.cre.2, fun hne => ?_⟩
    obtain ⟨pe, hpe⟩ := List.exists_mem_of_ne_nil _ hne
    have h2 := (l.rts pe hpe).2
    have h3 := l.elm.1 h2
    exact ⟨by rw [← l.cre.1]; exact h3.1, h3.2, fun pe' hpe' => (l.rts pe' hpe').1⟩
  · intro c hc
    have hlt := h.g.locB c hc
    obtain ⟨th, hth⟩ : ∃ th, ((Ets.sys HB L0 hs).run sched).ths[c]? = some th := ⟨_, List.getElem?_eq_getElem hlt⟩
    have l := h.l c th hth
    have hpos : 0 < ((Ets.sys HB L0 hs).run sched).locals.count c := List.count_pos_iff.mpr hc
    have := l.cre
    exact ⟨th, hth, by omega, by omega⟩
  · simp only [Ets.iterate, List.map_map]
    apply List.ext_getElem
    · simp
    · intro i h1 h2
      simp at h1
      simp [List.getD_eq_getElem?_getD, h1]

/-! ### enumerable_thread_specific / combinable: storage of the elements and initialiser faults

`Store` (Model/C19Store.lean): one step = one `local()` call; the outcome of the k-th `create_local()` is an oracle
`fault k` ∈ {none, the initialiser throws, the segment allocation of `my_locals.grow_by(1)` throws}.  The theorems hold for
EVERY number of threads, every number of calls per thread, every oracle and every order of the calls. -/

/-- the statement order of `create_local` / `table_lookup` as regenerated from the header text -/
def storeSkel : Store.Skel :=
  { commitAfterConstruct := Generated.C19.stCommitAfterConstruct, claimAfterCreate := Generated.C19.stClaimAfterCreate }

/-- **Generated fact:** `create_local` marks the element built (`value_committed()`) only after `construct` returned, and
`table_lookup` claims the slot / publishes the pointer only after `create_local` returned. -/
theorem ets_store_skeleton_generated : storeSkel = Store.Skel.expected := by decide

/-- **The initialiser runs exactly once per thread on success.**  In every reachable state, for every thread `t`:
its initialiser invocations are its failed ones plus exactly one if (and only if) it has an element; exactly one of its
`local()` calls returned `exists = false` if it has an element, none otherwise; every element a `local()` call of `t` ever
returned is THE element its slot points to, which lies in `my_locals`, was appended by `t`, is allocated, constructed and
marked built; and no two built elements belong to the same thread. -/
theorem ets_initialiser_exactly_once_on_success (fault : Nat → Store.Fault) (todo : List Nat) (sched : List Tid) (s : Store.St)
    (hs : s = (Store.sys storeSkel fault todo).run sched) :
    (∀ (t : Nat) (th : Store.Th), s.ths[t]? = some th →
        th.calls = th.ifail + (if th.slot = none then 0 else 1) ∧ th.firsts = (if th.slot = none then 0 else 1) ∧
        ∀ (e : Nat) (x : Bool), Store.Ret.elem e x ∈ th.rets → th.slot = some e ∧ e < s.locals.length ∧
          ∀ el, s.locals[e]? = some el → el.owner = t ∧ el.alloc = true ∧ el.built = true ∧ el.cons = true) ∧
    (∀ (i j : Nat) (ei ej : Store.Elem), s.locals[i]? = some ei → s.locals[j]? = some ej →
        ei.built = true → ej.built = true → ei.owner = ej.owner → i = j) := by
  subst hs
  rw [ets_store_skeleton_generated]
  have h := Store.inv_reachable fault todo sched
  refine ⟨fun t th hth => ⟨h.calls t th hth, h.rFst t th hth, fun e x hm => ?_⟩, ?_⟩
  · have hsl := h.rElem t th e x hth hm
    exact ⟨hsl, h.slot t th e hth hsl⟩
  · intro i j ei ej hi hj bi bj ho
    obtain ⟨_, _, hlt, hi'⟩ := h.elB i ei hi bi
    obtain ⟨_, _, _, hj'⟩ := h.elB j ej hj bj
    have hth : ((Store.sys Store.Skel.expected fault todo).run sched).ths[ei.owner]? = some _ := List.getElem?_eq_getElem hlt
    have a := hi' _ hth
    have b := hj' _ (by rw [← ho]; exact hth)
    rw [a] at b; exact Option.some.inj b

/-- **After a failed initialiser (the part of the failure clause that HOLDS).**  If a `local()` call of thread `t` ended with
the exception of `create_local` call number `a`, then in every later state: that call was faulty; the thread got no element
from it — as long as its slot is empty no built element belongs to it; a later `local()` of `t` whose `create_local` does not
fail makes exactly ONE further initialiser call, constructs a new element and claims it (the step equation); and the value
destructors run at `clear()` / destruction are exactly those of constructed objects (the failed element is not destroyed). -/
theorem ets_after_failed_initialiser (fault : Nat → Store.Fault) (todo : List Nat) (sched : List Tid) (s : Store.St)
    (hs : s = (Store.sys storeSkel fault todo).run sched) :
    (∀ (t : Nat) (th : Store.Th) (a : Nat), s.ths[t]? = some th → Store.Ret.exc a ∈ th.rets → fault a ≠ .none) ∧
    (∀ (t : Nat) (th : Store.Th), s.ths[t]? = some th → th.slot = none →
        ∀ (i : Nat) (e : Store.Elem), s.locals[i]? = some e → e.owner = t → e.built = false) ∧
    (∀ (t : Nat) (th : Store.Th), s.ths[t]? = some th → th.slot = none → th.todo ≠ 0 → fault s.attempts = .none →
        ∃ th', (Store.step storeSkel fault s t).ths[t]? = some th' ∧ th'.calls = th.calls + 1 ∧ th'.slot = some s.locals.length ∧
          (Store.step storeSkel fault s t).locals = s.locals ++ [{ owner := t, built := true, cons := true }]) ∧
    (∀ e ∈ Store.destroyed s, e.cons = true) := by
  subst hs
  rw [ets_store_skeleton_generated]
  have h := Store.inv_reachable fault todo sched
  refine ⟨fun t th a hth hm => (h.rExc t th a hth hm).1, ?_, ?_, ?_⟩
  · intro t th hth hsl i e hi ho
    cases hb : e.built with
    | false => rfl
    | true =>
      obtain ⟨_, _, _, hh⟩ := h.elB i e hi hb
      have := hh th (by rw [ho]; exact hth)
      rw [hsl] at this; cases this
  · intro t th hth hsl htd hf
    have hlt := Store.lt_length_of_get hth
    generalize (Store.sys Store.Skel.expected fault todo).run sched = S at hth hf hlt ⊢
    have hstep : Store.step Store.Skel.expected fault S t =
        { S with attempts := S.attempts + 1, locals := S.locals ++ [{ owner := t, built := true, cons := true }], count := S.count + 1,
                 ths := S.ths.set t (Store.Th.ret { th with calls := th.calls + 1, firsts := th.firsts + 1, slot := some S.locals.length } (.elem S.locals.length false)) } := by
      simp only [Store.step, hth, htd, if_false, hsl, hf, Store.Skel.expected]
    rw [hstep]
    refine ⟨Store.Th.ret { th with calls := th.calls + 1, firsts := th.firsts + 1, slot := some S.locals.length } (.elem S.locals.length false), ?_, ?_, ?_, rfl⟩
    · simp [hlt]
    · simp [Store.Th.ret]
    · simp [Store.Th.ret]
  · intro e he
    simp only [Store.destroyed, List.mem_filter, Bool.and_eq_true] at he
    obtain ⟨hm, _, hb⟩ := he
    obtain ⟨i, hi⟩ := List.getElem?_of_mem hm
    exact (h.elB i e hi hb).1

/-- **The rest of the failure clause is FALSE for the code as it is** ("the container's iteration does not visit a dead
object"): the element appended by `grow_by(1)` for a `create_local` whose initialiser threw stays in `my_locals` for ever,
allocated, never constructed, never marked built; if no allocation failure precedes it, it is inside what `size()`, the
iterators, `range()`, `combine_each` and `combine` walk (`visible`), at the index of that call.  (Replayed on the real
container by harness/c19/store.cpp and with real threads by harness/c19/real.cpp: finding `ets-throwing-initialiser`.) -/
theorem ets_failed_element_stays_visible (fault : Nat → Store.Fault) (todo : List Nat) (sched : List Tid) (s : Store.St)
    (hs : s = (Store.sys storeSkel fault todo).run sched) (t : Nat) (th : Store.Th) (a : Nat)
    (hth : s.ths[t]? = some th) (he : Store.Ret.exc a ∈ th.rets) (hf : fault a = .initThrows)
    (hno : ∀ j, j < a → fault j ≠ .allocThrows) :
    ∃ el, (Store.visible s)[a]? = some el ∧ el.owner = t ∧ el.alloc = true ∧ el.built = false ∧ el.cons = false ∧
      el ∉ Store.destroyed s := by
  subst hs
  rw [ets_store_skeleton_generated] at hth ⊢
  have h := Store.inv_reachable fault todo sched
  obtain ⟨_, hlt, hel⟩ := h.rExc t th a hth he
  obtain ⟨el, hel'⟩ : ∃ el, ((Store.sys Store.Skel.expected fault todo).run sched).locals[a]? = some el := ⟨_, List.getElem?_eq_getElem hlt⟩
  obtain ⟨ho, ha, hb, hc⟩ := hel el hel'
  have hall : ∀ j e, j ≤ a → ((Store.sys Store.Skel.expected fault todo).run sched).locals[j]? = some e → e.alloc = true := by
    intro j e hj hje
    cases hbj : e.built with
    | true => exact (h.elB j e hje hbj).2.1
    | false =>
      have hu := h.elU j e hje hbj
      rcases Nat.lt_or_eq_of_le hj with hlt' | heq
      · have := hno j hlt'
        cases hfj : fault j with
        | none => exact absurd hfj hu.1
        | initThrows => exact hu.2.2 hfj
        | allocThrows => exact absurd hfj this
      · subst heq; exact hu.2.2 hf
  refine ⟨el, ?_, ho, ha.2 hf, hb, hc, ?_⟩
  · exact Store.takeWhile_get _ a el hel' hall
  · intro hm
    simp only [Store.destroyed, List.mem_filter, Bool.and_eq_true] at hm
    rw [hb] at hm; exact absurd hm.2.2 (by simp)

/-- **What remains true of iteration: exact when no `create_local` has failed** (`…_partial`: the full clause "iteration never
visits a dead object" is refuted above).  If the oracle never faults, every element of `my_locals` is allocated, constructed
and built, everything is visible, and no thread owns two elements. -/
theorem ets_iteration_exact_partial (fault : Nat → Store.Fault) (hnf : ∀ a, fault a = .none) (todo : List Nat) (sched : List Tid)
    (s : Store.St) (hs : s = (Store.sys storeSkel fault todo).run sched) :
    (∀ (i : Nat) (e : Store.Elem), s.locals[i]? = some e → e.alloc = true ∧ e.built = true ∧ e.cons = true) ∧
    Store.visible s = s.locals := by
  subst hs
  rw [ets_store_skeleton_generated]
  have h := Store.inv_reachable fault todo sched
  have key : ∀ (i : Nat) (e : Store.Elem), ((Store.sys Store.Skel.expected fault todo).run sched).locals[i]? = some e →
      e.alloc = true ∧ e.built = true ∧ e.cons = true := by
    intro i e hi
    cases hb : e.built with
    | true => exact ⟨(h.elB i e hi hb).2.1, rfl, (h.elB i e hi hb).1⟩
    | false => exact absurd (hnf i) (h.elU i e hi hb).1
  refine ⟨key, ?_⟩
  simp only [Store.visible]
  apply Store.takeWhile_all
  intro e hm
  obtain ⟨i, hi⟩ := List.getElem?_of_mem hm
  exact (key i e hi).1

/-- **Element addresses are stable across growth of `my_locals`, and concurrent `create_local` calls get distinct elements**
(instance of C11's theorems for the growers of `my_locals`: every `create_local` is one `grow_by(1)`).  Whatever the threads
and the interleaving of their accesses to the vector's size word: the index ranges handed out are pairwise disjoint, and an
element constructed at (allocation, offset) is found there in every later state, whatever segments are added and whether or
not the segment table is switched.  (Stability across growth of the hash table: `ets_growth_preserves`.) -/
theorem ets_element_address_stable (creates : List Nat) (sched ext : List Tid) (i al off : Nat) :
    let progs := creates.map (fun n => List.replicate n (C11.Op.growBy 1))
    ((C11.sys progs).run sched).log.Pairwise (fun r s => r.2 ≤ s.1) ∧
    ((i, al, off) ∈ ((C11.Seg.sys progs).run sched).sh.cons →
      (i, al, off) ∈ ((C11.Seg.sys progs).runFrom ((C11.Seg.sys progs).run sched) ext).sh.cons) := by
  intro progs
  exact ⟨C11.grow_ranges_disjoint progs sched, fun hc => (C11.element_address_stable progs sched ext i al off hc).1⟩

/-- non-vacuity: three threads; thread 1's first initialiser throws (attempt 1), its second call succeeds; `size()` is 4,
the element at index 1 is visible and never constructed, three destructors will run, thread 1 made two initialiser calls -/
example :
    let s := (Store.sys storeSkel (fun a => if a = 1 then .initThrows else .none) [2, 2, 2]).run [0, 0, 1, 1, 2, 2]
    (Store.visible s).map (fun e => (e.owner, e.built)) = [(0, true), (1, false), (1, true), (2, true)] ∧
    s.ths.map (·.rets) = [[.elem 0 true, .elem 0 false], [.elem 2 false, .exc 1], [.elem 3 true, .elem 3 false]] ∧
    s.ths.map (·.calls) = [1, 2, 1] ∧ (Store.destroyed s).length = 3 ∧ s.count = 3 := by decide

/-- an allocation failure of `my_locals` hides LATER elements from `size()` / iteration: threads 1 and 2 have elements, `size()` is 1 -/
example :
    let s := (Store.sys storeSkel (fun a => if a = 1 then .allocThrows else .none) [1, 2, 1]).run [0, 1, 1, 2]
    (Store.visible s).length = 1 ∧ s.locals.length = 4 ∧ s.ths.map (·.slot) = [some 0, some 2, some 3] := by decide

/-- the skeleton matters: marking the element built before the initialiser ran makes `clear()` destroy a never-constructed
object; publishing the slot before `create_local` finished hands the dead element out with `exists = true` -/
example :
    let s1 := (Store.sys { Store.Skel.expected with commitAfterConstruct := false } (fun a => if a = 0 then .initThrows else .none) [1]).run [0]
    let s2 := (Store.sys { Store.Skel.expected with claimAfterCreate := false } (fun a => if a = 0 then .initThrows else .none) [2]).run [0, 0]
    (Store.destroyed s1).map (·.cons) = [false] ∧ s2.ths.map (·.rets) = [[.elem 0 true, .exc 0]] ∧ s2.locals.map (·.built) = [false] := by decide

/-! ### enumerable_thread_specific / combinable across the container's lifecycle, for every key kind

`Life` (Model/C19Life.lean) is the operation-level model: `local()` by any thread — through the per-thread cache of the
native TLS key for `ets_key_per_instance`, through the table for `ets_no_key` / `combinable` —, `clear()`, and
destruction + re-construction at the same address.  `clear()`, constructor and destructor are the SEQUENCES of primitive
actions (`destroy_key`, `create_key`, `set_tls(nullptr)`, `super::table_clear()`, `my_locals.clear()`) read from the
source text of the header on every run (`Generated.C19.life*`). -/

/-- the lifecycle functions as regenerated from enumerable_thread_specific.h / combinable.h -/
def lifeCfg : Life.Cfg :=
  Life.Cfg.ofCodes Generated.C19.lifeClearKey Generated.C19.lifeClearNo Generated.C19.lifeCtorKey Generated.C19.lifeCtorNo
    Generated.C19.lifeDtorKey Generated.C19.lifeDtorNo Generated.C19.lifeTlsLookup Generated.C19.lifeSwapKey

/-- **Generated fact: what `clear()`, the constructor and the destructor do.**  `clear()` of an `ets_key_per_instance`
container is `my_locals.clear(); destroy_key(); create_key(); super::table_clear()` — it ends with a key that was
created after the old one was deleted, i.e. one for which EVERY thread's cached pointer is null ("clear invalidates all
caches"); for `ets_no_key` / `combinable` it is `my_locals.clear(); table_clear()`; the constructor creates the key, the
destructor clears the table, destroys `my_locals` and deletes the key; the per-instance `table_lookup` consults the TLS
slot first and fills it after a miss; `internal_swap` (same-type move construction, move assignment, swap) exchanges the
native TLS key together with the table and `my_locals` (`lifeSwapKey`).  Any other sequence (e.g. `set_tls(nullptr)` instead of the key pair, a missing
`destroy_key()`, a missing `super::table_clear()`) makes this theorem — the hypothesis of the lifecycle theorem — false. -/
theorem ets_lifecycle_generated : lifeCfg = Life.Cfg.expected := by decide

/-- **One element per thread across the container's lifecycle, for every key kind.**  After ANY sequence of `local()`,
`clear()`, destroy-and-re-create and move-assign-a-fresh-container operations by ANY threads, on a container of either kind, with the lifecycle
functions as regenerated from the header:
(1) nothing illegal happened (no use of a deleted key, no double delete);
(2) every `local()` ever returned an element that was alive, in the container, created by the calling thread in the
    generation current at the time of the call (`own`, `pgen = cur`), by exactly one initialiser call of that thread in
    that generation, with a truthful `exists` flag (`exists` ⇔ the thread had already accessed the container since the
    last clear);
(3) two `local()` calls of different threads in the same generation never returned the same address;
(4) `my_locals` (what `size()`, iteration, `combine_each` see) holds exactly one element for every thread that has
    accessed the container since the last clear and nothing else, and every such thread's calls returned its position;
(5) the container owns exactly one native TLS key (`ets_key_per_instance`; none is leaked) or none (`ets_no_key`);
(6) every pointer a thread can still reach through the container's live TLS key designates its own element of the
    CURRENT generation — no cached pointer survives a `clear()`. -/
theorem ets_one_element_per_thread_lifecycle (perInst : Bool) (ops : List Life.Op) (s : Life.St)
    (hs : s = Life.run lifeCfg perInst ops) :
    s.bad = false ∧
    (∀ r ∈ s.rets, r.own = true ∧ r.pgen = r.cur ∧ s.inits.count (r.tid, r.cur) = 1 ∧ r.ex = !r.fresh) ∧
    (∀ r ∈ s.rets, ∀ r' ∈ s.rets, r.cur = r'.cur → r.pos = r'.pos → r.tid = r'.tid) ∧
    (s.locals.Nodup ∧ (∀ t, t ∈ s.locals ↔ Life.accessed s t = true) ∧
      ∀ r ∈ s.rets, r.cur = s.gen → s.locals[r.pos]? = some r.tid) ∧
    ((s.perInst = true → ∃ k, s.key = some k ∧ s.live = [k]) ∧ (s.perInst = false → s.key = none ∧ s.live = [])) ∧
    (∀ t k g p, s.tls t k = some (g, p) → s.key = some k → g = s.gen ∧ s.locals[p]? = some t) := by
  subst hs
  rw [ets_lifecycle_generated]
  have h := Life.inv_run perInst ops
  refine ⟨h.nbad, fun r hr => ?_, h.share, ⟨h.nodup, fun t => ?_, fun r hr => (h.rets r hr).2.2.2.2.2⟩,
    ⟨fun hp => ?_, h.keyN⟩, fun t k g p hq hk => (h.tls t k g p hq).2 hk⟩
  · obtain ⟨_, b, c, d, e, _⟩ := h.rets r hr
    exact ⟨c, b, e, d⟩
  · rw [Life.accessed_iff]; exact h.acc t
  · obtain ⟨k, a, b, _⟩ := h.keyK hp
    exact ⟨k, a, b⟩

/-- non-vacuity: an `ets_key_per_instance` container; thread 0 accesses twice, thread 1 clears, thread 0 (which outlived
the clear) and a new thread 2 access, the container is re-created, thread 0 accesses again: every call returns the
caller's own element of the current generation, `exists` is true exactly for the repeated access, positions are
re-used across generations (same addresses), the key is replaced by a fresh one each time. -/
example :
    let s := Life.run lifeCfg true [.loc 0, .loc 0, .clear 1, .loc 0, .loc 2, .recreate 2, .loc 0]
    s.rets.reverse.map (fun r => (r.tid, r.cur, r.pgen, r.pos, r.ex, r.own)) =
      [(0, 0, 0, 0, false, true), (0, 0, 0, 0, true, true), (0, 1, 1, 0, false, true), (2, 1, 1, 1, false, true), (0, 2, 2, 0, false, true)] ∧
    s.locals = [0] ∧ s.gen = 2 ∧ s.key = some 3 ∧ s.live = [3] ∧ s.bad = false := by decide

/-- the hypothesis `ets_lifecycle_generated` cannot be dropped: with `set_tls(nullptr)` in place of
`destroy_key(); create_key()` in `clear()` (only the CALLING thread's cache is reset) thread 0's next `local()` returns,
with `exists = true` and without an initialiser call, the address of its destroyed element of the previous generation
(`own = false`), and the new thread 2 then gets the same address: two threads share one element while `my_locals` holds
a single element. -/
example :
    let bad : Life.Cfg := { Life.Cfg.expected with clearKey := [.localsClear, .setTlsNull, .superClear] }
    let s := Life.run bad true [.loc 0, .clear 1, .loc 0, .loc 2]
    s.rets.reverse.map (fun r => (r.tid, r.cur, r.pgen, r.pos, r.ex, r.own)) =
      [(0, 0, 0, 0, false, true), (0, 1, 0, 0, true, false), (2, 1, 1, 0, false, true)] ∧
    s.locals = [2] ∧ s.inits.count (0, 1) = 0 := by decide

/-- the key must travel with the table in `internal_swap`: if move assignment exchanged the table and `my_locals` but
NOT the native TLS key, a thread that used the container before `cont = std::move(fresh)` would afterwards get, with
`exists = true` and no initialiser call, the address of its old element, which died with the temporary (`own = false`),
and a new thread would be handed the same position. -/
example :
    let bad : Life.Cfg := { Life.Cfg.expected with swapKey := false }
    let s := Life.run bad true [.loc 0, .moveFresh 1, .loc 0, .loc 2]
    s.rets.reverse.map (fun r => (r.tid, r.cur, r.pgen, r.pos, r.ex, r.own)) =
      [(0, 0, 0, 0, false, true), (0, 1, 0, 0, true, false), (2, 1, 1, 0, false, true)] ∧
    s.locals = [2] ∧ s.inits.count (0, 1) = 0 := by decide

/-- … and with the key exchanged the same history is fine -/
example :
    let s := Life.run lifeCfg true [.loc 0, .moveFresh 1, .loc 0, .loc 2]
    s.rets.reverse.map (fun r => (r.tid, r.cur, r.pgen, r.pos, r.ex, r.own)) =
      [(0, 0, 0, 0, false, true), (0, 1, 1, 0, false, true), (2, 1, 1, 1, false, true)] ∧ s.bad = false := by decide

set_option maxRecDepth 4096 in
/-- non-vacuity: three threads with colliding hashes (all start at slot 0), thread 0 looks up twice; the table grows
from 4 to 8 slots; every thread ends with its own element; thread 0's second lookup finds its key in the OLD array
(behind thread 1's slot), returns the same element (`exists = true`) and re-inserts it into the new root. -/
example :
    let s := (Ets.sys HB L0 [(1, 2), (2, 1), (3, 1)]).run
      ([0,0,0,0,0,0] ++ [1,1,1,1,1,1,1,1] ++ [2,2,2,2,2,2,2,2,2,2] ++ [0,0,0,0,0,0,0,0,0,0,0,0,0,0,0,0])
    s.arrs.map (·.lg) = [2, 3] ∧ s.locals = [0, 1, 2] ∧ s.count = 3 ∧
    s.ths.map (·.rets) = [[(1, true), (1, false)], [(2, false)], [(3, false)]] ∧
    s.ths.map (·.pc) = [.idle, .idle, .idle] ∧ s.arrs.map (·.keys) = [[2, 1, 0, 0], [3, 1, 0, 0, 0, 0, 0, 0]] := by decide

end TbbVerif.C19
