/-
C03 — property theorems (statements only; lemmas in Proofs/C03/*.lean).

DispatchEH theorems quantify over EVERY program (`prog`: task scripts — run / throw exception e / submit children /
throwing or non-throwing join callback; scripts are templates, so programs may create unboundedly many tasks),
EVERY list of rounds (root tasks submitted before each wait of the same group), ANY number of dispatching threads
(thread states are a function `Tid → Pc`; thread 0 calls the waiting function) and EVERY schedule `sched : List Act`
(thread steps with an arbitrary choice of the task an idle thread takes, and cancellations by somebody else).
ReduceEH theorems quantify over every tree shape and every schedule of fold steps and cancellations.
-/
import TbbVerif.Proofs.C03.Counters
import TbbVerif.Proofs.C03.Reduce
import TbbVerif.Generated.C03

namespace TbbVerif.C03

/-- The memory orders the model's "store the exception, then release the task; leave the wait, then load the exception"
argument relies on are the ones the code executes now (regenerated from an E-SHIM trace on every run):
`my_exception.store` is release (or stronger) and the waiter's load is acquire (or stronger).
Encoding: 0 relaxed, 1 consume, 2 acquire, 3 release, 4 acq_rel, 5 seq_cst. -/
theorem exception_publication_orders :
    (Generated.C03.excStoreOrder = 3 ∨ Generated.C03.excStoreOrder = 4 ∨ Generated.C03.excStoreOrder = 5) ∧
    (Generated.C03.excLoadOrder = 2 ∨ Generated.C03.excLoadOrder = 4 ∨ Generated.C03.excLoadOrder = 5) := by decide

/-- **One exception per context epoch.**  In every reachable state: `my_exception` was stored at most once in the
current epoch; a stored exception is one that a task of this context threw in this epoch, and somebody won the
exchange; a thread that is about to store is THE exchange winner and nothing has been stored yet (so: stored only by
the winner, at most once); the flag is set iff somebody won the exchange or somebody else cancelled; and every
completed epoch stored at most once and rethrew only an exception thrown in that epoch. -/
theorem eh_single_exception (prog : Prog) (rounds : List (List Nat)) (sched : List Act)
    (s : State) (hs : s = run prog rounds sched) :
    s.stores ≤ 1 ∧
    (∀ e, s.exc = some e → e ∈ s.thrown ∧ s.winner.isSome ∧ s.stores = 1) ∧
    (∀ t i e, s.pcs t = .store i e → s.winner = some t ∧ s.exc = none ∧ s.stores = 0 ∧ e ∈ s.thrown) ∧
    (s.cancelled = (s.winner.isSome || s.extC)) ∧
    (∀ r ∈ s.results, r.stores ≤ 1 ∧ ∀ e, r.res = .rethrown e → e ∈ r.thrown) := by
  subst hs
  have hI := inv_run prog rounds sched
  refine ⟨?_, ?_, ?_, hI.canc, ?_⟩
  · rw [hI.sto]; split <;> omega
  · intro e he
    have := hI.excm e he
    exact ⟨this.1, this.2, by rw [hI.sto, he]; rfl⟩
  · intro t i e ht
    have := hI.th t
    simp only [ThOK, ht] at this
    exact ⟨this.2.2.1, this.2.2.2, by rw [hI.sto, this.2.2.2]; rfl, this.2.1⟩
  · intro r hr
    exact ⟨(hI.res r hr).stores_le, (hI.res r hr).rethrown_mem⟩

/-
Full statement (FALSE for the code that exists — see `eh_join_throw_finalised_twice`):
  theorem eh_every_task_finalised_once (prog rounds sched) : ∀ tk ∈ (run prog rounds sched).tasks, tk.fins ≤ 1 ∧ …
A join callback that throws (`reduction_tree_node::join` run by `fold_tree` from inside `finalize()`, after the task
object was destroyed) propagates out of `execute()`/`cancel()`; the dispatch loop then runs `cancel()` on the same,
already destroyed task: it is finalised twice.  The real library does exactly this (replay in the check).
-/
/-- **Every task is finalised exactly once** (programs whose join callbacks do not throw): a task is executed at
most once, destroyed at most once, its wait reference released at most once and only after it was destroyed; a task
is finished iff its reference was released, and then it was destroyed exactly once; a task nobody has taken yet is
untouched; the wait counter equals the number of unfinished tasks. -/
theorem eh_every_task_finalised_once_partial (prog : Prog) (rounds : List (List Nat)) (sched : List Act)
    (hjoin : ∀ sp ∈ prog, sp.join = .ok) (s : State) (hs : s = run prog rounds sched) :
    (∀ tk ∈ s.tasks, tk.execs ≤ 1 ∧ tk.fins ≤ 1 ∧ tk.rels ≤ tk.fins ∧
      (tk.st = .done ↔ tk.rels = 1) ∧ (tk.st = .done → tk.fins = 1) ∧ (tk.st = .ready → tk.execs = 0 ∧ tk.fins = 0)) ∧
    s.count = s.tasks.countP (fun tk => tk.st != .done) := by
  subst hs
  have hI := inv_run prog rounds sched
  have hC := (invCS_run prog rounds hjoin sched).c
  refine ⟨?_, hI.cnt⟩
  intro tk htk
  obtain ⟨i, hi⟩ := List.getElem?_of_mem htk
  cases hst : tk.st with
  | ready =>
    have := hC.ready i tk hi hst
    simp [this.1, this.2.1, this.2.2]
  | done =>
    have := hC.done i tk hi hst
    simp [this.1, this.2.1, this.2.2]
  | held t =>
    have hp := hC.owner i tk t hi hst
    have hk := (hC.held t i tk hp hi).1
    cases hpc : (run prog rounds sched).pcs t <;> rw [hpc] at hk hp <;> simp [Pc.task] at hp <;> simp only [PcOK] at hk <;>
      (try rcases hk with ⟨h1, h2, h3 | h3⟩) <;> simp_all <;> omega

/-- **Negation witness for the full statement**: with a throwing join callback the model (like the library) destroys
the task twice.  Program: one task whose join throws 7; one thread runs it. -/
theorem eh_join_throw_finalised_twice :
    ∃ (prog : Prog) (rounds : List (List Nat)) (sched : List Act), ∃ tk ∈ (run prog rounds sched).tasks, tk.fins = 2 := by
  refine ⟨[{ kids := [], body := .ok, join := .throw 7 }], [[0]], (List.replicate 14 (Act.thr 0 0)), ?_⟩
  decide

/-- **The waiting call returns or rethrows only after quiescence.**  Whenever the waiter has left the dispatch loop
(it is about to load the exception, or about to return / rethrow), the wait counter is 0, every task ever submitted to
the group is finished, and no thread holds a task — no body of the group is running and none can start.  And a step
lets an exception out only from that state. -/
theorem eh_rethrow_after_quiescence (prog : Prog) (rounds : List (List Nat)) (sched : List Act)
    (s : State) (hs : s = run prog rounds sched) :
    ((s.pcs 0 = .wexit ∨ ∃ oe, s.pcs 0 = .wreset oe) →
      s.count = 0 ∧ (∀ tk ∈ s.tasks, tk.st = .done) ∧ (∀ t, t ≠ 0 → s.pcs t = .idle)) ∧
    (∀ a e, (step s a).2 = some e → (∃ c, a = .thr 0 c) ∧ s.pcs 0 = .wreset (some e) ∧ s.exc = some e) := by
  subst hs
  have hI := inv_run prog rounds sched
  constructor
  · intro hw
    have h0 : (run prog rounds sched).count = 0 := by
      have := hI.th 0
      rcases hw with hw | ⟨oe, hw⟩ <;> simp only [ThOK, hw] at this
      · exact this.2
      · exact this.2.1
    refine ⟨h0, ?_, fun t ht => idle_of_count_zero hI h0 t ht⟩
    intro tk htk
    have hc := hI.cnt
    rw [h0] at hc
    have := (List.countP_eq_zero.mp hc.symm) tk htk
    simpa [notDone] using this
  · intro a e he
    cases a with
    | extCancel => simp only [step] at he; split at he <;> cases he
    | thr t c =>
      simp only [step] at he
      rw [stepThr_snd] at he
      cases hp : (run prog rounds sched).pcs t <;> rw [hp] at he <;> simp only at he <;> try cases he
      have hth := hI.th t
      simp only [ThOK, hp] at hth
      obtain ⟨ht0, _, hoe⟩ := hth
      subst ht0
      exact ⟨⟨c, rfl⟩, hp, hoe.symm⟩

/-- **No exception is swallowed.**  For every completed wait: if some task of the group threw in that epoch and
nobody else had cancelled the context, the waiting call rethrew one of the thrown exceptions; whatever it rethrew
was thrown by the group in that epoch; and if nothing threw and nobody cancelled it reported `complete`. -/
theorem eh_no_swallow (prog : Prog) (rounds : List (List Nat)) (sched : List Act) :
    ∀ r ∈ (run prog rounds sched).results,
      (r.thrown ≠ [] → r.extC = false → ∃ e, e ∈ r.thrown ∧ r.res = .rethrown e) ∧
      (∀ e, r.res = .rethrown e → e ∈ r.thrown) ∧
      (r.thrown = [] → r.extC = false → r.res = .complete) := by
  intro r hr
  have h := (inv_run prog rounds sched).res r hr
  exact ⟨h.no_swallow, h.rethrown_mem, h.complete⟩

/-- **Workers catch everything.**  In every reachable state, no step of a thread other than the waiter lets an
exception out of its dispatch loop (every throw of a body or of a join callback lands in the catch block); along any
schedule nothing ever escapes on a worker. -/
theorem eh_worker_total_catch (prog : Prog) (rounds : List (List Nat)) (sched : List Act) (t : Tid) (c : Nat) (ht : t ≠ 0) :
    (step (run prog rounds sched) (.thr t c)).2 = none := by
  have hI := inv_run prog rounds sched
  simp only [step]
  rw [stepThr_snd]
  cases hp : (run prog rounds sched).pcs t <;> simp only
  have := hI.th t
  simp only [ThOK, hp] at this
  exact absurd this.1 ht

theorem eh_worker_total_catch_run (prog : Prog) (rounds : List (List Nat)) (sched : List Act) :
    escapes (init prog rounds) sched = [] := by
  have key : ∀ (sched : List Act) (s : State), Inv s → escapes s sched = [] := by
    intro sched
    induction sched with
    | nil => intro s _; rfl
    | cons a as ih =>
      intro s hI
      have hrest := ih _ (inv_step hI a)
      simp only [escapes]
      cases a with
      | extCancel => simpa using hrest
      | thr t c =>
        cases he : (step s (.thr t c)).2 with
        | none => simpa [he] using hrest
        | some e =>
          by_cases ht : t = 0
          · subst ht; simpa [he] using hrest
          · exfalso
            simp only [step] at he
            rw [stepThr_snd] at he
            cases hp : s.pcs t <;> rw [hp] at he <;> simp only at he <;> try cases he
            have := hI.th t
            simp only [ThOK, hp] at this
            exact ht this.1
  exact key sched _ (inv_init prog rounds)

/-- **The group is reusable.**  The step in which the waiting call returns (or rethrows) leaves the context reset —
not cancelled, no stored exception, no pending winner — whatever happened in the epoch; and (by `eh_no_swallow`) a
later epoch in which nothing throws and nobody cancels reports `complete`. -/
theorem eh_group_reusable (prog : Prog) (rounds : List (List Nat)) (sched : List Act) (s : State)
    (hs : s = run prog rounds sched) (oe : Option ExcId) (hw : s.pcs 0 = .wreset oe) (c : Nat) :
    let s' := (step s (.thr 0 c)).1
    s'.cancelled = false ∧ s'.exc = none ∧ s'.stores = 0 ∧ s'.winner = none ∧ s'.thrown = [] ∧ s'.epoch = s.epoch + 1 ∧
    s'.count = 0 ∧ (∀ tk ∈ s'.tasks, tk.st = .done) := by
  subst hs
  have hq := (eh_rethrow_after_quiescence prog rounds sched _ rfl).1 (Or.inr ⟨oe, hw⟩)
  simp only [step]
  unfold stepThr
  rw [hw]
  simp only
  refine ⟨by simp, by simp, by simp, by simp, by simp, by simp, ?_, ?_⟩
  · simpa using hq.1
  · simpa using hq.2.1

/-- **ReduceEH: every body the library created is destroyed exactly once.**  For every tree shape and every schedule
of task starts/finishes, reference-count decrements, join-and-delete steps and a cancellation at any moment: no tree
node is deleted twice, no zombie (right) body is destroyed twice or without its node, no join runs twice; the wait
context is released at most once; and once it is released (the call may return) every leaf task is folded, every
node was deleted exactly once, every zombie body destroyed exactly once, and — if the context was never cancelled —
every zombie was joined exactly once. -/
theorem reduce_bodies_destroyed_once (sh : Shape) (sched : List RAct) (s : RState) (hs : s = rrun sh sched) :
    s.tree.Safe ∧ s.released ≤ 1 ∧ s.waitRef + s.released = 1 ∧ (s.released = 1 → s.tree.Done s.cancelled) := by
  subst hs
  have h := rinv_run sh sched
  refine ⟨RT.Safe_of_InvR h.tree, ?_, h.wait, ?_⟩
  · rw [h.rel]; unfold b2n; split <;> omega
  · intro hr
    have : (rrun sh sched).tree.merged = true := by
      have := h.rel; rw [hr] at this
      cases hm : (rrun sh sched).tree.merged
      · rw [hm] at this; simp [b2n] at this
      · rfl
    exact RT.Done_of_merged h.tree this

/-- **ReduceEH: join is skipped on a cancelled tree.**  While the context is cancelled no step performs a join. -/
theorem reduce_no_join_when_cancelled (s : RState) (hc : s.cancelled = true) (a : RAct) :
    (rstep s a).tree.joins = s.tree.joins := by
  cases a with
  | op p o => simp only [rstep]; rw [hc]; exact RT.joins_opAt_cancelled p _ o
  | startTop => simp only [rstep]; split <;> simp_all [RT.joins]
  | finishTop => simp only [rstep]; split <;> simp_all [RT.joins]
  | decRoot => simp only [rstep]; split <;> simp [RT.setMerged_joins]
  | cancel => rfl

/-! ### non-vacuity: concrete runs of the executable models -/

/-- two threads, a root that submits two children, one of which throws 7: the wait rethrows 7 and the group is reset -/
example :
    let prog : Prog := [{ kids := [1, 2], body := .ok, join := .ok }, { kids := [], body := .throw 7, join := .ok }, { kids := [], body := .ok, join := .ok }]
    let s := run prog [[0]] ([.thr 0 0, .thr 0 0, .thr 0 0, .thr 0 0, .thr 0 0, .thr 0 0, .thr 1 1, .thr 1 1, .thr 1 1, .thr 1 0, .thr 1 0, .thr 1 0,
      .thr 1 0, .thr 1 0, .thr 1 0, .thr 1 0, .thr 0 0, .thr 0 0, .thr 0 0, .thr 0 0, .thr 0 2, .thr 0 2, .thr 0 2, .thr 0 2, .thr 0 2, .thr 0 0, .thr 0 0, .thr 0 0])
    s.results.map (·.res) = [.rethrown 7] ∧ s.cancelled = false ∧ s.exc = none ∧ s.tasks.map (fun tk => (tk.execs, tk.fins, tk.rels)) = [(1, 1, 1), (1, 1, 1), (0, 1, 1)] := by
  decide

/-- two throwers race: exactly one store, the other exception is dropped, the waiter rethrows the winner's -/
example :
    let prog : Prog := [{ kids := [], body := .throw 1, join := .ok }, { kids := [], body := .throw 2, join := .ok }]
    let s := run prog [[0, 1]] ([.thr 0 0, .thr 0 0, .thr 0 0, .thr 1 0, .thr 2 1, .thr 1 0, .thr 2 0, .thr 1 0, .thr 2 0, .thr 1 0, .thr 2 0, .thr 2 0, .thr 1 0,
      .thr 1 0, .thr 2 0, .thr 1 0, .thr 2 0, .thr 1 0, .thr 2 0, .thr 1 0, .thr 2 0, .thr 1 0, .thr 2 0, .thr 0 0, .thr 0 0, .thr 0 0])
    s.results = [{ res := .rethrown 2, thrown := [2, 1], extC := false, stores := 1 }] := by
  decide

/-- ReduceEH: a two-leaf tree, right child stolen (zombie), cancelled before the fold: no join, zombie destroyed once -/
example :
    let s := rrun (.node .leaf .leaf) [.op [] (.start false false), .op [] (.start true true), .cancel, .op [] (.finish true), .op [] (.dec true),
      .op [] (.finish false), .op [] (.dec false), .op [] .joinDel, .decRoot]
    s.tree.totals = (1, 1, 0, 1, 1) ∧ s.released = 1 ∧ s.waitRef = 0 := by
  decide

example :
    let s := rrun (.node .leaf .leaf) [.op [] (.start false false), .op [] (.start true true), .op [] (.finish true), .op [] (.dec true),
      .op [] (.finish false), .op [] (.dec false), .op [] .joinDel, .decRoot]
    s.tree.totals = (1, 1, 1, 1, 1) ∧ s.released = 1 := by
  decide

end TbbVerif.C03
