/-
C03 — property theorems (statements only; lemmas in Proofs/C03/*.lean).

DispatchEH theorems quantify over EVERY program (`prog`: task scripts — run / throw exception e / submit children /
throwing or non-throwing join callback; scripts are templates, so programs may create unboundedly many tasks),
EVERY list of rounds (root tasks submitted before each wait of the same group), ANY number of dispatching threads
(thread states are a function `Tid → Pc`; thread 0 calls the waiting function) and EVERY schedule `sched : List Act`
(thread steps with an arbitrary choice of the task an idle thread takes, and cancellations by somebody else).
ReduceEH theorems quantify over every tree shape and every schedule of fold steps and cancellations.
-/
import TbbVerif.Proofs.C03.Counters
import TbbVerif.Proofs.C03.Reduce
import TbbVerif.Proofs.C03.Drop
import TbbVerif.Proofs.C03.ExecMain
import TbbVerif.Proofs.C03.GraphMain
import TbbVerif.Proofs.C03.PipeMain
import TbbVerif.Generated.C03

namespace TbbVerif.C03

/-- The memory orders the model's "store the exception, then release the task; leave the wait, then load the exception"
argument relies on are the ones the code executes now (regenerated from an E-SHIM trace on every run):
`my_exception.store` is release (or stronger) and the waiter's load is acquire (or stronger).
Encoding: 0 relaxed, 1 consume, 2 acquire, 3 release, 4 acq_rel, 5 seq_cst. -/
theorem exception_publication_orders :
    (Generated.C03.excStoreOrder = 3 ∨ Generated.C03.excStoreOrder = 4 ∨ Generated.C03.excStoreOrder = 5) ∧
    (Generated.C03.excLoadOrder = 2 ∨ Generated.C03.excLoadOrder = 4 ∨ Generated.C03.excLoadOrder = 5) := by decide

/-- **One exception per context epoch.**  In every reachable state: `my_exception` was stored at most once in the
current epoch; a stored exception is one that a task of this context threw in this epoch, and somebody won the
exchange; a thread that is about to store is THE exchange winner and nothing has been stored yet (so: stored only by
the winner, at most once); the flag is set iff somebody won the exchange or somebody else cancelled; and every
completed epoch stored at most once and rethrew only an exception thrown in that epoch. -/
theorem eh_single_exception (prog : Prog) (rounds : List (List Nat)) (sched : List Act)
    (s : State) (hs : s = run prog rounds sched) :
    s.stores ≤ 1 ∧
    (∀ e, s.exc = some e → e ∈ s.thrown ∧ s.winner.isSome ∧ s.stores = 1) ∧
    (∀ t i e, s.pcs t = .store i e → s.winner = some t ∧ s.exc = none ∧ s.stores = 0 ∧ e ∈ s.thrown) ∧
    (s.cancelled = (s.winner.isSome || s.extC)) ∧
    (∀ r ∈ s.results, r.stores ≤ 1 ∧ ∀ e, r.res = .rethrown e → e ∈ r.thrown) := by
  subst hs
  have hI := inv_run prog rounds sched
  refine ⟨?_, ?_, ?_, hI.canc, ?_⟩
  · rw [hI.sto]; split <;> omega
  · intro e he
    have := hI.excm e he
    exact ⟨this.1, this.2, by rw [hI.sto, he]; rfl⟩
  · intro t i e ht
    have := hI.th t
    simp only [ThOK, ht] at this
    exact ⟨this.2.2.1, this.2.2.2, by rw [hI.sto, this.2.2.2]; rfl, this.2.1⟩
  · intro r hr
    exact ⟨(hI.res r hr).stores_le, (hI.res r hr).rethrown_mem⟩

/-
Full statement (FALSE for the code that exists — see `eh_join_throw_finalised_twice`):
  theorem eh_every_task_finalised_once (prog rounds sched) : ∀ tk ∈ (run prog rounds sched).tasks, tk.fins ≤ 1 ∧ …
A join callback that throws (`reduction_tree_node::join` run by `fold_tree` from inside `finalize()`, after the task
object was destroyed) propagates out of `execute()`/`cancel()`; the dispatch loop then runs `cancel()` on the same,
already destroyed task: it is finalised twice.  The real library does exactly this (replay in the check).
-/
/-- **Every task is finalised exactly once** (programs whose join callbacks do not throw): a task is executed at
most once, destroyed at most once, its wait reference released at most once and only after it was destroyed; a task
is finished iff its reference was released, and then it was destroyed exactly once; a task nobody has taken yet is
untouched; the wait counter equals the number of unfinished tasks. -/
theorem eh_every_task_finalised_once_partial (prog : Prog) (rounds : List (List Nat)) (sched : List Act)
    (hjoin : ∀ sp ∈ prog, sp.join = .ok) (s : State) (hs : s = run prog rounds sched) :
    (∀ tk ∈ s.tasks, tk.execs ≤ 1 ∧ tk.fins ≤ 1 ∧ tk.rels ≤ tk.fins ∧
      (tk.st = .done ↔ tk.rels = 1) ∧ (tk.st = .done → tk.fins = 1) ∧ (tk.st = .ready → tk.execs = 0 ∧ tk.fins = 0)) ∧
    s.count = s.tasks.countP (fun tk => tk.st != .done) := by
  subst hs
  have hI := inv_run prog rounds sched
  have hC := (invCS_run prog rounds hjoin sched).c
  refine ⟨?_, hI.cnt⟩
  intro tk htk
  obtain ⟨i, hi⟩ := List.getElem?_of_mem htk
  cases hst : tk.st with
  | ready =>
    have := hC.ready i tk hi hst
    simp [this.1, this.2.1, this.2.2]
  | done =>
    have := hC.done i tk hi hst
    simp [this.1, this.2.1, this.2.2]
  | held t =>
    have hp := hC.owner i tk t hi hst
    have hk := (hC.held t i tk hp hi).1
    cases hpc : (run prog rounds sched).pcs t <;> rw [hpc] at hk hp <;> simp [Pc.task] at hp <;> simp only [PcOK] at hk <;>
      (try rcases hk with ⟨h1, h2, h3 | h3⟩) <;> simp_all <;> omega

/-- **Negation witness for the full statement**: with a throwing join callback the model (like the library) destroys
the task twice.  Program: one task whose join throws 7; one thread runs it. -/
theorem eh_join_throw_finalised_twice :
    ∃ (prog : Prog) (rounds : List (List Nat)) (sched : List Act), ∃ tk ∈ (run prog rounds sched).tasks, tk.fins = 2 := by
  refine ⟨[{ kids := [], body := .ok, join := .throw 7 }], [[0]], (List.replicate 14 (Act.thr 0 0)), ?_⟩
  decide

/-- **The waiting call returns or rethrows only after quiescence.**  Whenever the waiter has left the dispatch loop
(it is about to load the exception, or about to return / rethrow), the wait counter is 0, every task ever submitted to
the group is finished, and no thread holds a task — no body of the group is running and none can start.  And a step
lets an exception out only from that state. -/
theorem eh_rethrow_after_quiescence (prog : Prog) (rounds : List (List Nat)) (sched : List Act)
    (s : State) (hs : s = run prog rounds sched) :
    ((s.pcs 0 = .wexit ∨ ∃ oe, s.pcs 0 = .wreset oe) →
      s.count = 0 ∧ (∀ tk ∈ s.tasks, tk.st = .done) ∧ (∀ t, t ≠ 0 → s.pcs t = .idle)) ∧
    (∀ a e, (step s a).2 = some e → (∃ c, a = .thr 0 c) ∧ s.pcs 0 = .wreset (some e) ∧ s.exc = some e) := by
  subst hs
  have hI := inv_run prog rounds sched
  constructor
  · intro hw
    have h0 : (run prog rounds sched).count = 0 := by
      have := hI.th 0
      rcases hw with hw | ⟨oe, hw⟩ <;> simp only [ThOK, hw] at this
      · exact this.2
      · exact this.2.1
    refine ⟨h0, ?_, fun t ht => idle_of_count_zero hI h0 t ht⟩
    intro tk htk
    have hc := hI.cnt
    rw [h0] at hc
    have := (List.countP_eq_zero.mp hc.symm) tk htk
    simpa [notDone] using this
  · intro a e he
    cases a with
    | extCancel => simp only [step] at he; split at he <;> cases he
    | thr t c =>
      simp only [step] at he
      rw [stepThr_snd] at he
      cases hp : (run prog rounds sched).pcs t <;> rw [hp] at he <;> simp only at he <;> try cases he
      have hth := hI.th t
      simp only [ThOK, hp] at hth
      obtain ⟨ht0, _, hoe⟩ := hth
      subst ht0
      exact ⟨⟨c, rfl⟩, hp, hoe.symm⟩

/-- **No exception is swallowed.**  For every completed wait: if some task of the group threw in that epoch and
nobody else had cancelled the context, the waiting call rethrew one of the thrown exceptions; whatever it rethrew
was thrown by the group in that epoch; and if nothing threw and nobody cancelled it reported `complete`. -/
theorem eh_no_swallow (prog : Prog) (rounds : List (List Nat)) (sched : List Act) :
    ∀ r ∈ (run prog rounds sched).results,
      (r.thrown ≠ [] → r.extC = false → ∃ e, e ∈ r.thrown ∧ r.res = .rethrown e) ∧
      (∀ e, r.res = .rethrown e → e ∈ r.thrown) ∧
      (r.thrown = [] → r.extC = false → r.res = .complete) := by
  intro r hr
  have h := (inv_run prog rounds sched).res r hr
  exact ⟨h.no_swallow, h.rethrown_mem, h.complete⟩

/-- **Workers catch everything.**  In every reachable state, no step of a thread other than the waiter lets an
exception out of its dispatch loop (every throw of a body or of a join callback lands in the catch block); along any
schedule nothing ever escapes on a worker. -/
theorem eh_worker_total_catch (prog : Prog) (rounds : List (List Nat)) (sched : List Act) (t : Tid) (c : Nat) (ht : t ≠ 0) :
    (step (run prog rounds sched) (.thr t c)).2 = none := by
  have hI := inv_run prog rounds sched
  simp only [step]
  rw [stepThr_snd]
  cases hp : (run prog rounds sched).pcs t <;> simp only
  have := hI.th t
  simp only [ThOK, hp] at this
  exact absurd this.1 ht

theorem eh_worker_total_catch_run (prog : Prog) (rounds : List (List Nat)) (sched : List Act) :
    escapes (init prog rounds) sched = [] := by
  have key : ∀ (sched : List Act) (s : State), Inv s → escapes s sched = [] := by
    intro sched
    induction sched with
    | nil => intro s _; rfl
    | cons a as ih =>
      intro s hI
      have hrest := ih _ (inv_step hI a)
      simp only [escapes]
      cases a with
      | extCancel => simpa using hrest
      | thr t c =>
        cases he : (step s (.thr t c)).2 with
        | none => simpa [he] using hrest
        | some e =>
          by_cases ht : t = 0
          · subst ht; simpa [he] using hrest
          · exfalso
            simp only [step] at he
            rw [stepThr_snd] at he
            cases hp : s.pcs t <;> rw [hp] at he <;> simp only at he <;> try cases he
            have := hI.th t
            simp only [ThOK, hp] at this
            exact ht this.1
  exact key sched _ (inv_init prog rounds)

/-- **The group is reusable.**  The step in which the waiting call returns (or rethrows) leaves the context reset —
not cancelled, no stored exception, no pending winner — whatever happened in the epoch; and (by `eh_no_swallow`) a
later epoch in which nothing throws and nobody cancels reports `complete`. -/
theorem eh_group_reusable (prog : Prog) (rounds : List (List Nat)) (sched : List Act) (s : State)
    (hs : s = run prog rounds sched) (oe : Option ExcId) (hw : s.pcs 0 = .wreset oe) (c : Nat) :
    let s' := (step s (.thr 0 c)).1
    s'.cancelled = false ∧ s'.exc = none ∧ s'.stores = 0 ∧ s'.winner = none ∧ s'.thrown = [] ∧ s'.epoch = s.epoch + 1 ∧
    s'.count = 0 ∧ (∀ tk ∈ s'.tasks, tk.st = .done) := by
  subst hs
  have hq := (eh_rethrow_after_quiescence prog rounds sched _ rfl).1 (Or.inr ⟨oe, hw⟩)
  simp only [step]
  unfold stepThr
  rw [hw]
  simp only
  refine ⟨by simp, by simp, by simp, by simp, by simp, by simp, ?_, ?_⟩
  · simpa using hq.1
  · simpa using hq.2.1

/-- **ReduceEH: every body the library created is destroyed exactly once.**  For every tree shape and every schedule
of task starts/finishes, reference-count decrements, join-and-delete steps and a cancellation at any moment: no tree
node is deleted twice, no zombie (right) body is destroyed twice or without its node, no join runs twice; the wait
context is released at most once; and once it is released (the call may return) every leaf task is folded, every
node was deleted exactly once, every zombie body destroyed exactly once, and — if the context was never cancelled —
every zombie was joined exactly once. -/
theorem reduce_bodies_destroyed_once (sh : Shape) (sched : List RAct) (s : RState) (hs : s = rrun sh sched) :
    s.tree.Safe ∧ s.released ≤ 1 ∧ s.waitRef + s.released = 1 ∧ (s.released = 1 → s.tree.Done s.cancelled) := by
  subst hs
  have h := rinv_run sh sched
  refine ⟨RT.Safe_of_InvR h.tree, ?_, h.wait, ?_⟩
  · rw [h.rel]; unfold b2n; split <;> omega
  · intro hr
    have : (rrun sh sched).tree.merged = true := by
      have := h.rel; rw [hr] at this
      cases hm : (rrun sh sched).tree.merged
      · rw [hm] at this; simp [b2n] at this
      · rfl
    exact RT.Done_of_merged h.tree this

/-- **ReduceEH: join is skipped on a cancelled tree.**  While the context is cancelled no step performs a join. -/
theorem reduce_no_join_when_cancelled (s : RState) (hc : s.cancelled = true) (a : RAct) :
    (rstep s a).tree.joins = s.tree.joins := by
  cases a with
  | op p o => simp only [rstep]; rw [hc]; exact RT.joins_opAt_cancelled p _ o
  | startTop => simp only [rstep]; split <;> simp_all [RT.joins]
  | finishTop => simp only [rstep]; split <;> simp_all [RT.joins]
  | decRoot => simp only [rstep]; split <;> simp [RT.setMerged_joins]
  | cancel => rfl

/-! ## Strengthened `eh_no_swallow`: exactly when an exception is dropped -/

/-- **An exception is dropped only in the catch block, and only when the flag is already held.**  A thread in the catch block
(`caught`: the relaxed load of `cancel_group_execution`, `xchg`: the exchange) either goes on towards storing its exception, or it
returns to the dispatch loop WITHOUT storing — and then the context was already cancelled at that access: by the thrower that won the
exchange (a second exception in the same group: the group delivers the winner's) or by somebody else (an explicit cancellation: the
documented case in which the wait reports `canceled`).  There is no other transition in which an exception disappears: every throw of a
body or of a join callback enters the catch block (`eh_worker_total_catch`). -/
theorem eh_drop_only_when_flag_held (prog : Prog) (rounds : List (List Nat)) (sched : List Act) (s : State)
    (hs : s = run prog rounds sched) (t : Tid) (i : Nat) (e : ExcId) (c : Nat) (h : s.pcs t = .caught i e ∨ s.pcs t = .xchg i e) :
    let s' := (stepThr s t c).1
    (s'.pcs t = .xchg i e ∨ (s'.pcs t = .store i e ∧ s'.winner = some t)) ∨
    (s'.pcs t = .check i ∧ s.cancelled = true ∧ (s.winner.isSome = true ∨ s.extC = true) ∧ s'.exc = s.exc) := by
  subst hs
  have hI := inv_run prog rounds sched
  have hcanc := hI.canc
  unfold stepThr
  rcases h with h | h <;> rw [h] <;> simp only
  · by_cases hc : (run prog rounds sched).cancelled = true
    · rw [if_pos hc]; right
      rw [hc] at hcanc
      refine ⟨by simp, hc, ?_, by simp⟩
      cases hw : (run prog rounds sched).winner <;> simp_all
    · rw [if_neg hc]; left; left; simp
  · by_cases hc : (run prog rounds sched).cancelled = true
    · rw [if_pos hc]; right
      rw [hc] at hcanc
      refine ⟨by simp, hc, ?_, by simp⟩
      cases hw : (run prog rounds sched).winner <;> simp_all
    · rw [if_neg hc]; left; right; simp

/-- **No exception is swallowed — exact form.**  For every completed wait of the group: the waiting call rethrew an exception IF AND
ONLY IF some work of the group threw in that epoch and the cancellation flag was not taken by somebody else first; what it rethrew was
thrown by the group in that epoch; exactly one exception object was stored in that case and none otherwise; when somebody else held the
flag the call reported `canceled` (every exception of that epoch was dropped: the documented case); and it reported `complete` exactly
when nothing threw and nobody cancelled.  So of the `r.thrown.length` exceptions of an epoch exactly one is delivered when the group
itself raised the cancellation, and all the others — and only those — are dropped. -/
theorem eh_no_swallow_exact (prog : Prog) (rounds : List (List Nat)) (sched : List Act) :
    ∀ r ∈ (run prog rounds sched).results,
      ((∃ e, r.res = .rethrown e) ↔ (r.thrown ≠ [] ∧ r.extC = false)) ∧
      (∀ e, r.res = .rethrown e → e ∈ r.thrown) ∧
      ((∃ e, r.res = .rethrown e) ↔ r.stores = 1) ∧ r.stores ≤ 1 ∧
      (r.extC = true → r.res = .canceled) ∧
      (r.res = .complete ↔ (r.thrown = [] ∧ r.extC = false)) := by
  intro r hr
  have h := (inv_run prog rounds sched).res r hr
  have h2 := (inv2_run prog rounds sched).res2 r hr
  refine ⟨⟨?_, fun ⟨h1, h3⟩ => ?_⟩, h.rethrown_mem, h2.2, h.stores_le, fun hx => (h2.1 hx).1, ⟨fun hc => ?_, fun ⟨h1, h3⟩ => h.complete h1 h3⟩⟩
  · rintro ⟨e, he⟩
    refine ⟨fun hn => ?_, ?_⟩
    · have := h.rethrown_mem e he; rw [hn] at this; cases this
    · cases hx : r.extC with
      | false => rfl
      | true => have := (h2.1 hx).1; rw [he] at this; cases this
  · obtain ⟨e, _, he⟩ := h.no_swallow h1 h3; exact ⟨e, he⟩
  · have hx : r.extC = false := by
      cases hx : r.extC with
      | false => rfl
      | true => have := (h2.1 hx).1; rw [hc] at this; cases this
    refine ⟨?_, hx⟩
    cases ht : r.thrown with
    | nil => rfl
    | cons a l =>
      obtain ⟨e, _, he⟩ := h.no_swallow (by rw [ht]; simp) hx
      rw [hc] at he; cases he

/-! ## Clients of the exception machinery -/

/-- The skeleton of `task_arena_impl::execute`, `delegated_task` and of the dispatcher's catch block as the source has it NOW
(regenerated on every run): the rethrow is guarded by the loaded pointer only, the load comes after the wait loop, `dt` is the last
local (its destructor — the spin on `m_completed` — runs first), `finalize()` is release / notify / completed in this order, both
`execute()` and `cancel()` finalise, the exception is stored only by the winner of the exchange. -/
theorem exec_skeleton_ok : (Exec.skelOfNats Generated.C03.execSkel).ok = true := by decide

/-- **`task_arena::execute`: the functor's exception reaches the caller, exactly once, and nobody else.**  For every skeleton satisfying
`ok` (in particular the regenerated one), every functor behaviour, every schedule of caller / taker steps with ANY thread taking the
delegated task (another thread inside the arena, or the caller itself after it obtained a slot) and either path (direct call on the
caller's stack, or delegation):
(1) whatever leaves `execute` leaves it on thread 0 (the caller) and is the functor's own exception;
(2) the call exits exactly once — `outs.length + returned` is 1 after the exit and 0 before;
(3) when it has exited the functor ran exactly once and has ended, nobody holds the delegated task any more (not even inside
    `finalize()`), it is not queued; if the functor threw `e` exactly `(0, e)` left and the call did not return normally (no swallow),
    if it did not throw nothing left and it returned;
(4) while the functor is running the call has not exited;
(5) ledger: `delegated_task` is destroyed at most once and (delegated path) exactly once, only after `m_completed`; the runner never
    touches it after that; at most one exception object is allocated and it is freed exactly once (by `~exec_context`). -/
theorem execute_exception_to_caller (sk : Exec.Skel) (hk : sk.ok = true) (fn : Outcome) (acts : List Exec.Act) (s : Exec.State)
    (hs : s = Exec.run sk fn acts) :
    (∀ p ∈ s.outs, p.1 = 0 ∧ fn = .throw p.2) ∧
    (s.outs.length + s.returned = if s.cpc = .exited then 1 else 0) ∧
    (s.cpc = .exited → s.started = 1 ∧ s.ended = 1 ∧ s.rp = .none ∧ s.queued = false ∧
      (∀ e, fn = .throw e → s.outs = [(0, e)] ∧ s.returned = 0) ∧ (fn = .ok → s.outs = [] ∧ s.returned = 1)) ∧
    (s.ended < s.started → s.cpc ≠ .exited) ∧
    (s.dtDestroyed ≤ 1 ∧ s.excFreed ≤ s.excAlloc ∧ s.excAlloc ≤ 1 ∧ s.touchedDead = 0) ∧
    (s.cpc = .exited → s.dtDestroyed = (if s.deleg then 1 else 0) ∧ s.excFreed = s.excAlloc) := by
  have hfn : s.fn = fn := by rw [hs]; exact Exec.run_fn sk fn acts
  have hI : Exec.Inv s := by rw [hs]; exact Exec.inv_run sk hk fn acts
  by_cases hx : s.cpc = .exited
  · obtain ⟨h1, h2, h3, h4, h5, h6, h7, _⟩ := Exec.exited_facts hI hx
    rw [hfn] at h5
    refine ⟨?_, ?_, fun _ => ⟨h1, h2, h3, h4, ?_, ?_⟩, fun hlt _ => by omega, hI.ledger, fun _ => ⟨h7, h6⟩⟩
    · intro p hp
      cases fn with
      | ok => simp only at h5; rw [h5.1] at hp; cases hp
      | throw e => simp only at h5; rw [h5.1] at hp; simp at hp; subst hp; exact ⟨rfl, rfl⟩
    · rw [if_pos hx]
      cases fn with
      | ok => simp only at h5; rw [h5.1, h5.2]; rfl
      | throw e => simp only at h5; rw [h5.1, h5.2]; rfl
    · intro e he; subst he; exact h5
    · intro he; subst he; exact h5
  · obtain ⟨h1, h2⟩ := Exec.not_exited_outs hI hx
    refine ⟨?_, ?_, fun h => absurd h hx, fun _ => hx, hI.ledger, fun h => absurd h hx⟩
    · intro p hp; rw [h1] at hp; cases hp
    · rw [if_neg hx, h1, h2]; rfl

/-- The skeleton of `graph::wait_for_all` and `graph::reset` as the headers have it now. -/
theorem graph_skeleton_ok : (Graph.skelOfNats Generated.C03.graphSkel).ok = true := by decide

/-- **`graph::wait_for_all` rethrows only after quiescence, leaves the graph cancelled, and `reset()` makes it reusable.**
`g.d` is a DispatchEH state reached by a DispatchEH schedule (so every theorem above holds for the node-body tasks of the graph: single
exception, finalised once, worker total catch, no swallow).  On top of that, for every skeleton satisfying `ok`, program, rounds and
schedule (thread steps, `graph::cancel()` by anybody, `reset()` calls):
(1) every exception that left `wait_for_all` is one that an epoch of the graph rethrew and that a body of the graph threw in that epoch;
(2) every completed wait left `wait_for_all` exactly once (by exception or by return);
(3) an exception leaves only in a step of thread 0, from the handler, in a quiescent state (wait counter 0, every task finished, every
    other thread idle): no body of the graph is running or can start; afterwards `is_cancelled()` and `exception_thrown()` are true, a
    `reset()` is required, and the exception is recorded once;
(4) the handler's first statement leaves the context reset (not cancelled, no stored exception) in a quiescent state;
(5) a normal return also happens only from a quiescent state, leaves the context reset, and `exception_thrown()` is false;
(6) while a `reset()` is required thread 0 cannot start the next round;
(7) `reset()` clears both flags, leaves the graph active and allows the next round (in which, by `eh_no_swallow_exact`, a fault-free run
    reports `complete`). -/
theorem graph_wait_rethrows_after_quiescence (sk : Graph.Skel) (hk : sk.ok = true) (prog : Prog) (rounds : List (List Nat))
    (gacts : List Graph.Act) (g : Graph.State) (hg : g = Graph.run sk prog rounds gacts) :
    (∃ acts, g.d = run prog rounds acts) ∧
    (∀ e ∈ g.outs, ∃ r ∈ g.d.results, r.res = .rethrown e ∧ e ∈ r.thrown) ∧
    (g.outs.length + g.rets + (match g.gpc with | .handler _ => 1 | _ => 0) = g.d.results.length) ∧
    (∀ a e, (Graph.step g a).2 = some e →
      (∃ c, a = .d (.thr 0 c)) ∧ Graph.Quiescent g.d ∧
      (Graph.step g a).1.gCancelled = true ∧ (Graph.step g a).1.gCaught = true ∧ (Graph.step g a).1.needsReset = true ∧
      (Graph.step g a).1.outs = e :: g.outs) ∧
    (∀ c e, g.gpc = .inner → g.d.pcs 0 = .wreset (some e) →
      (Graph.step g (.d (.thr 0 c))).1.gpc = .handler e ∧ (Graph.step g (.d (.thr 0 c))).1.d.cancelled = false ∧
      (Graph.step g (.d (.thr 0 c))).1.d.exc = none ∧ Graph.Quiescent (Graph.step g (.d (.thr 0 c))).1.d) ∧
    (∀ c, g.gpc = .retReset →
      Graph.Quiescent g.d ∧ g.gCaught = false ∧ (Graph.step g (.d (.thr 0 c))).1.rets = g.rets + 1 ∧
      (Graph.step g (.d (.thr 0 c))).1.d.cancelled = false ∧ (Graph.step g (.d (.thr 0 c))).1.d.exc = none ∧
      (Graph.step g (.d (.thr 0 c))).1.needsReset = g.gCancelled ∧ (Graph.step g (.d (.thr 0 c))).1.gCaught = false) ∧
    (∀ c, g.gpc = .user → g.needsReset = true → (Graph.step g (.d (.thr 0 c))).1.d = g.d) ∧
    (g.gpc = .user →
      (Graph.step g .reset).1.gCancelled = false ∧ (Graph.step g .reset).1.gCaught = false ∧ (Graph.step g .reset).1.gActive = true ∧
      (Graph.step g .reset).1.needsReset = false ∧ (Graph.step g .reset).1.d = g.d) := by
  subst hg
  have hG := Graph.ginv_run sk prog rounds gacts
  have hF := Graph.flag_run sk hk prog rounds gacts
  have hs := Graph.skel_fields hF.1
  obtain ⟨acts, hacts⟩ := Graph.d_reachable sk prog rounds gacts
  refine ⟨⟨acts, hacts⟩, ?_, hG.acct, ?_, ?_, ?_, ?_, ?_⟩
  · intro e he
    obtain ⟨r, hr, hres⟩ := hG.outs e he
    exact ⟨r, hr, hres, (hG.dinv.res r hr).rethrown_mem e hres⟩
  · intro a e h
    obtain ⟨h1, h2, h3, h4, h5, h6, _, _⟩ := Graph.step_out a e h
    refine ⟨h1, (hG.handler e h2).1, ?_, ?_, h5, h6⟩
    · rw [h4, hs.2.2.2.2.2.1]; rfl
    · rw [h3, hs.2.2.2.2.1]; rfl
  · intro c e hgp hp
    obtain ⟨h1, h2, h3, _, _, h6, h7⟩ := Graph.stepThr_wreset hp c
    have hq := Graph.quiescent_of_wreset hG.dinv hp
    simp only [Graph.step, ne_eq, not_true_eq_false, if_false, hgp, hp]
    exact ⟨trivial, h6, h7, by rw [h2]; exact hq.1, by rw [h1]; exact hq.2.1, fun t ht => by rw [h3 t ht]; exact hq.2.2 t ht⟩
  · intro c hgp
    have hp := hG.ret hgp
    obtain ⟨_, _, _, _, _, h6, h7⟩ := Graph.stepThr_wreset hp c
    have hcf := hF.2 (Or.inr hgp)
    simp only [Graph.step, ne_eq, not_true_eq_false, if_false, hgp]
    exact ⟨Graph.quiescent_of_wreset hG.dinv hp, hcf, trivial, h6, h7, trivial, hcf⟩
  · intro c hgp hn
    simp only [Graph.step, ne_eq, not_true_eq_false, if_false, hgp, hn, if_true]
    split <;> rfl
  · intro hgp
    simp only [Graph.step, hgp, if_true, hs.2.2.2.2.2.2.2.2.1, hs.2.2.2.2.2.2.2.2.2.2]
    exact ⟨trivial, trivial, trivial, trivial, trivial⟩

/-- The skeleton of `stage_task` (destructor, cancel, execute, parking), of the filter wrappers (`concrete_filter::operator()` / `finalize`,
the input filter's stop path) as parallel_pipeline.cpp / _pipeline_filters.h have them now.  `bufferClears` — whether tokens still parked in
an `input_buffer` are finalised when the pipeline is destroyed — is NOT part of `ok`: it is a parameter of the theorem below (false today). -/
theorem pipe_skeleton_ok : (Pipe.skelOfNats Generated.C03.pipeSkel).ok = true := by decide

/-- **parallel_pipeline: every token object is destroyed exactly once — except a token still parked in a serial filter's buffer when the
pipeline is torn down, which is destroyed exactly once iff the tear-down clears the buffers.**  For every skeleton, every schedule of stage
task steps (with every choice of body outcome — value, no value, `flow_control::stop`, exception `e` —, of parking / waking / spawning /
recycling, an over-approximation of the buffer discipline) and waiter steps:
(1) no token object is ever destroyed twice; no stage task runs its destructor twice or releases the wait context before / more often than that;
(2) a token object that is alive is either owned by exactly one stage task (and not parked) or parked in a buffer (and owned by nobody);
(3) once the waiter has left the wait, the wait counter is 0 and every stage task is dead, destroyed once, released once — no body of the
    pipeline runs or can start;
(4) when `parallel_pipeline` has exited: it exited once (one exception, which a body of the pipeline threw, or a return); every token object
    was destroyed exactly once, or it is one that was still parked and the tear-down does not clear (`bufferClears = false`); so with a
    clearing tear-down, and in every run that leaves nothing parked (`leaked = 0`), every token object is destroyed exactly once. -/
theorem pipeline_tokens_destroyed_once (sk : Pipe.Skel) (acts : List Pipe.Act) (s : Pipe.State) (hs : s = Pipe.run sk acts) :
    (∀ a, a < s.nobjs → (s.objs a).destroyed ≤ 1) ∧
    (∀ i, i < s.ntasks → (s.tasks i).fins ≤ 1 ∧ (s.tasks i).rels ≤ (s.tasks i).fins) ∧
    (∀ a, a < s.nobjs → (s.objs a).destroyed = 0 →
      ((s.objs a).owner.isSome = true ∧ (s.objs a).parked = false) ∨ ((s.objs a).owner = none ∧ (s.objs a).parked = true)) ∧
    (s.wpc ≠ .waiting → s.count = 0 ∧ ∀ i, i < s.ntasks → (s.tasks i).pc = .dead ∧ (s.tasks i).fins = 1 ∧ (s.tasks i).rels = 1) ∧
    (s.wpc = .exited →
      s.outs.length + s.rets = 1 ∧ (∀ e, e ∈ s.outs → e ∈ s.thrown) ∧
      (∀ a, a < s.nobjs → ((s.objs a).destroyed = 1 ∧ (s.objs a).parked = false) ∨
        ((s.objs a).destroyed = 0 ∧ (s.objs a).parked = true ∧ sk.bufferClears = false)) ∧
      (sk.bufferClears = true → ∀ a, a < s.nobjs → (s.objs a).destroyed = 1) ∧
      (s.leaked = 0 → ∀ a, a < s.nobjs → (s.objs a).destroyed = 1)) := by
  subst hs
  have h := Pipe.invP_run sk acts
  have hO := Pipe.invO_run sk acts
  have hsk := Pipe.run_sk sk acts
  refine ⟨fun a ha => (h.inv1.objs a ha).le, ?_, ?_, ?_, ?_⟩
  · intro i hi
    have hp := (h.inv1.tasks i hi).pc
    unfold Pipe.pcFacts at hp
    cases hpc : ((Pipe.run sk acts).tasks i).pc <;> rw [hpc] at hp <;> simp only at hp <;> (try exact hp.elim) <;> omega
  · intro a ha hd
    obtain ⟨_, hown, hpark, hkept⟩ := h.inv1.objs a ha
    rcases hkept hd with hx | hx
    · left
      cases ho : ((Pipe.run sk acts).objs a).owner with
      | none => rw [ho] at hx; cases hx
      | some i => exact ⟨rfl, (hown i ho).2.2.1⟩
    · right; exact ⟨(hpark hx).2, hx⟩
  · intro hw
    have h0 := h.wait hw
    refine ⟨h0, fun i hi => ?_⟩
    have hd := Pipe.all_dead h h0 i hi
    have hp := (h.inv1.tasks i hi).pc
    simp only [Pipe.pcFacts, hd] at hp
    exact ⟨hd, hp.2.1, hp.2.2⟩
  · intro hx
    obtain ⟨hs1, hs2, hs3⟩ := h.settled (Or.inl hx)
    refine ⟨h.oe.2 hx, hO.outs, ?_, ?_, hs2⟩
    · intro a ha; have := hs1 a ha; rw [hsk] at this; exact this
    · intro hb; exact hs2 (hs3 (by rw [hsk]; exact hb))

/-- **Negation witness for the unconditional statement** (the code as it is: `bufferClears = false`): stage task 0 produces a token, spawns
the next input task and parks its token in the next serial filter's buffer; task 1's body throws 7: the pipeline is cancelled, the wait
rethrows 7, and the parked token object is never destroyed.  (Known finding `pipeline-cancel-leaks-buffered-tokens`; the check replays it on
the real library.) -/
theorem pipeline_parked_token_leaks :
    ∃ acts : List Pipe.Act, let s := Pipe.run Pipe.Skel.expected acts
      s.wpc = .exited ∧ s.outs = [7] ∧ s.nobjs = 1 ∧ (s.objs 0).destroyed = 0 ∧ (s.objs 0).parked = true ∧ s.leaked = 1 := by
  refine ⟨[.task 0 0, .task 0 0, .task 0 0, .task 0 0, .task 0 4, .task 0 1, .task 0 0, .task 0 0,
           .task 1 0, .task 1 0, .task 1 7, .task 1 0, .task 1 0, .task 1 0, .task 1 0, .task 1 0, .task 1 0,
           .waiter, .waiter, .waiter, .waiter], ?_⟩
  decide

/-- The `on_completion` handlers of `task_group::wait` / `run_and_wait` (both overloads) read the cancellation flag BEFORE they reset the
context (the `wreset` step of DispatchEH reports the status it read and resets), and they are `on_completion` guards, i.e. they also run
when the wait rethrows; the dispatcher's catch block stores the exception only inside `if (cancel_group_execution())` and
`cancel_group_execution` decides the winner with an exchange (the `caught` / `xchg` / `store` steps of every model here). -/
theorem tg_and_catch_skeleton_ok :
    Generated.C03.tgSkel = [1, 1, 1, 1, 1, 1] ∧ Generated.C03.catchSkel = [1, 1, 1] := by decide

/-! ## The ledger, for every client -/

/-- a terminated execution of one of the clients of the exception machinery (the waiting call is at its exit) -/
inductive ClientRun where
  /-- parallel_for / parallel_invoke / parallel_for_each (feeder items are children spawned by bodies, also while the group is being
  cancelled) / task_group::wait / run_and_wait: tasks of DispatchEH -/
  | dispatch (prog : Prog) (rounds : List (List Nat)) (sched : List Act)
  /-- parallel_reduce / parallel_deterministic_reduce: the join tree with its split Body copies -/
  | reduce (sh : Shape) (sched : List RAct)
  /-- task_arena::execute -/
  | exec (fn : Outcome) (acts : List Exec.Act)
  /-- flow graph: node-body tasks under wait_for_all -/
  | graph (prog : Prog) (rounds : List (List Nat)) (gacts : List Graph.Act)
  /-- parallel_pipeline: stage tasks and token objects -/
  | pipe (acts : List Pipe.Act)

/-- join callbacks of the program do not throw (the case in which the library itself finalises a task twice: `eh_join_throw_finalised_twice`) -/
def ClientRun.joinsOk : ClientRun → Prop
  | .dispatch prog _ _ => ∀ sp ∈ prog, sp.join = .ok
  | .graph prog _ _ => ∀ sp ∈ prog, sp.join = .ok
  | _ => True

/-- the waiting call of the client has reached its exit -/
def ClientRun.terminated (ek : Exec.Skel) (gk : Graph.Skel) (pk : Pipe.Skel) : ClientRun → Prop
  | .dispatch prog rounds sched => let s := run prog rounds sched; s.pcs 0 = .wexit ∨ ∃ oe, s.pcs 0 = .wreset oe
  | .reduce sh sched => (rrun sh sched).released = 1
  | .exec fn acts => (Exec.run ek fn acts).cpc = .exited
  | .graph prog rounds gacts => let g := Graph.run gk prog rounds gacts; g.gpc = .retReset ∨ ∃ e, g.gpc = .handler e
  | .pipe acts => (Pipe.run pk acts).wpc = .exited

/-- every object the library created for the work has been destroyed exactly once -/
def ClientRun.ledgerOK (ek : Exec.Skel) (gk : Graph.Skel) (pk : Pipe.Skel) : ClientRun → Prop
  | .dispatch prog rounds sched =>
    let s := run prog rounds sched
    (∀ tk ∈ s.tasks, tk.fins = 1 ∧ tk.rels = 1 ∧ tk.execs ≤ 1) ∧ s.stores ≤ 1 ∧ (∀ r ∈ s.results, r.stores ≤ 1)
  | .reduce sh sched => let s := rrun sh sched; s.tree.Safe ∧ s.tree.Done s.cancelled
  | .exec fn acts =>
    let s := Exec.run ek fn acts
    s.dtDestroyed = (if s.deleg then 1 else 0) ∧ s.excFreed = s.excAlloc ∧ s.excAlloc ≤ 1 ∧ s.touchedDead = 0
  | .graph prog rounds gacts =>
    let g := Graph.run gk prog rounds gacts
    (∀ tk ∈ g.d.tasks, tk.fins = 1 ∧ tk.rels = 1 ∧ tk.execs ≤ 1) ∧ (∀ r ∈ g.d.results, r.stores ≤ 1)
  | .pipe acts =>
    let s := Pipe.run pk acts
    (∀ i, i < s.ntasks → (s.tasks i).fins = 1 ∧ (s.tasks i).rels = 1) ∧
    (∀ a, a < s.nobjs → (s.objs a).destroyed = 1 ∨ ((s.objs a).destroyed = 0 ∧ (s.objs a).parked = true ∧ pk.bufferClears = false))

/-- **The ledger theorem for all clients.**  In every terminated execution of every client — every program / tree shape / functor
behaviour / schedule — every task object, split Body copy and tree node, delegate, exception object, stage task and token object that the
library created for the work has been destroyed exactly once (tasks: also released exactly once and executed at most once), with exactly
two exceptions that are PROVED to be real: a throwing `join` callback (hypothesis `joinsOk`; negation `eh_join_throw_finalised_twice`) and
a pipeline token still parked at tear-down when the tear-down does not clear (`bufferClears = false` today; negation
`pipeline_parked_token_leaks`; with `pk.bufferClears = true` the clause says `destroyed = 1` for every token). -/
theorem objects_destroyed_once_all_clients (ek : Exec.Skel) (hek : ek.ok = true) (gk : Graph.Skel) (pk : Pipe.Skel) (r : ClientRun)
    (hj : r.joinsOk) (ht : r.terminated ek gk pk) : r.ledgerOK ek gk pk := by
  cases r with
  | dispatch prog rounds sched =>
    simp only [ClientRun.terminated] at ht
    simp only [ClientRun.ledgerOK]
    have hq := (eh_rethrow_after_quiescence prog rounds sched _ rfl).1 ht
    have hf := (eh_every_task_finalised_once_partial prog rounds sched hj _ rfl).1
    have hs := eh_single_exception prog rounds sched _ rfl
    refine ⟨fun tk htk => ?_, hs.1, fun r hr => (hs.2.2.2.2 r hr).1⟩
    have hd := hq.2.1 tk htk
    have := hf tk htk
    exact ⟨this.2.2.2.2.1 hd, this.2.2.2.1.mp hd, this.1⟩
  | reduce sh sched =>
    simp only [ClientRun.terminated] at ht
    have := reduce_bodies_destroyed_once sh sched _ rfl
    exact ⟨this.1, this.2.2.2 ht⟩
  | exec fn acts =>
    simp only [ClientRun.terminated] at ht
    have := execute_exception_to_caller ek hek fn acts _ rfl
    obtain ⟨_, _, _, _, h5, h6⟩ := this
    exact ⟨(h6 ht).1, (h6 ht).2, h5.2.2.1, h5.2.2.2⟩
  | graph prog rounds gacts =>
    simp only [ClientRun.terminated] at ht
    simp only [ClientRun.ledgerOK]
    have hG := Graph.ginv_run gk prog rounds gacts
    obtain ⟨acts, hacts⟩ := Graph.d_reachable gk prog rounds gacts
    have hq : Graph.Quiescent (Graph.run gk prog rounds gacts).d := by
      rcases ht with ht | ⟨e, ht⟩
      · exact Graph.quiescent_of_wreset hG.dinv (hG.ret ht)
      · exact (hG.handler e ht).1
    have hf := (eh_every_task_finalised_once_partial prog rounds acts hj _ rfl).1
    have hs := eh_single_exception prog rounds acts _ rfl
    rw [hacts] at hq ⊢
    refine ⟨fun tk htk => ?_, fun r hr => (hs.2.2.2.2 r hr).1⟩
    have hd := hq.2.1 tk htk
    have := hf tk htk
    exact ⟨this.2.2.2.2.1 hd, this.2.2.2.1.mp hd, this.1⟩
  | pipe acts =>
    simp only [ClientRun.terminated] at ht
    have := pipeline_tokens_destroyed_once pk acts _ rfl
    obtain ⟨_, _, _, h4, h5⟩ := this
    refine ⟨fun i hi => ?_, fun a ha => ?_⟩
    · have := (h4 (by rw [ht]; simp)).2 i hi; exact ⟨this.2.1, this.2.2⟩
    · rcases (h5 ht).2.2.1 a ha with hx | hx
      · exact Or.inl hx.1
      · exact Or.inr hx

/-! ### non-vacuity: concrete runs of the executable models -/

/-- two threads, a root that submits two children, one of which throws 7: the wait rethrows 7 and the group is reset -/
example :
    let prog : Prog := [{ kids := [1, 2], body := .ok, join := .ok }, { kids := [], body := .throw 7, join := .ok }, { kids := [], body := .ok, join := .ok }]
    let s := run prog [[0]] ([.thr 0 0, .thr 0 0, .thr 0 0, .thr 0 0, .thr 0 0, .thr 0 0, .thr 1 1, .thr 1 1, .thr 1 1, .thr 1 0, .thr 1 0, .thr 1 0,
      .thr 1 0, .thr 1 0, .thr 1 0, .thr 1 0, .thr 0 0, .thr 0 0, .thr 0 0, .thr 0 0, .thr 0 2, .thr 0 2, .thr 0 2, .thr 0 2, .thr 0 2, .thr 0 0, .thr 0 0, .thr 0 0])
    s.results.map (·.res) = [.rethrown 7] ∧ s.cancelled = false ∧ s.exc = none ∧ s.tasks.map (fun tk => (tk.execs, tk.fins, tk.rels)) = [(1, 1, 1), (1, 1, 1), (0, 1, 1)] := by
  decide

/-- two throwers race: exactly one store, the other exception is dropped, the waiter rethrows the winner's -/
example :
    let prog : Prog := [{ kids := [], body := .throw 1, join := .ok }, { kids := [], body := .throw 2, join := .ok }]
    let s := run prog [[0, 1]] ([.thr 0 0, .thr 0 0, .thr 0 0, .thr 1 0, .thr 2 1, .thr 1 0, .thr 2 0, .thr 1 0, .thr 2 0, .thr 1 0, .thr 2 0, .thr 2 0, .thr 1 0,
      .thr 1 0, .thr 2 0, .thr 1 0, .thr 2 0, .thr 1 0, .thr 2 0, .thr 1 0, .thr 2 0, .thr 1 0, .thr 2 0, .thr 0 0, .thr 0 0, .thr 0 0])
    s.results = [{ res := .rethrown 2, thrown := [2, 1], extC := false, stores := 1 }] := by
  decide

/-- ReduceEH: a two-leaf tree, right child stolen (zombie), cancelled before the fold: no join, zombie destroyed once -/
example :
    let s := rrun (.node .leaf .leaf) [.op [] (.start false false), .op [] (.start true true), .cancel, .op [] (.finish true), .op [] (.dec true),
      .op [] (.finish false), .op [] (.dec false), .op [] .joinDel, .decRoot]
    s.tree.totals = (1, 1, 0, 1, 1) ∧ s.released = 1 ∧ s.waitRef = 0 := by
  decide

example :
    let s := rrun (.node .leaf .leaf) [.op [] (.start false false), .op [] (.start true true), .op [] (.finish true), .op [] (.dec true),
      .op [] (.finish false), .op [] (.dec false), .op [] .joinDel, .decRoot]
    s.tree.totals = (1, 1, 1, 1, 1) ∧ s.released = 1 := by
  decide

/-- task_arena::execute, delegated, the functor throws 7 on thread 3: the exception leaves on the caller (thread 0), once, after the functor
ended and the delegate was completed; one exception object allocated and freed; the delegate destroyed once -/
example :
    let s := Exec.run Exec.Skel.expected (.throw 7) ([.caller 1, .caller 0, .take 3] ++ List.replicate 9 (.run 3) ++ [.caller 1] ++ List.replicate 6 (.caller 0))
    s.outs = [(0, 7)] ∧ s.returned = 0 ∧ s.cpc = .exited ∧ s.started = 1 ∧ s.ended = 1 ∧ s.dtDestroyed = 1 ∧ s.excAlloc = 1 ∧ s.excFreed = 1 ∧
      s.touchedDead = 0 := by
  decide

/-- the caller obtains a slot and runs the delegated functor itself -/
example :
    let s := Exec.run Exec.Skel.expected (.throw 7) ([.caller 1, .caller 0, .caller 0, .take 0] ++ List.replicate 9 (.run 0) ++ [.caller 1] ++ List.replicate 6 (.caller 0))
    s.outs = [(0, 7)] ∧ s.cpc = .exited ∧ s.runner = some 0 ∧ s.hasSlot = true := by
  decide

/-- flow graph: one node body throws 7 while another body runs; wait_for_all throws 7 from the handler only after both ended, the graph is
left cancelled with exception_thrown() set; reset() clears it -/
example :
    let prog : Prog := [{ kids := [], body := .throw 7, join := .ok }, { kids := [], body := .ok, join := .ok }]
    let sched : List (Nat × Nat) := [(0, 0), (0, 0), (0, 0), (1, 0), (1, 0), (2, 1), (2, 1), (1, 0), (1, 0), (1, 0), (1, 0), (1, 0), (1, 0), (1, 0), (1, 0),
      (2, 1), (2, 1), (2, 1), (2, 1), (0, 0), (0, 0), (0, 0), (0, 0)]
    let g := Graph.run Graph.Skel.expected prog [[0, 1]] (sched.map fun p => Graph.Act.d (.thr p.1 p.2))
    let g' := (Graph.step g .reset).1
    g.outs = [7] ∧ g.rets = 0 ∧ g.gCancelled = true ∧ g.gCaught = true ∧ g.needsReset = true ∧ g.d.cancelled = false ∧
      g'.gCancelled = false ∧ g'.gCaught = false ∧ g'.needsReset = false ∧ g'.gActive = true := by
  decide

/-- pipeline with a clearing tear-down: the parked token of `pipeline_parked_token_leaks` is destroyed once -/
example :
    let s := Pipe.run { Pipe.Skel.expected with bufferClears := true } [.task 0 0, .task 0 0, .task 0 0, .task 0 0, .task 0 4, .task 0 1, .task 0 0, .task 0 0,
           .task 1 0, .task 1 0, .task 1 7, .task 1 0, .task 1 0, .task 1 0, .task 1 0, .task 1 0, .task 1 0, .waiter, .waiter, .waiter, .waiter]
    s.wpc = .exited ∧ s.outs = [7] ∧ (s.objs 0).destroyed = 1 ∧ s.leaked = 0 := by
  decide

/-- pipeline: the body of the second filter throws while it holds its input token: the token is finalised by ~stage_task, once -/
example :
    let s := Pipe.run Pipe.Skel.expected [.task 0 0, .task 0 0, .task 0 0, .task 0 0, .task 0 0, .task 0 0, .task 0 0, .task 0 9, .task 0 0, .task 0 0, .task 0 0, .task 0 0,
      .task 0 0, .task 0 0, .waiter, .waiter, .waiter, .waiter]
    s.wpc = .exited ∧ s.outs = [9] ∧ s.nobjs = 1 ∧ (s.objs 0).destroyed = 1 ∧ (s.tasks 0).fins = 1 ∧ s.leaked = 0 := by
  decide

end TbbVerif.C03
