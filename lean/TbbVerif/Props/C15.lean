/-
C15 — property theorems (statements only live here; helper lemmas are in Proofs/C15/*.lean).

Property: queue_node forwards in arrival order; sequencer_node forwards exactly 0,1,2,… in order; priority_queue_node
forwards a highest-priority buffered item; buffer/queue/priority nodes never lose an item whose reservation was
released nor consume one twice; join_node emits only complete tuples (queueing: i-th tuple = i-th message of every
port; key_matching: same key, used once; reserving: all-or-nothing); limiter_node never has more than its threshold
of un-decremented forwarded messages; overwrite/write_once deliver the latest/first value to every present and
future successor; broadcast delivers to all; split/indexer route every element to the matching port.

Every node operation is an atomic step (aggregator handler / mutex), so "for all interleavings" is
"for all operation sequences" `ops : List Op` of the node machine, with the successors' verdicts as oracles.
-/
import TbbVerif.Proofs.C15

namespace TbbVerif.C15
open ItemBuf

/-! ## item_buffer -/

/-- **No slot collision**: inside a window of `my_array_size` consecutive indices two different indices never
share a slot of the ring (`i & (size-1)`). -/
theorem itembuf_no_slot_collision (b : ItemBuf) (hw : WF b) (i j : Nat)
    (hi : b.head ≤ i) (hi' : i < b.head + b.arr.length) (hj : b.head ≤ j) (hj' : j < b.head + b.arr.length)
    (hne : i ≠ j) : idx b.arr.length i ≠ idx b.arr.length j := by
  rw [idx_eq hw.pow, idx_eq hw.pow]; exact mod_window_ne hi hi' hj hj' hne

/-- **grow_my_array preserves the map** index ↦ (item, state) on `[head, tail)` — reserved slots stay reserved,
holes stay holes — keeps the ring well formed and makes room for `minimum_size` items. -/
theorem itembuf_grow_preserves (b : ItemBuf) (hw : WF b) (m : Nat) :
    WF (b.grow m) ∧ (b.grow m).view = b.view ∧ (b.grow m).head = b.head ∧ (b.grow m).tail = b.tail ∧
      m ≤ (b.grow m).arr.length := by
  have g := grow_wf b m (Or.inr hw.pow) hw.le (Or.inl hw.cap)
  exact ⟨g.1, view_congr b _ rfl rfl g.2.1, rfl, rfl, g.2.2.1⟩

/-- **The ring refines the finite map** `view : [head,tail) → slot`: the freshly constructed buffer is the empty
map and every operation of `item_buffer` acts on the map as the obvious list operation (and preserves
well-formedness): push_back appends; pop_front / pop_back remove an end (only if it holds an item);
reserve/release flip the state of the front; the sequencer placement refuses tags below `head`, pads with holes
and fills exactly the tag's slot if it is empty. -/
theorem itembuf_refines_map (b : ItemBuf) (hw : WF b) :
    (WF ItemBuf.empty ∧ ItemBuf.empty.view = []) ∧
    (∀ v, WF (b.pushBack v) ∧ (b.pushBack v).head = b.head ∧ (b.pushBack v).view = b.view ++ [some (v, false)]) ∧
    (∀ v r rest, b.view = some (v, r) :: rest →
        ∃ b', b.popFront = some (v, b') ∧ WF b' ∧ b'.view = rest ∧ b'.head = b.head + 1) ∧
    ((b.view = [] ∨ ∃ rest, b.view = none :: rest) → b.popFront = none) ∧
    (∀ v r init, b.view = init ++ [some (v, r)] →
        ∃ b', b.popBack = some (v, b') ∧ WF b' ∧ b'.view = init ∧ b'.head = b.head) ∧
    ((b.view = [] ∨ ∃ init, b.view = init ++ [none]) → b.popBack = none) ∧
    (∀ v r rest, b.view = some (v, r) :: rest →
        ∃ b', b.reserveFront = some (v, b') ∧ WF b' ∧ b'.view = some (v, true) :: rest ∧ b'.head = b.head) ∧
    (∀ v rest, b.view = some (v, true) :: rest →
        ∃ b', b.releaseFront = some b' ∧ WF b' ∧ b'.view = some (v, false) :: rest ∧ b'.head = b.head) ∧
    (∀ tag v, (tag < b.head → b.seqPush tag v = none) ∧
      (b.head ≤ tag → ∃ b' p, b.seqPush tag v = some (b', p) ∧ WF b' ∧ b'.head = b.head ∧
        (p = false → b'.view = b.view ++ List.replicate (b'.tail - b.tail) none ∧
            ∃ x, (b.view ++ List.replicate (b'.tail - b.tail) none)[tag - b.head]? = some (some x)) ∧
        (p = true → (b.view ++ List.replicate (b'.tail - b.tail) none)[tag - b.head]? = some none ∧
            b'.view = (b.view ++ List.replicate (b'.tail - b.tail) none).set (tag - b.head) (some (v, false))))) := by
  refine ⟨⟨empty_wf.1, ?_⟩, ?_, ?_, popFront_none b, ?_, popBack_none b, ?_, ?_, ?_⟩
  · apply List.eq_nil_of_length_eq_zero; rw [view_length, empty_wf.2.1, empty_wf.2.2]
  · intro v; have := pushBack_spec b hw v; exact ⟨this.1, this.2.1, this.2.2.2⟩
  · intro v r rest h; obtain ⟨b', h1, h2, h3, h4, _⟩ := popFront_some b hw v r rest h; exact ⟨b', h1, h2, h3, h4⟩
  · intro v r init h; obtain ⟨b', h1, h2, h3, h4, _⟩ := popBack_some b hw v r init h; exact ⟨b', h1, h2, h3, h4⟩
  · intro v r rest h; obtain ⟨b', h1, h2, h3, h4, _⟩ := reserveFront_some b hw v r rest h; exact ⟨b', h1, h2, h3, h4⟩
  · intro v rest h; obtain ⟨b', h1, h2, h3, h4, _⟩ := releaseFront_some b hw v rest h; exact ⟨b', h1, h2, h3, h4⟩
  · intro tag v
    obtain ⟨h1, h2⟩ := seqPush_spec b hw tag v
    refine ⟨h1, fun hge => ?_⟩
    obtain ⟨b', p, e1, e2, e3, _, e5, e6⟩ := h2 hge
    exact ⟨b', p, e1, e2, e3, e5, e6⟩

/-! ## queue_node -/

/-- **FIFO**: for every sequence of node operations (puts, try_gets, reservations, releases, consumes, forwarding
attempts with any accept/reject pattern), the items that left the queue_node, in the order they left, followed by
the items still buffered, in buffer order, are exactly the accepted puts in arrival order.  In particular the
output order is a prefix of the arrival order: nothing overtakes, nothing is lost, nothing is duplicated. -/
theorem queue_fifo (mode : Nat) (f : Nat → Nat) (ops : List BufOp) :
    let s := ((bufMach .queue mode f).run ops).1
    s.ub = false ∧ s.out <+: s.acc ∧
      ∃ items, s.buf.view = qview s.reserved items ∧ s.out ++ items = s.acc := by
  intro s
  obtain ⟨_, noub, items, hv, _, _, hq⟩ := ninv_run .queue mode f (by decide) (by intro h; cases h) ops
  exact ⟨noub, ⟨items, hq rfl⟩, items, hv, hq rfl⟩

/-! ## sequencer_node -/

/-- **Exact order**: whatever the order in which sequence numbers arrive (any permutation, duplicates, stale
numbers) and whatever the successors do, the items handed out carry exactly the numbers `0,1,2,…,head-1` in
this order — no gap, no duplicate, no overtaking; every item handed out was accepted and nothing accepted is
lost (multiset conservation); an item whose number is below `my_head` is rejected and changes nothing. -/
theorem sequencer_exact_order (mode : Nat) (f : Nat → Nat) (ops : List BufOp) :
    let s := ((bufMach .sequencer mode f).run ops).1
    s.ub = false ∧ s.out.map f = List.range s.buf.head ∧
      (s.out ++ present s.buf.view).Perm s.acc ∧
      (∀ j x r, s.buf.view[j]? = some (some (x, r)) → f x = s.buf.head + j) ∧
      (∀ v, f v < s.buf.head → bufStep .sequencer mode f s (.put v) = (s, .rejected)) := by
  intro s
  have h : SInv f s := sinv_run mode f ops
  have noub : s.ub = false := h.noub
  refine ⟨noub, h.order, h.cons, h.tags, ?_⟩
  intro v hv
  have := (seqPush_spec s.buf h.wf (f v) v).1 hv
  simp [bufStep, noub, this]

/-! ## priority_queue_node -/

/-- **A forwarded item is a highest-priority one.**  In every reachable state, whatever a step hands out
(`try_get`, `try_reserve`, or the item offered to a successor) is an element of the buffer that dominates the whole
heap part `[0,mark)` and the most recently pushed element.  At every aggregator batch boundary (`order()` has run:
`mark = my_tail`) this is the maximum of everything buffered.  (Inside one aggregator batch, pushes of the same
batch other than the last are not yet ordered — they are concurrent with the pop.)  Nothing is lost or
duplicated: handed out ++ buffered ++ reserved is a permutation of the accepted puts. -/
theorem prio_emits_max (ops : List PrioOp) (op : PrioOp) (x : Nat) :
    let s := (prioMach.run ops).1
    (emitted (prioStep s op).2 = some x →
      x ∈ s.data ∧ (∀ i, i < s.mark → s.data.getD i 0 ≤ x) ∧ s.data.getD (s.data.length - 1) 0 ≤ x ∧
      (s.mark = s.data.length → ∀ y ∈ s.data, y ≤ x)) ∧
    (s.out ++ s.data ++ s.resv.toList).Perm s.acc ∧
    s.order.mark = s.order.data.length := by
  intro s
  have h := prio_inv ops
  refine ⟨fun hx => ?_, h.cons, order_mark s h⟩
  obtain ⟨h1, h2, h3⟩ := prio_emits s op h x hx
  exact ⟨h1, h2, h3, fun hm => prio_emits_max_of_ordered s op h hm x hx⟩

/-! ## reservations (buffer_node, queue_node) -/

/-- **Reservations are safe** for queue_node, and for buffer_node provided its `try_get` respects a
reservation (`mode ≥ 1`; `mode = Generated.C15.bufferPopMode` is what the real node does, probed on every run):
for every operation sequence no asserted precondition of item_buffer is ever violated (no double destruction),
the window is a list of items of which only the front may be reserved, a reservation always has its item, and
handed-out ++ buffered is a permutation of the accepted puts (no item lost, none handed out twice). -/
theorem buffer_reservation_safe (k : Kind) (mode : Nat) (f : Nat → Nat) (hk : k ≠ .sequencer)
    (hm : k = .buffer → 1 ≤ mode) (ops : List BufOp) :
    let s := ((bufMach k mode f).run ops).1
    s.ub = false ∧ ∃ items, s.buf.view = qview s.reserved items ∧ (s.reserved = true → items ≠ []) ∧
      (s.out ++ items).Perm s.acc := by
  intro s
  obtain ⟨_, noub, items, hv, hne, hp, _⟩ := ninv_run k mode f hk hm ops
  exact ⟨noub, items, hv, hne, hp⟩

/-- **A released reservation returns the item, a consumed one removes exactly it, never both**: in a reachable
state holding a reservation on `x`, `release` puts `x` back at the front (unreserved, nothing handed out),
`consume` removes exactly `x` and logs it as handed out, and each ends the reservation; while the reservation is
held, `try_get`, `try_reserve` and forwarding of a queue_node hand out nothing. -/
theorem reservation_release_consume (k : Kind) (mode : Nat) (f : Nat → Nat) (hk : k ≠ .sequencer)
    (hm : k = .buffer → 1 ≤ mode) (ops : List BufOp) (x : Nat) (rest : List Slot) :
    let s := ((bufMach k mode f).run ops).1
    s.reserved = true → s.buf.view = some (x, true) :: rest →
      (let s' := (bufStep k mode f s .release).1
       s'.buf.view = some (x, false) :: rest ∧ s'.reserved = false ∧ s'.out = s.out ∧ s'.acc = s.acc) ∧
      (let s' := (bufStep k mode f s .consume).1
       s'.buf.view = rest ∧ s'.reserved = false ∧ s'.out = s.out ++ [x] ∧ s'.acc = s.acc) ∧
      (k = .queue → ∀ a, (bufStep k mode f s .get).2 = .none ∧ (bufStep k mode f s .reserve).2 = .none ∧
          (bufStep k mode f s (.fwd a)).2 = .none) := by
  intro s hr hv
  have h := ninv_run k mode f hk hm ops
  have noub : s.ub = false := h.noub
  refine ⟨?_, ?_, ?_⟩
  · obtain ⟨b', hp, _, hv', _, _⟩ := releaseFront_some s.buf h.wf x rest hv
    simp [bufStep, noub, hr, hp, hv']
  · obtain ⟨b', hp, _, hv', _, _⟩ := popFront_some s.buf h.wf x true rest hv
    simp [bufStep, noub, hr, consumeFront, hp, hv']
  · intro hq a; subst hq; simp [bufStep, noub, hr]

/-- **A reservation pins its item**: while the reservation on `x` is held, no operation other than release /
consume — puts (incl. ring growth), try_gets of the other items of a buffer_node, further reserve attempts,
forwarding attempts — removes, hands out or un-reserves `x`: it stays the reserved front item. -/
theorem reserved_front_stable (k : Kind) (mode : Nat) (f : Nat → Nat) (hk : k ≠ .sequencer)
    (hm : k = .buffer → 1 ≤ mode) (ops : List BufOp) (x : Nat) (rest : List Slot) (op : BufOp) :
    let s := ((bufMach k mode f).run ops).1
    s.reserved = true → s.buf.view = some (x, true) :: rest → op ≠ .release → op ≠ .consume →
      (bufStep k mode f s op).1.reserved = true ∧ ∃ rest', (bufStep k mode f s op).1.buf.view = some (x, true) :: rest' := by
  intro s hr hv h1 h2
  exact reserved_front_stable_step k mode f hk hm s (ninv_run k mode f hk hm ops) x rest hr hv op h1 h2

/-- The pinned tree's buffer_node (`mode = 0`: `internal_pop` = `pop_back` without looking at `my_reserved`)
does NOT have the property: `put 7; try_reserve → 7; try_get → 7` hands the reserved item out a second time, and
the following `try_consume` violates the asserted precondition of `destroy_front` (undefined behaviour; on the
real node `my_head` overtakes `my_tail` and a later item is lost).  See KNOWN_FINDINGS / the C15 replay. -/
theorem buffer_node_unguarded_get_steals_reserved :
    ((bufMach .buffer 0 id).run [.put 7, .reserve, .get, .consume]).2 = [.ok, .item 7, .item 7, .ub] := by
  decide

/-! ## limiter_node -/

/-- **Threshold bound.**  `outst` is the ghost counter of messages really forwarded (accepted by a successor) and
not yet decremented (each positive decrement is subtracted as far as the node applies it; a negative decrement
only lowers the capacity).  For every interleaving of put attempts (admission / successor verdict / completion as
three separate steps, so decrements race puts at every point), forward tasks and decrements with ANY integer
delta, `outst ≤ threshold`; more precisely even together with all in-flight puts that may still be forwarded. -/
theorem limiter_bound (threshold : Nat) (ops : List LimOp) :
    let s := ((limMach threshold).run ops).1
    s.outst ≤ (threshold : Int) ∧ s.outst + s.pend + s.rejd ≤ (threshold : Int) ∧
      s.outst ≤ (s.count : Int) + s.accd - s.future ∧ s.tries = s.pend + s.accd + s.rejd := by
  intro s
  have h : LInv s := linv_run threshold ops
  have ht : s.threshold = threshold := by
    apply Mach.inv_run (limMach threshold) (fun s => s.threshold = threshold) rfl
    intro s o hs; unfold limMach limStep; cases o <;> dsimp only <;> (repeat' split) <;> simp_all
  have i2 := h.i2
  rw [ht] at i2
  exact ⟨by omega, i2, h.i1, h.tr⟩

/-- With non-negative decrements the counters themselves obey `my_count + my_tries ≤ threshold`, and `my_count`
(+ accepted puts in flight − `my_future_decrement`) *is* the ghost counter: `my_future_decrement` is paid back
exactly.  (A negative decrement may push `my_count` to — and a racing put then above — the threshold, which is
why `limiter_bound` is not stated on `my_count`.) -/
theorem limiter_counters_nonneg (threshold : Nat) (ops : List LimOp) (hp : ∀ o ∈ ops, nonnegOp o) :
    let s := ((limMach threshold).run ops).1
    s.count + s.tries ≤ s.threshold ∧ s.outst = (s.count : Int) + s.accd - s.future := by
  intro s
  have h := linvpos_run threshold ops hp
  exact ⟨h.ct, h.eq⟩

/-! ## join_node -/

/-- **Queueing join: the i-th tuple is the i-th message of every port.**  For every arrival order at the ports and
every accept/reject pattern of the successors: every emitted tuple is complete (`n` components); for each port
`p`, the `p`-components of the emitted tuples, in order, followed by what is still queued at the port, are the
messages accepted at `p` in arrival order; `ports_with_no_items` equals the number of empty ports (the counter
never wraps). -/
theorem join_queueing_ith (n : Nat) (ops : List JqOp) :
    let s := ((jqMach n).run ops).1
    s.ub = false ∧ s.pwni = nEmpty s.ports ∧ (∀ t ∈ s.out, t.length = n) ∧
      (∀ p, p < n → s.out.map (fun t => t.getD p 0) ++ s.ports.getD p [] = s.acc.getD p []) ∧
      (∀ p i, p < n → i < s.out.length → (s.out.getD i []).getD p 0 = (s.acc.getD p []).getD i 0) := by
  intro s
  have h := jqinv_run n ops
  refine ⟨h.noub, h.cnt, h.tlen, h.fifo, ?_⟩
  intro p i hp hi
  have e := h.fifo p hp
  rw [← e]
  simp only [List.getD_eq_getElem?_getD]
  rw [List.getElem?_append_left (by simpa using hi), List.getElem?_map]
  cases s.out[i]? <;> simp

/-- **Key-matching join: same key, used once.**  Every tuple ever built is complete and all its components carry
the same key; every stored message is filed under its own key; the count table counts the ports holding a key,
and a key never stays held by all ports — its tuple is formed in the very step that completes it, taking the
key's message out of every port (so a stored message is used in at most one tuple). -/
theorem join_key_matching_same_key_once (n : Nat) (kf : Nat → Nat) (hn : 0 < n) (ops : List JkOp) :
    let s := ((jkMach n kf).run ops).1
    s.ub = false ∧ (∀ t ∈ s.outbuf ++ s.out, t.length = n ∧ ∃ k, ∀ v ∈ t, kf v = k) ∧
      (∀ t ∈ s.ports, ∀ x ∈ t, kf x.2 = x.1) ∧
      (∀ k, (Assoc.find s.counts k).getD 0 = holders s.ports k ∧ holders s.ports k < n) := by
  intro s
  have h := jkinv_run n kf hn ops
  exact ⟨h.noub, h.tuples, h.keyed, fun k => ⟨h.cnt k, h.lt k⟩⟩

/-- As coded, a put whose key is already present at the port is answered FAILED but *replaces* the stored
message (hash_buffer::insert_with_key): the earlier, accepted message is dropped. (Observation, kept as a lemma
so that the model cannot silently drift from it.) -/
theorem join_key_matching_duplicate_overwrites :
    let r := (jkMach 2 (· / 8)).run [.put 0 9, .put 0 10, .put 1 11, .fwd true]
    r.2 = [.ok false, .none, .ok true, .tuple [10, 11] true] := by
  decide

/-- **Reserving join: all or nothing.**  One tuple attempt (`try_to_make_tuple` + the successors' verdict) leaves
every port unreserved; items are consumed only if *every* port could be reserved and the tuple was accepted, and
then every port is consumed (the tuple consisting of exactly the reserved items); in every other case there is no
consume event at all (every reservation made is released).  Hence after any sequence of attempts no port is left
reserved. -/
theorem join_reserving_all_or_nothing (n : Nat) :
    (∀ ops, ((jrMach n).run ops).1.resv = List.replicate n false) ∧
    (∀ avail accept,
      (((jrEvents n avail accept).2 = none ∨ accept = false) → ∀ e ∈ (jrEvents n avail accept).1, isConsume e = false) ∧
      (∀ t, (jrEvents n avail accept).2 = some t → t.length = n ∧ ∀ p, p < n → avail p = some (t.getD p 0)) ∧
      (∀ t, (jrEvents n avail accept).2 = some t → accept = true →
        ∀ p, p < n → JrEv.consume p ∈ (jrEvents n avail accept).1 ∧ JrEv.reserve p (t.getD p 0) ∈ (jrEvents n avail accept).1)) :=
  ⟨fun ops => (jr_resv_run n ops).1, fun avail accept => (jrEvents_spec n avail accept).2⟩

/-! ## overwrite_node / write_once_node / broadcast_node / split_node / indexer_node -/

/-- **overwrite_node delivers the latest value to every present and future successor**: in every reachable state
with a valid buffer, the latest offer made to every successor of the push cache is the buffered value; a put
stores its value (it is what `try_get` returns afterwards) and offers it to every present successor; a successor
registered later is offered the buffered value at once. -/
theorem overwrite_latest_to_all (ops : List OwOp) :
    let s := ((owMach false).run ops).1
    (∀ v, s.buf = some v → ∀ r ∈ s.succs, lastOffer s.offers r = some v) ∧
    (∀ v leave, (owStep false s (.put v leave)).1.buf = some v ∧
        (owStep false s (.put v leave)).1.offers = s.offers ++ s.succs.map (fun r => (r, v)) ∧
        (owStep false (owStep false s (.put v leave)).1 .get).2 = .item v) ∧
    (∀ v r a, s.buf = some v → (owStep false s (.reg r a)).1.offers = s.offers ++ [(r, v)]) := by
  intro s
  refine ⟨oinv_run false ops, ?_, ?_⟩
  · intro v leave; simp [owStep]
  · intro v r a hb; simp only [owStep, hb]; split <;> rfl

/-- **write_once_node keeps the first value**: once valid, the buffer is changed by nothing but `clear()` — later
puts are rejected — and (as for overwrite_node) every present successor got it and every future one gets it. -/
theorem write_once_first_to_all (ops : List OwOp) :
    let s := ((owMach true).run ops).1
    (∀ v, s.buf = some v → ∀ r ∈ s.succs, lastOffer s.offers r = some v) ∧
    (∀ w op, s.buf = some w → op ≠ .clear → (owStep true s op).1.buf = some w) ∧
    (∀ w v leave, s.buf = some w → (owStep true s (.put v leave)) = (s, .rejected)) ∧
    (∀ v r a, s.buf = some v → (owStep true s (.reg r a)).1.offers = s.offers ++ [(r, v)]) := by
  intro s
  refine ⟨oinv_run true ops, ?_, ?_, ?_⟩
  · intro w op hb hne
    cases op with
    | put v leave => simp [owStep, hb]
    | reg r a => simp only [owStep, hb]; split <;> rfl
    | rem r => simpa [owStep] using hb
    | get => simp only [owStep, hb]
    | clear => exact absurd rfl hne
  · intro w v leave hb; simp [owStep, hb]
  · intro v r a hb; simp only [owStep, hb]; split <;> rfl

/-- **broadcast_node delivers to all successors**: one offer of the value to each successor, in cache order. -/
theorem broadcast_all (succs : List Nat) (v : Nat) :
    (broadcastPut succs v).map (·.1) = succs ∧ ∀ o ∈ broadcastPut succs v, o.2 = v := by
  constructor
  · simp [broadcastPut, Function.comp_def]
  · intro o ho; simp [broadcastPut] at ho; obtain ⟨_, _, rfl⟩ := ho; rfl

/-- **split_node / indexer_node route every element to the matching port**: element `i` of the tuple goes to
output port `i` (and nothing else is emitted); a message arriving at input port `p` of an indexer reaches every
successor tagged with `p`. -/
theorem split_indexer_routing (t : List Nat) (succs : List Nat) (p v : Nat) :
    ((splitPut t).length = t.length ∧ ∀ i, i < t.length → (splitPut t)[i]? = some (i, t.getD i 0)) ∧
    ((indexerPut succs p v).map (·.1) = succs ∧ ∀ o ∈ indexerPut succs p v, o.2 = (p, v)) := by
  refine ⟨⟨by simp [splitPut], ?_⟩, ?_, ?_⟩
  · intro i hi
    simp only [splitPut, List.getElem?_zip_eq_some]
    refine ⟨by simp [hi], ?_⟩
    simp [List.getD_eq_getElem?_getD, hi]
  · simp [indexerPut, Function.comp_def]
  · intro o ho; simp [indexerPut] at ho; obtain ⟨_, _, rfl⟩ := ho; rfl

/-! ## Non-vacuity: concrete runs of the executable models -/

-- ring growth with a reserved slot and holes (sequencer placement), as white-box tested against the real code
example : (((((ItemBuf.empty.pushBack 5).pushBack 6).pushBack 7).pushBack 8).pushBack 9).view =
    [some (5, false), some (6, false), some (7, false), some (8, false), some (9, false)] := by decide

example : ((bufMach .queue 0 id).run [.put 1, .put 2, .reserve, .get, .put 3, .release, .fwd true, .get]).2 =
    [.ok, .ok, .item 1, .none, .ok, .ok, .offered 1 true, .item 2] := by decide

example : ((bufMach .sequencer 0 (· / 8)).run [.put 17, .put 9, .fwd true, .put 3, .put 4, .fwd true, .fwd true, .fwd true, .put 1]).2 =
    [.ok, .ok, .none, .ok, .rejected, .offered 3 true, .offered 9 true, .offered 17 true, .rejected] := by decide

-- the batch [push 9, push 7, pop] pops 7 although 9 is buffered (mark < tail), then order() heapifies
example : (prioMach.run [.put 5, .order, .put 9, .put 7, .get, .order, .get]).2 =
    [.ok, .ok, .ok, .ok, .item 7, .ok, .item 9] := by decide

-- a decrement racing a put: it is banked in my_future_decrement and paid by the put's completion
example : ((limMach 1).run [.begin true, .dec 1, .verdict true, .endOk, .begin true, .verdict true, .endOk, .begin true]).2 =
    [.admitted, .done, .done, .done, .admitted, .done, .done, .rejected] ∧
    ((limMach 1).run [.begin true, .dec 1, .verdict true, .endOk, .begin true, .verdict true, .endOk]).1.outst = 1 := by decide

example : ((jqMach 2).run [.put 0 1, .put 0 2, .put 1 10, .fwd true, .put 1 11, .fwd false, .fwd true]).2 =
    [.ok false, .ok false, .ok true, .tuple [1, 10] true, .ok true, .tuple [2, 11] false, .tuple [2, 11] true] := by decide

example : (jrEvents 2 (fun p => if p = 1 then some 6 else none) true) = ([.reserve 1 6, .release 1], none) ∧
    (jrEvents 2 (fun p => some (p + 5)) true).1 = [.reserve 1 6, .reserve 0 5, .consume 1, .consume 0] := by decide

/-! ## Extension (a): the aggregator-based buffering nodes as coded, one aggregator batch at a time

`Batch.handleOps` is `buffer_node::handle_operations_impl` (and, through `Core.order`, the priority queue's version) over
a whole batch; `Batch.runHistory` executes a concurrent history as the aggregator serialises it.  The single
hypothesis about the aggregator is the shape of `runHistory` / `batchOf` itself: handlers are serial, every
submitted operation is in exactly one batch and gets its status inside it, and a batch is the pending stack at the
handler's `exchange`, i.e. the operations in REVERSED arrival order — which is what C13's
`aggregator_serial_exactly_once` proves of the very same `aggregator_generic::execute / start_handle_operations`. -/

open Batch

/-- **A batch is linearizable, in reversed arrival order.**  For every node kind (`C`), switch skeleton, successor
behaviour `ω` (accept / reject / reject-and-switch-to-pull per `try_put_task`), state and batch: the statuses and values
the handler stores into the operations, the successor cache, every offer made to a successor and the core state
(buffer, reservation, ghost logs) are exactly those of executing the operations ONE AT A TIME, each as its own critical
section, in the order in which the handler finds them in the list — the reverse of the order in which they were pushed
onto `pending_operations` (so the handler's own operation, pushed first, takes effect last).  The only things decided
per batch rather than per operation are `derived->order()` (priority queue: `heapify`) and whether a forwarding task
is created (`forwarder_busy`, see `forwarder_task_no_loss`). -/
theorem node_batch_linearizable {σ : Type} (C : Core σ) (sk : Skel) (ω : Nat → Verdict) (s : NSt σ) (arrivals : List NOp) :
    let r := handleOps C sk ω s (batchOf arrivals)
    let q := seqRun C ω arrivals.reverse s
    r.2.1 = q.2 ∧ r.1.succs = q.1.succs ∧ r.1.tick = q.1.tick ∧ r.1.offers = q.1.offers ∧
      (r.1.core = C.order q.1.core ∨ r.1.core = C.setBusy (C.order q.1.core) true) := by
  intro r q
  obtain ⟨h1, h2⟩ := handleLoop_seq C sk ω arrivals.reverse s false
  have hr : r = handleOps C sk ω s arrivals.reverse := rfl
  rw [hr]
  unfold handleOps epilogue
  dsimp only
  rw [h1, h2]
  split
  · exact ⟨rfl, rfl, rfl, rfl, Or.inr rfl⟩
  · exact ⟨rfl, rfl, rfl, rfl, Or.inl rfl⟩

/-- **The node contracts hold across arbitrary sequences of batches** — i.e. for every concurrent history, given the
aggregator's serialisation — whatever the switch does with `try_forwarding` and whatever the successors answer:
queue_node is FIFO; sequencer_node hands out exactly 0,1,2,… and rejects stale numbers; buffer_node (whose `try_get`
respects a reservation) and queue_node keep reservations safe and conserve items; priority_queue_node conserves items,
is completely heaped at every batch boundary (so the first hand-out of a batch is a maximum of everything buffered),
and inside a batch (after any prefix `pre` of it) whatever it hands out dominates the heap part and the last pushed item. -/
theorem node_contract_under_batches (mode : Nat) (f : Nat → Nat) (sk : Skel) (ω : Nat → Verdict) (hist : List (List NOp)) :
    (let s := (runHistory (bufCore .queue mode f) sk ω bufInit hist).core
     s.ub = false ∧ s.out <+: s.acc ∧ ∃ items, s.buf.view = qview s.reserved items ∧ s.out ++ items = s.acc) ∧
    (let s := (runHistory (bufCore .sequencer mode f) sk ω bufInit hist).core
     s.ub = false ∧ s.out.map f = List.range s.buf.head ∧ (s.out ++ present s.buf.view).Perm s.acc ∧
       (∀ v, f v < s.buf.head → bufStep .sequencer mode f s (.put v) = (s, .rejected))) ∧
    (1 ≤ mode → let s := (runHistory (bufCore .buffer mode f) sk ω bufInit hist).core
     s.ub = false ∧ ∃ items, s.buf.view = qview s.reserved items ∧ (s.reserved = true → items ≠ []) ∧
       (s.out ++ items).Perm s.acc) ∧
    (let s := (runHistory prioCore sk ω prioInit hist).core
     s.mark = s.data.length ∧ (s.out ++ s.data ++ s.resv.toList).Perm s.acc ∧
       (∀ op x, emitted (prioStep s op).2 = some x → ∀ y ∈ s.data, y ≤ x) ∧
       (∀ pre tf op x, let m := (handleLoop prioCore sk ω pre (runHistory prioCore sk ω prioInit hist) tf).1.core
          emitted (prioStep m op).2 = some x →
            x ∈ m.data ∧ (∀ i, i < m.mark → m.data.getD i 0 ≤ x) ∧ m.data.getD (m.data.length - 1) 0 ≤ x)) := by
  refine ⟨?_, ?_, ?_, ?_⟩
  · intro s
    obtain ⟨_, noub, items, hv, _, _, hq⟩ :=
      runHistory_pres (pres_ninv .queue mode f (by decide) (by intro h; cases h)) sk ω hist bufInit (ninv_init .queue)
    exact ⟨noub, ⟨items, hq rfl⟩, items, hv, hq rfl⟩
  · intro s
    have h : SInv f s := runHistory_pres (pres_sinv mode f) sk ω hist bufInit (sinv_init f)
    refine ⟨h.noub, h.order, h.cons, ?_⟩
    intro v hv
    have := (seqPush_spec s.buf h.wf (f v) v).1 hv
    simp [bufStep, h.noub, this]
  · intro hm s
    obtain ⟨_, noub, items, hv, hne, hp, _⟩ :=
      runHistory_pres (pres_ninv .buffer mode f (by decide) (fun _ => hm)) sk ω hist bufInit (ninv_init .buffer)
    exact ⟨noub, items, hv, hne, hp⟩
  · intro s
    have h : PInv s := runHistory_pres pres_pinv sk ω hist prioInit Prio.pinv_init
    have hm : s.mark = s.data.length := runHistory_mark sk ω hist prioInit Prio.pinv_init rfl
    refine ⟨hm, h.cons, fun op x hx => prio_emits_max_of_ordered s op h hm x hx, ?_⟩
    intro pre tf op x m hx
    exact prio_emits m op (handleLoop_pres pres_pinv sk ω pre _ tf h) x hx

/-- **No lost forward (the `forwarder_busy` protocol).**  `forwarder_busy` is read and written only inside the handler:
it is set by the epilogue of a batch when it creates a forwarding task, and cleared by `internal_forward_task` exactly
when it stores FAILED into the forwarder's operation — which is what makes `forward_task()` leave its loop.  For every
history, successor behaviour and node kind:
1. *flag = liveness of a forwarder*: `forwarder_busy` holds iff exactly one forwarder is still going to submit a
   `try_fwd_task`, and there is never more than one (no forwarder "about to exit" with the flag still set, none running
   with the flag cleared);
2. *no lost request*: if any operation of a batch asks for forwarding (a registered successor, a released or consumed
   reservation, an ACCEPTED put), then after the batch the flag is set and a forwarder is live — provided the switch
   never withdraws a request (`Skel.ok`; for kinds whose push cannot fail `Skel.okTotalPush`, which the pinned switch
   `try_forwarding = internal_push(tmp)` satisfies; for the sequencer it does NOT: `sequencer_failed_put_cancels_forward`);
3. *a forwarder gives up only when there is nothing to do*: when `internal_forward_task` stores FAILED, the node was
   reserved or had no valid item, or no successor was registered, or it ran out of valid items, or its last round
   offered the then-current candidate to every successor in the cache and each of them refused. -/
theorem forwarder_task_no_loss (k : Kind) (mode : Nat) (f : Nat → Nat) (sk : Skel) (ω : Nat → Verdict)
    (hist : List (List NOp)) (arrivals : List NOp)
    (hsk : if k = .sequencer then sk.ok = true else sk.okTotalPush = true) (hm : k = .buffer → 1 ≤ mode) :
    let C := bufCore k mode f
    let s := runHistory C sk ω bufInit hist
    let s' := (handleOps C sk ω s (batchOf arrivals)).1
    ((s.core.busy = true ↔ s.live = 1) ∧ s.live ≤ 1) ∧
    (hasTrigger C ω (batchOf arrivals) s = true → s'.core.busy = true ∧ s'.live = 1) ∧
    ((internalForward C ω s).2 = false →
      C.blocked s.core = true ∨ s.succs = [] ∨
      (∃ s1 c last, fwdLoop C ω s.succs.length s false = (s1, c, last) ∧ 0 < c ∧ C.valid s1.core = false) ∨
      (∃ s0 : NSt BufSt, C.valid s0.core = true ∧ (cacheTry ω (C.cand s0.core) s0.succs s0.tick).1 = false ∧
        (∀ r ∈ s0.succs, ∃ vd, vd ≠ Verdict.accept ∧ (r, C.cand s0.core, vd) ∈ (internalForward C ω s).1.offers))) := by
  intro C s s'
  have hL : LiveInv C s := runHistory_live (lawful_buf k mode f) sk ω hist bufInit (liveInv_init_buf k mode f)
  refine ⟨hL, ?_, ?_⟩
  · intro ht
    by_cases hk : k = .sequencer
    · subst hk
      simp only [if_true] at hsk
      exact handleOps_trigger (lawful_buf _ mode f) (pres_true _) sk ω (goodSwitch_ok _ sk ω hsk) s _ trivial hL ht
    · simp only [hk, if_false] at hsk
      have hP : NInv k s.core := runHistory_pres (pres_ninv k mode f hk hm) sk ω hist bufInit (ninv_init k)
      exact handleOps_trigger (lawful_buf k mode f) (pres_ninv k mode f hk hm) sk ω
        (goodSwitch_totalPush _ sk ω (NInv k) (fun st v h => put_ok_buf k mode f hk st v h) hsk) s _ hP hL ht
  · intro hf
    rcases internalForward_failed C ω s hf with h | h | h | ⟨s0, h1, h2, _, h4⟩
    · exact Or.inl h
    · exact Or.inr (Or.inl h)
    · exact Or.inr (Or.inr (Or.inl h))
    · refine Or.inr (Or.inr (Or.inr ⟨s0, h1, h2, ?_⟩))
      intro r hr
      obtain ⟨vd, hv1, hv2⟩ := cacheTry_false ω _ _ _ h2 r hr
      exact ⟨vd, hv1, by rw [h4]; exact List.mem_append_right _ hv2⟩

/-- the same for priority_queue_node (its `internal_push` cannot fail) -/
theorem forwarder_task_no_loss_prio (sk : Skel) (ω : Nat → Verdict) (hist : List (List NOp)) (arrivals : List NOp)
    (hsk : sk.okTotalPush = true) :
    let s := runHistory prioCore sk ω prioInit hist
    let s' := (handleOps prioCore sk ω s (batchOf arrivals)).1
    ((s.core.busy = true ↔ s.live = 1) ∧ s.live ≤ 1) ∧
    (hasTrigger prioCore ω (batchOf arrivals) s = true → s'.core.busy = true ∧ s'.live = 1) := by
  intro s s'
  have hL : LiveInv prioCore s := runHistory_live lawful_prio sk ω hist prioInit liveInv_init_prio
  refine ⟨hL, fun ht => ?_⟩
  exact handleOps_trigger lawful_prio (pres_true _) sk ω
    (goodSwitch_totalPush _ sk ω (fun _ => True) (fun st v _ => put_ok_prio st v) hsk) s _ trivial hL ht

/-- The pinned switch satisfies the hypothesis of `forwarder_task_no_loss` for buffer / queue / priority queue nodes,
the repaired one (`if (internal_push(tmp)) try_forwarding = true`) for every kind. -/
theorem pinned_switch_ok : Skel.pinned.okTotalPush = true ∧ Skel.pinned.ok = false ∧
    ({ Skel.pinned with putItem := .orAssign } : Skel).ok = true := by decide

/-- **Defect (sequencer_node, reproduced on the real node).**  `case put_item: try_forwarding = internal_push(tmp)`
ASSIGNS the flag: a put that the sequencer rejects (duplicate or stale sequence number) and that the handler finds
later in the same batch than an accepted put (i.e. it ARRIVED EARLIER) withdraws the forwarding request of the accepted
put.  Here: a sequencer with one registered, accepting successor and an idle forwarder receives, in one batch, the
rejected duplicate (arrived first) and item 0 (arrived second): item 0 is accepted (SUCCEEDED), the duplicate is FAILED,
no forwarding task is created, `forwarder_busy` stays false, and item 0 sits in the buffer with an accepting successor
registered — `wait_for_all()` returns without it ever being offered.  With the repaired switch the task is created. -/
theorem sequencer_failed_put_cancels_forward :
    let C := bufCore .sequencer 1 (· / 8)
    let s0 : NSt BufSt := { core := {}, succs := [0] }
    let r := handleOps C Skel.pinned (fun _ => .accept) s0 (batchOf [.putItem 1, .putItem 0])
    r.2.1 = [.succeeded, .failed] ∧ r.2.2 = false ∧ r.1.core.busy = false ∧ r.1.live = 0 ∧
      r.1.core.buf.view = [some (0, false)] ∧ r.1.succs = [0] ∧ r.1.offers = [] ∧
      hasTrigger C (fun _ => .accept) (batchOf [.putItem 1, .putItem 0]) s0 = true ∧
      (handleOps C { Skel.pinned with putItem := .orAssign } (fun _ => .accept) s0 (batchOf [.putItem 1, .putItem 0])).2.2 = true := by
  decide

/-- **The regenerated `size_t` index expressions** of `item_buffer` / `sequencer_node::internal_push` (translated from the
source text of the current tree into 64-bit wrap-around arithmetic, `Generated.C15`) mean what the model says, as long as
nothing wraps: `i & (my_array_size - 1)`, `my_item_valid`, `tag < my_head`, `new_tail = (tag+1 > my_tail) ? tag+1 : my_tail`,
`size(new_tail)`, the grow test. -/
theorem generated_index_expressions :
    (∀ i n, 0 < n → n < 2 ^ 64 → Generated.C15.slotIdx i n = ItemBuf.idx n i) ∧
    (∀ i head tail st, Generated.C15.itemValid i head tail st = (decide (i < tail) && decide (head ≤ i) && decide (st ≠ 0))) ∧
    (∀ tag head, Generated.C15.seqStale tag head = decide (tag < head)) ∧
    (∀ tag tail, tag + 1 < 2 ^ 64 → Generated.C15.seqNewTail tag tail = if tag + 1 > tail then tag + 1 else tail) ∧
    (∀ newTail tail head, newTail ≠ 0 → head ≤ newTail → newTail < 2 ^ 64 → Generated.C15.sizeOf newTail tail head = newTail - head) ∧
    (∀ sz cap, Generated.C15.seqGrowCond sz cap = decide (sz > cap)) ∧
    Generated.C15.sizeofSizeT = 8 :=
  ⟨gen_slotIdx, gen_itemValid, gen_seqStale, gen_seqNewTail, gen_sizeOf, gen_seqGrowCond, by decide⟩

/-- **The sequencer rejects duplicates and stays gap-free — in the code's `size_t` arithmetic, for sequence numbers far
beyond 2^32.**  `seqMach64` is the sequencer whose `internal_push` is computed with the regenerated 64-bit expressions
(`seqPush64`).  For every operation sequence whose sequence numbers are below 2^62: nothing wraps — the 64-bit machine
is the unbounded model, step for step (states and results) —, the ring never needs 2^63 slots, and in every reachable
state: no asserted precondition was violated; the items handed out carry exactly the numbers 0,1,…,`my_head`-1 in this
order (no gap, no duplicate, no overtaking); nothing accepted is lost; every buffered item sits at the index of its
number; a put whose number is below `my_head` (already emitted — in particular `my_head - 1`) is rejected and changes
nothing; a put whose number is already buffered (a duplicate) is rejected and changes nothing.
(Numbers ≥ 2^62 are outside the theorem: `tag + 1` wraps at 2^64 - 1, and `grow_my_array`'s doubling loop cannot
terminate for a minimum above 2^63; the array such a number would need does not fit in memory anyway.) -/
theorem sequencer_rejects_duplicates_and_keeps_gap_free (mode : Nat) (f : Nat → Nat) (ops : List BufOp)
    (hf : ∀ v, BufOp.put v ∈ ops → f v < 2 ^ 62) :
    (seqMach64 mode f).run ops = (bufMach .sequencer mode f).run ops ∧
    (let s := ((seqMach64 mode f).run ops).1
     s.ub = false ∧ s.buf.arr.length < 2 ^ 63 ∧ s.out.map f = List.range s.buf.head ∧
      (s.out ++ present s.buf.view).Perm s.acc ∧
      (∀ j x r, s.buf.view[j]? = some (some (x, r)) → f x = s.buf.head + j) ∧
      (∀ v, f v < s.buf.head → seqStep64 mode f s (.put v) = (s, .rejected)) ∧
      (∀ v x r, f v < 2 ^ 62 → s.buf.head ≤ f v → s.buf.view[f v - s.buf.head]? = some (some (x, r)) →
        (seqStep64 mode f s (.put v)).2 = .rejected ∧ (seqStep64 mode f s (.put v)).1.buf.view = s.buf.view ∧
        (seqStep64 mode f s (.put v)).1.out = s.out ∧ (seqStep64 mode f s (.put v)).1.acc = s.acc)) := by
  have he : (seqMach64 mode f).run ops = (bufMach .sequencer mode f).run ops :=
    seq64_runFrom mode f ops {} (sinv_init f) bnd_init hf
  refine ⟨he, ?_⟩
  intro s
  have hs' : s = ((bufMach .sequencer mode f).run ops).1 := by show ((seqMach64 mode f).run ops).1 = _; rw [he]
  obtain ⟨h, hb⟩ := seq_bnd_runFrom mode f ops {} (sinv_init f) bnd_init hf
  have h : SInv f s := by rw [hs']; exact h
  have hb : Bnd s := by rw [hs']; exact hb
  refine ⟨h.noub, hb.1, h.order, h.cons, h.tags, ?_, ?_⟩
  · intro v hv
    have hv62 : f v < 2 ^ 62 := by have := hb.2; have := h.wf.le; omega
    rw [(seqStep64_eq mode f s (.put v) h.wf hb (fun w e => by cases e; exact hv62)).1]
    have := (seqPush_spec s.buf h.wf (f v) v).1 hv
    simp [bufStep, h.noub, this]
  · intro v x r hv62 hge hocc
    rw [(seqStep64_eq mode f s (.put v) h.wf hb (fun w e => by cases e; exact hv62)).1]
    exact seq_dup_rejected mode f s h v x r hge hocc

-- sequence numbers beyond 2^32: nothing is truncated to 32 bits (items 2^32+1, 2^32, then a duplicate of 2^32+1, on a
-- sequencer whose my_head was brought to 2^32 by emitting 2^32 items is out of reach of `decide`; the small instance:)
example : ((seqMach64 0 (· / 8)).run [.put 17, .put 9, .fwd true, .put 3, .put 4, .fwd true, .fwd true, .fwd true, .put 1, .put 25, .put 26]).2 =
    [.ok, .ok, .none, .ok, .rejected, .offered 3 true, .offered 9 true, .offered 17 true, .rejected, .ok, .rejected] := by decide

/-! ## Extension (b): join_node as coded — `join_node_base::handle_operations` over batches, the three front ends, successors
that refuse tuples, any number of ports

`Join.runHistory F portStep ω s hist` executes a history of port events (messages arriving at ports / predecessors
offering items; they run on the ports' own aggregators) and batches of the base node (`reg_succ`, `rem_succ`, `try__get`,
`do_fwrd_bypass`, in reversed arrival order), the successors answering by the oracle `ω`. -/

open Join

/-- **Queueing join, as coded, any number of ports `n`, any history, any successor behaviour**: the conclusions of
`join_queueing_ith` hold in every reachable state of the coded protocol — every tuple handed on (accepted by a successor
or taken by `try_get`) is complete, the i-th tuple consists of the i-th message of every port, nothing is lost or
reordered at any port, `ports_with_no_items` is exact — and the tuple the loop offers is exactly the one `tuple_accepted`
then removes, while `tuple_rejected` leaves the front end untouched (so the same tuple is offered again at the re-try). -/
theorem join_queueing_ith_batches (n : Nat) (ω : Nat → Verdict) (hist : List (Ev (Nat × Nat))) :
    let s := (Join.runHistory jqFE (fun s pv => (jqStep s (.put pv.1 pv.2)).1) ω { fe := jqInit n } hist).fe
    (s.ub = false ∧ s.pwni = nEmpty s.ports ∧ (∀ t ∈ s.out, t.length = n) ∧
      (∀ p, p < n → s.out.map (fun t => t.getD p 0) ++ s.ports.getD p [] = s.acc.getD p []) ∧
      (∀ p i, p < n → i < s.out.length → (s.out.getD i []).getD p 0 = (s.acc.getD p []).getD i 0)) ∧
    (∀ t, jqFE.peek s = some t → (jqFE.attempt s true).out = s.out ++ [t] ∧ jqFE.attempt s false = s) := by
  intro s
  have h : JqInv n s := Join.runHistory_pres jqFE _ ω (JqInv n) (fun s a hp => jqinv_step n s (.fwd a) hp)
    (fun s pv hp => jqinv_step n s (.put pv.1 pv.2) hp) hist _ (jqinv_init n)
  refine ⟨⟨h.noub, h.cnt, h.tlen, h.fifo, ?_⟩, ?_⟩
  · intro p i hp hi
    have e := h.fifo p hp
    rw [← e]
    simp only [List.getD_eq_getElem?_getD]
    rw [List.getElem?_append_left (by simpa using hi), List.getElem?_map]
    cases s.out[i]? <;> simp
  · intro t ht
    refine ⟨?_, jq_attempt_false s⟩
    have hub : s.ub = false := h.noub
    simp only [jqFE, hub, Bool.false_or, ne_eq, decide_not, Bool.not_eq_true', decide_eq_false_iff_not, ite_not] at ht
    split at ht
    · rename_i h0
      show (jqStep s (.fwd true)).1.out = s.out ++ [t]
      simp [jqStep, hub, h0, ht]
    · cases ht

/-- **Key-matching join, as coded** (any `n`, history, successor behaviour): the conclusions of
`join_key_matching_same_key_once` hold in every reachable state; the tuple offered is the front of the front end's output
buffer, `tuple_accepted` removes exactly it, and a refused tuple stays there (the key's messages were taken out of the
ports when the tuple was built, and are used in that one tuple only). -/
theorem join_key_matching_same_key_once_batches (n : Nat) (kf : Nat → Nat) (hn : 0 < n) (ω : Nat → Verdict)
    (hist : List (Ev (Nat × Nat))) :
    let s := (Join.runHistory (jkFE kf) (fun s pv => (jkStep kf s (.put pv.1 pv.2)).1) ω { fe := jkInit n } hist).fe
    (s.ub = false ∧ (∀ t ∈ s.outbuf ++ s.out, t.length = n ∧ ∃ k, ∀ v ∈ t, kf v = k) ∧
      (∀ t ∈ s.ports, ∀ x ∈ t, kf x.2 = x.1) ∧
      (∀ k, (Assoc.find s.counts k).getD 0 = holders s.ports k ∧ holders s.ports k < n)) ∧
    (∀ t, (jkFE kf).peek s = some t →
      (∃ rest, s.outbuf = t :: rest ∧ ((jkFE kf).attempt s true).outbuf = rest ∧ ((jkFE kf).attempt s true).out = s.out ++ [t]) ∧
      (jkFE kf).attempt s false = s) := by
  intro s
  have h : JkInv n kf s := Join.runHistory_pres (jkFE kf) _ ω (JkInv n kf) (fun s a hp => jkinv_step n kf s (.fwd a) hp)
    (fun s pv hp => jkinv_step n kf s (.put pv.1 pv.2) hp) hist _ (jkinv_init n kf hn)
  refine ⟨⟨h.noub, h.tuples, h.keyed, fun k => ⟨h.cnt k, h.lt k⟩⟩, ?_⟩
  intro t ht
  refine ⟨?_, jk_attempt_false kf s⟩
  have hub : s.ub = false := h.noub
  simp only [jkFE, hub, Bool.false_eq_true, if_false] at ht
  cases hob : s.outbuf with
  | nil => rw [hob] at ht; cases ht
  | cons x rest =>
    rw [hob] at ht
    simp only [List.head?_cons, Option.some.injEq] at ht
    subst ht
    refine ⟨rest, rfl, ?_, ?_⟩
    · show (jkStep kf s (.fwd true)).1.outbuf = rest
      simp [jkStep, hub, hob]
    · show (jkStep kf s (.fwd true)).1.out = s.out ++ [x]
      simp [jkStep, hub, hob]

/-- **Reserving join, as coded: all or nothing** (any `n`, any history of predecessor offers and base-node batches, any
successor behaviour): between attempts no port is left reserved; one attempt (`try_to_make_tuple` + verdict) consumes at
the ports only if every port could be reserved AND a successor accepted the tuple — then every port is consumed — and in
every other case (a port without an item, a refused tuple) every reservation made is released and nothing is consumed. -/
theorem join_reserving_all_or_nothing_batches (n : Nat) (ω : Nat → Verdict) (hist : List (Ev (Nat × Nat))) :
    let s := (Join.runHistory jrFE jrOffer ω { fe := jrInit n } hist).fe
    s.core.resv = List.replicate n false ∧ s.core.n = n ∧
    (∀ a, (jrFE.attempt s a).core.resv = List.replicate n false) ∧
    (∀ a, (jrFE.peek s = none ∨ a = false) → ∀ e ∈ (jrFE.attempt s a).evs, isConsume e = false) := by
  intro s
  have h : JrOk n s := Join.runHistory_pres jrFE jrOffer ω (JrOk n) (fun s a hp => jr_attempt_ok n s a hp)
    (fun s pv hp => jr_offer_ok n s pv hp) hist _ ⟨rfl, rfl⟩
  refine ⟨h.1, h.2, fun a => (jr_attempt_ok n s a h).1, ?_⟩
  intro a ha
  show ∀ e ∈ (jrAttempt s a).evs, isConsume e = false
  by_cases h0 : s.pwni = 0
  · rw [jr_attempt_events s a h0]
    rcases ha with hpk | rfl
    · have hfp : (jrFailPort s.avail s.core.n).isSome = true := by
        cases hf : jrFailPort s.avail s.core.n with
        | some k => rfl
        | none =>
          have : jrFE.peek s = some (s.avail.map (·.getD 0)) := by
            simp only [jrFE, h0, ne_eq, not_true_eq_false, if_false, hf]
          rw [this] at hpk; cases hpk
      simp only [hfp, if_true]
      exact (jrEvents_spec s.core.n _ false).2.1 (Or.inr rfl)
    · have hc : (if (jrFailPort s.avail s.core.n).isSome then false else false) = false := by split <;> rfl
      rw [hc]
      exact (jrEvents_spec s.core.n _ false).2.1 (Or.inr rfl)
  · unfold jrAttempt
    rw [if_pos h0]
    intro e he; cases he

/-- **A refused tuple consumes nothing.**  When `do_fwrd_bypass` builds a tuple that every successor refuses, the handler
makes exactly one attempt and ends it with `tuple_rejected`: every successor of the cache was offered that tuple and none
took it; `forwarder_busy` is cleared; and the front end is as before the attempt — queueing: all ports, the counter and
the log untouched (the items stay at the fronts); key_matching: the tuple stays at the front of the output buffer;
reserving: every reservation is released, no port consumed anything, the predecessors still hold their items. -/
theorem join_no_partial_consumption_on_reject {σ : Type} (F : FE σ) (ω : Nat → Verdict) (s : JSt σ) (t : List Nat)
    (hm : F.maySucceed s.fe = true) (hp : F.peek s.fe = some t) (hr : (bcastTry ω t s.succs s.tick).1 = false) :
    ((Join.handleOne F ω s .doFwd).1.fe = F.attempt s.fe false ∧ (Join.handleOne F ω s .doFwd).1.busy = false ∧
      ∀ r ∈ s.succs, ∃ vd, vd ≠ Verdict.accept ∧ (r, t, vd) ∈ (Join.handleOne F ω s .doFwd).1.offers) ∧
    (∀ q : JqSt, jqFE.attempt q false = q) ∧ (∀ kf (q : JkSt), (jkFE kf).attempt q false = q) ∧
    (∀ q : JrFe, (∀ e ∈ (jrFE.attempt q false).evs, isConsume e = false) ∧ (jrFE.attempt q false).avail = q.avail ∧
      (jrFE.attempt q false).core.out = q.core.out) := by
  obtain ⟨h1, h2, h3⟩ := doFwd_refused F ω s t hm hp hr
  refine ⟨⟨h1, h3, ?_⟩, jq_attempt_false, jk_attempt_false, jr_attempt_false⟩
  intro r hr'
  obtain ⟨vd, hv1, hv2⟩ := bcastTry_false ω t _ _ hr r hr'
  exact ⟨vd, hv1, by rw [h2]; exact List.mem_append_right _ hv2⟩

-- join_node as coded: both ports filled; do_fwrd_bypass with no successor builds the tuple and rejects it (nothing consumed);
-- reg_succ creates the forwarder; its first offer is refused (the successor stays), the re-try is accepted
example :
    let ω : Nat → Verdict := fun k => if k == 0 then .reject else .accept
    let put : JqSt → Nat × Nat → JqSt := fun s pv => (jqStep s (.put pv.1 pv.2)).1
    let s := Join.runHistory jqFE put ω { fe := jqInit 2 }
      [.port (0, 1), .port (1, 10), .batch [.regSucc 7, .doFwd], .batch [.doFwd], .batch [.doFwd]]
    s.offers = [(7, [1, 10], .reject), (7, [1, 10], .accept)] ∧ s.fe.out = [[1, 10]] ∧ s.fe.ports = [[], []] ∧ s.tasks = 1 := by decide

-- reserving join with 3 ports: the refused tuple releases all three reservations, nothing is consumed
example :
    let s := Join.runHistory jrFE jrOffer (fun _ => .reject) { fe := jrInit 3, succs := [0] }
      [.port (0, 5), .port (1, 6), .port (2, 7), .batch [.doFwd]]
    s.fe.evs = [.reserve 2 7, .reserve 1 6, .reserve 0 5, .release 0, .release 1, .release 2] ∧
      s.fe.avail = [some 5, some 6, some 7] ∧ s.fe.core.resv = [false, false, false] ∧ s.offers = [(0, [5, 6, 7], .reject)] := by decide

-- a batch is executed in REVERSED arrival order: `get` arrived last, so it runs first and finds the queue empty;
-- then 2 is pushed before 1
example : let r := handleOps (bufCore .queue 1 id) Skel.pinned (fun _ => .accept) bufInit (batchOf [.putItem 1, .putItem 2, .reqItem])
    r.2.1 = [.failed, .succeeded, .succeeded] ∧ r.1.core.buf.view = [some (2, false), some (1, false)] ∧ r.2.2 = true := by decide

-- a forwarder whose offers are refused by a successor that stays in the cache gives up (FAILED clears the flag) …
example : let s1 := (handleOps (bufCore .queue 1 id) Skel.pinned (fun _ => .reject) { core := {}, succs := [7] } [.putItem 5]).1
    s1.core.busy = true ∧ s1.live = 1 ∧
    (handleOps (bufCore .queue 1 id) Skel.pinned (fun _ => .reject) s1 [.tryFwd]).1.core.busy = false ∧
    (handleOps (bufCore .queue 1 id) Skel.pinned (fun _ => .reject) s1 [.tryFwd]).1.offers = [(7, 5, .reject)] := by decide

-- … and in the batch [failing try_fwd_task, put] (the forwarder is about to exit when the put arrives) a new one is created
example : let s1 := (handleOps (bufCore .queue 1 id) Skel.pinned (fun _ => .rejectPull) { core := {}, succs := [7] } [.putItem 5]).1
    let r := handleOps (bufCore .queue 1 id) Skel.pinned (fun _ => .rejectPull) s1 (batchOf [.putItem 6, .tryFwd])
    r.2.1 = [.failed, .succeeded] ∧ r.2.2 = true ∧ r.1.core.busy = true ∧ r.1.live = 1 ∧ r.1.succs = [] := by decide

end TbbVerif.C15
