/-
C15 — property theorems (statements only live here; helper lemmas are in Proofs/C15/*.lean).

Property: queue_node forwards in arrival order; sequencer_node forwards exactly 0,1,2,… in order; priority_queue_node
forwards a highest-priority buffered item; buffer/queue/priority nodes never lose an item whose reservation was
released nor consume one twice; join_node emits only complete tuples (queueing: i-th tuple = i-th message of every
port; key_matching: same key, used once; reserving: all-or-nothing); limiter_node never has more than its threshold
of un-decremented forwarded messages; overwrite/write_once deliver the latest/first value to every present and
future successor; broadcast delivers to all; split/indexer route every element to the matching port.

Every node operation is an atomic step (aggregator handler / mutex), so "for all interleavings" is
"for all operation sequences" `ops : List Op` of the node machine, with the successors' verdicts as oracles.
-/
import TbbVerif.Proofs.C15

namespace TbbVerif.C15
open ItemBuf

/-! ## item_buffer -/

/-- **No slot collision**: inside a window of `my_array_size` consecutive indices two different indices never
share a slot of the ring (`i & (size-1)`). -/
theorem itembuf_no_slot_collision (b : ItemBuf) (hw : WF b) (i j : Nat)
    (hi : b.head ≤ i) (hi' : i < b.head + b.arr.length) (hj : b.head ≤ j) (hj' : j < b.head + b.arr.length)
    (hne : i ≠ j) : idx b.arr.length i ≠ idx b.arr.length j := by
  rw [idx_eq hw.pow, idx_eq hw.pow]; exact mod_window_ne hi hi' hj hj' hne

/-- **grow_my_array preserves the map** index ↦ (item, state) on `[head, tail)` — reserved slots stay reserved,
holes stay holes — keeps the ring well formed and makes room for `minimum_size` items. -/
theorem itembuf_grow_preserves (b : ItemBuf) (hw : WF b) (m : Nat) :
    WF (b.grow m) ∧ (b.grow m).view = b.view ∧ (b.grow m).head = b.head ∧ (b.grow m).tail = b.tail ∧
      m ≤ (b.grow m).arr.length := by
  have g := grow_wf b m (Or.inr hw.pow) hw.le (Or.inl hw.cap)
  exact ⟨g.1, view_congr b _ rfl rfl g.2.1, rfl, rfl, g.2.2.1⟩

/-- **The ring refines the finite map** `view : [head,tail) → slot`: the freshly constructed buffer is the empty
map and every operation of `item_buffer` acts on the map as the obvious list operation (and preserves
well-formedness): push_back appends; pop_front / pop_back remove an end (only if it holds an item);
reserve/release flip the state of the front; the sequencer placement refuses tags below `head`, pads with holes
and fills exactly the tag's slot if it is empty. -/
theorem itembuf_refines_map (b : ItemBuf) (hw : WF b) :
    (WF ItemBuf.empty ∧ ItemBuf.empty.view = []) ∧
    (∀ v, WF (b.pushBack v) ∧ (b.pushBack v).head = b.head ∧ (b.pushBack v).view = b.view ++ [some (v, false)]) ∧
    (∀ v r rest, b.view = some (v, r) :: rest →
        ∃ b', b.popFront = some (v, b') ∧ WF b' ∧ b'.view = rest ∧ b'.head = b.head + 1) ∧
    ((b.view = [] ∨ ∃ rest, b.view = none :: rest) → b.popFront = none) ∧
    (∀ v r init, b.view = init ++ [some (v, r)] →
        ∃ b', b.popBack = some (v, b') ∧ WF b' ∧ b'.view = init ∧ b'.head = b.head) ∧
    ((b.view = [] ∨ ∃ init, b.view = init ++ [none]) → b.popBack = none) ∧
    (∀ v r rest, b.view = some (v, r) :: rest →
        ∃ b', b.reserveFront = some (v, b') ∧ WF b' ∧ b'.view = some (v, true) :: rest ∧ b'.head = b.head) ∧
    (∀ v rest, b.view = some (v, true) :: rest →
        ∃ b', b.releaseFront = some b' ∧ WF b' ∧ b'.view = some (v, false) :: rest ∧ b'.head = b.head) ∧
    (∀ tag v, (tag < b.head → b.seqPush tag v = none) ∧
      (b.head ≤ tag → ∃ b' p, b.seqPush tag v = some (b', p) ∧ WF b' ∧ b'.head = b.head ∧
        (p = false → b'.view = b.view ++ List.replicate (b'.tail - b.tail) none ∧
            ∃ x, (b.view ++ List.replicate (b'.tail - b.tail) none)[tag - b.head]? = some (some x)) ∧
        (p = true → (b.view ++ List.replicate (b'.tail - b.tail) none)[tag - b.head]? = some none ∧
            b'.view = (b.view ++ List.replicate (b'.tail - b.tail) none).set (tag - b.head) (some (v, false))))) := by
  refine ⟨⟨empty_wf.1, ?_⟩, ?_, ?_, popFront_none b, ?_, popBack_none b, ?_, ?_, ?_⟩
  · apply List.eq_nil_of_length_eq_zero; rw [view_length, empty_wf.2.1, empty_wf.2.2]
  · intro v; have := pushBack_spec b hw v; exact ⟨this.1, this.2.1, this.2.2.2⟩
  · intro v r rest h; obtain ⟨b', h1, h2, h3, h4, _⟩ := popFront_some b hw v r rest h; exact ⟨b', h1, h2, h3, h4⟩
  · intro v r init h; obtain ⟨b', h1, h2, h3, h4, _⟩ := popBack_some b hw v r init h; exact ⟨b', h1, h2, h3, h4⟩
  · intro v r rest h; obtain ⟨b', h1, h2, h3, h4, _⟩ := reserveFront_some b hw v r rest h; exact ⟨b', h1, h2, h3, h4⟩
  · intro v rest h; obtain ⟨b', h1, h2, h3, h4, _⟩ := releaseFront_some b hw v rest h; exact ⟨b', h1, h2, h3, h4⟩
  · intro tag v
    obtain ⟨h1, h2⟩ := seqPush_spec b hw tag v
    refine ⟨h1, fun hge => ?_⟩
    obtain ⟨b', p, e1, e2, e3, _, e5, e6⟩ := h2 hge
    exact ⟨b', p, e1, e2, e3, e5, e6⟩

/-! ## queue_node -/

/-- **FIFO**: for every sequence of node operations (puts, try_gets, reservations, releases, consumes, forwarding
attempts with any accept/reject pattern), the items that left the queue_node, in the order they left, followed by
the items still buffered, in buffer order, are exactly the accepted puts in arrival order.  In particular the
output order is a prefix of the arrival order: nothing overtakes, nothing is lost, nothing is duplicated. -/
theorem queue_fifo (mode : Nat) (f : Nat → Nat) (ops : List BufOp) :
    let s := ((bufMach .queue mode f).run ops).1
    s.ub = false ∧ s.out <+: s.acc ∧
      ∃ items, s.buf.view = qview s.reserved items ∧ s.out ++ items = s.acc := by
  intro s
  obtain ⟨_, noub, items, hv, _, _, hq⟩ := ninv_run .queue mode f (by decide) (by intro h; cases h) ops
  exact ⟨noub, ⟨items, hq rfl⟩, items, hv, hq rfl⟩

/-! ## sequencer_node -/

/-- **Exact order**: whatever the order in which sequence numbers arrive (any permutation, duplicates, stale
numbers) and whatever the successors do, the items handed out carry exactly the numbers `0,1,2,…,head-1` in
this order — no gap, no duplicate, no overtaking; every item handed out was accepted and nothing accepted is
lost (multiset conservation); an item whose number is below `my_head` is rejected and changes nothing. -/
theorem sequencer_exact_order (mode : Nat) (f : Nat → Nat) (ops : List BufOp) :
    let s := ((bufMach .sequencer mode f).run ops).1
    s.ub = false ∧ s.out.map f = List.range s.buf.head ∧
      (s.out ++ present s.buf.view).Perm s.acc ∧
      (∀ j x r, s.buf.view[j]? = some (some (x, r)) → f x = s.buf.head + j) ∧
      (∀ v, f v < s.buf.head → bufStep .sequencer mode f s (.put v) = (s, .rejected)) := by
  intro s
  have h : SInv f s := sinv_run mode f ops
  have noub : s.ub = false := h.noub
  refine ⟨noub, h.order, h.cons, h.tags, ?_⟩
  intro v hv
  have := (seqPush_spec s.buf h.wf (f v) v).1 hv
  simp [bufStep, noub, this]

/-! ## priority_queue_node -/

/-- **A forwarded item is a highest-priority one.**  In every reachable state, whatever a step hands out
(`try_get`, `try_reserve`, or the item offered to a successor) is an element of the buffer that dominates the whole
heap part `[0,mark)` and the most recently pushed element.  At every aggregator batch boundary (`order()` has run:
`mark = my_tail`) this is the maximum of everything buffered.  (Inside one aggregator batch, pushes of the same
batch other than the last are not yet ordered — they are concurrent with the pop.)  Nothing is lost or
duplicated: handed out ++ buffered ++ reserved is a permutation of the accepted puts. -/
theorem prio_emits_max (ops : List PrioOp) (op : PrioOp) (x : Nat) :
    let s := (prioMach.run ops).1
    (emitted (prioStep s op).2 = some x →
      x ∈ s.data ∧ (∀ i, i < s.mark → s.data.getD i 0 ≤ x) ∧ s.data.getD (s.data.length - 1) 0 ≤ x ∧
      (s.mark = s.data.length → ∀ y ∈ s.data, y ≤ x)) ∧
    (s.out ++ s.data ++ s.resv.toList).Perm s.acc ∧
    s.order.mark = s.order.data.length := by
  intro s
  have h := prio_inv ops
  refine ⟨fun hx => ?_, h.cons, order_mark s h⟩
  obtain ⟨h1, h2, h3⟩ := prio_emits s op h x hx
  exact ⟨h1, h2, h3, fun hm => prio_emits_max_of_ordered s op h hm x hx⟩

/-! ## reservations (buffer_node, queue_node) -/

/-- **Reservations are safe** for queue_node, and for buffer_node provided its `try_get` respects a
reservation (`mode ≥ 1`; `mode = Generated.C15.bufferPopMode` is what the real node does, probed on every run):
for every operation sequence no asserted precondition of item_buffer is ever violated (no double destruction),
the window is a list of items of which only the front may be reserved, a reservation always has its item, and
handed-out ++ buffered is a permutation of the accepted puts (no item lost, none handed out twice). -/
theorem buffer_reservation_safe (k : Kind) (mode : Nat) (f : Nat → Nat) (hk : k ≠ .sequencer)
    (hm : k = .buffer → 1 ≤ mode) (ops : List BufOp) :
    let s := ((bufMach k mode f).run ops).1
    s.ub = false ∧ ∃ items, s.buf.view = qview s.reserved items ∧ (s.reserved = true → items ≠ []) ∧
      (s.out ++ items).Perm s.acc := by
  intro s
  obtain ⟨_, noub, items, hv, hne, hp, _⟩ := ninv_run k mode f hk hm ops
  exact ⟨noub, items, hv, hne, hp⟩

/-- **A released reservation returns the item, a consumed one removes exactly it, never both**: in a reachable
state holding a reservation on `x`, `release` puts `x` back at the front (unreserved, nothing handed out),
`consume` removes exactly `x` and logs it as handed out, and each ends the reservation; while the reservation is
held, `try_get`, `try_reserve` and forwarding of a queue_node hand out nothing. -/
theorem reservation_release_consume (k : Kind) (mode : Nat) (f : Nat → Nat) (hk : k ≠ .sequencer)
    (hm : k = .buffer → 1 ≤ mode) (ops : List BufOp) (x : Nat) (rest : List Slot) :
    let s := ((bufMach k mode f).run ops).1
    s.reserved = true → s.buf.view = some (x, true) :: rest →
      (let s' := (bufStep k mode f s .release).1
       s'.buf.view = some (x, false) :: rest ∧ s'.reserved = false ∧ s'.out = s.out ∧ s'.acc = s.acc) ∧
      (let s' := (bufStep k mode f s .consume).1
       s'.buf.view = rest ∧ s'.reserved = false ∧ s'.out = s.out ++ [x] ∧ s'.acc = s.acc) ∧
      (k = .queue → ∀ a, (bufStep k mode f s .get).2 = .none ∧ (bufStep k mode f s .reserve).2 = .none ∧
          (bufStep k mode f s (.fwd a)).2 = .none) := by
  intro s hr hv
  have h := ninv_run k mode f hk hm ops
  have noub : s.ub = false := h.noub
  refine ⟨?_, ?_, ?_⟩
  · obtain ⟨b', hp, _, hv', _, _⟩ := releaseFront_some s.buf h.wf x rest hv
    simp [bufStep, noub, hr, hp, hv']
  · obtain ⟨b', hp, _, hv', _, _⟩ := popFront_some s.buf h.wf x true rest hv
    simp [bufStep, noub, hr, consumeFront, hp, hv']
  · intro hq a; subst hq; simp [bufStep, noub, hr]

/-- **A reservation pins its item**: while the reservation on `x` is held, no operation other than release /
consume — puts (incl. ring growth), try_gets of the other items of a buffer_node, further reserve attempts,
forwarding attempts — removes, hands out or un-reserves `x`: it stays the reserved front item. -/
theorem reserved_front_stable (k : Kind) (mode : Nat) (f : Nat → Nat) (hk : k ≠ .sequencer)
    (hm : k = .buffer → 1 ≤ mode) (ops : List BufOp) (x : Nat) (rest : List Slot) (op : BufOp) :
    let s := ((bufMach k mode f).run ops).1
    s.reserved = true → s.buf.view = some (x, true) :: rest → op ≠ .release → op ≠ .consume →
      (bufStep k mode f s op).1.reserved = true ∧ ∃ rest', (bufStep k mode f s op).1.buf.view = some (x, true) :: rest' := by
  intro s hr hv h1 h2
  exact reserved_front_stable_step k mode f hk hm s (ninv_run k mode f hk hm ops) x rest hr hv op h1 h2

/-- The pinned tree's buffer_node (`mode = 0`: `internal_pop` = `pop_back` without looking at `my_reserved`)
does NOT have the property: `put 7; try_reserve → 7; try_get → 7` hands the reserved item out a second time, and
the following `try_consume` violates the asserted precondition of `destroy_front` (undefined behaviour; on the
real node `my_head` overtakes `my_tail` and a later item is lost).  See KNOWN_FINDINGS / the C15 replay. -/
theorem buffer_node_unguarded_get_steals_reserved :
    ((bufMach .buffer 0 id).run [.put 7, .reserve, .get, .consume]).2 = [.ok, .item 7, .item 7, .ub] := by
  decide

/-! ## limiter_node -/

/-- **Threshold bound.**  `outst` is the ghost counter of messages really forwarded (accepted by a successor) and
not yet decremented (each positive decrement is subtracted as far as the node applies it; a negative decrement
only lowers the capacity).  For every interleaving of put attempts (admission / successor verdict / completion as
three separate steps, so decrements race puts at every point), forward tasks and decrements with ANY integer
delta, `outst ≤ threshold`; more precisely even together with all in-flight puts that may still be forwarded. -/
theorem limiter_bound (threshold : Nat) (ops : List LimOp) :
    let s := ((limMach threshold).run ops).1
    s.outst ≤ (threshold : Int) ∧ s.outst + s.pend + s.rejd ≤ (threshold : Int) ∧
      s.outst ≤ (s.count : Int) + s.accd - s.future ∧ s.tries = s.pend + s.accd + s.rejd := by
  intro s
  have h : LInv s := linv_run threshold ops
  have ht : s.threshold = threshold := by
    apply Mach.inv_run (limMach threshold) (fun s => s.threshold = threshold) rfl
    intro s o hs; unfold limMach limStep; cases o <;> dsimp only <;> (repeat' split) <;> simp_all
  have i2 := h.i2
  rw [ht] at i2
  exact ⟨by omega, i2, h.i1, h.tr⟩

/-- With non-negative decrements the counters themselves obey `my_count + my_tries ≤ threshold`, and `my_count`
(+ accepted puts in flight − `my_future_decrement`) *is* the ghost counter: `my_future_decrement` is paid back
exactly.  (A negative decrement may push `my_count` to — and a racing put then above — the threshold, which is
why `limiter_bound` is not stated on `my_count`.) -/
theorem limiter_counters_nonneg (threshold : Nat) (ops : List LimOp) (hp : ∀ o ∈ ops, nonnegOp o) :
    let s := ((limMach threshold).run ops).1
    s.count + s.tries ≤ s.threshold ∧ s.outst = (s.count : Int) + s.accd - s.future := by
  intro s
  have h := linvpos_run threshold ops hp
  exact ⟨h.ct, h.eq⟩

/-! ## join_node -/

/-- **Queueing join: the i-th tuple is the i-th message of every port.**  For every arrival order at the ports and
every accept/reject pattern of the successors: every emitted tuple is complete (`n` components); for each port
`p`, the `p`-components of the emitted tuples, in order, followed by what is still queued at the port, are the
messages accepted at `p` in arrival order; `ports_with_no_items` equals the number of empty ports (the counter
never wraps). -/
theorem join_queueing_ith (n : Nat) (ops : List JqOp) :
    let s := ((jqMach n).run ops).1
    s.ub = false ∧ s.pwni = nEmpty s.ports ∧ (∀ t ∈ s.out, t.length = n) ∧
      (∀ p, p < n → s.out.map (fun t => t.getD p 0) ++ s.ports.getD p [] = s.acc.getD p []) ∧
      (∀ p i, p < n → i < s.out.length → (s.out.getD i []).getD p 0 = (s.acc.getD p []).getD i 0) := by
  intro s
  have h := jqinv_run n ops
  refine ⟨h.noub, h.cnt, h.tlen, h.fifo, ?_⟩
  intro p i hp hi
  have e := h.fifo p hp
  rw [← e]
  simp only [List.getD_eq_getElem?_getD]
  rw [List.getElem?_append_left (by simpa using hi), List.getElem?_map]
  cases s.out[i]? <;> simp

/-- **Key-matching join: same key, used once.**  Every tuple ever built is complete and all its components carry
the same key; every stored message is filed under its own key; the count table counts the ports holding a key,
and a key never stays held by all ports — its tuple is formed in the very step that completes it, taking the
key's message out of every port (so a stored message is used in at most one tuple). -/
theorem join_key_matching_same_key_once (n : Nat) (kf : Nat → Nat) (hn : 0 < n) (ops : List JkOp) :
    let s := ((jkMach n kf).run ops).1
    s.ub = false ∧ (∀ t ∈ s.outbuf ++ s.out, t.length = n ∧ ∃ k, ∀ v ∈ t, kf v = k) ∧
      (∀ t ∈ s.ports, ∀ x ∈ t, kf x.2 = x.1) ∧
      (∀ k, (Assoc.find s.counts k).getD 0 = holders s.ports k ∧ holders s.ports k < n) := by
  intro s
  have h := jkinv_run n kf hn ops
  exact ⟨h.noub, h.tuples, h.keyed, fun k => ⟨h.cnt k, h.lt k⟩⟩

/-- As coded, a put whose key is already present at the port is answered FAILED but *replaces* the stored
message (hash_buffer::insert_with_key): the earlier, accepted message is dropped. (Observation, kept as a lemma
so that the model cannot silently drift from it.) -/
theorem join_key_matching_duplicate_overwrites :
    let r := (jkMach 2 (· / 8)).run [.put 0 9, .put 0 10, .put 1 11, .fwd true]
    r.2 = [.ok false, .none, .ok true, .tuple [10, 11] true] := by
  decide

/-- **Reserving join: all or nothing.**  One tuple attempt (`try_to_make_tuple` + the successors' verdict) leaves
every port unreserved; items are consumed only if *every* port could be reserved and the tuple was accepted, and
then every port is consumed (the tuple consisting of exactly the reserved items); in every other case there is no
consume event at all (every reservation made is released).  Hence after any sequence of attempts no port is left
reserved. -/
theorem join_reserving_all_or_nothing (n : Nat) :
    (∀ ops, ((jrMach n).run ops).1.resv = List.replicate n false) ∧
    (∀ avail accept,
      (((jrEvents n avail accept).2 = none ∨ accept = false) → ∀ e ∈ (jrEvents n avail accept).1, isConsume e = false) ∧
      (∀ t, (jrEvents n avail accept).2 = some t → t.length = n ∧ ∀ p, p < n → avail p = some (t.getD p 0)) ∧
      (∀ t, (jrEvents n avail accept).2 = some t → accept = true →
        ∀ p, p < n → JrEv.consume p ∈ (jrEvents n avail accept).1 ∧ JrEv.reserve p (t.getD p 0) ∈ (jrEvents n avail accept).1)) :=
  ⟨fun ops => (jr_resv_run n ops).1, fun avail accept => (jrEvents_spec n avail accept).2⟩

/-! ## overwrite_node / write_once_node / broadcast_node / split_node / indexer_node -/

/-- **overwrite_node delivers the latest value to every present and future successor**: in every reachable state
with a valid buffer, the latest offer made to every successor of the push cache is the buffered value; a put
stores its value (it is what `try_get` returns afterwards) and offers it to every present successor; a successor
registered later is offered the buffered value at once. -/
theorem overwrite_latest_to_all (ops : List OwOp) :
    let s := ((owMach false).run ops).1
    (∀ v, s.buf = some v → ∀ r ∈ s.succs, lastOffer s.offers r = some v) ∧
    (∀ v leave, (owStep false s (.put v leave)).1.buf = some v ∧
        (owStep false s (.put v leave)).1.offers = s.offers ++ s.succs.map (fun r => (r, v)) ∧
        (owStep false (owStep false s (.put v leave)).1 .get).2 = .item v) ∧
    (∀ v r a, s.buf = some v → (owStep false s (.reg r a)).1.offers = s.offers ++ [(r, v)]) := by
  intro s
  refine ⟨oinv_run false ops, ?_, ?_⟩
  · intro v leave; simp [owStep]
  · intro v r a hb; simp only [owStep, hb]; split <;> rfl

/-- **write_once_node keeps the first value**: once valid, the buffer is changed by nothing but `clear()` — later
puts are rejected — and (as for overwrite_node) every present successor got it and every future one gets it. -/
theorem write_once_first_to_all (ops : List OwOp) :
    let s := ((owMach true).run ops).1
    (∀ v, s.buf = some v → ∀ r ∈ s.succs, lastOffer s.offers r = some v) ∧
    (∀ w op, s.buf = some w → op ≠ .clear → (owStep true s op).1.buf = some w) ∧
    (∀ w v leave, s.buf = some w → (owStep true s (.put v leave)) = (s, .rejected)) ∧
    (∀ v r a, s.buf = some v → (owStep true s (.reg r a)).1.offers = s.offers ++ [(r, v)]) := by
  intro s
  refine ⟨oinv_run true ops, ?_, ?_, ?_⟩
  · intro w op hb hne
    cases op with
    | put v leave => simp [owStep, hb]
    | reg r a => simp only [owStep, hb]; split <;> rfl
    | rem r => simpa [owStep] using hb
    | get => simp only [owStep, hb]
    | clear => exact absurd rfl hne
  · intro w v leave hb; simp [owStep, hb]
  · intro v r a hb; simp only [owStep, hb]; split <;> rfl

/-- **broadcast_node delivers to all successors**: one offer of the value to each successor, in cache order. -/
theorem broadcast_all (succs : List Nat) (v : Nat) :
    (broadcastPut succs v).map (·.1) = succs ∧ ∀ o ∈ broadcastPut succs v, o.2 = v := by
  constructor
  · simp [broadcastPut, Function.comp_def]
  · intro o ho; simp [broadcastPut] at ho; obtain ⟨_, _, rfl⟩ := ho; rfl

/-- **split_node / indexer_node route every element to the matching port**: element `i` of the tuple goes to
output port `i` (and nothing else is emitted); a message arriving at input port `p` of an indexer reaches every
successor tagged with `p`. -/
theorem split_indexer_routing (t : List Nat) (succs : List Nat) (p v : Nat) :
    ((splitPut t).length = t.length ∧ ∀ i, i < t.length → (splitPut t)[i]? = some (i, t.getD i 0)) ∧
    ((indexerPut succs p v).map (·.1) = succs ∧ ∀ o ∈ indexerPut succs p v, o.2 = (p, v)) := by
  refine ⟨⟨by simp [splitPut], ?_⟩, ?_, ?_⟩
  · intro i hi
    simp only [splitPut, List.getElem?_zip_eq_some]
    refine ⟨by simp [hi], ?_⟩
    simp [List.getD_eq_getElem?_getD, hi]
  · simp [indexerPut, Function.comp_def]
  · intro o ho; simp [indexerPut] at ho; obtain ⟨_, _, rfl⟩ := ho; rfl

/-! ## Non-vacuity: concrete runs of the executable models -/

-- ring growth with a reserved slot and holes (sequencer placement), as white-box tested against the real code
example : (((((ItemBuf.empty.pushBack 5).pushBack 6).pushBack 7).pushBack 8).pushBack 9).view =
    [some (5, false), some (6, false), some (7, false), some (8, false), some (9, false)] := by decide

example : ((bufMach .queue 0 id).run [.put 1, .put 2, .reserve, .get, .put 3, .release, .fwd true, .get]).2 =
    [.ok, .ok, .item 1, .none, .ok, .ok, .offered 1 true, .item 2] := by decide

example : ((bufMach .sequencer 0 (· / 8)).run [.put 17, .put 9, .fwd true, .put 3, .put 4, .fwd true, .fwd true, .fwd true, .put 1]).2 =
    [.ok, .ok, .none, .ok, .rejected, .offered 3 true, .offered 9 true, .offered 17 true, .rejected] := by decide

-- the batch [push 9, push 7, pop] pops 7 although 9 is buffered (mark < tail), then order() heapifies
example : (prioMach.run [.put 5, .order, .put 9, .put 7, .get, .order, .get]).2 =
    [.ok, .ok, .ok, .ok, .item 7, .ok, .item 9] := by decide

-- a decrement racing a put: it is banked in my_future_decrement and paid by the put's completion
example : ((limMach 1).run [.begin true, .dec 1, .verdict true, .endOk, .begin true, .verdict true, .endOk, .begin true]).2 =
    [.admitted, .done, .done, .done, .admitted, .done, .done, .rejected] ∧
    ((limMach 1).run [.begin true, .dec 1, .verdict true, .endOk, .begin true, .verdict true, .endOk]).1.outst = 1 := by decide

example : ((jqMach 2).run [.put 0 1, .put 0 2, .put 1 10, .fwd true, .put 1 11, .fwd false, .fwd true]).2 =
    [.ok false, .ok false, .ok true, .tuple [1, 10] true, .ok true, .tuple [2, 11] false, .tuple [2, 11] true] := by decide

example : (jrEvents 2 (fun p => if p = 1 then some 6 else none) true) = ([.reserve 1 6, .release 1], none) ∧
    (jrEvents 2 (fun p => some (p + 5)) true).1 = [.reserve 1 6, .reserve 0 5, .consume 1, .consume 0] := by decide

end TbbVerif.C15
