/-
C06 — property theorems (statements only live here; helper lemmas are in Proofs/C06/*.lean).

Property: parallel_reduce returns the left-to-right fold using only associativity (operands never reordered,
every element contributes exactly once, a split-off body is joined back only into the body it was split
from, after both finished); parallel_deterministic_reduce uses a split/join tree that depends only on range
and grain; parallel_scan runs the final pass exactly once per element with the correct incoming prefix and
returns the full reduction; parallel_sort leaves a sorted permutation for every input and strict weak order.
-/
import TbbVerif.Proofs.C06.Det
import TbbVerif.Proofs.C06.DetAll
import TbbVerif.Proofs.C06.Sort
import TbbVerif.Proofs.C06.ScanGen
import TbbVerif.Proofs.C06.SPTop
import TbbVerif.Proofs.C06.SPPre3

namespace TbbVerif.C06

/-! ## parallel_reduce -/

/-- **In-order reduction.** For every range and every schedule — a schedule lists which thread position
performs which atomic action when, so it ranges over all steal patterns (what a right child reads in its
parent's ref count), all partitioners and all grain sizes (which chunk / which split a task chooses) —
the value of the user's body followed by what is still pending in the task tree is, at every moment, the
element list of the range in order; no body pointer ever designates a wrong body; and once the tree is
folded (exactly when the wait node is released) the body holds `[lo, …, hi-1]`: every element once, no
operand reordered.  Any associative operation is a homomorphic image of this free-monoid value. -/
theorem reduce_in_order (lo hi : Nat) (sched : List (List Bool × Red.Act)) :
    (Red.run lo hi sched).root.val ++ Red.pend (Red.run lo hi sched).tree = rng lo hi ∧
    (Red.run lo hi sched).ctx.err = false ∧
    ((Red.run lo hi sched).tree = .gone → (Red.run lo hi sched).root.val = rng lo hi) ∧
    ((Red.run lo hi sched).waitRef = 0 ↔ (Red.run lo hi sched).tree = .gone) := by
  have h := Red.inv_run lo hi sched
  refine ⟨h.val, h.err, ?_, ?_⟩
  · intro hg
    have := h.val
    rw [hg] at this
    simpa [Red.pend] using this
  · rw [h.wait]
    cases (Red.run lo hi sched).tree <;> simp [Red.cnt]

/-- The final value contains every index of the range exactly once. -/
theorem reduce_each_once (lo hi : Nat) (sched : List (List Bool × Red.Act))
    (hdone : (Red.run lo hi sched).tree = .gone) (x : Nat) :
    ((Red.run lo hi sched).root.val.count x = if lo ≤ x ∧ x < hi then 1 else 0) := by
  rw [(reduce_in_order lo hi sched).2.2.1 hdone]
  split
  · rename_i h
    have h1 : 0 < (rng lo hi).count x := List.count_pos_iff.mpr ((mem_rng lo hi x).mpr h)
    have h2 := List.nodup_iff_count.mp (rng_nodup lo hi) x
    omega
  · rename_i h
    exact List.count_eq_zero.mpr (fun hm => h ((mem_rng lo hi x).mp hm))

/-- **Join partner.** Whenever a step of any reachable state performs `b.join(z)`: the step is a `fold_tree`
iteration at a tree node whose ref count is 0 and whose two children are both gone (every task below it
has finished and released it), `z` is that node's zombie, it was split from `b` (`Body(b, split())`), and
`b` is the node's `left_body`.  In the event log every `join b z` is preceded by `split z b`. -/
theorem reduce_join_partner (lo hi : Nat) (sched : List (List Bool × Red.Act)) :
    (∀ (pa : List Bool × Red.Act) (b z : Red.BodyId),
      (Red.step (Red.run lo hi sched) pa).ctx.log = (Red.run lo hi sched).ctx.log ++ [.join b z] →
      pa.2 = .fold ∧ ∃ zb : Red.Body, zb.id = z ∧ zb.src = b ∧
        Red.sub (Red.run lo hi sched).tree pa.1 = some (.node 0 b (some zb) .gone .gone)) ∧
    (∀ (i : Nat) (b z : Red.BodyId), (Red.run lo hi sched).ctx.log[i]? = some (.join b z) →
      ∃ j : Nat, j < i ∧ (Red.run lo hi sched).ctx.log[j]? = some (.split z b)) := by
  have h := Red.inv_run lo hi sched
  refine ⟨?_, h.logok⟩
  intro pa b z hl
  rcases Red.step_log lo hi _ pa h with h1 | ⟨e, h1, h2⟩
  · rw [h1] at hl
    have := congrArg List.length hl
    simp at this
  · rw [h1] at hl
    have : e = .join b z := by
      have := List.append_cancel_left hl
      simpa using this
    exact h2 b z this

/-! Non-vacuity: a stolen right child splits the body, both halves run, the zombie is joined back. -/
example :
    let s := Red.run 0 4 [([], .offer 2), ([true], .start), ([true], .run 2), ([false], .run 1), ([false], .run 1),
                          ([true], .finish), ([false], .finish), ([], .fold), ([], .finish)]
    s.tree = .gone ∧ s.waitRef = 0 ∧ s.root.val = [0, 1, 2, 3] ∧
    s.ctx.log = [.split 1 0, .run 1 2 4, .run 0 0 1, .run 0 1 2, .join 0 1] := by decide

/-! … and a right child that starts after its left sibling finished continues on the same body. -/
example :
    let s := Red.run 0 4 [([], .offer 2), ([false], .run 2), ([false], .finish), ([true], .start), ([true], .run 2),
                          ([true], .finish), ([], .fold), ([], .finish)]
    s.tree = .gone ∧ s.root.val = [0, 1, 2, 3] ∧ s.ctx.log = [.run 0 0 2, .run 0 2 4] := by decide

/-! ## parallel_deterministic_reduce -/

/-- **The split/join tree is a function of (range, grain) only** (plus the partition divisor `d` for
static_partitioner, which is read ONCE at entry from the arena: `max_concurrency()`; nothing else from the arena, the thread
count or the schedule enters): for EVERY range, grain, divisor and schedule, once the task tree is
folded the user's body holds exactly the free-magma term `detTerm g static init lo hi d` — no associativity
used, so even non-associative operations give bit-identical results across runs, thread counts and steal
patterns; and the in-order leaves of that term are the range in order. -/
theorem det_reduce_tree_fixed (g : Nat) (static : Bool) (lo hi d : Nat) (sched : List (List Bool × Det.Act)) :
    ((Det.run g static lo hi d sched).tree = .gone →
      (Det.run g static lo hi d sched).root = (if lo < hi then Det.detTerm g static .init lo hi d else .init)) ∧
    (lo ≤ hi → Det.flat (Det.detTerm g static .init lo hi d) = rng lo hi) := by
  refine ⟨?_, ?_⟩
  · intro hg
    have := (Det.eval_run g static lo hi d sched).2
    rw [hg] at this
    simpa [Det.eval] using this
  · intro hle
    have := Det.flat_detTerm g static (hi - lo) .init lo hi d (Nat.le_refl _) hle
    simpa [Det.flat] using this

/-- **No bound on the range or the divisor.**  `detTerm` is defined with the proportional split of `blocked_range` evaluated in
binary32 exactly as coded (`C05.propRightPart`, round-to-nearest-even after each operation) for EVERY size and proportion; for
static_partitioner (`partition_type_base::execute` + `proportional_mode`: `right = my_divisor/2`, `left = my_divisor - right`)
every divisible range of fewer than 2^64 elements IS split while the divisor exceeds 1, strictly inside the range — so the model
never deviates from the code by suppressing a split, and `det_reduce_tree_fixed` covers every `n`, every grain size and every
divisor `1 < d < 2^24` (and, trivially, `d ≤ 1`). -/
theorem det_static_split_always_defined (g lo hi d : Nat) (hg : 1 ≤ g) (hdiv : g < hi - lo) (hsz : hi - lo < 2 ^ 64)
    (h1 : 1 < d) (h2 : d < 2 ^ 24) :
    ∃ mid, Det.splitOf g true lo hi d = some (mid, d - d / 2, d / 2) ∧ lo < mid ∧ mid < hi :=
  Det.splitOf_static_some g lo hi d hg hdiv hsz h1 h2

/-- simple_partitioner: the split/join tree is a function of (range, grain) ONLY — whatever the concurrency -/
theorem det_reduce_simple_independent_of_concurrency (g : Nat) (v : Det.Val) (lo hi d d' : Nat) :
    Det.detTerm g false v lo hi d = Det.detTerm g false v lo hi d' :=
  Det.detTerm_simple_indep g (hi - lo) v lo hi d d' (Nat.le_refl _)

/-- **static_partitioner: the tree is NOT a function of (range, grain) only.**  Its initial divisor is
`get_initial_auto_partitioner_divisor() / 4 = max_concurrency()` of the arena the call runs in; with concurrency 1 a divisible
range is not split at all, with any concurrency `1 < d < 2^24` it is: the two terms differ, so a non-associative (floating-point)
reduction may — and on the real library does — give different bits in arenas of different concurrency.  The property text
("depends only on the range and grain size … across thread counts") therefore holds for static_partitioner only at FIXED
concurrency (`det_reduce_tree_fixed` with the divisor as a parameter); see KNOWN_FINDINGS `det:static-partitioner:arena-concurrency`. -/
theorem det_reduce_static_depends_on_concurrency (g : Nat) (v : Det.Val) (lo hi d : Nat) (hg : 1 ≤ g) (hdiv : g < hi - lo)
    (hsz : hi - lo < 2 ^ 64) (h1 : 1 < d) (h2 : d < 2 ^ 24) :
    Det.detTerm g true v lo hi 1 ≠ Det.detTerm g true v lo hi d := by
  obtain ⟨mid, hs, _, _⟩ := Det.splitOf_static_some g lo hi d hg hdiv hsz h1 h2
  rw [Det.detTerm_static_one, Det.detTerm_some hs]
  intro h; cases h

/-! Non-vacuity: two different schedules (rightmost-first, leftmost-first) of a 5-leaf tree. -/
example :
    let s1 := Det.run 2 false 0 10 0 (Det.autoSched 2 false true 100 (Det.init 0 10 0) [])
    let s2 := Det.run 2 false 0 10 0 (Det.autoSched 2 false false 100 (Det.init 0 10 0) [])
    s1.tree = .gone ∧ s2.tree = .gone ∧ s1.root = s2.root ∧
    s1.root.show = "(([0,2) ([2,3) [3,5))) ([5,7) ([7,8) [8,10))))" := by decide

/-! ## parallel_sort -/

/-- **split_range partitions.** For every strict weak order (Bool comparator, axioms as hypotheses) and
every non-empty array: the code never leaves the array, the result is a permutation of the input,
everything left of the pivot position `j` is not greater than the pivot, everything right of it is not
less, the pivot belongs to neither part, the sizes add up and both parts are strictly smaller than the
input (so the recursion terminates). -/
theorem qsort_split_partitions (lt : QS.Cmp) (hs : QS.SWO lt) (a : Array Nat) (hn : 0 < a.size) :
    ∃ a' j, QS.splitRange lt a = some (a', j) ∧ a'.Perm a ∧ a'.size = a.size ∧ j < a.size ∧
      (∀ k, k < j → lt (QS.el a' j) (QS.el a' k) = false) ∧
      (∀ k, j < k → k < a.size → lt (QS.el a' k) (QS.el a' j) = false) ∧
      j + 1 + (a.size - (j + 1)) = a.size ∧ j < a.size ∧ a.size - (j + 1) < a.size := by
  obtain ⟨a', j, h1, h2, h3, h4, h5, h6⟩ := QS.splitRange_spec lt hs.toAsym a hn
  exact ⟨a', j, h1, h2, h3, h4, h5, h6, by omega, h4, by omega⟩

example : QS.splitRange (fun x y => decide (x < y)) #[5, 3, 8, 1, 9, 2, 7, 4] = some (#[1, 3, 2, 4, 9, 8, 7, 5], 3) := by decide

/-- **The quicksort tree yields a sorted permutation**, for every input, every strict weak order and every
pattern of split decisions of parallel_for's auto_partitioner (a range is split only if `size ≥ grainsize`),
given that the leaf sort (`std::sort`) returns a sorted permutation. -/
theorem sort_sorted_permutation (lt : QS.Cmp) (hs : QS.SWO lt) (leafSort : Array Nat → Array Nat)
    (hleaf : ∀ a, (leafSort a).Perm a ∧ QS.Sorted lt (leafSort a).toList) (d : QS.Dec) (a : Array Nat) :
    ∃ r, QS.psort lt leafSort d a = some r ∧ r.Perm a ∧ QS.Sorted lt r.toList :=
  QS.psort_spec lt hs leafSort hleaf d a

/-- the hypothesis on the leaf sort is satisfiable -/
theorem sort_leaf_hypothesis_satisfiable (lt : QS.Cmp) (hs : QS.SWO lt) :
    ∀ a, (QS.isort lt a).Perm a ∧ QS.Sorted lt (QS.isort lt a).toList :=
  QS.isort_spec lt hs

/-- `<` on keys `x / 3` is a strict weak order with many equal keys -/
example : QS.SWO (fun x y => decide (x / 3 < y / 3)) :=
  ⟨by intro x; simp, by intro x y z h1 h2; simp at *; omega, by intro x y z h1 h2; simp at *; omega⟩

/-- Whenever `parallel_sort` takes the parallel path the array is long enough for the serial probe (which reads
elements up to index `probeEnd`, the loop's final `k`) and for the first pretest index. -/
theorem sort_probe_in_bounds (n : Nat) (h : QS.serialPath n = false) :
    Generated.C06.probeEnd - 1 + max Generated.C06.probeArg1 Generated.C06.probeArg2 < n ∧ QS.pretestBegin ≤ n := by
  have h' : ¬ n < Generated.C06.minParallelSize := by simpa [QS.serialPath] using h
  simp only [QS.pretestBegin, Generated.C06.minParallelSize, Generated.C06.probeEnd, Generated.C06.probeArg1,
    Generated.C06.probeArg2, Generated.C06.pretestBegin] at *
  omega

/-- **The pretest covers every adjacent pair.** The serial probe and the pretest body are modelled with the
loop start, loop bound and ARGUMENT ORDER of their `comp(…)` calls as GENERATED from the source text on every run
(`probeStart`, `probeEnd`, `probeArg1/2`, `pretestArg1/2`, `pretestBegin`).  If the serial probe
(`comp(*(k+1), *k)` for `k = 0 … 8`) did not fire, the chunks handed to `quick_sort_pretest_body` tile
`[pretestBegin, n)`, all chunk bodies have returned (under any interleaving of their iterations) and the context
is not cancelled, then no adjacent pair of the array is inverted — hence, for a strict weak order, the array is
already sorted and returning without sorting is correct.  (With the probe's arguments swapped, a shorter probe
that is not matched by an earlier pretest start, or a probe that starts after `begin`, this proof does not go
through: the conclusion is then false, e.g. for `1,…,1,0,0,…` with the step inside the first ten elements.) -/
theorem pretest_covers_every_adjacent_pair (lt : QS.Cmp) (a : Array Nat) (chunks : List (Nat × Nat))
    (sched : List Nat) (htile : QS.tiles QS.pretestBegin chunks a.size)
    (hprobe : QS.serialProbe lt a = false)
    (hdone : QS.pretestDone (QS.pretestRun lt a chunks sched) = true)
    (hnc : (QS.pretestRun lt a chunks sched).cancelled = false) :
    (∀ i, i + 1 < a.size → lt (QS.el a (i + 1)) (QS.el a i) = false) ∧
    (QS.SWO lt → QS.Sorted lt a.toList) := by
  have hinv := QS.pinv_run lt a chunks sched
  have hadj : ∀ i, i + 1 < a.size → lt (QS.el a (i + 1)) (QS.el a i) = false := by
    intro i hi
    by_cases hsmall : i < Generated.C06.probeEnd
    · -- covered by the serial probe (generated loop range and argument order)
      simp only [QS.serialProbe, List.any_eq_false] at hprobe
      have := hprobe i (by
        simp only [List.mem_range'_1, Generated.C06.probeStart, Generated.C06.probeEnd] at hsmall ⊢
        omega)
      simpa [Generated.C06.probeArg1, Generated.C06.probeArg2] using this
    · -- covered by the chunk that contains index i+1
      have hk : QS.pretestBegin ≤ i + 1 := by
        simp only [QS.pretestBegin, Generated.C06.probeEnd, Generated.C06.pretestBegin] at *
        omega
      obtain ⟨r, r1, r2, r3⟩ := QS.tiles_cover chunks _ _ htile (i + 1) hk hi
      rw [← hinv.bounds] at r1
      simp only [List.mem_map] at r1
      obtain ⟨c, c1, c2⟩ := r1
      have hok := hinv.ok c c1
      have hlive := hinv.live hnc c c1
      simp only [QS.pretestDone, List.all_eq_true] at hdone
      have hd := hdone c c1
      rw [hlive] at hd
      simp at hd
      have := hok.2 (i + 1) (by rw [← c2] at r2; exact r2) (by rw [← c2] at r3; simp at r3; omega)
      simpa [Generated.C06.pretestArg1, Generated.C06.pretestArg2] using this
  refine ⟨hadj, ?_⟩
  intro hs
  apply QS.sorted_of_adjacent lt hs
  intro i hi
  have hi' : i + 1 < a.size := by simpa using hi
  have := hadj i hi'
  rw [QS.el_toList hi, QS.el_toList (by omega)]
  exact this

/-! Non-vacuity: 12 sorted elements, two chunks `[pretestBegin,11)`, `[11,12)` run interleaved (stated with the generated
`pretestBegin`, so that a consistent change of `serial_cutoff` — the probe ends earlier, the pretest starts earlier — is
accepted, as it should be: it does not change which pairs are covered). -/
example :
    let a : Array Nat := #[1, 2, 3, 4, 5, 6, 7, 8, 9, 10, 11, 12]
    let lt : QS.Cmp := fun x y => decide (x < y)
    let s := QS.pretestRun lt a [(QS.pretestBegin, 11), (11, 12)] [1, 0, 1, 0, 0, 0]
    QS.tiles QS.pretestBegin [(QS.pretestBegin, 11), (11, 12)] a.size ∧ QS.serialProbe lt a = false ∧
    QS.pretestDone s = true ∧ s.cancelled = false := by decide

/-! … an inversion at pair (9,10) — with `serial_cutoff = 9` the seam between the serial probe and the parallel
pretest — cancels; and the inputs that a probe with swapped arguments would let through (all keys equal except a
smaller one at position 9; a step down inside the first ten) make the real probe fire. -/
example :
    let a : Array Nat := #[1, 2, 3, 4, 5, 6, 7, 8, 9, 11, 10, 12]
    let lt : QS.Cmp := fun x y => decide (x < y)
    QS.serialProbe lt a = false ∧ (QS.pretestRun lt a [(QS.pretestBegin, 12)] [0, 0, 0]).cancelled = true := by decide

example :
    let lt : QS.Cmp := fun x y => decide (x < y)
    (QS.serialProbe lt #[5, 5, 5, 5, 5, 5, 5, 5, 5, 4, 5, 5] = true ∨
      (QS.pretestRun lt #[5, 5, 5, 5, 5, 5, 5, 5, 5, 4, 5, 5] [(QS.pretestBegin, 12)] [0, 0, 0]).cancelled = true) ∧
    QS.serialProbe lt #[1, 1, 1, 0, 0, 0, 0, 0, 0, 0, 0, 0] = true ∧
    QS.probeTrace lt #[1, 1, 1, 0, 0, 0, 0, 0, 0, 0, 0, 0] = [(1, 0), (2, 1), (3, 2)] := by decide


/-- **The inner scans never leave `[begin,end)`** — the sentinel argument, exactly as coded.  `split_range` swaps the pseudo-median
of nine to the front, so `array[0]` is the pivot: the downward scan `do { --j; } while (comp(*first, array[j]))` stops at
index 0 at the latest because `comp(pivot, pivot)` is false (irreflexivity), and — once `i` has moved — at `i` at the latest
because everything at positions `1..i` was either passed by the upward scan (`comp(x, pivot)`, hence not `comp(pivot, x)` by
asymmetry) or swapped in from the right (not `comp(pivot, x)`); the upward scan is bounded by the explicit `i == j` test.
So for EVERY asymmetric comparator — every strict weak ordering and every strict PARTIAL order, including those whose
incomparability is not transitive — the model never reports an access outside the array (`splitRange ≠ none`; `none` is also
what the `i <= j` assertion of the source stands for), the result is a permutation, the pivot position is inside, nothing left of
the pivot is preceded by it... and nothing right of it precedes it.  (A comparator that is not asymmetric, e.g. `<=`, is outside
this quantifier — and outside the C++ requirements: on all-equal input the downward scan then runs below `begin`, in the
model (`none`) and on the real code.) -/
theorem sort_partition_in_bounds (lt : QS.Cmp) (hs : QS.Asym lt) (a : Array Nat) (hn : 0 < a.size) :
    ∃ a' j, QS.splitRange lt a = some (a', j) ∧ a'.Perm a ∧ a'.size = a.size ∧ j < a.size ∧
      (∀ k, k < j → lt (QS.el a' j) (QS.el a' k) = false) ∧
      (∀ k, j < k → k < a.size → lt (QS.el a' k) (QS.el a' j) = false) :=
  QS.splitRange_spec lt hs a hn

/-- a strict partial order that is not a strict weak ordering (incomparability is not transitive: 0 ~ 1 ~ 2 but 0 < 2)
is covered by `sort_partition_in_bounds` -/
example : QS.Asym (fun x y => decide (x + 1 < y)) ∧ ¬ QS.SWO (fun x y => decide (x + 1 < y)) := by
  refine ⟨⟨by intro x; simp, by intro x y h; simp at *; omega⟩, ?_⟩
  intro h
  have := h.negtrans 0 1 2 (by decide) (by decide)
  simp at this

/-- **The coded split partitions** (the name asked for; same statement as `qsort_split_partitions`): for every strict weak
ordering and non-empty range — pivot choice by pseudo-median of nine, swap to the front, Hoare loop with its two inner scans,
final swap of the pivot to `j` — left part `≤` pivot `≤` right part under the order, multiset preserved, pivot in neither part,
sizes `j` and `size - (j+1)` both strictly smaller than the whole: the recursion terminates. -/
theorem sort_split_partitions (lt : QS.Cmp) (hs : QS.SWO lt) (a : Array Nat) (hn : 0 < a.size) :
    ∃ a' j, QS.splitRange lt a = some (a', j) ∧ a'.Perm a ∧ a'.size = a.size ∧ j < a.size ∧
      (∀ k, k < j → lt (QS.el a' j) (QS.el a' k) = false) ∧
      (∀ k, j < k → k < a.size → lt (QS.el a' k) (QS.el a' j) = false) ∧
      j + 1 + (a.size - (j + 1)) = a.size ∧ j < a.size ∧ a.size - (j + 1) < a.size :=
  qsort_split_partitions lt hs a hn

/-- the canonical split oracle: split as long as `quick_sort_range::is_divisible()` says so (depth `n` is never exhausted on
an array of `n` elements because both parts of a split are strictly smaller) -/
def QS.Dec.full : Nat → QS.Dec
  | 0 => .leaf
  | n + 1 => .split (QS.Dec.full n) (QS.Dec.full n)

/-- **parallel_sort's quicksort, recursing over the coded split as far as `is_divisible()` allows, sorts every input** for every
strict weak ordering (instance of `sort_sorted_permutation`, which holds for EVERY pattern of split decisions — the recursion is
well-founded because `sort_split_partitions` makes both parts strictly smaller; leaves are `std::sort`, assumed to meet its contract) -/
theorem sort_sorted_permutation_coded (lt : QS.Cmp) (hs : QS.SWO lt) (leafSort : Array Nat → Array Nat)
    (hleaf : ∀ a, (leafSort a).Perm a ∧ QS.Sorted lt (leafSort a).toList) (a : Array Nat) :
    ∃ r, QS.psort lt leafSort (QS.Dec.full a.size) a = some r ∧ r.Perm a ∧ QS.Sorted lt r.toList :=
  sort_sorted_permutation lt hs leafSort hleaf _ a

/-- **The early exit of the pretest is sound**: `parallel_sort` on `n ≥ min_parallel_size` elements returns WITHOUT sorting only
if the serial probe did not fire and, after all chunks of `quick_sort_pretest_body` have returned (any interleaving), the context is
not cancelled — and then, for a strict weak ordering, the input is already a sorted permutation of itself. -/
theorem pretest_early_exit_sound (lt : QS.Cmp) (hs : QS.SWO lt) (a : Array Nat) (chunks : List (Nat × Nat)) (sched : List Nat)
    (_hpar : QS.serialPath a.size = false)
    (htile : QS.tiles QS.pretestBegin chunks a.size) (hprobe : QS.serialProbe lt a = false)
    (hdone : QS.pretestDone (QS.pretestRun lt a chunks sched) = true)
    (hnc : (QS.pretestRun lt a chunks sched).cancelled = false) :
    a.Perm a ∧ QS.Sorted lt a.toList :=
  ⟨Array.Perm.refl a, (pretest_covers_every_adjacent_pair lt a chunks sched htile hprobe hdone hnc).2 hs⟩

/-! ## parallel_scan -/

/-- **Scan: one final pass per element, with the right prefix, for EVERY oracle.**  For every grain ≥ 1, every
range and every oracle, where an oracle fixes, per right child, (`stolen`) what `is_stolen(ed)` reports,
(`early`) whether the child is run by its own spawning thread while its left sibling is still unfinished — a
RE-ENTRANT body: a leaf body of the left subtree waits on a task_group or runs another parallel algorithm and the
wait's dispatch loop pops the child from the local deque; the child is then not stolen, `m_left_sum` is still null
and it runs before the rest of the left subtree — and (`exec`) what `should_execute_range` returns (all
partitioners); virtual steals are computed by the model with the guard GENERATED from the source text of
`start_scan::execute` (`Generated.C06.scanTreatAsStolen`): no null `m_left_sum` / `*m_sum_slot` is dereferenced, the two
children of a sum_node never get the same body, no really stolen task reads `m_left_sum` (`err = false`), the
user's body ends with the full reduction `[lo, …, hi-1]`, and the final-scan events, sorted by position, tile
`[lo,hi)` exactly once, each starting from the in-order reduction of everything to its left.
(With `treat_as_stolen` reduced to `m_is_right_child && is_stolen(ed)` the statement is false — an `early`
right child would final-scan on its parent's body with the prefix of the parent's range start — and with the
`is_stolen(ed)` disjunct dropped a stolen task reads `m_left_sum` while another thread may be writing it; in both
cases `Scan.gen_tas` / `Scan.gen_no_race`, from which everything is proved, no longer hold.) -/
theorem scan_final_once_with_prefix (g : Nat) (hg : 1 ≤ g) (o : Scan.Oracle) (lo hi : Nat) (hle : lo ≤ hi) :
    Scan.ScanOK lo hi (Scan.scan g o lo hi) :=
  Scan.scan_spec g hg o lo hi hle

/-- what `ScanOK` gives per element: exactly one final-scan event covers it, with the right prefix -/
theorem scan_ok_per_element (lo hi : Nat) (c : Scan.Ctx) (h : Scan.ScanOK lo hi c) (x : Nat) (h1 : lo ≤ x) (h2 : x < hi) :
    ((Scan.finals c.log).filter (fun f => decide (f.1 ≤ x ∧ x < f.2.1))).length = 1 ∧
    (∀ f, f ∈ Scan.finals c.log → f.2.2 = rng lo f.1) ∧ c.val 0 = rng lo hi := by
  obtain ⟨_, hv, fs, hp, hc⟩ := h
  have hu := Scan.chain_unique lo fs lo hi hc x h1 h2
  refine ⟨?_, ?_, hv⟩
  · rw [(hp.filter _).length_eq]; exact hu.1
  · intro f hf
    exact (hu.2 f ((hp.mem_iff).mp hf)).1

/-! Non-vacuity: a 4-leaf scan with the right half stolen needs both passes. -/
example :
    let c := Scan.scan 1 (Scan.oracleOf [(2, 4)] []) 0 4
    c.err = false ∧ c.val 0 = [0, 1, 2, 3] ∧
    Scan.finals c.log = [(0, 1, []), (1, 2, [0]), (2, 4, [0, 1])] ∧
    c.log.contains (.pre 2 2 3) = true := by decide

example : Scan.ScanOK 0 4 (Scan.scan 1 (Scan.oracleOf [(2, 4), (1, 2)] [(2, 4)]) 0 4) :=
  scan_final_once_with_prefix 1 (by omega) _ 0 4 (by omega)

/-! Non-vacuity of the re-entrant schedules: nothing is stolen, but the right children `[4,8)`, `[2,4)` and `[1,2)`
are each popped and run by their owner inside the leaf body of `[0,1)` (innermost first is not required by the
model): they are virtually stolen (null `m_left_sum`), pre-scan on fresh bodies before `[0,1)` is final-scanned,
and pass 2 completes them with the right prefixes. -/
example :
    let c := Scan.scan 1 (Scan.oracleOf [] [] [(4, 8), (2, 4), (1, 2)]) 0 8
    c.err = false ∧ c.val 0 = [0, 1, 2, 3, 4, 5, 6, 7] ∧
    c.log.take 6 = [.split 1 0, .rjoin 1 0, .split 2 1, .pre 2 4 5, .pre 2 5 6, .split 3 1] ∧
    (Scan.finals c.log).map (fun f => (f.1, f.2.1, f.2.2.length)) = [(0, 1, 0), (4, 8, 4), (2, 4, 2), (1, 2, 1)] := by decide

/-- nothing stolen and no re-entrant body: the special case proved first (pass 1 does everything on `temp_body`) -/
theorem scan_no_steal (g : Nat) (hg : 1 ≤ g) (o : Scan.Oracle) (_ho : ∀ lo hi, o.stolen lo hi = false ∧ o.early lo hi = false)
    (lo hi : Nat) (hle : lo ≤ hi) : Scan.ScanOK lo hi (Scan.scan g o lo hi) :=
  scan_final_once_with_prefix g hg o lo hi hle

/-! ## parallel_scan as a task protocol (small-step, every execution order) -/

/-- **Scan, the full task protocol: one final pass per element with the right prefix, for EVERY schedule.**
`SP.run g lo hi sched` executes `start_scan::run` over `[lo,hi)` with grain `g`: `sched` lists which task performs which
serialised piece of its `execute` when — entry of a `start_scan` (`treat_as_stolen`, the GENERATED guard, evaluated on
an arbitrary `is_stolen(ed)` chosen by the schedule and on what `m_left_sum` holds at that moment), leaf body call, slot
write + finalize, split, `finish_scan::execute`, `sum_node::execute` (both invocations), `final_sum::execute` (body call;
assign + release), the glue of `run` — so it ranges over all steal patterns, all partitioners, re-entrant bodies and all
execution orders the reference counts allow.  At every moment: no null `m_left_sum` / `*m_sum_slot` is dereferenced, no
non-right child is treated as stolen, a really stolen task never reads `m_left_sum`, the two children of a sum_node never
get the same body (`err = false`); every final scan performed so far started from exactly the in-order reduction
`[lo, x)` of everything to its left (values live in the free monoid and are only ever built by body calls and
`reverse_join` with the operand order of the source text — GENERATED `scanFinishJoinRecvSlot` / `scanNodeJoinRecvLeftSum` — so
a non-commutative operation is right); and when `run` has returned the final-scan events tile `[lo,hi)` exactly once and the
user's body holds the full reduction. -/
theorem scan_protocol_final_once_with_prefix (g : Nat) (hg : 1 ≤ g) (lo hi : Nat) (hle : lo ≤ hi) (sched : List (List Bool × SP.Act)) :
    (SP.run g lo hi sched).c.err = false ∧
    (∀ f, f ∈ Scan.finals (SP.run g lo hi sched).c.log → f.2.2 = rng lo f.1) ∧
    ((SP.run g lo hi sched).phase = 3 → Scan.ScanOK lo hi (SP.run g lo hi sched).c) := by
  have h := SP.GI_run g lo hi hg hle sched
  refine ⟨h.1, SP.GI_prefix h, ?_⟩
  intro hp
  obtain ⟨he, hph⟩ := h
  rcases hph with ⟨p1, _⟩ | ⟨p2, _⟩ | ⟨_, v3, c3⟩
  · rw [hp] at p1; cases p1
  · rw [hp] at p2; cases p2
  · exact ⟨he, v3, c3⟩

/-- **parallel_scan returns the full reduction**, whatever the schedule -/
theorem scan_returns_full_reduction (g : Nat) (hg : 1 ≤ g) (lo hi : Nat) (hle : lo ≤ hi) (sched : List (List Bool × SP.Act))
    (hdone : (SP.run g lo hi sched).phase = 3) : (SP.run g lo hi sched).c.val 0 = rng lo hi :=
  ((scan_protocol_final_once_with_prefix g hg lo hi hle sched).2.2 hdone).2.1

/-- per element, in a completed run: exactly one final-scan event covers it (from `scan_ok_per_element`) -/
theorem scan_protocol_each_element_once (g : Nat) (hg : 1 ≤ g) (lo hi : Nat) (hle : lo ≤ hi) (sched : List (List Bool × SP.Act))
    (hdone : (SP.run g lo hi sched).phase = 3) (x : Nat) (h1 : lo ≤ x) (h2 : x < hi) :
    ((Scan.finals (SP.run g lo hi sched).c.log).filter (fun f => decide (f.1 ≤ x ∧ x < f.2.1))).length = 1 :=
  (scan_ok_per_element lo hi _ ((scan_protocol_final_once_with_prefix g hg lo hi hle sched).2.2 hdone) x h1 h2).1

/-- **An element is never pre-scanned after it was scanned before** — neither after its final scan nor after an earlier pre-scan
(so: at most one pre-scan per element, and never a pre-scan after the final scan), for every schedule.  `SP.PreOK earlier later` says:
if `later` is a pre-scan `b(range [l,h), pre_scan_tag)` then the range of `earlier`, when `earlier` is a pre-scan or a final scan,
is disjoint from `[l,h)`; the theorem states it for every pair of events of the log in log order.  (Pass 1 pre-scans only leaves of
non-final tasks that have not run yet, whose ranges are disjoint from the ranges of all leaves that have; in pass 2 no `start_scan`
task is left that could pre-scan.) -/
theorem scan_prescan_never_after_final (g : Nat) (hg : 1 ≤ g) (lo hi : Nat) (hle : lo ≤ hi) (sched : List (List Bool × SP.Act)) :
    (SP.run g lo hi sched).c.log.Pairwise SP.PreOK :=
  (SP.GP_run g lo hi hg hle sched).1

/-- index form of `scan_prescan_never_after_final` -/
theorem scan_prescan_never_after_final_idx (g : Nat) (hg : 1 ≤ g) (lo hi : Nat) (hle : lo ≤ hi) (sched : List (List Bool × SP.Act))
    (i j : Nat) (hij : i < j) (e : Scan.Ev) (b l h : Nat)
    (hi' : (SP.run g lo hi sched).c.log[i]? = some e) (hj : (SP.run g lo hi sched).c.log[j]? = some (.pre b l h))
    (r : Nat × Nat) (hr : SP.rangeOf e = some r) : r.2 ≤ l ∨ h ≤ r.1 := by
  have hp := scan_prescan_never_after_final g hg lo hi hle sched
  rw [List.pairwise_iff_getElem] at hp
  have h1 := List.getElem?_eq_some_iff.mp hi'
  have h2 := List.getElem?_eq_some_iff.mp hj
  obtain ⟨hi1, he1⟩ := h1
  obtain ⟨hj1, he2⟩ := h2
  have := hp i j hi1 hj1 hij b l h (he2) r (by rw [he1]; exact hr)
  exact this

/-! Non-vacuity: complete schedules exist — rightmost-first with every right child stolen (8 zombies, both passes), and
leftmost-first with nothing stolen (everything in pass 1 on `temp_body`). -/
example :
    let s0 := SP.init 0 8
    let s := (SP.autoSched 1 true true 400 s0 []).foldl (SP.step 1) s0
    s.phase = 3 ∧ s.c.err = false ∧ s.c.val 0 = [0, 1, 2, 3, 4, 5, 6, 7] ∧ s.c.heap.length = 9 ∧
    (SP.pres s.c.log).length = 6 := by decide

example :
    let s0 := SP.init 0 8
    let s := (SP.autoSched 1 false false 400 s0 []).foldl (SP.step 1) s0
    s.phase = 3 ∧ s.c.val 0 = [0, 1, 2, 3, 4, 5, 6, 7] ∧ s.c.heap.length = 2 := by decide

/-- **The lambda form (`lambda_scan_body`) is an instance.**  `lambda_scan_body` keeps one `Value`; its `operator()` is
`sum = scan(range, sum, tag)`, its `reverse_join(a)` is `sum = reverse_join(a.sum, sum)` (left operand = the argument), `assign`
copies, the split constructor starts from `identity`.  For an associative `op` with identity `e` and per-element contribution `f`
the map `hom` below is a monoid homomorphism from the free monoid of the model onto these values, so every body of the lambda form
holds `hom` of the model body's value: the final scan of an element starts from the in-order fold of everything to its left and the
returned total is the in-order fold of the whole range. -/
def scanHom {V : Type} (op : V → V → V) (e : V) (f : Nat → V) (xs : List Nat) : V := xs.foldl (fun acc x => op acc (f x)) e

theorem scan_lambda_hom {V : Type} (op : V → V → V) (e : V) (f : Nat → V)
    (hassoc : ∀ a b c, op (op a b) c = op a (op b c)) (hid : ∀ a, op a e = a) (hid' : ∀ a, op e a = a) (a b : List Nat) :
    scanHom op e f (a ++ b) = op (scanHom op e f a) (scanHom op e f b) := by
  unfold scanHom
  rw [List.foldl_append]
  have key : ∀ (bs : List Nat) (acc : V), bs.foldl (fun acc x => op acc (f x)) acc = op acc (bs.foldl (fun acc x => op acc (f x)) e) := by
    intro bs
    induction bs with
    | nil => intro acc; simp [hid]
    | cons x bs ih =>
        intro acc
        simp only [List.foldl_cons]
        rw [ih (op acc (f x)), ih (op e (f x)), hid', hassoc]
  exact key b _

theorem scan_lambda_result {V : Type} (op : V → V → V) (e : V) (f : Nat → V)
    (g : Nat) (hg : 1 ≤ g) (lo hi : Nat) (hle : lo ≤ hi) (sched : List (List Bool × SP.Act))
    (hdone : (SP.run g lo hi sched).phase = 3) :
    scanHom op e f ((SP.run g lo hi sched).c.val 0) = (rng lo hi).foldl (fun acc x => op acc (f x)) e := by
  rw [scan_returns_full_reduction g hg lo hi hle sched hdone]; rfl

end TbbVerif.C06
