/-
C14 — flow graph conserves messages, honours node limits; wait_for_all means idle.
Property theorems only (helper lemmas live in Proofs/C14/*).  Everything is quantified over ALL sequences of
node operations (`List FOp`, `List NOp`, …): every state change of a node happens inside its aggregator handler
or under its cache mutex, so an interleaving of threads is a sequence of node operations.
-/
import TbbVerif.Proofs.C14.Func
import TbbVerif.Proofs.C14.Caches
import TbbVerif.Proofs.C14.Graph
import TbbVerif.Proofs.C14.Pair
import TbbVerif.Proofs.C14.InPut
import TbbVerif.Proofs.C14.Wait
import TbbVerif.Proofs.C14.Meta
import TbbVerif.Proofs.C14.Cancel

namespace TbbVerif.C14.Props
open TbbVerif TbbVerif.C14

/-! ### function nodes -/

/-- **Concurrency limit.**  For every sequence of operations on a function node with limit `maxc ≠ 0`
(try_put from any thread, lightweight `occupy_concurrency`, body completions, forwarder rounds, predecessor
registration), the number of body invocations that were created and have not finished equals `my_concurrency`
and never exceeds `maxc`. -/
theorem func_concurrency_bound (maxc : Nat) (queueing : Bool) (ops : List FOp) (h : maxc ≠ 0) :
    let s := ((FuncInput.mach maxc queueing).run ops).1
    s.running.length = s.conc ∧ s.conc ≤ maxc := by
  intro s
  have hi := FuncInput.inv_run maxc queueing ops
  have hm := FuncInput.run_maxc maxc queueing ops
  exact ⟨(hi.conc_eq (by rw [hm]; exact h)).symm, by have := hi.conc_le; rw [hm] at this; exact this⟩

/-- A serial node never runs two bodies at once. -/
theorem func_serial_never_two (queueing : Bool) (ops : List FOp) :
    (((FuncInput.mach 1 queueing).run ops).1).running.length ≤ 1 := by
  have := func_concurrency_bound 1 queueing ops (by decide)
  simp only at this; omega

/-- **Accepted ⇔ recorded exactly once; rejected ⇒ untouched** (one `try_put`, any state). -/
theorem func_tryput_effect (s : FuncInput) (m : Nat) :
    let r := s.step (.tryput m)
    (r.2 = .rejected → r.1 = s) ∧
    (r.2 ≠ .rejected →
      r.1.accepted = m :: s.accepted ∧
      (r.1.running ++ r.1.queued).count m = (s.running ++ s.queued).count m + 1 ∧
      r.1.finished = s.finished) := by
  intro r
  rcases FuncInput.tryput_spec s m with h | ⟨ho, hr, hq, ha, hf, _⟩ | ⟨ho, hr, hq, ha, hf, _⟩
  · exact ⟨fun _ => by show (s.step (.tryput m)).1 = s; rw [h], fun hne => absurd (by show (s.step (.tryput m)).2 = .rejected; rw [h]) hne⟩
  · refine ⟨fun he => ?_, fun _ => ⟨ha, ?_, hf⟩⟩
    · have : (s.step (.tryput m)).2 = .rejected := he
      rw [ho] at this; cases this
    · show ((s.step (.tryput m)).1.running ++ (s.step (.tryput m)).1.queued).count m = _
      rw [hr, hq]; simp [List.count_cons]
  · refine ⟨fun he => ?_, fun _ => ⟨ha, ?_, hf⟩⟩
    · have : (s.step (.tryput m)).2 = .rejected := he
      rw [ho] at this; cases this
    · show ((s.step (.tryput m)).1.running ++ (s.step (.tryput m)).1.queued).count m = _
      rw [hr, hq]; simp [List.count_append]; omega

/-- **Every accepted message is in exactly one of {finished, running body, queue}** — as multisets, after every
sequence of operations; a body completion moves exactly one occurrence from `running` to `finished`. -/
theorem func_accept_iff_processed_once (maxc : Nat) (queueing : Bool) (ops : List FOp) (m : Nat) :
    let s := ((FuncInput.mach maxc queueing).run ops).1
    s.accepted.count m = s.finished.count m + s.running.count m + s.queued.count m :=
  (FuncInput.inv_run maxc queueing ops).bal m

/-- With distinct message ids: an accepted message is finished at most once and is never simultaneously
finished, running or queued; when the node is drained it has been processed exactly once. -/
theorem func_processed_exactly_once (maxc : Nat) (queueing : Bool) (ops : List FOp) :
    let s := ((FuncInput.mach maxc queueing).run ops).1
    s.accepted.Nodup →
      (∀ m, s.finished.count m + s.running.count m + s.queued.count m ≤ 1) ∧
      (∀ m, m ∈ s.accepted ↔ (m ∈ s.finished ∨ m ∈ s.running ∨ m ∈ s.queued)) ∧
      (s.running = [] → s.queued = [] → ∀ m, s.finished.count m = if m ∈ s.accepted then 1 else 0) := by
  intro s hnd
  have hb : ∀ m, s.accepted.count m = s.finished.count m + s.running.count m + s.queued.count m :=
    (FuncInput.inv_run maxc queueing ops).bal
  have hc : ∀ m, s.accepted.count m ≤ 1 := fun m => List.nodup_iff_count.mp hnd m
  refine ⟨fun m => by have := hb m; have := hc m; omega, fun m => ?_, fun hr hq m => ?_⟩
  · have := hb m
    constructor
    · intro hm
      have : 0 < s.accepted.count m := List.count_pos_iff.mpr hm
      by_cases h1 : 0 < s.finished.count m
      · left; exact List.count_pos_iff.mp h1
      · by_cases h2 : 0 < s.running.count m
        · right; left; exact List.count_pos_iff.mp h2
        · right; right; exact List.count_pos_iff.mp (by omega)
    · intro hm
      apply List.count_pos_iff.mp
      rcases hm with h | h | h
      · have : 0 < s.finished.count m := List.count_pos_iff.mpr h; omega
      · have : 0 < s.running.count m := List.count_pos_iff.mpr h; omega
      · have : 0 < s.queued.count m := List.count_pos_iff.mpr h; omega
  · have h1 := hb m
    have h2 := hc m
    rw [hr, hq] at h1
    simp at h1
    by_cases hm : m ∈ s.accepted
    · have : 0 < s.accepted.count m := List.count_pos_iff.mpr hm
      simp [hm]; omega
    · have : s.accepted.count m = 0 := List.count_eq_zero_of_not_mem hm
      simp [hm]; omega

/-- A completion can only be issued for an existing body invocation, and retires exactly that one. -/
theorem func_done_effect (s : FuncInput) (m : Nat) (ans : List (Option Nat)) :
    (m ∉ s.running → s.step (.done m ans) = (s, .bad)) ∧
    (m ∈ s.running → (s.step (.done m ans)).1.finished = m :: s.finished) := by
  refine ⟨fun h => FuncInput.done_bad h ans, fun h => ?_⟩
  simp only [FuncInput.step, h, if_true]
  split
  · rfl
  · split
    · simp only [FuncInput.pqr]
      split
      · rfl
      · rfl
      · split <;> rfl
    · rfl

/-- **No forgotten pull.**  On a rejecting node, after every sequence of operations: if a predecessor is
registered in pull mode then a forwarder task is pending or all slots are taken (and the completion that frees
a slot polls the predecessors); a non-empty queue of a queueing node likewise means all slots are taken. -/
theorem func_no_forgotten_work (maxc : Nat) (queueing : Bool) (ops : List FOp) :
    let s := ((FuncInput.mach maxc queueing).run ops).1
    (s.queue = none → s.preds ≠ [] → s.fwdBusy = true ∨ s.conc = s.maxc) ∧
    (s.queued ≠ [] → s.conc = s.maxc) :=
  ⟨(FuncInput.inv_run maxc queueing ops).pull, (FuncInput.inv_run maxc queueing ops).sat⟩

example : ((FuncInput.mach 2 true).run [.tryput 1, .tryput 2, .tryput 3, .done 1 []]).2 =
    [.run 1, .run 2, .queued, .next (some 3) []] := by decide
example : ((FuncInput.mach 1 false).run [.tryput 1, .tryput 2, .regPred 7, .done 1 [some 9]]).2 =
    [.run 1, .rejected, .reg true, .next (some 9) []] := by decide
example : ((FuncInput.mach 1 false).run [.occupy 1, .occupy 2, .done 1 [], .occupy 2]).2 =
    [.run 1, .rejected, .next none [], .run 2] := by decide

/-! ### edges: successor caches, push ⇄ pull, buffering senders -/

/-- **Broadcast offers each output exactly once to every successor**, in cache order, whatever the successors
do (the state `σ` of the rest of the graph is threaded through their `try_put_task` calls); an edge is dropped
from the push set iff the successor rejected *and* took the sender as a predecessor — so every edge is afterwards
in exactly one of the push set and the pull sets (counted with multiplicity). -/
theorem edge_broadcast_once {σ : Type} (offer : σ → Nat → σ × Resp) (s : σ) (succs : List Nat) :
    let r := bcastM offer s succs
    r.2.1.map Prod.fst = succs ∧
    r.2.2 = (r.2.1.filter (fun o => o.2 ≠ .reject true)).map Prod.fst ∧
    ∀ x, r.2.2.count x + (flipped r.2.1).count x = succs.count x :=
  ⟨bcastM_offers offer s succs, bcastM_remaining offer s succs, bcastM_edges offer s succs⟩

/-- **Round-robin hands a message to exactly one successor (or to none if all reject)**: the successors are
asked in order, the first acceptor ends the round, no edge is lost. -/
theorem edge_round_robin_single {σ : Type} (offer : σ → Nat → σ × Resp) (s : σ) (succs : List Nat) :
    let r := rrM offer s succs
    (acceptors r.2.1).length ≤ 1 ∧
    (∃ rest, succs = r.2.1.map Prod.fst ++ rest) ∧
    ((acceptors r.2.1 = [] ∧ r.2.1.map Prod.fst = succs) ∨
      ∃ pre x, r.2.1 = pre ++ [(x, .accept)] ∧ acceptors pre = []) ∧
    ∀ x, r.2.2.count x + (flipped r.2.1).count x = succs.count x :=
  ⟨rrM_accept_le_one offer s succs, rrM_prefix offer s succs, rrM_single offer s succs, rrM_edges offer s succs⟩

/-- **A buffering/reserving sender keeps what is rejected** (input_node): after every sequence of operations —
pushes by its put task (`reserveApply`, then `tryConsume` on success / `tryRelease` on rejection), pulls
(`tryGet`), reservations by a reserving join — the ids the body generated are exactly the delivered ones (each
once, in order) followed by the cached item, and a reservation always holds an item. -/
theorem edge_sender_keeps_rejected (first stop : Nat) (ops : List IOp) :
    let s := ((InputNode.mach first stop).run ops).1
    s.delivered.reverse ++ (if s.hasItem then [s.item] else []) = List.range' s.first (s.next - s.first) ∧
    (s.reserved = true → s.hasItem = true) :=
  ⟨(InputNode.inv_run first stop ops).gen, (InputNode.inv_run first stop ops).res⟩

example : ((InputNode.mach 5 7).run [.activate, .reserveApply, .tryRelease, .tryGet, .reserveApply, .tryConsume, .reserveApply]).2 =
    [.res none false, .res (some 5) false, .res none false, .res (some 5) false, .res (some 6) false, .res none false, .res none false] := by decide

/-- **Push ⇄ pull switching loses nothing** (input_node S → rejecting function node R, any limit, foreign
`try_put`s to R from other threads, tasks executed in any order): the edge is always in exactly one of the push
set of S and the pull set of R; what R accepted is exactly what S delivered plus the foreign messages; S's
deliveries are the generated ids, each once, in order, followed by the cached item; and as long as S still has
something to send, something is scheduled that will move it (a put task, a forwarder task or a running body
of R whose completion pulls). -/
theorem edge_push_pull_no_loss (first stop maxc : Nat) (ops : List POp) :
    let p := ((PullPair.mach first stop maxc).run ops).1
    ((p.s.succs = [PullPair.rid] ∧ p.r.preds = []) ∨ (p.s.succs = [] ∧ p.r.preds = [PullPair.sid])) ∧
    (∀ m, p.r.accepted.count m = p.s.delivered.count m + p.ext.count m) ∧
    (p.s.delivered.reverse ++ (if p.s.hasItem then [p.s.item] else []) = List.range' first (p.s.next - first)) ∧
    (p.s.active = true → (p.s.hasItem = true ∨ p.s.next < p.s.stop) →
      0 < p.putTasks ∨ 0 < p.fwdTasks ∨ p.r.running ≠ []) :=
  PullPair.props first stop maxc ops

example : let p := ((PullPair.mach 100 102 1).run [.extPut 1, .activate, .putTask, .bodyDone 1, .fwdTask, .bodyDone 100,
      .putTask, .putTask, .bodyDone 101]).1
    (p.r.accepted, p.r.finished, p.s.delivered, p.s.succs, p.r.preds) = ([101, 100, 1], [101, 100, 1], [101, 100], [1], []) := by
  decide

/-! ### the reservation protocol (reservable_predecessor_cache, limiter_node::forward_task, input_node put tasks)

Everything below is about `Res.St.sys Res.genFlags` / `Res.ISt.sys Res.genIFlags`: the step functions instantiated
with the structural facts regenerated from the current source text (`Generated/C14Res.lean`); `by decide` checks
that these facts still have the shape the proofs need. -/

open Res in
/-- **One reservation, one owner.**  For every interleaving of any number of `limiter_node::forward_task`
invocations (forward tasks, the decrementer, `register_predecessor`, re-spawns) with item arrivals, edge flips and the
push path, at the granularity of the mutex-protected sections: `reserved_src` is set exactly while ONE attempt (the
`holder`) is between the locked section of `try_reserve` that set it and its own release / consume / failed-reserve
clean-up; a sender is reserved exactly while the holder has reserved it; no release or consume was ever performed by
another attempt or on an unreserved sender (`stolen = false`), and a null `reserved_src` was never dereferenced. -/
theorem reservation_single_owner (threshold : Nat) (ops : List Res.Op) :
    let s := St.sys genFlags threshold ops
    (∀ a, s.holder = some a ↔ (s.att a).pc.holdsSrc.isSome = true) ∧
    (∀ a b, (s.att a).pc.holdsSrc.isSome = true → (s.att b).pc.holdsSrc.isSome = true → a = b) ∧
    s.rsrc = s.hpc.holdsSrc ∧
    (∀ p, (s.snd p).reserved = true ↔ ∃ v, s.hpc.holdsRes = some (p, v)) ∧
    s.stolen = false ∧ s.crashed = false := by
  intro s
  have h : St.Inv s := St.inv_sys (by decide) threshold ops
  refine ⟨h.hold, ?_, h.src, ?_, h.clean.1, h.clean.2⟩
  · intro a b ha hb
    have h1 := (h.hold a).mpr ha
    have h2 := (h.hold b).mpr hb
    rw [h1] at h2; injection h2
  · intro p
    exact ⟨h.res1 p, fun ⟨v, hv⟩ => (h.res2 p v hv).1⟩

open Res in
/-- **A forward attempt whose `try_reserve` fails touches nothing**: in every reachable state, an attempt that enters
`try_reserve` while `reserved_src` is set goes to the failure section without changing the cache, the senders, the
ghost logs or making any call-out; and its failure section (local `reserved == false`) changes counters only — in
particular it neither releases nor consumes the other attempt's reservation. -/
theorem reservation_failed_attempt_touches_nothing (threshold : Nat) (ops : List Res.Op) (a : Nat) (acc : Bool) :
    let s := St.sys genFlags threshold ops
    ((s.att a).pc = .entered → s.rsrc.isSome = true →
      ((s.stepAtt genFlags a acc).att a).pc = .noRes ∧ St.sameRes s (s.stepAtt genFlags a acc)) ∧
    ((s.att a).pc = .noRes →
      ((s.stepAtt genFlags a acc).att a).pc = .done ∧ St.sameRes s (s.stepAtt genFlags a acc)) := by
  intro s
  have h : St.Inv s := St.inv_sys (by decide) threshold ops
  exact ⟨fun h1 h2 => St.failed_entered (by decide) a acc h1 h2, fun h1 => St.failed_noRes (by decide) h a acc h1⟩

open Res in
/-- **A reserved item is consumed iff it was delivered; otherwise it is released and still available.**
For every interleaving: the (sender, value) pairs the successors accepted are exactly the consumed ones plus the one
of the attempt that is between its successful `try_put_task` and its final section (list equality, newest first);
per sender, everything that ever arrived is what was consumed (in arrival order) followed by what is still in the
sender; an in-flight value is the reserved front item of its sender; and when nobody holds `reserved_src`, nothing
is in flight and no sender is reserved — every arrived item has then been delivered exactly once, in order, or is
still available. -/
theorem limiter_forward_exactly_once (threshold : Nat) (ops : List Res.Op) :
    let s := St.sys genFlags threshold ops
    s.delivered = s.inflight ++ s.consumed ∧
    (∀ p, s.arrived p = ((s.consumed.filter (fun x => x.1 == p)).map (·.2)).reverse ++ (s.snd p).items) ∧
    (∀ p v, (p, v) ∈ s.inflight → (s.snd p).reserved = true ∧ (s.snd p).items.head? = some v) ∧
    (s.holder = none → s.inflight = [] ∧ (∀ p, (s.snd p).reserved = false) ∧
      ∀ p, s.arrived p = ((s.delivered.filter (fun x => x.1 == p)).map (·.2)).reverse ++ (s.snd p).items) := by
  intro s
  have h : St.Inv s := St.inv_sys (by decide) threshold ops
  refine ⟨h.deliv, h.arr, ?_, ?_⟩
  · intro p v hm
    unfold St.inflight at hm
    cases hh : s.hpc with
    | offered q w acc =>
      cases acc with
      | false => rw [hh] at hm; simp [Pc.infl] at hm
      | true =>
        rw [hh] at hm; simp [Pc.infl] at hm
        obtain ⟨rfl, rfl⟩ := hm
        exact h.res2 p v (by rw [hh]; rfl)
    | _ => rw [hh] at hm; simp [Pc.infl] at hm
  · intro hn
    have hi : s.inflight = [] := by simp [St.inflight, St.hpc, hn, Pc.infl]
    refine ⟨hi, St.unreserved_of_noholder h hn, ?_⟩
    intro p
    rw [h.deliv, hi]; exact h.arr p

open Res in
/-- **Delivered at most once**: if the items that arrive in a sender are pairwise distinct, the values the successors
accepted from that sender are pairwise distinct. -/
theorem limiter_forward_at_most_once (threshold : Nat) (ops : List Res.Op) (p : Nat) :
    let s := St.sys genFlags threshold ops
    (s.arrived p).Nodup → ((s.delivered.filter (fun x => x.1 == p)).map (·.2)).Nodup := by
  intro s hnd
  exact St.delivered_nodup (St.inv_sys (by decide) threshold ops) p hnd

/-- two forward attempts race for item 100 of sender 0 (threshold 2): attempt 1 enters while attempt 0 holds the
reservation, fails, and leaves it alone; attempt 0 delivers and consumes; 101 is still available -/
def exResOps : List Res.Op :=
  [.senderPut 0 100, .senderPut 0 101, .regPred 0, .step 0 true, .step 0 true, .step 0 true, .step 0 true,
   .step 1 true, .step 1 true, .step 0 true, .step 1 true, .step 0 true]

example : let s := Res.St.sys Res.genFlags 2 exResOps
    (s.delivered, s.consumed, (s.snd 0).items) = ([(0, 100)], [(0, 100)], [101]) := by decide
example : let s := Res.St.sys Res.genFlags 2 exResOps
    ((s.snd 0).reserved, s.rsrc, s.count, s.tries) = (false, none, 1, 0) := by decide
example : let s := Res.St.sys Res.genFlags 2 exResOps
    ((s.att 0).pc, (s.att 1).pc) = (.done, .done) := by decide

/-- the theorems are sensitive to the guard: with an unguarded `try_release` on the failure path (and a null-tolerant
cache) the same schedule lets attempt 1 release attempt 0's reservation; 100 is delivered but never consumed -/
def seededFlags : Res.Flags :=
  { Res.genFlags with limFailGuarded := false, limSetsReserved := false, releaseNullTolerant := true, consumeNullTolerant := true }

example : let s := Res.St.sys seededFlags 2 exResOps
    (s.stolen, s.delivered, s.consumed, (s.snd 0).items) = (true, [(0, 100)], [], [100, 101]) := by decide

open Res in
/-- **input_node: one reservation, the body once per item, consumed iff delivered.**  For every interleaving of any
number of put tasks (`apply_body_bypass`) with an external successor that pulls (`try_get`) or reserves / releases /
consumes: `my_reserved` is held by exactly one party; the body produced the ids `first, first+1, …` each exactly once
(it is never invoked while an item is cached or reserved); every produced id is the cached item or was taken from the
cache exactly once (list equality); what the successors accepted from put tasks is exactly what put tasks consumed
plus the one in flight — so it has no duplicates; nobody released or consumed a reservation that is not theirs. -/
theorem input_node_reserve_apply_once (first stop : Nat) (ops : List Res.IOp) :
    let s := ISt.sys genIFlags first stop ops
    (∀ a, s.holder = some (.task a) ↔ (s.task a).val.isSome = true) ∧
    s.reserved = s.holder.isSome ∧ (s.reserved = true → s.hasItem = true) ∧
    s.gen.reverse = List.range' first (s.next - first) ∧
    s.gen = (if s.hasItem then [s.item] else []) ++ s.taken.map (·.2) ∧
    s.delivered = s.inflight ++ (s.taken.filter (·.1)).map (·.2) ∧
    s.delivered.Nodup ∧ s.stolen = false := by
  intro s
  have h : ISt.Inv s := ISt.inv_sys (by decide) first stop ops
  have hf : s.first = first := by
    have : ∀ (ops : List Res.IOp) (t : ISt), (ops.foldl (ISt.step genIFlags) t).first = t.first := by
      intro ops
      induction ops with
      | nil => intro t; rfl
      | cons o os ih =>
        intro t
        rw [List.foldl_cons, ih]
        cases o <;> simp only [ISt.step, ISt.stepTask, ISt.release, ISt.consume, ISt.respawn, ISt.setTask] <;> (repeat' split) <;> rfl
    exact this ops _
  refine ⟨h.hold, h.res, h.item, ?_, h.gen2, h.deliv, ISt.delivered_nodup h, h.clean⟩
  rw [← hf]; exact h.gen1

open Res in
/-- a put task that finds the node reserved returns at once: no body call, no call-out, nothing released -/
theorem input_node_failed_task_touches_nothing (first stop : Nat) (ops : List Res.IOp) (a : Nat) (acc : Bool) :
    let s := ISt.sys genIFlags first stop ops
    s.task a = .idle → s.reserved = true → s.stepTask genIFlags a acc = s.setTask a .done :=
  fun h1 h2 => ISt.failed_task (by decide) a acc h1 h2

/-- put task 0 is inside `try_put_task` (item 5 reserved) while put task 1 runs: task 1 returns at once; the
successors reject 5, it is released; the external successor pulls it; the next put task generates 6 -/
example : let s := Res.ISt.sys Res.genIFlags 5 7 [.activate, .step 0 true, .step 1 true, .step 0 false, .step 0 true, .xGet,
      .step 2 true, .step 2 true, .step 2 true]
    (s.gen, s.delivered, s.taken, s.bodyCalls, s.reserved, s.hasItem) = ([6, 5], [6], [(true, 6), (false, 5)], 2, false, false) := by
  decide

/-! ### what wait_for_all waits for: the wait-context vertex, thread reference vertices, gateways -/

open Wait in
/-- **The wait tree counts exactly.**  For every interleaving of the ATOMIC ACCESSES of any number of threads —
`reserve_wait` / `release_wait` (gateways, users), `graph_task`s constructed outside the arena (on the graph's vertex)
and inside it (two accesses: the thread's `reference_vertex`, then — if it was 0 — the graph's vertex), their
`finalize` (again two accesses) — the graph's reference count equals: open `reserve_wait`s + live foreign-created
tasks + the number of thread vertices that currently hold their reference on the root + `parent->release()` calls
still to be made; a thread vertex's counter is the number of live tasks that reference it. -/
theorem wait_tree_counts (ops : List Wait.WOp) :
    let s := WT.sys genWFlags ops
    s.root = ((s.resv + s.tasksRoot + s.liveSet.length + s.pendRel : Nat) : Int) ∧
    (∀ u, s.child u = s.tasksChild u) ∧
    (∀ u, u ∈ s.liveSet ↔ (0 < s.child u ∧ s.pr u = false)) ∧ s.liveSet.Nodup := by
  intro s
  have h : WT.Inv s := WT.inv_sys (by decide) ops
  exact ⟨h.root, h.cnt, h.live, h.nd⟩

open Wait in
/-- **wait_for_all covers the gateway.**  `wait_for_all` returns only when it reads reference count 0; in every
reachable state with count 0 there is no open `reserve_wait` (so it cannot return between a gateway's `reserve_wait`
and `release_wait`), no live task created by a foreign thread (so it cannot return while a successor task spawned by
`gateway.try_put` is pending or running) and no fully constructed task of an arena thread; conversely an open
`reserve_wait` or a foreign-created task keeps the count positive.  The ghost flag `early` (a `wait_for_all` test that
let the waiter go while something completed was outstanding) is never set. -/
theorem wait_for_all_covers_gateway (ops : List Wait.WOp) :
    let s := WT.sys genWFlags ops
    (s.root = 0 → s.resv = 0 ∧ s.tasksRoot = 0 ∧ s.pendRel = 0 ∧ ∀ u, 0 < s.tasksChild u → s.pr u = true) ∧
    (0 < s.resv → 0 < s.root) ∧ (0 < s.tasksRoot → 0 < s.root) ∧
    (∀ u, 0 < s.tasksChild u → s.pr u = false → 0 < s.root) ∧
    0 ≤ s.root ∧ s.early = false := by
  intro s
  have h : WT.Inv s := WT.inv_sys (by decide) ops
  have hr := h.root
  have key : ∀ u, 0 < s.tasksChild u → s.pr u = false → 0 < s.liveSet.length := by
    intro u h1 h2
    exact List.length_pos_of_mem ((h.live u).mpr ⟨by rw [h.cnt u]; exact h1, h2⟩)
  refine ⟨?_, ?_, ?_, ?_, ?_, h.early⟩
  · intro h0
    rw [h0] at hr
    have h1 : s.resv + s.tasksRoot + s.liveSet.length + s.pendRel = 0 := by exact_mod_cast hr.symm
    refine ⟨by omega, by omega, by omega, ?_⟩
    intro u hu
    cases hp : s.pr u with
    | true => rfl
    | false => have := key u hu hp; omega
  · intro h1; rw [hr]; exact_mod_cast (by omega : 0 < s.resv + s.tasksRoot + s.liveSet.length + s.pendRel)
  · intro h1; rw [hr]; exact_mod_cast (by omega : 0 < s.resv + s.tasksRoot + s.liveSet.length + s.pendRel)
  · intro u h1 h2
    have := key u h1 h2
    rw [hr]; exact_mod_cast (by omega : 0 < s.resv + s.tasksRoot + s.liveSet.length + s.pendRel)
  · rw [hr]; exact_mod_cast Nat.zero_le _

/-- an async body running in a task of thread 0 reserves the gateway, the task finalizes (thread 1 does the
`parent->release()` late), the foreign thread puts (a task on the root) and releases the gateway, the task runs:
the count is positive throughout and 0 at the end -/
example : (([.mkArena 0, .parentReserve 0, .reserveWait, .finChild 0, .waitTest, .parentRelease, .waitTest, .mkForeign, .releaseWait,
      .waitTest, .finRoot, .waitTest] : List Wait.WOp).foldl
        (fun (acc : Wait.WT × List Int) o => let s := acc.1.step Wait.genWFlags o; (s, acc.2 ++ [s.root])) ({}, [])).2 =
    [0, 1, 2, 2, 2, 1, 1, 2, 1, 1, 0, 0] := by decide


/-! ### try_put_and_wait: the put's wait-context vertex travels with the message -/

open Meta in
/-- **try_put_and_wait returns only after every descendant was processed.**  `try_put_and_wait` returns when its own
vertex reads reference count 0.  For every interleaving of holder creations / destructions and forwards along the
function-node (task, queue → task), buffer / queue, join and limiter paths — each forward being the two steps "offer
to the successor (its holder reserves)" and "destroy the source (release)" in the order the code has, with every other
thread (the waiter's test included) free to run in between — : whenever the count of call `w` is 0, no live holder
(pending or running task, buffer / queue / port slot) carries a message that derives from `w` along metainfo-carrying
hops, and no such message is in transit between a destroyed source and its not yet created successor; the ghost flag
`early` (a test that let the waiter go over an unprocessed descendant) is never set. -/
theorem try_put_and_wait_returns_after_descendants (ops : List Meta.MOp) (w : Nat) :
    let s := MS.sys genMFlags ops
    (s.cnt w = 0 → (∀ h ∈ s.hs, h.tracked = true → w ∉ h.org) ∧ (∀ p ∈ s.pend, p.transit = none)) ∧
    s.early = false := by
  intro s
  have h : MS.Inv s := MS.inv_sys (by decide) ops
  refine ⟨fun h0 => ⟨?_, h.pnd⟩, h.early⟩
  intro x hx ht hw
  have h1 := h.trk x hx ht w hw
  have h2 := MS.count_le_owned hx w
  have h3 := List.count_pos_iff.mpr h1
  have h4 := h.cnt w
  rw [h0] at h4
  have : MS.owned s.hs w = 0 := by exact_mod_cast h4.symm
  omega

open Meta in
/-- **… and it does not wait for unrelated messages.**  The count of call `w` is exactly the number of references
owned by live holders, and a holder owns a reference on `w` only if its message derives from `w`; so as soon as no
live holder derives from `w` the count is 0 and the waiter is released, whatever else is in the graph. -/
theorem try_put_and_wait_ignores_unrelated (ops : List Meta.MOp) (w : Nat) :
    let s := MS.sys genMFlags ops
    s.cnt w = (MS.owned s.hs w : Int) ∧ (∀ h ∈ s.hs, w ∈ h.ws → w ∈ h.org) ∧
    ((∀ h ∈ s.hs, w ∉ h.org) → s.cnt w = 0) := by
  intro s
  have h : MS.Inv s := MS.inv_sys (by decide) ops
  refine ⟨h.cnt w, fun x hx hw => h.own x hx w hw, ?_⟩
  intro hno
  rw [h.cnt w]
  have : MS.owned s.hs w = 0 := by
    have hz : ∀ x ∈ s.hs, x.ws.count w = 0 := by
      intro x hx
      apply List.count_eq_zero_of_not_mem
      intro hm; exact hno x hx (h.own x hx w hm)
    generalize s.hs = l at hz
    induction l with
    | nil => rfl
    | cons y ys ih =>
      rw [MS.owned_cons, hz y (List.mem_cons_self ..), ih (fun x hx => hz x (List.mem_cons_of_mem _ hx))]
  exact_mod_cast this

/-- call 7 enters a queueing function node (a task), an unrelated plain message is queued behind it; the task forwards
to a queue_node slot, finalizes; the slot is forwarded to a sink task which finalizes: count 1,1,2,1,2,1,0 -/
example : (([.tpw 7 .task, .put .slot, .fwdBegin .task [0] true .slot true, .fwdEnd 0, .fwdBegin .buffer [2] true .task true, .fwdEnd 0,
      .fin 3] : List Meta.MOp).foldl
        (fun (acc : Meta.MS × List Int) o => let s := acc.1.step Meta.genMFlags o; (s, acc.2 ++ [s.cnt 7])) ({}, [])).2 =
    [1, 1, 2, 1, 2, 1, 0] := by decide

/-- sensitivity: if `perform_queued_requests` popped the queue before creating the task, the count would drop to 0
while the message is in nobody's hands, and a waiter testing there would return early -/
example : ((Meta.MS.sys { Meta.genMFlags with pqrCopyBeforePop := false }
      [.tpw 7 .slot, .fwdBegin .pqr [0] true .task true, .waitTest 7]).early, (Meta.MS.sys Meta.genMFlags
      [.tpw 7 .slot, .fwdBegin .pqr [0] true .task true, .waitTest 7]).early) = (true, false) := by decide


/-! ### continue nodes -/

/-- **A continue node fires once per round**: with a fixed threshold `k ≥ 1`, after `n` messages it has fired
`n / k` times and holds `n % k` messages of the current round. -/
theorem continue_fires_once_per_round (k n : Nat) (hk : 0 < k) :
    let s := ((ContinueNode.mach k).run (List.replicate n .put)).1
    s.fires = n / k ∧ s.curCount = ((n % k : Nat) : Int) := by
  intro s
  have hi : ContinueNode.Inv k s ∧ s.puts = n := by
    show ContinueNode.Inv k ((ContinueNode.mach k).runFrom _ _).1 ∧ ((ContinueNode.mach k).runFrom _ _).1.puts = n
    have : ∀ (n : Nat) (t : ContinueNode), ContinueNode.Inv k t →
        ContinueNode.Inv k ((ContinueNode.mach k).runFrom t (List.replicate n .put)).1 ∧
        ((ContinueNode.mach k).runFrom t (List.replicate n .put)).1.puts = t.puts + n := by
      intro n
      induction n with
      | zero => intro t ht; simp [Mach.runFrom, ht]
      | succ n ih =>
        intro t ht
        simp only [List.replicate_succ, Mach.runFrom]
        have h1 := ContinueNode.inv_put ht
        have h2 := ih _ h1
        refine ⟨h2.1, ?_⟩
        have h3 : (t.step .put).1.puts = t.puts + 1 := by
          simp only [ContinueNode.step]; split <;> rfl
        exact h2.2.trans (by rw [h3]; omega)
    have h0 : ContinueNode.Inv k (ContinueNode.mach k).init := by
      constructor <;> simp [ContinueNode.mach]; omega
    have := this n _ h0
    simpa [ContinueNode.mach] using this
  obtain ⟨⟨_, h2, h3, h4⟩, h5⟩ := hi
  rw [h5] at h4
  obtain ⟨c, hc⟩ : ∃ c : Nat, s.curCount = c := ⟨s.curCount.toNat, by omega⟩
  rw [hc] at h3 h4 ⊢
  have hlt : c < k := by omega
  have heq : c + k * s.fires = n := by
    have : ((c + k * s.fires : Nat) : Int) = n := by
      rw [h4]; simp [Int.mul_comm]; omega
    exact_mod_cast this
  have := (Nat.div_mod_unique hk).mpr ⟨heq, hlt⟩
  exact ⟨this.1.symm, by rw [this.2]⟩

example : ((ContinueNode.mach 3).run [.put, .put, .put, .put]).2 = [false, false, true, false] := by decide

/-! ### whole graphs -/

/-- The graphs of `graph_conservation`: function nodes that never reject (queueing policy or unlimited
concurrency), fresh, connected by `succs` without parallel edges. -/
structure WellFormed (node : Nat → FuncInput) (succs : Nat → List Nat) : Prop where
  fresh : ∀ n, ∃ maxc q, node n = FuncInput.new maxc q ∧ (q = true ∨ maxc = 0)
  nodup : ∀ p, (succs p).Nodup

theorem WellFormed.ninv {node succs} (h : WellFormed node succs) : Net.NInv (Net.init node succs) := by
  apply Net.inv_init
  · intro n; obtain ⟨m, q, e, _⟩ := h.fresh n; rw [e]; exact FuncInput.inv_new m q
  · intro n; obtain ⟨m, q, e, _⟩ := h.fresh n; rw [e]; rfl
  · intro n; obtain ⟨m, q, e, _⟩ := h.fresh n; rw [e]; exact ⟨rfl, rfl, rfl⟩
  · exact h.nodup

theorem WellFormed.ainv {node succs} (h : WellFormed node succs) : Net.AInv (Net.init node succs) := by
  refine ⟨?_, fun _ => rfl⟩
  intro n; obtain ⟨m, q, e, hq⟩ := h.fresh n
  show FuncInput.accepting (node n)
  rw [e]
  rcases hq with hq | hq
  · left; simp [FuncInput.new, hq]
  · right; simp [FuncInput.new, hq]

/-- **Conservation in a graph of queueing / unlimited function nodes**, for every interleaving of external
`try_put`s, task starts, body completions, single deliveries, cancellation-free or not:
nothing is ever rejected or dropped; per node, accepted = finished + running + queued; per node, accepted =
external puts + what predecessors delivered; per edge p→n, what p finished = what n received from p + what
delivering tasks still hold for n. -/
theorem graph_conservation (node : Nat → FuncInput) (succs : Nat → List Nat) (hw : WellFormed node succs)
    (ops : List NOp) :
    let s := ((Net.mach node succs).run ops).1
    (∀ n, s.lost n = []) ∧
    (∀ n m, (s.node n).accepted.count m =
        (s.node n).finished.count m + (s.node n).running.count m + (s.node n).queued.count m) ∧
    (∀ n m, (s.node n).accepted.count m = (s.ext n).count m + ((s.recv n).map Prod.snd).count m) ∧
    (∀ p n m, n ∈ succs p →
        (s.node p).finished.count m = (s.recv n).count (p, m) + Net.pend s.dtasks p n m) ∧
    (∀ n p m, (p, m) ∈ s.recv n → n ∈ succs p) := by
  intro s
  have hi : Net.NInv s := Mach.inv_run (Net.mach node succs) Net.NInv hw.ninv (fun _ o h => Net.inv_step h o) ops
  have ha : Net.AInv s := Mach.inv_run (Net.mach node succs) Net.AInv hw.ainv (fun _ o h => Net.ainv_step h o) ops
  have hs : s.succs = succs :=
    Mach.inv_run (Net.mach node succs) (fun t => t.succs = succs) rfl
      (fun t o h => by show (t.step o).1.succs = succs; rw [Net.step_succs, h]) ops
  refine ⟨ha.nolost, fun n m => (hi.fi n).bal m, hi.acc, ?_, ?_⟩
  · intro p n m hin
    have := hi.edge p n m (by rw [hs]; exact hin)
    rw [ha.nolost n] at this
    simpa using this
  · intro n p m hm; rw [← hs]; exact hi.org n p m hm

/-- **At quiescence the sinks hold what the sources sent**: when no task is live or delivering (and none was
cancelled), every node has processed exactly what it accepted, and every edge p→n has carried exactly what p
accepted — so along any path the multiset is preserved, fan-out copies it to every successor, fan-in adds up. -/
theorem graph_conservation_quiescent (node : Nat → FuncInput) (succs : Nat → List Nat) (hw : WellFormed node succs)
    (ops : List NOp) :
    let s := ((Net.mach node succs).run ops).1
    Net.Quiescent s →
      (∀ n m, (s.node n).finished.count m = (s.node n).accepted.count m) ∧
      (∀ n, (s.node n).running = [] ∧ (s.node n).queued = []) ∧
      (∀ p n m, n ∈ succs p → (s.recv n).count (p, m) = (s.node p).accepted.count m) := by
  intro s hq
  have hi : Net.NInv s := Mach.inv_run (Net.mach node succs) Net.NInv hw.ninv (fun _ o h => Net.inv_step h o) ops
  have ha : Net.AInv s := Mach.inv_run (Net.mach node succs) Net.AInv hw.ainv (fun _ o h => Net.ainv_step h o) ops
  have hs : s.succs = succs :=
    Mach.inv_run (Net.mach node succs) (fun t => t.succs = succs) rfl
      (fun t o h => by show (t.step o).1.succs = succs; rw [Net.step_succs, h]) ops
  refine ⟨fun n => (Net.quiescent_node hi hq n).2.2, fun n => ⟨(Net.quiescent_node hi hq n).1, (Net.quiescent_node hi hq n).2.1⟩, ?_⟩
  intro p n m hin
  exact Net.quiescent_edge hi ha hq (by rw [hs]; exact hin) m

/-- **Pipelines deliver exactly what was put**: in a chain `0 → 1 → … → k` of queueing / unlimited function nodes fed
only at node 0, whenever the graph is quiescent the last node has processed exactly the multiset of messages that
external threads put into node 0 — for every interleaving. -/
theorem pipeline_sink_equals_source (node : Nat → FuncInput) (k : Nat)
    (hw : WellFormed node (fun i => if i < k then [i + 1] else [])) (ops : List NOp) :
    let s := ((Net.mach node (fun i => if i < k then [i + 1] else [])).run ops).1
    Net.Quiescent s → (∀ i, 0 < i → s.ext i = []) →
      ∀ m, (s.node k).finished.count m = (s.ext 0).count m := by
  intro s hq hext m
  have hi : Net.NInv s := Mach.inv_run (Net.mach node _) Net.NInv hw.ninv (fun _ o h => Net.inv_step h o) ops
  have ha : Net.AInv s := Mach.inv_run (Net.mach node _) Net.AInv hw.ainv (fun _ o h => Net.ainv_step h o) ops
  have hs : s.succs = (fun i => if i < k then [i + 1] else []) :=
    Mach.inv_run (Net.mach node _) (fun t => t.succs = (fun i => if i < k then [i + 1] else [])) rfl
      (fun t o h => by show (t.step o).1.succs = _; rw [Net.step_succs, h]) ops
  have hacc : ∀ i, i ≤ k → (s.node i).accepted.count m = (s.ext 0).count m := by
    intro i
    induction i with
    | zero =>
      intro _
      have h1 := hi.acc 0 m
      have h2 : s.recv 0 = [] := Net.recv_nil_of_no_pred hi (by
        intro p hp; rw [hs] at hp; simp only at hp; split at hp <;> simp at hp)
      rw [h2] at h1; simpa using h1
    | succ i ih =>
      intro hle
      have he : i + 1 ∈ s.succs i := by rw [hs]; simp; omega
      have honly : ∀ p', i + 1 ∈ s.succs p' → p' = i := by
        intro p' hp; rw [hs] at hp; simp only at hp; split at hp <;> simp at hp; omega
      have := Net.quiescent_single_pred hi ha hq he honly m
      rw [hext (i + 1) (by omega)] at this
      simp at this
      rw [this]; exact ih (by omega)
  rw [(Net.quiescent_node hi hq k).2.2 m]
  exact hacc k (Nat.le_refl k)

/-- **Fan-out copies**: node 0 broadcasting to the sinks `1 … w` — at quiescence every sink has processed exactly what
was put into node 0. -/
theorem fanout_every_sink_gets_all (node : Nat → FuncInput) (w : Nat)
    (hw : WellFormed node (fun i => if i = 0 then (List.range w).map (· + 1) else [])) (ops : List NOp) :
    let s := ((Net.mach node (fun i => if i = 0 then (List.range w).map (· + 1) else [])).run ops).1
    Net.Quiescent s → (∀ i, 0 < i → s.ext i = []) →
      ∀ j m, 1 ≤ j → j ≤ w → (s.node j).finished.count m = (s.ext 0).count m := by
  intro s hq hext j m hj1 hjw
  have hi : Net.NInv s := Mach.inv_run (Net.mach node _) Net.NInv hw.ninv (fun _ o h => Net.inv_step h o) ops
  have ha : Net.AInv s := Mach.inv_run (Net.mach node _) Net.AInv hw.ainv (fun _ o h => Net.ainv_step h o) ops
  have hs : s.succs = (fun i => if i = 0 then (List.range w).map (· + 1) else []) :=
    Mach.inv_run (Net.mach node _) (fun t => t.succs = (fun i => if i = 0 then (List.range w).map (· + 1) else [])) rfl
      (fun t o h => by show (t.step o).1.succs = _; rw [Net.step_succs, h]) ops
  have he : j ∈ s.succs 0 := by
    rw [hs]; simp; exact ⟨j - 1, by omega, by omega⟩
  have honly : ∀ p', j ∈ s.succs p' → p' = 0 := by
    intro p' hp; rw [hs] at hp; simp only at hp; split at hp
    · assumption
    · simp at hp
  have h1 := Net.quiescent_single_pred hi ha hq he honly m
  rw [hext j (by omega)] at h1
  have h0 := hi.acc 0 m
  have h2 : s.recv 0 = [] := Net.recv_nil_of_no_pred hi (by
    intro p hp; rw [hs] at hp; simp only at hp; split at hp
    · simp at hp
    · simp at hp)
  rw [h2] at h0
  rw [(Net.quiescent_node hi hq j).2.2 m]
  simp at h0 h1
  omega

/-- **Fan-in adds**: two sources 1 and 2 feeding sink 0 (which gets no external messages) — at quiescence the sink has
processed exactly the sum of what was put into the two sources. -/
theorem fanin_sink_gets_sum (node : Nat → FuncInput)
    (hw : WellFormed node (fun i => if i = 1 ∨ i = 2 then [0] else [])) (ops : List NOp) :
    let s := ((Net.mach node (fun i => if i = 1 ∨ i = 2 then [0] else [])).run ops).1
    Net.Quiescent s → s.ext 0 = [] →
      ∀ m, (s.node 0).finished.count m = (s.ext 1).count m + (s.ext 2).count m := by
  intro s hq hext m
  have hi : Net.NInv s := Mach.inv_run (Net.mach node _) Net.NInv hw.ninv (fun _ o h => Net.inv_step h o) ops
  have ha : Net.AInv s := Mach.inv_run (Net.mach node _) Net.AInv hw.ainv (fun _ o h => Net.ainv_step h o) ops
  have hs : s.succs = (fun i => if i = 1 ∨ i = 2 then [0] else []) :=
    Mach.inv_run (Net.mach node _) (fun t => t.succs = (fun i => if i = 1 ∨ i = 2 then [0] else [])) rfl
      (fun t o h => by show (t.step o).1.succs = _; rw [Net.step_succs, h]) ops
  have hsrc : ∀ j, (j = 1 ∨ j = 2) → (s.node j).accepted.count m = (s.ext j).count m := by
    intro j hj
    have h1 := hi.acc j m
    have h2 : s.recv j = [] := Net.recv_nil_of_no_pred hi (by
      intro p hp; rw [hs] at hp; simp only at hp; split at hp
      · simp at hp; omega
      · simp at hp)
    rw [h2] at h1; simpa using h1
  have h0 := hi.acc 0 m
  have horg : ∀ x ∈ s.recv 0, x.1 = 1 ∨ x.1 = 2 := by
    intro x hx
    obtain ⟨p, m'⟩ := x
    have := hi.org 0 p m' hx
    rw [hs] at this; simp only at this; split at this
    · assumption
    · simp at this
  rw [Net.count_map_snd_two (by decide) horg m, hext] at h0
  have e1 := Net.quiescent_edge hi ha hq (p := 1) (n := 0) (by rw [hs]; simp) m
  have e2 := Net.quiescent_edge hi ha hq (p := 2) (n := 0) (by rw [hs]; simp) m
  rw [(Net.quiescent_node hi hq 0).2.2 m, h0, e1, e2, hsrc 1 (Or.inl rfl), hsrc 2 (Or.inr rfl)]
  simp

/-- **wait_for_all means idle**: whenever the graph's wait-context vertex is 0 (the only state in which
`wait_for_all` returns) no body task is live (so no body is running and none is pending), no task is delivering
a message, and every `reserve_wait` has been released; if moreover no task was cancelled, every node is drained:
nothing running, nothing queued, everything accepted has been processed.  Holds for every topology and policy. -/
theorem wait_for_all_idle (node : Nat → FuncInput) (succs : Nat → List Nat)
    (hinit : Net.NInv (Net.init node succs)) (ops : List NOp) :
    let s := ((Net.mach node succs).run ops).1
    s.vertex = 0 →
      s.live = [] ∧ s.started = [] ∧ s.dtasks = [] ∧ s.resv = 0 ∧
      (s.zombies = [] → ∀ n, (s.node n).running = [] ∧ (s.node n).queued = [] ∧
        ∀ m, (s.node n).finished.count m = (s.node n).accepted.count m) := by
  intro s hv
  have hi : Net.NInv s := Mach.inv_run (Net.mach node succs) Net.NInv hinit (fun _ o h => Net.inv_step h o) ops
  obtain ⟨h1, h2, h3, h4⟩ := Net.vertex_zero hi hv
  exact ⟨h1, h2, h3, h4, fun hz n => Net.quiescent_node hi ⟨h1, h3, hz⟩ n⟩

/-- The vertex always counts exactly the live tasks, the delivering tasks and the open reservations. -/
theorem wait_vertex_counts (node : Nat → FuncInput) (succs : Nat → List Nat)
    (hinit : Net.NInv (Net.init node succs)) (ops : List NOp) :
    let s := ((Net.mach node succs).run ops).1
    s.vertex = ((s.live.length + s.dtasks.length + s.resv : Nat) : Int) :=
  (Mach.inv_run (Net.mach node succs) Net.NInv hinit (fun _ o h => Net.inv_step h o) ops).vx

/-- **After cancellation or an exception no further body starts**: whatever happens after `graph::cancel()`
(or after a body threw), the number of started bodies does not grow — pending tasks are only `cancel`led. -/
theorem no_body_after_cancel (node : Nat → FuncInput) (succs : Nat → List Nat) (before after : List NOp)
    (c : NOp) (hc : c = .cancel ∨ ∃ n m, c = .throw n m ∧
      (n, m) ∈ ((Net.mach node succs).run before).1.started) :
    ((Net.mach node succs).run (before ++ c :: after)).1.bodyStarts =
      ((Net.mach node succs).run before).1.bodyStarts := by
  simp only [Mach.run] at hc ⊢
  rw [Mach.runFrom_append]
  simp only [Mach.runFrom]
  generalize ((Net.mach node succs).runFrom (Net.mach node succs).init before).1 = s at *
  have h1 : (s.step c).1.cancelled = true ∧ (s.step c).1.bodyStarts = s.bodyStarts := by
    rcases hc with hc | ⟨n, m, hc, hs⟩
    · subst hc; simp [Net.step]
    · subst hc
      have hs' : (n, m) ∈ s.started := hs
      simp [Net.step, hs']
  have h2 := Net.cancelled_runFrom node succs h1.1 after
  exact h2.2.trans h1.2

/-- chain 0 → 1 → 2 of a serial queueing, an unlimited and a limit-2 queueing node -/
def exNode : Nat → FuncInput := fun n => if n = 0 then FuncInput.new 1 true else if n = 1 then FuncInput.new 0 false else FuncInput.new 2 true
def exSuccs : Nat → List Nat := fun n => if n = 0 then [1] else if n = 1 then [2] else []

example : WellFormed exNode exSuccs := by
  constructor
  · intro n; unfold exNode
    by_cases h0 : n = 0
    · exact ⟨1, true, by simp [h0], Or.inl rfl⟩
    · by_cases h1 : n = 1
      · exact ⟨0, false, by simp [h1], Or.inr rfl⟩
      · exact ⟨2, true, by simp [h0, h1], Or.inl rfl⟩
  · intro p; unfold exSuccs; split <;> (try split) <;> simp

/-- the pipeline theorem is not vacuous: a message travels through the chain `0 → 1 → 2` and the graph is quiescent again -/
def exChain : Nat → List Nat := fun i => if i < 2 then [i + 1] else []

example : WellFormed exNode exChain := by
  constructor
  · intro n; unfold exNode
    by_cases h0 : n = 0
    · exact ⟨1, true, by simp [h0], Or.inl rfl⟩
    · by_cases h1 : n = 1
      · exact ⟨0, false, by simp [h1], Or.inr rfl⟩
      · exact ⟨2, true, by simp [h0, h1], Or.inl rfl⟩
  · intro p; unfold exChain; split <;> simp

def exRun : Net :=
  ((Net.mach exNode exChain).run [.put 0 7, .put 0 8, .start 0 7, .finish 0 7, .deliver, .start 0 8, .deliver, .start 1 7,
    .finish 0 8, .finish 1 7, .rotate, .deliver, .deliver, .deliver, .deliver, .start 2 7, .start 1 8, .finish 1 8, .deliver, .deliver,
    .start 2 8, .finish 2 8, .finish 2 7, .deliver, .deliver]).1

example : exRun.live = [] ∧ exRun.dtasks = [] ∧ exRun.zombies = [] ∧ exRun.vertex = 0 ∧
    (exRun.node 2).finished = [7, 8] ∧ exRun.ext 0 = [8, 7] ∧ exRun.ext 1 = [] ∧ exRun.ext 2 = [] := by
  decide

/-- **After cancellation or an exception only bodies that were already in flight finish.**  "No further body starts"
made precise: let `c` be `graph::cancel()` or a throwing body.  For every continuation of the run (any interleaving
of puts, task starts, completions, deliveries, more exceptions …), per node and message, the number of completed
body invocations never exceeds the number completed before `c` plus the number that had been taken by a dispatcher
and entered (`started`) when `c` happened; with `no_body_after_cancel` (the start counter is frozen) this says that
once those in-flight bodies have returned — in particular once `wait_for_all` has returned / rethrown — no body runs
until the graph is used again after `reset()`. -/
theorem after_cancel_only_in_flight_finish (node : Nat → FuncInput) (succs : Nat → List Nat) (before after : List NOp)
    (c : NOp) (hc : c = .cancel ∨ ∃ n m, c = .throw n m ∧ (n, m) ∈ ((Net.mach node succs).run before).1.started) (n m : Nat) :
    let s0 := ((Net.mach node succs).run before).1
    let s1 := ((Net.mach node succs).run (before ++ c :: after)).1
    (s1.node n).finished.count m + s1.started.count (n, m) ≤ (s0.node n).finished.count m + s0.started.count (n, m) := by
  simp only [Mach.run] at hc ⊢
  rw [Mach.runFrom_append]
  simp only [Mach.runFrom]
  generalize ((Net.mach node succs).runFrom (Net.mach node succs).init before).1 = s at *
  have h1 : (s.step c).1.cancelled = true ∧ Net.doneOrFlying (s.step c).1 n m ≤ Net.doneOrFlying s n m := by
    rcases hc with hc | ⟨n', m', hc, hs⟩
    · subst hc; exact ⟨by simp [Net.step], Nat.le_refl _⟩
    · subst hc
      have hs' : (n', m') ∈ s.started := hs
      refine ⟨by simp [Net.step, hs'], ?_⟩
      unfold Net.doneOrFlying
      simp only [Net.step, hs', if_true]
      have : (s.started.erase (n', m')).count (n, m) ≤ s.started.count (n, m) := by
        rw [Net.count_erase_pair]; omega
      simp; omega
  exact Nat.le_trans (Net.cancelled_flying_runFrom node succs h1.1 after n m) h1.2

/-- not vacuous: two bodies in flight when node 0's other body throws; both may finish, the queued message never runs -/
example : let s := ((Net.mach exNode exChain).run [.put 1 5, .put 1 6, .put 1 7, .start 1 5, .start 1 6, .start 1 7, .throw 1 7,
      .finish 1 5, .put 1 8, .start 1 8, .finish 1 6, .deliver, .deliver, .start 2 5]).1
    ((s.node 1).finished, s.started, s.bodyStarts, s.cancelled) = ([6, 5], [], 3, true) := by decide

end TbbVerif.C14.Props
