/-
C14 — flow graph conserves messages, honours node limits; wait_for_all means idle.
Property theorems only (helper lemmas live in Proofs/C14/*).  Everything is quantified over ALL sequences of
node operations (`List FOp`, `List NOp`, …): every state change of a node happens inside its aggregator handler
or under its cache mutex, so an interleaving of threads is a sequence of node operations.
-/
import TbbVerif.Proofs.C14.Func
import TbbVerif.Proofs.C14.Caches
import TbbVerif.Proofs.C14.Graph
import TbbVerif.Proofs.C14.Pair

namespace TbbVerif.C14.Props
open TbbVerif TbbVerif.C14

/-! ### function nodes -/

/-- **Concurrency limit.**  For every sequence of operations on a function node with limit `maxc ≠ 0`
(try_put from any thread, lightweight `occupy_concurrency`, body completions, forwarder rounds, predecessor
registration), the number of body invocations that were created and have not finished equals `my_concurrency`
and never exceeds `maxc`. -/
theorem func_concurrency_bound (maxc : Nat) (queueing : Bool) (ops : List FOp) (h : maxc ≠ 0) :
    let s := ((FuncInput.mach maxc queueing).run ops).1
    s.running.length = s.conc ∧ s.conc ≤ maxc := by
  intro s
  have hi := FuncInput.inv_run maxc queueing ops
  have hm := FuncInput.run_maxc maxc queueing ops
  exact ⟨(hi.conc_eq (by rw [hm]; exact h)).symm, by have := hi.conc_le; rw [hm] at this; exact this⟩

/-- A serial node never runs two bodies at once. -/
theorem func_serial_never_two (queueing : Bool) (ops : List FOp) :
    (((FuncInput.mach 1 queueing).run ops).1).running.length ≤ 1 := by
  have := func_concurrency_bound 1 queueing ops (by decide)
  simp only at this; omega

/-- **Accepted ⇔ recorded exactly once; rejected ⇒ untouched** (one `try_put`, any state). -/
theorem func_tryput_effect (s : FuncInput) (m : Nat) :
    let r := s.step (.tryput m)
    (r.2 = .rejected → r.1 = s) ∧
    (r.2 ≠ .rejected →
      r.1.accepted = m :: s.accepted ∧
      (r.1.running ++ r.1.queued).count m = (s.running ++ s.queued).count m + 1 ∧
      r.1.finished = s.finished) := by
  intro r
  rcases FuncInput.tryput_spec s m with h | ⟨ho, hr, hq, ha, hf, _⟩ | ⟨ho, hr, hq, ha, hf, _⟩
  · exact ⟨fun _ => by show (s.step (.tryput m)).1 = s; rw [h], fun hne => absurd (by show (s.step (.tryput m)).2 = .rejected; rw [h]) hne⟩
  · refine ⟨fun he => ?_, fun _ => ⟨ha, ?_, hf⟩⟩
    · have : (s.step (.tryput m)).2 = .rejected := he
      rw [ho] at this; cases this
    · show ((s.step (.tryput m)).1.running ++ (s.step (.tryput m)).1.queued).count m = _
      rw [hr, hq]; simp [List.count_cons]
  · refine ⟨fun he => ?_, fun _ => ⟨ha, ?_, hf⟩⟩
    · have : (s.step (.tryput m)).2 = .rejected := he
      rw [ho] at this; cases this
    · show ((s.step (.tryput m)).1.running ++ (s.step (.tryput m)).1.queued).count m = _
      rw [hr, hq]; simp [List.count_append]; omega

/-- **Every accepted message is in exactly one of {finished, running body, queue}** — as multisets, after every
sequence of operations; a body completion moves exactly one occurrence from `running` to `finished`. -/
theorem func_accept_iff_processed_once (maxc : Nat) (queueing : Bool) (ops : List FOp) (m : Nat) :
    let s := ((FuncInput.mach maxc queueing).run ops).1
    s.accepted.count m = s.finished.count m + s.running.count m + s.queued.count m :=
  (FuncInput.inv_run maxc queueing ops).bal m

/-- With distinct message ids: an accepted message is finished at most once and is never simultaneously
finished, running or queued; when the node is drained it has been processed exactly once. -/
theorem func_processed_exactly_once (maxc : Nat) (queueing : Bool) (ops : List FOp) :
    let s := ((FuncInput.mach maxc queueing).run ops).1
    s.accepted.Nodup →
      (∀ m, s.finished.count m + s.running.count m + s.queued.count m ≤ 1) ∧
      (∀ m, m ∈ s.accepted ↔ (m ∈ s.finished ∨ m ∈ s.running ∨ m ∈ s.queued)) ∧
      (s.running = [] → s.queued = [] → ∀ m, s.finished.count m = if m ∈ s.accepted then 1 else 0) := by
  intro s hnd
  have hb : ∀ m, s.accepted.count m = s.finished.count m + s.running.count m + s.queued.count m :=
    (FuncInput.inv_run maxc queueing ops).bal
  have hc : ∀ m, s.accepted.count m ≤ 1 := fun m => List.nodup_iff_count.mp hnd m
  refine ⟨fun m => by have := hb m; have := hc m; omega, fun m => ?_, fun hr hq m => ?_⟩
  · have := hb m
    constructor
    · intro hm
      have : 0 < s.accepted.count m := List.count_pos_iff.mpr hm
      by_cases h1 : 0 < s.finished.count m
      · left; exact List.count_pos_iff.mp h1
      · by_cases h2 : 0 < s.running.count m
        · right; left; exact List.count_pos_iff.mp h2
        · right; right; exact List.count_pos_iff.mp (by omega)
    · intro hm
      apply List.count_pos_iff.mp
      rcases hm with h | h | h
      · have : 0 < s.finished.count m := List.count_pos_iff.mpr h; omega
      · have : 0 < s.running.count m := List.count_pos_iff.mpr h; omega
      · have : 0 < s.queued.count m := List.count_pos_iff.mpr h; omega
  · have h1 := hb m
    have h2 := hc m
    rw [hr, hq] at h1
    simp at h1
    by_cases hm : m ∈ s.accepted
    · have : 0 < s.accepted.count m := List.count_pos_iff.mpr hm
      simp [hm]; omega
    · have : s.accepted.count m = 0 := List.count_eq_zero_of_not_mem hm
      simp [hm]; omega

/-- A completion can only be issued for an existing body invocation, and retires exactly that one. -/
theorem func_done_effect (s : FuncInput) (m : Nat) (ans : List (Option Nat)) :
    (m ∉ s.running → s.step (.done m ans) = (s, .bad)) ∧
    (m ∈ s.running → (s.step (.done m ans)).1.finished = m :: s.finished) := by
  refine ⟨fun h => FuncInput.done_bad h ans, fun h => ?_⟩
  simp only [FuncInput.step, h, if_true]
  split
  · rfl
  · split
    · simp only [FuncInput.pqr]
      split
      · rfl
      · rfl
      · split <;> rfl
    · rfl

/-- **No forgotten pull.**  On a rejecting node, after every sequence of operations: if a predecessor is
registered in pull mode then a forwarder task is pending or all slots are taken (and the completion that frees
a slot polls the predecessors); a non-empty queue of a queueing node likewise means all slots are taken. -/
theorem func_no_forgotten_work (maxc : Nat) (queueing : Bool) (ops : List FOp) :
    let s := ((FuncInput.mach maxc queueing).run ops).1
    (s.queue = none → s.preds ≠ [] → s.fwdBusy = true ∨ s.conc = s.maxc) ∧
    (s.queued ≠ [] → s.conc = s.maxc) :=
  ⟨(FuncInput.inv_run maxc queueing ops).pull, (FuncInput.inv_run maxc queueing ops).sat⟩

example : ((FuncInput.mach 2 true).run [.tryput 1, .tryput 2, .tryput 3, .done 1 []]).2 =
    [.run 1, .run 2, .queued, .next (some 3) []] := by decide
example : ((FuncInput.mach 1 false).run [.tryput 1, .tryput 2, .regPred 7, .done 1 [some 9]]).2 =
    [.run 1, .rejected, .reg true, .next (some 9) []] := by decide
example : ((FuncInput.mach 1 false).run [.occupy 1, .occupy 2, .done 1 [], .occupy 2]).2 =
    [.run 1, .rejected, .next none [], .run 2] := by decide

/-! ### edges: successor caches, push ⇄ pull, buffering senders -/

/-- **Broadcast offers each output exactly once to every successor**, in cache order, whatever the successors
do (the state `σ` of the rest of the graph is threaded through their `try_put_task` calls); an edge is dropped
from the push set iff the successor rejected *and* took the sender as a predecessor — so every edge is afterwards
in exactly one of the push set and the pull sets (counted with multiplicity). -/
theorem edge_broadcast_once {σ : Type} (offer : σ → Nat → σ × Resp) (s : σ) (succs : List Nat) :
    let r := bcastM offer s succs
    r.2.1.map Prod.fst = succs ∧
    r.2.2 = (r.2.1.filter (fun o => o.2 ≠ .reject true)).map Prod.fst ∧
    ∀ x, r.2.2.count x + (flipped r.2.1).count x = succs.count x :=
  ⟨bcastM_offers offer s succs, bcastM_remaining offer s succs, bcastM_edges offer s succs⟩

/-- **Round-robin hands a message to exactly one successor (or to none if all reject)**: the successors are
asked in order, the first acceptor ends the round, no edge is lost. -/
theorem edge_round_robin_single {σ : Type} (offer : σ → Nat → σ × Resp) (s : σ) (succs : List Nat) :
    let r := rrM offer s succs
    (acceptors r.2.1).length ≤ 1 ∧
    (∃ rest, succs = r.2.1.map Prod.fst ++ rest) ∧
    ((acceptors r.2.1 = [] ∧ r.2.1.map Prod.fst = succs) ∨
      ∃ pre x, r.2.1 = pre ++ [(x, .accept)] ∧ acceptors pre = []) ∧
    ∀ x, r.2.2.count x + (flipped r.2.1).count x = succs.count x :=
  ⟨rrM_accept_le_one offer s succs, rrM_prefix offer s succs, rrM_single offer s succs, rrM_edges offer s succs⟩

/-- **A buffering/reserving sender keeps what is rejected** (input_node): after every sequence of operations —
pushes by its put task (`reserveApply`, then `tryConsume` on success / `tryRelease` on rejection), pulls
(`tryGet`), reservations by a reserving join — the ids the body generated are exactly the delivered ones (each
once, in order) followed by the cached item, and a reservation always holds an item. -/
theorem edge_sender_keeps_rejected (first stop : Nat) (ops : List IOp) :
    let s := ((InputNode.mach first stop).run ops).1
    s.delivered.reverse ++ (if s.hasItem then [s.item] else []) = List.range' s.first (s.next - s.first) ∧
    (s.reserved = true → s.hasItem = true) :=
  ⟨(InputNode.inv_run first stop ops).gen, (InputNode.inv_run first stop ops).res⟩

example : ((InputNode.mach 5 7).run [.activate, .reserveApply, .tryRelease, .tryGet, .reserveApply, .tryConsume, .reserveApply]).2 =
    [.res none false, .res (some 5) false, .res none false, .res (some 5) false, .res (some 6) false, .res none false, .res none false] := by decide

/-- **Push ⇄ pull switching loses nothing** (input_node S → rejecting function node R, any limit, foreign
`try_put`s to R from other threads, tasks executed in any order): the edge is always in exactly one of the push
set of S and the pull set of R; what R accepted is exactly what S delivered plus the foreign messages; S's
deliveries are the generated ids, each once, in order, followed by the cached item; and as long as S still has
something to send, something is scheduled that will move it (a put task, a forwarder task or a running body
of R whose completion pulls). -/
theorem edge_push_pull_no_loss (first stop maxc : Nat) (ops : List POp) :
    let p := ((PullPair.mach first stop maxc).run ops).1
    ((p.s.succs = [PullPair.rid] ∧ p.r.preds = []) ∨ (p.s.succs = [] ∧ p.r.preds = [PullPair.sid])) ∧
    (∀ m, p.r.accepted.count m = p.s.delivered.count m + p.ext.count m) ∧
    (p.s.delivered.reverse ++ (if p.s.hasItem then [p.s.item] else []) = List.range' first (p.s.next - first)) ∧
    (p.s.active = true → (p.s.hasItem = true ∨ p.s.next < p.s.stop) →
      0 < p.putTasks ∨ 0 < p.fwdTasks ∨ p.r.running ≠ []) :=
  PullPair.props first stop maxc ops

example : let p := ((PullPair.mach 100 102 1).run [.extPut 1, .activate, .putTask, .bodyDone 1, .fwdTask, .bodyDone 100,
      .putTask, .putTask, .bodyDone 101]).1
    (p.r.accepted, p.r.finished, p.s.delivered, p.s.succs, p.r.preds) = ([101, 100, 1], [101, 100, 1], [101, 100], [1], []) := by
  decide

/-! ### continue nodes -/

/-- **A continue node fires once per round**: with a fixed threshold `k ≥ 1`, after `n` messages it has fired
`n / k` times and holds `n % k` messages of the current round. -/
theorem continue_fires_once_per_round (k n : Nat) (hk : 0 < k) :
    let s := ((ContinueNode.mach k).run (List.replicate n .put)).1
    s.fires = n / k ∧ s.curCount = ((n % k : Nat) : Int) := by
  intro s
  have hi : ContinueNode.Inv k s ∧ s.puts = n := by
    show ContinueNode.Inv k ((ContinueNode.mach k).runFrom _ _).1 ∧ ((ContinueNode.mach k).runFrom _ _).1.puts = n
    have : ∀ (n : Nat) (t : ContinueNode), ContinueNode.Inv k t →
        ContinueNode.Inv k ((ContinueNode.mach k).runFrom t (List.replicate n .put)).1 ∧
        ((ContinueNode.mach k).runFrom t (List.replicate n .put)).1.puts = t.puts + n := by
      intro n
      induction n with
      | zero => intro t ht; simp [Mach.runFrom, ht]
      | succ n ih =>
        intro t ht
        simp only [List.replicate_succ, Mach.runFrom]
        have h1 := ContinueNode.inv_put ht
        have h2 := ih _ h1
        refine ⟨h2.1, ?_⟩
        have h3 : (t.step .put).1.puts = t.puts + 1 := by
          simp only [ContinueNode.step]; split <;> rfl
        exact h2.2.trans (by rw [h3]; omega)
    have h0 : ContinueNode.Inv k (ContinueNode.mach k).init := by
      constructor <;> simp [ContinueNode.mach]; omega
    have := this n _ h0
    simpa [ContinueNode.mach] using this
  obtain ⟨⟨_, h2, h3, h4⟩, h5⟩ := hi
  rw [h5] at h4
  obtain ⟨c, hc⟩ : ∃ c : Nat, s.curCount = c := ⟨s.curCount.toNat, by omega⟩
  rw [hc] at h3 h4 ⊢
  have hlt : c < k := by omega
  have heq : c + k * s.fires = n := by
    have : ((c + k * s.fires : Nat) : Int) = n := by
      rw [h4]; simp [Int.mul_comm]; omega
    exact_mod_cast this
  have := (Nat.div_mod_unique hk).mpr ⟨heq, hlt⟩
  exact ⟨this.1.symm, by rw [this.2]⟩

example : ((ContinueNode.mach 3).run [.put, .put, .put, .put]).2 = [false, false, true, false] := by decide

/-! ### whole graphs -/

/-- The graphs of `graph_conservation`: function nodes that never reject (queueing policy or unlimited
concurrency), fresh, connected by `succs` without parallel edges. -/
structure WellFormed (node : Nat → FuncInput) (succs : Nat → List Nat) : Prop where
  fresh : ∀ n, ∃ maxc q, node n = FuncInput.new maxc q ∧ (q = true ∨ maxc = 0)
  nodup : ∀ p, (succs p).Nodup

theorem WellFormed.ninv {node succs} (h : WellFormed node succs) : Net.NInv (Net.init node succs) := by
  apply Net.inv_init
  · intro n; obtain ⟨m, q, e, _⟩ := h.fresh n; rw [e]; exact FuncInput.inv_new m q
  · intro n; obtain ⟨m, q, e, _⟩ := h.fresh n; rw [e]; rfl
  · intro n; obtain ⟨m, q, e, _⟩ := h.fresh n; rw [e]; exact ⟨rfl, rfl, rfl⟩
  · exact h.nodup

theorem WellFormed.ainv {node succs} (h : WellFormed node succs) : Net.AInv (Net.init node succs) := by
  refine ⟨?_, fun _ => rfl⟩
  intro n; obtain ⟨m, q, e, hq⟩ := h.fresh n
  show FuncInput.accepting (node n)
  rw [e]
  rcases hq with hq | hq
  · left; simp [FuncInput.new, hq]
  · right; simp [FuncInput.new, hq]

/-- **Conservation in a graph of queueing / unlimited function nodes**, for every interleaving of external
`try_put`s, task starts, body completions, single deliveries, cancellation-free or not:
nothing is ever rejected or dropped; per node, accepted = finished + running + queued; per node, accepted =
external puts + what predecessors delivered; per edge p→n, what p finished = what n received from p + what
delivering tasks still hold for n. -/
theorem graph_conservation (node : Nat → FuncInput) (succs : Nat → List Nat) (hw : WellFormed node succs)
    (ops : List NOp) :
    let s := ((Net.mach node succs).run ops).1
    (∀ n, s.lost n = []) ∧
    (∀ n m, (s.node n).accepted.count m =
        (s.node n).finished.count m + (s.node n).running.count m + (s.node n).queued.count m) ∧
    (∀ n m, (s.node n).accepted.count m = (s.ext n).count m + ((s.recv n).map Prod.snd).count m) ∧
    (∀ p n m, n ∈ succs p →
        (s.node p).finished.count m = (s.recv n).count (p, m) + Net.pend s.dtasks p n m) ∧
    (∀ n p m, (p, m) ∈ s.recv n → n ∈ succs p) := by
  intro s
  have hi : Net.NInv s := Mach.inv_run (Net.mach node succs) Net.NInv hw.ninv (fun _ o h => Net.inv_step h o) ops
  have ha : Net.AInv s := Mach.inv_run (Net.mach node succs) Net.AInv hw.ainv (fun _ o h => Net.ainv_step h o) ops
  have hs : s.succs = succs :=
    Mach.inv_run (Net.mach node succs) (fun t => t.succs = succs) rfl
      (fun t o h => by show (t.step o).1.succs = succs; rw [Net.step_succs, h]) ops
  refine ⟨ha.nolost, fun n m => (hi.fi n).bal m, hi.acc, ?_, ?_⟩
  · intro p n m hin
    have := hi.edge p n m (by rw [hs]; exact hin)
    rw [ha.nolost n] at this
    simpa using this
  · intro n p m hm; rw [← hs]; exact hi.org n p m hm

/-- **At quiescence the sinks hold what the sources sent**: when no task is live or delivering (and none was
cancelled), every node has processed exactly what it accepted, and every edge p→n has carried exactly what p
accepted — so along any path the multiset is preserved, fan-out copies it to every successor, fan-in adds up. -/
theorem graph_conservation_quiescent (node : Nat → FuncInput) (succs : Nat → List Nat) (hw : WellFormed node succs)
    (ops : List NOp) :
    let s := ((Net.mach node succs).run ops).1
    Net.Quiescent s →
      (∀ n m, (s.node n).finished.count m = (s.node n).accepted.count m) ∧
      (∀ n, (s.node n).running = [] ∧ (s.node n).queued = []) ∧
      (∀ p n m, n ∈ succs p → (s.recv n).count (p, m) = (s.node p).accepted.count m) := by
  intro s hq
  have hi : Net.NInv s := Mach.inv_run (Net.mach node succs) Net.NInv hw.ninv (fun _ o h => Net.inv_step h o) ops
  have ha : Net.AInv s := Mach.inv_run (Net.mach node succs) Net.AInv hw.ainv (fun _ o h => Net.ainv_step h o) ops
  have hs : s.succs = succs :=
    Mach.inv_run (Net.mach node succs) (fun t => t.succs = succs) rfl
      (fun t o h => by show (t.step o).1.succs = succs; rw [Net.step_succs, h]) ops
  refine ⟨fun n => (Net.quiescent_node hi hq n).2.2, fun n => ⟨(Net.quiescent_node hi hq n).1, (Net.quiescent_node hi hq n).2.1⟩, ?_⟩
  intro p n m hin
  exact Net.quiescent_edge hi ha hq (by rw [hs]; exact hin) m

/-- **Pipelines deliver exactly what was put**: in a chain `0 → 1 → … → k` of queueing / unlimited function nodes fed
only at node 0, whenever the graph is quiescent the last node has processed exactly the multiset of messages that
external threads put into node 0 — for every interleaving. -/
theorem pipeline_sink_equals_source (node : Nat → FuncInput) (k : Nat)
    (hw : WellFormed node (fun i => if i < k then [i + 1] else [])) (ops : List NOp) :
    let s := ((Net.mach node (fun i => if i < k then [i + 1] else [])).run ops).1
    Net.Quiescent s → (∀ i, 0 < i → s.ext i = []) →
      ∀ m, (s.node k).finished.count m = (s.ext 0).count m := by
  intro s hq hext m
  have hi : Net.NInv s := Mach.inv_run (Net.mach node _) Net.NInv hw.ninv (fun _ o h => Net.inv_step h o) ops
  have ha : Net.AInv s := Mach.inv_run (Net.mach node _) Net.AInv hw.ainv (fun _ o h => Net.ainv_step h o) ops
  have hs : s.succs = (fun i => if i < k then [i + 1] else []) :=
    Mach.inv_run (Net.mach node _) (fun t => t.succs = (fun i => if i < k then [i + 1] else [])) rfl
      (fun t o h => by show (t.step o).1.succs = _; rw [Net.step_succs, h]) ops
  have hacc : ∀ i, i ≤ k → (s.node i).accepted.count m = (s.ext 0).count m := by
    intro i
    induction i with
    | zero =>
      intro _
      have h1 := hi.acc 0 m
      have h2 : s.recv 0 = [] := Net.recv_nil_of_no_pred hi (by
        intro p hp; rw [hs] at hp; simp only at hp; split at hp <;> simp at hp)
      rw [h2] at h1; simpa using h1
    | succ i ih =>
      intro hle
      have he : i + 1 ∈ s.succs i := by rw [hs]; simp; omega
      have honly : ∀ p', i + 1 ∈ s.succs p' → p' = i := by
        intro p' hp; rw [hs] at hp; simp only at hp; split at hp <;> simp at hp; omega
      have := Net.quiescent_single_pred hi ha hq he honly m
      rw [hext (i + 1) (by omega)] at this
      simp at this
      rw [this]; exact ih (by omega)
  rw [(Net.quiescent_node hi hq k).2.2 m]
  exact hacc k (Nat.le_refl k)

/-- **Fan-out copies**: node 0 broadcasting to the sinks `1 … w` — at quiescence every sink has processed exactly what
was put into node 0. -/
theorem fanout_every_sink_gets_all (node : Nat → FuncInput) (w : Nat)
    (hw : WellFormed node (fun i => if i = 0 then (List.range w).map (· + 1) else [])) (ops : List NOp) :
    let s := ((Net.mach node (fun i => if i = 0 then (List.range w).map (· + 1) else [])).run ops).1
    Net.Quiescent s → (∀ i, 0 < i → s.ext i = []) →
      ∀ j m, 1 ≤ j → j ≤ w → (s.node j).finished.count m = (s.ext 0).count m := by
  intro s hq hext j m hj1 hjw
  have hi : Net.NInv s := Mach.inv_run (Net.mach node _) Net.NInv hw.ninv (fun _ o h => Net.inv_step h o) ops
  have ha : Net.AInv s := Mach.inv_run (Net.mach node _) Net.AInv hw.ainv (fun _ o h => Net.ainv_step h o) ops
  have hs : s.succs = (fun i => if i = 0 then (List.range w).map (· + 1) else []) :=
    Mach.inv_run (Net.mach node _) (fun t => t.succs = (fun i => if i = 0 then (List.range w).map (· + 1) else [])) rfl
      (fun t o h => by show (t.step o).1.succs = _; rw [Net.step_succs, h]) ops
  have he : j ∈ s.succs 0 := by
    rw [hs]; simp; exact ⟨j - 1, by omega, by omega⟩
  have honly : ∀ p', j ∈ s.succs p' → p' = 0 := by
    intro p' hp; rw [hs] at hp; simp only at hp; split at hp
    · assumption
    · simp at hp
  have h1 := Net.quiescent_single_pred hi ha hq he honly m
  rw [hext j (by omega)] at h1
  have h0 := hi.acc 0 m
  have h2 : s.recv 0 = [] := Net.recv_nil_of_no_pred hi (by
    intro p hp; rw [hs] at hp; simp only at hp; split at hp
    · simp at hp
    · simp at hp)
  rw [h2] at h0
  rw [(Net.quiescent_node hi hq j).2.2 m]
  simp at h0 h1
  omega

/-- **Fan-in adds**: two sources 1 and 2 feeding sink 0 (which gets no external messages) — at quiescence the sink has
processed exactly the sum of what was put into the two sources. -/
theorem fanin_sink_gets_sum (node : Nat → FuncInput)
    (hw : WellFormed node (fun i => if i = 1 ∨ i = 2 then [0] else [])) (ops : List NOp) :
    let s := ((Net.mach node (fun i => if i = 1 ∨ i = 2 then [0] else [])).run ops).1
    Net.Quiescent s → s.ext 0 = [] →
      ∀ m, (s.node 0).finished.count m = (s.ext 1).count m + (s.ext 2).count m := by
  intro s hq hext m
  have hi : Net.NInv s := Mach.inv_run (Net.mach node _) Net.NInv hw.ninv (fun _ o h => Net.inv_step h o) ops
  have ha : Net.AInv s := Mach.inv_run (Net.mach node _) Net.AInv hw.ainv (fun _ o h => Net.ainv_step h o) ops
  have hs : s.succs = (fun i => if i = 1 ∨ i = 2 then [0] else []) :=
    Mach.inv_run (Net.mach node _) (fun t => t.succs = (fun i => if i = 1 ∨ i = 2 then [0] else [])) rfl
      (fun t o h => by show (t.step o).1.succs = _; rw [Net.step_succs, h]) ops
  have hsrc : ∀ j, (j = 1 ∨ j = 2) → (s.node j).accepted.count m = (s.ext j).count m := by
    intro j hj
    have h1 := hi.acc j m
    have h2 : s.recv j = [] := Net.recv_nil_of_no_pred hi (by
      intro p hp; rw [hs] at hp; simp only at hp; split at hp
      · simp at hp; omega
      · simp at hp)
    rw [h2] at h1; simpa using h1
  have h0 := hi.acc 0 m
  have horg : ∀ x ∈ s.recv 0, x.1 = 1 ∨ x.1 = 2 := by
    intro x hx
    obtain ⟨p, m'⟩ := x
    have := hi.org 0 p m' hx
    rw [hs] at this; simp only at this; split at this
    · assumption
    · simp at this
  rw [Net.count_map_snd_two (by decide) horg m, hext] at h0
  have e1 := Net.quiescent_edge hi ha hq (p := 1) (n := 0) (by rw [hs]; simp) m
  have e2 := Net.quiescent_edge hi ha hq (p := 2) (n := 0) (by rw [hs]; simp) m
  rw [(Net.quiescent_node hi hq 0).2.2 m, h0, e1, e2, hsrc 1 (Or.inl rfl), hsrc 2 (Or.inr rfl)]
  simp

/-- **wait_for_all means idle**: whenever the graph's wait-context vertex is 0 (the only state in which
`wait_for_all` returns) no body task is live (so no body is running and none is pending), no task is delivering
a message, and every `reserve_wait` has been released; if moreover no task was cancelled, every node is drained:
nothing running, nothing queued, everything accepted has been processed.  Holds for every topology and policy. -/
theorem wait_for_all_idle (node : Nat → FuncInput) (succs : Nat → List Nat)
    (hinit : Net.NInv (Net.init node succs)) (ops : List NOp) :
    let s := ((Net.mach node succs).run ops).1
    s.vertex = 0 →
      s.live = [] ∧ s.started = [] ∧ s.dtasks = [] ∧ s.resv = 0 ∧
      (s.zombies = [] → ∀ n, (s.node n).running = [] ∧ (s.node n).queued = [] ∧
        ∀ m, (s.node n).finished.count m = (s.node n).accepted.count m) := by
  intro s hv
  have hi : Net.NInv s := Mach.inv_run (Net.mach node succs) Net.NInv hinit (fun _ o h => Net.inv_step h o) ops
  obtain ⟨h1, h2, h3, h4⟩ := Net.vertex_zero hi hv
  exact ⟨h1, h2, h3, h4, fun hz n => Net.quiescent_node hi ⟨h1, h3, hz⟩ n⟩

/-- The vertex always counts exactly the live tasks, the delivering tasks and the open reservations. -/
theorem wait_vertex_counts (node : Nat → FuncInput) (succs : Nat → List Nat)
    (hinit : Net.NInv (Net.init node succs)) (ops : List NOp) :
    let s := ((Net.mach node succs).run ops).1
    s.vertex = ((s.live.length + s.dtasks.length + s.resv : Nat) : Int) :=
  (Mach.inv_run (Net.mach node succs) Net.NInv hinit (fun _ o h => Net.inv_step h o) ops).vx

/-- **After cancellation or an exception no further body starts**: whatever happens after `graph::cancel()`
(or after a body threw), the number of started bodies does not grow — pending tasks are only `cancel`led. -/
theorem no_body_after_cancel (node : Nat → FuncInput) (succs : Nat → List Nat) (before after : List NOp)
    (c : NOp) (hc : c = .cancel ∨ ∃ n m, c = .throw n m ∧
      (n, m) ∈ ((Net.mach node succs).run before).1.started) :
    ((Net.mach node succs).run (before ++ c :: after)).1.bodyStarts =
      ((Net.mach node succs).run before).1.bodyStarts := by
  simp only [Mach.run] at hc ⊢
  rw [Mach.runFrom_append]
  simp only [Mach.runFrom]
  generalize ((Net.mach node succs).runFrom (Net.mach node succs).init before).1 = s at *
  have h1 : (s.step c).1.cancelled = true ∧ (s.step c).1.bodyStarts = s.bodyStarts := by
    rcases hc with hc | ⟨n, m, hc, hs⟩
    · subst hc; simp [Net.step]
    · subst hc
      have hs' : (n, m) ∈ s.started := hs
      simp [Net.step, hs']
  have h2 := Net.cancelled_runFrom node succs h1.1 after
  exact h2.2.trans h1.2

/-- chain 0 → 1 → 2 of a serial queueing, an unlimited and a limit-2 queueing node -/
def exNode : Nat → FuncInput := fun n => if n = 0 then FuncInput.new 1 true else if n = 1 then FuncInput.new 0 false else FuncInput.new 2 true
def exSuccs : Nat → List Nat := fun n => if n = 0 then [1] else if n = 1 then [2] else []

example : WellFormed exNode exSuccs := by
  constructor
  · intro n; unfold exNode
    by_cases h0 : n = 0
    · exact ⟨1, true, by simp [h0], Or.inl rfl⟩
    · by_cases h1 : n = 1
      · exact ⟨0, false, by simp [h1], Or.inr rfl⟩
      · exact ⟨2, true, by simp [h0, h1], Or.inl rfl⟩
  · intro p; unfold exSuccs; split <;> (try split) <;> simp

/-- the pipeline theorem is not vacuous: a message travels through the chain `0 → 1 → 2` and the graph is quiescent again -/
def exChain : Nat → List Nat := fun i => if i < 2 then [i + 1] else []

example : WellFormed exNode exChain := by
  constructor
  · intro n; unfold exNode
    by_cases h0 : n = 0
    · exact ⟨1, true, by simp [h0], Or.inl rfl⟩
    · by_cases h1 : n = 1
      · exact ⟨0, false, by simp [h1], Or.inr rfl⟩
      · exact ⟨2, true, by simp [h0, h1], Or.inl rfl⟩
  · intro p; unfold exChain; split <;> simp

def exRun : Net :=
  ((Net.mach exNode exChain).run [.put 0 7, .put 0 8, .start 0 7, .finish 0 7, .deliver, .start 0 8, .deliver, .start 1 7,
    .finish 0 8, .finish 1 7, .rotate, .deliver, .deliver, .deliver, .deliver, .start 2 7, .start 1 8, .finish 1 8, .deliver, .deliver,
    .start 2 8, .finish 2 8, .finish 2 7, .deliver, .deliver]).1

example : exRun.live = [] ∧ exRun.dtasks = [] ∧ exRun.zombies = [] ∧ exRun.vertex = 0 ∧
    (exRun.node 2).finished = [7, 8] ∧ exRun.ext 0 = [8, 7] ∧ exRun.ext 1 = [] ∧ exRun.ext 2 = [] := by
  decide

end TbbVerif.C14.Props
