/-
C20 — property theorems for the suspend / resume hand-shake (statements only; invariant and lemmas in Proofs/C20/*).

All theorems quantify over EVERY kind of suspend point (`owner = some o`: the default dispatcher of thread `o`;
`owner = none`: a coroutine), EVERY set of thread programs `progs` (any number of threads; any sequence of
suspend / switch / resume / take / reuse / wait-context operations per thread, so any number of resumer threads and of
suspend–resume rounds) and EVERY schedule `sched : List Tid` of the atomic-access-level model `Model/C20.lean`
(every sequentially consistent interleaving of the accesses to `m_stack_state`, `m_is_owner_recalled` and of the
publication / removal of the resume task).  `c` is the reachable state.

API precondition (as the oneTBB specification states it: each suspend point handed out by `suspend` is passed to
`resume` exactly once; the code checks nothing): a `resume` call that is not the first one for the current suspend
point, or that is made when no suspend point is handed out, is REJECTED by the model (`misuse`, no access; see
`resume_twice_rejected`).  Nothing is assumed about *when* the one valid call happens: inside the callback, between the
callback and the stack switch, between the switch and `finilize_resume`'s exchange, or after it.

A "round" is one suspension of the stack: `c.rounds` counts the suspensions started, `c.done` lists the completed
ones (a record is appended when the continuation starts, i.e. at `m_stack_state.store(active)` on the resumed stack).
-/
import TbbVerif.Proofs.C20.Facts
import TbbVerif.Proofs.C20.SleepN2
import TbbVerif.Proofs.C20.Disp
import TbbVerif.Proofs.C20.PoolFacts
import TbbVerif.Proofs.C20.WaitStep
import TbbVerif.Model.C20Gen
import TbbVerif.Generated.C20

namespace TbbVerif.C20

open SS

/-- the reachable state -/
abbrev reach (owner : Option Tid) (progs : List (List Op)) (sched : List Tid) : Core :=
  ((sys owner progs).run sched).c

abbrev chainASNA : List SS := [active, suspended, notified, active]
abbrev chainANSNA : List SS := [active, notified, suspended, notified, active]

/-- The numeric state values the trace replay uses are the ones `scheduler_common.h` defines (regenerated on every run). -/
theorem enc_matches_generated :
    SS.enc .active = Generated.C20.ssActive ∧ SS.enc .suspended = Generated.C20.ssSuspended ∧
    SS.enc .notified = Generated.C20.ssNotified := by decide

/-- **A suspended task resumes exactly once.**  In every reachable state:
 1. no continuation ever started while another thread was executing on the stack, and no two threads ever were the
    leaver / the pending pusher / the holder of the resume task at once (`bad` is never set): the stack is never run
    by two threads;
 2. every completed user-level suspension had exactly one accepted `resume` call BEFORE its continuation started,
    and exactly one push of the resume task: by the resumer iff its `exchange(notified)` found `suspended`
    (chain A→S→N→A), by the leaver iff its `exchange(suspended)` found `notified` (chain A→N→S→N→A), and the
    continuation got the stack through that resume task;
 3. continuations and suspensions alternate: every suspension continues at most once and a new one starts only after
    the previous one continued (`done.length ≤ rounds ≤ done.length + 1`);
 4. while a suspension is in progress at most one copy of the resume task exists (queued or taken), it exists only if
    it was pushed, and pushes ≤ calls ≤ 1;
 5. never forgotten: once `resume` has been called for the suspension in progress and every thread has finished its
    part of the hand-shake (nobody on the stack, no leaver, no pending pusher), the resume task is in the stream or
    already taken by a thread that is about to continue. -/
theorem resume_exactly_once (owner : Option Tid) (progs : List (List Op)) (sched : List Tid)
    (c : Core) (hc : c = reach owner progs sched) :
    c.bad = false ∧
    (∀ r ∈ c.done, r.kind = .user →
        r.calls = 1 ∧ r.pushR + r.pushL = 1 ∧ r.via = .queue ∧
        (r.pushR = 1 ↔ r.chain = chainASNA) ∧ (r.pushL = 1 ↔ r.chain = chainANSNA)) ∧
    (c.done.length ≤ c.rounds ∧ c.rounds ≤ c.done.length + 1) ∧
    (c.rounds = c.done.length + 1 →
        c.queue + (if c.tk.isSome then 1 else 0) ≤ 1 ∧
        (c.kind = .user → c.queue + (if c.tk.isSome then 1 else 0) = c.rPushR + c.rPushL) ∧
        c.rPushR + c.rPushL ≤ c.rCalls ∧ c.rCalls ≤ 1) ∧
    (c.rounds = c.done.length + 1 → c.kind = .user → c.called = true → c.stk = none → c.lv = none → c.rs = none →
        c.queue = 1 ∨ c.tk.isSome = true) := by
  have hinv : Inv c := by rw [hc]; exact inv_reachable owner progs sched
  clear hc
  obtain ⟨⟨hb, _, _, hd⟩, p, hp⟩ := hinv
  refine ⟨hb, ?_, ?_, ?_, ?_⟩
  · intro r hr hk
    have := hd r hr
    simp only [legalRec, hk] at this
    obtain ⟨h1, h2, h3 | h3⟩ := this
    · obtain ⟨h4, h5, h6⟩ := h3; simp [h1, h2, h4, h5, h6]
    · obtain ⟨h4, h5, h6⟩ := h3; simp [h1, h2, h4, h5, h6]
  · cases p <;> simp only [spec, base, P_run] at hp <;> omega
  · intro ho
    cases p <;> simp only [spec, base, P_run] at hp <;> simp_all <;> (split <;> omega)
  · intro ho hk hcall hs hl hr
    cases p <;> simp only [spec, base, P_run] at hp <;> simp_all

/-- **No continuation without a resume call.**  While a user-level suspension is in progress and `resume` has not been
called for it, no resume task exists (neither queued nor taken nor pushed), and NO step of ANY thread starts the
continuation; every completed user suspension had its `resume` call. -/
theorem no_resume_without_call (owner : Option Tid) (progs : List (List Op)) (sched : List Tid)
    (c : Core) (hc : c = reach owner progs sched)
    (hopen : c.rounds = c.done.length + 1) (hk : c.kind = .user) (hcall : c.called = false) :
    c.queue = 0 ∧ c.tk = none ∧ c.rPushR + c.rPushL = 0 ∧ c.recalled = false ∧
    (∀ (t : Tid) (op : Option Op), (next c t op).c.done = c.done) ∧
    (∀ r ∈ c.done, r.kind = .user → r.calls = 1) := by
  have hinv : Inv c := by rw [hc]; exact inv_reachable owner progs sched
  clear hc
  obtain ⟨⟨_, _, _, hd⟩, p, hp⟩ := hinv
  have hq : c.queue = 0 ∧ c.tk = none ∧ c.rPushR + c.rPushL = 0 ∧ c.recalled = false := by
    cases p <;> simp only [spec, base, P_run] at hp <;> simp_all
  refine ⟨hq.1, hq.2.1, hq.2.2.1, hq.2.2.2, ?_, ?_⟩
  · intro t op
    exact next_done _ t op (by rw [hq.2.1]; simp)
  · intro r hr hu
    have := hd r hr
    simp only [legalRec, hu] at this
    exact this.1

/-- **The only reachable transition chains of `m_stack_state`** are the two documented in `scheduler_common.h`,
A→S→N→A and A→N→S→N→A, for every suspension that hands out a suspend point or recalls the owner (an owner recall is
always A→S→N→A); a coroutine stack that is parked in the co-cache and re-entered by a plain switch goes A→S→A (A→A for
the first start of a new coroutine) — never for a handed-out suspend point.  The chain of the suspension in progress
is always a prefix of these, and its last element is the current value of `m_stack_state`. -/
theorem stack_state_chains (owner : Option Tid) (progs : List (List Op)) (sched : List Tid)
    (c : Core) (hc : c = reach owner progs sched) :
    (∀ r ∈ c.done,
        (r.kind = .user → r.chain = chainASNA ∨ r.chain = chainANSNA) ∧
        (r.kind = .recall → r.chain = chainASNA) ∧
        (r.kind = .park → r.chain = [active, suspended, active] ∨ r.chain = [active, active])) ∧
    c.chain ∈ [[active], [active, notified], [active, suspended], [active, notified, suspended],
               [active, suspended, notified], [active, notified, suspended, notified]] ∧
    c.chain.getLast? = some c.ss ∧
    (c.kind = .park ∨ c.rounds = c.done.length → c.chain = [active] ∨ c.chain = [active, suspended]) := by
  have hinv : Inv c := by rw [hc]; exact inv_reachable owner progs sched
  clear hc
  obtain ⟨⟨_, _, _, hd⟩, p, hp⟩ := hinv
  refine ⟨?_, ?_, ?_, ?_⟩
  · intro r hr
    have := hd r hr
    refine ⟨?_, ?_, ?_⟩ <;> intro hk <;> simp only [legalRec, hk] at this
    · rcases this.2.2 with h | h
      · exact Or.inl h.1
      · exact Or.inr h.1
    · exact this.2.2.2.2.2
    · exact this.2.2.2.2
  · cases p <;> simp only [spec, base, P_run] at hp <;> simp_all
  · cases p <;> simp only [spec, base, P_run] at hp <;> simp_all
  · cases p <;> simp only [spec, base, P_run] at hp <;> simp_all

/-- **The enclosing wait cannot complete while a covered task is suspended.**  The wait context's counter always equals
the number of covered tasks that have not finished (`pending` not yet started + `covered` started on this stack); so
while a covered task is suspended (nobody on the stack, or still inside the suspend callback) the counter is not 0 and
a `wc == 0` test never succeeds (`waitBad` is never set); and the counter is decremented ONLY by the thread that is
executing on the stack outside of `suspend` (a `taskEnd`), never by any step taken while the task is suspended. -/
theorem wait_not_complete_while_suspended (owner : Option Tid) (progs : List (List Op)) (sched : List Tid)
    (c : Core) (hc : c = reach owner progs sched) :
    c.pending + c.covered = c.wc ∧ c.waitBad = false ∧
    (0 < c.covered → suspendedNow c = true → c.wc ≠ 0) ∧
    (∀ (t : Tid) (op : Option Op), (next c t op).c.wc < c.wc → c.stk = some t ∧ c.stkPc = .run ∧ suspendedNow c = false) := by
  have hinv : Inv c := by rw [hc]; exact inv_reachable owner progs sched
  clear hc
  obtain ⟨⟨_, hw, hwc, _⟩, _, _⟩ := hinv
  refine ⟨hwc, hw, fun h _ => by omega, ?_⟩
  intro t op h
  obtain ⟨h1, h2, _⟩ := next_wc _ t op h
  exact ⟨h1, h2, by simp [suspendedNow, h1, h2]⟩

/-- **The owner is recalled exactly once per `recall_owner`.**  `m_is_owner_recalled` is raised at most once more than
it has been consumed; while it is raised the stack's resume task is NOT in any stream (the recall and the push never
happen both), the state is `notified` until the owner continues, and only the owner's `clr` store lowers it; every
completed recall suspension was continued by the owner itself, through the recall (not through a resume task), with no
`resume` call and no push, and conversely only recall suspensions are continued through the recall. -/
theorem owner_recall_once (owner : Option Tid) (progs : List (List Op)) (sched : List Tid)
    (c : Core) (hc : c = reach owner progs sched) :
    c.recallTakes ≤ c.recalls ∧ c.recalls ≤ c.recallTakes + 1 ∧
    (c.recalls = c.recallTakes + 1 ↔ c.recalled = true ∧ c.tk = none ∧ c.stk = none) ∧
    (c.recalled = true → c.queue = 0 ∧ c.rs = none ∧ c.lv = none ∧
        (c.ss = notified ∨ (c.stkPc = .clr ∧ c.stk.isSome = true ∧ c.stk = c.owner))) ∧
    (∀ r ∈ c.done, r.kind = .recall → r.byOwner = true ∧ r.via = .recall ∧ r.calls = 0 ∧ r.pushR + r.pushL = 0) ∧
    (∀ r ∈ c.done, r.via = .recall → r.kind = .recall) := by
  have hinv : Inv c := by rw [hc]; exact inv_reachable owner progs sched
  clear hc
  obtain ⟨⟨_, _, _, hd⟩, p, hp⟩ := hinv
  refine ⟨?_, ?_, ?_, ?_, ?_, ?_⟩
  · cases p <;> simp only [spec, base, P_run] at hp <;> omega
  · cases p <;> simp only [spec, base, P_run] at hp <;> omega
  · cases p <;> simp only [spec, base, P_run] at hp <;> simp_all <;> grind
  · intro hr
    cases p <;> simp only [spec, base, P_run] at hp <;> simp_all <;> grind
  · intro r hr hk
    have := hd r hr
    simp only [legalRec, hk] at this
    obtain ⟨h1, h2, h3, h4, h5, _⟩ := this
    simp [h1, h2, h3, h4, h5]
  · intro r hr hv
    have := hd r hr
    cases hk : r.kind <;> simp only [legalRec, hk] at this
    · simp [this.2.1] at hv
    · rfl
    · simp [this.2.1] at hv

/-- The model rejects what the API forbids: a second `resume` for the same suspend point makes no access at all. -/
theorem resume_twice_rejected (c : Core) (t : Tid) (h : c.callable = false) :
    (opResume c t).c = c ∧ (opResume c t).o = .misuse := by
  simp [opResume, h]

/-! ### non-vacuity: concrete schedules of the model -/

/-- resume (thread 1) inside the callback of thread 0, i.e. before the suspension has taken effect: the leaver sees
`notified`, pushes itself; thread 2 continues: the chain A→N→S→N→A, pushed by the leaver, continued by thread 2 -/
example :
    (reach (some 0) [[.suspend, .switch .user], [.resume], [.take]] [0, 1, 0, 0, 0, 0, 2, 2]).done =
      [{ kind := .user, chain := chainANSNA, calls := 1, pushR := 0, pushL := 1, via := .queue, by_ := 2, byOwner := false }] := by
  decide

/-- resume after the leaver's exchange: chain A→S→N→A, pushed by the resumer -/
example :
    (reach (some 0) [[.suspend, .switch .user], [.resume], [.take]] [0, 0, 0, 1, 1, 2, 2]).done =
      [{ kind := .user, chain := chainASNA, calls := 1, pushR := 1, pushL := 0, via := .queue, by_ := 2, byOwner := false }] := by
  decide

/-- the callback resumes its own suspend point, then a second suspension of the same stack by the thread that continued it -/
example :
    ((reach (some 0) [[.suspend, .resume, .switch .user, .take], [], []] [0, 0, 0, 0, 0, 0, 0, 0, 0]).done.map (·.chain),
     (reach (some 0) [[.suspend, .resume, .switch .user, .take], [], []] [0, 0, 0, 0, 0, 0, 0, 0, 0]).stkPc) =
      ([chainANSNA], .run) := by
  decide

/-- owner recall: thread 1 runs thread 0's stack, leaves it through `recall_point`, thread 0 comes back -/
example :
    (reach (some 0) [[.suspend, .switch .user, .take], [.resume, .take, .switch .recall]]
        [0, 0, 0, 1, 1, 1, 1, 1, 1, 1, 1, 0, 0, 0]).done.map (fun r => (r.kind, r.chain, r.by_, r.byOwner)) =
      [(.recall, chainASNA, 0, true), (.user, chainASNA, 1, false)] := by
  decide

/-- a coroutine: first start, parked in the co-cache, re-entered -/
example :
    (reach none [[.reuse, .switch .park, .reuse]] [0, 0, 0, 0, 0, 0, 0]).done.map (fun r => (r.kind, r.chain)) =
      [(.park, [active, suspended, active]), (.park, [active, active])] := by
  decide

/-- a second resume call is rejected and flagged; a suspension without any resume call stays suspended with wc ≠ 0 -/
example :
    let g := (sys (some 0) [[.reserve, .taskBegin, .suspend, .switch .user], [.resume, .resume], [.take, .waitCheck]]).run
                [0, 0, 0, 0, 0, 1, 1, 1, 2, 2]
    (g.ths.map (·.misuse), g.c.done.length, g.c.wc, g.c.waitBad) = ([false, true, false], 1, 1, false) := by
  decide

/-! ## The dispatch context of the suspending thread, and resume versus sleep

The next theorems are about the two places outside the hand-shake word where a suspended task can be "forgotten":
the dispatch loop the suspending thread continues in (`Model/C20Disp.lean`) and the sleep of that thread when it is
the only one in its arena (`Model/C20Sleep.lean`).  Both models are configured by facts that the check regenerates
from the source on every run (`Generated/C20.lean`, assembled in `Model/C20Gen.lean`); `generated_*_facts` pin them to
what the proofs need, so a source change that alters one of them breaks this file. -/

/-- The regenerated facts about the dispatch context are the ones the model is proved for: the dispatcher a suspending
thread moves onto starts with `no_isolation` whatever the isolation of the suspender (observed on the instrumented
runtime), and the task sources filter as `isolation == no_isolation || isolation == task's` (translated from
arena_slot.cpp / mailbox.h / task_dispatcher.h / arena.h). -/
theorem generated_dispatch_facts : Disp.Good genDispCfg := by
  refine ⟨fun _ => rfl, ?_, ?_, ?_, ?_, ?_⟩
  · intro l t; by_cases h1 : l = 0 <;> by_cases h2 : l = t <;> simp [genDispCfg, Generated.C20.omitLocal, h1, h2]
  · intro l t; by_cases h1 : l = 0 <;> by_cases h2 : l = t <;> simp [genDispCfg, Generated.C20.stealOk, h1, h2]
  · intro l t; by_cases h1 : l = 0 <;> by_cases h2 : t = l <;> simp [genDispCfg, Generated.C20.mailSkip, h1, h2]
  · intro l; by_cases h1 : l = 0 <;> simp [genDispCfg, Generated.C20.fifoOk, h1]
  · intro l; by_cases h1 : l = 0 <;> simp [genDispCfg, Generated.C20.critSpecific, h1]

/-- **The thread that suspended keeps executing other work** (dispatch-context part).  Take any state `s0` of a thread
(any isolation of its current dispatcher, any nesting of dispatch loops, any suspended stacks, any coroutines in the
co-cache that were left there by the code itself) and any sequence `ops` of isolate / nested wait / task execution /
loop exit / suspend / resume-task operations; when the thread then calls `tbb::task::suspend`, it continues on a
coroutine dispatcher whose dispatch loop runs with isolation `l = no_isolation`: the loop accepts EVERY task, whatever
its isolation tag — from the local pool, by stealing, from the mailbox — and looks at the enqueued-task stream and at
any critical task; in particular the isolation of the region that called `suspend` plays no role. -/
theorem suspended_thread_takes_any_task (s0 : Disp.St) (h0 : Disp.WF s0) (ops : List Disp.Op) :
    let s := Disp.step genDispCfg (Disp.run genDispCfg s0 ops) .suspend
    s.cur.co = true ∧ Disp.curLoopIso s = some 0 ∧ Disp.takesAll genDispCfg 0 := by
  have g := generated_dispatch_facts
  have hw := Disp.run_wf genDispCfg g ops s0 h0
  have h := Disp.suspend_loop_iso genDispCfg g _ hw
  exact ⟨h.1, h.2, Disp.takesAll_zero genDispCfg g⟩

/-- The regenerated facts about the sleep path are the ones the model is proved for: the wake-up condition of
`coroutine_waiter::pause` is `arena not empty || owner recalled`, `has_tasks()` looks at the resume (and critical)
stream, `r1::resume` pushes the resume task and THEN calls `advertise_new_work<wakeup>`, the owner recall stores the
flag and then notifies the monitor. -/
theorem generated_sleep_facts : Sleep.Good genSleepCfg :=
  ⟨by decide, by decide, by decide, by decide, by decide⟩

/-- **A resume is not lost by the sleep of the arena's only thread** (the C02 monitor theorem for this predicate).
For every initial value of `my_pool_state`, any number of concurrent resumers (`r1::resume` after a successful
`try_notify_resume`: push into the resume stream, then `advertise_new_work<wakeup>` = `test_and_set` of the pool state
and, if it was the one to set it, `notify` of the waiting-threads monitor) and owner recalls (`recall_owner` + `notify`),
every program of the sleeping thread (any sequence of "take a resume task / my recall" and "back-off expired:
`out_of_work()` — clear transaction with the `has_tasks` scan — then `sleep()`: `prepare_wait`, wake-up condition,
`commit_wait`, semaphore"), and EVERY interleaving `sched` of the atomic accesses: if a resume task is in the stream, or
the owner has been recalled, and no notifier step is pending (every resumer / recaller has either not started or
returned), then the thread is NOT blocked on its semaphore — it is running, or its V has already been posted. -/
theorem resume_not_lost_by_sleep (poolSet : Bool) (kinds : List Sleep.NKind) (ops : List Sleep.SOp) (sched : List Tid) :
    let s := (Sleep.sys genSleepCfg poolSet kinds ops).run sched
    Sleep.quiet s = true → (0 < s.stream ∨ s.recalled = true) → Sleep.blocked s = false := by
  intro s hq hw
  exact Sleep.not_blocked_of_inv s (Sleep.inv_reachable genSleepCfg generated_sleep_facts poolSet kinds ops sched) hq hw

/-! ### non-vacuity of the two models -/

/-- a task suspends inside `this_task_arena::isolate` (tag 7) while the default dispatcher is in a nested wait: the
thread continues in a loop without isolation; later the coroutine is parked in the co-cache and reused -/
example :
    let s0 : Disp.St := { cur := { iso := 0, loops := [] } }
    let s1 := Disp.run genDispCfg s0 [.enter, .exec 0, .setIso 7, .suspend]
    let s2 := Disp.run genDispCfg s1 [.exec 7, .exec 0, .resumeTo 0, .setIso 9, .suspend]
    (s1.cur.co, Disp.curLoopIso s1, s1.susp.map (·.iso), Disp.curLoopIso s2, s2.cache.length) =
      (true, some 0, [7], some 0, 0) := by
  decide

/-- the sleeper clears the pool state, parks; a resumer pushes, sets the state, notifies: the sleeper is woken and
takes the task -/
example :
    let s := (Sleep.sys genSleepCfg true [.resume] [.sleep 5, .take]).run
              [0, 0, 0, 0, 0, 0, 0, 0, 0, 1, 1, 1, 1, 1, 1, 0, 0]
    (s.sl, s.stream, s.epoch, Sleep.quiet s, Sleep.blocked s) = (.idle, 0, 1, true, false) := by
  decide

/-- the resume lands between the `has_tasks` scan and the sleep: the clear transaction is interrupted, no notify is
sent, and it is the wake-up condition (`arena not empty`) that keeps the thread awake -/
example :
    let s := (Sleep.sys genSleepCfg true [.resume] [.sleep 5]).run [0, 0, 0, 0, 1, 1, 1, 0, 0, 0, 0, 0, 0, 0]
    (s.sl, s.pool, s.stream, Sleep.quiet s, Sleep.blocked s) = (.idle, .set, 1, true, false) := by
  decide

/-- ... and the hypotheses of `resume_not_lost_by_sleep` are needed: with a wake-up condition that ignores the arena
state, or one that ignores the recall flag, with a `has_tasks` that ignores the resume stream, or a `resume` that does
not advertise, the model loses the resume (the thread is parked, the task is in the stream, nobody will notify) -/
example :
    let lost := fun (cfg : Sleep.Cfg) (p : Bool) (k : Sleep.NKind) (sch : List Tid) =>
      let s := (Sleep.sys cfg p [k] [.sleep 5]).run sch
      Sleep.blocked s && Sleep.quiet s && (decide (0 < s.stream) || s.recalled)
    (lost { Sleep.asCoded with pred := fun _ r => r } true .resume [0, 0, 0, 0, 1, 1, 1, 0, 0, 0, 0, 0],
     lost { Sleep.asCoded with pred := fun n _ => n } false .recall [0, 0, 1, 1, 0, 0, 0, 0, 0],
     lost { Sleep.asCoded with scanSeesResume := false } true .resume [1, 1, 0, 0, 0, 0, 0, 0, 0, 0, 0, 0],
     lost { Sleep.asCoded with advertises := false } false .resume [0, 0, 0, 0, 0, 0, 0, 1, 1]) = (true, true, true, true) := by
  decide

/-! ## The dispatcher pool of an arena: coroutine cache, post-resume actions, several suspensions

`Model/C20Pool.lean`: any number `nt` of slot threads (thread `t` owns the default dispatcher `t`; `workers[t]` says whether
it is a worker), any number of foreign threads, any number of coroutine dispatchers created on demand, a co-cache of any
capacity `cap ≥ 1` (the code: `coCacheFactor * num_slots`), any programs (suspend / resume / take a resume task / nested
loops / critical sections / wait notifications / leave and enter the arena / arena destruction) and EVERY schedule.  Each
dispatcher carries a full `SuspendPoint` core and every pool step applies that model's own step functions, so what the
earlier statements say holds for every dispatcher of the pool (`multi_suspend_sequence`).  The statement-order facts the model
is built on are regenerated from the source (`genPoolSkel`); `generated_pool_skeleton` pins them. -/

/-- the reachable pool state -/
abbrev preach (nt cap : Nat) (workers : List Bool) (progs : List (List Pool.Op)) (sched : List Tid) : Pool.PSt :=
  ((Pool.sys genPoolSkel nt cap workers progs).run sched).p

/-- The regenerated skeleton of `arena_co_cache::pop` / `internal_suspend` / `task_dispatcher::resume` /
`co_local_wait_for_all` / `do_post_resume_action` / `recall_point` / `r1::resume` / `get_self_recall_task` is the one the
pool model is proved for (every flag: see `Pool.Skel`), the numeric values of `post_resume_action` are the model's, and the
co-cache has at least one entry per slot. -/
theorem generated_pool_skeleton :
    Pool.Skel.ok genPoolSkel = true ∧
    Pool.Act.enc .invalid = Generated.C20.actInvalid ∧ Pool.Act.enc .registerWaiter = Generated.C20.actRegisterWaiter ∧
    Pool.Act.enc .cleanup = Generated.C20.actCleanup ∧ Pool.Act.enc .notify = Generated.C20.actNotify ∧
    Pool.Act.enc .none = Generated.C20.actNone ∧ 0 < Generated.C20.coCacheFactor := by decide

/-- **Every suspension of every dispatcher resumes exactly once** (the chain of `m_prev_suspend_point` hand-overs
generalised to any number of dispatchers, threads and suspensions; a task that suspends several times, and suspensions
nested on coroutine stacks, are just several rounds of one dispatcher and rounds of several dispatchers).  For EVERY
dispatcher `d` of the pool — a slot's default dispatcher or a coroutine, however often it was suspended, cached, reused —
its suspend point satisfies everything `resume_exactly_once`, `no_resume_without_call`, `stack_state_chains` and
`owner_recall_once` state for a single suspend point (`ExactlyOnce`): never continued by two threads, each completed user
suspension had exactly one `resume` call and exactly one publication of the resume task (by the resumer iff chain
A→S→N→A, by the leaver iff A→N→S→N→A), recalls are continued by the owner only, cached coroutines re-enter by A→S→A, rounds
and continuations alternate, a called resume is never forgotten, no resume task exists before the call. -/
theorem multi_suspend_sequence (nt cap : Nat) (hc : 0 < cap) (workers : List Bool) (progs : List (List Pool.Op)) (sched : List Tid)
    (s : Pool.PSt) (hs : s = preach nt cap workers progs sched) (d : Pool.DId) (hd : d < s.nd) :
    ExactlyOnce (s.sp d) ∧ (s.sp d).owner = (if d < s.nt then some d else none) := by
  have hb : Pool.Base s := by rw [hs]; exact Pool.base_reachable genPoolSkel generated_pool_skeleton.1 nt cap hc workers progs sched
  exact ⟨exactlyOnce_of_inv _ (hb.inv d hd), hb.owner d hd⟩

/-- **The co-cache never hands a dispatcher out twice.**  In every reachable state:
 1. `my_co_cache.pop()` never returned anything else than an idle cached dispatcher (`cacheErr` is never set), and the
    next `pop` will not either;
 2. every dispatcher occupies at most one slot of the ring; one that does is a live coroutine flagged `cached` and is
    IDLE: no thread runs it, leaves it or holds it, no resume task of it is queued or about to be published, no suspend
    point of it is handed out, its owner is not recalled, its `m_stack_state` is `suspended`;
 3. every dispatcher is in at most one place: running on one thread (`stk`), held by one thread as the target of a switch
    (`tk`), in the cache, or new; while a thread is still leaving it (`lv`) nobody runs it or holds it and it is not cached;
 4. `cleanup()` destroys only dispatchers that are in the ring (hence idle). -/
theorem cocache_no_double_handout (nt cap : Nat) (hc : 0 < cap) (workers : List Bool) (progs : List (List Pool.Op)) (sched : List Tid)
    (s : Pool.PSt) (hs : s = preach nt cap workers progs sched) :
    s.cacheErr = false ∧
    (∀ r' d, Ring.pop true s.ring = (r', some d) → d < s.nd ∧ s.dead d = false ∧ Pool.Idle (s.sp d)) ∧
    (∀ d, Ring.cnt s.ring d ≤ 1) ∧
    (∀ d, 1 ≤ Ring.cnt s.ring d → d < s.nd ∧ s.nt ≤ d ∧ (s.sp d).cached = true ∧ s.dead d = false ∧ Pool.Idle (s.sp d)) ∧
    (∀ d, d < s.nd → bnat (s.sp d).stk.isSome + bnat (s.sp d).tk.isSome + bnat (s.sp d).cached + bnat (s.sp d).fresh ≤ 1 ∧
        ((s.sp d).lv.isSome = true → (s.sp d).stk = none ∧ (s.sp d).tk = none ∧ (s.sp d).cached = false)) ∧
    (∀ d, d ∈ (Ring.cleanup true s.ring).2 → 1 ≤ Ring.cnt s.ring d) := by
  have hb : Pool.Base s := by rw [hs]; exact Pool.base_reachable genPoolSkel generated_pool_skeleton.1 nt cap hc workers progs sched
  have h4 : ∀ d, 1 ≤ Ring.cnt s.ring d → d < s.nd ∧ s.nt ≤ d ∧ (s.sp d).cached = true ∧ s.dead d = false ∧ Pool.Idle (s.sp d) := by
    intro d hd
    obtain ⟨h1, h2, h3⟩ := Pool.base_cnt_pos s hb d hd
    exact ⟨h1, hb.cachedCo d h1 h2, h2, h3, Pool.base_cached_idle s hb d h1 h2⟩
  refine ⟨hb.noCacheErr, ?_, Pool.base_cnt_le s hb, h4, ?_, ?_⟩
  · intro r' d hp
    have := h4 d (Ring.cnt_pop s.ring r' d hb.wf hp).1
    exact ⟨this.1, this.2.2.2.1, this.2.2.2.2⟩
  · intro d hd
    have := inv_places _ (hb.inv d hd)
    exact ⟨this.1, fun hl => ⟨(this.2 hl).1, (this.2 hl).2.1, (this.2 hl).2.2.1⟩⟩
  · intro d hd
    exact ((Ring.cnt_cleanup s.ring hb.wf (Pool.base_cnt_le s hb)).2.1 d).mp hd |>.1

/-- **A dispatcher is destroyed only when it is idle, and is never used afterwards.**  A destroyed dispatcher (`dead`:
replaced in the ring by `push`, or destroyed by `cleanup()` at arena destruction) is a coroutine that was in the cache;
in every later state it is still idle (nobody runs / leaves / holds it, no resume task, no outstanding suspend point)
and occupies no slot of the ring, so no `pop` can return it.  The arena references (`ref_external` taken by
`create_coroutine`, released by the cleanup action before its `push`) are held exactly by the coroutines outside the
cache; so when none is held — the condition under which the arena may be destroyed — every live coroutine sits idle in
the cache. -/
theorem dispatcher_destroyed_only_when_idle (nt cap : Nat) (hc : 0 < cap) (workers : List Bool) (progs : List (List Pool.Op))
    (sched : List Tid) (s : Pool.PSt) (hs : s = preach nt cap workers progs sched) :
    (∀ d, s.dead d = true → d < s.nd ∧ s.nt ≤ d ∧ Pool.Idle (s.sp d) ∧ Ring.cnt s.ring d = 0) ∧
    (∀ d, d ∈ s.refH ↔ (s.nt ≤ d ∧ d < s.nd ∧ (s.sp d).cached = false)) ∧
    (s.refH = [] → ∀ d, s.nt ≤ d → d < s.nd → (s.sp d).cached = true ∧ Pool.Idle (s.sp d)) := by
  have hb : Pool.Base s := by rw [hs]; exact Pool.base_reachable genPoolSkel generated_pool_skeleton.1 nt cap hc workers progs sched
  refine ⟨?_, hb.refs, ?_⟩
  · intro d hd
    obtain ⟨h1, h2⟩ := hb.deadc d hd
    refine ⟨h1, hb.cachedCo d h1 h2, Pool.base_cached_idle s hb d h1 h2, ?_⟩
    rw [hb.cnt d]; simp [hd]
  · intro he d h1 h2
    have : (s.sp d).cached = true := by
      by_cases hc : (s.sp d).cached = true
      · exact hc
      · have := (hb.refs d).mpr ⟨h1, h2, by simpa using hc⟩
        rw [he] at this; simp at this
    exact ⟨this, Pool.base_cached_idle s hb d h2 this⟩

/-- **Each switch is followed by exactly one post-resume action: the one in force at the switch, executed by the thread
that switched, on the new stack, before that thread does anything else.**  For every thread, in every reachable state,
the list of (action, argument) pairs in force at its switches (`setLog`) and the list of pairs it executed after a switch
(`runLog`) are equal whenever the thread is not between a switch and the end of `do_post_resume_action`; in between,
exactly the latest pair is outstanding and it is what `my_post_resume_action` / `my_post_resume_arg` hold; and in that
window (and while a `r1::resume` of the thread has its push outstanding) NO step of the thread consumes an operation of
its program — it cannot take a task, run user code, leave the arena.  The logs are the thread's own: a step of another
thread never changes them. -/
theorem post_resume_action_runs_once_on_new_stack (nt cap : Nat) (workers : List Bool) (progs : List (List Pool.Op))
    (sched : List Tid) (s : Pool.PSt) (hs : s = preach nt cap workers progs sched) (t : Tid) :
    (Pool.inFlight (s.thr t).pc = false → (s.thr t).setLog = (s.thr t).runLog) ∧
    (Pool.inFlight (s.thr t).pc = true → (s.thr t).setLog = ((s.thr t).act, (s.thr t).arg) :: (s.thr t).runLog) ∧
    (Pool.inFlight (s.thr t).pc = true → ∀ op, (Pool.stepT genPoolSkel s t op).o = .stay) ∧
    (∀ t' op, t' ≠ t → (Pool.stepT genPoolSkel s t' op).s.thr t = s.thr t) := by
  have hl : Pool.LogOK (s.thr t) := by rw [hs]; exact Pool.logOK_reachable genPoolSkel generated_pool_skeleton.1 nt cap workers progs sched t
  exact ⟨hl.2, hl.1, fun h op => Pool.stepT_inFlight genPoolSkel s t op h,
         fun t' op ht => Pool.stepT_thr_other genPoolSkel s t' t op (fun e => ht e.symm)⟩

/-- **The critical-task state of a stack is kept across a suspension, and selects the stream of its resume task.**
(`suspend_point_type::m_is_critical`, which the property text names, is never read or written in this tree; the state is
`!m_properties.critical_task_allowed` of the dispatcher, `crit` in the model, and `r1::resume` publishes into the critical
stream iff it is set.)  In every reachable state, for every dispatcher nobody runs — suspended, being left, held for a
continuation, cached — `crit` is what it was when the stack was left (`critAt`): no step of any thread changes it, so
at the continuation the task finds the state it suspended with; and whenever a resume task of the dispatcher is queued it
sits in the stream selected by that state. -/
theorem critical_task_state_kept (nt cap : Nat) (hc : 0 < cap) (workers : List Bool) (progs : List (List Pool.Op)) (sched : List Tid)
    (s : Pool.PSt) (hs : s = preach nt cap workers progs sched) (d : Pool.DId) :
    ((s.sp d).stk = none → s.crit d = s.critAt d) ∧ (0 < (s.sp d).queue → s.critQ d = s.critAt d) := by
  have h : Pool.Crit s := by rw [hs]; exact Pool.crit_reachable genPoolSkel generated_pool_skeleton.1 nt cap hc workers progs sched
  exact ⟨h.kept d, h.queued d⟩

/-! ### non-vacuity of the pool model -/

set_option maxRecDepth 8000

/-- one slot thread, one foreign resumer, cache of 4: the thread suspends (a coroutine is created), the foreign thread
resumes, the thread — on the coroutine's bottom loop — takes the resume task, goes back (cleanup action: the coroutine is
cached); then it leaves and the arena is destroyed with the coroutine in the cache -/
example :
    let g := (Pool.sys Pool.asCoded 1 4 [false]
      [[.enterLoop, .suspend, .cbReturn, .take 0 false, .exitLoop, .leaveArena, .arenaCleanup], [.resume 0]]).run
      [0,0,0,0,0,0,0,0,0,0, 1,1, 0,0,0,0,0,0,0]
    g.p.err.isNone = true ∧ g.p.nd = 2 ∧ g.p.ring.buf = [some 1, none, none, none] ∧ (g.p.sp 0).done.length = 1 ∧
    (g.p.sp 1).done.length = 1 ∧ (g.p.thr 0).runLog = [(.cleanup, 1), (.none, 0)] ∧ g.p.refH = [] ∧ (g.p.thr 0).cur = 0 := by
  decide

/-- a task that runs a critical task suspends: the resume task goes to the critical stream, the state is still set afterwards -/
example :
    let g := (Pool.sys Pool.asCoded 1 4 [false] [[.enterLoop, .critBegin, .suspend, .cbReturn, .take 0 false], [.resume 0]]).run
      [0,0,0,0,0,0,0,0,0,0,0, 1,1]
    let g2 := (Pool.sys Pool.asCoded 1 4 [false] [[.enterLoop, .critBegin, .suspend, .cbReturn, .take 0 false], [.resume 0]]).run
      [0,0,0,0,0,0,0,0,0,0,0, 1,1, 0,0,0,0,0,0]
    (g.p.sp 0).queue = 1 ∧ g.p.critQ 0 = true ∧ g.p.crit 0 = true ∧ (g2.p.sp 0).stk = some 0 ∧ g2.p.crit 0 = true := by
  decide

example :
    let g := (Pool.sys Pool.asCoded 1 4 [false]
      [[.enterLoop, .suspend, .cbReturn, .take 0 false, .exitLoop, .leaveArena, .arenaCleanup], [.resume 0]]).run
      [0,0,0,0,0,0,0,0,0,0, 1,1, 0,0,0,0,0,0,0, 0,0,0]
    g.p.err.isNone = true ∧ g.p.freed = true ∧ g.p.dead 1 = true ∧ g.p.ring.buf = [none, none, none, none] := by
  decide

/-- ... and a `pop` that does not clear its slot (the flag the translator extracts) hands the cached coroutine out while
it is still in the ring: with a one-entry cache the second suspension gets the coroutine from the cache, and the stale slot
makes the third `pop` return it again while the thread is running on it — the model flags the double hand-out -/
example :
    let sk := { Pool.asCoded with popClears := false }
    let g := (Pool.sys sk 1 1 [false]
      [[.enterLoop, .suspend, .cbReturn, .take 0 false, .suspend, .cbReturn, .suspend, .cbReturn], [.resume 0]]).run
      [0,0,0,0,0,0,0,0,0,0, 1,1, 0,0,0,0,0,0, 0,0,0,0,0,0,0,0,0, 0,0,0,0]
    g.p.cacheErr = true := by
  decide

/-! ## The waits that cover a suspended task

`Model/C20Wait.lean`: any number of stacks with their frames (task bodies that hold a reference of a wait object until they
return; wait frames that return only at count zero), the wait tree (a node holds a reference of its parent until its own
count is zero), any number of threads that attach to / detach from stacks, every sequence of operations. -/

/-- the wait objects above `w` in the wait tree -/
inductive Wait.Anc (s : Wait.St) : Nat → Nat → Prop where
  | refl (w : Nat) : Wait.Anc s w w
  | up (w c p : Nat) : Wait.Anc s w c → s.par c = some p → Wait.Anc s w p

abbrev wreach (nt : Nat) (ops : List (Tid × Wait.Op)) : Wait.St := Wait.run genWaitCfg (Wait.init nt) ops

/-- regenerated: in `function_task::execute` (task_group::run), `start_for::execute` (parallel_for) and
`delegated_task::execute` (task_arena::execute) the body is called BEFORE `finalize` releases the reference of the wait
object; `recall_point` guards the outermost level (see `generated_pool_skeleton`) -/
theorem generated_wait_facts : genWaitCfg.releaseAfterBody = true ∧ genWaitCfg.recallGuard = true := by decide

/-- **Every wait that transitively covers a suspended task is incomplete.**  In every reachable state, for every task
frame `task w` on ANY stack `d` — in particular a stack nobody runs (`att d = none`: the task is suspended) — and every
wait object `a` above `w` in the wait tree (the group's wait_context for task_group::run; the chunk's wait_node, its
ancestors and the algorithm's root wait_context for parallel_for; the delegate's wait_context for task_arena::execute):
the reference count of `a` is not zero, so NO wait frame on `a` can return (an `exitWait` of any thread on it changes
nothing).  And the frames of a stack are changed only by the thread that is attached to it: while the task is
suspended nothing releases its reference; the reference is released by `finish` — the body has returned — which only
the thread that continued the stack can do. -/
theorem wait_covers_suspended_task (nt : Nat) (ops : List (Tid × Wait.Op)) (s : Wait.St) (hs : s = wreach nt ops) :
    (∀ d w, Wait.Frame.task w ∈ s.frames d → ∀ a, Wait.Anc s w a →
        1 ≤ s.cnt a ∧
        (∀ t d' rest, s.on t = some d' → s.frames d' = Wait.Frame.wait a :: rest → Wait.step genWaitCfg s t .exitWait = s)) ∧
    (∀ t op d, s.att d ≠ some t → (Wait.step genWaitCfg s t op).frames d = s.frames d) := by
  have hi : Wait.WInv s := by
    rw [hs]; exact Wait.run_inv genWaitCfg generated_wait_facts.1 generated_wait_facts.2 ops _ (Wait.init_inv nt)
  refine ⟨?_, fun t op d hd => Wait.step_frames genWaitCfg s t op d hi hd⟩
  intro d w hf a ha
  have hpos : 1 ≤ s.cnt a := by
    induction ha with
    | refl => exact Wait.cnt_pos_of_frame s hi d w hf
    | up c p _ hp ih => exact Wait.cnt_pos_parent s hi c p ih hp
  refine ⟨hpos, ?_⟩
  intro t d' rest ho hfr
  have : s.cnt a ≠ 0 := by omega
  simp [Wait.step, ho, hfr, this]

/-- **A wait's completion is observed only on the stack it lives on, by the thread that owns that stack.**  The outermost
wait frame of a stack that is a thread's own call stack (`owner d = some o`) is never left by another thread (`wrong` is
never set): a thread that runs on a borrowed stack and finds the outermost wait complete cannot return into the owner's
frames — its `exitWait` changes nothing (the code: `recall_point` hands the stack back and recalls the owner). -/
theorem no_wait_completion_from_wrong_stack (nt : Nat) (ops : List (Tid × Wait.Op)) (s : Wait.St) (hs : s = wreach nt ops) :
    s.wrong = false ∧
    (∀ t d w, s.on t = some d → s.frames d = [Wait.Frame.wait w] → s.owner d ≠ none → s.owner d ≠ some t →
        Wait.step genWaitCfg s t .exitWait = s) ∧
    (∀ t d, s.on t = some d → s.att d = some t) := by
  have hi : Wait.WInv s := by
    rw [hs]; exact Wait.run_inv genWaitCfg generated_wait_facts.1 generated_wait_facts.2 ops _ (Wait.init_inv nt)
  refine ⟨hi.wrong, ?_, fun t d ho => (hi.onatt t d ho).1⟩
  intro t d w ho hfr h1 h2
  have hg := generated_wait_facts.2
  by_cases hc : s.cnt w = 0
  · simp [Wait.step, ho, hfr, hc, hg, h1, h2]
  · simp [Wait.step, ho, hfr, hc]

/-! ### non-vacuity of the wait model -/

/-- thread 0 waits on a task_group (wait object 0) and runs a task of it which suspends (the thread leaves stack 0 for a
coroutine stack 2); thread 1 continues stack 0, the body returns there, the count drops to zero; thread 1 — on a borrowed
stack — cannot leave the outermost wait; the owner comes back and does -/
example :
    let s1 := wreach 2 [(0, .newWait none), (0, .spawn 0), (0, .enterWait 0), (0, .begin 0), (0, .detach), (0, .attach 2)]
    let s2 := Wait.run genWaitCfg s1 [(1, .detach), (1, .attach 0), (1, .finish), (1, .exitWait)]
    let s3 := Wait.run genWaitCfg s2 [(1, .detach), (0, .detach), (0, .attach 0), (0, .exitWait)]
    s1.cnt 0 = 1 ∧ s1.att 0 = none ∧ s1.frames 0 = [.task 0, .wait 0] ∧ s2.cnt 0 = 0 ∧ s2.frames 0 = [.wait 0] ∧
    s3.frames 0 = [] ∧ s3.wrong = false := by
  decide

/-- ... and a finalize that released the reference before the body ran would let the wait return over the suspended task -/
example :
    let cfg : Wait.Cfg := { releaseAfterBody := false, recallGuard := true }
    let s := Wait.run cfg (Wait.init 1) [(0, .newWait none), (0, .spawn 0), (0, .enterWait 0), (0, .begin 0)]
    s.cnt 0 = 0 ∧ s.frames 0 = [.task 0, .wait 0] := by
  decide

end TbbVerif.C20
