/-
C12 — concurrent unordered / ordered associative containers never lose or duplicate keys: property theorems.

Model: `Model/C12.lean`.  The CAS-list theorems quantify over EVERY tie rule `rule : Key → Rule`, EVERY set of thread
programs (any number of threads, any sequences of insert / find / traversal operations with valid entry points) and
EVERY schedule `sched : List Tid` of the atomic-access-level model, i.e. every sequentially consistent interleaving of
the loads of `next`, the stores to a private node's `next` and the CAS on `prev.next`.

Since the fault annotations (`Op.arm`) are part of the programs, every theorem about `SplitOrder.sys` / `SkipList.sys` below
also covers runs in which user functors throw; `insert_throw_safe` / `splitorder_throw_safe` add the allocator ledger.

`s.L.chain` is the ghost list; `caslist_sorted_nodup` shows that it is exactly what the `next` pointers say
(`follow`), so every statement about `chain` is a statement about the linked list reachable from the head.
`s.log` = results of completed operations (newest first); `Res.ins k ok n` = an insert of key `k` reported `ok`
(and `n` is the inserted / the already present node), `Res.find k must r`, `Res.trav seen snap`.
-/
import TbbVerif.Proofs.C12.CasListFacts
import TbbVerif.Proofs.C12.Bits
import TbbVerif.Proofs.C12.SplitOrderInv
import TbbVerif.Proofs.C12.SkipListFacts
import TbbVerif.Proofs.C12.SkipListFree
import TbbVerif.Proofs.C12.SkipListMulti
import TbbVerif.Proofs.C12.SplitOrderFree
import TbbVerif.Proofs.C12.Sizing
import TbbVerif.Generated.C12

namespace TbbVerif.C12
open CasList

/-- The constants the arithmetic theorems assume are the ones the headers define (regenerated on every run):
64-bit order keys, a power-of-two default bucket count (and `round_up_to_power_of_two` rounds up to one), at most
`2^63` buckets (`pointers_per_embedded_table = 63` segments), so that every bucket index is below `2^63`. -/
theorem generated_layout :
    Generated.C12.sokeyBits = wordBits ∧ Generated.C12.pointersPerEmbeddedTable + 1 = wordBits ∧
    Generated.C12.initialBucketCount = 2 ^ 3 ∧ Generated.C12.defaultBucketCount = Generated.C12.initialBucketCount ∧
    Generated.C12.roundUp5 = 2 ^ 3 ∧ Generated.C12.roundUp8 = 2 ^ 3 ∧
    0 < Generated.C12.initialMaxLoadFactorMilli ∧ 0 < Generated.C12.skipMaxLevel := by decide

/-! ### the CAS list -/

/-- **Sorted, duplicate-free, exactly the successful inserts.**  In every reachable state the nodes reachable from
the head through the `next` pointers are exactly the ghost chain; the chain starts with the head, has no node twice,
is sorted by order key, holds at most one node per key wherever the container's rule is `uniq`, and consists of the
head plus exactly the nodes linked by a successful CAS (`wins`), each of which is logged as a successful insert.
Every thread that is in the middle of an insertion (including right after a failed CAS) searches from a `prev` that
is still in the list, and its own node is not yet in the list. -/
theorem caslist_sorted_nodup (rule : Key → Rule) (progs : List (List Op)) (sched : List Tid)
    (s : St) (hs : s = (sys rule progs).run sched) :
    follow s.L.next s.L.chain.length 0 = s.L.chain ∧
    s.L.chain.head? = some 0 ∧ s.L.chain.Nodup ∧
    s.L.chain.Pairwise (fun a b => (s.L.key a).ok ≤ (s.L.key b).ok) ∧
    (∀ a ∈ s.L.chain, ∀ b ∈ s.L.chain, s.L.key a = s.L.key b → rule (s.L.key a) = .uniq → a = b) ∧
    (∀ x, x ∈ s.L.chain ↔ x = 0 ∨ x ∈ s.L.wins) ∧ s.L.wins.Nodup ∧
    s.L.wins = s.log.filterMap succNode ∧
    (∀ (t : Tid) (th : Th), s.ths[t]? = some th → th.pc = Pc.search ∨ th.pc = Pc.setNext ∨ th.pc = Pc.cas →
        th.prev ∈ s.L.chain ∧ th.new ∉ s.L.chain ∧ s.L.key th.new = th.k) := by
  subst hs
  have h := inv_reachable rule progs sched
  refine ⟨follow_chain h.good, h.good.head, h.good.nodup, h.good.sorted, h.good.uniq, h.good.wins_mem,
    h.good.wins_nodup, h.wins, ?_⟩
  intro t th hth hpc
  have ht := h.tinv t th hth
  unfold TInv at ht
  rcases hpc with hpc | hpc | hpc <;> simp only [hpc] at ht
  · exact ⟨ht.prev_mem, ht.notin, ht.keynew⟩
  · exact ⟨ht.1.prev_mem, ht.1.notin, ht.1.keynew⟩
  · exact ⟨ht.1.prev_mem, ht.1.notin, ht.1.keynew⟩

/-- **Insert-only.**  Whatever happens later, the list only grows (the earlier chain is a sub-sequence of the later
one, so relative order is kept), the keys of its members never change, and logged results stay logged. -/
theorem caslist_insert_only (rule : Key → Rule) (progs : List (List Op)) (sched more : List Tid) :
    ((sys rule progs).run sched).L.chain.Sublist ((sys rule progs).run (sched ++ more)).L.chain ∧
    (∀ x ∈ ((sys rule progs).run sched).L.chain,
        ((sys rule progs).run (sched ++ more)).L.key x = ((sys rule progs).run sched).L.key x) ∧
    (∀ e ∈ ((sys rule progs).run sched).log, e ∈ ((sys rule progs).run (sched ++ more)).log) := by
  have h := inv_reachable rule progs sched
  have := chain_mono progs more h
  simp only [Sys.run, Sys.runFrom_append]
  exact this

/-- **Exactly one winner.**  For a key whose rule is `uniq`, at most one insert ever reports success, and as soon
as any insert of that key has returned (with either result) exactly one has reported success. -/
theorem caslist_one_winner (rule : Key → Rule) (progs : List (List Op)) (sched : List Tid)
    (s : St) (hs : s = (sys rule progs).run sched) (k : Key) (hk : rule k = .uniq) :
    (s.log.filter (isSucc k)).length ≤ 1 ∧
    (s.log.any (isIns k) = true → (s.log.filter (isSucc k)).length = 1) := by
  subst hs
  exact one_winner (inv_reachable rule progs sched) k hk

/-- **Find after insert.**  (1) Once an insert of `k` has returned, with either result, a node with key `k` is in
the list (and by `caslist_insert_only` stays there).  (2) A lookup whose ghost flag `must` is set — by definition
of `thStep` (`find_begin`) that is: a node with its key was in the list when the lookup began — returns a node, and
whatever node a lookup returns is in the list and carries the key. -/
theorem caslist_find_after_insert (rule : Key → Rule) (progs : List (List Op)) (sched : List Tid)
    (s : St) (hs : s = (sys rule progs).run sched) :
    (∀ t k ok n, (t, Res.ins k ok n) ∈ s.log → n ∈ s.L.chain ∧ s.L.key n = k) ∧
    (∀ t k must r, (t, Res.find k must r) ∈ s.log →
        (must = true → ∃ n, r = some n) ∧ (∀ n, r = some n → n ∈ s.L.chain ∧ s.L.key n = k)) := by
  subst hs
  have h := inv_reachable rule progs sched
  refine ⟨?_, ?_⟩
  · intro t k ok n hm
    have := h.logok _ hm
    cases ok with
    | true => exact ⟨(h.good.wins_mem n).mpr (Or.inr this.1), this.2.1⟩
    | false => exact ⟨this.1, this.2.1⟩
  · intro t k must r hm
    have := h.logok _ hm
    refine ⟨?_, this.2⟩
    intro hmust
    cases r with
    | none => exact absurd rfl (this.1 hmust)
    | some n => exact ⟨n, rfl⟩

/-- **Multi containers: equivalent keys stay contiguous.**  In every reachable state of the CAS list, for every key
whose rule is `before` (the unordered multi containers: a new element is linked directly in front of the first
equivalent one): between two nodes with that key there are only nodes with that key.  (For the ordered multi
containers, rule `after`, equal keys have equal order keys, so contiguity is sortedness.) -/
theorem caslist_multi_contiguous (rule : Key → Rule) (progs : List (List Op)) (sched : List Tid)
    (s : St) (hs : s = (sys rule progs).run sched) (a b z : Node) (ha : a ∈ s.L.chain) (hb : b ∈ s.L.chain)
    (hk : s.L.key a = s.L.key b) (hr : rule (s.L.key a) = .before) (hz : z ∈ aft a s.L.chain) (hbz : b ∈ aft z s.L.chain) :
    s.L.key z = s.L.key a := by
  subst hs
  exact (inv_reachable rule progs sched).contig a ha b hb hk hr z hz hbz

/-- what `must` records: the lookup begins with `must = true` iff a node with the key is in the list right then -/
theorem find_begin (rule : Key → Rule) (L : LSt) (t : Tid) (th : Th) (k : Key) (start : Node) (rest : List Op)
    (hpc : th.pc = .idle) (hops : th.ops = .find k start :: rest) (hv : validFind L k start = true) :
    (thStep rule L t th).th.pc = .fwalk ∧ (thStep rule L t th).th.k = k ∧
    ((thStep rule L t th).th.must = true ↔ ∃ x ∈ L.chain, L.key x = k) := by
  simp [thStep, hpc, hops, hv, hasKey]

/-- **Traversal.**  A completed traversal `seen` (head first) is a sub-sequence of the list as it is afterwards —
so it never shows a node twice, shows nodes in list order (sorted by order key), shows only nodes that are in the
list — and it contains every node that was in the list when it began (`snap`; `trav_begin`). -/
theorem caslist_traversal (rule : Key → Rule) (progs : List (List Op)) (sched : List Tid)
    (s : St) (hs : s = (sys rule progs).run sched) (t : Tid) (seen snap : List Node)
    (h : (t, Res.trav seen snap) ∈ s.log) :
    seen.Sublist s.L.chain ∧ seen.Nodup ∧ seen.Pairwise (fun a b => (s.L.key a).ok ≤ (s.L.key b).ok) ∧
    (∀ x ∈ snap, x ∈ seen) := by
  subst hs
  have hi := inv_reachable rule progs sched
  have := hi.logok _ h
  exact ⟨this.1, this.1.nodup hi.good.nodup, hi.good.sorted.sublist this.1, this.2⟩

theorem trav_begin (rule : Key → Rule) (L : LSt) (t : Tid) (th : Th) (rest : List Op)
    (hpc : th.pc = .idle) (hops : th.ops = .trav :: rest) :
    (thStep rule L t th).th.pc = .twalk ∧ (thStep rule L t th).th.snap = L.chain := by
  simp [thStep, hpc, hops]

/-! ### `count()` / `equal_range()` of the multi containers under concurrent inserts -/

/-- **What `count(k)` of a multi container returns while other threads insert.**  `count` is `std::distance` over
`equal_range(k)`: walk to the first equivalent element (`first`), walk past the equivalent elements to the element that
ends the run (`second`), then walk from `first` to `second` again, counting.  For every tie rule, any number of threads
and every schedule, a completed `count(k) = n` satisfies `lo ≤ n ≤ hi`, where (`count_reports`) `lo` is the number of
equivalent elements that were in the list when the call began and `hi` is the number of equivalent elements in the list when it
returned PLUS the number of elements of OTHER keys that were linked between its begin and its return.
Both bounds are attained.  The second term of `hi` cannot be dropped (`count_over_reports`): an element of another key that
is linked between the last equivalent element and `second` after `second` was determined is counted, so `count(k)` can exceed
the number of elements with key `k` that were ever inserted.  The property text lists `count` among the safe operations but
states no exactness clause for it; the walks themselves are safe (`caslist_count_bounds` is proved from the same invariant as
the traversals: every node they stand on is in the list), so this is recorded as an observation, not as a violation. -/
theorem caslist_count_bounds (rule : Key → Rule) (progs : List (List Op)) (sched : List Tid)
    (s : St) (hs : s = (sys rule progs).run sched) (t : Tid) (k : Key) (n lo hi : Nat)
    (h : (t, Res.count k n lo hi) ∈ s.log) : lo ≤ n ∧ n ≤ hi := by
  subst hs
  exact (inv_reachable rule progs sched).logok _ h

/-- what `lo` / `hi` are: the snapshot is the list when the call begins, and the call reports the number of nodes it walked
together with `countLo` / `countHi` of the list as it is when it returns -/
theorem count_reports (rule : Key → Rule) (L : LSt) (t : Tid) (th : Th) :
    (∀ k start rest, th.pc = .idle → th.ops = .count k start :: rest → validFind L k start = true →
        (thStep rule L t th).th.pc = .cfirst ∧ (thStep rule L t th).th.k = k ∧ (thStep rule L t th).th.snap = L.chain) ∧
    (th.pc = .cdist → L.next th.prev = th.second →
        (thStep rule L t th).res = some (.count th.k th.seen.length (countLo rule L th.k th.snap) (countHi rule L th.k th.snap))) ∧
    (∀ k snap, countLo rule L k snap = (snap.filter (fun x => sameKey rule (L.key x) k)).length ∧
        countHi rule L k snap = (L.chain.filter (fun x => sameKey rule (L.key x) k)).length +
          (L.chain.filter (fun x => !sameKey rule (L.key x) k && !snap.contains x)).length) := by
  refine ⟨?_, ?_, fun k snap => ⟨rfl, rfl⟩⟩
  · intro k start rest hpc hops hv
    simp [thStep, hpc, hops, hv]
  · intro hpc hsec
    simp [thStep, hpc, hsec]

/-- **`count(k)` can exceed the number of elements with key `k` ever inserted** (ordered multi container, 2 threads): thread 0
inserts 9 and 5 and calls `count(5)`; after it has determined `second` = the node of 9, thread 1 links 7 between 5 and 9; the
distance walk counts 5 and 7: `count(5) = 2` although a single 5 was ever inserted (`lo = 1`, `hi = 1 + 1`). -/
theorem count_over_reports :
    (0, Res.count ⟨5, 0⟩ 2 1 2) ∈ ((sys (fun _ => .after)
      [[.ins ⟨9, 0⟩ 0, .ins ⟨5, 0⟩ 0, .count ⟨5, 0⟩ 0], [.ins ⟨7, 0⟩ 0]]).run
      (List.replicate 11 0 ++ List.replicate 6 1 ++ List.replicate 6 0)).log := by decide

/-! ### split-order arithmetic and bucket entry points -/

/-- **reverse_bits**: an involution on 64-bit words (hence injective), and the top `k` bits of the reversed hash
are the reversed low `k` bits — the order reversal that makes the elements of bucket `h mod 2^k` one contiguous
segment `[dummyKey b, dummyKey b + 2^(64-k))` of the split order. -/
theorem reverse_bits_facts :
    (∀ x, rev 64 (rev 64 x) = x % 2 ^ 64) ∧
    (∀ a b, a < 2 ^ 64 → b < 2 ^ 64 → rev 64 a = rev 64 b → a = b) ∧
    (∀ h k, k ≤ 64 → rev 64 h / 2 ^ (64 - k) = rev k (h % 2 ^ k)) := by
  refine ⟨fun x => rev_rev 64 x, fun a b ha hb h => rev_inj ha hb h, ?_⟩
  intro h k hk
  obtain ⟨m, hm⟩ : ∃ m, 64 = k + m := ⟨64 - k, by omega⟩
  have h1 := rev_split k m h
  have h2 := rev_lt m (h / 2 ^ k)
  have hmk : 64 - k = m := by omega
  rw [hmk, hm, h1, Nat.add_comm, Nat.add_mul_div_right _ _ (Nat.two_pow_pos m), Nat.div_eq_of_lt h2]
  simp

/-- **Bucket entry points.**  For every table size `2^k` (`k ≤ 63`) the dummy key of an element's bucket is
strictly below the element's regular key and the element lies inside that bucket's segment; regular keys are odd,
dummy keys even (they never collide); dummy keys of different buckets differ; the parent's dummy key is strictly
below the child's; and when the table doubles, the elements of a new bucket come from its parent bucket. -/
theorem split_order_bucket_entry :
    (∀ h k, k ≤ 63 → dummyKey (h % 2 ^ k) < regularKey h ∧ regularKey h < dummyKey (h % 2 ^ k) + 2 ^ (64 - k)) ∧
    (∀ h b, regularKey h % 2 = 1 ∧ dummyKey b % 2 = 0) ∧
    (∀ b b', b < 2 ^ 63 → b' < 2 ^ 63 → dummyKey b = dummyKey b' → b = b') ∧
    (∀ b, b ≠ 0 → b < 2 ^ 63 → parentOf b < b ∧ dummyKey (parentOf b) < dummyKey b) ∧
    (∀ b k h, 2 ^ k ≤ b → b < 2 ^ (k + 1) → h % 2 ^ (k + 1) = b → h % 2 ^ k = parentOf b) :=
  ⟨fun h k hk => regular_in_segment h k hk, fun h b => ⟨regularKey_odd h, dummyKey_even b⟩,
   fun _ _ hb hb' h => dummyKey_inj hb hb' h, fun _ hb hlt => ⟨parentOf_lt hb, dummy_parent_lt hb hlt⟩,
   fun _ _ _ hlo hhi hb => parent_bucket hlo hhi hb⟩

/-- **Reachable from the bucket through doublings.**  In every reachable state of the CAS list, for every table
size `2^k`: if the dummy node `d` of bucket `h mod 2^k` and a regular node `x` with hash `h` are both in the list,
then `x` is behind `d` (reachable from the bucket's entry point), `d` is a valid entry point for operations on
`x`'s key, and everything between them has an order key in between. -/
theorem split_order_reachable (rule : Key → Rule) (progs : List (List Op)) (sched : List Tid)
    (s : St) (hs : s = (sys rule progs).run sched) (h k uk : Nat) (hk : k ≤ 63) (d x : Node)
    (hd : d ∈ s.L.chain) (hx : x ∈ s.L.chain)
    (hdk : (s.L.key d).ok = dummyKey (h % 2 ^ k)) (hxk : s.L.key x = ⟨regularKey h, uk⟩) :
    x ∈ aft d s.L.chain ∧ validFind s.L ⟨regularKey h, uk⟩ d = true ∧
    validStart rule s.L ⟨regularKey h, uk⟩ d = true := by
  subst hs
  have hi := inv_reachable rule progs sched
  have hlt := dummy_lt_regular h k hk
  refine ⟨?_, ?_, ?_⟩
  · exact mem_aft_of_lt (f := fun a => (((sys rule progs).run sched).L.key a).ok) hi.good.sorted hd hx
      (by simp only [hdk, hxk]; exact hlt)
  · simp [validFind, hd, hdk, hlt]
  · simp [validStart, hd, hdk, hlt]


/-! ### the split-ordered hash table: the model the E-SHIM traces of the unordered containers are replayed on -/

/-- **Bucket table.**  In every reachable state of the SplitOrder system (bucket table + recursive `init_bucket` +
table doubling + CAS list; any number of threads, any schedule; initial bucket count a power of two ≤ 2^63):
the bucket count is a power of two; every initialised bucket points at a node that is in the list and carries
that bucket's dummy key; the model never reaches a null-pointer dereference (`Res.broken` is never logged, i.e.
`get_bucket` / the parent lookup of `init_bucket` always find an initialised slot); and every list walk in progress
— of a regular insert or of `insert_dummy_node` — runs from a `prev` that is in the list and not above the key,
with the walker's own node still private. -/
theorem splitorder_table_valid (cfg : SplitOrder.Cfg) (bc : Nat) (progs : List (List SplitOrder.Op))
    (hbc : ∃ k, k ≤ 63 ∧ bc = 2 ^ k) (sched : List Tid)
    (s : SplitOrder.St) (hs : s = (SplitOrder.sys cfg bc progs).run sched) :
    (∃ k, k ≤ 63 ∧ s.bc = 2 ^ k) ∧
    (∀ b d, s.slot b = some d → d ∈ s.L.chain ∧ s.L.key d = ⟨dummyKey b, 0⟩) ∧
    (∀ t w, (t, CasList.Res.broken w) ∉ s.log) ∧
    (∀ (t : Tid) (th : SplitOrder.Th), s.ths[t]? = some th →
      th.pc = .search ∨ th.pc = .setNext ∨ th.pc = .cas ∨ th.pc = .dSearch ∨ th.pc = .dSetNext ∨ th.pc = .dCas →
      th.prev ∈ s.L.chain ∧ (s.L.key th.prev).ok ≤ th.k.ok ∧ th.new ∉ s.L.chain ∧ s.L.key th.new = th.k) := by
  subst hs
  have h := SplitOrder.sinv_reachable cfg bc progs hbc sched
  refine ⟨h.bc, h.table, ?_, ?_⟩
  · intro t w hm
    exact h.logok _ hm
  · intro t th hth hpc
    have ht := h.tinv t th hth
    unfold SplitOrder.TInvSO at ht
    rcases hpc with hpc | hpc | hpc | hpc | hpc | hpc <;> simp only [hpc] at ht
    · exact ⟨ht.prev_mem, ht.prev_le, ht.notin, ht.keynew⟩
    · exact ⟨ht.1.prev_mem, ht.1.prev_le, ht.1.notin, ht.1.keynew⟩
    · exact ⟨ht.1.prev_mem, ht.1.prev_le, ht.1.notin, ht.1.keynew⟩
    · exact ⟨ht.2.2.2.2.prev_mem, ht.2.2.2.2.prev_le, ht.2.2.2.2.notin, ht.2.2.2.2.keynew⟩
    · exact ⟨ht.2.2.2.2.1.prev_mem, ht.2.2.2.2.1.prev_le, ht.2.2.2.2.1.notin, ht.2.2.2.2.1.keynew⟩
    · exact ⟨ht.2.2.2.2.1.prev_mem, ht.2.2.2.2.1.prev_le, ht.2.2.2.2.1.notin, ht.2.2.2.2.1.keynew⟩

/-- **The list of the hash table** is always what `caslist_sorted_nodup` says: the nodes reachable from the head
through `next` are the ghost chain, which starts with the head, has no node twice, is sorted by split-order key,
holds at most one node per key that is `uniq` under the container's rule (all keys of unique containers; dummy keys
always), and consists of the head and exactly the nodes whose link was logged (`Res.ins k true n`; dummy nodes are
logged under their dummy key). -/
theorem splitorder_sorted_nodup (cfg : SplitOrder.Cfg) (bc : Nat) (progs : List (List SplitOrder.Op))
    (hbc : ∃ k, k ≤ 63 ∧ bc = 2 ^ k) (sched : List Tid)
    (s : SplitOrder.St) (hs : s = (SplitOrder.sys cfg bc progs).run sched) :
    follow s.L.next s.L.chain.length 0 = s.L.chain ∧
    s.L.chain.head? = some 0 ∧ s.L.chain.Nodup ∧
    s.L.chain.Pairwise (fun a b => (s.L.key a).ok ≤ (s.L.key b).ok) ∧
    (∀ a ∈ s.L.chain, ∀ b ∈ s.L.chain, s.L.key a = s.L.key b → SplitOrder.rule cfg.multi (s.L.key a) = .uniq → a = b) ∧
    (∀ x, x ∈ s.L.chain ↔ x = 0 ∨ x ∈ s.L.wins) ∧ s.L.wins.Nodup ∧ s.L.wins = s.log.filterMap succNode := by
  subst hs
  have h := SplitOrder.sinv_reachable cfg bc progs hbc sched
  exact ⟨follow_chain h.good, h.good.head, h.good.nodup, h.good.sorted, h.good.uniq, h.good.wins_mem,
    h.good.wins_nodup, h.wins⟩

/-- **Exactly one winner / results are truthful** in the hash table.  For every key that is `uniq` under the
container's rule at most one insert reports success, and exactly one once any insert of it has returned; every
logged insert result names a node that is in the list with that key; a lookup whose key was present when it began
(`must`) returns a node, and only nodes of the list with the right key are returned; a completed traversal is a
sub-sequence of the list (no node twice, split order) that contains everything present when it began. -/
theorem splitorder_results (cfg : SplitOrder.Cfg) (bc : Nat) (progs : List (List SplitOrder.Op))
    (hbc : ∃ k, k ≤ 63 ∧ bc = 2 ^ k) (sched : List Tid)
    (s : SplitOrder.St) (hs : s = (SplitOrder.sys cfg bc progs).run sched) :
    (∀ k, SplitOrder.rule cfg.multi k = .uniq →
        (s.log.filter (isSucc k)).length ≤ 1 ∧ (s.log.any (isIns k) = true → (s.log.filter (isSucc k)).length = 1)) ∧
    (∀ t k ok n, (t, Res.ins k ok n) ∈ s.log → n ∈ s.L.chain ∧ s.L.key n = k) ∧
    (∀ t k must r, (t, Res.find k must r) ∈ s.log →
        (must = true → ∃ n, r = some n) ∧ (∀ n, r = some n → n ∈ s.L.chain ∧ s.L.key n = k)) ∧
    (∀ t seen snap, (t, Res.trav seen snap) ∈ s.log →
        seen.Sublist s.L.chain ∧ seen.Nodup ∧ (∀ x ∈ snap, x ∈ seen)) := by
  subst hs
  have h := SplitOrder.sinv_reachable cfg bc progs hbc sched
  refine ⟨fun k hk => one_winner_core h.good h.logok h.wins k hk, ?_, ?_, ?_⟩
  · intro t k ok n hm
    have := h.logok _ hm
    cases ok with
    | true => exact ⟨(h.good.wins_mem n).mpr (Or.inr this.1), this.2.1⟩
    | false => exact ⟨this.1, this.2.1⟩
  · intro t k must r hm
    have := h.logok _ hm
    refine ⟨?_, this.2⟩
    intro hmust
    cases r with
    | none => exact absurd rfl (this.1 hmust)
    | some n => exact ⟨n, rfl⟩
  · intro t seen snap hm
    have := h.logok _ hm
    exact ⟨this.1, this.1.nodup h.good.nodup, this.2⟩

/-- **Every element stays reachable from its bucket through doublings.**  In every reachable state, for every
inserted element (hash `h`) and every table size `2^j` (`j ≤ 63`, whatever the bucket count is now or was before):
if bucket `h mod 2^j` is initialised, the element is behind that bucket's entry node in the list. -/
theorem splitorder_elements_reachable (cfg : SplitOrder.Cfg) (bc : Nat) (progs : List (List SplitOrder.Op))
    (hbc : ∃ k, k ≤ 63 ∧ bc = 2 ^ k) (sched : List Tid)
    (s : SplitOrder.St) (hs : s = (SplitOrder.sys cfg bc progs).run sched)
    (t : Tid) (h uk : Nat) (ok : Bool) (n : Node) (hm : (t, Res.ins ⟨regularKey h, uk⟩ ok n) ∈ s.log)
    (j : Nat) (hj : j ≤ 63) (d : Node) (hd : s.slot (h % 2 ^ j) = some d) :
    n ∈ aft d s.L.chain := by
  subst hs
  have hi := SplitOrder.sinv_reachable cfg bc progs hbc sched
  obtain ⟨hdm, hdk⟩ := hi.table _ _ hd
  have hn : n ∈ ((SplitOrder.sys cfg bc progs).run sched).L.chain ∧
      ((SplitOrder.sys cfg bc progs).run sched).L.key n = ⟨regularKey h, uk⟩ := by
    have := hi.logok _ hm
    cases ok with
    | true => exact ⟨(hi.good.wins_mem n).mpr (Or.inr this.1), this.2.1⟩
    | false => exact ⟨this.1, this.2.1⟩
  exact mem_aft_of_lt (f := fun a => (((SplitOrder.sys cfg bc progs).run sched).L.key a).ok) hi.good.sorted hdm hn.1
    (by simp only [hdk, hn.2]; exact dummy_lt_regular h j hj)

/-- **Equivalent keys of an unordered multi container are contiguous** in the hash table's list (so `equal_range`
and `count` see all of them at quiescence). -/
theorem splitorder_multi_contiguous (cfg : SplitOrder.Cfg) (bc : Nat) (progs : List (List SplitOrder.Op))
    (hbc : ∃ k, k ≤ 63 ∧ bc = 2 ^ k) (sched : List Tid)
    (s : SplitOrder.St) (hs : s = (SplitOrder.sys cfg bc progs).run sched) (a b z : Node)
    (ha : a ∈ s.L.chain) (hb : b ∈ s.L.chain) (hk : s.L.key a = s.L.key b)
    (hr : SplitOrder.rule cfg.multi (s.L.key a) = .before) (hz : z ∈ aft a s.L.chain) (hbz : b ∈ aft z s.L.chain) :
    s.L.key z = s.L.key a := by
  subst hs
  exact (SplitOrder.sinv_reachable cfg bc progs hbc sched).contig a ha b hb hk hr z hz hbz

/-! ### table sizing (`reserve` / `rehash` / `max_load_factor` / growth) -/

/-- **The sizing computations of the header, as regenerated on this run**, are the ones the theorems below are
about: `round_up_to_power_of_two` yields a power of two `≤ 2^63` for EVERY argument; the constructor and `rehash`
install exactly that; `reserve` starts from the current count, only ever doubles it (`<<= 1`, mod 2^64) and installs
the result; `adjust_table_size` installs twice the count it was called with.  (The float conditions that decide
WHETHER to grow are also generated — `reserveCond`, `adjustCond`, `rehashCond`, `mlfReject` — but nothing below
depends on their value, so the statements hold for every `max_load_factor`.) -/
theorem generated_sizing :
    (∀ x, ∃ k, k ≤ 63 ∧ Generated.C12.roundUp x = 2 ^ k) ∧
    (∀ x, Generated.C12.ctorBc x = Generated.C12.roundUp x) ∧
    (∀ cur n, Generated.C12.rehashNew cur n = Generated.C12.roundUp n) ∧
    (∀ cur n mlf, Generated.C12.reserveInit cur n mlf = cur) ∧
    (∀ cur nec n mlf, Generated.C12.reserveStep cur nec n mlf = (2 * nec) % 2 ^ 64) ∧
    (∀ cur nec n mlf, Generated.C12.reserveDesired cur nec n mlf = nec) ∧
    (∀ total cur mlf, Generated.C12.adjustNew total cur mlf = (2 * cur) % 2 ^ 64) :=
  ⟨gen_roundUp_pow2, gen_ctorBc, gen_rehashNew, gen_reserveInit, gen_reserveStep, gen_reserveDesired, gen_adjustNew⟩

/-- **The bucket count is always a power of two.**  For every constructor argument `n0`, every initial load factor and
every sequence of `insert`s (any number of elements), `reserve(n)`, `rehash(n)` and `max_load_factor(f)` calls with
ARBITRARY arguments (any `n`, any float `f` including 0, denormals and +inf; NaN and negative values are rejected by
the setter and change nothing): whenever the calls return, `my_bucket_count` is `2^k` with `k ≤ 63` — or `0`, which
arises only by doubling `2^63` out of the 64-bit word (`adjust_table_size` with a load factor so small that the table
keeps doubling; `reserve` then never returns).  The constructor's count is a power of two, and a single insert
either keeps the count or doubles it.  `bcok_of_isbc` is the link to the split-order theorems: every non-zero count
satisfies their hypothesis `∃ k ≤ 63, bc = 2^k` — they are FALSE for other counts (the dummy key of bucket `h % bc`
can then exceed the key of an element of that bucket). -/
theorem bucket_count_power_of_two (n0 : Nat) (mlf0 : F32) (ops : List Sizing.Op) (s : Sizing.St)
    (h : Sizing.run (Sizing.init n0 mlf0) ops = some s) :
    (s.bc = 0 ∨ ∃ k, k ≤ 63 ∧ s.bc = 2 ^ k) ∧
    (s.bc ≠ 0 → ∃ k, k ≤ 63 ∧ s.bc = 2 ^ k) ∧
    (∃ k, k ≤ 63 ∧ (Sizing.init n0 mlf0).bc = 2 ^ k) ∧
    ((Sizing.insertOne s).bc = s.bc ∨ (Sizing.insertOne s).bc = (2 * s.bc) % 2 ^ 64) := by
  have hi := Sizing.run_isbc ops (isbc_of_bcok (Sizing.init_bcok n0 mlf0)) h
  exact ⟨hi, bcok_of_isbc hi, Sizing.init_bcok n0 mlf0, Sizing.insertOne_bc s⟩

/-- **The protocol functions the SplitOrder model transcribes have the statement skeletons it was written for**
(regenerated from the header on every run; comments, assertions and white space removed).  In particular
`insert_dummy_node`: `prev_node` is initialised with the parent's dummy node and advanced only inside the inner
`while`, so after a failed `try_insert` the `do`-loop re-reads `prev_node->next()` of the LAST predecessor and walks
forward again — the model's `dCas`-failure → `dSearch` transition with `prev` unchanged. -/
theorem generated_protocol_skeletons :
    Generated.C12.insertDummyNodeSkeleton =
      ["(parent_dummy_node, order_key)", "node_ptr prev_node = parent_dummy_node",
       "node_ptr dummy_node = create_dummy_node(order_key)", "node_ptr next_node", "do {",
       "next_node = prev_node->next()", "while (next_node != nullptr && next_node->order_key() < order_key) {",
       "prev_node = next_node", "next_node = next_node->next()", "}",
       "if (next_node != nullptr && next_node->order_key() == order_key) {", "destroy_node(dummy_node)",
       "return next_node", "}", "}", "while (!try_insert(prev_node, dummy_node, next_node))", "return dummy_node"] ∧
    Generated.C12.tryInsertSkeleton =
      ["(prev_node, new_node, current_next_node)", "new_node->set_next(current_next_node)",
       "return prev_node->try_set_next(current_next_node, new_node)"] ∧
    Generated.C12.searchAfterSkeleton =
      ["(prev, order_key, key)", "node_ptr curr = prev->next()",
       "while (curr != nullptr && (curr->order_key() < order_key || (curr->order_key() == order_key && !my_hash_compare(traits_type::get_key(static_cast<value_node_ptr>(curr)->value()), key)))) {",
       "prev = curr", "curr = curr->next()", "}",
       "if (curr != nullptr && curr->order_key() == order_key && !allow_multimapping) {", "return {",
       "static_cast<value_node_ptr>(curr), true", "}", "}", "return {", "static_cast<value_node_ptr>(curr), false", "}"] ∧
    Generated.C12.initBucketSkeleton =
      ["(bucket)", "if (bucket == 0) {", "node_ptr disabled = nullptr",
       "my_segments[0].compare_exchange_strong(disabled, &my_head)", "return", "}",
       "size_type parent_bucket = get_parent(bucket)",
       "while (my_segments[parent_bucket].load(std::memory_order_acquire) == nullptr) {", "init_bucket(parent_bucket)", "}",
       "node_ptr parent = my_segments[parent_bucket].load(std::memory_order_acquire)",
       "node_ptr dummy_node = insert_dummy_node(parent, split_order_key_dummy(bucket))",
       "my_segments[bucket].store(dummy_node, std::memory_order_release)"] ∧
    Generated.C12.getBucketSkeleton =
      ["(bucket_index)", "if (my_segments[bucket_index].load(std::memory_order_acquire) == nullptr) {",
       "init_bucket(bucket_index)", "}", "return my_segments[bucket_index].load(std::memory_order_acquire)"] ∧
    Generated.C12.prepareBucketSkeleton =
      ["(hash_key)", "size_type bucket = hash_key % my_bucket_count.load(std::memory_order_acquire)",
       "return get_bucket(bucket)"] ∧
    Generated.C12.internalInsertRetrySkeleton =
      ["while (!try_insert(prev, new_node, curr)) {", "search_result = search_after(prev, order_key, key)",
       "if (search_result.second) {", "return internal_insert_return_type {", "new_node, search_result.first, false",
       "}", "}", "curr = search_result.first", "}"] :=
  ⟨rfl, rfl, rfl, rfl, rfl, rfl, rfl⟩

/-- **Nothing else writes `my_bucket_count`**: the constructor (rounded up), the three CAS sites modelled above, and
copies of another container's count (copy / move construction and assignment, swap, the reset to
`initial_bucket_count` of a moved-from container) — the complete list of initialisers / stores / RMWs in the header. -/
theorem generated_bucket_count_writers :
    Generated.C12.bucketCountWriters =
      ["init: round_up_to_power_of_two(bucket_count)",
       "init: other.my_bucket_count.load(std::memory_order_relaxed)",
       "init: other.my_bucket_count.load(std::memory_order_relaxed)",
       "init: other.my_bucket_count.load(std::memory_order_relaxed)",
       "init: other.my_bucket_count.load(std::memory_order_relaxed)",
       "store: other.my_bucket_count.load(std::memory_order_relaxed), std::memory_order_relaxed",
       "store: other.my_bucket_count.load(std::memory_order_relaxed), std::memory_order_relaxed",
       "compare_exchange_strong: current_bucket_count, round_up_to_power_of_two(bucket_count)",
       "compare_exchange_strong: current_bucket_count, necessary_bucket_count",
       "compare_exchange_strong: current_size, 2u * current_size",
       "store: initial_bucket_count, std::memory_order_relaxed",
       "store: other.my_bucket_count.load(std::memory_order_relaxed), std::memory_order_relaxed",
       "store: bucket_count, std::memory_order_relaxed"] ∧
    (∃ k, Generated.C12.initialBucketCount = 2 ^ k) := ⟨rfl, 3, rfl⟩

/-- **A bucket's dummy node sits exactly where its order key dictates**, whatever happened while
`insert_dummy_node` ran (any number of regular inserts linked between the parent's dummy node and the target
position, any number of failed CAS / retries, other threads initialising the same bucket): in every reachable state,
for every initialised bucket `b` with entry node `d`: `d` is in the list with key `dummyKey b`, every node behind `d`
has an order key `≥ dummyKey b`, and every other node of the list that is NOT behind `d` has an order key `≤ dummyKey b`
(so: strictly smaller, dummy keys being unique and regular keys odd).  Hence no element of a bucket can be in front
of its bucket's entry, and none of a smaller-keyed bucket behind it. -/
theorem splitorder_dummy_position (cfg : SplitOrder.Cfg) (bc : Nat) (progs : List (List SplitOrder.Op))
    (hbc : ∃ k, k ≤ 63 ∧ bc = 2 ^ k) (sched : List Tid)
    (s : SplitOrder.St) (hs : s = (SplitOrder.sys cfg bc progs).run sched) (b d : Nat) (hd : s.slot b = some d) :
    d ∈ s.L.chain ∧ s.L.key d = ⟨dummyKey b, 0⟩ ∧
    (∀ x ∈ aft d s.L.chain, dummyKey b ≤ (s.L.key x).ok) ∧
    (∀ x ∈ s.L.chain, x ∉ aft d s.L.chain → (s.L.key x).ok ≤ dummyKey b) := by
  subst hs
  have hi := SplitOrder.sinv_reachable cfg bc progs hbc sched
  obtain ⟨hdm, hdk⟩ := hi.table _ _ hd
  refine ⟨hdm, hdk, ?_, ?_⟩
  · intro x hx
    have := pairwise_aft hi.good.sorted hdm hx
    simpa [hdk] using this
  · intro x hx hn
    have hnlt : ¬ ((((SplitOrder.sys cfg bc progs).run sched).L.key d).ok <
        (((SplitOrder.sys cfg bc progs).run sched).L.key x).ok) := fun hlt =>
      hn (mem_aft_of_lt (f := fun a => (((SplitOrder.sys cfg bc progs).run sched).L.key a).ok) hi.good.sorted hdm hx hlt)
    rw [hdk] at hnlt
    simpa using Nat.le_of_not_lt hnlt

/-! ### the skip list: the model the E-SHIM traces of the ordered containers are replayed on -/

/-- **Levels.**  In every reachable state of the SkipList system (any number of threads, any schedule, any node
heights in `1..max_level`, any fault annotations; unique AND multi containers): every level `l` is a well-formed CAS
list — the nodes reachable through `next[l]` from the head are the ghost chain of the level, without repetition and
sorted by the comparator; every node of level `l+1` is a node of level `l` (nodes are linked bottom-up by their owner,
so everything is on level 0) and only nodes taller than `l` are on level `l`; level 0 is the head plus exactly the
nodes whose insert is logged as successful; **every level is a SUB-SEQUENCE of the level below**; in unique-key
containers every level is strictly sorted by key, and in multi containers every level is strictly sorted by
(key, `index_number`) lexicographically — equal keys stand on every level in the order of their index numbers, which is
their order on level 0.  (Multi containers: `Proofs/C12/SkipListMulti.lean`: the level-0 predecessor's index number + 1
is taken while the node is private; the first upper-level attempt links behind the last key `≤`, which on level 0 sits at
or before the level-0 predecessor; a re-search after a failed CAS walks past equal keys with index number `≤` its own.) -/
theorem skiplist_levels_sublists (cfg : SkipList.Cfg) (progs : List (List SkipList.Op)) (sched : List Tid)
    (s : SkipList.St) (hs : s = (SkipList.sys cfg progs).run sched) :
    (∀ l, follow (s.core.next l) (s.core.chain l).length 0 = s.core.chain l ∧ (s.core.chain l).head? = some 0 ∧
          (s.core.chain l).Nodup ∧ (s.core.chain l).Pairwise (fun a b => (s.core.key a).ok ≤ (s.core.key b).ok)) ∧
    (∀ l, ∀ x ∈ s.core.chain (l + 1), x ∈ s.core.chain l) ∧
    (∀ l x, x ∈ s.core.chain l → x ≠ 0 → l < s.core.height x) ∧
    (∀ x, x ∈ s.core.chain 0 ↔ x = 0 ∨ x ∈ s.core.wins) ∧ s.core.wins = s.log.filterMap SkipList.succNodeK ∧
    (∀ l, (s.core.chain (l + 1)).Sublist (s.core.chain l)) ∧
    (cfg.multi = false → ∀ l, (s.core.chain l).Pairwise (fun a b => (s.core.key a).ok < (s.core.key b).ok)) ∧
    (cfg.multi = true → ∀ l, (s.core.chain l).Pairwise (fun a b => (s.core.key a).ok < (s.core.key b).ok ∨
        ((s.core.key a).ok = (s.core.key b).ok ∧ s.core.idx a < s.core.idx b))) := by
  subst hs
  have h := SkipList.kinv_reachable cfg progs sched
  refine ⟨fun l => ⟨follow_chain (h.g.lv l), (h.g.lv l).head, (h.g.lv l).nodup, (h.g.lv l).sorted⟩, h.g.sub, h.g.hgt,
    h.g.wins_mem, h.wins, ?_, fun hm l => SkipList.strict_of_uniq h.g hm l, ?_⟩
  · intro l
    cases hm : cfg.multi with
    | false => exact SkipList.level_sublist h.g hm l
    | true => exact SkipList.level_sublist_multi h (SkipList.minv_reachable cfg hm progs sched).2 l
  · intro hm l
    exact (SkipList.minv_reachable cfg hm progs sched).2.lex l

/-- **A search from any level lands on the level-0 lower bound.**  (1) pure: in a list sorted by the comparator the
walk from ANY member below the key finds the same first element `≥ key` as the walk from the head.  (2) In every
reachable state a lookup that is descending (`fdesc`) and an insert that is descending or re-finding (`desc`,
`refind`) stand on a node `prev` of their current level — hence of level 0 — whose key is not above the wanted key
(strictly below for lookups and in unique containers), so by (1) continuing on level 0 yields the global bound. -/
theorem skiplist_search_lower_bound (cfg : SkipList.Cfg) (progs : List (List SkipList.Op)) (sched : List Tid)
    (s : SkipList.St) (hs : s = (SkipList.sys cfg progs).run sched) :
    (∀ (L : List Node) (f : Node → Nat) (p : Node) (k : Nat), L.Pairwise (fun a b => f a ≤ f b) → p ∈ L → f p < k →
        (aft p L).find? (fun x => decide (k ≤ f x)) = L.find? (fun x => decide (k ≤ f x))) ∧
    (∀ (t : Tid) (th : SkipList.Th), s.ths[t]? = some th →
        (th.pc = .fdesc → th.prev ∈ s.core.chain th.lvl ∧ th.prev ∈ s.core.chain 0 ∧ (s.core.key th.prev).ok < th.k.ok) ∧
        (th.pc = .desc ∨ th.pc = .refind → th.prev ∈ s.core.chain th.lvl ∧ th.prev ∈ s.core.chain 0 ∧
            (s.core.key th.prev).ok ≤ th.k.ok ∧ (cfg.multi = false → (s.core.key th.prev).ok < th.k.ok))) := by
  subst hs
  have h := SkipList.kinv_reachable cfg progs sched
  refine ⟨fun L f p k hsrt hp hlt => SkipList.lower_bound_from hsrt hp hlt, ?_⟩
  intro t th hth
  have ht := h.tinv t th hth
  unfold SkipList.TInvK at ht
  refine ⟨?_, ?_⟩
  · intro hpc
    simp only [hpc] at ht
    exact ⟨ht.2.1, h.g.sub0 _ _ ht.2.1, ht.2.2.1⟩
  · rintro (hpc | hpc) <;> simp only [hpc] at ht
    · exact ⟨ht.2.2.1.1, h.g.sub0 _ _ ht.2.2.1.1, ht.2.2.1.2⟩
    · have hp := ht.2.2.2.2.2.2.2.2
      exact ⟨hp.1, h.g.sub0 _ _ hp.1, hp.2⟩

/-- **Results of the ordered containers are truthful.**  Unique containers: at most one insert of a key reports
success, exactly one once any insert of it has returned.  Every logged insert names a node of level 0 with that
key.  A lookup whose flag `must` is set — the key was on level 0 and `my_max_height > 0` when it began, which is the
case once any insert has returned — returns a node, and every returned node is on level 0 with the right key.
A completed traversal is a sub-sequence of level 0 (comparator order, no node twice) containing everything that was
there when it began. -/
theorem skiplist_results (cfg : SkipList.Cfg) (progs : List (List SkipList.Op)) (sched : List Tid)
    (s : SkipList.St) (hs : s = (SkipList.sys cfg progs).run sched) :
    (cfg.multi = false → ∀ k, (s.log.filter (SkipList.isSuccK k)).length ≤ 1 ∧
        (s.log.any (SkipList.isInsK k) = true → (s.log.filter (SkipList.isSuccK k)).length = 1)) ∧
    (∀ t k ok n, (t, SkipList.Res.ins k ok n) ∈ s.log → n ∈ s.core.chain 0 ∧ s.core.key n = ⟨k + 1, 0⟩) ∧
    (∀ t k must r, (t, SkipList.Res.find k must r) ∈ s.log →
        (must = true → ∃ n, r = some n) ∧ (∀ n, r = some n → n ∈ s.core.chain 0 ∧ s.core.key n = ⟨k + 1, 0⟩)) ∧
    (∀ t seen snap, (t, SkipList.Res.trav seen snap) ∈ s.log →
        seen.Sublist (s.core.chain 0) ∧ seen.Nodup ∧ (∀ x ∈ snap, x ∈ seen)) := by
  subst hs
  have h := SkipList.kinv_reachable cfg progs sched
  refine ⟨fun hm k => SkipList.one_winner_k h hm k, ?_, ?_, ?_⟩
  · intro t k ok n hm
    have := h.logok _ hm
    cases ok with
    | true => exact ⟨(h.g.wins_mem n).mpr (Or.inr this.1), this.2.1⟩
    | false => exact ⟨this.1, this.2.1⟩
  · intro t k must r hm
    have := h.logok _ hm
    refine ⟨?_, this.2⟩
    intro hmust
    cases r with
    | none => exact absurd rfl (this.1 hmust)
    | some n => exact ⟨n, rfl⟩
  · intro t seen snap hm
    have := h.logok _ hm
    exact ⟨this.1, this.1.nodup (h.g.lv 0).nodup, this.2⟩

/-! ### user functors that throw (comparator, hasher, key_equal, element constructor, allocator) -/

/-- **The exception paths of the insertions, as regenerated from the headers on this run.**  `concurrent_skip_list::
internal_insert` has no handler (RAII guard, `try_call(..).on_exception`, `catch`) that deletes the node of an insertion
which is left by an exception AFTER the node was CAS-linked on level 0 (`slFreeOnThrowLinked`; the models' default `Cfg`
is built from the regenerated values); the only call that can run user code after that link is the re-search
`internal_find_position` (the models' `refind` step); and `concurrent_unordered_base::internal_insert` calls no user code at
all after `try_insert` succeeded (the SplitOrder model has no throwing step behind the link). -/
theorem generated_throw_policy :
    Generated.C12.slFreeOnThrowLinked = false ∧ ({} : SkipList.Cfg).freeLinked = false ∧
    Generated.C12.slThrowSitesAfterLink = ["internal_find_position"] ∧ Generated.C12.uoThrowSitesAfterLink = [] := by decide

/-- **A throwing user functor never makes a dead node reachable (ordered containers).**  Programs may annotate any operation
with a fault (`Op.arm kind n`: its `n`-th comparator call, its element constructor, the allocation of its node or of the
head node throws), so this quantifies over EVERY fault position, any number of threads and every schedule.  For every
configuration in which the node of an insertion that threw after its level-0 link is NOT deleted (`cfg.freeLinked = false`;
the regenerated code: `generated_throw_policy`) — whether or not the code deletes the node of an insertion that threw
BEFORE the link (`freeUnlinked`, the leak the unchanged code has) — in every reachable state, states after throwing
operations included:
nothing is handed back to the allocator twice; a freed node is allocated, is not the head and is on NO level; hence every
node reachable from the head on any level is allocated and not freed; a thread that is still inside an insertion has not
had its node freed (it can neither link a dead node nor free it again), and every walker (descent, re-search, lookup,
traversal) stands on a live node; an insertion that threw after linking its node `n` (`Res.threw (some n)`) leaves `n` in the
list — alive — and one that threw before leaves the list as it was (`chain 0` is the head plus exactly the nodes whose link
was logged, `skiplist_levels_sublists`, which also gives: every level sorted, duplicate-free, a sub-sequence of the level
below, in every such state). -/
theorem insert_throw_safe (cfg : SkipList.Cfg) (hpol : cfg.freeLinked = false) (progs : List (List SkipList.Op))
    (sched : List Tid) (s : SkipList.St) (hs : s = (SkipList.sys cfg progs).run sched) :
    s.freed.Nodup ∧
    (∀ x ∈ s.freed, x < s.core.fresh ∧ x ≠ 0 ∧ ∀ l, x ∉ s.core.chain l) ∧
    (∀ l, ∀ x ∈ s.core.chain l, x < s.core.fresh ∧ x ∉ s.freed) ∧
    (∀ (t : Tid) (th : SkipList.Th), s.ths[t]? = some th →
        (th.pc.inIns = true → th.new ∉ s.freed) ∧
        (th.pc = .desc ∨ th.pc = .refind ∨ th.pc = .fdesc ∨ th.pc = .twalk → th.prev ∉ s.freed)) ∧
    (∀ t n, (t, SkipList.Res.threw (some n)) ∈ s.log → n ∈ s.core.chain 0 ∧ n ∉ s.freed) := by
  subst hs
  obtain ⟨hk, hf⟩ := SkipList.freeinv_reachable cfg hpol progs sched
  have hlive : ∀ l, ∀ x ∈ ((SkipList.sys cfg progs).run sched).core.chain l, x ∉ ((SkipList.sys cfg progs).run sched).freed :=
    fun l x hx hm => hf.notin x hm l hx
  refine ⟨hf.nodup, ?_, fun l x hx => ⟨hk.g.mem_lt hx, hlive l x hx⟩, ?_, ?_⟩
  · intro x hx
    refine ⟨hf.lt x hx, ?_, hf.notin x hx⟩
    intro h0; subst h0
    exact hf.notin 0 hx 0 (hk.g.head_mem 0)
  · intro t th hth
    refine ⟨hf.live t th hth, ?_⟩
    have ht := hk.tinv t th hth
    unfold SkipList.TInvK at ht
    rintro (hpc | hpc | hpc | hpc) <;> simp only [hpc] at ht
    · exact hlive _ _ ht.2.2.1.1
    · exact hlive _ _ ht.2.2.2.2.2.2.2.2.1
    · exact hlive _ _ ht.2.1
    · exact hlive 0 _ ht.prev_mem
  · intro t n hm
    have := hk.logok _ hm
    exact ⟨this.1, hlive 0 n this.1⟩

set_option maxRecDepth 20000 in
/-- **… and the handler of `seeded/c12-c` is refuted on the model**: with `freeLinked = true` (an RAII guard around
`internal_insert_node` that deletes the node unless the insertion reported success) the 2-thread run below — thread 0
links key 30 (height 2) on level 0, thread 1 links key 20 (height 2) on both levels, thread 0's level-1 CAS fails, the
re-search calls the comparator, its 6th call throws — reaches a state in which node 3 is freed AND still on level 0. -/
theorem insert_throw_unsafe_if_linked_node_freed :
    ∃ (progs : List (List SkipList.Op)) (sched : List Tid) (x : Node),
      x ∈ ((SkipList.sys { freeLinked := true, freeUnlinked := true } progs).run sched).freed ∧
      x ∈ ((SkipList.sys { freeLinked := true, freeUnlinked := true } progs).run sched).core.chain 0 :=
  ⟨[[.ins 10 3, .ins 50 3, .arm 1 6, .ins 30 2, .find 30], [.ins 20 2]],
   List.replicate 40 0 ++ List.replicate 40 1 ++ List.replicate 30 0, 3, by decide, by decide⟩

/-- **A throwing user functor never makes a dead node reachable (unordered containers).**  For EVERY configuration (whether
or not the node of an insertion that is left by an exception of `key_equal` is destroyed), any number of threads, every
schedule and every fault position (`Op.arm kind n`: the `n`-th `key_equal` call or the hasher of the next operation throws):
nothing is destroyed twice; a destroyed node is allocated and not in the list; every node reachable from the head — and
therefore every bucket entry (`splitorder_table_valid`) — is allocated and alive; a thread inside an insertion (regular or
dummy node) still owns a live node; and the list is in every such state what `splitorder_sorted_nodup` says (sorted,
duplicate-free, exactly the logged links).  There is no "linked" case: the code calls no user functor after the link
(`generated_throw_policy`). -/
theorem splitorder_throw_safe (cfg : SplitOrder.Cfg) (bc : Nat) (progs : List (List SplitOrder.Op))
    (hbc : ∃ k, k ≤ 63 ∧ bc = 2 ^ k) (sched : List Tid)
    (s : SplitOrder.St) (hs : s = (SplitOrder.sys cfg bc progs).run sched) :
    s.freed.Nodup ∧
    (∀ x ∈ s.freed, x < s.L.fresh ∧ x ≠ 0 ∧ x ∉ s.L.chain) ∧
    (∀ x ∈ s.L.chain, x < s.L.fresh ∧ x ∉ s.freed) ∧
    (∀ b d, s.slot b = some d → d ∉ s.freed) ∧
    (∀ (t : Tid) (th : SplitOrder.Th), s.ths[t]? = some th → th.pc.inIns = true → th.new ∉ s.freed ∧ th.prev ∉ s.freed) := by
  subst hs
  obtain ⟨hi, hf⟩ := SplitOrder.freeinv_reachable cfg bc progs hbc sched
  have hlive : ∀ x ∈ ((SplitOrder.sys cfg bc progs).run sched).L.chain, x ∉ ((SplitOrder.sys cfg bc progs).run sched).freed :=
    fun x hx hm => hf.notin x hm hx
  refine ⟨hf.nodup, ?_, fun x hx => ⟨hi.good.alloc x hx, hlive x hx⟩, fun b d hd => hlive d (hi.table b d hd).1, ?_⟩
  · intro x hx
    refine ⟨hf.lt x hx, ?_, hf.notin x hx⟩
    intro h0; subst h0
    exact hf.notin 0 hx hi.good.head_mem
  · intro t th hth hin
    exact ⟨hf.live t th hth hin, hlive _ (SplitOrder.insinv_of_inIns (hi.tinv t th hth) hin).prev_mem⟩

/-! ### non-vacuity: concrete runs of the executable model -/

section Examples
def exRule : Key → Rule := fun _ => .uniq
/-- two threads insert the same absent key from the head, a third traverses -/
def exProgs : List (List Op) := [[.ins ⟨5, 5⟩ 0, .find ⟨5, 5⟩ 0], [.ins ⟨5, 5⟩ 0, .ins ⟨3, 3⟩ 0], [.trav]]
-- both load head.next = nil, both prepare their node, thread 0 wins the CAS, thread 1 fails, re-searches, finds it
def exSched : List Tid := [0, 1, 0, 1, 0, 1, 0, 1, 1, 2, 2, 1, 1, 1, 1, 2, 2, 0, 0, 0]

example : ((sys exRule exProgs).run exSched).L.chain = [0, 3, 1] := by decide
example : (((sys exRule exProgs).run exSched).log.filter (isSucc ⟨5, 5⟩)).length = 1 := by decide
example : ((sys exRule exProgs).run exSched).log.map (·.1) = [0, 2, 1, 1, 0] := by decide
example : (2, Res.trav [0, 1] [0, 1]) ∈ ((sys exRule exProgs).run exSched).log := by decide
example : (0, Res.find ⟨5, 5⟩ true (some 1)) ∈ ((sys exRule exProgs).run exSched).log := by decide
example : (1, Res.ins ⟨5, 5⟩ false 1) ∈ ((sys exRule exProgs).run exSched).log := by decide
example : dummyKey (5 % 2 ^ 1) < regularKey 5 := (split_order_bucket_entry.1 5 1 (by omega)).1
example : parentOf 6 = 2 ∧ parentOf 1 = 0 ∧ getParent 0 = none := by decide

/-- two threads insert hashes 1, 3 and 1, 2 into a 2-bucket table with max_load_factor 1 (it doubles), one looks up -/
def soProgs : List (List SplitOrder.Op) := [[.ins 1 1, .ins 3 3], [.ins 1 1, .ins 2 2, .find 3 3]]
def soSched : List Tid := (List.range 160).map (· % 2)
set_option maxRecDepth 20000 in
example : ((SplitOrder.sys { mlf0 := F32.ofNat 1 } 2 soProgs).run soSched).bc = 4 := by decide
set_option maxRecDepth 20000 in
example : (((SplitOrder.sys { mlf0 := F32.ofNat 1 } 2 soProgs).run soSched).L.chain.map
    (fun n => (((SplitOrder.sys { mlf0 := F32.ofNat 1 } 2 soProgs).run soSched).L.key n).uk)) = [0, 2, 0, 1, 0, 3] := by decide
set_option maxRecDepth 20000 in
example : (((SplitOrder.sys { mlf0 := F32.ofNat 1 } 2 soProgs).run soSched).log.filter (isSucc ⟨regularKey 1, 1⟩)).length = 1 := by decide
set_option maxRecDepth 20000 in
example : ((SplitOrder.sys { mlf0 := F32.ofNat 1 } 2 soProgs).run soSched).ths.all (fun th => th.ops.isEmpty) = true := by decide

/-- bucket-initialisation race: thread 3 initialises bucket 2 (a lookup), thread 0 inserts hash 6 — the FIRST access to
bucket 6, parent 2 — and is held between its search and its CAS on `dummy(2).next` while threads 1 and 2 link hashes 2
and 10 directly behind `dummy(2)`; the CAS fails, the retry walks past BOTH new nodes -/
def dmProgs : List (List SplitOrder.Op) := [[.ins 6 6, .find 10 10], [.ins 2 2], [.ins 10 10], [.find 2 2]]
def dmSched : List Tid :=
  List.replicate 13 3 ++ List.replicate 7 0 ++ List.replicate 9 1 ++ List.replicate 10 2 ++ List.replicate 19 0
set_option maxRecDepth 20000 in
example : (((SplitOrder.sys {} 8 dmProgs).run (List.replicate 13 3 ++ List.replicate 7 0)).ths[0]?.map (·.pc)) = some .dCas := by decide
set_option maxRecDepth 20000 in
example : (((SplitOrder.sys {} 8 dmProgs).run dmSched).L.chain.map
    (fun n => (((SplitOrder.sys {} 8 dmProgs).run dmSched).L.key n))) =
    [⟨0, 0⟩, ⟨dummyKey 2, 0⟩, ⟨regularKey 2, 2⟩, ⟨regularKey 10, 10⟩, ⟨dummyKey 6, 0⟩, ⟨regularKey 6, 6⟩] := by decide
set_option maxRecDepth 20000 in
example : (0, Res.find ⟨regularKey 10, 10⟩ true (some 4)) ∈ ((SplitOrder.sys {} 8 dmProgs).run dmSched).log := by decide

/-- sizing: `max_load_factor(3.0f); reserve(1000)` on a default table gives 512 buckets (8·3 < 1000, …, 256·3 < 1000,
512·3 ≥ 1000); `rehash(100)` gives 128; 33 inserts at load factor 4 double 8 → 16 -/
example : (Sizing.run (Sizing.init 8 (F32.ofNat 4)) [.setMlf (F32.ofNat 3), .reserve 1000]).map (·.bc) = some 512 := by decide
set_option maxRecDepth 20000 in
example : (Sizing.run (Sizing.init 5 (F32.ofNat 4)) [.rehash 100]).map (·.bc) = some 128 := by decide
set_option maxRecDepth 100000 in
example : (Sizing.run (Sizing.init 8 (F32.ofNat 4)) [.ins 32]).map (·.bc) = some 8 ∧
    (Sizing.run (Sizing.init 8 (F32.ofNat 4)) [.ins 33]).map (·.bc) = some 16 := by decide
/-- concurrent `reserve(100)` (target 32 at load factor 4) and `rehash(64)` in the interleaving model, steps alternating:
both load 8, reserve's CAS wins, rehash's single CAS fails and is not retried (the header's own TODO) -/
def szProgs : List (List SplitOrder.Op) := [[.reserve 100, .ins 1 1], [.rehash 64, .ins 65 65, .find 1 1]]
set_option maxRecDepth 20000 in
example : ((SplitOrder.sys {} 8 szProgs).run ((List.range 120).map (· % 2))).bc = 32 := by decide

/-- three threads insert 5 (height 2), 5 (height 1), 3 (height 3) and look 5 up, in a unique-key skip list -/
def skProgs : List (List SkipList.Op) := [[.ins 5 2, .find 5], [.ins 5 1], [.ins 3 3, .trav]]
def skSched : List Tid := (List.range 150).map (· % 3)
set_option maxRecDepth 20000 in
example : ((SkipList.sys {} skProgs).run skSched).core.chain 0 = [0, 3, 1] := by decide
set_option maxRecDepth 20000 in
example : ((SkipList.sys {} skProgs).run skSched).core.chain 1 = [0, 3, 1] ∧
    ((SkipList.sys {} skProgs).run skSched).core.chain 2 = [0, 3] ∧ ((SkipList.sys {} skProgs).run skSched).maxh = 3 := by decide
set_option maxRecDepth 20000 in
example : (((SkipList.sys {} skProgs).run skSched).log.filter (SkipList.isSuccK 5)).length = 1 ∧
    ((SkipList.sys {} skProgs).run skSched).ths.all (fun th => th.ops.isEmpty) = true := by decide
/-- a multi container: three threads insert the same key with heights 3, 2, 3 (alternating steps): upper-level CAS failures and
re-searches by index number; every level lists the equal keys in the order of level 0 -/
def mkProgs : List (List SkipList.Op) := [[.ins 4 3, .ins 4 2], [.ins 4 2, .trav], [.ins 4 3]]
def mkSched : List Tid := (List.range 240).map (· % 3)
set_option maxRecDepth 40000 in
example : ((SkipList.sys { multi := true } mkProgs).run mkSched).ths.all (fun th => th.ops.isEmpty) = true ∧
    ((SkipList.sys { multi := true } mkProgs).run mkSched).core.chain 0 = [0, 1, 2, 4, 3] ∧
    ((SkipList.sys { multi := true } mkProgs).run mkSched).core.chain 1 = [0, 1, 2, 4, 3] ∧
    ((SkipList.sys { multi := true } mkProgs).run mkSched).core.chain 2 = [0, 1, 3] ∧
    (((SkipList.sys { multi := true } mkProgs).run mkSched).core.chain 0).map
      ((SkipList.sys { multi := true } mkProgs).run mkSched).core.idx = [0, 1, 2, 3, 4] := by decide

/-- fault runs: thread 0 pre-inserts 10 and 50 (height 3), then inserts 30 (height 2) with the 6th comparator call of that
insertion throwing; it is held right before its level-1 CAS while thread 1 inserts 20 (height 2) completely -/
def thProgs (k : Nat) : List (List SkipList.Op) := [[.ins 10 3, .ins 50 3, .arm 1 k, .ins 30 2, .find 30], [.ins 20 2]]
def thSched : List Tid := List.replicate 40 0 ++ List.replicate 40 1 ++ List.replicate 30 0
/-- what the unchanged header does: no handler deletes the node of an insertion that throws -/
def thCfg : SkipList.Cfg := { freeUnlinked := false, freeLinked := false }
-- the insertion throws after the link (call 6 is in the re-search), node 3 stays on level 0
-- only (its level-1 link never happens), nothing is freed, the later lookup finds it
set_option maxRecDepth 20000 in
example : (0, SkipList.Res.threw (some 3)) ∈ ((SkipList.sys thCfg (thProgs 6)).run thSched).log ∧
    ((SkipList.sys thCfg (thProgs 6)).run thSched).freed = [] ∧
    ((SkipList.sys thCfg (thProgs 6)).run thSched).core.chain 0 = [0, 1, 4, 3, 2] ∧
    ((SkipList.sys thCfg (thProgs 6)).run thSched).core.chain 1 = [0, 1, 4, 2] ∧
    (0, SkipList.Res.find 30 true (some 3)) ∈ ((SkipList.sys thCfg (thProgs 6)).run thSched).log := by decide
-- the 3rd call is in the first descent: the insertion throws before the link, the list does not contain 30
set_option maxRecDepth 20000 in
example : (0, SkipList.Res.threw none) ∈ ((SkipList.sys thCfg (thProgs 3)).run thSched).log ∧
    ((SkipList.sys thCfg (thProgs 3)).run thSched).core.chain 0 = [0, 1, 4, 2] := by decide
-- unordered: key_equal throws in the search of an insertion whose order key collides with a present element
set_option maxRecDepth 20000 in
example : (0, Res.threw) ∈ ((SplitOrder.sys { freeUnlinked := false } 2 [[.ins 6 1, .arm 1 1, .ins 6 2]]).run (List.replicate 40 0)).log ∧
    ((SplitOrder.sys { freeUnlinked := false } 2 [[.ins 6 1, .arm 1 1, .ins 6 2]]).run (List.replicate 40 0)).freed = [] ∧
    ((SplitOrder.sys { freeUnlinked := true } 2 [[.ins 6 1, .arm 1 1, .ins 6 2]]).run (List.replicate 40 0)).freed ≠ [] := by decide
end Examples

end TbbVerif.C12
