/-
C13 — property theorems (statements only live here; helper lemmas are in Proofs/C13/*.lean).

Property: concurrent_priority_queue is a linearizable priority queue.  Under any mix of concurrent
push/emplace/try_pop every pushed element is popped at most once and none is lost; try_pop fails only if the
queue was empty at some instant during the call; every successful try_pop returns a highest-priority element
of the contents at its linearization point; a throwing element copy fails only its own operation.

Structure of the argument (DESIGN.md §3 C13):
  * `aggregator_serial_exactly_once`: the combining aggregator runs `handle_operations` on one batch at a
    time, every submitted operation is in exactly one batch, gets its status exactly once, its caller returns
    only afterwards, and all operations of a batch are pending (submitted, not completed) at the instant the
    batch is grabbed — so the operations of one batch are pairwise concurrent and every batch as a whole lies
    after all earlier batches;
  * `cpq_batch_linearizable`: for every heap state and every batch there is an order of the batch's
    operations under which the sequential spec (multiset with pop-max) gives exactly the observed results and
    final contents.  Concatenating the per-batch orders gives the linearization of a whole history.
  * `heapify_heap`, `reheap_heap`, `cpq_batch_conserves`, `cpq_throw_isolated_partial`: the ingredients.
  * The exception clause of the property holds only for a throwing copy inside a push.  A throwing element
    ASSIGNMENT inside a pop is modelled as the code is written (`Op.pop true`; `guarded`, regenerated from the
    source, says whether that assignment is inside a try block): the exception leaves `handle_operations` in
    the handler thread.  All positive theorems therefore assume that no pop's assignment throws
    (`NoThrowingPop` / `popThrows = false`); `cpq_pop_throw_not_isolated` and `aggregator_pop_throw_witness`
    are the closed counterexamples (known finding `pop-assignment-throw-locks-queue`).
  * NOT proved in Lean (covered by the checked correspondence only): that the handler steps of `Agg` compute
    `handleIdx` of the grabbed batch, that the `next` fields agree with the lists `plist/rem/dfr`, and the
    composition of the per-batch orders into one linearization of a whole concurrent history.
-/
import TbbVerif.Proofs.C13.Lin
import TbbVerif.Proofs.C13.Agg

namespace TbbVerif.C13

/-- `heapify()`: if `data[0,mark)` is a heap then afterwards all of `data` is a heap, `mark = size`, and the
multiset of elements is unchanged (for every vector and every `mark ≤ size`). -/
theorem heapify_heap (h : Heap) (hm : h.mark ≤ h.data.length) (hh : IsHeap h.data h.mark) :
    IsHeap (heapify h).data (heapify h).mark ∧ (heapify h).mark = (heapify h).data.length ∧
    (heapify h).data.Perm h.data := by
  obtain ⟨a, b, c, d⟩ := heapify_spec h hm hh
  exact ⟨a, by omega, c⟩

/-- `reheap()` after the top was moved out: if `data[0,mark)` is a heap and `data` is non-empty then the old
`data[0]` is a maximum of the heap part, afterwards `data[0,mark')` is a heap again with `mark' ≤ size'`,
exactly one copy of the old top left the vector and nothing else changed as a multiset (this covers both
`mark = size`, where the last heap element is re-inserted, and `mark < size`, where the last *unheapified*
element `data.back()` is inserted into the heap). -/
theorem reheap_heap (h : Heap) (hm : h.mark ≤ h.data.length) (hl : 0 < h.data.length)
    (hh : IsHeap h.data h.mark) :
    IsHeap (reheap h).data (reheap h).mark ∧ (reheap h).mark ≤ (reheap h).data.length ∧
    ((reheap h).data ++ [get h.data 0]).Perm h.data ∧ (∀ y ∈ h.data.take h.mark, y ≤ get h.data 0) := by
  refine ⟨reheap_isHeap h hm hl hh, ?_, reheap_perm h hm hl, hh.mem_take_le hm⟩
  rw [mark_reheap h hm hl, length_reheap h hm hl]; omega

/-- Conservation for one batch: (final contents) + (values returned by successful pops) =
(initial contents) + (values of successful pushes) as multisets, and every operation of the batch got
exactly one status.  In particular no element is lost or duplicated and every popped value was in the
queue or was pushed in this batch. -/
theorem cpq_batch_conserves (h : Heap) (ops : List Op) (hh : IsHeap h.data h.mark)
    (hfull : h.mark = h.data.length) (hnt : NoThrowingPop ops) :
    ((handleOps h ops).log.map (fun e => (e.op, e.idx))).Perm ops.zipIdx ∧ (handleOps h ops).abort = none ∧
    ((handleOps h ops).heap.data ++ popped (strip (handleOps h ops).log)).Perm
      (h.data ++ pushed (strip (handleOps h ops).log)) :=
  ⟨(handleIdx_log h _ (noPopThrow_zipIdx ops hnt) ⟨by omega, hh⟩ hfull).1,
   (handleIdx_log h _ (noPopThrow_zipIdx ops hnt) ⟨by omega, hh⟩ hfull).2,
   handleIdx_conserves h _ (noPopThrow_zipIdx ops hnt) ⟨by omega, hh⟩ hfull⟩

/-- Batch linearizability: for every heap state (the code's entry invariant `mark == size`) and every batch
(of pushes, throwing pushes and pops) there EXISTS an order `lin` of the batch's operations (a permutation of
the status log; all operations of one batch are pairwise concurrent, so every order is admissible) under
which the sequential priority-queue spec `specRun`, started from the initial contents, accepts exactly the
observed results and ends with exactly the final contents; the final state satisfies the entry invariant
again.  By definition of `specStep` (see `spec_pop_meaning`) this says: every successful pop returns a maximal
element of the contents at its place in the order, a failed pop sees empty contents there, a push fails iff
its copy throws, and a failed push changes nothing. -/
theorem cpq_batch_linearizable (h : Heap) (ops : List Op) (hh : IsHeap h.data h.mark)
    (hfull : h.mark = h.data.length) (hnt : NoThrowingPop ops) :
    IsHeap (handleOps h ops).heap.data (handleOps h ops).heap.mark ∧
    (handleOps h ops).heap.mark = (handleOps h ops).heap.data.length ∧
    ∃ (lin : List Ev) (sf : List Nat), lin.Perm (handleOps h ops).log ∧
      specRun h.data (lin.map (fun e => (e.op, e.res))) = some sf ∧ sf.Perm (handleOps h ops).heap.data := by
  have w : WF h := ⟨by omega, hh⟩
  have hn := noPopThrow_zipIdx ops hnt
  obtain ⟨lin1, s1, _, hsim1, _, hdf1, _⟩ := pass1_lin ops.zipIdx hn h h.data ⟨w, by simp [heapPart, hfull]⟩
  obtain ⟨lin2, s2, _, hsim2, _, _⟩ := pass2_lin (pass1 h ops.zipIdx).dfr hdf1 (pass1 h ops.zipIdx).heap s1 hsim1
  obtain ⟨wfin, hmf, _⟩ := finish_spec _ hsim2.1
  refine ⟨?_, ?_, handleIdx_lin h _ hn w hfull⟩
  · simp only [handleOps, handleIdx_eq h _ hn w hfull]; exact wfin.2
  · simp only [handleOps, handleIdx_eq h _ hn w hfull]; exact hmf

/-- what acceptance by the spec means -/
theorem spec_pop_meaning (s s' : List Nat) (e : Op × Res) (h : specStep s e = some s') :
    (∃ x, e = (.push x false, .pushOk) ∧ s' = x :: s) ∨ (∃ x, e = (.push x true, .pushFailed) ∧ s' = s) ∨
    (∃ v, e = (.pop false, .popOk v) ∧ v ∈ s ∧ (∀ y ∈ s, y ≤ v) ∧ s' = s.erase v) ∨
    (∃ thr, e = (.pop thr, .popFailed) ∧ s = [] ∧ s' = s) ∨ (e = (.pop true, .exc true) ∧ s ≠ [] ∧ s' = s) :=
  specStep_cases s s' e h

/- FULL STATEMENT of exception isolation (property C13, last sentence), NOT provable for the code as it is:

     for every heap, every batch and every operation `k` whose element copy/move throws, `k`'s own caller
     receives the exception, and the final state and the results of all other operations are those of the
     batch without `k`.

   It holds for a throwing *copy in a push* (`cpq_throw_isolated_partial`): `handle_operations` catches it
   and stores FAILED.  It FAILS for a throwing *assignment in a pop*: `*(tmp->elem) = std::move(data.back())`
   / `std::move(data[0])` are outside any try block, so the exception leaves `handle_operations` in the handler
   thread; `cpq_pop_throw_not_isolated` is the closed counterexample in the model of the code as written (and
   `checks/c13.py` reproduces it on the real library: key `pop-assignment-throw-locks-queue`). -/

/-- Exception isolation, the part the code guarantees: a push whose element copy throws gets FAILED (so
`push` rethrows to its own caller only); the final queue state and the results of all other operations of the
batch are exactly those of the same batch without that operation (for every heap, every batch `a ++ b` that
itself runs to completion, every position of the throwing push and every labelling of the operations). -/
theorem cpq_throw_isolated_partial (h : Heap) (a b : List (Op × Nat)) (x i : Nat)
    (hab : (handleIdx h (a ++ b)).abort = none) :
    (handleIdx h (a ++ (.push x true, i) :: b)).heap = (handleIdx h (a ++ b)).heap ∧
    (handleIdx h (a ++ (.push x true, i) :: b)).abort = none ∧
    (handleIdx h (a ++ (.push x true, i) :: b)).log.Perm
      (⟨i, .push x true, .pushFailed⟩ :: (handleIdx h (a ++ b)).log) :=
  handleIdx_throw h a b x i hab

/-- Negation witness for the pop side (model of the code AS WRITTEN): queue `[5]`, batch `[try_pop, try_pop']`
where the second pop's element assignment throws.  `handle_operations` is left by that exception
(`abort = some 1`) and the OTHER operation (index 0) never gets a status — its caller spins forever — although
nothing in it threw; one level up `handler_busy` is never cleared (`aggregator_pop_throw_witness`).
(`guarded` is regenerated from the source on every run: `false` as long as the pop assignments are outside any
try block, as in the pinned tree; for a repaired tree the witness is vacuous and the check's probes must pass.) -/
theorem cpq_pop_throw_not_isolated : guarded = false →
    (handleOps ⟨[5], 1⟩ [.pop false, .pop true]).abort = some 1 ∧
    resultOf (handleOps ⟨[5], 1⟩ [.pop false, .pop true]).log 0 = none ∧
    resultOf (handleOps ⟨[5], 1⟩ [.pop false]).log 0 = some (.popOk 5) := by decide

/-- The combining aggregator (with the priority queue's handler), for ANY number of threads, ANY calls per
thread (`todo`, none of them a pop whose element assignment throws — with such a pop the statement is false,
see `aggregator_pop_throw_witness`), ANY initial contents and ANY schedule, in every reachable state `s`:

1. *Batches are handled one at a time*: at most one thread is between the `exchange` that grabs the pending
   list and the store that releases `handler_busy` (`Pc.active`).
2. *Exactly once*: for every thread the ghost counters satisfy `nRet ≤ nSet ≤ nGrab ≤ nSub ≤ nRet + 1`
   (returned ≤ statuses stored ≤ times grabbed into a batch ≤ submitted ≤ returned + 1).  The counters are
   monotone and change only as their names say (`counters_meaning`), operations of a thread are sequential,
   hence every operation is grabbed into at most one batch, gets its status at most once and only after it was
   grabbed, and its caller returns only after the status was stored; when the thread is between calls
   (`outside`) all four are equal: every submitted operation was in exactly one batch, got exactly one status
   and returned.
3. *All operations of a batch are pending when the batch starts*: every operation in the pending list is
   submitted, in no batch yet, has no status yet and its caller has not returned — and the `exchange` takes
   exactly the pending list (`counters_meaning`: `nGrab` grows by `plist.count u`, which is 1 for its
   members by this clause).  So the operations of one batch are pairwise concurrent, and each overlaps the
   whole batch.
4. *Statuses are stored inside the batch*: whenever no handler is active, every grabbed operation has its
   status (`nSet = nGrab` for every thread); in particular a handler releases `handler_busy` only after the
   statuses of its whole batch are stored. -/
theorem aggregator_serial_exactly_once (todo : Tid → List (Op × Nat)) (h0 : Heap) (sched : List Tid)
    (hnt : ∀ t, ∀ p ∈ todo t, popThrows p.1 = false) :
    let s := (Agg todo h0).run sched
    (∀ t u, (s.ths t).pc.active = true → (s.ths u).pc.active = true → t = u) ∧
    (∀ t, (s.ths t).nRet ≤ (s.ths t).nSet ∧ (s.ths t).nSet ≤ (s.ths t).nGrab ∧ (s.ths t).nGrab ≤ (s.ths t).nSub ∧
      (s.ths t).nSub ≤ (s.ths t).nRet + 1 ∧
      ((s.ths t).pc.outside = true → (s.ths t).nRet = (s.ths t).nSet ∧ (s.ths t).nSet = (s.ths t).nGrab ∧
        (s.ths t).nGrab = (s.ths t).nSub)) ∧
    (∀ u ∈ s.plist, s.plist.count u = 1 ∧ (s.ths u).nSub = (s.ths u).nGrab + 1 ∧ (s.ths u).nGrab = (s.ths u).nSet ∧
      (s.ths u).nSet = (s.ths u).nRet) ∧
    ((∀ a, (s.ths a).pc.active = false) → ∀ u, (s.ths u).nSet = (s.ths u).nGrab) := by
  intro s
  have h : Inv s := (inv_run todo h0 hnt sched).1
  refine ⟨h.act_unique, ?_, ?_, ?_⟩
  · intro t
    have a := h.sub t; have b := h.grabc t; have c := h.setc t; have d := h.subret t
    refine ⟨c, by omega, by omega, d, ?_⟩
    intro ho; have := h.out t ho; omega
  · intro u hu
    have hc : 0 < s.plist.count u := List.count_pos_iff.mpr hu
    have a := h.sub u; have b := h.grabc u; have c := h.setc u; have d := h.subret u
    omega
  · intro hi u
    have := h.idle_unset hi u; have := h.grabc u; omega

/-- The ghost counters of `Agg` are honest: in one step of thread `t`, for every thread `u`,
`nSub u` grows (by 1) exactly when `u = t` wins its CAS on the pending list; `nGrab u` grows exactly at `t`'s
`exchange`, by the multiplicity of `u` in the pending list; `nSet u` grows (by 1) exactly when the handler `t`
stores the status of `tmp = u`; `nRet u` grows (by 1) exactly when `u = t` returns to its caller (normally,
or — as coded — because the exception of a pop's element assignment unwinds the handler, `unwinds`). -/
theorem counters_meaning (s : St) (t u : Tid) :
    ((aggStep s t).ths u).nSub = (s.ths u).nSub +
      (if u = t ∧ (s.ths t).pc = .cas ∧ headNode s = (s.ths t).res then 1 else 0) ∧
    ((aggStep s t).ths u).nGrab = (s.ths u).nGrab + (if (s.ths t).pc = .grab then s.plist.count u else 0) ∧
    ((aggStep s t).ths u).nSet = (s.ths u).nSet +
      (if ((s.ths t).pc = .p1Status ∨ (s.ths t).pc = .p2Status) ∧ u = (s.ths t).tmp then 1 else 0) ∧
    ((aggStep s t).ths u).nRet = (s.ths u).nRet +
      (if u = t ∧ ((s.ths t).pc = .rdStatus ∨ unwinds s t = true) then 1 else 0) :=
  ⟨nSub_step s t u, nGrab_step s t u, nSet_step s t u, nRet_step s t u⟩

/-! non-vacuity: the hypotheses are satisfiable by non-trivial states, and the model computes what the code
does on them -/
example : IsHeap [9, 7, 8, 3] 4 ∧ (4 : Nat) = [9, 7, 8, 3].length := by
  refine ⟨?_, rfl⟩
  intro i h0 h1
  have : i = 1 ∨ i = 2 ∨ i = 3 := by omega
  rcases this with rfl | rfl | rfl <;> decide
example : IsHeap [5, 9, 4] 1 := fun i h0 h1 => by omega

/-- non-vacuity of the aggregator model: a schedule in which thread 1's `try_pop` is combined into the batch
handled by thread 0 (whose own operation is the `push 5`), the pop is deferred to the second pass and
receives the element pushed in the same batch. -/
example :
    let todo : Tid → List (Op × Nat) := fun t => if t = 0 then [(.push 5 false, 0)] else if t = 1 then [(.pop false, 0)] else []
    let s := (Agg todo ⟨[], 0⟩).run [0,0,0,0, 1,1,1,1, 0,0,0, 0,0,0,0,0, 0,0,0,0, 0,0,0, 1,1]
    (s.ths 1).results = [.popOk 5] ∧ (s.ths 0).results = [.pushOk] ∧ (s.ths 1).nGrab = 1 ∧ (s.ths 1).nRet = 1 := by decide

/-- Negation witness one level up (model of the code AS WRITTEN): thread 1's `try_pop` has a throwing element
assignment and is combined into the batch handled by thread 0 (whose own operation is `push 5`).  The exception
surfaces in thread 0's `push` call (`exc false`: not the caller of the throwing operation) although that push
itself succeeded (its status was stored, `nSet = 1`), `handler_busy` stays 1 forever and thread 1 keeps
spinning on a status that is never stored. -/
theorem aggregator_pop_throw_witness : guarded = false →
    let todo : Tid → List (Op × Nat) := fun t => if t = 0 then [(.push 5 false, 0)] else if t = 1 then [(.pop true, 0)] else []
    let s := (Agg todo ⟨[], 0⟩).run [0,0,0,0, 1,1,1,1, 0,0,0, 0,0,0,0,0, 0,0, 1,1,1]
    (s.ths 0).results = [.exc false] ∧ (s.ths 0).nRet = 1 ∧ (s.ths 0).nSet = 1 ∧ s.busy = 1 ∧
    (s.ths 1).pc = .spin ∧ (s.ths 1).status = 0 ∧ (s.ths 1).results = [] := by decide

end TbbVerif.C13
