/-
C13 — property theorems (statements only live here; helper lemmas are in Proofs/C13/*.lean).

Property: concurrent_priority_queue is a linearizable priority queue.  Under any mix of concurrent
push/emplace/try_pop every pushed element is popped at most once and none is lost; try_pop fails only if the
queue was empty at some instant during the call; every successful try_pop returns a highest-priority element
of the contents at its linearization point; a throwing element copy fails only its own operation.

Structure of the argument (DESIGN.md §3 C13):
  * `aggregator_serial_exactly_once`: the combining aggregator runs `handle_operations` on one batch at a
    time, every submitted operation is in exactly one batch, gets its status exactly once, its caller returns
    only afterwards, and all operations of a batch are pending (submitted, not completed) at the instant the
    batch is grabbed — so the operations of one batch are pairwise concurrent and every batch as a whole lies
    after all earlier batches;
  * `cpq_batch_linearizable`: for every heap state and every batch there is an order of the batch's
    operations under which the sequential spec (multiset with pop-max) gives exactly the observed results and
    final contents.  Concatenating the per-batch orders gives the linearization of a whole history.
  * `heapify_heap`, `reheap_heap`, `cpq_batch_conserves`, `cpq_throw_isolated_partial`: the ingredients.
  * The exception clause of the property holds only for a throwing copy inside a push.  A throwing element
    ASSIGNMENT inside a pop is modelled as the code is written (`Op.pop true`; `guarded`, regenerated from the
    source, says whether that assignment is inside a try block): the exception leaves `handle_operations` in
    the handler thread.  All positive theorems therefore assume that no pop's assignment throws
    (`NoThrowingPop` / `popThrows = false`); `cpq_pop_throw_not_isolated` and `aggregator_pop_throw_witness`
    are the closed counterexamples (known finding `pop-assignment-throw-locks-queue`).
  * `cpq_history_linearizable` (+ the corollaries `cpq_pop_at_most_once_none_lost`, `cpq_try_pop_empty_truthful`,
    `cpq_pop_returns_maximal`, `cpq_throw_isolated`): the COMPOSITION, as a theorem over concurrent histories of the
    access-level model `Agg`: for every number of threads, every program, every schedule, the history of
    invocations and responses is linearizable w.r.t. the sequential priority-queue specification; the
    linearization points of a batch are all placed at the `exchange` that grabs it (batch order), inside a batch in
    the executable order `batchLin`.  Its proof contains what used to be prose: the handler of `Agg`, executed access
    by access and interleaved with the other threads, computes `handleIdx` of the batch it grabbed
    (`Proofs/C13/Ref.lean`), and the batch orders compose (`Proofs/C13/Comp.lean`, `Main.lean`).
    NOTE: the order in which the handler SERVES a batch is not a legal sequential order in general (heap `[3]`,
    batch `push 10, push 5, try_pop`: the pop is served last and returns 5 by the `data.back()` shortcut while
    10 is in the vector) — the operations of a batch are pairwise concurrent, so `batchLin`'s order is admissible.
  * Elements are `Elem` = identity + priority class `key`; the comparator is `a.key < b.key`, an arbitrary strict
    weak order with arbitrary ties (`swo_has_rank`: every strict weak order on finitely many elements has this form).
  * NOT proved in Lean (covered by the E-SHIM trace replay only): that the `next` fields agree with the lists
    `plist/rem/dfr` (the model keeps both and the replay compares the loaded pointer values).
-/
import TbbVerif.Proofs.C13.Lin
import TbbVerif.Proofs.C13.Agg
import TbbVerif.Proofs.C13.Corr
import TbbVerif.Proofs.C13.Order
import TbbVerif.Proofs.C13.Shape

namespace TbbVerif.C13

/-- `heapify()`: if `data[0,mark)` is a heap then afterwards all of `data` is a heap, `mark = size`, and the
multiset of elements is unchanged (for every vector and every `mark ≤ size`). -/
theorem heapify_heap (h : Heap) (hm : h.mark ≤ h.data.length) (hh : IsHeap h.data h.mark) :
    IsHeap (heapify h).data (heapify h).mark ∧ (heapify h).mark = (heapify h).data.length ∧
    (heapify h).data.Perm h.data := by
  obtain ⟨a, b, c, d⟩ := heapify_spec h hm hh
  exact ⟨a, by omega, c⟩

/-- `reheap()` after the top was moved out: if `data[0,mark)` is a heap and `data` is non-empty then the old
`data[0]` is a maximum of the heap part, afterwards `data[0,mark')` is a heap again with `mark' ≤ size'`,
exactly one copy of the old top left the vector and nothing else changed as a multiset (this covers both
`mark = size`, where the last heap element is re-inserted, and `mark < size`, where the last *unheapified*
element `data.back()` is inserted into the heap). -/
theorem reheap_heap (h : Heap) (hm : h.mark ≤ h.data.length) (hl : 0 < h.data.length)
    (hh : IsHeap h.data h.mark) :
    IsHeap (reheap h).data (reheap h).mark ∧ (reheap h).mark ≤ (reheap h).data.length ∧
    ((reheap h).data ++ [get h.data 0]).Perm h.data ∧ (∀ y ∈ h.data.take h.mark, y.key ≤ (get h.data 0).key) := by
  refine ⟨reheap_isHeap h hm hl hh, ?_, reheap_perm h hm hl, hh.mem_take_le hm⟩
  rw [mark_reheap h hm hl, length_reheap h hm hl]; omega

/-- Conservation for one batch: (final contents) + (values returned by successful pops) =
(initial contents) + (values of successful pushes) as multisets, and every operation of the batch got
exactly one status.  In particular no element is lost or duplicated and every popped value was in the
queue or was pushed in this batch. -/
theorem cpq_batch_conserves (h : Heap) (ops : List Op) (hh : IsHeap h.data h.mark)
    (hfull : h.mark = h.data.length) (hnt : NoThrowingPop ops) :
    ((handleOps h ops).log.map (fun e => (e.op, e.idx))).Perm ops.zipIdx ∧ (handleOps h ops).abort = none ∧
    ((handleOps h ops).heap.data ++ popped (strip (handleOps h ops).log)).Perm
      (h.data ++ pushed (strip (handleOps h ops).log)) :=
  ⟨(handleIdx_log h _ (noPopThrow_zipIdx ops hnt) ⟨by omega, hh⟩ hfull).1,
   (handleIdx_log h _ (noPopThrow_zipIdx ops hnt) ⟨by omega, hh⟩ hfull).2,
   handleIdx_conserves h _ (noPopThrow_zipIdx ops hnt) ⟨by omega, hh⟩ hfull⟩

/-- Batch linearizability: for every heap state (the code's entry invariant `mark == size`) and every batch
(of pushes, throwing pushes and pops) there EXISTS an order `lin` of the batch's operations (a permutation of
the status log; all operations of one batch are pairwise concurrent, so every order is admissible) under
which the sequential priority-queue spec `specRun`, started from the initial contents, accepts exactly the
observed results and ends with exactly the final contents; the final state satisfies the entry invariant
again.  By definition of `specStep` (see `spec_pop_meaning`) this says: every successful pop returns a maximal
element of the contents at its place in the order, a failed pop sees empty contents there, a push fails iff
its copy throws, and a failed push changes nothing. -/
theorem cpq_batch_linearizable (h : Heap) (ops : List Op) (hh : IsHeap h.data h.mark)
    (hfull : h.mark = h.data.length) (hnt : NoThrowingPop ops) :
    IsHeap (handleOps h ops).heap.data (handleOps h ops).heap.mark ∧
    (handleOps h ops).heap.mark = (handleOps h ops).heap.data.length ∧
    ∃ (lin : List Ev) (sf : List Elem), lin.Perm (handleOps h ops).log ∧
      specRun h.data (lin.map (fun e => (e.op, e.res))) = some sf ∧ sf.Perm (handleOps h ops).heap.data := by
  have w : WF h := ⟨by omega, hh⟩
  have hn := noPopThrow_zipIdx ops hnt
  obtain ⟨s1, _, hsim1, _, hdf1, _⟩ := pass1_lin ops.zipIdx hn h h.data ⟨w, by simp [heapPart, hfull]⟩
  obtain ⟨s2, _, hsim2, _, _⟩ := pass2_lin (pass1 h ops.zipIdx).dfr hdf1 (pass1 h ops.zipIdx).heap s1 hsim1
  obtain ⟨wfin, hmf, _⟩ := finish_spec _ hsim2.1
  refine ⟨?_, ?_, handleIdx_lin h _ hn w hfull⟩
  · simp only [handleOps, handleIdx_eq h _ hn w hfull]; exact wfin.2
  · simp only [handleOps, handleIdx_eq h _ hn w hfull]; exact hmf

/-- what acceptance by the spec means -/
theorem spec_pop_meaning (s s' : List Elem) (e : Op × Res) (h : specStep s e = some s') :
    (∃ x, e = (.push x false, .pushOk) ∧ s' = x :: s) ∨ (∃ x, e = (.push x true, .pushFailed) ∧ s' = s) ∨
    (∃ v, e = (.pop false, .popOk v) ∧ v ∈ s ∧ (∀ y ∈ s, y.key ≤ v.key) ∧ s' = s.erase v) ∨
    (∃ thr, e = (.pop thr, .popFailed) ∧ s = [] ∧ s' = s) ∨ (e = (.pop true, .exc true) ∧ s ≠ [] ∧ s' = s) :=
  specStep_cases s s' e h

/- FULL STATEMENT of exception isolation (property C13, last sentence), NOT provable for the code as it is:

     for every heap, every batch and every operation `k` whose element copy/move throws, `k`'s own caller
     receives the exception, and the final state and the results of all other operations are those of the
     batch without `k`.

   It holds for a throwing *copy in a push* (`cpq_throw_isolated_partial`): `handle_operations` catches it
   and stores FAILED.  It FAILS for a throwing *assignment in a pop*: `*(tmp->elem) = std::move(data.back())`
   / `std::move(data[0])` are outside any try block, so the exception leaves `handle_operations` in the handler
   thread; `cpq_pop_throw_not_isolated` is the closed counterexample in the model of the code as written (and
   `checks/c13.py` reproduces it on the real library: key `pop-assignment-throw-locks-queue`). -/

/-- Exception isolation, the part the code guarantees: a push whose element copy throws gets FAILED (so
`push` rethrows to its own caller only); the final queue state and the results of all other operations of the
batch are exactly those of the same batch without that operation (for every heap, every batch `a ++ b` that
itself runs to completion, every position of the throwing push and every labelling of the operations). -/
theorem cpq_throw_isolated_partial (h : Heap) (a b : List (Op × Nat)) (x : Elem) (i : Nat)
    (hab : (handleIdx h (a ++ b)).abort = none) :
    (handleIdx h (a ++ (.push x true, i) :: b)).heap = (handleIdx h (a ++ b)).heap ∧
    (handleIdx h (a ++ (.push x true, i) :: b)).abort = none ∧
    (handleIdx h (a ++ (.push x true, i) :: b)).log.Perm
      (⟨i, .push x true, .pushFailed⟩ :: (handleIdx h (a ++ b)).log) :=
  handleIdx_throw h a b x i hab

/-- Negation witness for the pop side (model of the code AS WRITTEN): queue `[5]`, batch `[try_pop, try_pop']`
where the second pop's element assignment throws.  `handle_operations` is left by that exception
(`abort = some 1`) and the OTHER operation (index 0) never gets a status — its caller spins forever — although
nothing in it threw; one level up `handler_busy` is never cleared (`aggregator_pop_throw_witness`).
(`guarded` is regenerated from the source on every run: `false` as long as the pop assignments are outside any
try block, as in the pinned tree; for a repaired tree the witness is vacuous and the check's probes must pass.) -/
theorem cpq_pop_throw_not_isolated : guarded = false →
    (handleOps ⟨[⟨5, 5⟩], 1⟩ [.pop false, .pop true]).abort = some 1 ∧
    resultOf (handleOps ⟨[⟨5, 5⟩], 1⟩ [.pop false, .pop true]).log 0 = none ∧
    resultOf (handleOps ⟨[⟨5, 5⟩], 1⟩ [.pop false]).log 0 = some (.popOk ⟨5, 5⟩) := by decide

/-- The combining aggregator (with the priority queue's handler), for ANY number of threads, ANY calls per
thread (`todo`, none of them a pop whose element assignment throws — with such a pop the statement is false,
see `aggregator_pop_throw_witness`), ANY initial contents and ANY schedule, in every reachable state `s`:

1. *Batches are handled one at a time*: at most one thread is between the `exchange` that grabs the pending
   list and the store that releases `handler_busy` (`Pc.active`).
2. *Exactly once*: for every thread the ghost counters satisfy `nRet ≤ nSet ≤ nGrab ≤ nSub ≤ nRet + 1`
   (returned ≤ statuses stored ≤ times grabbed into a batch ≤ submitted ≤ returned + 1).  The counters are
   monotone and change only as their names say (`counters_meaning`), operations of a thread are sequential,
   hence every operation is grabbed into at most one batch, gets its status at most once and only after it was
   grabbed, and its caller returns only after the status was stored; when the thread is between calls
   (`outside`) all four are equal: every submitted operation was in exactly one batch, got exactly one status
   and returned.
3. *All operations of a batch are pending when the batch starts*: every operation in the pending list is
   submitted, in no batch yet, has no status yet and its caller has not returned — and the `exchange` takes
   exactly the pending list (`counters_meaning`: `nGrab` grows by `plist.count u`, which is 1 for its
   members by this clause).  So the operations of one batch are pairwise concurrent, and each overlaps the
   whole batch.
4. *Statuses are stored inside the batch*: whenever no handler is active, every grabbed operation has its
   status (`nSet = nGrab` for every thread); in particular a handler releases `handler_busy` only after the
   statuses of its whole batch are stored. -/
theorem aggregator_serial_exactly_once (todo : Tid → List (Op × Nat)) (h0 : Heap) (sched : List Tid)
    (hnt : ∀ t, ∀ p ∈ todo t, popThrows p.1 = false) :
    let s := (Agg todo h0).run sched
    (∀ t u, (s.ths t).pc.active = true → (s.ths u).pc.active = true → t = u) ∧
    (∀ t, (s.ths t).nRet ≤ (s.ths t).nSet ∧ (s.ths t).nSet ≤ (s.ths t).nGrab ∧ (s.ths t).nGrab ≤ (s.ths t).nSub ∧
      (s.ths t).nSub ≤ (s.ths t).nRet + 1 ∧
      ((s.ths t).pc.outside = true → (s.ths t).nRet = (s.ths t).nSet ∧ (s.ths t).nSet = (s.ths t).nGrab ∧
        (s.ths t).nGrab = (s.ths t).nSub)) ∧
    (∀ u ∈ s.plist, s.plist.count u = 1 ∧ (s.ths u).nSub = (s.ths u).nGrab + 1 ∧ (s.ths u).nGrab = (s.ths u).nSet ∧
      (s.ths u).nSet = (s.ths u).nRet) ∧
    ((∀ a, (s.ths a).pc.active = false) → ∀ u, (s.ths u).nSet = (s.ths u).nGrab) := by
  intro s
  have h : Inv s := (inv_run todo h0 hnt sched).1
  refine ⟨h.act_unique, ?_, ?_, ?_⟩
  · intro t
    have a := h.sub t; have b := h.grabc t; have c := h.setc t; have d := h.subret t
    refine ⟨c, by omega, by omega, d, ?_⟩
    intro ho; have := h.out t ho; omega
  · intro u hu
    have hc : 0 < s.plist.count u := List.count_pos_iff.mpr hu
    have a := h.sub u; have b := h.grabc u; have c := h.setc u; have d := h.subret u
    omega
  · intro hi u
    have := h.idle_unset hi u; have := h.grabc u; omega

/-- The ghost counters of `Agg` are honest: in one step of thread `t`, for every thread `u`,
`nSub u` grows (by 1) exactly when `u = t` wins its CAS on the pending list; `nGrab u` grows exactly at `t`'s
`exchange`, by the multiplicity of `u` in the pending list; `nSet u` grows (by 1) exactly when the handler `t`
stores the status of `tmp = u`; `nRet u` grows (by 1) exactly when `u = t` returns to its caller (normally,
or — as coded — because the exception of a pop's element assignment unwinds the handler, `unwinds`). -/
theorem counters_meaning (s : St) (t u : Tid) :
    ((aggStep s t).ths u).nSub = (s.ths u).nSub +
      (if u = t ∧ (s.ths t).pc = .cas ∧ headNode s = (s.ths t).res then 1 else 0) ∧
    ((aggStep s t).ths u).nGrab = (s.ths u).nGrab + (if (s.ths t).pc = .grab then s.plist.count u else 0) ∧
    ((aggStep s t).ths u).nSet = (s.ths u).nSet +
      (if ((s.ths t).pc = .p1Status ∨ (s.ths t).pc = .p2Status) ∧ u = (s.ths t).tmp then 1 else 0) ∧
    ((aggStep s t).ths u).nRet = (s.ths u).nRet +
      (if u = t ∧ ((s.ths t).pc = .rdStatus ∨ unwinds s t = true) then 1 else 0) :=
  ⟨nSub_step s t u, nGrab_step s t u, nSet_step s t u, nRet_step s t u⟩


/-! ## Whole histories -/

/-- The four guards of `handle_operations`, re-translated from the source text on every run
(`Generated.C13.shortcutP1/P2`, `emptyP2`, `finishGuard`), mean what every theorem of this file uses: the
pop-takes-`data.back()` shortcut of both passes is `mark < size ∧ compare(data[0], data.back())`, the second
pass fails a pop iff `data` is empty, the final `heapify` runs iff `mark < size`. -/
theorem generated_guards (h : Heap) :
    (shortcut h = true ↔ h.mark < h.data.length ∧ (get h.data 0).key < (back h.data).key) ∧
    (shortcut2 h = shortcut h) ∧ (isEmpty2 h = true ↔ h.data.length = 0) ∧
    (needHeapify h = true ↔ h.mark < h.data.length) :=
  ⟨shortcut_iff h, shortcut2_eq h, isEmpty2_iff h, needHeapify_iff h⟩

/-- The statement skeleton of `handle_operations`, re-extracted from the source on every run: the first loop
over `op_list`, then the loop over `pop_list`, then `if (mark < data.size()) heapify()`; a node is taken before the
list is advanced. -/
theorem generated_pass_order : passOrderOK = true := by decide

/-- … every successful pop moves the element to the caller's object BEFORE the release store of SUCCEEDED and before
`pop_back()` / `reheap()` drop or overwrite it; the failed pop only stores FAILED; a deferred pop is linked before it
becomes the head of `pop_list` (sets of actions per branch; independent statements may be reordered). -/
theorem generated_pop_branches : popBranchesOK = true := by decide

/-- … a push appends inside a try block first, then bumps `my_size` and stores SUCCEEDED (release); the catch-all
handler stores FAILED (release) and falls through to the next operation — the exception path `cpq_throw_isolated`
is about. -/
theorem generated_push_branch : pushBranchOK = true := by decide

/-- **Linearizability of every concurrent history of the aggregator model.**
For ANY number of threads (`Tid = Nat`), ANY calls per thread (`todo`: pushes, pushes whose copy throws, pops; no
pop whose element assignment throws — see `aggregator_pop_throw_witness` for that case), ANY initial heap and ANY
schedule of the access-level model `Agg` (one step per atomic access of `aggregator_generic::execute`,
`start_handle_operations` and `handle_operations`), let `H = history …` be the sequence of invocations and
responses and `T = trace …` the same sequence with one linearization point per operation inserted *at the
`pending_operations.exchange(nullptr)` that grabs the operation's batch* (all operations of a batch at that
instant, ordered by `batchLin`).  Then
1. `proj T = H`: `T` is `H` plus linearization points;
2. `T` is well-formed: per thread it reads `inv · lin · resp · inv · lin · resp · …`, i.e. every linearization point
   lies between the invocation and the response of its own operation, every completed operation has exactly one, and
   it returns the result chosen there — because an operation is in exactly one batch, the batch is grabbed after
   all its members were invoked and before any of them returns;
3. the operations with these results, in the order of their linearization points (batch after batch), are a legal
   execution of the sequential specification (`specStep`) from the initial contents;
hence `H` is `Linearizable`. -/
theorem cpq_history_linearizable (todo : Tid → List (Op × Nat)) (h0 : Heap)
    (hh : IsHeap h0.data h0.mark) (hf : h0.mark = h0.data.length)
    (hnt : ∀ t, ∀ p ∈ todo t, popThrows p.1 = false) (sched : List Tid) :
    proj (trace (Agg todo h0).init sched) = history (Agg todo h0).init sched ∧
    (wfRun (fun _ => .out) (trace (Agg todo h0).init sched)).isSome ∧
    (specRun h0.data (marks (trace (Agg todo h0).init sched))).isSome ∧
    Linearizable h0.data (history (Agg todo h0).init sched) := by
  obtain ⟨p', a', h1, h2, _⟩ := J_run sched _ (fun _ => .pushOk) _ (J_init todo h0 hh hf hnt (fun _ => .pushOk))
  rw [phase_init] at h1
  have e1 : (wfRun (fun _ => Phase.out) (trace (Agg todo h0).init sched)).isSome := by rw [h1]; rfl
  have e2 : (specRun h0.data (marks (trace (Agg todo h0).init sched))).isSome := by rw [h2]; rfl
  exact ⟨proj_trace _ _, e1, e2, ⟨_, proj_trace _ _, e1, e2⟩⟩

/-- **Every pushed element is popped at most once and none is lost.**  In the setting of
`cpq_history_linearizable`, for every schedule:
(a) for the linearized operations `L = marksT T` (every completed operation of the history is among them, with the
    result it returned, `wf_completed`): the spec's final contents `abs` satisfy
    `abs + (values returned by successful pops) = initial contents + (values of successful pushes)` as multisets — so a
    pushed or initial element is returned by at most one pop, and whatever was not popped is still in `abs`;
(b) whenever no batch is being handled in the final state, the vector `data` holds exactly `abs`;
(c) if moreover every thread is between calls (all calls have returned), then `L` is, as a multiset, exactly the
    list of completed operations of the HISTORY, so
    `data + popped(history) = initial + pushed(history)`. -/
theorem cpq_pop_at_most_once_none_lost (todo : Tid → List (Op × Nat)) (h0 : Heap)
    (hh : IsHeap h0.data h0.mark) (hf : h0.mark = h0.data.length)
    (hnt : ∀ t, ∀ p ∈ todo t, popThrows p.1 = false) (sched : List Tid) :
    let T := trace (Agg todo h0).init sched
    let sF := runAgg (Agg todo h0).init sched
    ∃ abs, specRun h0.data (marks T) = some abs ∧
      (abs ++ poppedT (marksT T)).Perm (h0.data ++ pushedT (marksT T)) ∧
      ((∀ a, (sF.ths a).pc.handling = false) → abs.Perm sF.heap.data) ∧
      ((∀ a, (sF.ths a).pc = .idle) →
        (marksT T).Perm (completed (history (Agg todo h0).init sched)) ∧
        (sF.heap.data ++ poppedT (completed (history (Agg todo h0).init sched))).Perm
          (h0.data ++ pushedT (completed (history (Agg todo h0).init sched)))) := by
  intro T sF
  obtain ⟨p', a', h1, h2, hj⟩ := J_run sched _ (fun _ => .pushOk) _ (J_init todo h0 hh hf hnt (fun _ => .pushOk))
  rw [phase_init] at h1
  have hc := specRun_conserves _ _ _ h2
  refine ⟨a', h2, ?_, fun hq => (hj.quiet hq).1, ?_⟩
  · simpa [poppedT, pushedT, marksT_marks] using hc
  · intro hidle
    have hperm : (marksT T).Perm (completed (history (Agg todo h0).init sched)) := by
      apply perm_of_ofT
      intro t
      have := wf_completed T _ _ h1 t
      have e0 : pendOf (fun _ => Phase.out) t = [] := rfl
      have e1 : pendOf (phaseOf sF p') t = [] := by simp [pendOf, phaseOf, hidle t]
      have e2 : openOf (fun _ => Phase.out) = fun _ => none := rfl
      rw [e0, e1, e2, proj_trace] at this
      simpa [completed] using this
    refine ⟨hperm, ?_⟩
    have hq : ∀ a, (sF.ths a).pc.handling = false := fun a => by rw [hidle a]; rfl
    have habs := (hj.quiet hq).1
    have hp1 : (poppedT (marksT T)).Perm (poppedT (completed (history (Agg todo h0).init sched))) := by
      unfold poppedT popped; exact (hperm.map (·.2)).filterMap _
    have hp2 : (pushedT (marksT T)).Perm (pushedT (completed (history (Agg todo h0).init sched))) := by
      unfold pushedT pushed; exact (hperm.map (·.2)).filterMap _
    have hc' : (a' ++ poppedT (marksT T)).Perm (h0.data ++ pushedT (marksT T)) := by
      simpa [poppedT, pushedT, marksT_marks] using hc
    exact ((habs.symm.append hp1.symm).trans hc').trans ((List.Perm.refl _).append hp2)

/-- **try_pop fails only if the queue was empty at an instant during the call.**  In the setting of
`cpq_history_linearizable`: wherever the trace `T` has the linearization point of a `try_pop` with result FAILED,
the contents of the abstract queue at that point (the spec run over all earlier linearization points) are empty;
and that point lies between the invocation and the response of the call (clause 2 of `cpq_history_linearizable`:
`T` is well-formed, so the response `F` seen by the caller is this very result). -/
theorem cpq_try_pop_empty_truthful (todo : Tid → List (Op × Nat)) (h0 : Heap)
    (hh : IsHeap h0.data h0.mark) (hf : h0.mark = h0.data.length)
    (hnt : ∀ t, ∀ p ∈ todo t, popThrows p.1 = false) (sched : List Tid)
    (T1 T2 : List TEv) (t : Tid) (thr : Bool)
    (hT : trace (Agg todo h0).init sched = T1 ++ .lin t (.pop thr) .popFailed :: T2) :
    specRun h0.data (marks T1) = some [] := by
  obtain ⟨_, _, h3, _⟩ := cpq_history_linearizable todo h0 hh hf hnt sched
  rw [hT] at h3
  have e : marks (T1 ++ TEv.lin t (.pop thr) .popFailed :: T2) = marks T1 ++ (.pop thr, .popFailed) :: marks T2 := by
    simp [marks]
  rw [e] at h3
  obtain ⟨sf, hsf⟩ := Option.isSome_iff_exists.mp h3
  obtain ⟨s1, s2, a, b, _⟩ := specRun_split _ _ _ _ _ hsf
  rcases specStep_cases _ _ _ b with ⟨x, h, _⟩ | ⟨x, h, _⟩ | ⟨v, h, _⟩ | ⟨thr', _, h0', _⟩ | ⟨h, _⟩
  · cases h
  · cases h
  · cases h
  · rw [a, h0']
  · cases h

/-- **Every successful try_pop returns a highest-priority element of the contents at its linearization point**
(ties in any order).  In the setting of `cpq_history_linearizable`: wherever the trace has the linearization
point of a `try_pop` that returns `v`, the abstract contents `c` there contain `v`, and no element of `c` has a
strictly greater priority (`y.key ≤ v.key` for all `y ∈ c`; `my_compare(v, y)` is false). -/
theorem cpq_pop_returns_maximal (todo : Tid → List (Op × Nat)) (h0 : Heap)
    (hh : IsHeap h0.data h0.mark) (hf : h0.mark = h0.data.length)
    (hnt : ∀ t, ∀ p ∈ todo t, popThrows p.1 = false) (sched : List Tid)
    (T1 T2 : List TEv) (t : Tid) (thr : Bool) (v : Elem)
    (hT : trace (Agg todo h0).init sched = T1 ++ .lin t (.pop thr) (.popOk v) :: T2) :
    ∃ c, specRun h0.data (marks T1) = some c ∧ v ∈ c ∧ ∀ y ∈ c, y.key ≤ v.key := by
  obtain ⟨_, _, h3, _⟩ := cpq_history_linearizable todo h0 hh hf hnt sched
  rw [hT] at h3
  have e : marks (T1 ++ TEv.lin t (.pop thr) (.popOk v) :: T2) = marks T1 ++ (.pop thr, .popOk v) :: marks T2 := by
    simp [marks]
  rw [e] at h3
  obtain ⟨sf, hsf⟩ := Option.isSome_iff_exists.mp h3
  obtain ⟨s1, s2, a, b, _⟩ := specRun_split _ _ _ _ _ hsf
  rcases specStep_cases _ _ _ b with ⟨x, h, _⟩ | ⟨x, h, _⟩ | ⟨v', h, hv, hmax, _⟩ | ⟨thr', h, _⟩ | ⟨h, _⟩
  · cases h
  · cases h
  · simp only [Prod.mk.injEq, Res.popOk.injEq] at h
    obtain ⟨_, rfl⟩ := h
    exact ⟨s1, a, hv, hmax⟩
  · cases h
  · cases h

/-- **A throwing copy is isolated, at history level** (for every throw the code isolates: the element copy /
allocation inside a push, caught in `handle_operations`, status FAILED, rethrown by `push` in its own caller).
In the setting of `cpq_history_linearizable`, with `L` the linearized operations of the trace:
(a) a push whose copy throws is linearized with result `pushFailed` and nothing else — and, `T` being
    well-formed, that result is delivered by the response of the SAME thread's call; no operation of any other
    thread gets an exception result, a push whose copy does not throw succeeds, a pop never ends with an exception;
(b) the failed operations have no effect: the linearization with all failed pushes REMOVED is accepted by the
    specification exactly like the full one (same final contents) — the other operations are unaffected. -/
theorem cpq_throw_isolated (todo : Tid → List (Op × Nat)) (h0 : Heap)
    (hh : IsHeap h0.data h0.mark) (hf : h0.mark = h0.data.length)
    (hnt : ∀ t, ∀ p ∈ todo t, popThrows p.1 = false) (sched : List Tid) :
    let L := marks (trace (Agg todo h0).init sched)
    (∀ e ∈ L, (∀ x, e.1 = .push x true → e.2 = .pushFailed) ∧ (∀ x, e.1 = .push x false → e.2 = .pushOk) ∧
      (e.1 = .pop false → ∀ own, e.2 ≠ .exc own)) ∧
    specRun h0.data (L.filter (fun e => !isFailedPush e)) = specRun h0.data L := by
  intro L
  obtain ⟨_, _, h3, _⟩ := cpq_history_linearizable todo h0 hh hf hnt sched
  refine ⟨?_, specRun_drop_failed _ _⟩
  intro e he
  obtain ⟨l1, l2, hl⟩ := List.append_of_mem he
  obtain ⟨sf, hsf⟩ := Option.isSome_iff_exists.mp h3
  change specRun h0.data L = some sf at hsf
  rw [hl] at hsf
  obtain ⟨s1, s2, _, b, _⟩ := specRun_split _ _ _ _ _ hsf
  rcases specStep_cases _ _ _ b with ⟨x, rfl, _⟩ | ⟨x, rfl, _⟩ | ⟨v', rfl, _⟩ | ⟨thr', rfl, _⟩ | ⟨rfl, _⟩
  all_goals (refine ⟨?_, ?_, ?_⟩ <;> simp)

/-- every strict weak order (the requirement on `Compare`) on the finitely many elements of a run is the
order of a rank function — the form `a.key < b.key` the model uses -/
theorem comparator_is_rank {α : Type} (lt : α → α → Bool) (h : StrictWeak lt) (xs : List α) :
    ∃ key : α → Nat, ∀ a ∈ xs, ∀ b ∈ xs, (lt a b = true ↔ key a < key b) := swo_has_rank lt h xs

/-- non-vacuity of the history theorems: three threads on the heap `[3]` (keys with a tie: elements 1 and 2 both
have priority 5).  Thread 2 (`try_pop`) is the first on the empty pending list and becomes the handler of a batch
that contains its own pop, thread 1's `push 2` and thread 0's `push 1`; the list is served top first
(`push 1`, `push 2`, `try_pop`), the pop is served LAST and returns the tied element 2 through the `data.back()`
shortcut (not the first-pushed 1, and although both are in the vector).  The trace is
`inv 2 · inv 1 · inv 0 · lin 1 (push 2) · lin 2 (pop → 2) · lin 0 (push 1) · resp 2 · resp 1 · resp 0`:
well-formed and legal, with a linearization order that differs from the serve order. -/
example :
    let todo : Tid → List (Op × Nat) := fun t =>
      if t = 0 then [(.push ⟨5, 1⟩ false, 0)] else if t = 1 then [(.push ⟨5, 2⟩ false, 0)] else if t = 2 then [(.pop false, 0)] else []
    let sched := [2,2,2,2, 1,1,1,1, 0,0,0,0, 2,2,2] ++ List.replicate 30 2 ++ List.replicate 6 1 ++ List.replicate 6 0
    let s0 := (Agg todo ⟨[⟨3, 3⟩], 1⟩).init
    (history s0 sched).length = 6 ∧
    marksT (trace s0 sched) = [(1, .push ⟨5, 2⟩ false, .pushOk), (2, .pop false, .popOk ⟨5, 2⟩), (0, .push ⟨5, 1⟩ false, .pushOk)] ∧
    (wfRun (fun _ => .out) (trace s0 sched)).isSome = true ∧
    (specRun [⟨3, 3⟩] (marks (trace s0 sched))).isSome = true := by decide

/-! non-vacuity: the hypotheses are satisfiable by non-trivial states, and the model computes what the code
does on them -/
example : IsHeap [⟨9, 0⟩, ⟨7, 1⟩, ⟨8, 2⟩, ⟨7, 3⟩] 4 ∧ (4 : Nat) = [(⟨9, 0⟩ : Elem), ⟨7, 1⟩, ⟨8, 2⟩, ⟨7, 3⟩].length := by
  refine ⟨?_, rfl⟩
  intro i h0 h1
  have : i = 1 ∨ i = 2 ∨ i = 3 := by omega
  rcases this with rfl | rfl | rfl <;> decide
example : IsHeap [⟨5, 5⟩, ⟨9, 9⟩, ⟨4, 4⟩] 1 := fun i h0 h1 => by omega

/-- non-vacuity of the aggregator model: a schedule in which thread 1's `try_pop` is combined into the batch
handled by thread 0 (whose own operation is the `push 5`), the pop is deferred to the second pass and
receives the element pushed in the same batch. -/
example :
    let todo : Tid → List (Op × Nat) := fun t => if t = 0 then [(.push ⟨5, 5⟩ false, 0)] else if t = 1 then [(.pop false, 0)] else []
    let s := (Agg todo ⟨[], 0⟩).run [0,0,0,0, 1,1,1,1, 0,0,0, 0,0,0,0,0, 0,0,0,0, 0,0,0, 1,1]
    (s.ths 1).results = [.popOk ⟨5, 5⟩] ∧ (s.ths 0).results = [.pushOk] ∧ (s.ths 1).nGrab = 1 ∧ (s.ths 1).nRet = 1 := by decide

/-- Negation witness one level up (model of the code AS WRITTEN): thread 1's `try_pop` has a throwing element
assignment and is combined into the batch handled by thread 0 (whose own operation is `push 5`).  The exception
surfaces in thread 0's `push` call (`exc false`: not the caller of the throwing operation) although that push
itself succeeded (its status was stored, `nSet = 1`), `handler_busy` stays 1 forever and thread 1 keeps
spinning on a status that is never stored. -/
theorem aggregator_pop_throw_witness : guarded = false →
    let todo : Tid → List (Op × Nat) := fun t => if t = 0 then [(.push ⟨5, 5⟩ false, 0)] else if t = 1 then [(.pop true, 0)] else []
    let s := (Agg todo ⟨[], 0⟩).run [0,0,0,0, 1,1,1,1, 0,0,0, 0,0,0,0,0, 0,0, 1,1,1]
    (s.ths 0).results = [.exc false] ∧ (s.ths 0).nRet = 1 ∧ (s.ths 0).nSet = 1 ∧ s.busy = 1 ∧
    (s.ths 1).pc = .spin ∧ (s.ths 1).status = 0 ∧ (s.ths 1).results = [] := by decide

end TbbVerif.C13
