/-
C02 — no lost wake-up: property theorems (statements only; lemmas in Proofs/C02/*.lean).

Liveness is stated as safety over complete schedules: "no reachable state in which a thread is parked in P() with
its semaphore closed, no notifier step is pending, and its wake-up predicate is true".

`Monitor` theorems quantify over EVERY number of sleepers and notifiers, EVERY program (sequence of `wait(ctx, cond)`
calls / of `[cond := true;] notify(pred)|notify_all|notify_one|notify_one_relaxed(pred)|abort_all` calls in their fenced or `_relaxed` form,
and `cond := false`), and EVERY schedule `sched : List Tid` of the atomic-access-level model (`Model/C02.lean`),
i.e. every sequentially consistent interleaving of the accesses of `concurrent_monitor.h`.
-/
import TbbVerif.Proofs.C02.Monitor
import TbbVerif.Proofs.C02.MonOneInv
import TbbVerif.Proofs.C02.BinSem
import TbbVerif.Proofs.C02.Tso
import TbbVerif.Proofs.C02.Flag
import TbbVerif.Proofs.C02.WaitCtx
import TbbVerif.Proofs.C02.BQThm
import TbbVerif.Proofs.C02.AEThm
import TbbVerif.Proofs.C02.EXThm
import TbbVerif.Generated.C02

namespace TbbVerif.C02

/-! ### Monitor (sequentially consistent; N sleepers, M notifiers) -/

/-- **No lost wake-up.**  Hypothesis `compatB`: every state change of a condition is followed, in the same notifier
operation, by a notification whose predicate accepts the context of every wait on that condition
(`notify(pred)`, `notify_all`, `abort_all`; the predicate-less `notify_one` accepts nobody); a
`notify_one_relaxed(pred)` counts as such a notification when the thread waiting on that condition with the matching
context is the only thread that ever waits with that context (`uniqB`: one blocked thread per contended address, any
number of other contexts — older or newer — in the same wait set).  Then, in every reachable state, for a
sleeper that has passed its predicate check (it was false) and is in `commit_wait` / parked in `P()` with a closed
semaphore:
(a) it is still in the waitset, or a notifier has dequeued it and still owes it the `V`  (never silently dropped);
(b) if its predicate is true now, it is not merely "in the waitset": a `V` is owed to it, or a notifier that made
    the predicate true has not yet passed its waitset scan (it is between its state change and the end of its
    dequeue loop and will dequeue the sleeper). -/
theorem monitor_no_lost_wakeup (ws : List (List WOp)) (ns : List (List NOp)) (hc : compatB ws ns = true)
    (sched : List Tid) (s : St) (hs : s = (sys ws ns).run sched)
    (i : Nat) (sl : Sleeper) (hi : s.slp[i]? = some sl) (hpc : sl.pc = .commit ∨ sl.pc = .park) (hsem : sl.sem = 0) :
    (i ∈ s.waitset ∨ ∃ (j : Nat) (n : Notifier), s.ntf[j]? = some n ∧ i ∈ n.temp) ∧
    (s.cond sl.cond = true →
      ∃ (j : Nat) (n : Notifier), s.ntf[j]? = some n ∧ (i ∈ n.temp ∨ pendingFor n sl.cond sl.ctx = true)) := by
  subst hs
  have h := reach_inv ws ns hc sched
  have ho := (sloc_owed (h.slp i sl hi)).2.2.2 hpc
  have hown : i ∉ ((sys ws ns).run sched).waitset → ∃ (j : Nat) (n : Notifier), ((sys ws ns).run sched).ntf[j]? = some n ∧ i ∈ n.temp := by
    intro hW
    rcases ho with ⟨hW', _⟩ | ⟨_, h1⟩
    · exact absurd hW' hW
    · exact pend_pos (by omega)
  constructor
  · by_cases hW : i ∈ ((sys ws ns).run sched).waitset
    · exact Or.inl hW
    · exact Or.inr (hown hW)
  · intro hcond
    rcases h.dek i sl hi hpc hcond with hW | ⟨j, n, hj, hp⟩
    · obtain ⟨j, n, hj, hm⟩ := hown hW; exact ⟨j, n, hj, Or.inl hm⟩
    · exact ⟨j, n, hj, Or.inr hp⟩

/-- **At quiescence nobody sleeps on a true predicate**: once every notifier has finished its program, no sleeper is
parked in `P()` with a closed semaphore while its predicate is true. -/
theorem monitor_quiescent_no_sleeper_on_true (ws : List (List WOp)) (ns : List (List NOp)) (hc : compatB ws ns = true)
    (sched : List Tid) (s : St) (hs : s = (sys ws ns).run sched)
    (hq : ∀ (j : Nat) (n : Notifier), s.ntf[j]? = some n → n.ops = [])
    (i : Nat) (sl : Sleeper) (hi : s.slp[i]? = some sl) (hpc : sl.pc = .park) (hsem : sl.sem = 0) :
    s.cond sl.cond = false := by
  cases hcond : s.cond sl.cond with
  | false => rfl
  | true =>
    exfalso
    obtain ⟨j, n, hj, hm⟩ := (monitor_no_lost_wakeup ws ns hc sched s hs i sl hi (Or.inr hpc) hsem).2 hcond
    have hops := hq j n hj
    have h : Inv s := by rw [hs]; exact reach_inv ws ns hc sched
    rcases hm with hm | hm
    · have := ((h.ntf j n hj).2.2.2.2.1 hops).1
      rw [this] at hm; simp at hm
    · simp [pendingFor, hops] at hm

/-- **abort_all wakes everybody.**  `abort_all` (and `notify_all`) accept every context, so no compatibility
hypothesis on contexts is needed: if every state change is announced by `abort_all`/`notify_all`, a sleeper parked
with a closed semaphore on a true predicate always has a `V` owed or an aborter/notifier still before its flush;
and the flush step itself moves the entire waitset into the aborter's local list (every waiter present is dequeued). -/
theorem monitor_abort_wakes_all (ws : List (List WOp)) (ns : List (List NOp))
    (hall : ∀ q ∈ ns, ∀ op ∈ q, ∀ c k r, op = NOp.sig (some c) k r → k = .abort ∨ k = .all)
    (sched : List Tid) (s : St) (hs : s = (sys ws ns).run sched) :
    (∀ (i : Nat) (sl : Sleeper), s.slp[i]? = some sl → sl.pc = .park → sl.sem = 0 → s.cond sl.cond = true →
      ∃ (j : Nat) (n : Notifier), s.ntf[j]? = some n ∧ (i ∈ n.temp ∨ pendingFor n sl.cond sl.ctx = true)) ∧
    (∀ (j : Nat) (n : Notifier), s.ntf[j]? = some n → n.ops ≠ [] → n.pc = .flush →
      (step s (s.slp.length + j)).waitset = [] ∧
      ∃ n', (step s (s.slp.length + j)).ntf[j]? = some n' ∧ n'.temp = s.waitset) := by
  have hc : compatB ws ns = true := by
    refine compatB_of ?_ ?_
    · simp only [acceptB, List.all_eq_true]
      intro p _ w _ q hq op hop
      split
      · rename_i c k r
        rcases hall q hq _ hop c k r rfl with e | e <;> subst e <;> simp [NKind.accepts]
      · rfl
    · intro q hq op hop c c0 r e
      rcases hall q hq op hop c _ r e with e' | e' <;> cases e'
  constructor
  · intro i sl hi hpc hsem hcond
    exact (monitor_no_lost_wakeup ws ns hc sched s hs i sl hi (Or.inr hpc) hsem).2 hcond
  · intro j n hj hne hpc
    have hlt := getElem?_lt hj
    have hemp : n.ops.isEmpty = false := by cases hn : n.ops <;> simp_all
    simp only [step, Nat.not_lt.mpr (Nat.le_add_right _ _), if_false, Nat.add_sub_cancel_left, hj]
    unfold stepN
    simp only [hemp, Bool.false_eq_true, if_false, hpc]
    refine ⟨rfl, { n with temp := s.waitset, marked := 0, pc := if s.waitset.isEmpty then .unlock else .mark }, ?_, rfl⟩
    simp [St.setN, List.getElem?_set, hlt]

/-- **Skipped wake-ups are balanced; the semaphore is never left open twice.**  In every reachable state, for every
node: (1) the V's already delivered and not yet consumed plus the V's notifiers still owe it never exceed one — in
particular `V()` is never called on an open semaphore (the assertion in `binary_semaphore::V`); (2) when the node is
(re)created or destroyed (`init`) nothing is owed or pending, so no V can hit a dead semaphore; (3) a cancelled wait
that had already been dequeued (`my_skipped_wakeup`) is owed exactly one V, which the next `prepare_wait` (`pump`)
or the destructor (`dtor`) consumes. -/
theorem monitor_skipped_wakeup_balanced (ws : List (List WOp)) (ns : List (List NOp)) (hc : compatB ws ns = true)
    (sched : List Tid) (s : St) (hs : s = (sys ws ns).run sched)
    (i : Nat) (sl : Sleeper) (hi : s.slp[i]? = some sl) :
    sl.sem + pend s i ≤ 1 ∧
    (∀ (j : Nat) (n : Notifier), s.ntf[j]? = some n → i ∈ n.temp → sl.sem = 0) ∧
    (sl.pc = .init → sl.sem + pend s i = 0) ∧
    ((sl.pc = .pump ∨ sl.pc = .dtor) → sl.skipped = true ∧ sl.sem + pend s i = 1) := by
  subst hs
  have h := reach_inv ws ns hc sched
  obtain ⟨h1, h2, h3, _⟩ := sloc_owed (h.slp i sl hi)
  refine ⟨h1, ?_, h2, h3⟩
  intro j n hj hm
  have := Nat.le_trans (List.count_pos_iff.mpr hm) (pend_ge hj i)
  omega

/-- Mutual exclusion of the monitor's lock regions and consistency of the racy emptiness test: the counter the
notifiers read without the lock always equals the length of the waitset, and the waitset has no duplicates. -/
theorem monitor_waitset_consistent (ws : List (List WOp)) (ns : List (List NOp)) (hc : compatB ws ns = true)
    (sched : List Tid) (s : St) (hs : s = (sys ws ns).run sched) :
    s.count = s.waitset.length ∧ s.waitset.Nodup := by
  subst hs
  have h := reach_inv ws ns hc sched
  exact ⟨h.cnt, h.nodup⟩

/-! ### `notify_one_relaxed(pred)`: which node the scan dequeues, that it stops after it, and the bucket-collision family -/

/-- **`notify_one_relaxed(pred)` wakes the first matching node of its scan, whatever surrounds it.**  In every
reachable state in which notifier `j` is at the scan step of a `notify_one_relaxed(ctx == c)` and the wait set is
`pre ++ x :: post` (oldest first) where `x` has context `c` and no newer node (`post`) has — `pre` and `post` may hold
any number of waiters of other contexts, e.g. the waiters of other mutexes hashing to the same `address_waiter` bucket
that went to sleep before or after `x` — the step dequeues exactly `x`: the wait set becomes `pre ++ post`, the
notifier's local list is `[x]`, exactly one `V` is now owed to `x` (and none is pending in its semaphore), and the
next step clears its `my_is_in_list`. -/
theorem monitor_notify_one_pred_wakes_first_match (ws : List (List WOp)) (ns : List (List NOp)) (hc : compatB ws ns = true)
    (sched : List Tid) (s : St) (hs : s = (sys ws ns).run sched)
    (j : Nat) (n : Notifier) (hj : s.ntf[j]? = some n) (hne : n.ops ≠ []) (c : Nat) (hk : n.kind = .onec c) (hpc : n.pc = .scan)
    (pre post : List Nat) (x : Nat) (hw : s.waitset = pre ++ x :: post) (hx : s.ctxOf x = c) (hpost : ∀ y ∈ post, s.ctxOf y ≠ c) :
    ((sys ws ns).run (sched ++ [s.slp.length + j])).waitset = pre ++ post ∧
    (∃ n', ((sys ws ns).run (sched ++ [s.slp.length + j])).ntf[j]? = some n' ∧ n'.temp = [x] ∧ n'.pc = .mark) ∧
    pend ((sys ws ns).run (sched ++ [s.slp.length + j])) x = 1 ∧
    (∀ slx, ((sys ws ns).run (sched ++ [s.slp.length + j])).slp[x]? = some slx → slx.sem = 0) := by
  have hrun : (sys ws ns).run (sched ++ [s.slp.length + j]) = step s (s.slp.length + j) := by
    simp [Sys.run, Sys.runFrom_append, hs, sys]
  have h1 := reach_invOne ws ns hc sched
  rw [← hs] at h1
  have h' : Inv (step s (s.slp.length + j)) := step_inv h1.1 _
  obtain ⟨hW, _, hslp, n', hn', ht, hp, _⟩ := scan_onec_dequeues hj hne hk hpc hw hx hpost h1.1.nodup
  have ht0 : n.temp = [] := ((h1.2 j n hj) (Or.inr ⟨c, hk⟩)).2 hpc
  rw [ht0, List.nil_append] at ht
  rw [hrun]
  have hge : 1 ≤ pend (step s (s.slp.length + j)) x := by
    have := pend_ge hn' x; rw [ht] at this; simpa using this
  obtain ⟨slx, hslx⟩ := h1.1.wsv x (by rw [hw]; simp)
  have hslx' : (step s (s.slp.length + j)).slp[x]? = some slx := by rw [hslp]; exact hslx
  have hle := (sloc_owed (h'.slp x slx hslx')).1
  refine ⟨hW, ⟨n', hn', ht, hp⟩, by omega, ?_⟩
  intro sl2 h2
  rw [hslx'] at h2; cases h2; omega

/-- **None matching ⇒ nobody dequeued.**  If no node of the wait set has the context `c`, `notify_one_relaxed(ctx == c)`
goes from the epoch bump straight to the unlock with an empty local list and the wait set untouched, and the unlock
step then returns from the call: no semaphore is touched, no node leaves the wait set. -/
theorem monitor_notify_one_pred_none_matching (ws : List (List WOp)) (ns : List (List NOp)) (hc : compatB ws ns = true)
    (sched : List Tid) (s : St) (hs : s = (sys ws ns).run sched)
    (j : Nat) (n : Notifier) (hj : s.ntf[j]? = some n) (hne : n.ops ≠ []) (c : Nat) (hk : n.kind = .onec c) (hpc : n.pc = .epoch)
    (hnone : ∀ y ∈ s.waitset, s.ctxOf y ≠ c) :
    (step s (s.slp.length + j)).waitset = s.waitset ∧
    (∃ n', (step s (s.slp.length + j)).ntf[j]? = some n' ∧ n'.temp = [] ∧ n'.pc = .unlock) ∧
    (∀ (s2 : St) (n2 : Notifier), s2.ntf[j]? = some n2 → n2.ops ≠ [] → n2.pc = .unlock → n2.temp = [] →
      (step s2 (s2.slp.length + j)).slp = s2.slp ∧ (step s2 (s2.slp.length + j)).waitset = s2.waitset ∧
      (step s2 (s2.slp.length + j)).ntf[j]? = some n2.finish) := by
  have h := reach_inv ws ns hc sched
  rw [← hs] at h
  obtain ⟨hW, _, n', hn', ht, hp⟩ := epoch_onec_none hj hne hk hpc hnone
  have ht0 : n.temp = [] := (h.ntf j n hj).2.2.1 (by simp [hpc])
  refine ⟨hW, ⟨n', hn', by rw [ht, ht0], hp⟩, ?_⟩
  intro s2 n2 h2 hne2 hpc2 ht2
  exact unlock_empty_returns h2 hne2 hpc2 ht2

/-- **At most one waiter is woken per `notify_one` / `notify_one_relaxed(pred)` call.**  In every reachable state the
local list of a notifier executing such a call holds at most one node (so the call issues at most one `V`), it is
empty until the scan step, and after clearing the dequeued node's `my_is_in_list` the call leaves the critical
section instead of scanning on (`break`). -/
theorem monitor_notify_one_at_most_one (ws : List (List WOp)) (ns : List (List NOp)) (hc : compatB ws ns = true)
    (sched : List Tid) (s : St) (hs : s = (sys ws ns).run sched)
    (j : Nat) (n : Notifier) (hj : s.ntf[j]? = some n) (hone : n.kind = .one ∨ ∃ c, n.kind = .onec c) :
    n.temp.length ≤ 1 ∧ (n.pc = .scan → n.temp = []) ∧
    (∀ c x, n.ops ≠ [] → n.kind = .onec c → n.pc = .mark → n.temp[n.marked]? = some x →
      ∃ n', (step s (s.slp.length + j)).ntf[j]? = some n' ∧ n'.pc = .unlock ∧ n'.temp = n.temp ∧
        (step s (s.slp.length + j)).waitset = s.waitset) := by
  have h1 := reach_invOne ws ns hc sched
  rw [← hs] at h1
  have := (h1.2 j n hj) hone
  exact ⟨this.1, this.2, fun c x hne hk hpc hx => mark_onec_unlocks hj hne hk hpc hx⟩

/-- **Mutexes sharing an `address_waiter` bucket: no lost wake-up, for every number of mutexes, every arrival order
and every schedule.**  `K` waiters in ONE concurrent monitor, waiter `i` blocked on condition `i` ("mutex `i` is free")
with context `i` (the mutex's address); any number of unlocking threads, each performing any sequence of
`cond_i := true; notify_one_relaxed(ctx == i)` (= `tbb::mutex::unlock`: `my_flag.exchange(false);
notify_by_address_one(this)`), spurious notifications of any kind and re-locks (`cond_i := false`).  Once every
unlocker has returned, no waiter is parked in `P()` with a closed semaphore while its mutex is free — in particular
not the waiter whose node is OLDER than the nodes of the other mutexes' waiters. -/
theorem mutex_bucket_collision_no_lost_wakeup (K : Nat) (ns : List (List NOp)) (hns : ∀ q ∈ ns, ∀ op ∈ q, bucketOp op)
    (sched : List Tid) (s : St) (hs : s = (sys (bucketWaiters K) ns).run sched)
    (hq : ∀ (j : Nat) (n : Notifier), s.ntf[j]? = some n → n.ops = [])
    (i : Nat) (sl : Sleeper) (hi : s.slp[i]? = some sl) (hpc : sl.pc = .park) (hsem : sl.sem = 0) :
    s.cond sl.cond = false :=
  monitor_quiescent_no_sleeper_on_true _ _ (bucket_compat K ns hns) sched s hs hq i sl hi hpc hsem

set_option maxRecDepth 8000 in
/-- **The dequeue order of every notify entry point, as executed by the real code, is the model's.**  `scanObs` is
regenerated on every run from the E-SHIM trace of `concurrent_monitor.h` (`Generated/C02.lean`): for wait sets with a
known arrival order (contexts listed oldest first) and one notification, the sequence of nodes whose `my_is_in_list`
the notifier cleared.  The model, run on the same wait set, dequeues the same nodes in the same order:
`notify_one_relaxed(pred)` the NEWEST matching node only (scan from `last()` via `prev`, `break` at the first match),
`notify(pred)` every matching node newest first, `notify_one` the oldest node, `notify_all` / `abort_all` all nodes
oldest first, and nothing when no context matches. -/
theorem scan_order_observed :
    Generated.C02.scanObs.all (fun o => obsDequeue o.1 o.2.1 == o.2.2) = true ∧ Generated.C02.scanObs.length ≥ 10 := by decide

/-! non-vacuity of the `notify_one_relaxed(pred)` theorems: two waiters of different contexts in one wait set, the
OLDER one (sleeper 0, context 1) is the only match: it is dequeued and woken, the newer one stays enqueued; the
mirrored run wakes the NEWER one; the hypothesis `uniqB` fails for two waiters sharing the context, and then the second
one indeed stays parked on a true predicate (why `notify_one(pred)` needs it). -/
example : compatB [[⟨1, 0⟩], [⟨2, 1⟩]] [[.sig (some 0) (.onec 1) true, .sig (some 1) (.onec 2) true]] = true := by decide
example : compatB (bucketWaiters 3) [[.sig (some 1) (.onec 1) true], [.sig none .one false, .clr 1]] = true := by decide
example :
    let s := (sys [[⟨1, 0⟩], [⟨2, 1⟩]] [[.sig (some 0) (.onec 1) true]]).run
      [0, 0, 0, 0, 0, 0, 0, 0, 0, 1, 1, 1, 1, 1, 1, 1, 1, 1, 2, 2, 2, 2]
    s.waitset = [0, 1] ∧ (s.ntf[0]?.map (·.pc)) = some .scan ∧ s.ctxOf 0 = 1 ∧ s.ctxOf 1 = 2 := by decide
example :
    let s := (sys [[⟨1, 0⟩], [⟨2, 1⟩]] [[.sig (some 0) (.onec 1) true]]).run
      [0, 0, 0, 0, 0, 0, 0, 0, 0, 1, 1, 1, 1, 1, 1, 1, 1, 1, 2, 2, 2, 2, 2, 2, 2, 2, 0]
    s.waitset = [1] ∧ (s.slp[0]?.map (·.results)) = some [1] ∧ (s.ntf[0]?.map (·.ops)) = some [] := by decide
example :
    let s := (sys [[⟨1, 0⟩], [⟨2, 1⟩]] [[.sig (some 1) (.onec 2) true]]).run
      [0, 0, 0, 0, 0, 0, 0, 0, 0, 1, 1, 1, 1, 1, 1, 1, 1, 1, 2, 2, 2, 2, 2, 2, 2, 2, 1]
    s.waitset = [0] ∧ (s.slp[1]?.map (·.results)) = some [1] ∧ (s.ntf[0]?.map (·.ops)) = some [] := by decide
example : compatB [[⟨1, 0⟩], [⟨1, 0⟩]] [[.sig (some 0) (.onec 1) true]] = false := by decide
example :
    let s := (sys [[⟨1, 0⟩], [⟨1, 0⟩]] [[.sig (some 0) (.onec 1) true]]).run
      [0, 0, 0, 0, 0, 0, 0, 0, 0, 1, 1, 1, 1, 1, 1, 1, 1, 1, 2, 2, 2, 2, 2, 2, 2, 2, 1]
    s.waitset = [0] ∧ (s.slp[0]?.map (·.pc)) = some .park ∧ s.cond 0 = true ∧ (s.ntf[0]?.map (·.ops)) = some [] := by decide

/-! non-vacuity: a 2-sleeper / 2-notifier instance satisfies the hypothesis, reaches a state with a parked sleeper,
and runs to completion with both sleepers woken. -/
example : compatB [[⟨1, 0⟩], [⟨2, 1⟩]] [[.sig (some 0) (.ctx 1) false], [.sig (some 1) .all false]] = true := by decide
example :
    let s := (sys [[⟨1, 0⟩]] [[.sig (some 0) (.ctx 1) false]]).run [0, 0, 0, 0, 0, 0, 0, 0, 0, 0]
    (s.slp[0]?.map (·.pc)) = some .park ∧ (s.slp[0]?.map (·.sem)) = some 0 ∧ s.waitset = [0] := by decide
example :
    let s := (sys [[⟨1, 0⟩]] [[.sig (some 0) (.ctx 1) false]]).run
      [0, 0, 0, 0, 0, 0, 0, 0, 0, 0, 1, 1, 1, 1, 1, 1, 1, 1, 1, 0]
    (s.slp[0]?.map (·.results)) = some [1] ∧ (s.ntf[0]?.map (·.ops)) = some [] := by decide

/-- **External waiters on a wait_context** (`external_waiter::pause` sleeps on "the reference count is zero" with
context = address of the wait_context; `wait_context::release` = `fetch_sub(1)` and only the releaser that brings the
counter to zero calls `notify_waiters(this)` = `notify(ctx == this)`).  `nW` waiters, `K ≥ 1` releasers each releasing
once, every schedule: once the wait_context is released (`ref = 0`) and every releaser has returned, no waiter is
parked in `P()` with a closed semaphore.  (The other disjunct of the real predicate, "arena non-empty", is announced
by `advertise_new_work` with `notify(ctx == arena)`: `wait_ctx_sleep_no_loss_mixed`.) -/
theorem wait_ctx_sleep_no_loss (nW K x c : Nat) (hK : 0 < K) (sched : List Tid) (s : WaitCtx.St)
    (hs : s = (WaitCtx.sys nW K x c).run sched) (hrel : s.ref = 0)
    (hq : ∀ (j : Nat) (n : Notifier), s.mon.ntf[j]? = some n → n.ops = [])
    (i : Nat) (sl : Sleeper) (hi : s.mon.slp[i]? = some sl) (hpc : sl.pc = .park) : sl.sem ≠ 0 := by
  subst hs
  have h := WaitCtx.reach_inv nW K x c sched
  have hlen := WaitCtx.ntf_length nW K x c sched
  intro hsem
  have hne : ((WaitCtx.sys nW K x c).run sched).mon.ntf ≠ [] := by
    intro e; rw [e] at hlen; simp at hlen; omega
  have hcond := h.cond hrel hne
  have hops : sl.ops = [⟨x, c⟩] := by
    rcases h.wts i sl hi with e | e
    · exact e
    · have := h.inv.opsS i sl hi e; rw [this] at hpc; cases hpc
  have hc : sl.cond = c := by simp [Sleeper.cond, hops]
  have hcond' : ((WaitCtx.sys nW K x c).run sched).mon.cond sl.cond = true := by rw [hc]; exact hcond
  have ho := (sloc_owed (h.inv.slp i sl hi)).2.2.2 (Or.inr hpc)
  rcases h.inv.dek i sl hi (Or.inr hpc) hcond' with hW | ⟨j, n, hj, hp⟩
  · rcases ho with ⟨hW', _⟩ | ⟨_, h1⟩
    · exact hW hW'
    · obtain ⟨j, n, hj, hm⟩ := pend_pos (s := ((WaitCtx.sys nW K x c).run sched).mon) (k := i) (by omega)
      have := ((h.inv.ntf j n hj).2.2.2.2.1 (hq j n hj)).1
      rw [this] at hm; simp at hm
  · simp [pendingFor, hq j n hj] at hp

example : -- non-vacuity: 1 waiter, 2 releasers; the first release does not notify, the second wakes the parked waiter
    let s := (WaitCtx.sys 1 2 7 0).run [0, 0, 0, 0, 0, 0, 0, 0, 0, 0, 1, 2, 2, 2, 2, 2, 2, 2, 2, 2, 0]
    s.ref = 0 ∧ (s.mon.slp[0]?.map (·.results)) = some [1] ∧ (s.mon.ntf.map (·.ops)) = [[], []] := by decide

/-- The monitor instance with one notifier `cond c := true; notify(ctx == x)` and any number of other notifiers for
other conditions (e.g. `advertise_new_work` announcing arena work for the other disjunct of the external waiter's
predicate): once they have all finished, no waiter on `c` is parked with a closed semaphore while `c` holds. -/
theorem wait_ctx_sleep_no_loss_mixed (nW x c : Nat) (others : List (List NOp))
    (hoth : ∀ q ∈ others, ∀ op ∈ q, ∀ c' k r, op = NOp.sig (some c') k r → c' ≠ c)
    (sched : List Tid) (s : St)
    (hs : s = (sys (List.replicate nW [⟨x, c⟩]) ([.sig (some c) (.ctx x) false] :: others)).run sched)
    (hq : ∀ (j : Nat) (n : Notifier), s.ntf[j]? = some n → n.ops = [])
    (i : Nat) (sl : Sleeper) (hi : s.slp[i]? = some sl) (hpc : sl.pc = .park) (hsem : sl.sem = 0) :
    s.cond sl.cond = false := by
  refine monitor_quiescent_no_sleeper_on_true _ _ ?_ sched s hs hq i sl hi hpc hsem
  simp only [compatB, Bool.and_eq_true]
  constructor
  · simp only [acceptB, List.all_eq_true]
    intro p hp w hw q hq' op hop
    have hw' : w = ⟨x, c⟩ := by
      have := List.eq_of_mem_replicate hp; subst this; simpa using hw
    subst hw'
    split
    · rename_i c' k r
      simp only [List.mem_cons] at hq'
      rcases hq' with e | e
      · subst e; simp at hop; obtain ⟨rfl, rfl, _⟩ := hop; simp [NKind.accepts]
      · have := hoth q e _ hop c' k r rfl
        simp [this]
    · rfl
  · simp only [uniqB, List.all_eq_true]
    intro q hq' op hop
    split
    · rename_i cd c0 r
      simp only [List.mem_cons] at hq'
      rcases hq' with e | e
      · subst e; simp at hop
      · have hne := hoth q e _ hop cd _ r rfl
        simp only [uniqCtx, List.all_eq_true, List.mem_range, List.length_replicate]
        intro a ha a' _
        have : mentionsC ((List.replicate nW [(⟨x, c⟩ : WOp)]).getD a []) cd c0 = false := by
          simp [List.getD_eq_getElem?_getD, ha, mentionsC, Ne.symm hne]
        rw [this]; simp
    · rfl

/-! ### BinSem: the futex binary_semaphore -/

/-- **No lost V.**  One owner performing `np` `P()` calls, any number of posters performing any numbers of `V()`
calls, every schedule.  As long as no `V()` was issued on an already open semaphore (`doubleV = false` — what
`monitor_skipped_wakeup_balanced` guarantees for the monitor's use): the number of performed `V` exchanges is the
number of completed `P` or one more; the word is 0 (open) exactly when one V is unconsumed; and the owner is never
parked in `futex_wait` while a V is unconsumed unless a poster still owes the `futex_wakeup_one` — parked means the
word is 2 and every V so far has been consumed, or a wake-up is on its way. -/
theorem binsem_no_lost_V (np : Nat) (vs : List Nat) (sched : List Tid) (s : BinSem.St)
    (hs : s = (BinSem.sys np vs).run sched) (hd : s.doubleV = false) :
    s.nP ≤ s.nV ∧ s.nV ≤ s.nP + 1 ∧ (s.word = 0 ↔ s.nV = s.nP + 1) ∧
    (s.wpc = .parked → (s.word = 2 ∧ s.nV = s.nP) ∨ BinSem.wakePending s = true) := by
  subst hs
  have h := BinSem.reach_inv np vs sched
  have hb := h.bal hd
  refine ⟨?_, ?_, ?_, ?_⟩
  · by_cases hw : ((BinSem.sys np vs).run sched).word = 0
    · have := hb.1 hw; omega
    · have := hb.2 hw; omega
  · by_cases hw : ((BinSem.sys np vs).run sched).word = 0
    · have := hb.1 hw; omega
    · have := hb.2 hw; omega
  · constructor
    · exact hb.1
    · intro hv
      by_cases hw : ((BinSem.sys np vs).run sched).word = 0
      · exact hw
      · have := hb.2 hw; omega
  · intro hp
    rcases h.prk hd hp with e | ⟨_, hwk⟩
    · exact Or.inl ⟨e, hb.2 (by omega)⟩
    · exact Or.inr ((BinSem.wakePending_iff _).mpr hwk)

example : -- non-vacuity: V before the owner parks, and V after it parked (with the wake-up), both complete the P
    let s := (BinSem.sys 1 [1]).run [0, 0, 0, 1, 1, 0, 0]
    s.nP = 1 ∧ s.nV = 1 ∧ s.doubleV = false ∧ s.wpc = .idle := by decide

/-! ### Tso: the 1 × 1 monitor instance with store buffers -/

open Tso in
/-- **No lost wake-up under x86-TSO store buffers** (1 sleeper, 1 notifier; relaxed/release stores are buffered per
thread in FIFO order, loads read the own buffer first, seq_cst fences and — when `rmwFence` — seq_cst RMWs drain):
if both Dekker sides have a store→load barrier (`fencesOK`: the sleeper between its enqueue and its predicate load,
the notifier between its state change and its waitset test), no schedule of instruction and flush actions reaches
the lost-wake-up state (notifier finished, everything flushed, predicate true, sleeper parked with a closed
semaphore). -/
theorem monitor_no_lost_wakeup_tso (o : Orders) (hok : fencesOK o = true) (sched : List Tid) :
    lost ((Tso.sys o).run sched) = false :=
  eff_not_lost o.eff (by rw [← fencesOK_eff]; exact hok) sched

open Tso in
/-- **Necessity of the sleeper's fence**: with `atomic_fence_seq_cst()` removed from `prepare_wait` and the unlock of
the monitor's mutex not acting as a full fence (the C++ abstract machine / ARMv8 reading of a seq_cst exchange; on
x86 the `xchg` of `concurrent_monitor_mutex::unlock` still drains, see `fencesOK`), this schedule loses the wake-up:
the sleeper enqueues (stores buffered), checks the predicate (false), commits and parks; the notifier sets the
predicate, fences, reads the waitset count 0 from memory and returns; then the sleeper's stores drain. -/
theorem monitor_tso_needs_sleeper_fence :
    fencesOK ⟨false, true, true, false, false⟩ = false ∧
    lost ((Tso.sys ⟨false, true, true, false, false⟩).run [0, 0, 0, 0, 1, 1, 1, 2, 2, 2]) = true := by decide

open Tso in
/-- **Necessity of the notifier's fence**: with `atomic_fence_seq_cst()` removed from `notify` (equivalently:
`notify_relaxed` used after a plain-store state change), on x86: the notifier's predicate store stays in its buffer
while it reads the waitset count 0 and returns; the sleeper then enqueues, reads the predicate false from memory,
commits and parks; finally the predicate store drains. -/
theorem monitor_tso_needs_notifier_fence :
    fencesOK ⟨true, true, false, false, true⟩ = false ∧
    lost ((Tso.sys ⟨true, true, false, false, true⟩).run [1, 1, 1, 0, 0, 0, 0, 3]) = true := by decide

open Tso in
/-- The fences the real code executes (memory orders regenerated from the E-SHIM trace of `/repo` on every run,
`Generated/C02.lean`) satisfy `fencesOK` both under the x86 mapping and under the portable reading in which a
seq_cst RMW is not a fence; and `advertise_new_work<work_enqueued>` fences between making the task visible and testing the arena flag. -/
theorem fences_ok_observed :
    fencesOK Generated.C02.ordersX86 = true ∧ fencesOK Generated.C02.ordersPortable = true ∧
    Generated.C02.enqueueFence = true := by decide

open Tso in
/-- `monitor_no_lost_wakeup_tso` instantiated with the observed orders. -/
theorem monitor_no_lost_wakeup_tso_observed (sched : List Tid) :
    lost ((Tso.sys Generated.C02.ordersX86).run sched) = false ∧
    lost ((Tso.sys Generated.C02.ordersPortable).run sched) = false :=
  ⟨monitor_no_lost_wakeup_tso _ fences_ok_observed.1 sched, monitor_no_lost_wakeup_tso _ fences_ok_observed.2.1 sched⟩

/-! ### Flag / ArenaWork -/

/-- **The arena flag never misses work.**  Any number of publishers (`work += 1; fence; test_and_set()`), cleaners
(`try_clear_if(work == 0)`) and consumers, every schedule.  (1) If the flag is UNSET while work is present, some
publisher has made its task visible and is still inside `test_and_set` (it will set the flag and request workers):
never "UNSET ∧ work present ∧ every publisher returned".  (2) Workers are requested exactly while the flag is not
UNSET: `#test_and_set()==true − #try_clear_if()==true = [flag ≠ UNSET]` — a publisher that found the flag SET or
interrupted a clear transaction rightly does not request again, and a cleaner that was interrupted does not
release. -/
theorem flag_no_missed_work (ps cs ts : List Nat) (sched : List Tid) (s : Flag.St)
    (hs : s = (Flag.sys ps cs ts).run sched) :
    (s.flag = 0 → 0 < s.work → ∃ (i : Nat) (p : Flag.Pub), s.pubs[i]? = some p ∧ p.inflight = true) ∧
    s.req = s.rel + (if s.flag = 0 then 0 else 1) := by
  subst hs
  have h := Flag.reach_inv ps cs ts sched
  refine ⟨fun hf hw => Flag.exists_inflight_of_pos ?_, h.d⟩
  have := h.a hf; omega

example : -- non-vacuity: a cleaner interrupted by a publisher between its predicate and its final CAS does not clear
    let s := (Flag.sys [2] [1] []).run [0, 0, 0, 0, 1, 1, 1, 0, 0, 0, 0, 1]
    s.flag = 1 ∧ s.work = 2 ∧ s.req = 1 ∧ s.rel = 0 := by decide

/-! ### concurrent_bounded_queue: blocked push / pop complete; abort wakes everybody

Model `BQ` (Model/C02BQ.lean): N threads running any programs of `push / pop / try_push / try_pop / abort` on one queue of
capacity `cap`, at the granularity of the atomic accesses of `internal_push` / `internal_pop` / `internal_push_if_not_full`
/ `internal_try_pop_impl` / `internal_abort` and of the two `concurrent_monitor`s (`slots_avail`, `items_avail`), each of
which IS a Monitor model instance with ticket-tagged waits (`ctx = cond = target`) and `notify(predicate_leq(ticket))` /
`abort_all` calls.  In every reachable state both monitors satisfy the Monitor invariant (all the `monitor_*` facts above:
`BQ.reach_minv`), for every history. -/

/-- **A blocked `push` / `pop` whose condition has come true is about to be woken** (no lost wake-up on the ticket-tagged
waits).  Any capacity, any number of threads, any programs, any schedule.  Hypothesis `clean` (decidable on the reached
state, monotone along a run) excludes exactly the two history shapes recorded as C09 findings: a `head_counter--` of an
aborted pop executed after a later pop ticket had been handed out ("abort racing a new pop": `raced`), and an invalidated
ticket (an aborted blocked push ran `abort_push`: `ninvalid`; throwing constructors are not in the model's alphabet).
Then, in every reachable state:
(push) a thread in `commit_wait` / parked in `P()` with a closed semaphore on `slots_avail` with context
`target = ticket - my_capacity`, while `head_counter > target` (the slot of its ticket is within the capacity), is owed a
`V` by a notifier that has already dequeued it, or the thread that took pop ticket `target` (its `head_counter++` /
successful CAS made the condition true) still holds its pending `notify(slots_avail, predicate_leq(target))`: it is
between its ticket and the end of that call's wait-set scan, and the scan will dequeue the sleeper (`pendingFor`);
(pop) symmetrically on `items_avail` with context `target`, while `tail_counter > target`, with the thread that took push
ticket `target`. -/
theorem bq_blocked_ops_complete (cap : Nat) (progs : List (List BQ.Op)) (sched : List Tid) (s : BQ.St)
    (hs : s = (BQ.sys cap progs).run sched) (hclean : s.clean = true) :
    (∀ (i : Nat) (sl : Sleeper), s.slots.slp[i]? = some sl → (sl.pc = .commit ∨ sl.pc = .park) → sl.sem = 0 →
      sl.ctx < s.head →
      (∃ (j : Nat) (n : Notifier), s.slots.ntf[j]? = some n ∧ i ∈ n.temp) ∨
      (∃ (j : Nat) (th : BQ.Thr) (n : Notifier), s.thr[j]? = some th ∧ s.slots.ntf[j]? = some n ∧
        th.ops ≠ [] ∧ th.ticket = sl.ctx ∧ BQ.popPending th.pc = true ∧ pendingFor n sl.ctx sl.ctx = true)) ∧
    (∀ (i : Nat) (sl : Sleeper), s.items.slp[i]? = some sl → (sl.pc = .commit ∨ sl.pc = .park) → sl.sem = 0 →
      sl.ctx < s.tail →
      (∃ (j : Nat) (n : Notifier), s.items.ntf[j]? = some n ∧ i ∈ n.temp) ∨
      (∃ (j : Nat) (th : BQ.Thr) (n : Notifier), s.thr[j]? = some th ∧ s.items.ntf[j]? = some n ∧
        th.ops ≠ [] ∧ th.ticket = sl.ctx ∧ BQ.pushPending th.pc = true ∧ pendingFor n sl.ctx sl.ctx = true)) := by
  subst hs
  have hA := BQ.reach_all cap progs sched
  obtain ⟨hjS, hjI⟩ := hA.j.j hclean
  constructor
  · intro i sl hi hpc hsem hlt
    rcases BQ.mon_parked hA.m.slots hjS hi hpc hsem hlt with h | ⟨j, n, hj, hp⟩
    · exact Or.inl h
    · right
      have hjl : j < ((BQ.sys cap progs).run sched).thr.length := by rw [← hA.l.lenS]; exact getElem?_lt hj
      obtain ⟨k, r, rest, ho⟩ := BQ.pendingFor_ops hp
      obtain ⟨a, b, c⟩ := BQ.linkS_leq (hA.l.ls j _ n (List.getElem?_eq_getElem hjl) hj) ho
      exact ⟨j, _, n, List.getElem?_eq_getElem hjl, hj, a, b, c, hp⟩
  · intro i sl hi hpc hsem hlt
    rcases BQ.mon_parked hA.m.items hjI hi hpc hsem hlt with h | ⟨j, n, hj, hp⟩
    · exact Or.inl h
    · right
      have hjl : j < ((BQ.sys cap progs).run sched).thr.length := by rw [← hA.l.lenI]; exact getElem?_lt hj
      obtain ⟨k, r, rest, ho⟩ := BQ.pendingFor_ops hp
      obtain ⟨a, b, c⟩ := BQ.linkI_leq (hA.l.li j _ n (List.getElem?_eq_getElem hjl) hj) ho
      exact ⟨j, _, n, List.getElem?_eq_getElem hjl, hj, a, b, c, hp⟩

/-- **`abort()` wakes every blocked thread — for EVERY history** (no hypothesis: aborted pushes, invalid tickets and
racing aborts included).  A thread parked in `P()` with a closed semaphore on either monitor whose `old_abort_counter`
differs from `my_abort_counter` (some `abort()` has incremented the counter since the operation began) is owed a `V` by a
notifier that has already dequeued it, or an `abort_all()` of that monitor is still before its flush of the wait set (it
is between the `++my_abort_counter` and the flush, and the flush takes the whole wait set:
`monitor_abort_wakes_all`). -/
theorem bq_abort_wakes_all (cap : Nat) (progs : List (List BQ.Op)) (sched : List Tid) (s : BQ.St)
    (hs : s = (BQ.sys cap progs).run sched) (i : Nat) (th : BQ.Thr) (hth : s.thr[i]? = some th) (hold : th.old ≠ s.abortc) :
    (∀ (sl : Sleeper), s.slots.slp[i]? = some sl → sl.pc = .park → sl.sem = 0 →
      (∃ (j : Nat) (n : Notifier), s.slots.ntf[j]? = some n ∧ i ∈ n.temp) ∨
      (∃ (j : Nat) (n : Notifier), s.slots.ntf[j]? = some n ∧ BQ.pendingAbort n = true)) ∧
    (∀ (sl : Sleeper), s.items.slp[i]? = some sl → sl.pc = .park → sl.sem = 0 →
      (∃ (j : Nat) (n : Notifier), s.items.ntf[j]? = some n ∧ i ∈ n.temp) ∨
      (∃ (j : Nat) (n : Notifier), s.items.ntf[j]? = some n ∧ BQ.pendingAbort n = true)) := by
  subst hs
  have hA := BQ.reach_all cap progs sched
  constructor
  · intro sl hi hpc hsem
    have hne : sl.ops ≠ [] := by intro e; have := hA.m.slots.inv.opsS i sl hi e; rw [this] at hpc; cases hpc
    rcases BQ.mon_parked_abort hA.m.slots hi hpc hsem with hW | h
    · exact Or.inr (hA.k.kS i th sl hth hi hne (Or.inr (Or.inr hpc)) hW hold)
    · exact Or.inl h
  · intro sl hi hpc hsem
    have hne : sl.ops ≠ [] := by intro e; have := hA.m.items.inv.opsS i sl hi e; rw [this] at hpc; cases hpc
    rcases BQ.mon_parked_abort hA.m.items hi hpc hsem with hW | h
    · exact Or.inr (hA.k.kI i th sl hth hi hne (Or.inr (Or.inr hpc)) hW hold)
    · exact Or.inl h

/-- **At quiescence nobody sleeps on a satisfied condition.**  When no thread is inside a `notify` / `abort_all` call or
between a ticket and the `notify` it obliges to (every notifier record of both monitors is idle), then no thread is parked
with a closed semaphore while `my_abort_counter` differs from its snapshot (any history), and — in a clean history — none
while `head_counter > target` (push) / `tail_counter > target` (pop). -/
theorem bq_quiescent_no_sleeper_on_true (cap : Nat) (progs : List (List BQ.Op)) (sched : List Tid) (s : BQ.St)
    (hs : s = (BQ.sys cap progs).run sched)
    (hq : ∀ (j : Nat) (n : Notifier), (s.slots.ntf[j]? = some n ∨ s.items.ntf[j]? = some n) → n.ops = [])
    (i : Nat) (th : BQ.Thr) (hth : s.thr[i]? = some th) (sl : Sleeper) (hpc : sl.pc = .park) (hsem : sl.sem = 0) :
    (s.slots.slp[i]? = some sl → th.old = s.abortc ∧ (s.clean = true → s.head ≤ sl.ctx)) ∧
    (s.items.slp[i]? = some sl → th.old = s.abortc ∧ (s.clean = true → s.tail ≤ sl.ctx)) := by
  have hA : BQ.AllInv s := by rw [hs]; exact BQ.reach_all cap progs sched
  have idleS : ∀ (j : Nat) (n : Notifier), s.slots.ntf[j]? = some n → n.temp = [] ∧ n.ops = [] := by
    intro j n hj
    have ho := hq j n (Or.inl hj)
    exact ⟨((hA.m.slots.inv.ntf j n hj).2.2.2.2.1 ho).1, ho⟩
  have idleI : ∀ (j : Nat) (n : Notifier), s.items.ntf[j]? = some n → n.temp = [] ∧ n.ops = [] := by
    intro j n hj
    have ho := hq j n (Or.inr hj)
    exact ⟨((hA.m.items.inv.ntf j n hj).2.2.2.2.1 ho).1, ho⟩
  constructor
  · intro hi
    constructor
    · apply Classical.byContradiction
      intro hne
      rcases (bq_abort_wakes_all cap progs sched s hs i th hth hne).1 sl hi hpc hsem with ⟨j, n, hj, hm⟩ | ⟨j, n, hj, hp⟩
      · rw [(idleS j n hj).1] at hm; simp at hm
      · simp [BQ.pendingAbort, (idleS j n hj).2] at hp
    · intro hc
      apply Classical.byContradiction
      intro hlt
      rcases (bq_blocked_ops_complete cap progs sched s hs hc).1 i sl hi (Or.inr hpc) hsem (by omega) with ⟨j, n, hj, hm⟩ | ⟨j, _, n, _, hj, _, _, _, hp⟩
      · rw [(idleS j n hj).1] at hm; simp at hm
      · rw [BQ.pendingFor_idle' (idleS j n hj).2] at hp; cases hp
  · intro hi
    constructor
    · apply Classical.byContradiction
      intro hne
      rcases (bq_abort_wakes_all cap progs sched s hs i th hth hne).2 sl hi hpc hsem with ⟨j, n, hj, hm⟩ | ⟨j, n, hj, hp⟩
      · rw [(idleI j n hj).1] at hm; simp at hm
      · simp [BQ.pendingAbort, (idleI j n hj).2] at hp
    · intro hc
      apply Classical.byContradiction
      intro hlt
      rcases (bq_blocked_ops_complete cap progs sched s hs hc).2 i sl hi (Or.inr hpc) hsem (by omega) with ⟨j, n, hj, hm⟩ | ⟨j, _, n, _, hj, _, _, _, hp⟩
      · rw [(idleI j n hj).1] at hm; simp at hm
      · rw [BQ.pendingFor_idle' (idleI j n hj).2] at hp; cases hp

/-! non-vacuity: (1) capacity 1, the second `push` of thread 0 parks on `slots_avail` (clean history); the `pop` of thread
1 takes ticket 0 — now `head_counter > target` and the popper is the pending notifier the theorem names.  (2) a parked
`pop`, then `++my_abort_counter`: the aborter's `abort_all(items_avail)` is pending.  (3) the hypothesis `clean` is
needed: after an aborted blocked push (ticket 1 invalidated by `abort_push`) the pop that skips ticket 1 never notifies
`slots_avail` for it: the pusher of ticket 2 stays parked with `head_counter = 3 > target = 1`, no `V` owed, no notifier
pending for it, while the popper spins for item 2 (the C09 finding `bounded-pop-skips-invalid-ticket-without-notify-deadlock`). -/
set_option maxRecDepth 100000 in
example :
    let s := (BQ.sys 1 [[.push, .push], [.pop]]).run (List.replicate 20 0 ++ [1, 1])
    s.clean = true ∧ s.head = 1 ∧ (s.slots.slp[0]?.map (fun sl => (sl.pc, sl.sem, sl.ctx))) = some (.park, 0, 0) ∧
    (s.thr[1]?.map (fun th => (th.pc, th.ticket))) = some (.qLoadTail, 0) ∧
    (s.slots.ntf[1]?.map (fun n => pendingFor n 0 0)) = some true := by decide
set_option maxRecDepth 100000 in
example :
    let s := (BQ.sys 1 [[.abort], [.pop]]).run (List.replicate 14 1 ++ [0])
    s.abortc = 1 ∧ (s.items.slp[1]?.map (fun sl => (sl.pc, sl.sem))) = some (.park, 0) ∧ (s.thr[1]?.map (·.old)) = some 0 ∧
    (s.items.ntf[0]?.map BQ.pendingAbort) = some true := by decide
set_option maxRecDepth 100000 in
example :
    let s := (BQ.sys 1 [[.push], [.push], [.push], [.abort], [.pop, .pop]]).run
      (List.replicate 6 0 ++ List.replicate 13 1 ++ List.replicate 11 3 ++ [1, 1] ++ List.replicate 13 2 ++ List.replicate 15 4)
    s.clean = false ∧ s.head = 3 ∧ (s.slots.slp[2]?.map (fun sl => (sl.pc, sl.sem, sl.ctx))) = some (.park, 0, 1) ∧
    (s.slots.ntf.all fun n => n.temp.isEmpty && !pendingFor n 1 1) = true ∧
    (s.thr.map (·.pc)) = [.pLoadAbort, .pLoadAbort, .pWait, .pLoadAbort, .qConsume] ∧ s.published 2 = none := by decide

/-! ### arena::enqueue_task: the demand an enqueued task keeps registered

Model `AE` (Model/C02AE.lean): any number of threads running any programs of `enq` (`arena::enqueue_task` →
`advertise_new_work<work_enqueued>`), `oow` (`arena::out_of_work`) and `takeF` (a task of the fifo stream is taken) on
one arena with `my_num_slots > my_num_reserved_slots`, `W = my_max_num_workers` (0 = worker-less arena) and a configured
soft limit `soft0` (0 = `max_allowed_parallelism = 1`); the two three-state flags are `Flag` model instances at access
granularity, `threading_control_impl::adjust_demand` = the proxy's `fetch_add` + enable/disable re-check + the market's
critical section. -/

/-- **An enqueued task keeps a worker requested — for every schedule of enqueuers, leaving threads and the demand
bookkeeping, with any soft limit, also for a worker-less arena.**  In every reachable state in which no `enqueue` is in
progress (threads may be anywhere inside `out_of_work` or a pending withdrawal of demand) and a task sits in the fifo
stream: both flags are set (`my_mandatory_concurrency`, `my_pool_state`); `arena::my_mandatory_requests ≥ 1` and
`my_total_num_workers_requested ≥ 1`, so the client's `min_workers = 1` and `max_workers ≥ 1`; the proxy's
`my_num_mandatory_requests ≥ 1`; the serializer's soft limit is ≥ 1 — with a configured soft limit 0 mandatory
concurrency is enabled (the enable check of the `fetch_add` that crossed 0 → 1 has run); and the waiting-threads monitor
has been notified at least once (`request_workers(..., wakeup_threads = true)`; what the notification does to parked
threads is `monitor_no_lost_wakeup` / `wait_ctx_sleep_no_loss_mixed`). -/
theorem arena_enqueue_mandatory (W soft0 : Nat) (progs : List (List AE.Op)) (sched : List Tid) (s : AE.St)
    (hs : s = (AE.sys W soft0 progs).run sched)
    (hq : ∀ (i : Nat) (th : AE.Thr), s.thr[i]? = some th → th.advertising = false)
    (hf : 0 < s.fm.work) :
    s.fm.flag ≠ 0 ∧ s.fp.flag ≠ 0 ∧ 1 ≤ s.mandReq ∧ 1 ≤ s.totalReq ∧ s.minW = 1 ∧ 1 ≤ s.maxW ∧ 1 ≤ s.numMand ∧
    1 ≤ s.soft ∧ (s.soft0 = 0 → s.enabled = true) ∧ 1 ≤ s.wakeups := by
  subst hs
  exact AE.enqueue_demand (AE.reach_all W soft0 progs sched) hq hf

/-- **The bookkeeping is exact.**  In every reachable state: what the market registered plus what threads still hold as
not-yet-applied deltas equals what the mandatory flag says (`my_mandatory_requests + pending = [flag ≠ UNSET]`), likewise
for the proxy's counter; a flag is UNSET while tasks are in the stream only if an `enqueue` is still on its way to set it
(`flag_no_missed_work` for both flags); `mandatory_delta ∈ {-1, 0, 1}`. -/
theorem arena_demand_accounting (W soft0 : Nat) (progs : List (List AE.Op)) (sched : List Tid) (s : AE.St)
    (hs : s = (AE.sys W soft0 progs).run sched) :
    s.mandReq + AE.tsum AE.pendM s = (if s.fm.flag = 0 then 0 else 1) ∧
    s.numMand + AE.tsum AE.pendP s = (if s.fm.flag = 0 then 0 else 1) ∧
    (s.fm.flag = 0 → s.fm.work ≤ Flag.nAll s.fm) ∧ (s.fp.flag = 0 → s.fp.work ≤ Flag.nAll s.fp) ∧ s.fm.work ≤ s.fp.work ∧
    (∀ (i : Nat) (th : AE.Thr), s.thr[i]? = some th → -1 ≤ th.md ∧ th.md ≤ 1) := by
  subst hs
  have h := AE.reach_all W soft0 progs sched
  have d := h.sv.fm.d
  refine ⟨?_, ?_, h.sv.fm.a, h.sv.fp.a, h.wi.wle, fun i th hi => (h.bd i th hi).2⟩
  · rw [h.ac.a1]; split <;> simp_all <;> omega
  · rw [h.ac.a2]; split <;> simp_all <;> omega

/-! non-vacuity: (1) one `enqueue` into an arena with one worker slot under a zero soft limit, nobody else: the demand is
registered and mandatory concurrency enabled; the same for a worker-less arena (`W = 0`: `workers_delta = 1`).
(2) the race of the assignment: the last worker's `out_of_work` has switched the mandatory flag to `busy` and found the
stream empty when a second `enqueue` publishes its task and interrupts the clear transaction: the cleaner's final CAS
fails, nothing is withdrawn, `my_mandatory_requests` stays 1. -/
example :
    let s := (AE.sys 1 0 [[.enq]]).run (List.replicate 11 0)
    s.fm.work = 1 ∧ (s.thr.all fun th => !th.advertising) = true ∧ s.mandReq = 1 ∧ s.totalReq = 1 ∧ s.enabled = true ∧
    s.soft = 1 ∧ s.wakeups = 1 := by decide
example :
    let s := (AE.sys 0 0 [[.enq]]).run (List.replicate 11 0)
    s.fm.work = 1 ∧ s.mandReq = 1 ∧ s.totalReq = 1 ∧ s.minW = 1 ∧ s.maxW = 1 := by decide
example :
    let s := (AE.sys 1 0 [[.enq, .enq], [.takeF, .oow]]).run
      (List.replicate 11 0 ++ List.replicate 6 1 ++ List.replicate 11 0 ++ List.replicate 12 1)
    s.fm.work = 1 ∧ s.fm.flag = 1 ∧ s.mandReq = 1 ∧ s.numMand = 1 ∧ s.totalReq = 1 ∧
    (s.thr.map (·.ops)) = [[], []] := by decide

/-! ### task_arena::execute waiting for a slot

Model `EX` (Model/C02EX.lean): N application threads calling `task_arena::execute` on one arena with `S` slots that an
external thread may occupy, at the granularity of the atomic accesses of `task_arena_impl::execute` (the first
`occupy_free_slot`, `enqueue_task(delegated_task)`, the loop `prepare_wait` / `wo.continue_execution()` /
`occupy_free_slot` / `cancel_wait` | `commit_wait`, the baton `notify_one()` after the loop, `r1::wait(wo)` inside the
arena, `~nested_arena_context`: `slot.release()` + `my_exit_monitors.notify_one()`, `~delegated_task`, `~thread_context`),
of `delegated_task::finalize()` (`m_wait_ctx.release()`; `m_monitor.notify(ctx == &m_delegate)`, run by whichever thread
executes the task) and of `arena::occupy_free_slot` (one step per `try_occupy()`, any scan order).  The exit monitor IS a
Monitor model instance: in every reachable state it satisfies the Monitor invariant (`EX.reach_mon`), so all `monitor_*`
facts above hold for it. -/

/-- **A thread waiting in `task_arena::execute` whose delegated task has been executed by somebody else is woken.**  Any
number of threads, slots, calls, any schedule.  In every reachable state: a waiter `t` in `commit_wait` or parked in `P()`
with a closed semaphore, while the `wait_context` of its delegated task is released (`wo.continue_execution()` would
return false: the executor ran `m_wait_ctx.release()`), is owed a `V` by a notifier that has already dequeued it, or the
`finalize()` of its delegated task is still before the end of its `notify(ctx == &m_delegate)` scan of the exit monitor,
and that scan dequeues the waiter (`pendingFor`: the waiter's context is `&m_delegate`). -/
theorem execute_waiter_woken (S : Nat) (calls : List Nat) (sched : List Tid) (s : EX.St)
    (hs : s = (EX.sys S calls).run sched) (t : Nat) (sl : Sleeper) (hsl : s.mon.slp[t]? = some sl)
    (hpc : sl.pc = .commit ∨ sl.pc = .park) (hsem : sl.sem = 0) (hdone : s.mon.cond t = true) :
    (∃ (j : Nat) (n : Notifier), s.mon.ntf[j]? = some n ∧ t ∈ n.temp) ∨
    (∃ (j : Nat) (n : Notifier), s.mon.ntf[j]? = some n ∧ pendingFor n t (t + 1) = true) := by
  subst hs
  exact EX.completed_core (EX.reach_mon S calls sched) hsl hpc hsem hdone

/-- **A slot released between the waiter's re-check and `commit_wait` is not missed.**  In every reachable state: a
waiter `t` that is in the wait set of the exit monitor and whose node epoch is still the monitor's epoch (no notification
has locked the monitor since `prepare_wait` enqueued it — in particular a waiter whose `commit_wait` is about to succeed,
or has just succeeded): every slot `k` that its `occupy_free_slot` found occupied in this round (`k ∉ todo`) and that is
free now was released by a thread `u` that is inside the `my_exit_monitors.notify_one()` following its
`slot.release()` and has not yet locked the monitor (`preBump`: at the fence, the emptiness test — which will see the
waiter's node —, the lock or the epoch store).  So the waiter either fails `commit_wait` (epoch changed) or the
notification is still to come: the window between the predicate re-check and `commit_wait` is closed for `execute`. -/
theorem execute_release_not_missed (S : Nat) (calls : List Nat) (sched : List Tid) (s : EX.St)
    (hs : s = (EX.sys S calls).run sched) (t : Nat) (th : EX.Thr) (sl : Sleeper)
    (hth : s.thr[t]? = some th) (hsl : s.mon.slp[t]? = some sl) (hw : t ∈ s.mon.waitset) (hep : sl.nepoch = s.mon.epoch)
    (k : Nat) (hk : k < s.slots.length) (htried : k ∉ th.todo) (hfree : s.slots.getD k true = false) :
    ∃ (u : Nat) (thu : EX.Thr) (nu : Notifier), s.thr[u]? = some thu ∧ s.mon.ntf[u]? = some nu ∧
      thu.pc = .notify ∧ thu.rel = true ∧ thu.idx = k ∧ preBump nu = true := by
  subst hs
  have h := EX.reach_all S calls sched
  exact h.p.psi t th sl hth hsl (EX.ws_wait h.ld hth hw) hw hep k hk htried hfree

/-- **A parked waiter has seen every slot occupied; if one is free while the monitor's epoch is still the waiter's, the
releaser's `notify_one` is pending.**  (`park` is reached only after the scan failed on every slot: `todo = []`.) -/
theorem execute_parked_sees_release (S : Nat) (calls : List Nat) (sched : List Tid) (s : EX.St)
    (hs : s = (EX.sys S calls).run sched) (t : Nat) (th : EX.Thr) (sl : Sleeper)
    (hth : s.thr[t]? = some th) (hsl : s.mon.slp[t]? = some sl) (hpc : sl.pc = .park) (hw : t ∈ s.mon.waitset)
    (hep : sl.nepoch = s.mon.epoch) (k : Nat) (hk : k < s.slots.length) (hfree : s.slots.getD k true = false) :
    ∃ (u : Nat) (thu : EX.Thr) (nu : Notifier), s.thr[u]? = some thu ∧ s.mon.ntf[u]? = some nu ∧
      thu.pc = .notify ∧ thu.rel = true ∧ thu.idx = k ∧ preBump nu = true := by
  have h : EX.AllInv s := by rw [hs]; exact EX.reach_all S calls sched
  have := (EX.parked_thread h hth hsl hpc).2
  exact execute_release_not_missed S calls sched s hs t th sl hth hsl hw hep k hk (by rw [this]; simp) hfree

/-! non-vacuity: (1) one slot, thread 0 inside the arena, thread 1 parked in the exit monitor; the executor of thread
1's delegated task releases its `wait_context`: `finalize()`'s notification is the pending notifier.  (2) thread 1 has
failed its scan and stands before `commit_wait` with an up-to-date epoch when thread 0 releases the slot: thread 0 is
the pending releaser the theorem names.  (3) what the theorems do NOT claim — and the code does not do: two slots;
`X` (thread 2) occupies slot 1 in its wait loop and is still in the wait set (before `cancel_wait`) when `W` (thread 3)
parks behind it; thread 0 releases slot 0 and its `notify_one` dequeues `X` (`absorbed`): now slot 0 is free, `W` is
parked in the wait set with a stale node epoch, no notification is pending, the only `V` around went to `X`, which is
inside the arena: `W` sleeps until `X` leaves (KNOWN_FINDINGS: execute-wakeup-absorbed-by-entering-waiter). -/
set_option maxRecDepth 100000 in
example :
    let s := (EX.sys 1 [1, 1]).run [0, 1, 1, 1, 1, 1, 1, 1, 1, 1, 1, 1, 1, 1, 3]
    (s.mon.slp[1]?.map (fun sl => (sl.pc, sl.sem))) = some (.park, 0) ∧ s.mon.cond 1 = true ∧ s.mon.waitset = [1] ∧
    (s.mon.ntf[3]?.map (fun n => pendingFor n 1 2)) = some true := by decide
set_option maxRecDepth 100000 in
example :
    let s := (EX.sys 1 [1, 1]).run [0, 1, 1, 1, 1, 1, 1, 1, 1, 1, 1, 1, 1, 0]
    (s.mon.slp[1]?.map (fun sl => (sl.pc, sl.nepoch))) = some (.park, s.mon.epoch) ∧ s.mon.waitset = [1] ∧
    s.slots = [false] ∧ (s.thr[0]?.map (fun th => (th.pc, th.rel, th.idx))) = some (.notify, true, 0) ∧
    (s.mon.ntf[0]?.map preBump) = some true := by decide
set_option maxRecDepth 100000 in
example :
    let s := (EX.sys 2 [1, 1, 1, 1]).run
      [0, 9, 2, 2, 1, 1, 1, 2, 2, 2, 2, 2, 2, 2, 2, 2, 2, 2, 3, 3, 3, 3, 3, 3, 3, 3, 3, 3, 3, 3, 11, 3, 3, 0, 0, 0, 0, 0, 0,
       0, 0, 0, 0, 2, 2, 2, 2, 2, 2]
    s.absorbed = true ∧ s.slots = [false, true] ∧ s.mon.waitset = [3] ∧
    (s.mon.slp[3]?.map (fun sl => (sl.pc, sl.sem, sl.nepoch))) = some (.park, 0, 0) ∧ s.mon.epoch = 1 ∧
    (s.mon.ntf.all fun n => n.ops.isEmpty || n.pc == .set) = true ∧
    (s.thr.map (·.pc)) = [.scan1, .scan1, .inner, .wait] ∧ (s.thr.map (·.ops)) = [0, 0, 1, 1] := by decide

end TbbVerif.C02
